(* RankAccount.v — C01, what a rank does with what it receives, in terms of the ghost history [hist]:
     Rc h   the messages of every MPI response consumed (GResp)
     X h    the uids of the handlers started (GExec)
     fw h   the (rank, message) pairs queued by the forwarding branch of the receive loop (a GEnq not preceded by GSend)
     og h   the pairs queued by async / broadcast legs of this rank (a GEnq right after its GSend)
   Invariant, every procedure / program / oracle / length (Acc with an empty debt at procedure boundaries):
     uids of the received messages addressed to this rank (or broadcast legs, or any message under routing NONE)  ==  X
     the other received messages                                                                                   ==  messages of fw
   i.e. every received message is executed exactly once here or forwarded exactly once, unchanged; nothing else is
   executed or forwarded.  [debt]: messages of a received buffer not yet handled (inside the receive loop). *)
From Coq Require Import ZArith List Bool Lia Permutation.
Import ListNotations.
From Ygm Require Import Bcast RankMachine.
Local Open Scope Z_scope.

Definition is_local (c : cfg) (m : msg) : bool := (c_routing c =? 0) || (mdest m =? c_me c) || (mdest m =? -1).
Definition resp_msgs (r : resp) : list msg :=
  match r with RTestRecv (Some ms) | RWaitSR _ (Some ms) | RWaitIR _ (Some ms) => ms | _ => [] end.

Fixpoint Rc (h : list gev) : list msg := match h with [] => [] | GResp r :: t => resp_msgs r ++ Rc t | _ :: t => Rc t end.
Fixpoint X (h : list gev) : list Z := match h with [] => [] | GExec u :: t => u :: X t | _ :: t => X t end.
Fixpoint fw (h : list gev) : list (Z * msg) :=
  match h with
  | [] => []
  | GEnq d m :: t => (match t with GSend :: _ => [] | _ => [(d, m)] end) ++ fw t
  | _ :: t => fw t
  end.
Fixpoint og (h : list gev) : list (Z * msg) :=
  match h with
  | [] => []
  | GEnq d m :: t => (match t with GSend :: _ => [(d, m)] | _ => [] end) ++ og t
  | _ :: t => og t
  end.
Fixpoint genq (h : list gev) : list (Z * msg) := match h with [] => [] | GEnq d m :: t => (d, m) :: genq t | _ :: t => genq t end.
Definition nohead (h : list gev) : Prop := match h with GSend :: _ => False | _ => True end.

Section Account.
  Variable c : cfg.
  Notation loc := (is_local c).
  Definition nloc (m : msg) : bool := negb (is_local c m).

  Definition AH (debt : list msg) (h : list gev) (e : list (Z * msg)) : Prop :=
    Permutation (map uid (filter loc (Rc h))) (X h ++ map uid (filter loc debt)) /\
    Permutation (filter nloc (Rc h)) (map snd (fw h) ++ filter nloc debt) /\
    e = genq h /\ nohead h.
  Definition A (debt : list msg) (s : st) : Prop := AH debt (hist s) (enq s).

  Lemma AH_plain g debt h e :
    (match g with GRecv | GSnap _ _ | GRes _ => True | _ => False end) -> AH debt h e -> AH debt (g :: h) e.
  Proof. intros Hg (A1 & A2 & A3 & A4). destruct g; try contradiction; repeat split; assumption. Qed.

  Lemma AH_resp r debt h e : AH debt h e -> AH (resp_msgs r ++ debt) (GResp r :: h) e.
  Proof.
    intros (A1 & A2 & A3 & A4). unfold AH. cbn [Rc X fw genq nohead]. rewrite !filter_app, !map_app. repeat split; try assumption.
    - rewrite A1. apply Permutation_app_swap_app.
    - rewrite A2. apply Permutation_app_swap_app.
  Qed.

  Lemma AH_exec m debt h e : loc m = true -> AH (m :: debt) h e -> AH debt (GExec (uid m) :: h) e.
  Proof.
    intros Hm (A1 & A2 & A3 & A4). unfold AH. cbn [Rc X fw genq nohead]. cbn [filter] in A1, A2. unfold nloc in A2. rewrite Hm in A1, A2.
    cbn [negb map] in A1, A2. repeat split; try assumption.
    rewrite A1. symmetry. apply Permutation_middle.
  Qed.

  Lemma AH_fwd d m debt h e : loc m = false -> AH (m :: debt) h e -> AH debt (GEnq d m :: h) ((d, m) :: e).
  Proof.
    intros Hm (A1 & A2 & A3 & A4). unfold AH. cbn [Rc X genq nohead]. cbn [filter] in A1, A2. unfold nloc in A2. rewrite Hm in A1, A2.
    cbn [negb map] in A1, A2.
    assert (Efw : fw (GEnq d m :: h) = (d, m) :: fw h).
    { cbn [fw]. destruct h as [|g t]; [reflexivity|]. destruct g; try reflexivity. contradiction. }
    rewrite Efw. cbn [map snd]. repeat split; try assumption.
    - rewrite A2. symmetry. apply Permutation_middle.
    - f_equal. exact A3.
  Qed.

  Lemma AH_async d m debt h e : AH debt h e -> AH debt (GEnq d m :: GSend :: h) ((d, m) :: e).
  Proof.
    intros (A1 & A2 & A3 & A4). unfold AH. cbn [Rc X fw genq nohead app]. repeat split; try assumption. f_equal. exact A3.
  Qed.

  (* the state-level versions *)
  Lemma A_enq_async d m v debt s : A debt s -> A debt (enqueue c d m (set_scnt v s)).
  Proof. intros H. unfold A, enqueue. destruct (buf_at (set_scnt v s) d); apply AH_async, H. Qed.
  Lemma A_enq_fwd d m debt s : loc m = false -> A (m :: debt) s -> A debt (enqueue c d m s).
  Proof. intros Hm H. unfold A, enqueue. destruct (buf_at s d); apply AH_fwd; assumption. Qed.
  Lemma A_ask e s r rest debt :
    (match e with EIallreduce _ _ | NX _ _ _ => False | _ => True end) ->
    A debt s -> oracle s = r :: rest -> A (resp_msgs r ++ debt) (set_oracle rest (emit e s)).
  Proof.
    intros He H Eo. unfold A. cbn [hist enq set_oracle emit oracle]. rewrite Eo. cbn [hd].
    destruct e; try contradiction; apply AH_resp, H.
  Qed.

  (* at a return the debt is what the caller still owes; a rank blocked in an MPI call (the oracle is exhausted: any cut of an
     execution) owes the rest of the buffers it is processing *)
  Definition resC (P : st -> Prop) (r : res) : Prop :=
    match r with Ok s' => P s' | Blocked s' => exists dd, A dd s' | _ => True end.
  Lemma resC_bind (P1 P2 : st -> Prop) r f : resC P1 r -> (forall s1, P1 s1 -> resC P2 (f s1)) -> resC P2 (r >>= f).
  Proof. destruct r; cbn; auto. Qed.

  Definition specA (fu : nat) (p : proc) (s : st) : Prop :=
    let R := run fu c p s in
    match p with
    | PHandle ms | PHandleLoop ms => forall debt, A (ms ++ debt) s -> resC (A debt) R
    | PExec m => loc m = true -> forall debt, A (m :: debt) s -> resC (A debt) R
    | _ => forall debt, A debt s -> resC (A debt) R
    end.

  Theorem account_all : forall fu p s, specA fu p s.
  Proof.
    induction fu as [|fu IH]; [intros p s; destruct p; cbn; intros; exact I|].
    intros p s. destruct p; unfold specA; cbv zeta.
    - (* PActs *)
      intros debt Ha. destruct l as [|a rest]; cbn [run]; [exact Ha|].
      eapply resC_bind with (P1 := A debt); [|intros s1 K1; exact (IH (PActs rest) s1 debt K1)].
      destruct a.
      + eapply resC_bind with (P1 := A debt); [apply (IH (PAsync _) (emit (NO u) s) debt); exact Ha|].
        intros s1 K1. cbn. destruct (inmain s1); exact K1.
      + eapply resC_bind with (P1 := A debt); [apply (IH PCheckHalt (emit (NO u) s) debt); exact Ha|].
        intros s1 K1. eapply resC_bind with (P1 := A debt); [apply (IH (PAsync _) s1 debt K1)|]. intros s2 K2. exact K2.
      + eapply resC_bind with (P1 := A debt); [apply (IH (PAsync _) (emit (NO u) s) debt); exact Ha|]. intros s1 K1. exact K1.
      + eapply resC_bind with (P1 := A debt); [apply (IH (PBcast _) (emit (NO u) s) debt); exact Ha|]. intros s1 K1. exact K1.
      + eapply resC_bind with (P1 := A debt); [apply (IH (PMcast _ _) (emit (NO u) s) debt); exact Ha|]. intros s1 K1. exact K1.
      + eapply resC_bind with (P1 := A debt); [apply (IH PBarrier (emit (NBI (nbar s + 1)) (set_nbar (nbar s + 1) s)) debt); exact Ha|].
        intros s1 K1. exact K1.
      + unfold ask. cbn [oracle emit]. destruct (oracle s) as [|r rest0] eqn:Eo; [exists debt; exact Ha|].
        pose proof (A_ask ECfBarrier s r rest0 debt I Ha Eo) as K1. destruct r; try exact I. exact K1.
      + apply (IH PLocalProgress s debt Ha).
      + apply (IH (PWaitUntil f) s debt Ha).
      + exact Ha.
      + exact Ha.
      + destruct (masks s); exact Ha.
      + exact Ha.
      + exact Ha.
      + unfold ask. cbn [oracle emit]. destruct (oracle s) as [|r rest0] eqn:Eo; [exists debt; exact Ha|].
        pose proof (A_ask EColl s r rest0 debt I Ha Eo) as K1. destruct r; try exact I. exact K1.
    - (* PAsync *)
      intros debt Ha. cbn [run].
      eapply resC_bind with (P1 := A debt).
      { destruct (hk m =? 1)%nat; [exact Ha|]. apply (IH PCheckHalt s debt Ha). }
      intros s1 K1.
      pose proof (A_enq_async (next_hop c (mdest m)) m (scnt s1 + 1) debt s1 K1) as K3.
      apply (IH PFlushToCap _ debt K3).
    - (* PQueueBytes *)
      intros debt Ha. cbn [run]. exact (A_enq_async d m (scnt s + 1) debt s Ha).
    - (* PBcast *)
      intros debt Ha. cbn [run].
      eapply resC_bind with (P1 := A debt); [apply (IH PCheckHalt s debt Ha)|]. intros s1 K1.
      eapply resC_bind with (P1 := A debt); [apply (IH (PQueueMany _ _) s1 debt K1)|]. intros s2 K2.
      apply (IH PFlushToCap s2 debt K2).
    - (* PMcast *)
      intros debt Ha. destruct ds as [|d ds]; cbn [run]; [exact Ha|].
      eapply resC_bind with (P1 := A debt); [apply (IH (PAsync _) s debt Ha)|].
      intros s1 K1. apply (IH (PMcast ds m) s1 debt K1).
    - (* PCheckHalt *)
      intros debt Ha. cbn [run]. destruct (intr s && negb (inprq s) && (c_cap c <? pend s)); [|exact Ha].
      eapply resC_bind with (P1 := A debt); [apply (IH PPrq s debt Ha)|]. intros s1 K1. apply (IH PCheckHalt s1 debt K1).
    - (* PFlushToCap *)
      intros debt Ha. cbn [run]. destruct (c_cap c <? sbb s); [|exact Ha].
      destruct (dq s) as [|d t]; [exact I|].
      eapply resC_bind with (P1 := A debt); [apply (IH (PFlushBuf d) (set_dq t s) debt); exact Ha|].
      intros s1 K2. apply (IH PFlushToCap s1 debt K2).
    - (* PFlushBuf *)
      intros debt Ha. cbn [run]. destruct (buf_at s d) as [|m0 ms0]; [exact Ha|]. cbv zeta.
      match goal with |- resC _ (if inprq ?x then _ else _) => set (s3 := x) end.
      assert (K3 : A debt s3) by (subst s3; destruct (0 <? c_freq c); exact Ha).
      destruct (inprq s3); [exact K3|apply (IH PPrq s3 debt K3)].
    - (* PPrq *)
      intros debt Ha. cbn [run]. destruct (inprq s); [exact I|].
      set (s0 := set_ret false (set_inprq true s)).
      assert (K0 : A debt s0) by exact Ha.
      destruct (negb (intr s0)); [exact Ha|].
      eapply resC_bind with (P1 := A debt).
      + destruct (c_nisw c <? Z.of_nat (length (sendq s0))).
        * unfold ask. cbn [oracle emit]. destruct (oracle s0) as [|r rest] eqn:Eo; [exists debt; exact K0|].
          pose proof (A_ask EWaitSR s0 r rest debt I K0 Eo) as K1.
          destruct r; try exact I. cbn [resp_msgs] in K1.
          set (s1 := set_oracle rest (emit EWaitSR s0)) in *.
          set (s2 := if send_done then match sendq s1 with [] => s1 | z :: t => set_sendq t (set_pend (pend s1 - z) s1) end else s1).
          destruct data as [ms|].
          -- assert (K2 : A (ms ++ debt) (set_ret true s2)) by (subst s2; destruct send_done; [destruct (sendq s1)|]; exact K1).
             eapply resC_bind with (P1 := A debt); [apply (IH (PHandle ms) (set_ret true s2) debt K2)|]. intros s3 K3. exact K3.
          -- assert (K2 : A debt s2) by (subst s2; destruct send_done; [destruct (sendq s1)|]; exact K1). exact K2.
        * destruct (sendq s0) as [|z t]; [exact K0|].
          unfold ask. cbn [oracle emit]. destruct (oracle s0) as [|r rest] eqn:Eo; [exists debt; exact K0|].
          pose proof (A_ask ETestSend s0 r rest debt I K0 Eo) as K1.
          destruct r; try exact I. cbn [resp_msgs app] in K1. destruct flag; exact K1.
      + intros s4 K4.
        eapply resC_bind with (P1 := A debt); [apply (IH PLocalIncoming (set_ret false s4) debt); exact K4|].
        intros s5 K5. exact K5.
    - (* PLocalIncoming *)
      intros debt Ha. cbn [run]. unfold ask. cbn [oracle emit]. destruct (oracle s) as [|r rest] eqn:Eo; [exists debt; exact Ha|].
      pose proof (A_ask ETestRecv s r rest debt I Ha Eo) as K1.
      destruct r; try exact I. cbn [resp_msgs] in K1. destruct data as [ms|]; [|exact K1].
      eapply resC_bind with (P1 := A debt); [apply (IH (PHandle ms) _ debt K1)|]. intros s2 K2.
      eapply resC_bind with (P1 := A debt); [apply (IH PLocalIncoming s2 debt K2)|]. intros s3 K3. exact K3.
    - (* PHandle *)
      intros debt Ha. cbn [run]. cbv zeta.
      eapply resC_bind with (P1 := A debt); [apply (IH (PHandleLoop ms) (set_inprq true s) debt); exact Ha|].
      intros s1 K1. apply (IH PFlushToCap (emit EIrecv (set_inprq (inprq s) s1)) debt). exact K1.
    - (* PHandleLoop *)
      intros debt Ha. destruct ms as [|m rest]; cbn [run]; [exact Ha|]. cbn [app] in Ha.
      eapply resC_bind with (P1 := A (rest ++ debt)); [|intros s1 K1; exact (IH (PHandleLoop rest) s1 debt K1)].
      destruct ((c_routing c =? 0) || (mdest m =? c_me c) || (mdest m =? -1)) eqn:Ecl.
      + eapply resC_bind with (P1 := A (rest ++ debt)); [apply (IH (PExec m) s Ecl (rest ++ debt) Ha)|]. intros s1 K1.
        unfold A. cbn [resC hist enq set_rcnt]. apply AH_plain; [exact I|exact K1].
      + apply (IH PFlushToCap _ (rest ++ debt)). apply A_enq_fwd; [exact Ecl|exact Ha].
    - (* PExec *)
      intros Hm debt Ha. cbn [run]. cbv zeta.
      set (s1 := set_inmain false (set_depth _ (emit _ s))).
      assert (K1 : A debt s1) by (subst s1; unfold A; cbn [hist enq set_inmain set_depth emit]; apply AH_exec; [exact Hm|exact Ha]).
      eapply resC_bind with (P1 := A debt).
      + destruct (stage m) as [|[|[|?]]]; try exact K1.
        * apply (IH (PQueueMany _ _) s1 debt K1).
        * apply (IH (PQueueMany _ _) s1 debt K1).
      + intros s2 K2.
        eapply resC_bind with (P1 := A debt); [apply (IH (PActs (c_hprog c (uid m))) s2 debt K2)|]. intros s3 K3. exact K3.
    - (* PQueueMany *)
      intros debt Ha. destruct ds as [|d ds]; cbn [run]; [exact Ha|].
      eapply resC_bind with (P1 := A debt); [apply (IH (PQueueBytes d m) s debt Ha)|]. intros s1 K1. apply (IH (PQueueMany ds m) s1 debt K1).
    - (* PLocalProgress *)
      intros debt Ha. cbn [run].
      eapply resC_bind with (P1 := A debt); [destruct (inprq s); [exact Ha|apply (IH PPrq s debt Ha)]|].
      intros s1 K1. destruct (dq s1) as [|d t]; [exact K1|]. apply (IH (PFlushBuf d) (set_dq t s1) debt). exact K1.
    - (* PWaitUntil *)
      intros debt Ha. cbn [run]. destruct (has_flag s f); [exact Ha|].
      eapply resC_bind with (P1 := A debt); [apply (IH PLocalProgress s debt Ha)|]. intros s1 K1. apply (IH (PWaitUntil f) s1 debt K1).
    - (* PFlushAll *)
      intros debt Ha. cbn [run].
      eapply resC_bind with (P1 := A debt); [apply (IH PPrq s debt Ha)|]. intros s1 K1.
      eapply resC_bind with (P1 := A debt); [apply (IH PFlushAllCbs s1 debt K1)|]. intros s2 K2.
      eapply resC_bind with (P1 := A debt); [apply (IH PFlushAllDq s2 debt K2)|]. intros s3 K3.
      eapply resC_bind with (P1 := A debt); [apply (IH PFlushAllSq s3 debt K3)|]. intros s4 K4.
      destruct (ret s4); [apply (IH PFlushAll s4 debt K4)|exact K4].
    - (* PFlushAllCbs *)
      intros debt Ha. cbn [run]. destruct (cbs s) as [|id t]; [exact Ha|]. cbv zeta.
      eapply resC_bind with (P1 := A debt); [apply (IH (PActs (c_cbprog c id)) _ debt); exact Ha|].
      intros s1 K1. apply (IH PFlushAllCbs _ debt). exact K1.
    - (* PFlushAllDq *)
      intros debt Ha. cbn [run]. destruct (dq s) as [|d t]; [exact Ha|].
      eapply resC_bind with (P1 := A debt); [apply (IH (PFlushBuf d) (set_dq t s) debt); exact Ha|]. intros s1 K2.
      eapply resC_bind with (P1 := A debt); [apply (IH PPrq s1 debt K2)|]. intros s2 K3.
      apply (IH PFlushAllDq (set_ret true s2) debt). exact K3.
    - (* PFlushAllSq *)
      intros debt Ha. cbn [run]. destruct (sendq s) as [|z t]; [exact Ha|]. cbv zeta.
      eapply resC_bind with (P1 := A debt); [apply (IH PPrq s debt Ha)|]. intros s1 K1.
      apply (IH PFlushAllSq (set_ret (ret s || ret s1) s1) debt). exact K1.
    - (* PBarrier *)
      intros debt Ha. cbn [run].
      eapply resC_bind with (P1 := A debt); [apply (IH PFlushAll s debt Ha)|]. intros s1 K1.
      apply (IH PBarrierLoop (set_prev (1, 2) (set_cur (3, 4) s1)) debt).
      unfold A. cbn [hist enq set_prev set_cur]. apply AH_plain; [exact I|exact K1].
    - (* PBarrierLoop *)
      intros debt Ha. cbn [run]. destruct (cur s) as (c1, c2).
      destruct ((c1 =? c2) && (fst (prev s) =? c1) && (snd (prev s) =? c2)).
      + destruct (cbs s); [destruct (dq s)|]; try exact I. exact Ha.
      + eapply resC_bind with (P1 := A debt); [apply (IH PReduceCounts (set_prev (c1, c2) s) debt); exact Ha|]. intros s1 K1.
        eapply resC_bind with (P1 := A debt); [destruct (fst (cur s1) =? snd (cur s1)); [exact K1|apply (IH PFlushAll s1 debt K1)]|].
        intros s2 K2. apply (IH PBarrierLoop s2 debt K2).
    - (* PReduceCounts *)
      intros debt Ha. cbn [run]. destruct (negb ((pend s =? 0) && (sbb s =? 0))); [exact I|].
      apply (IH PReduceLoop (emit (EIallreduce (rcnt s) (scnt s)) (set_red_done false s)) debt).
      unfold A. cbn [hist enq emit set_red_done]. apply AH_plain; [exact I|exact Ha].
    - (* PReduceLoop *)
      intros debt Ha. cbn [run]. destruct (red_done s); [exact Ha|].
      unfold ask. cbn [oracle emit]. destruct (oracle s) as [|r rest] eqn:Eo; [exists debt; exact Ha|].
      pose proof (A_ask EWaitIR s r rest debt I Ha Eo) as K1.
      destruct r; try exact I. cbn [resp_msgs] in K1.
      set (s1 := set_oracle rest (emit EWaitIR s)) in *.
      eapply resC_bind with (P1 := A debt); [|intros s3 K3; exact (IH PReduceLoop s3 debt K3)].
      destruct data as [ms|].
      + assert (K2 : A (ms ++ debt) (match result with Some v => set_red_done true (set_cur v s1) | None => s1 end)).
        { destruct result; [|exact K1]. unfold A. cbn [hist enq set_red_done set_cur]. apply AH_plain; [exact I|exact K1]. }
        eapply resC_bind with (P1 := A debt); [apply (IH (PHandle ms) _ debt K2)|]. intros s3 K3. apply (IH PFlushAll s3 debt K3).
      + cbn [app] in K1. destruct result; [|exact K1]. unfold A. cbn [hist enq set_red_done set_cur]. apply AH_plain; [exact I|exact K1].
  Qed.
End Account.

(* the whole life of a rank, at its end and at every cut (Blocked: the oracle is exhausted inside an MPI call) *)
Theorem rank_accounts c fuel nranks main orc :
  match run_rank fuel c nranks main orc with
  | Ok s' => A c [] s'
  | Blocked s' => exists dd, A c dd s'
  | _ => True
  end.
Proof.
  unfold run_rank.
  assert (A0 : A c [] (init_st nranks orc)).
  { unfold A, AH, init_st. cbn. repeat split; constructor. }
  pose proof (account_all c fuel (PActs main) (init_st nranks orc) [] A0) as H1. cbv zeta in H1.
  destruct (run fuel c (PActs main) (init_st nranks orc)) as [s1|s1| |]; cbn [bind]; try exact I; [|exact H1].
  pose proof (account_all c fuel PBarrier s1 [] H1) as H2. cbv zeta in H2.
  destruct (run fuel c PBarrier s1); try exact I; exact H2.
Qed.

(* a handler starts only for a received message that addresses this rank (or a broadcast leg; any message under routing NONE,
   where senders address the destination directly) - and each such message starts at most one *)
Lemma executes_only_what_addresses_it c debt s u :
  A c debt s -> In u (X (hist s)) -> exists m, In m (Rc (hist s)) /\ is_local c m = true /\ uid m = u.
Proof.
  intros (A1 & _) Hu.
  assert (Hin : In u (map uid (filter (is_local c) (Rc (hist s))))).
  { eapply Permutation_in; [symmetry; exact A1|]. apply in_or_app. left. exact Hu. }
  apply in_map_iff in Hin as (m & Em & Hm). apply filter_In in Hm as (Hm1 & Hm2). exists m. repeat split; assumption.
Qed.

(* every queued pair is either a forward or an origination *)
Lemma genq_split h : Permutation (genq h) (fw h ++ og h).
Proof.
  induction h as [|g h IH]; [constructor|]. destruct g; cbn [genq fw og]; try exact IH.
  destruct h as [|g2 h2]; [cbn; constructor; exact IH|].
  destruct g2; cbn [app]; try (constructor; exact IH).
  apply Permutation_cons_app. exact IH.
Qed.

