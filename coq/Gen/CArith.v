(* CArith.v — hand-written.  The reading of C/C++ integer semantics that every
   generated file (Gen_*.v, produced by tools/cxx2coq.py from /repo's headers)
   is expressed in.  Part of the trusted base (DESIGN.md §7).

   Every C expression becomes a term of type [option Z] / [option bool]:
   [None] is "the C++ has no defined value here" — signed overflow, division
   by zero, an out-of-range subscript, a failed ASSERT_RELEASE / throw, a read
   of an uninitialised variable.  Nothing is totalised: a theorem that a
   generated function returns [Some _] is a theorem that none of these
   happens. *)
From Coq Require Import ZArith List Bool Lia.
Import ListNotations.
Local Open Scope Z_scope.

Inductive cty := CT (signed : bool) (bits : Z).
Definition s32 := CT true 32.
Definition s64 := CT true 64.
Definition s16 := CT true 16.
Definition u32 := CT false 32.
Definition u64 := CT false 64.
Definition u16 := CT false 16.

Definition cty_lo (t : cty) : Z :=
  match t with CT true b => - 2 ^ (b - 1) | CT false _ => 0 end.
Definition cty_hi (t : cty) : Z :=   (* exclusive *)
  match t with CT true b => 2 ^ (b - 1) | CT false b => 2 ^ b end.
Definition in_cty (t : cty) (z : Z) : Prop := cty_lo t <= z < cty_hi t.

(* result of an arithmetic operation computed in type t *)
Definition cnorm (t : cty) (z : Z) : option Z :=
  match t with
  | CT true _ => if (cty_lo t <=? z) && (z <? cty_hi t) then Some z else None
  | CT false b => Some (z mod 2 ^ b)
  end.

(* integral conversion to type t: modular for both signednesses *)
Definition cwrap (t : cty) (z : Z) : Z :=
  match t with
  | CT true b => (z + 2 ^ (b - 1)) mod 2 ^ b - 2 ^ (b - 1)
  | CT false b => z mod 2 ^ b
  end.

Definition obind {A B} (a : option A) (f : A -> option B) : option B :=
  match a with Some x => f x | None => None end.

(* assignment / initialisation: the right-hand side is evaluated now *)
Definition oforce {A B} (a : option A) (k : option A -> option B) : option B :=
  match a with Some x => k (Some x) | None => None end.

Definition oif {A} (c : option bool) (a b : option A) : option A :=
  match c with Some true => a | Some false => b | None => None end.

Definition cbin (f : Z -> Z -> Z) (t : cty) (a b : option Z) : option Z :=
  match a, b with Some x, Some y => cnorm t (f x y) | _, _ => None end.
Definition cadd := cbin Z.add.
Definition csub := cbin Z.sub.
Definition cmul := cbin Z.mul.
Definition cdiv (t : cty) (a b : option Z) : option Z :=
  match a, b with
  | Some x, Some y => if y =? 0 then None else cnorm t (Z.quot x y)
  | _, _ => None end.
Definition crem (t : cty) (a b : option Z) : option Z :=
  match a, b with
  | Some x, Some y => if y =? 0 then None else cnorm t (Z.rem x y)
  | _, _ => None end.
Definition cshl (t : cty) (a b : option Z) : option Z :=
  match t, a, b with
  | CT sg bits, Some x, Some y =>
      if (0 <=? y) && (y <? bits) then
        (if sg then (if x <? 0 then None else cnorm t (x * 2 ^ y))
         else cnorm t (x * 2 ^ y))
      else None
  | _, _, _ => None end.
Definition cneg (t : cty) (a : option Z) : option Z :=
  match a with Some x => cnorm t (- x) | None => None end.

Definition ccmp (f : Z -> Z -> bool) (a b : option Z) : option bool :=
  match a, b with Some x, Some y => Some (f x y) | _, _ => None end.
Definition clt := ccmp Z.ltb.
Definition cle := ccmp Z.leb.
Definition cgt := ccmp Z.gtb.
Definition cge := ccmp Z.geb.
Definition ceq := ccmp Z.eqb.
Definition cne := ccmp (fun x y => negb (Z.eqb x y)).

Definition cnot (a : option bool) : option bool :=
  match a with Some b => Some (negb b) | None => None end.
(* && and || evaluate the right operand only when needed *)
Definition cand (a b : option bool) : option bool :=
  match a with Some true => b | Some false => Some false | None => None end.
Definition cor (a b : option bool) : option bool :=
  match a with Some true => Some true | Some false => b | None => None end.

Definition ccast (t : cty) (a : option Z) : option Z :=
  match a with Some x => Some (cwrap t x) | None => None end.
Definition cb2z (a : option bool) : option Z :=
  match a with Some true => Some 1 | Some false => Some 0 | None => None end.
Definition cz2b (a : option Z) : option bool :=
  match a with Some x => Some (negb (x =? 0)) | None => None end.

(* v[i] and v.at(i): out of range is an error, never a default *)
Definition cvget (v : list Z) (i : option Z) : option Z :=
  match i with
  | Some z => if z <? 0 then None else nth_error v (Z.to_nat z)
  | None => None end.
Definition cvsize (v : list Z) : option Z := Some (Z.of_nat (length v)).

Definition opair {A B} (a : option A) (b : option B) : option (A * B) :=
  match a, b with Some x, Some y => Some (x, y) | _, _ => None end.

Definition cemit (out : option (list Z)) (x : option Z) : option (list Z) :=
  match out, x with Some l, Some v => Some (l ++ [v]) | _, _ => None end.

(* ------------------------------------------------------------------ *)
(* Rewriting lemmas used by the Gen_*_correct proofs                   *)

Lemma cnorm_s_ok b z : - 2 ^ (b - 1) <= z < 2 ^ (b - 1) -> cnorm (CT true b) z = Some z.
Proof.
  intros H; unfold cnorm; cbn [cty_lo cty_hi].
  destruct (Z.leb_spec (- 2 ^ (b - 1)) z); destruct (Z.ltb_spec z (2 ^ (b - 1))); cbn; try reflexivity; lia.
Qed.

Lemma cnorm_u_ok b z : 0 <= z < 2 ^ b -> cnorm (CT false b) z = Some z.
Proof. intros H; unfold cnorm. now rewrite Z.mod_small. Qed.

Lemma cnorm_s32_ok z : - 2147483648 <= z < 2147483648 -> cnorm s32 z = Some z.
Proof. intros; apply cnorm_s_ok; change (2 ^ (32 - 1)) with 2147483648; lia. Qed.

Lemma cnorm_s16_ok z : - 32768 <= z < 32768 -> cnorm s16 z = Some z.
Proof. intros; apply cnorm_s_ok; change (2 ^ (16 - 1)) with 32768; lia. Qed.

Lemma cnorm_u64_ok z : 0 <= z < 18446744073709551616 -> cnorm u64 z = Some z.
Proof. intros; apply cnorm_u_ok; change (2 ^ 64) with 18446744073709551616; lia. Qed.

Lemma cwrap_u64_ok z : 0 <= z < 18446744073709551616 -> cwrap u64 z = z.
Proof. intros; unfold cwrap, u64; change (2 ^ 64) with 18446744073709551616; now rewrite Z.mod_small. Qed.

Lemma cwrap_s32_ok z : - 2147483648 <= z < 2147483648 -> cwrap s32 z = z.
Proof.
  intros; unfold cwrap, s32. change (2 ^ (32 - 1)) with 2147483648; change (2 ^ 32) with 4294967296.
  rewrite Z.mod_small; lia.
Qed.

Lemma cvget_nth v i : 0 <= i -> cvget v (Some i) = nth_error v (Z.to_nat i).
Proof. intros; unfold cvget. destruct (Z.ltb_spec i 0); [lia | reflexivity]. Qed.

(* tables built as [map f (seq 0 k)] (use with [rewrite ... by lia]) *)
Lemma nth_error_map_seq {A} (f : nat -> A) k i :
  (i < k)%nat -> nth_error (map f (seq 0 k)) i = Some (f i).
Proof.
  intros H. rewrite nth_error_map, nth_error_nth' with (d := 0%nat) by (rewrite seq_length; exact H).
  rewrite seq_nth by exact H. reflexivity.
Qed.

Lemma cvget_map_seq (f : nat -> Z) k i :
  0 <= i < Z.of_nat k -> cvget (map f (seq 0 k)) (Some i) = Some (f (Z.to_nat i)).
Proof. intros H. rewrite cvget_nth by lia. apply nth_error_map_seq. lia. Qed.

Lemma quot_nonneg a b : 0 <= a -> 0 < b -> Z.quot a b = a / b.
Proof. intros; apply Z.quot_div_nonneg; lia. Qed.
Lemma rem_nonneg a b : 0 <= a -> 0 < b -> Z.rem a b = a mod b.
Proof. intros; apply Z.rem_mod_nonneg; lia. Qed.

(* What the arithmetic kernels use of a ygm::comm: comm::size() and comm::rank()
   (both forward to the layout; the layout itself is generated in Gen_layout.v). *)
Record comm_view := { comm_size : Z; comm_rank : Z }.
