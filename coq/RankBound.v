(* RankBound.v — C07, the in-flight bound: a rank that only issues point-to-point asyncs from its main program
   (its handlers send nothing, it forwards nothing) never has more than  2 * capacity + one message  bytes
   posted-but-incomplete plus buffered, at any MPI call of any execution, for every capacity, message sizes,
   destinations, completion delays of its sends and arrival pattern of incoming messages.

   Two steps.  (1) [quiet_mono]: every procedure of the machine except the enqueue of an async never increases
   pend + sbb (a flush moves bytes from sbb to pend, a completed send removes them) and never increases sbb.
   (2) an async from the main program first waits until pend <= capacity (check_if_production_halt_required), and
   the previous async left sbb <= capacity (flush_to_capacity); the enqueue adds one message. *)
From Coq Require Import ZArith List Bool Lia.
Import ListNotations.
From Ygm Require Import RankMachine RankInv.
Local Open Scope Z_scope.

Definition quiet_act (a : act) : bool := match a with ASf _ | AMut | ALp => true | _ => false end.
Definition quiet_msg (m : msg) : bool := (Nat.eqb (stage m) 0 || Nat.eqb (stage m) 3).
Definition quiet_resp (r : resp) : bool :=
  match r with
  | RTestRecv (Some ms) | RWaitSR _ (Some ms) | RWaitIR _ (Some ms) => forallb quiet_msg ms
  | _ => true
  end.
Definition len_ok (m : msg) : Prop := 0 <= len m.

(* sizes are non-negative; what MPI will deliver needs no forwarding *)
Definition N (s : st) : Prop :=
  Forall (fun z => 0 <= z) (sendq s) /\ Forall (Forall len_ok) (bufs s) /\ forallb quiet_resp (oracle s) = true.

Definition tot (s : st) : Z := pend s + sbb s.

Definition post (s s' : st) : Prop := N s' /\ tot s' <= tot s /\ sbb s' <= sbb s /\ intr s' = intr s.
Definition resQ (s : st) (r : res) : Prop :=
  match r with
  | Ok s' => post s s'
  | Blocked s' | Err _ s' => tot s' <= tot s
  | OutOfFuel => True
  end.

Lemma resQ_bind s r f : resQ s r -> (forall s1, post s s1 -> resQ s1 (f s1)) -> resQ s (r >>= f).
Proof.
  destruct r as [s1| | |]; cbn [resQ bind]; auto. intros P1 Hf. specialize (Hf s1 P1).
  destruct P1 as (N1 & T1 & B1 & I1).
  destruct (f s1) as [s2| s2 | a s2 |]; cbn [resQ] in *; auto; try lia.
  destruct Hf as (N2 & T2 & B2 & I2). unfold post. split; [exact N2|]. split; [lia|]. split; [lia|]. rewrite I2. exact I1.
Qed.

Lemma resQ_refl s : N s -> resQ s (Ok s).
Proof. intros H. cbn [resQ]. unfold post. split; [exact H|]. split; [lia|]. split; [lia|reflexivity]. Qed.
(* s' differs from s only in fields the bound does not look at, or is already smaller *)
Lemma resQ_same s s' r : tot s' <= tot s -> sbb s' <= sbb s -> intr s' = intr s -> resQ s' r -> resQ s r.
Proof.
  intros T B I0. destruct r; cbn [resQ]; auto; try lia.
  intros (N1 & T1 & B1 & I1). unfold post. split; [exact N1|]. split; [lia|]. split; [lia|]. rewrite I1. exact I0.
Qed.

Ltac prj := cbn [pend sbb intr inprq sendq bufs oracle dq cbs ret set_bufs set_sbb set_dq set_sendq set_pend set_cbs set_intr
  set_inprq set_rcnt set_scnt set_ictr set_ret set_depth set_masks set_flags set_shared set_nbar set_inmain set_cur set_prev
  set_red_done set_oracle emit] in *.
Ltac blk := unfold err; cbn [resQ]; unfold tot in *; prj; lia.
Ltac same Nx := split; [exact Nx | unfold tot in *; prj; repeat split; (lia || reflexivity)].
Ltac via a b := apply (resQ_same a b);
  [ solve [unfold tot in *; prj; lia] | solve [prj; lia] | first [reflexivity | assumption | solve [prj; congruence]] | ].
Ltac mkpost Nx := cbn [resQ]; unfold post; split; [exact Nx |
  solve [unfold tot in *; prj; repeat split; (lia || congruence || reflexivity || assumption)]].

Lemma wires_nonneg c ms : Forall len_ok ms -> 0 <= wires c ms.
Proof.
  induction 1 as [|m ms Hm _ IH]; cbn; [lia|]. unfold wire, hdr_bytes, len_ok in *.
  destruct (c_routing c =? 0); destruct (Nat.eqb (hk m) 2); lia.
Qed.

Lemma In_firstn_ {A} (l : list A) i y : In y (firstn i l) -> In y l.
Proof. revert i; induction l as [|a l IH]; intros [|i]; cbn; auto; try tauto. intros [->|H]; [left; reflexivity|right; eapply IH, H]. Qed.
Lemma In_skipn_ {A} (l : list A) i y : In y (skipn i l) -> In y l.
Proof. revert i; induction l as [|a l IH]; intros [|i]; cbn; auto. intros H. right. eapply IH, H. Qed.
Lemma Forall_upd {A} (P : A -> Prop) l i x : Forall P l -> P x -> Forall P (upd l i x).
Proof.
  intros Hl Hx. rewrite Forall_forall in Hl. unfold upd. apply Forall_app. split.
  - apply Forall_forall. intros y Hy. apply Hl. eapply In_firstn_, Hy.
  - destruct (skipn i l) as [|y t] eqn:E; [constructor|]. constructor; [exact Hx|].
    apply Forall_forall. intros z Hz. apply Hl. apply (In_skipn_ l i). rewrite E. right. exact Hz.
Qed.

Section Bound.
  Variable c : cfg.
  Hypothesis Hrt : c_routing c = 0.
  Hypothesis Hh : forall u, forallb quiet_act (c_hprog c u) = true.
  Hypothesis Hcb : forall i, forallb quiet_act (c_cbprog c i) = true.

  Definition quietp (p : proc) : Prop :=
    match p with
    | PActs l => forallb quiet_act l = true
    | PHandle ms | PHandleLoop ms => forallb quiet_msg ms = true
    | PExec m => quiet_msg m = true
    | PAsync _ | PQueueBytes _ _ | PBcast _ | PMcast _ _ | PQueueMany _ _ => False
    | _ => True
    end.

  Lemma N_ask e s r rest : N s -> oracle s = r :: rest -> N (set_oracle rest (emit e s)) /\ quiet_resp r = true.
  Proof.
    intros (A & B & C0) Ho. rewrite Ho in C0. cbn in C0. apply andb_prop in C0 as (C1 & C2).
    split; [|exact C1]. repeat split; assumption.
  Qed.

  Lemma buf_at_ok s d : N s -> Forall len_ok (buf_at s d).
  Proof.
    intros (_ & B & _). unfold buf_at. destruct (Nat.lt_ge_cases (Z.to_nat d) (length (bufs s))) as [H|H].
    - rewrite Forall_forall in B. apply B. apply nth_In. exact H.
    - rewrite nth_overflow by lia. constructor.
  Qed.

  (* popping a completed send *)
  Lemma pop_ok s z t : N s -> sendq s = z :: t ->
    let s' := set_sendq t (set_pend (pend s - z) s) in N s' /\ tot s' <= tot s /\ sbb s' = sbb s /\ intr s' = intr s.
  Proof.
    intros (A & B & C0) Es. rewrite Es in A. inversion A as [|? ? Hz Ht]; subst.
    unfold tot, N. cbn. repeat split; try assumption; lia.
  Qed.

  Theorem quiet_mono : forall fu p s, quietp p -> N s -> resQ s (run fu c p s).
  Proof.
    induction fu as [|fu IH]; [intros; exact I|].
    intros p s Hp Hn. destruct p; cbn [quietp] in Hp; try contradiction.
    - (* PActs *)
      destruct l as [|a rest]; cbn [run]; [apply resQ_refl, Hn|]. cbn [forallb] in Hp. apply andb_prop in Hp as (Ha & Hrest).
      eapply resQ_bind; [|intros s1 (N1 & _); exact (IH (PActs rest) s1 Hrest N1)].
      destruct a; cbn [quiet_act] in Ha; try discriminate.
      + apply (IH PLocalProgress s I Hn).
      + mkpost Hn.
      + mkpost Hn.
    - (* PCheckHalt *)
      cbn [run]. destruct (intr s && negb (inprq s) && (c_cap c <? pend s)); [|apply resQ_refl, Hn].
      eapply resQ_bind; [apply (IH PPrq s I Hn)|]. intros s1 (N1 & _). apply (IH PCheckHalt s1 I N1).
    - (* PFlushToCap *)
      cbn [run]. destruct (c_cap c <? sbb s); [|apply resQ_refl, Hn].
      destruct (dq s) as [|d t]; [blk|].
      eapply resQ_bind.
      + via s (set_dq t s). apply (IH (PFlushBuf d) (set_dq t s) I Hn).
      + intros s1 (N1 & _). apply (IH PFlushToCap s1 I N1).
    - (* PFlushBuf *)
      cbn [run]. destruct (buf_at s d) as [|m0 ms0] eqn:Eb; [apply resQ_refl, Hn|]. cbv zeta.
      pose proof (buf_at_ok s d Hn) as Hok. rewrite Eb in Hok. pose proof (wires_nonneg c _ Hok) as Hw.
      match goal with |- resQ _ (if inprq ?x then _ else _) => set (s3 := x) end.
      assert (F : N s3 /\ tot s3 = tot s /\ sbb s3 <= sbb s /\ intr s3 = intr s).
      { destruct Hn as (A & B & C0). subst s3. unfold tot, N.
        destruct (0 <? c_freq c); cbn -[upd wires]; (repeat split; try assumption; try lia;
          [apply Forall_app; split; [exact A|constructor; [exact Hw|constructor]] | apply Forall_upd; [exact B|constructor]]). }
      destruct F as (N3 & T3 & B3 & I3).
      destruct (inprq s3) eqn:E3.
      + mkpost N3.
      + via s s3. apply (IH PPrq s3 I N3).
    - (* PPrq *)
      cbn [run]. destruct (inprq s) eqn:Eq; [blk|].
      set (s0 := set_ret false (set_inprq true s)).
      assert (N0 : N s0) by exact Hn.
      assert (T0 : tot s0 = tot s) by reflexivity. assert (B0 : sbb s0 = sbb s) by reflexivity. assert (I0 : intr s0 = intr s) by reflexivity.
      destruct (negb (intr s0)) eqn:Ei.
      { mkpost Hn. }
      via s s0.
      eapply resQ_bind.
      + destruct (c_nisw c <? Z.of_nat (length (sendq s0))).
        * unfold ask. cbn [oracle emit]. destruct (oracle s0) as [|r rest] eqn:Eo; [blk|].
          destruct (N_ask EWaitSR s0 r rest N0 Eo) as (N1 & Qr).
          destruct r; try blk.
          set (s1 := set_oracle rest (emit EWaitSR s0)) in *.
          set (s2 := if send_done then match sendq s1 with [] => s1 | z :: t => set_sendq t (set_pend (pend s1 - z) s1) end else s1).
          assert (F2 : N s2 /\ tot s2 <= tot s0 /\ sbb s2 = sbb s0 /\ intr s2 = intr s0).
          { subst s2. destruct send_done; [|same N1].
            destruct (sendq s1) as [|z t] eqn:Es; [same N1|].
            apply (pop_ok s1 z t N1 Es). }
          destruct F2 as (N2 & T2 & B2 & I2).
          destruct data as [ms|].
          -- via s0 (set_ret true s2).
             eapply resQ_bind; [apply (IH (PHandle ms) (set_ret true s2) Qr N2)|].
             intros s3 (N3 & T3 & B3 & I3). mkpost N3.
          -- mkpost N2.
        * destruct (sendq s0) as [|z t] eqn:Es; [apply resQ_refl, N0|].
          unfold ask. cbn [oracle emit]. destruct (oracle s0) as [|r rest] eqn:Eo; [blk|].
          destruct (N_ask ETestSend s0 r rest N0 Eo) as (N1 & Qr).
          destruct r; try blk. destruct flag.
          -- destruct (pop_ok (set_oracle rest (emit ETestSend s0)) z t N1 Es) as (A & B & C0 & D). mkpost A.
          -- mkpost N1.
      + intros s4 (N4 & T4 & B4 & I4).
        eapply resQ_bind.
        * via s4 (set_ret false s4). apply (IH PLocalIncoming (set_ret false s4) I N4).
        * intros s5 (N5 & T5 & B5 & I5). mkpost N5.
    - (* PLocalIncoming *)
      cbn [run]. unfold ask. cbn [oracle emit]. destruct (oracle s) as [|r rest] eqn:Eo; [blk|].
      destruct (N_ask ETestRecv s r rest Hn Eo) as (N1 & Qr).
      destruct r; try blk. destruct data as [ms|]; [|mkpost N1].
      via s (set_oracle rest (emit ETestRecv s)).
      eapply resQ_bind; [(match goal with |- resQ ?x _ => apply (IH (PHandle ms) x Qr); exact N1 end)|].
      intros s2 (N2 & _).
      eapply resQ_bind; [apply (IH PLocalIncoming s2 I N2)|].
      intros s3 (N3 & _). mkpost N3.
    - (* PHandle *)
      cbn [run]. cbv zeta.
      via s (set_inprq true s).
      eapply resQ_bind; [apply (IH (PHandleLoop ms) (set_inprq true s) Hp Hn)|].
      intros s1 (N1 & _).
      via s1 (emit EIrecv (set_inprq (inprq s) s1)).
      apply (IH PFlushToCap (emit EIrecv (set_inprq (inprq s) s1)) I N1).
    - (* PHandleLoop *)
      destruct ms as [|m rest]; cbn [run]; [apply resQ_refl, Hn|].
      cbn [forallb] in Hp. apply andb_prop in Hp as (Hm & Hrest).
      eapply resQ_bind; [|intros s1 (N1 & _); exact (IH (PHandleLoop rest) s1 Hrest N1)].
      rewrite Hrt. cbn [Z.eqb orb].
      eapply resQ_bind; [apply (IH (PExec m) s Hm Hn)|].
      intros s1 (N1 & _). mkpost N1.
    - (* PExec *)
      cbn [run]. cbv zeta.
      set (s1 := set_inmain false (set_depth _ (emit _ s))).
      assert (N1 : N s1) by exact Hn.
      assert (T1 : tot s1 = tot s) by reflexivity. assert (B1 : sbb s1 = sbb s) by reflexivity. assert (I1 : intr s1 = intr s) by reflexivity.
      via s s1.
      eapply resQ_bind.
      + unfold quiet_msg in Hp. destruct (stage m) as [|[|[|[|?]]]]; try discriminate; apply resQ_refl, N1.
      + intros s2 (N2 & _).
        eapply resQ_bind; [apply (IH (PActs (c_hprog c (uid m))) s2 (Hh (uid m)) N2)|].
        intros s3 (N3 & _). mkpost N3.
    - (* PLocalProgress *)
      cbn [run].
      eapply resQ_bind.
      + destruct (inprq s); [apply resQ_refl, Hn|apply (IH PPrq s I Hn)].
      + intros s1 (N1 & _). destruct (dq s1) as [|d t]; [apply resQ_refl, N1|].
        via s1 (set_dq t s1). apply (IH (PFlushBuf d) (set_dq t s1) I N1).
    - (* PWaitUntil *)
      cbn [run]. destruct (has_flag s f); [apply resQ_refl, Hn|].
      eapply resQ_bind; [apply (IH PLocalProgress s I Hn)|]. intros s1 (N1 & _). apply (IH (PWaitUntil f) s1 I N1).
    - (* PFlushAll *)
      cbn [run].
      eapply resQ_bind; [apply (IH PPrq s I Hn)|]. intros s1 (N1 & _).
      eapply resQ_bind; [apply (IH PFlushAllCbs s1 I N1)|]. intros s2 (N2 & _).
      eapply resQ_bind; [apply (IH PFlushAllDq s2 I N2)|]. intros s3 (N3 & _).
      eapply resQ_bind; [apply (IH PFlushAllSq s3 I N3)|]. intros s4 (N4 & _).
      destruct (ret s4); [apply (IH PFlushAll s4 I N4)|apply resQ_refl, N4].
    - (* PFlushAllCbs *)
      cbn [run]. destruct (cbs s) as [|id t]; [apply resQ_refl, Hn|]. cbv zeta.
      match goal with |- resQ s (run fu c ?p ?x >>= _) => via s x end.
      eapply resQ_bind; [(match goal with |- resQ ?x _ => apply (IH (PActs (c_cbprog c id)) x (Hcb id)); exact Hn end)|].
      intros s1 (N1 & _).
      match goal with |- resQ s1 (run fu c ?p ?x) => via s1 x end.
      (match goal with |- resQ ?x _ => apply (IH PFlushAllCbs x I); exact N1 end).
    - (* PFlushAllDq *)
      cbn [run]. destruct (dq s) as [|d t]; [apply resQ_refl, Hn|].
      via s (set_dq t s).
      eapply resQ_bind; [apply (IH (PFlushBuf d) (set_dq t s) I Hn)|]. intros s1 (N1 & _).
      eapply resQ_bind; [apply (IH PPrq s1 I N1)|]. intros s2 (N2 & _).
      via s2 (set_ret true s2). (match goal with |- resQ ?x _ => apply (IH PFlushAllDq x I); exact N2 end).
    - (* PFlushAllSq *)
      cbn [run]. destruct (sendq s) as [|z t]; [apply resQ_refl, Hn|]. cbv zeta.
      eapply resQ_bind; [apply (IH PPrq s I Hn)|]. intros s1 (N1 & _).
      match goal with |- resQ s1 (run fu c ?p ?x) => via s1 x end.
      (match goal with |- resQ ?x _ => apply (IH PFlushAllSq x I); exact N1 end).
    - (* PBarrier *)
      cbn [run]. eapply resQ_bind; [apply (IH PFlushAll s I Hn)|]. intros s1 (N1 & _).
      match goal with |- resQ s1 (run fu c ?p ?x) => via s1 x end.
      (match goal with |- resQ ?x _ => apply (IH PBarrierLoop x I); exact N1 end).
    - (* PBarrierLoop *)
      cbn [run]. destruct (cur s) as (c1, c2).
      destruct ((c1 =? c2) && (fst (prev s) =? c1) && (snd (prev s) =? c2)).
      + destruct (cbs s); [destruct (dq s)|]; try blk. apply resQ_refl, Hn.
      + via s (set_prev (c1, c2) s).
        eapply resQ_bind; [(match goal with |- resQ ?x _ => apply (IH PReduceCounts x I); exact Hn end)|]. intros s1 (N1 & _).
        eapply resQ_bind.
        * destruct (fst (cur s1) =? snd (cur s1)); [apply resQ_refl, N1|apply (IH PFlushAll s1 I N1)].
        * intros s2 (N2 & _). apply (IH PBarrierLoop s2 I N2).
    - (* PReduceCounts *)
      cbn [run]. destruct (negb ((pend s =? 0) && (sbb s =? 0))); [blk|].
      match goal with |- resQ s (run fu c ?p ?x) => via s x end.
      (match goal with |- resQ ?x _ => apply (IH PReduceLoop x I); exact Hn end).
    - (* PReduceLoop *)
      cbn [run]. destruct (red_done s); [apply resQ_refl, Hn|].
      unfold ask. cbn [oracle emit]. destruct (oracle s) as [|r rest] eqn:Eo; [blk|].
      destruct (N_ask EWaitIR s r rest Hn Eo) as (N1 & Qr).
      destruct r; try blk.
      set (s1 := set_oracle rest (emit EWaitIR s)) in *.
      set (s2 := match result with Some v => set_red_done true (set_cur v s1) | None => s1 end).
      assert (N2 : N s2 /\ tot s2 = tot s /\ sbb s2 = sbb s /\ intr s2 = intr s) by (subst s2; destruct result; repeat split; apply N1).
      destruct N2 as (N2 & T2 & B2 & I2).
      via s s2.
      eapply resQ_bind; [|intros s3 (N3 & _); exact (IH PReduceLoop s3 I N3)].
      destruct data as [ms|]; [|apply resQ_refl, N2].
      eapply resQ_bind; [apply (IH (PHandle ms) s2 Qr N2)|]. intros s3 (N3 & _). apply (IH PFlushAll s3 I N3).
  Qed.

  (* ---- step 2: asyncs from the main program ---- *)
  Definition p2p (L : Z) (a : act) : bool := match a with AAsync _ _ l => (0 <=? l) && (l <=? L) | _ => false end.

  Lemma prq_clears_guard fu s s' : run fu c PPrq s = Ok s' -> inprq s' = false.
  Proof.
    destruct fu as [|fu]; [discriminate|]. cbn [run]. destruct (inprq s); [discriminate|].
    destruct (negb (intr (set_ret false (set_inprq true s)))); [intros [= <-]; reflexivity|].
    match goal with |- (?a >>= ?k) = Ok s' -> _ => destruct a as [s4| | |]; cbn; try discriminate end.
    match goal with |- (?a >>= ?k) = Ok s' -> _ => destruct a as [s5| | |]; cbn; try discriminate end.
    intros [= <-]. reflexivity.
  Qed.

  (* check_if_production_halt_required leaves with at most the capacity in flight *)
  Lemma check_halt_post : forall fu s s', N s -> inprq s = false -> intr s = true ->
    run fu c PCheckHalt s = Ok s' -> pend s' <= c_cap c /\ inprq s' = false.
  Proof.
    induction fu as [|fu IH]; [discriminate|]. intros s s' Hn Hq Hi. cbn [run]. rewrite Hq, Hi. cbn [andb negb].
    destruct (c_cap c <? pend s) eqn:Ec; [|intros [= <-]; apply Z.ltb_ge in Ec; split; assumption].
    destruct (run fu c PPrq s) as [s1| | |] eqn:E1; cbn; try discriminate.
    pose proof (quiet_mono fu PPrq s I Hn) as Q. rewrite E1 in Q. destruct Q as (N1 & _ & _ & I1).
    apply (IH s1 s' N1 (prq_clears_guard fu s s1 E1)). congruence.
  Qed.

  Definition W (L : Z) : Z := 18 + L.      (* wire size of a point-to-point message with payload L under routing NONE *)

  Lemma flushbuf_guard fu d s s' : inprq s = false -> run fu c (PFlushBuf d) s = Ok s' -> inprq s' = false.
  Proof.
    destruct fu as [|fu]; [discriminate|]. intros Hq. cbn [run]. destruct (buf_at s d); [intros [= <-]; exact Hq|]. cbv zeta.
    match goal with |- (if inprq ?x then _ else _) = _ -> _ => assert (E : inprq x = false) by (destruct (0 <? c_freq c); exact Hq); rewrite E end.
    apply prq_clears_guard.
  Qed.

  Lemma flush_to_cap_guard : forall fu s s', inprq s = false -> run fu c PFlushToCap s = Ok s' -> inprq s' = false.
  Proof.
    induction fu as [|fu IH]; [discriminate|]. intros s s' Hq. cbn [run].
    destruct (c_cap c <? sbb s); [|intros [= <-]; exact Hq].
    destruct (dq s) as [|d t]; [discriminate|].
    destruct (run fu c (PFlushBuf d) (set_dq t s)) as [s1| | |] eqn:E1; cbn; try discriminate.
    apply IH. exact (flushbuf_guard fu d (set_dq t s) s1 Hq E1).
  Qed.

  Lemma enqueue_facts d m s : N s -> len_ok m ->
    let s' := enqueue c d m s in
    N s' /\ sbb s' = sbb s + wire c m /\ pend s' = pend s /\ intr s' = intr s /\ inprq s' = inprq s.
  Proof.
    intros (A & B & C0) Hm.
    pose proof (buf_at_ok s d (conj A (conj B C0))) as Hb.
    assert (Hnew : Forall len_ok (buf_at s d ++ [m])) by (apply Forall_app; split; [exact Hb|constructor; [exact Hm|constructor]]).
    unfold enqueue. destruct (buf_at s d) eqn:Eb; cbn -[upd]; unfold buf_at in *; rewrite ?Eb in *;
      (split; [|repeat split]); unfold N; cbn -[upd]; (split; [exact A|split; [|exact C0]]); (apply Forall_upd; [exact B|]);
      unfold buf_at in Eb; cbn -[upd]; rewrite ?Eb; exact Hnew.
  Qed.

  Definition Bnd (L : Z) : Z := 2 * c_cap c + W L.

  Lemma async_bounded L fu m s :
    N s -> inprq s = false -> intr s = true -> sbb s <= c_cap c -> tot s <= Bnd L -> 0 <= c_cap c ->
    hk m = 0%nat -> 0 <= len m <= L ->
    match run fu c (PAsync m) s with
    | Ok s' => N s' /\ inprq s' = false /\ intr s' = true /\ sbb s' <= c_cap c /\ tot s' <= Bnd L
    | Blocked s' | Err _ s' => tot s' <= Bnd L
    | OutOfFuel => True
    end.
  Proof.
    intros Hn Hq Hi Hs Ht Hc Hk Hl. destruct fu as [|fu]; [exact I|]. cbn [run]. rewrite Hk. cbn [Nat.eqb].
    pose proof (quiet_mono fu PCheckHalt s I Hn) as Q1.
    destruct (run fu c PCheckHalt s) as [s1|s1|a s1|] eqn:E1; cbn [bind]; cbn [resQ] in Q1; try exact I; try lia.
    destruct Q1 as (N1 & T1 & B1 & I1).
    destruct (check_halt_post fu s s1 Hn Hq Hi E1) as (P1 & G1).
    assert (Hlen : len_ok m) by (unfold len_ok; lia).
    destruct (enqueue_facts (next_hop c (mdest m)) m (set_scnt (scnt s1 + 1) s1) N1 Hlen) as (N3 & S3 & P3 & I3 & G3).
    cbn [sbb pend intr inprq set_scnt] in S3, P3, I3, G3.
    set (s3 := enqueue c (next_hop c (mdest m)) m (set_scnt (scnt s1 + 1) s1)) in *.
    assert (Hw : wire c m <= W L).
    { unfold wire, hdr_bytes, W. rewrite Hrt, Hk. change (0 =? 0) with true. change (Nat.eqb 0 2) with false. cbv iota. lia. }
    assert (T3 : tot s3 <= Bnd L) by (unfold tot, Bnd in *; lia).
    pose proof (quiet_mono fu PFlushToCap s3 I N3) as Q4.
    destruct (run fu c PFlushToCap s3) as [s4|s4|a s4|] eqn:E4; cbn [resQ] in Q4; try exact I; try lia.
    destruct Q4 as (N4 & T4 & B4 & I4).
    split; [exact N4|]. split; [apply (flush_to_cap_guard fu s3 s4); [congruence|exact E4]|].
    split; [congruence|]. split; [exact (RankInv.flush_to_cap_post c fu s3 s4 E4)|lia].
  Qed.

  Theorem main_asyncs_bounded L : forall fu main s,
    forallb (p2p L) main = true -> N s -> inprq s = false -> intr s = true ->
    sbb s <= c_cap c -> tot s <= Bnd L -> 0 <= c_cap c ->
    match run fu c (PActs main) s with
    | Ok s' => N s' /\ inprq s' = false /\ intr s' = true /\ sbb s' <= c_cap c /\ tot s' <= Bnd L
    | Blocked s' | Err _ s' => tot s' <= Bnd L
    | OutOfFuel => True
    end.
  Proof.
    induction fu as [|fu IH]; [intros; exact I|].
    intros main s Hm Hn Hq Hi Hs Ht Hc. destruct main as [|a rest]; cbn [run]; [split; [exact Hn|repeat split; assumption]|].
    cbn [forallb] in Hm. apply andb_prop in Hm as (Ha & Hrest).
    destruct a; cbn [p2p] in Ha; try discriminate.
    apply andb_prop in Ha as (L0 & L1). apply Z.leb_le in L0. apply Z.leb_le in L1.
    pose proof (async_bounded L fu {| uid := u; mdest := d; stage := 0; hk := 0; len := l; extra := 0 |} (emit (NO u) s)
                  Hn Hq Hi Hs Ht Hc eq_refl (conj L0 L1)) as A.
    destruct (run fu c (PAsync _) (emit (NO u) s)) as [s1|s1|e s1|]; cbn [bind]; try exact A; try exact I.
    destruct A as (N1 & Q1 & I1 & S1 & T1).
    cbv zeta.
    match goal with |- match run fu c (PActs rest) ?x with _ => _ end => set (s2 := x) end.
    assert (F : N s2 /\ inprq s2 = false /\ intr s2 = true /\ sbb s2 <= c_cap c /\ tot s2 <= Bnd L).
    { subst s2. destruct (inmain (emit (No u) s1)); (split; [exact N1|repeat split; assumption]). }
    destruct F as (N2 & Q2 & I2 & S2 & T2).
    apply (IH rest s2 Hrest N2 Q2 I2 S2 T2 Hc).
  Qed.

  (* the whole life of such a rank, from construction to the end of the destructor's barrier: at every MPI call
     (every execution prefix) posted-but-incomplete plus buffered bytes are at most 2 * capacity + one message *)
  Theorem inflight_bounded L fuel nranks main orc :
    forallb (p2p L) main = true -> forallb quiet_resp orc = true -> 0 <= c_cap c -> 0 <= L ->
    match run_rank fuel c nranks main orc with
    | Ok s' | Blocked s' | Err _ s' => pend s' + sbb s' <= 2 * c_cap c + (18 + L)
    | OutOfFuel => True
    end.
  Proof.
    intros Hm Ho Hc HL. unfold run_rank.
    assert (N0 : N (init_st nranks orc)).
    { unfold N, init_st. cbn. repeat split; [constructor| |exact Ho]. clear. induction nranks; cbn; constructor; auto. }
    pose proof (main_asyncs_bounded L fuel main (init_st nranks orc) Hm N0 eq_refl eq_refl) as A.
    cbn [sbb init_st] in A. unfold tot, Bnd, W in A. cbn [pend sbb init_st] in A.
    specialize (A ltac:(lia) ltac:(lia) Hc).
    destruct (run fuel c (PActs main) (init_st nranks orc)) as [s1|s1|e s1|]; cbn [bind]; try exact A; try exact I.
    destruct A as (N1 & _ & _ & _ & T1).
    pose proof (quiet_mono fuel PBarrier s1 I N1) as Q.
    destruct (run fuel c PBarrier s1) as [s2|s2|e s2|]; cbn [resQ] in Q; try exact I; unfold tot, post in *; try lia.
    destruct Q as (_ & T2 & _). unfold tot in T2. lia.
  Qed.
End Bound.
