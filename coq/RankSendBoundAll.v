(* RankSendBoundAll.v — C03 / C07: every physical send of a broadcast-free program is bounded.

   For every configuration (capacity >= 0, routing scheme, layout), every main program, handler programs and pre-barrier
   callbacks made of point-to-point asyncs (plain / by reference / stateful functor), multicasts, local_progress,
   wait_until, masks, barriers and collectives - but no async_bcast - whose messages carry at most L payload bytes, every
   sequence of MPI responses delivering such messages, and every execution length:

        every MPI_Isend the rank ever posts carries at most   capacity + 2 W   bytes
        (W = hdr + 26 + L, the wire size of one largest message),

   however the run ends (completed, blocked in MPI, stopped by an assertion).  So posted receives of  capacity + 2 W  bytes
   can never be overrun.  The bound is what the repair D13 bought: before it, a handler's sends were never flushed and one
   reply buffer grew with the number of requests in a received buffer.  (Why 2 W and not W: the main program's async may
   exceed the capacity by one message; while it flushes, a handler runs and adds its own message to a buffer that is still
   queued.)  Broadcast legs forwarded by handlers are flushed once per received buffer, not per message: not covered. *)
From Coq Require Import ZArith List Bool Lia.
Import ListNotations.
From Ygm Require Import RankMachine RankInv RankNoErr RankBound RankSendBound.
Local Open Scope Z_scope.

Lemma bind_ok r f s' : (r >>= f) = Ok s' -> exists s1, r = Ok s1 /\ f s1 = Ok s'.
Proof. destruct r; cbn; intros H; try discriminate. eexists; split; [reflexivity|exact H]. Qed.

Section All.
  Variable c : cfg.
  Variable nr : nat.
  Variable L : Z.
  Hypothesis HL : 0 <= L.
  Hypothesis Hcap : 0 <= c_cap c.
  Hypothesis Hhop : forall d, rng nr d -> rng nr (next_hop c d).

  Notation W := (W c L).
  Notation K := (K c nr).
  Let B1 := c_cap c + W.
  Let B2 := c_cap c + 2 * W.

  Definition mact (a : act) : bool :=
    hsmall nr L a || match a with ABar | ACfb | AWu _ | AMon | AMoff | AColl => true | _ => false end.

  Hypothesis Hh : forall u, forallb (hsmall nr L) (c_hprog c u) = true.
  Hypothesis Hcb : forall i, forallb mact (c_cbprog c i) = true.

  Definition msg_small (m : msg) : Prop := msmall L m /\ stage m = 0%nat /\ rng nr (mdest m).
  Definition resp_small (r : resp) : Prop :=
    match r with
    | RTestRecv (Some ms) | RWaitSR _ (Some ms) | RWaitIR _ (Some ms) => Forall msg_small ms
    | _ => True
    end.

  (* ---- handler-context procedures leave the oracle alone ---- *)
  Definition HP (p : proc) : Prop :=
    match p with
    | PActs l => forallb (hsmall nr L) l = true
    | PAsync _ | PMcast _ _ | PCheckHalt | PFlushToCap | PFlushBuf _ | PLocalProgress => True
    | _ => False
    end.

  Lemma enqueue_oi d m s : oracle (enqueue c d m s) = oracle s /\ inprq (enqueue c d m s) = inprq s.
  Proof. unfold enqueue. destruct (buf_at s d); split; reflexivity. Qed.

  Lemma h_frame : forall fuel p s s', HP p -> inprq s = true -> run fuel c p s = Ok s' -> oracle s' = oracle s /\ inprq s' = true.
  Proof.
    induction fuel as [|fu IH]; intros p s s' Hp Hq R; [discriminate|].
    destruct p; cbn [HP] in Hp; try contradiction; cbn [run] in R.
    - (* PActs *)
      destruct l as [|a rest]; [injection R as <-; split; [reflexivity|exact Hq]|].
      cbn [forallb] in Hp. apply andb_prop in Hp as (Ha & Hrest).
      apply bind_ok in R as (s1 & R1 & R2).
      assert (F1 : oracle s1 = oracle s /\ inprq s1 = true).
      { destruct a; cbn [hsmall] in Ha; try discriminate.
        - apply bind_ok in R1 as (s2 & R1 & R3). destruct (IH (PAsync _) (emit (NO u) s) _ I Hq R1) as (O2 & Q2).
          injection R3 as <-. destruct (inmain _); cbn; split; assumption.
        - apply bind_ok in R1 as (s2 & R1 & R3). destruct (IH PCheckHalt (emit (NO u) s) _ I Hq R1) as (O2 & Q2).
          apply bind_ok in R3 as (s3 & R3 & R4). destruct (IH (PAsync _) _ _ I Q2 R3) as (O3 & Q3). injection R4 as <-. cbn. split; [exact (eq_trans O3 O2)|exact Q3].
        - apply bind_ok in R1 as (s2 & R1 & R3). destruct (IH (PAsync _) (emit (NO u) s) _ I Hq R1) as (O2 & Q2). injection R3 as <-. cbn. split; assumption.
        - apply bind_ok in R1 as (s2 & R1 & R3). destruct (IH (PMcast _ _) (emit (NO u) s) _ I Hq R1) as (O2 & Q2). injection R3 as <-. cbn. split; assumption.
        - exact (IH PLocalProgress _ _ I Hq R1).
        - injection R1 as <-. split; [reflexivity|exact Hq].
        - injection R1 as <-. split; [reflexivity|exact Hq].
        - injection R1 as <-. split; [reflexivity|exact Hq]. }
      destruct F1 as (O1 & Q1). destruct (IH (PActs rest) _ _ Hrest Q1 R2) as (O2 & Q2). split; [congruence|exact Q2].
    - (* PAsync *)
      apply bind_ok in R as (s1 & R1 & R2). cbv zeta in R2.
      assert (F1 : oracle s1 = oracle s /\ inprq s1 = true).
      { destruct (hk m =? 1)%nat; [injection R1 as <-; split; [reflexivity|exact Hq]|exact (IH PCheckHalt _ _ I Hq R1)]. }
      destruct F1 as (O1 & Q1).
      destruct (enqueue_oi (next_hop c (mdest m)) m (set_scnt (scnt s1 + 1) s1)) as (O3 & Q3). cbn [oracle inprq set_scnt] in O3, Q3.
      destruct (IH PFlushToCap _ _ I (eq_trans Q3 Q1) R2) as (O4 & Q4). split; [congruence|exact Q4].
    - (* PMcast *)
      destruct ds as [|d ds]; [injection R as <-; split; [reflexivity|exact Hq]|].
      apply bind_ok in R as (s1 & R1 & R2). destruct (IH (PAsync _) _ _ I Hq R1) as (O1 & Q1).
      destruct (IH (PMcast ds m) _ _ I Q1 R2) as (O2 & Q2). split; [congruence|exact Q2].
    - (* PCheckHalt *)
      rewrite Hq in R. rewrite andb_false_r in R. cbn in R. injection R as <-. split; [reflexivity|exact Hq].
    - (* PFlushToCap *)
      destruct (c_cap c <? sbb s); [|injection R as <-; split; [reflexivity|exact Hq]].
      destruct (dq s) as [|d t]; [discriminate|].
      apply bind_ok in R as (s1 & R1 & R2). destruct (IH (PFlushBuf d) (set_dq t s) _ I Hq R1) as (O1 & Q1).
      destruct (IH PFlushToCap _ _ I Q1 R2) as (O2 & Q2). split; [exact (eq_trans O2 O1)|exact Q2].
    - (* PFlushBuf *)
      destruct (buf_at s d); [injection R as <-; split; [reflexivity|exact Hq]|].
      cbv zeta in R. destruct (0 <? c_freq c); cbn in R; rewrite Hq in R; cbn in R; injection R as <-; cbn; split; [reflexivity|exact Hq|reflexivity|exact Hq].
    - (* PLocalProgress *)
      rewrite Hq in R. cbn [bind] in R. destruct (dq s) as [|d t]; [injection R as <-; split; [reflexivity|exact Hq]|].
      exact (IH (PFlushBuf d) (set_dq t s) _ I Hq R).
  Qed.

  (* ---- the invariant of the whole machine ---- *)
  Definition J (b : bool) (Y : Z) (s : st) : Prop :=
    K s /\ inprq s = b /\ sbb s <= Y /\ Forall resp_small (oracle s).
  Definition SL (s : st) : Prop := SendsLe c B2 (log s).
  Definition inY (Y : Z) : Prop := c_cap c <= Y <= B1.

  Lemma W_nonneg : 0 <= W.
  Proof. unfold RankSendBound.W, hdr_bytes. destruct (c_routing c =? 0); lia. Qed.

  Lemma SL_emit e s : is_send_le c B2 e -> SL s -> SL (emit e s).
  Proof. intros He Hs. unfold SL, SendsLe. cbn. constructor; assumption. Qed.

  Lemma J_same b b' Y s s' : bufs s' = bufs s -> sbb s' = sbb s -> inprq s' = b' -> oracle s' = oracle s -> J b Y s -> J b' Y s'.
  Proof. intros E1 E2 E3 E4 ((K1 & K2 & K3) & Q & Bd & O). unfold J, RankSendBound.K. rewrite E1, E2, E4. repeat split; assumption. Qed.

  Lemma J_weaken b Y Y' s : Y <= Y' -> J b Y s -> J b Y' s.
  Proof. intros H (K0 & Q & Bd & O). split; [exact K0|split; [exact Q|split; [lia|exact O]]]. Qed.

  Lemma J_ask e s r rest b Y : J b Y s -> oracle s = r :: rest -> J b Y (set_oracle rest (emit e s)) /\ resp_small r.
  Proof.
    intros (K0 & Q & Bd & O) Ho. rewrite Ho in O. apply Forall_cons_iff in O as (Hr & Hrest).
    split; [|exact Hr]. split; [exact K0|]. split; [exact Q|]. split; [exact Bd|exact Hrest].
  Qed.

  Definition spec (fu : nat) (p : proc) (s : st) : Prop :=
    let R := run fu c p s in
    match p with
    | PActs l => forallb mact l = true -> J false (c_cap c) s -> SL s -> resH c B2 (J false (c_cap c)) R
    | PAsync m => rng nr (mdest m) -> msmall L m -> J false (c_cap c) s -> SL s -> resH c B2 (J false (c_cap c)) R
    | PMcast ds m => Forall (rng nr) ds -> msmall L m -> J false (c_cap c) s -> SL s -> resH c B2 (J false (c_cap c)) R
    | PCheckHalt => J false (c_cap c) s -> SL s -> resH c B2 (J false (c_cap c)) R
    | PFlushToCap => J false B1 s -> SL s -> resH c B2 (J false (c_cap c)) R
    | PFlushBuf d => forall Y, inY Y -> J false Y s -> SL s -> resH c B2 (J false Y) R
    | PPrq => forall Y, inY Y -> J false Y s -> SL s -> resH c B2 (J false Y) R
    | PLocalIncoming => forall Y, inY Y -> J true Y s -> SL s -> resH c B2 (J true Y) R
    | PHandle ms => Forall msg_small ms -> forall b Y, inY Y -> J b (if b then Y else c_cap c) s -> SL s -> resH c B2 (J b (if b then Y else c_cap c)) R
    | PHandleLoop ms => Forall msg_small ms -> forall Y, inY Y -> J true Y s -> SL s -> resH c B2 (J true Y) R
    | PExec m => msg_small m -> forall Y, inY Y -> J true Y s -> SL s -> resH c B2 (J true Y) R
    | PLocalProgress | PWaitUntil _ | PFlushAll | PFlushAllCbs | PFlushAllDq | PFlushAllSq
    | PBarrier | PBarrierLoop | PReduceCounts | PReduceLoop => J false (c_cap c) s -> SL s -> resH c B2 (J false (c_cap c)) R
    | PQueueBytes _ _ | PBcast _ | PQueueMany _ _ => True
    end.

  (* ---- calling the handler theorem from the whole-machine induction ---- *)
  Lemma inY_HB Y : inY Y -> c_cap c <= Y /\ Y + W <= B2.
  Proof. unfold inY, B1, B2. intros H. pose proof W_nonneg. lia. Qed.

  Lemma lift_h fuel p s Y :
    HP p -> inprq s = true -> Forall resp_small (oracle s) ->
    resH c B2 (H0 c nr Y) (run fuel c p s) -> resH c B2 (J true Y) (run fuel c p s).
  Proof.
    intros Hp Hq Ho R. destruct (run fuel c p s) as [s'| | |] eqn:E; cbn [resH] in *; try exact R.
    destruct R as ((K1 & Q1 & B1') & S1). destruct (h_frame fuel p s s' Hp Hq E) as (O1 & _).
    split; [|exact S1]. split; [exact K1|split; [exact Q1|split; [exact B1'|rewrite O1; exact Ho]]].
  Qed.

  Lemma h_acts fuel l s Y :
    forallb (hsmall nr L) l = true -> inY Y -> J true Y s -> SL s -> resH c B2 (J true Y) (run fuel c (PActs l) s).
  Proof.
    intros Hl HY (K0 & Q & Bd & O) Hs. destruct (inY_HB Y HY) as (HX & HB).
    apply lift_h; [exact Hl|exact Q|exact O|].
    exact (handler_sends_bounded_all c nr L HL Hhop Y B2 HX HB fuel (PActs l) s Hl (conj K0 (conj Q Bd)) Hs).
  Qed.

  Lemma h_flush fuel s Y :
    inY Y -> J true (Y + W) s -> SL s -> resH c B2 (J true Y) (run fuel c PFlushToCap s).
  Proof.
    intros HY (K0 & Q & Bd & O) Hs. destruct (inY_HB Y HY) as (HX & HB).
    pose proof (handler_sends_bounded_all c nr L HL Hhop Y B2 HX HB fuel PFlushToCap s (conj K0 (conj Q (Z.le_trans _ _ _ Bd HB))) Hs) as R.
    cbn [RankSendBound.spec] in R.
    destruct (run fuel c PFlushToCap s) as [s'| | |] eqn:E; cbn [resH] in *; try exact R.
    destruct (h_frame fuel PFlushToCap s s' I Q E) as (O1 & _).
    destruct R as ([(K1 & Q1 & B1')|((K1 & Q1 & B1') & Hc)] & S1);
      (split; [|exact S1]; split; [exact K1|split; [exact Q1|split; [lia|rewrite O1; exact O]]]).
  Qed.

  (* the state after posting buffer d *)
  Lemma flushed_state d m0 ms0 s (b : bool) Y sy :
    J b Y s -> buf_at s d = m0 :: ms0 ->
    let sz := wires c (m0 :: ms0) in
    let s0 := if 0 <? c_freq c then set_ictr (ictr s + 1) s else s in
    let s1 := emit (EIsend sy d (m0 :: ms0)) s0 in
    let s2 := set_bufs (upd (bufs s1) (Z.to_nat d) []) s1 in
    let s3 := set_sendq (sendq s2 ++ [sz]) (set_sbb (sbb s2 - sz) (set_pend (pend s2 + sz) s2)) in
    J b Y s3 /\ 0 <= sz <= sbb s /\ log s3 = EIsend sy d (m0 :: ms0) :: log s.
  Proof.
    intros ((K1 & K2 & K3) & Q & Bd & O) Eb. cbv zeta.
    assert (Hi : (Z.to_nat d < length (bufs s))%nat) by (apply nth_nonempty_lt; unfold buf_at in Eb; rewrite Eb; discriminate).
    pose proof (twires_ge_nth c (bufs s) (Z.to_nat d) K2) as Hge. unfold buf_at in Eb. rewrite Eb in Hge.
    assert (Hnn : 0 <= wires c (m0 :: ms0)).
    { apply wires_nonneg. rewrite Forall_forall in K2. rewrite <- Eb. apply K2. apply nth_In. exact Hi. }
    assert (A1 : sbb s - wires c (m0 :: ms0) = twires c (upd (bufs s) (Z.to_nat d) [])).
    { rewrite twires_upd by exact Hi. rewrite Eb. cbn [wires]. lia. }
    assert (A2 : Forall (Forall len_ok) (upd (bufs s) (Z.to_nat d) [])) by (apply Forall_upd; [exact K2|constructor]).
    assert (A3 : length (upd (bufs s) (Z.to_nat d) []) = nr) by (rewrite upd_length; exact K3).
    destruct (0 <? c_freq c); unfold J, RankSendBound.K; cbn -[upd wires];
      (split; [split; [split; [exact A1|split; [exact A2|exact A3]]|split; [exact Q|split; [lia|exact O]]]|split; [lia|reflexivity]]).
  Qed.

  Theorem sends_bounded_all : forall fu p s, spec fu p s.
  Proof.
    pose proof W_nonneg as HW.
    assert (Hcin : inY (c_cap c)) by (unfold inY, B1; lia).
    induction fu as [|fu IH]; [intros p s; destruct p; cbn; intros; exact I|].
    intros p s. destruct p; unfold spec; cbv zeta; try exact I.
    - (* PActs *)
      intros Hl HJ Hs. destruct l as [|a rest]; cbn [run]; [split; assumption|].
      cbn [forallb] in Hl. apply andb_prop in Hl as (Ha & Hrest).
      eapply resH_bind with (P1 := J false (c_cap c)); [|intros s1 H1 S1; exact (IH (PActs rest) s1 Hrest H1 S1)].
      unfold mact in Ha.
      destruct a; cbn [hsmall orb] in Ha; try discriminate.
      + (* AAsync *) rewrite orb_false_r in Ha. apply andb_prop in Ha as (Hd & Hlen). apply andb_prop in Hlen as (L0 & L1). apply Z.leb_le in L0. apply Z.leb_le in L1.
        eapply resH_bind with (P1 := J false (c_cap c)).
        * apply (IH (PAsync _) (emit (NO u) s)); [exact (rngb_rng _ _ Hd) | unfold msmall; cbn; lia | exact HJ | apply SL_emit; [exact I|exact Hs]].
        * intros s1 H1 S1. cbn. destruct (inmain s1); (split; [exact H1 | unfold SL, SendsLe in *; cbn; repeat (constructor; [exact I|]); exact S1]).
      + (* AAsyncRef *) rewrite orb_false_r in Ha.
        eapply resH_bind with (P1 := J false (c_cap c)).
        * apply (IH PCheckHalt (emit (NO u) s)); [exact HJ | apply SL_emit; [exact I|exact Hs]].
        * intros s1 H1 S1. eapply resH_bind with (P1 := J false (c_cap c)).
          -- apply (IH (PAsync _) s1); [exact (rngb_rng _ _ Ha) | unfold msmall; cbn; lia | exact H1 | exact S1].
          -- intros s2 H2 S2. cbn. split; [exact H2 | apply SL_emit; [exact I|exact S2]].
      + (* AFunctor *) rewrite orb_false_r in Ha. apply andb_prop in Ha as (Hd & Hlen). apply andb_prop in Hlen as (L0 & L1). apply Z.leb_le in L0. apply Z.leb_le in L1.
        eapply resH_bind with (P1 := J false (c_cap c)).
        * apply (IH (PAsync _) (emit (NO u) s)); [exact (rngb_rng _ _ Hd) | unfold msmall; cbn; lia | exact HJ | apply SL_emit; [exact I|exact Hs]].
        * intros s1 H1 S1. cbn. split; [exact H1 | apply SL_emit; [exact I|exact S1]].
      + (* AMcast *) rewrite orb_false_r in Ha. apply andb_prop in Ha as (Hd & Hlen). apply andb_prop in Hlen as (L0 & L1). apply Z.leb_le in L0. apply Z.leb_le in L1.
        eapply resH_bind with (P1 := J false (c_cap c)).
        * apply (IH (PMcast _ _) (emit (NO u) s)); [|unfold msmall; cbn; lia | exact HJ | apply SL_emit; [exact I|exact Hs]].
          apply Forall_forall. intros d Hin. rewrite forallb_forall in Hd. exact (rngb_rng _ _ (Hd d Hin)).
        * intros s1 H1 S1. cbn. split; [exact H1 | apply SL_emit; [exact I|exact S1]].
      + (* ABar *)
        eapply resH_bind with (P1 := J false (c_cap c)).
        * apply (IH PBarrier (emit (NBI (nbar s + 1)) (set_nbar (nbar s + 1) s))); [exact HJ | apply SL_emit; [exact I|exact Hs]].
        * intros s1 H1 S1. cbn. split; [exact H1 | unfold SL, SendsLe in *; cbn; repeat (constructor; [exact I|]); exact S1].
      + (* ACfb *)
        unfold ask. cbn [oracle emit]. destruct (oracle s) as [|r rest0] eqn:Eo; [cbn; apply SL_emit; [exact I|exact Hs]|].
        destruct (J_ask ECfBarrier s r rest0 _ _ HJ Eo) as (J1 & _).
        destruct r; cbn; try (apply SL_emit; [exact I|exact Hs]). split; [exact J1|apply SL_emit; [exact I|exact Hs]].
      + (* ALp *) exact (IH PLocalProgress s HJ Hs).
      + (* AWu *) exact (IH (PWaitUntil f) s HJ Hs).
      + (* ASf *) cbn. split; [exact HJ|exact Hs].
      + (* AMon *) cbn. split; [exact HJ|exact Hs].
      + (* AMoff *) destruct (masks s); cbn; (split; [exact HJ|exact Hs]).
      + (* ACb *) cbn. split; [exact HJ|exact Hs].
      + (* AMut *) cbn. split; [exact HJ|exact Hs].
      + (* AColl *)
        unfold ask. cbn [oracle emit]. destruct (oracle s) as [|r rest0] eqn:Eo; [cbn; apply SL_emit; [exact I|exact Hs]|].
        destruct (J_ask EColl s r rest0 _ _ HJ Eo) as (J1 & _).
        destruct r; cbn; try (apply SL_emit; [exact I|exact Hs]). split; [exact J1|apply SL_emit; [exact I|exact Hs]].
    - (* PAsync *)
      intros Hd Hm HJ Hs. cbn [run].
      eapply resH_bind with (P1 := J false (c_cap c)).
      { destruct (hk m =? 1)%nat; [split; assumption|]. exact (IH PCheckHalt s HJ Hs). }
      intros s1 (K1 & Q1 & Bd1 & O1) S1.
      destruct (K_enqueue c nr L (next_hop c (mdest m)) m (set_scnt (scnt s1 + 1) s1) K1 (Hhop _ Hd) Hm) as (K3 & E3 & L3 & Q3).
      destruct (enqueue_oi (next_hop c (mdest m)) m (set_scnt (scnt s1 + 1) s1)) as (O3 & _).
      cbn [sbb set_scnt log inprq oracle] in E3, L3, Q3, O3. cbv zeta.
      pose proof (wire_le c L m Hm) as Hw.
      apply (IH PFlushToCap).
      + split; [exact K3|split; [congruence|split; [unfold B1; lia|rewrite O3; exact O1]]].
      + unfold SL. rewrite L3. exact S1.
    - (* PMcast *)
      intros Hds Hm HJ Hs. destruct ds as [|d ds]; cbn [run]; [split; assumption|].
      inversion Hds as [|? ? Hd Hrest]; subst.
      eapply resH_bind with (P1 := J false (c_cap c)).
      + apply (IH (PAsync _) s); [cbn; exact Hd | exact Hm | exact HJ | exact Hs].
      + intros s1 H1 S1. exact (IH (PMcast ds m) s1 Hrest Hm H1 S1).
    - (* PCheckHalt *)
      intros HJ Hs. cbn [run]. destruct (intr s && negb (inprq s) && (c_cap c <? pend s)); [|split; assumption].
      eapply resH_bind with (P1 := J false (c_cap c)); [exact (IH PPrq s _ Hcin HJ Hs)|].
      intros s1 H1 S1. exact (IH PCheckHalt s1 H1 S1).
    - (* PFlushToCap *)
      intros HJ Hs. cbn [run]. destruct (Z.ltb_spec (c_cap c) (sbb s)) as [Hgt|Hle].
      + destruct (dq s) as [|d t]; [exact Hs|].
        eapply resH_bind with (P1 := J false B1).
        * apply (IH (PFlushBuf d) (set_dq t s) B1); [unfold inY, B1; lia | exact HJ | exact Hs].
        * intros s1 H1 S1. exact (IH PFlushToCap s1 H1 S1).
      + destruct HJ as (K0 & Q & Bd & O). cbn. split; [split; [exact K0|split; [exact Q|split; [exact Hle|exact O]]]|exact Hs].
    - (* PFlushBuf *)
      intros Y HY HJ Hs. cbn [run]. destruct (buf_at s d) as [|m0 ms0] eqn:Eb; [split; assumption|].
      destruct (flushed_state d m0 ms0 s false Y ((0 <? c_freq c) && (ictr s mod c_freq c =? 0)) HJ Eb) as (J3 & Hsz & L3).
      cbv zeta in J3, L3 |- *.
      match goal with |- resH _ _ _ (if inprq ?x then _ else _) => set (s3 := x) in * end.
      assert (Q3 : inprq s3 = false) by (destruct J3 as (_ & Q3 & _); exact Q3).
      rewrite Q3.
      apply (IH PPrq s3 Y HY J3).
      unfold SL. rewrite L3. constructor; [|exact Hs].
      destruct HJ as (_ & _ & Bd & _). destruct HY as (_ & HY2). unfold is_send_le, B2, B1 in *. lia.
    - (* PPrq *)
      intros Y HY HJ Hs. cbn [run]. destruct HJ as (K0 & Q & Bd & O). rewrite Q.
      set (s0 := set_ret false (set_inprq true s)).
      assert (J0 : J true Y s0) by (split; [exact K0|split; [reflexivity|split; [exact Bd|exact O]]]).
      assert (S0 : SL s0) by exact Hs.
      destruct (negb (intr s0)).
      { cbn. split; [split; [exact K0|split; [reflexivity|split; [exact Bd|exact O]]]|exact Hs]. }
      eapply resH_bind with (P1 := J true Y).
      + destruct (c_nisw c <? Z.of_nat (length (sendq s0))).
        * unfold ask. cbn [oracle emit]. destruct (oracle s0) as [|r rest] eqn:Eo; [cbn; apply SL_emit; [exact I|exact S0]|].
          destruct (J_ask EWaitSR s0 r rest _ _ J0 Eo) as (J1 & Hr).
          assert (S1 : SL (set_oracle rest (emit EWaitSR s0))) by (apply SL_emit; [exact I|exact S0]).
          destruct r; try exact S1.
          set (s1 := set_oracle rest (emit EWaitSR s0)) in *.
          set (s2 := if send_done then match sendq s1 with [] => s1 | z :: t => set_sendq t (set_pend (pend s1 - z) s1) end else s1).
          assert (J2 : J true Y s2 /\ SL s2).
          { subst s2. destruct send_done; [|split; assumption]. destruct (sendq s1); split; assumption. }
          destruct J2 as (J2 & S2).
          destruct data as [ms|].
          -- eapply resH_bind with (P1 := J true Y); [exact (IH (PHandle ms) (set_ret true s2) Hr true Y HY J2 S2)|].
             intros s3 H3 S3. cbn. split; [exact H3|exact S3].
          -- cbn. split; [exact J2|exact S2].
        * destruct (sendq s0) as [|z t] eqn:Es; [cbn; split; [exact J0|exact S0]|].
          unfold ask. cbn [oracle emit]. destruct (oracle s0) as [|r rest] eqn:Eo; [cbn; apply SL_emit; [exact I|exact S0]|].
          destruct (J_ask ETestSend s0 r rest _ _ J0 Eo) as (J1 & Hr).
          assert (S1 : SL (set_oracle rest (emit ETestSend s0))) by (apply SL_emit; [exact I|exact S0]).
          destruct r; try exact S1. destruct flag; cbn; (split; [exact J1|exact S1]).
      + intros s4 J4 S4.
        eapply resH_bind with (P1 := J true Y); [exact (IH PLocalIncoming (set_ret false s4) Y HY J4 S4)|].
        intros s5 (K5 & Q5 & B5 & O5) S5. cbn. split; [split; [exact K5|split; [reflexivity|split; [exact B5|exact O5]]]|exact S5].
    - (* PLocalIncoming *)
      intros Y HY HJ Hs. cbn [run].
      unfold ask. cbn [oracle emit]. destruct (oracle s) as [|r rest] eqn:Eo; [cbn; apply SL_emit; [exact I|exact Hs]|].
      destruct (J_ask ETestRecv s r rest _ _ HJ Eo) as (J1 & Hr).
      assert (S1 : SL (set_oracle rest (emit ETestRecv s))) by (apply SL_emit; [exact I|exact Hs]).
      destruct r; try exact S1. destruct data as [ms|].
      + eapply resH_bind with (P1 := J true Y); [exact (IH (PHandle ms) _ Hr true Y HY J1 S1)|].
        intros s2 H2 S2.
        eapply resH_bind with (P1 := J true Y); [exact (IH PLocalIncoming s2 Y HY H2 S2)|].
        intros s3 H3 S3. cbn. split; [exact H3|exact S3].
      + cbn. split; [exact J1|exact S1].
    - (* PHandle *)
      intros Hms b Y HY HJ Hs. cbn [run]. cbv zeta.
      set (Yb := if b then Y else c_cap c) in *.
      assert (HYb : inY Yb) by (subst Yb; destruct b; assumption).
      destruct HJ as (K0 & Q & Bd & O).
      eapply resH_bind with (P1 := J true Yb).
      + apply (IH (PHandleLoop ms) (set_inprq true s) Hms Yb HYb); [split; [exact K0|split; [reflexivity|split; [exact Bd|exact O]]]|exact Hs].
      + intros s1 (K1 & Q1 & B1' & O1) S1. rewrite Q.
        assert (S2 : SL (emit EIrecv (set_inprq b s1))) by (apply SL_emit; [exact I|exact S1]).
        destruct b.
        * apply (h_flush fu _ Y HY); [|exact S2]. split; [exact K1|split; [reflexivity|split; [cbn; lia|exact O1]]].
        * apply (IH PFlushToCap); [|exact S2]. split; [exact K1|split; [reflexivity|split; [cbn; unfold B1; subst Yb; cbn in B1'; lia|exact O1]]].
    - (* PHandleLoop *)
      intros Hms Y HY HJ Hs. destruct ms as [|m rest]; cbn [run]; [split; assumption|].
      inversion Hms as [|? ? Hm Hrest]; subst.
      eapply resH_bind with (P1 := J true Y); [|intros s1 H1 S1; exact (IH (PHandleLoop rest) s1 Hrest Y HY H1 S1)].
      destruct ((c_routing c =? 0) || (mdest m =? c_me c) || (mdest m =? -1)).
      + eapply resH_bind with (P1 := J true Y); [exact (IH (PExec m) s Hm Y HY HJ Hs)|].
        intros s1 H1 S1. cbn. split; [exact H1|exact S1].
      + destruct HJ as (K0 & Q & Bd & O). destruct Hm as (Hm1 & Hm2 & Hm3).
        destruct (K_enqueue c nr L (next_hop c (mdest m)) m s K0 (Hhop _ Hm3) Hm1) as (K3 & E3 & L3 & Q3).
        destruct (enqueue_oi (next_hop c (mdest m)) m s) as (O3 & _).
        pose proof (wire_le c L m Hm1) as Hw.
        apply (h_flush fu _ Y HY).
        * split; [exact K3|split; [congruence|split; [lia|rewrite O3; exact O]]].
        * unfold SL. rewrite L3. exact Hs.
    - (* PExec *)
      intros (Hm1 & Hm2 & Hm3) Y HY HJ Hs. cbn [run]. cbv zeta. rewrite Hm2.
      set (s1 := set_inmain false (set_depth _ (emit _ s))).
      assert (J1 : J true Y s1) by exact HJ.
      assert (S1 : SL s1) by (apply SL_emit; [exact I|exact Hs]).
      cbn [bind].
      eapply resH_bind with (P1 := J true Y); [exact (h_acts fu (c_hprog c (uid m)) s1 Y (Hh (uid m)) HY J1 S1)|].
      intros s3 H3 S3. cbn. split; [exact H3|apply SL_emit; [exact I|exact S3]].
    - (* PLocalProgress *)
      intros HJ Hs. cbn [run]. destruct HJ as (K0 & Q & Bd & O). rewrite Q.
      eapply resH_bind with (P1 := J false (c_cap c)); [exact (IH PPrq s _ Hcin (conj K0 (conj Q (conj Bd O))) Hs)|].
      intros s1 H1 S1. destruct (dq s1) as [|d t]; [cbn; split; assumption|].
      exact (IH (PFlushBuf d) (set_dq t s1) _ Hcin H1 S1).
    - (* PWaitUntil *)
      intros HJ Hs. cbn [run]. destruct (has_flag s f); [split; assumption|].
      eapply resH_bind with (P1 := J false (c_cap c)); [exact (IH PLocalProgress s HJ Hs)|].
      intros s1 H1 S1. exact (IH (PWaitUntil f) s1 H1 S1).
    - (* PFlushAll *)
      intros HJ Hs. cbn [run].
      eapply resH_bind with (P1 := J false (c_cap c)); [exact (IH PPrq s _ Hcin HJ Hs)|]. intros s1 H1 S1.
      eapply resH_bind with (P1 := J false (c_cap c)); [exact (IH PFlushAllCbs s1 H1 S1)|]. intros s2 H2 S2.
      eapply resH_bind with (P1 := J false (c_cap c)); [exact (IH PFlushAllDq s2 H2 S2)|]. intros s3 H3 S3.
      eapply resH_bind with (P1 := J false (c_cap c)); [exact (IH PFlushAllSq s3 H3 S3)|]. intros s4 H4 S4.
      destruct (ret s4); [exact (IH PFlushAll s4 H4 S4)|cbn; split; assumption].
    - (* PFlushAllCbs *)
      intros HJ Hs. cbn [run]. destruct (cbs s) as [|id t]; [split; assumption|]. cbv zeta.
      eapply resH_bind with (P1 := J false (c_cap c)).
      + apply (IH (PActs (c_cbprog c id)) _ (Hcb id)); [exact HJ|apply SL_emit; [exact I|exact Hs]].
      + intros s1 H1 S1. apply (IH PFlushAllCbs); [exact H1|apply SL_emit; [exact I|exact S1]].
    - (* PFlushAllDq *)
      intros HJ Hs. cbn [run]. destruct (dq s) as [|d t]; [split; assumption|].
      eapply resH_bind with (P1 := J false (c_cap c)); [exact (IH (PFlushBuf d) (set_dq t s) _ Hcin HJ Hs)|]. intros s1 H1 S1.
      eapply resH_bind with (P1 := J false (c_cap c)); [exact (IH PPrq s1 _ Hcin H1 S1)|]. intros s2 H2 S2.
      exact (IH PFlushAllDq (set_ret true s2) H2 S2).
    - (* PFlushAllSq *)
      intros HJ Hs. cbn [run]. destruct (sendq s) as [|z t]; [split; assumption|]. cbv zeta.
      eapply resH_bind with (P1 := J false (c_cap c)); [exact (IH PPrq s _ Hcin HJ Hs)|]. intros s1 H1 S1.
      exact (IH PFlushAllSq (set_ret (ret s || ret s1) s1) H1 S1).
    - (* PBarrier *)
      intros HJ Hs. cbn [run].
      eapply resH_bind with (P1 := J false (c_cap c)); [exact (IH PFlushAll s HJ Hs)|]. intros s1 H1 S1.
      exact (IH PBarrierLoop (set_prev (1, 2) (set_cur (3, 4) s1)) H1 S1).
    - (* PBarrierLoop *)
      intros HJ Hs. cbn [run]. destruct (cur s) as (c1, c2).
      destruct ((c1 =? c2) && (fst (prev s) =? c1) && (snd (prev s) =? c2)).
      + destruct (cbs s); [destruct (dq s); [split; assumption|exact Hs]|exact Hs].
      + eapply resH_bind with (P1 := J false (c_cap c)); [exact (IH PReduceCounts (set_prev (c1, c2) s) HJ Hs)|]. intros s1 H1 S1.
        eapply resH_bind with (P1 := J false (c_cap c)).
        { destruct (fst (cur s1) =? snd (cur s1)); [cbn; split; assumption|exact (IH PFlushAll s1 H1 S1)]. }
        intros s2 H2 S2. exact (IH PBarrierLoop s2 H2 S2).
    - (* PReduceCounts *)
      intros HJ Hs. cbn [run]. destruct (negb ((pend s =? 0) && (sbb s =? 0))); [exact Hs|].
      apply (IH PReduceLoop); [exact HJ|apply SL_emit; [exact I|exact Hs]].
    - (* PReduceLoop *)
      intros HJ Hs. cbn [run]. destruct (red_done s); [split; assumption|].
      unfold ask. cbn [oracle emit]. destruct (oracle s) as [|r rest] eqn:Eo; [cbn; apply SL_emit; [exact I|exact Hs]|].
      destruct (J_ask EWaitIR s r rest _ _ HJ Eo) as (J1 & Hr).
      assert (S1 : SL (set_oracle rest (emit EWaitIR s))) by (apply SL_emit; [exact I|exact Hs]).
      destruct r; try exact S1.
      set (s1 := set_oracle rest (emit EWaitIR s)) in *.
      set (s2 := match result with Some v => set_red_done true (set_cur v s1) | None => s1 end).
      assert (J2 : J false (c_cap c) s2 /\ SL s2) by (subst s2; destruct result; split; assumption).
      destruct J2 as (J2 & S2).
      eapply resH_bind with (P1 := J false (c_cap c)); [|intros s5 H5 S5; exact (IH PReduceLoop s5 H5 S5)].
      destruct data as [ms|]; [|cbn; split; assumption].
      eapply resH_bind with (P1 := J false (c_cap c)); [exact (IH (PHandle ms) s2 Hr false (c_cap c) Hcin J2 S2)|].
      intros s3 H3 S3. exact (IH PFlushAll s3 H3 S3).
  Qed.

  Lemma twires_repeat k : twires c (repeat [] k) = 0.
  Proof. induction k as [|k IHk]; cbn; [reflexivity|]. rewrite IHk. reflexivity. Qed.
  Lemma lens_repeat k : Forall (Forall len_ok) (repeat (@nil msg) k).
  Proof. induction k as [|k IHk]; cbn; constructor; [constructor|exact IHk]. Qed.
  Lemma K_init orc : K (init_st nr orc).
  Proof.
    unfold RankSendBound.K, init_st. cbn [sbb bufs]. split; [|split].
    - symmetry. apply twires_repeat.
    - apply lens_repeat.
    - apply repeat_length.
  Qed.

  (* The whole life of a rank: main program, then the destructor's barrier *)
  Theorem every_send_is_bounded fuel main orc :
    forallb mact main = true -> Forall resp_small orc ->
    match run_rank fuel c nr main orc with
    | Ok s' | Blocked s' | Err _ s' => SendsLe c B2 (log s')
    | OutOfFuel => True
    end.
  Proof.
    intros Hm Ho. unfold run_rank.
    assert (J0 : J false (c_cap c) (init_st nr orc)) by (split; [apply K_init|split; [reflexivity|split; [cbn; exact Hcap|exact Ho]]]).
    assert (S0 : SL (init_st nr orc)) by constructor.
    pose proof (sends_bounded_all fuel (PActs main) (init_st nr orc) Hm J0 S0) as R1. cbv zeta in R1.
    destruct (run fuel c (PActs main) (init_st nr orc)) as [s1|s1|e s1|]; cbn [bind resH] in *; try exact R1; try exact I.
    destruct R1 as (J1 & S1).
    pose proof (sends_bounded_all fuel PBarrier s1 J1 S1) as R2. cbv zeta in R2.
    destruct (run fuel c PBarrier s1); cbn [resH] in R2; try exact R2; try exact I. exact (proj2 R2).
  Qed.
End All.
