(* Properties_C20.v — C20: serialize followed by deserialize reproduces a container. *)
From Coq Require Import List Lia.
Import ListNotations.
From Ygm Require Import Serialize.

Theorem C20_deserialize_serialize_id : forall (L D image : Type) (enc : L * D * nat -> image) (dec : image -> option (L * D * nat)),
  (forall x, dec (enc x) = Some x) ->
  forall st old : list (L * D), length old = length st -> deserialize L D image dec (serialize L D image enc st) old = Some st.
Proof. exact deserialize_serialize_id. Qed.
Print Assumptions C20_deserialize_serialize_id.

Theorem C20_image_records_size : forall (L D image : Type) (enc : L * D * nat -> image) (dec : image -> option (L * D * nat)),
  (forall x, dec (enc x) = Some x) ->
  forall (st : list (L * D)) i, In i (serialize L D image enc st) -> exists l d, dec i = Some (l, d, length st).
Proof. exact image_records_size. Qed.
Print Assumptions C20_image_records_size.
