(* Properties_C03.v — C03 (the part that is logic): the library's wait loops ask MPI for progress on
   every iteration, and the re-entrancy guard turns re-entry into an immediate assertion rather than a
   recursion.  Liveness under a fair MPI is not a theorem here (DESIGN.md §5 C03): it is explored by
   the deterministic simulated MPI with deadlock / spin detection on every run. *)
From Coq Require Import ZArith List Bool Lia.
Import ListNotations.
From Ygm Require Import RankMachine RankInv.

Theorem C03_send_wait_polls : forall c fuel s,
  (1 <= fuel)%nat -> sendq s <> [] -> inprq s = false -> intr s = true -> oracle s = [] ->
  exists s', run fuel c PPrq s = Blocked s' /\
             (hd ETestRecv (log s') = EWaitSR \/ hd ETestRecv (log s') = ETestSend).
Proof. exact send_wait_polls. Qed.
Print Assumptions C03_send_wait_polls.

Theorem C03_reduce_wait_polls : forall c fuel s,
  (1 <= fuel)%nat -> red_done s = false -> oracle s = [] ->
  exists s', run fuel c PReduceLoop s = Blocked s' /\ hd ETestRecv (log s') = EWaitIR.
Proof. exact reduce_wait_polls. Qed.
Print Assumptions C03_reduce_wait_polls.

Theorem C03_flush_to_capacity_exits_below_capacity : forall c fuel s s',
  run fuel c PFlushToCap s = Ok s' -> (sbb s' <= c_cap c)%Z.
Proof. exact flush_to_cap_post. Qed.
Print Assumptions C03_flush_to_capacity_exits_below_capacity.

Theorem C03_barrier_exit_condition : forall c fuel s s',
  run fuel c PBarrierLoop s = Ok s' ->
  fst (cur s') = snd (cur s') /\ prev s' = cur s' /\ cbs s' = [] /\ dq s' = [].
Proof. exact barrier_exit_condition. Qed.
Print Assumptions C03_barrier_exit_condition.
