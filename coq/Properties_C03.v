(* Properties_C03.v — C03 (the part that is logic): the library's wait loops ask MPI for progress on
   every iteration, and the re-entrancy guard turns re-entry into an immediate assertion rather than a
   recursion.  Liveness under a fair MPI is not a theorem here (DESIGN.md §5 C03): it is explored by
   the deterministic simulated MPI with deadlock / spin detection on every run. *)
From Coq Require Import ZArith List Bool Lia.
Import ListNotations.
From Ygm Require Import RankMachine RankInv RankNoErr RankBound RankSendBound RankSendBoundAll.

Theorem C03_send_wait_polls : forall c fuel s,
  (1 <= fuel)%nat -> sendq s <> [] -> inprq s = false -> intr s = true -> oracle s = [] ->
  exists s', run fuel c PPrq s = Blocked s' /\
             (hd ETestRecv (log s') = EWaitSR \/ hd ETestRecv (log s') = ETestSend).
Proof. exact send_wait_polls. Qed.
Print Assumptions C03_send_wait_polls.

Theorem C03_reduce_wait_polls : forall c fuel s,
  (1 <= fuel)%nat -> red_done s = false -> oracle s = [] ->
  exists s', run fuel c PReduceLoop s = Blocked s' /\ hd ETestRecv (log s') = EWaitIR.
Proof. exact reduce_wait_polls. Qed.
Print Assumptions C03_reduce_wait_polls.

Theorem C03_flush_to_capacity_exits_below_capacity : forall c fuel s s',
  run fuel c PFlushToCap s = Ok s' -> (sbb s' <= c_cap c)%Z.
Proof. exact flush_to_cap_post. Qed.
Print Assumptions C03_flush_to_capacity_exits_below_capacity.

Theorem C03_barrier_exit_condition : forall c fuel s s',
  run fuel c PBarrierLoop s = Ok s' ->
  fst (cur s') = snd (cur s') /\ prev s' = cur s' /\ cbs s' = [] /\ dq s' = [].
Proof. exact barrier_exit_condition. Qed.
Print Assumptions C03_barrier_exit_condition.


(* THE MAIN THEOREM (safety half of C03).  On every block layout, for every non-negative capacity, every routing
   scheme, every program whose destinations are ranks of the communicator (handlers and callbacks restricted to what
   a handler may do), every sequence of MPI responses whose received messages are addressed to ranks of the
   communicator, and every execution length: none of the ASSERT_RELEASEs of comm.ipp that the machine models can fail
   (Err 1: front() of an empty destination queue in flush_to_capacity; Err 2: re-entering process_receive_queue;
   Err 3: barrier leaving with callbacks or buffers queued; Err 4: counts contributed with bytes buffered or
   pending - the assertion the pinned tree's defect D1 made fail).  The only stop left, Err 9, is "MPI answered a
   call with the response of a different call", which the lock-step replay never feeds. *)
Theorem C03_no_assertion_fails : forall c fuel main orc,
  let nr := Z.to_nat (c_n c * c_p c) in
  (0 < c_n c)%Z -> (0 < c_p c)%Z -> (0 <= c_me c < c_n c * c_p c)%Z -> (0 <= c_cap c)%Z ->
  (forall u, forallb (hact_ok nr) (c_hprog c u) = true) ->
  (forall i, forallb (dests_ok nr) (c_cbprog c i) = true) ->
  forallb (dests_ok nr) main = true ->
  Forall (resp_ok nr) orc ->
  match run_rank fuel c nr main orc with Err a _ => a = 9%nat | _ => True end.
Proof. exact no_assertion_fails_on_every_layout. Qed.
Print Assumptions C03_no_assertion_fails.

(* Handler-side sends are flushed to the capacity as well (the repair D13: before it a handler's replies accumulated without
   bound in one buffer and left as a single physical send, which can exceed the peer's posted receive): whatever context
   comm::async / async_bcast runs in, at most the capacity is left unsent when it returns. *)
Theorem C03_async_flushes_to_capacity_in_every_context : forall c fuel m s s',
  run fuel c (PAsync m) s = Ok s' -> (sbb s' <= c_cap c)%Z.
Proof. exact async_unsent_le_cap_any_context. Qed.
Print Assumptions C03_async_flushes_to_capacity_in_every_context.
Theorem C03_bcast_flushes_to_capacity_in_every_context : forall c fuel m s s',
  run fuel c (PBcast m) s = Ok s' -> (sbb s' <= c_cap c)%Z.
Proof. exact bcast_unsent_le_cap_any_context. Qed.
Print Assumptions C03_bcast_flushes_to_capacity_in_every_context.

(* ... and therefore what a handler sends is bounded: for every handler program made of point-to-point asyncs (plain, by
   reference, with a stateful functor), multicasts, local_progress and local effects whose messages carry at most L payload
   bytes, every capacity, routing scheme and contents of the send buffers: if at most X >= capacity bytes are buffered when
   the handler starts, every MPI_Isend posted while it runs carries at most X + W bytes (W = wire size of one largest
   message) and at most X bytes are buffered when it ends - however the run ends.  (Before D13 the replies of all handlers
   of one received buffer left as ONE send; broadcasts issued by handlers are not covered: their forwarding legs are
   flushed once per received buffer.) *)
Theorem C03_what_a_handler_sends_is_bounded : forall c nr L,
  (0 <= L)%Z -> (forall d, rng nr d -> rng nr (next_hop c d)) -> forall fuel l s X,
  (c_cap c <= X)%Z -> forallb (hsmall nr L) l = true ->
  K c nr s -> inprq s = true -> (sbb s <= X)%Z -> SendsLe c (X + W c L) (log s) ->
  match run fuel c (PActs l) s with
  | Ok s' => (sbb s' <= X)%Z /\ SendsLe c (X + W c L) (log s')
  | Blocked s' | Err _ s' => SendsLe c (X + W c L) (log s')
  | OutOfFuel => True
  end.
Proof. exact handler_sends_bounded. Qed.
Print Assumptions C03_what_a_handler_sends_is_bounded.

(* THE SEND-SIZE THEOREM.  For every configuration (capacity >= 0, any routing scheme whose next hops are ranks of the
   communicator), every broadcast-free main program, handler programs and pre-barrier callbacks (point-to-point asyncs of all
   flavours, multicasts, local_progress, wait_until, masks, barriers, collectives) whose messages carry at most L payload
   bytes, every sequence of MPI responses delivering such messages and every execution length: every MPI_Isend the rank ever
   posts carries at most  capacity + 2 W  bytes (W = the wire size of one largest message) - whether the run completes, blocks
   in MPI or is stopped by an assertion.  Posted receives of that size can never be overrun; before the repair D13 no bound
   existed (one whole-machine induction over all 24 procedures, RankSendBoundAll.v; the handler side is the theorem above). *)
Theorem C03_every_physical_send_is_bounded : forall c nr L,
  (0 <= L)%Z -> (0 <= c_cap c)%Z -> (forall d, rng nr d -> rng nr (next_hop c d)) ->
  (forall u, forallb (hsmall nr L) (c_hprog c u) = true) -> (forall i, forallb (mact nr L) (c_cbprog c i) = true) ->
  forall fuel main orc, forallb (mact nr L) main = true -> Forall (resp_small nr L) orc ->
  match run_rank fuel c nr main orc with
  | Ok s' | Blocked s' | Err _ s' => SendsLe c (c_cap c + 2 * W c L) (log s')
  | OutOfFuel => True
  end.
Proof. exact every_send_is_bounded. Qed.
Print Assumptions C03_every_physical_send_is_bounded.

(* non-vacuity: with capacity 100 and four 60-byte replies to rank 1 a handler posts two sends of 156 bytes (two messages
   each: the second reply pushes the buffer over the capacity), never one of 312 *)
Example C03_handler_bound_not_vacuous :
  let c := {| c_n := 2; c_p := 1; c_me := 0; c_routing := 0; c_cap := 100; c_nisw := 4; c_freq := 0;
              c_hprog := fun _ => []; c_cbprog := fun _ => [] |} in
  let s0 := set_inprq true (init_st 2 []) in
  K c 2 s0 /\ forallb (hsmall 2 60) [AAsync 1 1 60; AAsync 1 2 60; AAsync 1 3 60; AAsync 1 4 60] = true /\
  exists s', run 100 c (PActs [AAsync 1 1 60; AAsync 1 2 60; AAsync 1 3 60; AAsync 1 4 60]) s0 = Ok s' /\
             map (fun e => match e with EIsend _ _ ms => wires c ms | _ => 0%Z end) (filter (fun e => match e with EIsend _ _ _ => true | _ => false end) (log s')) = [156; 156]%Z /\
             sbb s' = 0%Z.
Proof.
  cbv zeta. split; [repeat split; try reflexivity; repeat constructor|]. split; [reflexivity|].
  eexists. split; [vm_compute; reflexivity|]. split; reflexivity.
Qed.

(* non-vacuity: a two-rank run with a capacity-exceeding async, a received message whose handler replies, and the
   destructor's barrier completing (status Ok) *)
Local Open Scope Z_scope.
Definition c3 : cfg := {| c_n := 2; c_p := 1; c_me := 0; c_routing := 0; c_cap := 16; c_nisw := 4; c_freq := 0;
  c_hprog := fun u => if u =? 5 then [AAsync 1 6 4] else []; c_cbprog := fun _ => [] |}.
Definition m5 := {| uid := 5; mdest := 0; stage := 0; hk := 0; len := 3; extra := 0 |}.
Definition orc3 := [RTestSend true; RTestRecv (Some [m5]); RTestRecv None;       (* async 7: flush, poll, handler 5 replies *)
                    RTestSend true; RTestRecv None;                                (* flush_all: the reply's send completes *)
                    RWaitIR (Some (3, 3)) None; RWaitIR (Some (3, 3)) None].       (* two equal count rounds *)
Example C03_main_theorem_not_vacuous :
  (forall u, forallb (hact_ok 2) (c_hprog c3 u) = true) /\ Forall (resp_ok 2) orc3 /\
  exists s, run_rank 1000 c3 2 [AAsync 1 7 40] orc3 = Ok s /\ In (NX 5 0 0) (log s) /\ sendq s = [] /\ sbb s = 0.
Proof.
  split; [intros u; cbn; destruct (u =? 5); reflexivity|].
  split; [apply resp_okb_ok; reflexivity|].
  eexists. split; [vm_compute; reflexivity|]. cbn. tauto.
Qed.

(* non-vacuity of the send-size theorem on the run above: its hypotheses hold (L = 40) and the run posts sends of 58 and 22
   bytes, below 16 + 2 * 66 *)
Example C03_send_bound_not_vacuous :
  (forall u, forallb (hsmall 2 40) (c_hprog c3 u) = true) /\ forallb (mact 2 40) [AAsync 1 7 40] = true /\ Forall (resp_small 2 40) orc3 /\
  exists s, run_rank 1000 c3 2 [AAsync 1 7 40] orc3 = Ok s /\
            map (fun e => match e with EIsend _ _ ms => wires c3 ms | _ => 0 end) (filter (fun e => match e with EIsend _ _ _ => true | _ => false end) (log s)) = [22; 58].
Proof.
  split; [intros u; cbn; destruct (u =? 5); reflexivity|]. split; [reflexivity|].
  split; [repeat constructor; cbn; unfold msmall; cbn; try lia|].
  eexists. split; [vm_compute; reflexivity|reflexivity].
Qed.
