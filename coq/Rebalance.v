(* Rebalance.v — C14 (arithmetic part): bag::rebalance's target-rank loop, as
   generated from bag.ipp (Gen_rebalance.v), sends every item to the owner of its
   global position in the block partition; hence after a rebalance rank q holds
   exactly blk_size T R q items, for every total T (including T < R and 0). *)
From Coq Require Import ZArith List Bool Lia.
Import ListNotations.
From Ygm Require Import Gen.CArith Gen.Gen_rebalance Partition.
Local Open Scope Z_scope.

Definition zrange (a n : Z) : list Z := map (fun k => a + Z.of_nat k) (seq 0 (Z.to_nat n)).

Lemma zrange_0 a n : n <= 0 -> zrange a n = [].
Proof. intros; unfold zrange. replace (Z.to_nat n) with O by lia. reflexivity. Qed.

Lemma zrange_cons a n : 0 < n -> zrange a n = a :: zrange (a + 1) (n - 1).
Proof.
  intros Hn; unfold zrange. replace (Z.to_nat n) with (S (Z.to_nat (n - 1))) by lia.
  cbn [seq map]. f_equal; [lia|]. rewrite <- seq_shift, map_map. apply map_ext. intros; lia.
Qed.

Lemma seq_add_map n k : seq n k = map (Nat.add n) (seq 0 k).
Proof.
  revert n; induction k as [|k IH]; intros n; cbn [seq map]; [reflexivity|].
  f_equal; [lia|]. rewrite (IH (S n)). rewrite <- seq_shift, map_map. apply map_ext. intros; lia.
Qed.

Lemma zrange_app a n k : 0 <= n -> 0 <= k -> zrange a (n + k) = zrange a n ++ zrange (a + n) k.
Proof.
  intros Hn Hk; unfold zrange. rewrite Z2Nat.inj_add by lia. rewrite seq_app, map_app. f_equal.
  cbn [Nat.add]. rewrite (seq_add_map (Z.to_nat n)), map_map. apply map_ext. intros; lia.
Qed.

Lemma zrange_In a n x : In x (zrange a n) <-> a <= x < a + n.
Proof.
  unfold zrange. rewrite in_map_iff. split.
  - intros (k & <- & Hk). apply in_seq in Hk. lia.
  - intros Hx. exists (Z.to_nat (x - a)). split; [lia|]. apply in_seq. lia.
Qed.

Definition targets_spec (T R me prefix cnt : Z) : list Z :=
  filter (fun t => negb (t =? me)) (map (blk_owner T R) (zrange prefix cnt)).

Definition wf_bag (T R me : Z) : Prop :=
  0 <= T < 4611686018427387904 /\ 0 < R < 2147483648 /\ 0 <= me < R.

Ltac u64 := rewrite ?cwrap_u64_ok, ?cnorm_u64_ok by lia.

(* the owner expression of the loop body, for any continuation K *)
Lemma owner_expr_ok {A} T R idx (K : option Z -> option A) :
  0 <= T < 4611686018427387904 -> 0 < R < 2147483648 -> 0 <= idx < T ->
  match clt (Some idx) (cmul u64 (crem u64 (Some T) (ccast u64 (Some R))) (Some (blk_large T R))) with
  | Some true => oforce (cdiv u64 (Some idx) (Some (blk_large T R))) K
  | Some false =>
      oforce (cadd u64 (crem u64 (Some T) (ccast u64 (Some R)))
                (cdiv u64 (csub u64 (Some idx) (cmul u64 (crem u64 (Some T) (ccast u64 (Some R))) (Some (blk_large T R))))
                   (Some (blk_small T R)))) K
  | None => None
  end = K (Some (blk_owner T R idx)).
Proof.
  intros Hl HR Hi.
  pose proof (blk_rem_bound T R ltac:(lia)) as Hm. pose proof (blk_decomp T R ltac:(lia)) as Hd.
  pose proof (div_le_self T R ltac:(lia) ltac:(lia)) as Hs.
  destruct (blk_owner_spec T R idx ltac:(lia) Hi) as (Ho & _).
  unfold blk_owner in *.
  unfold cdiv, crem, cadd, cmul, csub, cbin, ccast, clt, ccmp.
  u64. destruct (Z.eqb_spec R 0); [lia|].
  rewrite !rem_nonneg by lia. fold (blk_rem T R).
  unfold blk_large in *. change (T / R) with (blk_small T R) in Hs.
  set (s := blk_small T R) in *. set (m := blk_rem T R) in *.
  assert (Hml : 0 <= m * (s + (if 0 <? m then 1 else 0)) <= T) by (destruct (Z.ltb_spec 0 m); nia).
  u64.
  destruct (Z.ltb_spec idx (m * (s + (if 0 <? m then 1 else 0)))) as [Hlt|Hge].
  - assert (0 < s + (if 0 <? m then 1 else 0)) by (destruct (Z.ltb_spec 0 m); nia).
    destruct (Z.eqb_spec (s + (if 0 <? m then 1 else 0)) 0); [lia|].
    rewrite quot_nonneg by lia. u64. reflexivity.
  - assert (0 < s) by (destruct (Z.ltb_spec 0 m); nia).
    destruct (Z.eqb_spec s 0); [lia|]. u64.
    rewrite quot_nonneg by lia.
    set (q := (idx - m * (s + (if 0 <? m then 1 else 0))) / s) in *.
    assert (0 <= q <= T) by (subst q; split; [apply Z.div_pos; lia | apply Z.div_le_upper_bound; nia]).
    u64. reflexivity.
Qed.

Section Loop.
  Variables T R me prefix cnt : Z.
  Hypothesis Hwf : wf_bag T R me.
  Hypothesis Hp : 0 <= prefix.
  Hypothesis Hc : 0 <= cnt.
  Hypothesis Hsum : prefix + cnt <= T.
  Let view := {| bag_m_comm := {| comm_size := R; comm_rank := me |} |}.

  Lemma loop_correct fuel : forall i out,
    0 <= i <= cnt -> (Z.to_nat (cnt - i) < fuel)%nat ->
    bag_rebalance_targets_loop1 fuel view (Some T) (Some prefix) (Some cnt)
      (Some (blk_small T R)) (Some (blk_large T R)) (Some i) (Some out)
    = Some (Some (blk_small T R), Some (blk_large T R),
            Some (out ++ targets_spec T R me (prefix + i) (cnt - i))).
  Proof.
    destruct Hwf as (HT & HR & Hme).
    induction fuel as [|fuel IH]; intros i out Hi Hf; [lia|].
    cbn [bag_rebalance_targets_loop1]. unfold clt at 1, ccmp.
    destruct (Z.ltb_spec i cnt) as [Hlt|Hge].
    - unfold cadd at 1, cbin. u64. cbn [oforce]. cbv zeta.
      rewrite (owner_expr_ok T R (prefix + i)) by lia.
      unfold view. cbn [bag_m_comm comm_rank]. unfold ccast, cne, ccmp. u64.
      assert (Hsplit : targets_spec T R me (prefix + i) (cnt - i)
                       = (if negb (blk_owner T R (prefix + i) =? me) then [blk_owner T R (prefix + i)] else [])
                         ++ targets_spec T R me (prefix + (i + 1)) (cnt - (i + 1))).
      { unfold targets_spec. rewrite (zrange_cons (prefix + i) (cnt - i)) by lia. cbn [map filter].
        replace (prefix + i + 1) with (prefix + (i + 1)) by lia.
        replace (cnt - i - 1) with (cnt - (i + 1)) by lia.
        destruct (negb (blk_owner T R (prefix + i) =? me)); reflexivity. }
      rewrite Hsplit.
      destruct (Z.eqb_spec (blk_owner T R (prefix + i)) me) as [E|E]; cbn [negb].
      + unfold cadd, cbin. u64. cbn [oforce]. fold view. rewrite IH by lia. reflexivity.
      + unfold cemit. cbn [oforce]. unfold cadd, cbin. u64. cbn [oforce]. fold view. rewrite IH by lia.
        rewrite <- app_assoc. reflexivity.
    - replace (cnt - i) with 0 by lia. unfold targets_spec. rewrite zrange_0 by lia. cbn. now rewrite app_nil_r.
  Qed.

  Theorem Gen_rebalance_correct :
    bag_rebalance_targets view (Some T) (Some prefix) (Some cnt) = Some (targets_spec T R me prefix cnt).
  Proof.
    destruct Hwf as (HT & HR & Hme).
    pose proof (blk_rem_bound T R ltac:(lia)) as Hm.
    pose proof (div_le_self T R ltac:(lia) ltac:(lia)) as Hs.
    unfold bag_rebalance_targets. unfold view. cbn [bag_m_comm comm_size].
    unfold cdiv, crem, cadd, cbin, ccast, cgt, ccmp, cb2z. u64.
    destruct (Z.eqb_spec R 0); [lia|]. rewrite !quot_nonneg, !rem_nonneg by lia. u64. cbn [oforce].
    fold (blk_small T R) (blk_rem T R). u64.
    assert (Hl : (blk_rem T R >? 0) = (0 <? blk_rem T R)).
    { unfold Z.gtb, Z.ltb. rewrite Z.compare_antisym. destruct (0 ?= blk_rem T R); reflexivity. }
    rewrite Hl.
    assert (E : Some (blk_small T R + (if 0 <? blk_rem T R then 1 else 0)) = Some (blk_large T R)) by reflexivity.
    change (T / R) with (blk_small T R) in Hs.
    assert (Hbl : 0 <= blk_large T R <= T + 1) by (unfold blk_large; destruct (0 <? blk_rem T R); lia).
    destruct (0 <? blk_rem T R) eqn:Eb; u64; fold view.
    - replace (blk_small T R + 1) with (blk_large T R) by (unfold blk_large; rewrite Eb; reflexivity).
      u64. cbn [oforce].
      rewrite loop_correct by lia. cbn [obind app]. now rewrite Z.add_0_r, Z.sub_0_r.
    - replace (blk_small T R + 0) with (blk_large T R) by (unfold blk_large; rewrite Eb; reflexivity).
      u64. cbn [oforce].
      rewrite loop_correct by lia. cbn [obind app]. now rewrite Z.add_0_r, Z.sub_0_r.
  Qed.
End Loop.

(* ---------------------------------------------------------------------- *)
(* Global consequence: per-rank counts after rebalance                     *)



Lemma filter_none {A} (f : A -> bool) l : (forall x, In x l -> f x = false) -> filter f l = [].
Proof.
  induction l as [|x l IH]; intros H; [reflexivity|]. cbn. rewrite H by (now left). apply IH. intros; apply H; now right.
Qed.
Lemma filter_all {A} (f : A -> bool) l : (forall x, In x l -> f x = true) -> filter f l = l.
Proof.
  induction l as [|x l IH]; intros H; [reflexivity|]. cbn. rewrite H by (now left). f_equal. apply IH. intros; apply H; now right.
Qed.
Lemma zrange_length a n : 0 <= n -> Z.of_nat (length (zrange a n)) = n.
Proof. intros; unfold zrange. rewrite map_length, seq_length. lia. Qed.

Lemma filter_interval_length a b lo n :
  lo <= a <= b -> b <= lo + n ->
  Z.of_nat (length (filter (fun i => (a <=? i) && (i <? b)) (zrange lo n))) = b - a.
Proof.
  intros Hab Hb.
  replace n with ((a - lo) + ((b - a) + (lo + n - b))) by lia.
  rewrite !zrange_app by lia. rewrite !filter_app, !app_length.
  rewrite (filter_none _ (zrange lo (a - lo))).
  2:{ intros x Hx. apply zrange_In in Hx. destruct (Z.leb_spec a x); [lia|reflexivity]. }
  rewrite (filter_all _ (zrange (lo + (a - lo)) (b - a))).
  2:{ intros x Hx. apply zrange_In in Hx. destruct (Z.leb_spec a x); destruct (Z.ltb_spec x b); try reflexivity; lia. }
  rewrite (filter_none _ (zrange (lo + (a - lo) + (b - a)) (lo + n - b))).
  2:{ intros x Hx. apply zrange_In in Hx. destruct (Z.ltb_spec x b); [lia|]. now rewrite andb_false_r. }
  cbn [length]. rewrite Nat.add_0_r. cbn [Nat.add]. apply zrange_length. lia.
Qed.

Theorem count_owner T R q : 0 < R -> 0 <= T -> 0 <= q < R ->
  Z.of_nat (length (filter (fun i => blk_owner T R i =? q) (zrange 0 T))) = blk_size T R q.
Proof.
  intros HR HT Hq.
  assert (Hs0 : 0 <= blk_start T R q).
  { rewrite <- (blk_start_0 T R HR). apply blk_start_mono; lia. }
  assert (Hs1 : blk_start T R q + blk_size T R q <= T).
  { rewrite <- blk_contiguous by lia. rewrite <- (blk_cover T R HR) at 2. apply blk_start_mono; lia. }
  pose proof (blk_size_nonneg T R q HR HT).
  rewrite (filter_ext_in _ (fun i => (blk_start T R q <=? i) && (i <? blk_start T R q + blk_size T R q))).
  - rewrite filter_interval_length by lia. lia.
  - intros i Hi. apply zrange_In in Hi.
    destruct (blk_owner_spec T R i HR ltac:(lia)) as (Ho & Hin).
    destruct (Z.eqb_spec (blk_owner T R i) q) as [E|E].
    + subst q. destruct (Z.leb_spec (blk_start T R (blk_owner T R i)) i); [|lia].
      destruct (Z.ltb_spec i (blk_start T R (blk_owner T R i) + blk_size T R (blk_owner T R i))); [reflexivity|lia].
    + destruct (Z.leb_spec (blk_start T R q) i); [|reflexivity].
      destruct (Z.ltb_spec i (blk_start T R q + blk_size T R q)); [|reflexivity].
      exfalso. apply E. symmetry. apply blk_owner_unique; lia.
Qed.

(* ranks hold consecutive global positions: rank r holds [prefix_r, prefix_r + c_r) *)
Fixpoint ranges (prefix : Z) (cnts : list Z) : list (list Z) :=
  match cnts with [] => [] | c :: cs => zrange prefix c :: ranges (prefix + c) cs end.

Lemma ranges_concat cnts : forall prefix, Forall (fun c => 0 <= c) cnts ->
  concat (ranges prefix cnts) = zrange prefix (fold_right Z.add 0 cnts).
Proof.
  induction cnts as [|c cs IH]; intros prefix H; cbn [ranges concat fold_right].
  - now rewrite zrange_0 by lia.
  - inversion H as [|? ? Hc Hcs]; subst.
    assert (0 <= fold_right Z.add 0 cs).
    { clear -Hcs. induction Hcs; cbn; lia. }
    rewrite zrange_app by lia. now rewrite IH.
Qed.

(* after rebalance, rank q holds (what it keeps) + (what the others send it) = all positions it owns *)
Theorem rebalance_balanced T R cnts q :
  0 < R -> Forall (fun c => 0 <= c) cnts -> fold_right Z.add 0 cnts = T -> 0 <= q < R ->
  Z.of_nat (length (filter (fun i => blk_owner T R i =? q) (concat (ranges 0 cnts)))) = blk_size T R q.
Proof.
  intros HR Hc HT Hq. rewrite ranges_concat by assumption. rewrite HT.
  apply count_owner; try lia. subst T. clear -Hc. induction Hc; cbn; lia.
Qed.

Example rebalance_small : targets_spec 2 4 0 0 2 = [1] /\ targets_spec 10 4 0 0 10 = [1; 1; 1; 2; 2; 3; 3].
Proof. vm_compute. split; reflexivity. Qed.
