(* Bcast.v — C05 (arithmetic part): the remote fan-out of async_bcast.

   pack_lambda_broadcast works in three stages: (1) the origin queues the message
   for every rank of its own node (itself included); (2) each of those ranks runs
   the *remote partner loop* — generated into Gen_bcast.v from comm.ipp — and
   forwards to one rank on each remote node of "its" residue class of nodes;
   (3) each of those forwards to the other ranks of its node.  Every stage also
   executes the user function.

   Here: the generated loop equals [remote_partners_spec] (re-proved on every
   run), and the spec covers every remote node exactly once across the ranks of
   the origin's node. *)
From Coq Require Import ZArith List Bool Lia FinFun.
Import ListNotations.
From Ygm Require Import Gen.CArith Gen.Gen_layout Gen.Gen_bcast Layout.
Local Open Scope Z_scope.

Definition num_layers (n p : Z) : Z := n / p + (if 0 <? n mod p then 1 else 0).

(* nodes b, b+p, b+2p, ... below n, at most [fuel] of them *)
Fixpoint class_nodes (fuel : nat) (p n b : Z) : list Z :=
  match fuel with
  | O => []
  | S f => if b <? n then b :: class_nodes f p n (b + p) else []
  end.

Definition remote_partners_spec (n p me : Z) : list Z :=
  let a0 := znode p me in
  let l := zloc p me in
  let off := (l - a0) mod p in
  if off <? n then
    map (fun b => b * p + l) (filter (fun b => negb (b =? a0)) (class_nodes (Z.to_nat (num_layers n p)) p n off))
  else [].

(* int arithmetic of the loop is exact: curr_partner + p*p must not overflow *)
Definition wf_bcast (n p : Z) : Prop := 0 < n /\ 0 < p /\ n * p + p * p < 2147483648 /\ n * p <= 1073741824.

Lemma wf_bcast_np n p : wf_bcast n p -> wf_np n p.
Proof. intros (Hn & Hp & _ & H); repeat split; lia. Qed.

Lemma rem_fixup x p : 0 < p -> (if Z.rem x p <? 0 then Z.rem x p + p else Z.rem x p) = x mod p.
Proof.
  intros Hp. pose proof (Z.quot_rem' x p) as E.
  assert (- p < Z.rem x p < p) by (pose proof (Z.rem_bound_abs x p ltac:(lia)); lia).
  destruct (Z.ltb_spec (Z.rem x p) 0).
  - apply Z.mod_unique_pos with (q := Z.quot x p - 1); lia.
  - apply Z.mod_unique_pos with (q := Z.quot x p); lia.
Qed.

(* ---------------------------------------------------------------------- *)
(* Any uniform placement of the ranks on the nodes: rank [rk a l] is the rank with on-node index l on node a
   (block placement: a * p + l; round-robin placement, mpirun --map-by node: l * n + a).  The layout object is the
   tables ygm::detail::layout builds from the communicator splits. *)
Section Placement.
  Variables n p : Z.
  Variable rk : Z -> Z -> Z.
  Variables nd lc : Z -> Z.

  Definition placement_ok : Prop :=
    (forall a l, 0 <= a < n -> 0 <= l < p -> 0 <= rk a l < n * p /\ nd (rk a l) = a /\ lc (rk a l) = l) /\
    (forall r, 0 <= r < n * p -> 0 <= nd r < n /\ 0 <= lc r < p /\ rk (nd r) (lc r) = r).

  Definition placed_layout (me : Z) : layout_view :=
    {| m_comm_size := n * p;
       m_comm_rank := me;
       m_node_size := n;
       m_node_id := nd me;
       m_local_size := p;
       m_local_id := lc me;
       m_strided_ranks := map (fun a => rk (Z.of_nat a) (lc me)) (seq 0 (Z.to_nat n));
       m_local_ranks := map (fun l => rk (nd me) (Z.of_nat l)) (seq 0 (Z.to_nat p));
       m_rank_to_node := map (fun r => nd (Z.of_nat r)) (seq 0 (Z.to_nat (n * p)));
       m_rank_to_local := map (fun r => lc (Z.of_nat r)) (seq 0 (Z.to_nat (n * p))) |}.

  Definition remote_partners_placed (me : Z) : list Z :=
    let a0 := nd me in
    let l := lc me in
    let off := (l - a0) mod p in
    if off <? n then
      map (fun b => rk b l) (filter (fun b => negb (b =? a0)) (class_nodes (Z.to_nat (num_layers n p)) p n off))
    else [].

  Hypothesis Hwf : wf_bcast n p.
  Hypothesis Hpl : placement_ok.
  Variable me : Z.
  Hypothesis Hme : 0 <= me < n * p.
  Let L := placed_layout me.
  Let a0 := nd me.
  Let lme := lc me.
  Let NL := num_layers n p.
  Let off := (lme - a0) mod p.

  Lemma p_check_world r : 0 <= r <= n * p -> layout__check_world_rank1 L (Some r) = Some tt.
  Proof.
    intros Hr. unfold layout__check_world_rank1, layout__check_rank3; cbn.
    destruct (Z.ltb_spec r 0); [lia|]. cbn.
    unfold Z.gtb. destruct (Z.compare_spec r (n * p)); try reflexivity; lia.
  Qed.

  Lemma p_is_local1 r : 0 <= r < n * p -> layout_is_local1 L (Some r) = Some (a0 =? nd r).
  Proof.
    destruct Hwf as (Hn & Hp & Hov & Hnp). intros Hr.
    unfold layout_is_local1, layout_node_id1. rewrite p_check_world by lia. cbn [obind ccast].
    rewrite cwrap_u64_ok by lia. unfold L. cbn [m_rank_to_node m_node_id placed_layout].
    rewrite cvget_map_seq by lia. rewrite Z2Nat.id by lia. reflexivity.
  Qed.

  Lemma p_strided_get a : 0 <= a < n -> cvget (m_strided_ranks L) (Some a) = Some (rk a lme).
  Proof.
    intros Ha. unfold L. cbn [m_strided_ranks placed_layout].
    rewrite cvget_map_seq by lia. rewrite Z2Nat.id by lia. reflexivity.
  Qed.

  Lemma p_loop_ok fuel : forall i out,
    0 <= i -> (Z.to_nat (NL - i) < fuel)%nat ->
    bcast_remote_partners_loop1 fuel L (Some NL) (Some off) (Some i) (Some out)
    = Some (Some NL, Some off,
            Some (out ++ map (fun b => rk b lme) (filter (fun b => negb (b =? a0)) (class_nodes (Z.to_nat (NL - i)) p n (off + i * p))))).
  Proof.
    destruct Hwf as (Hn & Hp & Hov & Hnp). destruct Hpl as (Hfwd & Hbwd).
    destruct (Hbwd me Hme) as (Ha0 & Hl & _). fold a0 in Ha0. fold lme in Hl.
    assert (Hoff : 0 <= off < p) by (apply Z.mod_pos_bound; lia).
    assert (HNLb : 0 <= NL /\ (NL - 1) * p <= n).
    { unfold NL, num_layers. pose proof (Z.div_pos n p ltac:(lia) Hp). pose proof (Z.div_mod n p ltac:(lia)) as E.
      pose proof (Z.mod_pos_bound n p Hp). destruct (Z.ltb_spec 0 (n mod p)); split; nia. }
    assert (Hpn : p <= n * p) by nia. assert (Hnn : n <= n * p) by nia.
    induction fuel as [|fuel IH]; intros i out Hi Hf; [lia|].
    cbn [bcast_remote_partners_loop1]. unfold clt at 1, ccmp.
    destruct (Z.ltb_spec i NL) as [Hlt|Hge].
    - replace (Z.to_nat (NL - i)) with (S (Z.to_nat (NL - (i + 1)))) by lia.
      cbn [class_nodes].
      assert (Hip : 0 <= i * p <= n) by nia.
      unfold layout_local_size0, layout_node_size0. unfold L at 1 2. cbn [m_local_size m_node_size placed_layout].
      unfold cmul, cadd, cbin. rewrite (cnorm_s32_ok (i * p)) by lia. rewrite (cnorm_s32_ok (off + i * p)) by lia.
      cbn [oforce]. cbv zeta. unfold cge, ccmp.
      destruct (Z.ltb_spec (off + i * p) n) as [Hbn|Hbn].
      + destruct (Z.geb_spec (off + i * p) n); [lia|].
        unfold ccast. rewrite cwrap_u64_ok by lia.
        rewrite (p_strided_get (off + i * p)) by lia. cbn [oforce].
        destruct (Hfwd (off + i * p) lme ltac:(lia) Hl) as (Hr & Hnd & _).
        rewrite (p_is_local1 _ Hr). rewrite Hnd. cbn [cnot filter].
        replace (off + (i + 1) * p) with (off + i * p + p) in IH by ring.
        destruct (Z.eqb_spec a0 (off + i * p)) as [E|E].
        * replace (off + i * p =? a0) with true by (symmetry; apply Z.eqb_eq; lia). cbn [negb].
          rewrite (cnorm_s32_ok (i + 1)) by lia. cbn [oforce].
          rewrite (IH (i + 1) out ltac:(lia) ltac:(lia)).
          replace (off + (i + 1) * p) with (off + i * p + p) by ring. reflexivity.
        * destruct (Z.eqb_spec (off + i * p) a0) as [E2|_]; [congruence|]. cbn [negb map].
          unfold cemit. cbn [oforce].
          rewrite (cnorm_s32_ok (i + 1)) by lia. cbn [oforce].
          rewrite (IH (i + 1) (out ++ [rk (off + i * p) lme]) ltac:(lia) ltac:(lia)).
          replace (off + (i + 1) * p) with (off + i * p + p) by ring. rewrite <- app_assoc. reflexivity.
      + destruct (Z.geb_spec (off + i * p) n); [|lia].
        cbn [filter map]. now rewrite app_nil_r.
    - replace (Z.to_nat (NL - i)) with O by lia. cbn [class_nodes filter map]. now rewrite app_nil_r.
  Qed.

  Theorem Gen_bcast_placed : bcast_remote_partners L = Some (remote_partners_placed me).
  Proof.
    pose proof p_loop_ok as LOOP.
    destruct Hwf as (Hn & Hp & Hov & Hnp). destruct Hpl as (Hfwd & Hbwd).
    destruct (Hbwd me Hme) as (Ha0 & Hl & _). fold a0 in Ha0. fold lme in Hl.
    assert (Hnn : n <= n * p) by nia. assert (Hpp : p <= n * p) by nia.
    unfold bcast_remote_partners, remote_partners_placed.
    unfold layout_node_size0, layout_local_size0, layout_local_id0, layout_node_id0.
    unfold L in *. cbn [m_node_size m_local_size m_local_id m_node_id placed_layout]. fold a0 lme.
    unfold cdiv, crem, cadd, cmul, csub, cbin, ccast, cgt, clt, ccmp, cb2z.
    destruct (Z.eqb_spec p 0); [lia|].
    rewrite quot_nonneg, rem_nonneg by lia.
    pose proof (Z.mod_pos_bound n p Hp) as Hm.
    assert (Hq : 0 <= n / p <= n) by (split; [apply Z.div_pos; lia | apply Z.div_le_upper_bound; nia]).
    rewrite !cnorm_s32_ok by lia.
    assert (Hgt : (n mod p >? 0) = (0 <? n mod p)).
    { unfold Z.gtb, Z.ltb. rewrite Z.compare_antisym. destruct (0 ?= n mod p); reflexivity. }
    rewrite Hgt.
    replace (match (if 0 <? n mod p then Some 1 else Some 0) with Some x => Some (cwrap s32 x) | None => None end)
      with (Some (if 0 <? n mod p then 1 else 0)) by (destruct (0 <? n mod p); reflexivity).
    assert (Hrem : - p < Z.rem (lme - a0) p < p).
    { pose proof (Z.rem_bound_abs (lme - a0) p ltac:(lia)). lia. }
    rewrite ?cnorm_s32_ok by (try (destruct (0 <? n mod p); lia); try lia; nia).
    cbn [oforce].
    pose proof (rem_fixup (lme - a0) p Hp) as Hoff. fold off in Hoff.
    set (r0 := Z.rem (lme - a0) p) in *.
    pose proof (Z.mod_pos_bound (lme - a0) p Hp) as Hob. fold off in Hob.
    change (n / p + (if 0 <? n mod p then 1 else 0)) with NL.
    assert (HNL0 : 0 <= NL).
    { unfold NL, num_layers. destruct (0 <? n mod p); lia. }
    destruct (Z.ltb_spec r0 0) as [Hneg|Hpos].
    - rewrite cnorm_s32_ok by lia. cbn [oforce]. rewrite Hoff.
      cbv zeta. fold a0 lme off NL.
      destruct (Z.ltb_spec off n) as [Hon|Hon]; [|reflexivity].
      rewrite (LOOP (S (Z.to_nat NL)) 0 [] ltac:(lia) ltac:(lia)).
      cbn [obind app]. rewrite Z.sub_0_r, Z.mul_0_l, Z.add_0_r. reflexivity.
    - cbn [oforce]. rewrite Hoff.
      cbv zeta. fold a0 lme off NL.
      destruct (Z.ltb_spec off n) as [Hon|Hon]; [|reflexivity].
      rewrite (LOOP (S (Z.to_nat NL)) 0 [] ltac:(lia) ltac:(lia)).
      cbn [obind app]. rewrite Z.sub_0_r, Z.mul_0_l, Z.add_0_r. reflexivity.
  Qed.
End Placement.

(* block placement (what mpirun does by default): rank = node * p + on-node index *)
Lemma block_placement_ok n p : 0 < n -> 0 < p -> placement_ok n p (fun a l => a * p + l) (znode p) (zloc p).
Proof.
  intros Hn Hp. split.
  - intros a l Ha Hl. split; [nia|]. split; [apply node_of_nl; assumption | apply loc_of_nl; assumption].
  - intros r Hr. split; [apply node_lt; assumption|]. split; [apply loc_lt; assumption|].
    unfold znode, zloc. pose proof (Z.div_mod r p ltac:(lia)). lia.
Qed.

Theorem Gen_bcast_correct n p me : wf_bcast n p -> 0 <= me < n * p ->
  bcast_remote_partners (block_layout n p me) = Some (remote_partners_spec n p me).
Proof.
  intros Hwf Hme. destruct Hwf as (Hn & Hp & Hov & Hnp).
  exact (Gen_bcast_placed n p (fun a l => a * p + l) (znode p) (zloc p) (conj Hn (conj Hp (conj Hov Hnp)))
           (block_placement_ok n p Hn Hp) me Hme).
Qed.

(* round-robin placement (mpirun --map-by node, srun -m cyclic): rank = on-node index * n + node *)
Lemma cyclic_placement_ok n p : 0 < n -> 0 < p -> placement_ok n p (fun a l => l * n + a) (fun r => r mod n) (fun r => r / n).
Proof.
  intros Hn Hp. split.
  - intros a l Ha Hl. split; [nia|]. split.
    + rewrite Z.add_comm, Z.mod_add by lia. apply Z.mod_small; lia.
    + rewrite Z.div_add_l by lia. rewrite Z.div_small by lia. lia.
  - intros r Hr. split; [apply Z.mod_pos_bound; lia|]. split.
    + split; [apply Z.div_pos; lia | apply Z.div_lt_upper_bound; lia].
    + pose proof (Z.div_mod r n ltac:(lia)). lia.
Qed.

Definition cyclic_layout (n p me : Z) : layout_view := placed_layout n p (fun a l => l * n + a) (fun r => r mod n) (fun r => r / n) me.
Definition remote_partners_cyclic (n p me : Z) : list Z :=
  remote_partners_placed n p (fun a l => l * n + a) (fun r => r mod n) (fun r => r / n) me.

Theorem Gen_bcast_correct_cyclic n p me : wf_bcast n p -> 0 <= me < n * p ->
  bcast_remote_partners (cyclic_layout n p me) = Some (remote_partners_cyclic n p me).
Proof.
  intros Hwf Hme. destruct Hwf as (Hn & Hp & Hov & Hnp).
  exact (Gen_bcast_placed n p _ _ _ (conj Hn (conj Hp (conj Hov Hnp))) (cyclic_placement_ok n p Hn Hp) me Hme).
Qed.

(* ---------------------------------------------------------------------- *)
(* Coverage                                                                *)

Lemma class_nodes_In fuel p n b x :
  0 < p -> In x (class_nodes fuel p n b) <-> exists k, 0 <= k < Z.of_nat fuel /\ x = b + k * p /\ x < n.
Proof.
  intros Hp. revert b. induction fuel as [|f IH]; intros b; cbn [class_nodes].
  - split; [intros [] | intros (k & Hk & _); lia].
  - destruct (Z.ltb_spec b n) as [Hbn|Hbn].
    + cbn [In]. rewrite IH. split.
      * intros [<-|(k & Hk & -> & Hx)]; [exists 0; lia | exists (k + 1); lia].
      * intros (k & Hk & -> & Hx). destruct (Z.eq_dec k 0) as [->|]; [left; lia|].
        right. exists (k - 1). lia.
    + split; [intros [] | intros (k & Hk & -> & Hx); nia].
Qed.

Lemma class_nodes_NoDup fuel p n b : 0 < p -> NoDup (class_nodes fuel p n b).
Proof.
  intros Hp. revert b. induction fuel as [|f IH]; intros b; cbn [class_nodes]; [constructor|].
  destruct (b <? n); [|constructor]. constructor; [|apply IH].
  rewrite class_nodes_In by lia. intros (k & Hk & E & _). nia.
Qed.

(* the layers suffice: every node of the class below n is enumerated *)
Lemma class_nodes_complete n p off x :
  0 < n -> 0 < p -> 0 <= off < p -> 0 <= x < n -> x mod p = off ->
  In x (class_nodes (Z.to_nat (num_layers n p)) p n off).
Proof.
  intros Hn Hp Ho Hx Hmod. rewrite class_nodes_In by lia.
  exists (x / p). pose proof (Z.div_mod x p ltac:(lia)) as E. rewrite Hmod in E.
  assert (0 <= x / p) by (apply Z.div_pos; lia).
  split; [|split; [lia|lia]].
  split; [lia|]. rewrite Z2Nat.id.
  - unfold num_layers. pose proof (Z.div_mod n p ltac:(lia)) as En. pose proof (Z.mod_pos_bound n p Hp).
    destruct (Z.ltb_spec 0 (n mod p)); nia.
  - unfold num_layers. pose proof (Z.div_pos n p ltac:(lia) Hp). destruct (0 <? n mod p); lia.
Qed.

(* Every remote node b receives the stage-2 message from exactly one rank of the
   origin's node a0: the one with on-node index (a0 + b) mod p; and it arrives at
   the rank with that same index. *)
Theorem remote_node_served_once n p a0 b l :
  0 < n -> 0 < p -> 0 <= a0 < n -> 0 <= b < n -> b <> a0 -> 0 <= l < p ->
  (In (b * p + l) (remote_partners_spec n p (a0 * p + l)) <-> l = (a0 + b) mod p).
Proof.
  intros Hn Hp Ha Hb Hne Hl. unfold remote_partners_spec.
  rewrite node_of_nl, loc_of_nl by lia.
  pose proof (Z.mod_pos_bound (l - a0) p Hp) as Ho.
  split.
  - destruct (Z.ltb_spec ((l - a0) mod p) n) as [Hon|Hon]; [|intros []].
    rewrite in_map_iff. intros (x & Ex & Hin). apply filter_In in Hin. destruct Hin as (Hin & _).
    assert (x = b) by nia. subst x.
    apply class_nodes_In in Hin; [|lia]. destruct Hin as (k & _ & Eb & _).
    assert (Hb2 : b mod p = (l - a0) mod p) by (rewrite Eb, Z.mod_add by lia; apply Z.mod_mod; lia).
    assert (E2 : (a0 + b) mod p = (a0 + (l - a0)) mod p).
    { rewrite (Z.add_mod a0 b), Hb2, <- Z.add_mod by lia. reflexivity. }
    rewrite E2. replace (a0 + (l - a0)) with l by lia. symmetry. apply Z.mod_small; lia.
  - intros ->.
    assert (Hoff : ((a0 + b) mod p - a0) mod p = b mod p).
    { rewrite Zminus_mod_idemp_l. f_equal. lia. }
    rewrite Hoff. pose proof (Z.mod_pos_bound b p Hp) as Hbm.
    assert (b mod p <= b) by (apply Z.mod_le; lia).
    destruct (Z.ltb_spec (b mod p) n); [|lia].
    rewrite in_map_iff. exists b. split; [reflexivity|]. apply filter_In. split.
    + apply class_nodes_complete; lia.
    + destruct (Z.eqb_spec b a0); [congruence|reflexivity].
Qed.

(* no duplicates, all off-node, all with the sender's on-node index *)
Theorem remote_partners_shape n p me x :
  0 < n -> 0 < p -> 0 <= me < n * p -> In x (remote_partners_spec n p me) ->
  0 <= x < n * p /\ znode p x <> znode p me /\ zloc p x = zloc p me.
Proof.
  intros Hn Hp Hme. unfold remote_partners_spec.
  pose proof (loc_lt p me Hp) as Hl. pose proof (node_lt n p me Hp Hme) as Ha.
  pose proof (Z.mod_pos_bound (zloc p me - znode p me) p Hp) as Ho.
  destruct (Z.ltb_spec ((zloc p me - znode p me) mod p) n); [|intros []].
  rewrite in_map_iff. intros (b & <- & Hin). apply filter_In in Hin. destruct Hin as (Hin & Hneq).
  apply class_nodes_In in Hin; [|lia]. destruct Hin as (k & Hk & Eb & Hbn).
  assert (0 <= b) by nia.
  rewrite node_of_nl, loc_of_nl by lia. split; [nia|]. split; [|reflexivity].
  destruct (Z.eqb_spec b (znode p me)); [discriminate|assumption].
Qed.

Theorem remote_partners_NoDup n p me : 0 < p -> NoDup (remote_partners_spec n p me).
Proof.
  intros Hp. unfold remote_partners_spec. destruct (_ <? n); [|constructor].
  pose proof (loc_lt p me Hp).
  apply FinFun.Injective_map_NoDup.
  - intros x y E. nia.
  - apply NoDup_filter. apply class_nodes_NoDup; lia.
Qed.

(* the whole three-stage fan-out, as a list of (rank that runs the user function) *)
Definition local_ranks_of (p a : Z) : list Z := map (fun l => a * p + Z.of_nat l) (seq 0 (Z.to_nat p)).
Definition bcast_execs (n p o : Z) : list Z :=
  let s1 := local_ranks_of p (znode p o) in
  s1 ++ concat (map (fun r =>
      let s2 := remote_partners_spec n p r in
      s2 ++ concat (map (fun r2 => filter (fun d => negb (d =? r2)) (local_ranks_of p (znode p r2))) s2)) s1).

Fixpoint zcount (x : Z) (l : list Z) : nat := match l with [] => O | y :: t => (if x =? y then 1 else 0) + zcount x t end.

(* every rank exactly once — checked by computation on concrete layouts (n > p with several layers,
   n < p, n = p, prime sizes); the unbounded statements are the three theorems above *)
Example bcast_covers_once_small :
  forallb (fun '(n, p) =>
    forallb (fun o => forallb (fun x => Nat.eqb (zcount (Z.of_nat x) (bcast_execs n p (Z.of_nat o))) 1)
                              (seq 0 (Z.to_nat (n * p))))
            (seq 0 (Z.to_nat (n * p))))
    [(1, 1); (1, 4); (2, 2); (4, 1); (2, 3); (3, 2); (3, 4); (4, 3); (7, 1); (5, 2); (7, 2); (9, 2); (10, 3)] = true.
Proof. vm_compute. reflexivity. Qed.
