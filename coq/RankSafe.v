(* RankSafe.v — C08, the main theorem about the rank machine: for every configuration whose handler and
   callback programs are legal, every legal main program, every oracle (= every behaviour of MPI, every
   schedule) and every fuel, in every execution prefix (finished, blocked at an MPI call, or stopped by an
   assertion):   every handler starts with no other handler active and no interrupt mask alive.

   One induction on fuel over all procedures of RankMachine.run, with one specification per procedure and
   calling context:
     H  inside a handler            (re-entrancy guard set; nothing polls, nothing is delivered)
     M  main program / callbacks    (guard clear, depth 0, mask discipline)
     R  the receive loop            (guard set, depth 0, no mask: the only place handlers start) *)
From Coq Require Import ZArith List Bool Lia.
Import ListNotations.
From Ygm Require Import RankMachine.
Local Open Scope Z_scope.

Definition good_ev (e : event) : Prop := match e with NX _ d m => d = O /\ m = O | _ => True end.
Definition LogOK (s : st) : Prop := Forall good_ev (log s).

Fixpoint stack_ok (l : list bool) : Prop :=
  match l with [] => True | [b] => b = true | b :: t => b = false /\ stack_ok t end.
Definition maskinv (s : st) : Prop :=
  intr s = (match masks s with [] => true | _ => false end) /\ stack_ok (masks s).

(* results: P holds of a finished execution's state, Q of every state that is reported *)
Definition resP (P Q : st -> Prop) (r : res) : Prop :=
  match r with Ok s' => P s' /\ Q s' | Blocked s' => Q s' | Err _ s' => Q s' | OutOfFuel => True end.

Lemma resP_bind (P1 P2 Q : st -> Prop) r f :
  resP P1 Q r -> (forall s1, P1 s1 -> Q s1 -> resP P2 Q (f s1)) -> resP P2 Q (r >>= f).
Proof. destruct r; cbn; intros H Hf; auto. destruct H; auto. Qed.

Lemma resP_weaken (P1 P2 Q : st -> Prop) r : resP P1 Q r -> (forall s, P1 s -> Q s -> P2 s) -> resP P2 Q r.
Proof. destruct r; cbn; intros H Hw; auto. destruct H; split; auto. Qed.

Definition preH s := inprq s = true /\ LogOK s.
Definition postH s s' := inprq s' = true /\ masks s' = masks s /\ intr s' = intr s /\ depth s' = depth s.
Definition preM s := inprq s = false /\ depth s = O /\ maskinv s /\ LogOK s.
Definition postM s s' := inprq s' = false /\ depth s' = O /\ masks s' = masks s /\ intr s' = intr s.
Definition preR s := inprq s = true /\ depth s = O /\ masks s = [] /\ intr s = true /\ LogOK s.
Definition postR (s' : st) := inprq s' = true /\ depth s' = O /\ masks s' = [] /\ intr s' = true.

Lemma LogOK_emit e s : good_ev e -> LogOK s -> LogOK (emit e s).
Proof. intros He H. unfold LogOK. cbn. constructor; assumption. Qed.

Lemma enqueue_frame c d m s :
  let s' := enqueue c d m s in
  inprq s' = inprq s /\ masks s' = masks s /\ intr s' = intr s /\ depth s' = depth s /\ log s' = log s /\ oracle s' = oracle s.
Proof. unfold enqueue. destruct (buf_at s d); cbn; repeat split; reflexivity. Qed.

Lemma enqueue_frame2 c d m v s :
  let s' := enqueue c d m (set_scnt v s) in
  inprq s' = inprq s /\ masks s' = masks s /\ intr s' = intr s /\ depth s' = depth s /\ log s' = log s /\ oracle s' = oracle s.
Proof. apply (enqueue_frame c d m (set_scnt v s)). Qed.
Arguments enqueue : simpl never.

Lemma postM_preM s : preM s -> forall s1, postM s s1 -> LogOK s1 -> preM s1.
Proof.
  intros (Hq & Hd & (M1 & M2) & Hl) s1 (A & B & C0 & D) L1. unfold preM, maskinv. rewrite C0, D. repeat split; assumption.
Qed.
Lemma preM_emit e s : preM s -> good_ev e -> preM (emit e s).
Proof. intros (Hq & Hd & Hmi & Hl) He. repeat split; try assumption; try apply Hmi. apply LogOK_emit; assumption. Qed.
Lemma postM_trans s s1 s2 : postM s s1 -> postM s1 s2 -> postM s s2.
Proof. intros (A & B & C0 & D) (A2 & B2 & C2 & D2). unfold postM. repeat split; congruence. Qed.

Section Safe.
  Variable c : cfg.
  Hypothesis Hh : forall u, forallb legal_h (c_hprog c u) = true.
  Hypothesis Hcb : forall i, forallb legal_h (c_cbprog c i) = true.

  (* procedures a handler can reach *)
  Definition hproc (p : proc) : Prop :=
    match p with
    | PActs l => forallb legal_h l = true
    | PAsync _ | PMcast _ _ | PQueueBytes _ _ | PQueueMany _ _ | PBcast _ | PCheckHalt | PFlushToCap | PFlushBuf _ | PLocalProgress => True
    | _ => False
    end.

  (* procedures of the main context that leave the masks alone (callbacks, barrier machinery, progress) *)
  Definition mproc (p : proc) : Prop :=
    match p with
    | PActs l => forallb legal_h l = true
    | PAsync _ | PMcast _ _ | PQueueBytes _ _ | PQueueMany _ _ | PBcast _ | PCheckHalt | PFlushToCap | PFlushBuf _ | PLocalProgress
    | PPrq | PWaitUntil _ | PFlushAll | PFlushAllCbs | PFlushAllDq | PFlushAllSq => True
    | _ => False
    end.
  (* the barrier family additionally needs: no mask alive *)
  Definition bproc (p : proc) : Prop :=
    match p with PBarrier | PBarrierLoop | PReduceCounts | PReduceLoop => True | _ => False end.
  Definition rproc (p : proc) : Prop :=
    match p with PLocalIncoming | PHandleLoop _ | PExec _ => True | _ => False end.

  Definition spec (fuel : nat) : Prop :=
    (forall p s, hproc p -> preH s -> resP (postH s) LogOK (run fuel c p s)) /\
    (forall p s, mproc p -> preM s -> resP (postM s) LogOK (run fuel c p s)) /\
    (forall p s, bproc p -> preM s -> masks s = [] -> resP (postM s) LogOK (run fuel c p s)) /\
    (forall p s, rproc p -> preR s -> resP postR LogOK (run fuel c p s)) /\
    (forall ms s, depth s = O -> masks s = [] -> intr s = true -> LogOK s ->
        resP (fun s' => inprq s' = inprq s /\ depth s' = O /\ masks s' = [] /\ intr s' = true) LogOK (run fuel c (PHandle ms) s)) /\
    (forall l s k k', legal_main k l = Some k' -> k = length (masks s) -> preM s ->
        resP (fun s' => inprq s' = false /\ depth s' = O /\ maskinv s' /\ length (masks s') = k') LogOK (run fuel c (PActs l) s)).

  Ltac fin := repeat split; cbn; try assumption; try reflexivity; try congruence.
  Ltac prem := repeat (apply preM_emit; [|exact I]);
    match goal with Hq : inprq ?s = false, Hd : depth ?s = O, Hmi : maskinv ?s, Hl : LogOK ?s |- _ => exact (conj Hq (conj Hd (conj Hmi Hl))) end.
  Ltac logok := repeat (apply LogOK_emit; [exact I|]); assumption.

  Lemma maskinv_intr_true s : maskinv s -> intr s = true -> masks s = [].
  Proof. intros (H1 & _) H2. destruct (masks s); [reflexivity|congruence]. Qed.
  Lemma maskinv_nil s : maskinv s -> masks s = [] -> intr s = true.
  Proof. intros (H1 & _) H2. rewrite H2 in H1. exact H1. Qed.

  Theorem all_specs : forall fuel, spec fuel.
  Proof.
    induction fuel as [|fu IH].
    { repeat split; intros; exact I. }
    destruct IH as (IHh & IHm & IHb & IHr & IHhandle & IHmain).
    assert (QB : forall s, LogOK s -> LogOK s) by auto.
    (* ------------------------------------------------------------------ H *)
    assert (SH : forall p s, hproc p -> preH s -> resP (postH s) LogOK (run (S fu) c p s)).
    { intros p s Hp (Hq & Hl). destruct p; cbn [hproc] in Hp; try contradiction.
      - (* PActs *)
        destruct l as [|a rest]; cbn [run]; [fin|]. cbn [forallb] in Hp. apply andb_prop in Hp as (Ha & Hrest).
        eapply resP_bind with (P1 := postH s).
        + destruct a; cbn [legal_h] in Ha; try discriminate.
          * (* AAsync *)
            eapply resP_bind with (P1 := postH s).
            -- eapply resP_weaken; [apply (IHh (PAsync _) (emit (NO u) s) I)|]; [split; [exact Hq | apply LogOK_emit; [exact I|exact Hl]]|].
               intros s1 (A & B & C0 & D) _. fin.
            -- intros s1 (A & B & C0 & D) L1. cbn.
               destruct (inmain s1); cbn; (split; [unfold postH; repeat split; cbn; congruence | logok]).
          * (* AAsyncRef *)
            eapply resP_bind with (P1 := postH s).
            -- eapply resP_weaken; [apply (IHh PCheckHalt (emit (NO u) s) I)|]; [split; [exact Hq | apply LogOK_emit; [exact I|exact Hl]]|].
               intros s1 (A & B & C0 & D) _. fin.
            -- intros s1 (A & B & C0 & D) L1.
               eapply resP_bind with (P1 := postH s).
               ++ eapply resP_weaken; [apply (IHh (PAsync _) s1 I)|]; [split; assumption|].
                  intros s2 (A2 & B2 & C2 & D2) _. unfold postH. repeat split; congruence.
               ++ intros s2 (A2 & B2 & C2 & D2) L2. cbn. split; [fin | apply LogOK_emit; [exact I|exact L2]].
          * (* AFunctor *)
            eapply resP_bind with (P1 := postH s).
            -- eapply resP_weaken; [apply (IHh (PAsync _) (emit (NO u) s) I)|]; [split; [exact Hq | apply LogOK_emit; [exact I|exact Hl]]|].
               intros s1 (A & B & C0 & D) _. fin.
            -- intros s1 (A & B & C0 & D) L1. cbn. split; [fin | apply LogOK_emit; [exact I|exact L1]].
          * (* ABcast *)
            eapply resP_bind with (P1 := postH s).
            -- eapply resP_weaken; [apply (IHh (PBcast _) (emit (NO u) s) I)|]; [split; [exact Hq | apply LogOK_emit; [exact I|exact Hl]]|].
               intros s1 (A & B & C0 & D) _. fin.
            -- intros s1 (A & B & C0 & D) L1. cbn. split; [fin | apply LogOK_emit; [exact I|exact L1]].
          * (* AMcast *)
            eapply resP_bind with (P1 := postH s).
            -- eapply resP_weaken; [apply (IHh (PMcast _ _) (emit (NO u) s) I)|]; [split; [exact Hq | apply LogOK_emit; [exact I|exact Hl]]|].
               intros s1 (A & B & C0 & D) _. fin.
            -- intros s1 (A & B & C0 & D) L1. cbn. split; [fin | apply LogOK_emit; [exact I|exact L1]].
          * (* ALp *) apply (IHh PLocalProgress s I). split; assumption.
          * (* ASf *) cbn. fin.
          * (* ACb *) cbn. fin.
          * (* AMut *) cbn. fin.
        + intros s1 (A & B & C0 & D) L1.
          eapply resP_weaken; [apply (IHh (PActs rest) s1 Hrest)|]; [split; assumption|].
          intros s2 (A2 & B2 & C2 & D2) _. unfold postH. repeat split; congruence.
      - (* PAsync *)
        cbn [run].
        eapply resP_bind with (P1 := postH s).
        + destruct (hk m =? 1)%nat; [cbn; fin|]. apply (IHh PCheckHalt s I). split; assumption.
        + intros s1 (A & B & C0 & D) L1. cbv zeta.
          destruct (enqueue_frame2 c (next_hop c (mdest m)) m (scnt s1 + 1) s1) as (E1 & E2 & E3 & E4 & E5 & _).
          eapply resP_weaken; [apply (IHh PFlushToCap _ I)|]; [split; [congruence | unfold LogOK in *; rewrite E5; exact L1]|].
          intros s2 (A2 & B2 & C2 & D2) _. unfold postH. repeat split; congruence.
      - (* PQueueBytes *)
        cbn [run].
        destruct (enqueue_frame2 c d m (scnt s + 1) s) as (E1 & E2 & E3 & E4 & E5 & _).
        split; [unfold postH; repeat split; congruence|]. unfold LogOK in *. rewrite E5. exact Hl.
      - (* PBcast *)
        cbn [run].
        eapply resP_bind with (P1 := postH s); [apply (IHh PCheckHalt s I); split; assumption|].
        intros s1 (A & B & C0 & D) L1.
        eapply resP_bind with (P1 := postH s).
        + eapply resP_weaken; [apply (IHh (PQueueMany _ _) s1 I)|]; [split; assumption|].
          intros s2 (A2 & B2 & C2 & D2) _. unfold postH. repeat split; congruence.
        + intros s2 (A2 & B2 & C2 & D2) L2.
          eapply resP_weaken; [apply (IHh PFlushToCap s2 I)|]; [split; assumption|].
          intros s3 (A3 & B3 & C3 & D3) _. unfold postH. repeat split; congruence.
      - (* PMcast *)
        destruct ds as [|d ds]; cbn [run]; [fin|].
        eapply resP_bind with (P1 := postH s).
        + apply (IHh (PAsync _) s I). split; assumption.
        + intros s1 (A & B & C0 & D) L1.
          eapply resP_weaken; [apply (IHh (PMcast ds m) s1 I)|]; [split; assumption|].
          intros s2 (A2 & B2 & C2 & D2) _. unfold postH. repeat split; congruence.
      - (* PCheckHalt *)
        cbn [run]. rewrite Hq. destruct (intr s); cbn; fin.
      - (* PFlushToCap *)
        cbn [run]. destruct (c_cap c <? sbb s); [|cbn; fin].
        destruct (dq s) as [|d t]; [cbn; exact Hl|].
        eapply resP_bind with (P1 := postH s).
        + eapply resP_weaken; [apply (IHh (PFlushBuf d) (set_dq t s) I)|]; [split; assumption|]. intros s1 H1 _. exact H1.
        + intros s1 (A & B & C0 & D) L1.
          eapply resP_weaken; [apply (IHh PFlushToCap s1 I)|]; [split; assumption|].
          intros s2 (A2 & B2 & C2 & D2) _. unfold postH. repeat split; congruence.
      - (* PFlushBuf *)
        cbn [run]. destruct (buf_at s d) as [|m0 ms0]; [cbn; fin|].
        cbv zeta. destruct (0 <? c_freq c); cbn; rewrite Hq; cbn; (split; [fin | apply LogOK_emit; [exact I|exact Hl]]).
      - (* PQueueMany *)
        destruct ds as [|d ds]; cbn [run]; [fin|].
        eapply resP_bind with (P1 := postH s).
        + apply (IHh (PQueueBytes d m) s I). split; assumption.
        + intros s1 (A & B & C0 & D) L1.
          eapply resP_weaken; [apply (IHh (PQueueMany ds m) s1 I)|]; [split; assumption|].
          intros s2 (A2 & B2 & C2 & D2) _. unfold postH. repeat split; congruence.
      - (* PLocalProgress *)
        cbn [run]. rewrite Hq. cbn [bind].
        destruct (dq s) as [|d t]; [cbn; fin|].
        eapply resP_weaken; [apply (IHh (PFlushBuf d) (set_dq t s) I)|]; [split; assumption|]. intros s1 H1 _. exact H1. }
    (* ------------------------------------------------------------------ handle *)
    assert (SHandle : forall ms s, depth s = O -> masks s = [] -> intr s = true -> LogOK s ->
        resP (fun s' => inprq s' = inprq s /\ depth s' = O /\ masks s' = [] /\ intr s' = true) LogOK (run (S fu) c (PHandle ms) s)).
    { intros ms s Hd Hm Hi Hl. cbn [run]. cbv zeta.
      eapply resP_bind with (P1 := postR).
      - apply (IHr (PHandleLoop ms) (set_inprq true s) I). unfold preR. fin.
      - intros s1 (A & B & C0 & D) L1.
        set (s2 := emit EIrecv (set_inprq (inprq s) s1)).
        assert (L2 : LogOK s2) by (apply LogOK_emit; [exact I|exact L1]).
        destruct (inprq s) eqn:Es.
        + eapply resP_weaken; [apply (IHh PFlushToCap s2 I)|]; [split; [reflexivity|exact L2]|].
          intros s3 (A3 & B3 & C3 & D3) _. cbn in *. repeat split; congruence.
        + eapply resP_weaken; [apply (IHm PFlushToCap s2 I)|].
          * unfold preM, maskinv. cbn. rewrite C0, D. cbn. repeat split; assumption.
          * intros s3 (A3 & B3 & C3 & D3) _. cbn in *. repeat split; congruence. }
    (* ------------------------------------------------------------------ R *)
    assert (SR : forall p s, rproc p -> preR s -> resP postR LogOK (run (S fu) c p s)).
    { intros p s Hp (Hq & Hd & Hm & Hi & Hl). destruct p; cbn [rproc] in Hp; try contradiction.
      - (* PLocalIncoming *)
        cbn [run]. unfold ask. cbn [oracle emit].
        assert (Le : LogOK (emit ETestRecv s)) by (apply LogOK_emit; [exact I|exact Hl]).
        destruct (oracle s) as [|r rest]; [cbn; exact Le|].
        destruct r; try (cbn; exact Le).
        destruct data as [ms|]; [|cbn; split; [unfold postR; fin | exact Le]].
        eapply resP_bind with (P1 := postR).
        + eapply resP_weaken; [apply (IHhandle ms (set_oracle rest (emit ETestRecv s)))|]; cbn; try assumption.
          intros s1 (A & B & C0 & D) _. unfold postR. cbn in A. repeat split; congruence.
        + intros s1 (A & B & C0 & D) L1.
          eapply resP_bind with (P1 := postR).
          * apply (IHr PLocalIncoming s1 I). unfold preR. fin.
          * intros s2 (A2 & B2 & C2 & D2) L2. cbn. split; [unfold postR; fin | exact L2].
      - (* PHandleLoop *)
        destruct ms as [|m rest]; cbn [run]; [unfold postR; fin|].
        eapply resP_bind with (P1 := postR).
        + destruct ((c_routing c =? 0) || (mdest m =? c_me c) || (mdest m =? -1)).
          * eapply resP_bind with (P1 := postR).
            -- apply (IHr (PExec m) s I). unfold preR. fin.
            -- intros s1 (A & B & C0 & D) L1. cbn. split; [unfold postR; fin | exact L1].
          * destruct (enqueue_frame c (next_hop c (mdest m)) m s) as (E1 & E2 & E3 & E4 & E5 & _).
            eapply resP_weaken; [apply (IHh PFlushToCap _ I)|].
            -- split; [congruence|]. unfold LogOK in *. rewrite E5. exact Hl.
            -- intros s1 (A & B & C0 & D0) _. unfold postR. repeat split; congruence.
        + intros s1 (A & B & C0 & D) L1. apply (IHr (PHandleLoop rest) s1 I). unfold preR. fin.
      - (* PExec: the only place a handler starts *)
        cbn [run]. cbv zeta.
        set (s0 := emit (NX (uid m) (depth s) (length (masks s))) s).
        assert (L0 : LogOK s0). { apply LogOK_emit; [|exact Hl]. cbn. rewrite Hd, Hm. split; reflexivity. }
        set (s1 := set_inmain false (set_depth (S (depth s0)) s0)).
        assert (P1 : preH s1) by (split; [exact Hq | exact L0]).
        eapply resP_bind with (P1 := postH s1).
        + destruct (stage m) as [|[|[|?]]]; try (cbn; split; [unfold postH; fin | exact L0]).
          * apply (IHh (PQueueMany _ _) s1 I P1).
          * apply (IHh (PQueueMany _ _) s1 I P1).
        + intros s2 (A & B & C0 & D) L2.
          eapply resP_bind with (P1 := postH s1).
          * eapply resP_weaken; [apply (IHh (PActs (c_hprog c (uid m))) s2 (Hh (uid m)))|]; [split; assumption|].
            intros s3 (A3 & B3 & C3 & D3) _. unfold postH. repeat split; congruence.
          * intros s3 (A3 & B3 & C3 & D3) L3. cbn. split.
            -- unfold postR. cbn. cbn in A3, B3, C3. repeat split; try congruence.
            -- apply LogOK_emit; [exact I|exact L3]. }
    (* ------------------------------------------------------------------ M *)
    assert (SM : forall p s, mproc p -> preM s -> resP (postM s) LogOK (run (S fu) c p s)).
    { intros p s Hp (Hq & Hd & Hmi & Hl). destruct p; cbn [mproc] in Hp; try contradiction.
      - (* PActs (callback bodies) *)
        destruct l as [|a rest]; cbn [run]; [unfold postM; fin|]. cbn [forallb] in Hp. apply andb_prop in Hp as (Ha & Hrest).
        pose proof (postM_preM s (conj Hq (conj Hd (conj Hmi Hl)))) as PM.
        eapply resP_bind with (P1 := postM s).
        + destruct a; cbn [legal_h] in Ha; try discriminate.
          * eapply resP_bind with (P1 := postM s).
            -- eapply resP_weaken; [apply (IHm (PAsync _) (emit (NO u) s) I)|].
               ++ prem.
               ++ intros s1 (A & B & C0 & D) _. unfold postM. fin.
            -- intros s1 (A & B & C0 & D) L1. cbn.
               destruct (inmain s1); cbn; (split; [unfold postM; repeat split; cbn; congruence | logok]).
          * eapply resP_bind with (P1 := postM s).
            -- eapply resP_weaken; [apply (IHm PCheckHalt (emit (NO u) s) I)|].
               ++ prem.
               ++ intros s1 (A & B & C0 & D) _. unfold postM. fin.
            -- intros s1 P1 L1.
               eapply resP_bind with (P1 := postM s).
               ++ eapply resP_weaken; [apply (IHm (PAsync _) s1 I (PM s1 P1 L1))|].
                  destruct P1 as (A & B & C0 & D). intros s2 (A2 & B2 & C2 & D2) _. unfold postM. repeat split; congruence.
               ++ intros s2 (A2 & B2 & C2 & D2) L2. cbn. split; [unfold postM; fin | apply LogOK_emit; [exact I|exact L2]].
          * eapply resP_bind with (P1 := postM s).
            -- eapply resP_weaken; [apply (IHm (PAsync _) (emit (NO u) s) I)|].
               ++ prem.
               ++ intros s1 (A & B & C0 & D) _. unfold postM. fin.
            -- intros s1 (A & B & C0 & D) L1. cbn. split; [unfold postM; fin | apply LogOK_emit; [exact I|exact L1]].
          * eapply resP_bind with (P1 := postM s).
            -- eapply resP_weaken; [apply (IHm (PBcast _) (emit (NO u) s) I)|].
               ++ prem.
               ++ intros s1 (A & B & C0 & D) _. unfold postM. fin.
            -- intros s1 (A & B & C0 & D) L1. cbn. split; [unfold postM; fin | apply LogOK_emit; [exact I|exact L1]].
          * eapply resP_bind with (P1 := postM s).
            -- eapply resP_weaken; [apply (IHm (PMcast _ _) (emit (NO u) s) I)|].
               ++ prem.
               ++ intros s1 (A & B & C0 & D) _. unfold postM. fin.
            -- intros s1 (A & B & C0 & D) L1. cbn. split; [unfold postM; fin | apply LogOK_emit; [exact I|exact L1]].
          * apply (IHm PLocalProgress s I). prem.
          * cbn. unfold postM. fin.
          * cbn. unfold postM. fin.
          * cbn. unfold postM. fin.
        + intros s1 P1 L1.
          eapply resP_weaken; [apply (IHm (PActs rest) s1 Hrest (PM s1 P1 L1))|].
          destruct P1 as (A & B & C0 & D). intros s2 (A2 & B2 & C2 & D2) _. unfold postM. repeat split; congruence.
      - (* PAsync *)
        cbn [run].
        pose proof (postM_preM s (conj Hq (conj Hd (conj Hmi Hl)))) as PM.
        eapply resP_bind with (P1 := postM s).
        + destruct (hk m =? 1)%nat; [cbn; unfold postM; fin|]. apply (IHm PCheckHalt s I). prem.
        + intros s1 P1 L1. cbv zeta.
          destruct (enqueue_frame2 c (next_hop c (mdest m)) m (scnt s1 + 1) s1) as (E1 & E2 & E3 & E4 & E5 & _). destruct P1 as (A & B & C0 & D).
          eapply resP_weaken; [apply (IHm PFlushToCap _ I)|].
          * unfold preM, maskinv. rewrite E1, E2, E3, E4, C0, D. destruct Hmi as (M1 & M2). repeat split; try assumption.
            unfold LogOK in *. rewrite E5. exact L1.
          * intros s2 (A2 & B2 & C2 & D2) _. unfold postM. repeat split; congruence.
      - (* PQueueBytes *)
        cbn [run].
        destruct (enqueue_frame2 c d m (scnt s + 1) s) as (E1 & E2 & E3 & E4 & E5 & _).
        split; [unfold postM; repeat split; congruence|]. unfold LogOK in *. rewrite E5. exact Hl.
      - (* PBcast *)
        pose proof (postM_preM s (conj Hq (conj Hd (conj Hmi Hl)))) as PM.
        cbn [run].
        eapply resP_bind with (P1 := postM s); [apply (IHm PCheckHalt s I); prem|].
        intros s1 P1 L1.
        eapply resP_bind with (P1 := postM s).
        + eapply resP_weaken; [apply (IHm (PQueueMany _ _) s1 I (PM s1 P1 L1))|].
          destruct P1 as (A & B & C0 & D). intros s2 (A2 & B2 & C2 & D2) _. unfold postM. repeat split; congruence.
        + intros s2 P2 L2. destruct P2 as (A2 & B2 & C2 & D2).
          eapply resP_weaken; [apply (IHm PFlushToCap s2 I (PM s2 (conj A2 (conj B2 (conj C2 D2))) L2))|].
          intros s3 (A3 & B3 & C3 & D3) _. unfold postM. repeat split; congruence.
      - (* PMcast *)
        pose proof (postM_preM s (conj Hq (conj Hd (conj Hmi Hl)))) as PM.
        destruct ds as [|d ds]; cbn [run]; [unfold postM; fin|].
        eapply resP_bind with (P1 := postM s).
        + apply (IHm (PAsync _) s I). prem.
        + intros s1 P1 L1.
          eapply resP_weaken; [apply (IHm (PMcast ds m) s1 I (PM s1 P1 L1))|].
          destruct P1 as (A & B & C0 & D). intros s2 (A2 & B2 & C2 & D2) _. unfold postM. repeat split; congruence.
      - (* PCheckHalt *)
        pose proof (postM_preM s (conj Hq (conj Hd (conj Hmi Hl)))) as PM.
        cbn [run]. destruct (intr s && negb (inprq s) && (c_cap c <? pend s)); [|cbn; unfold postM; fin].
        eapply resP_bind with (P1 := postM s); [apply (IHm PPrq s I); prem|].
        intros s1 P1 L1.
        eapply resP_weaken; [apply (IHm PCheckHalt s1 I (PM s1 P1 L1))|].
        destruct P1 as (A & B & C0 & D). intros s2 (A2 & B2 & C2 & D2) _. unfold postM. repeat split; congruence.
      - (* PFlushToCap *)
        pose proof (postM_preM s (conj Hq (conj Hd (conj Hmi Hl)))) as PM.
        cbn [run]. destruct (c_cap c <? sbb s); [|cbn; unfold postM; fin].
        destruct (dq s) as [|d t]; [cbn; exact Hl|].
        eapply resP_bind with (P1 := postM s).
        + eapply resP_weaken; [apply (IHm (PFlushBuf d) (set_dq t s) I)|]; [prem|]. intros s1 H1 _. exact H1.
        + intros s1 P1 L1.
          eapply resP_weaken; [apply (IHm PFlushToCap s1 I (PM s1 P1 L1))|].
          destruct P1 as (A & B & C0 & D). intros s2 (A2 & B2 & C2 & D2) _. unfold postM. repeat split; congruence.
      - (* PFlushBuf *)
        cbn [run]. destruct (buf_at s d) as [|m0 ms0]; [cbn; unfold postM; fin|].
        cbv zeta.
        match goal with |- resP _ _ (if inprq ?x then _ else _) => set (s3 := x) end.
        assert (F3 : inprq s3 = false /\ depth s3 = O /\ masks s3 = masks s /\ intr s3 = intr s /\ LogOK s3).
        { subst s3. destruct (0 <? c_freq c); cbn; repeat split; try assumption; apply LogOK_emit; try exact I; exact Hl. }
        destruct F3 as (F1 & F2 & F3 & F4 & F5). rewrite F1.
        eapply resP_weaken; [apply (IHm PPrq s3 I)|].
        + unfold preM, maskinv. rewrite F3, F4. destruct Hmi as (M1 & M2). repeat split; assumption.
        + intros s4 (A & B & C0 & D) _. unfold postM. repeat split; congruence.
      - (* PPrq *)
        cbn [run]. rewrite Hq. cbn [negb set_inprq set_ret intr].
        destruct (intr s) eqn:Ei; cbn [negb]; [|cbn; unfold postM; fin].
        pose proof (maskinv_intr_true s Hmi Ei) as Hm0.
        set (s0 := set_ret false (set_inprq true s)).
        assert (R0 : preR s0) by (unfold preR; subst s0; cbn; fin).
        eapply resP_bind with (P1 := postR).
        + destruct (c_nisw c <? Z.of_nat (length (sendq s0))).
          * unfold ask. cbn [oracle emit].
            assert (Le : LogOK (emit EWaitSR s0)) by (apply LogOK_emit; [exact I|exact Hl]).
            destruct (oracle s0) as [|r rest]; [cbn; exact Le|].
            destruct r; try (cbn; exact Le).
            set (s1 := set_oracle rest (emit EWaitSR s0)).
            set (s2 := if send_done then match sendq s1 with [] => s1 | z :: t => set_sendq t (set_pend (pend s1 - z) s1) end else s1).
            assert (F2 : inprq s2 = true /\ depth s2 = O /\ masks s2 = [] /\ intr s2 = true /\ LogOK s2).
            { subst s2. destruct send_done; [destruct (sendq s1)|]; cbn; repeat split; try assumption; exact Le. }
            destruct F2 as (G1 & G2 & G3 & G4 & G5).
            destruct data as [ms|]; [|cbn; split; [unfold postR; fin|exact G5]].
            eapply resP_bind with (P1 := postR).
            -- eapply resP_weaken; [apply (IHhandle ms (set_ret true s2))|]; cbn; try assumption.
               intros s3 (A & B & C0 & D) _. unfold postR. cbn in A. repeat split; congruence.
            -- intros s3 (A & B & C0 & D) L3. cbn. split; [unfold postR; fin|exact L3].
          * destruct (sendq s0) as [|z t] eqn:Es; [cbn; split; [destruct R0 as (? & ? & ? & ? & ?); unfold postR; fin | exact Hl]|].
            unfold ask. cbn [oracle emit].
            assert (Le : LogOK (emit ETestSend s0)) by (apply LogOK_emit; [exact I|exact Hl]).
            destruct (oracle s0) as [|r rest]; [cbn; exact Le|].
            destruct r; try (cbn; exact Le).
            destruct flag; cbn; (split; [unfold postR; fin | exact Le]).
        + intros s4 (A & B & C0 & D) L4.
          eapply resP_bind with (P1 := postR).
          * apply (IHr PLocalIncoming (set_ret false s4) I). unfold preR. cbn. fin.
          * intros s5 (A5 & B5 & C5 & D5) L5. cbn. split; [|exact L5].
            unfold postM. cbn. repeat split; try assumption; congruence.
      - (* PQueueMany *)
        pose proof (postM_preM s (conj Hq (conj Hd (conj Hmi Hl)))) as PM.
        destruct ds as [|d ds]; cbn [run]; [unfold postM; fin|].
        eapply resP_bind with (P1 := postM s).
        + apply (IHm (PQueueBytes d m) s I). prem.
        + intros s1 P1 L1.
          eapply resP_weaken; [apply (IHm (PQueueMany ds m) s1 I (PM s1 P1 L1))|].
          destruct P1 as (A & B & C0 & D). intros s2 (A2 & B2 & C2 & D2) _. unfold postM. repeat split; congruence.
      - (* PLocalProgress *)
        pose proof (postM_preM s (conj Hq (conj Hd (conj Hmi Hl)))) as PM.
        cbn [run]. rewrite Hq.
        eapply resP_bind with (P1 := postM s); [apply (IHm PPrq s I); prem|].
        intros s1 P1 L1. destruct (dq s1) as [|d t]; [cbn; split; assumption|].
        eapply resP_weaken; [apply (IHm (PFlushBuf d) (set_dq t s1) I)|].
        + pose proof (PM s1 P1 L1) as (X1 & X2 & X3 & X4). exact (conj X1 (conj X2 (conj X3 X4))).
        + destruct P1 as (A & B & C0 & D). intros s2 (A2 & B2 & C2 & D2) _. unfold postM. cbn in *. repeat split; congruence.
      - (* PWaitUntil *)
        pose proof (postM_preM s (conj Hq (conj Hd (conj Hmi Hl)))) as PM.
        cbn [run]. destruct (has_flag s f); [cbn; unfold postM; fin|].
        eapply resP_bind with (P1 := postM s); [apply (IHm PLocalProgress s I); prem|].
        intros s1 P1 L1.
        eapply resP_weaken; [apply (IHm (PWaitUntil f) s1 I (PM s1 P1 L1))|].
        destruct P1 as (A & B & C0 & D). intros s2 (A2 & B2 & C2 & D2) _. unfold postM. repeat split; congruence.
      - (* PFlushAll *)
        pose proof (postM_preM s (conj Hq (conj Hd (conj Hmi Hl)))) as PM.
        assert (TR : forall s1 s2, postM s s1 -> postM s1 s2 -> postM s s2).
        { intros s1 s2 (A & B & C0 & D) (A2 & B2 & C2 & D2). unfold postM. repeat split; congruence. }
        cbn [run].
        eapply resP_bind with (P1 := postM s); [apply (IHm PPrq s I); prem|].
        intros s1 P1 L1.
        eapply resP_bind with (P1 := postM s).
        { eapply resP_weaken; [apply (IHm PFlushAllCbs s1 I (PM s1 P1 L1))|]. intros s2 P2 _. exact (TR s1 s2 P1 P2). }
        intros s2 P2 L2.
        eapply resP_bind with (P1 := postM s).
        { eapply resP_weaken; [apply (IHm PFlushAllDq s2 I (PM s2 P2 L2))|]. intros s3 P3 _. exact (TR s2 s3 P2 P3). }
        intros s3 P3 L3.
        eapply resP_bind with (P1 := postM s).
        { eapply resP_weaken; [apply (IHm PFlushAllSq s3 I (PM s3 P3 L3))|]. intros s4 P4 _. exact (TR s3 s4 P3 P4). }
        intros s4 P4 L4. destruct (ret s4); [|cbn; split; assumption].
        eapply resP_weaken; [apply (IHm PFlushAll s4 I (PM s4 P4 L4))|]. intros s5 P5 _. exact (TR s4 s5 P4 P5).
      - (* PFlushAllCbs *)
        pose proof (postM_preM s (conj Hq (conj Hd (conj Hmi Hl)))) as PM.
        cbn [run]. destruct (cbs s) as [|id t]; [cbn; unfold postM; fin|]. cbv zeta.
        set (s0 := emit (NCBX id) (set_ret true (set_cbs t s))).
        assert (P0 : postM s (set_inmain false s0)) by (unfold postM; subst s0; cbn; fin).
        assert (L0 : LogOK (set_inmain false s0)) by (subst s0; apply LogOK_emit; [exact I|exact Hl]).
        eapply resP_bind with (P1 := postM s).
        + eapply resP_weaken; [apply (IHm (PActs (c_cbprog c id)) (set_inmain false s0) (Hcb id) (PM _ P0 L0))|].
          destruct P0 as (A & B & C0 & D). intros s1 (A1 & B1 & C1 & D1) _. unfold postM. repeat split; congruence.
        + intros s1 P1 L1.
          set (s2 := set_ret true (emit (Ncbx id) (set_inmain (inmain s0) s1))).
          assert (P2 : postM s s2) by (destruct P1 as (A & B & C0 & D); unfold postM; subst s2; cbn; fin).
          assert (L2 : LogOK s2) by (subst s2; apply LogOK_emit; [exact I|exact L1]).
          eapply resP_weaken; [apply (IHm PFlushAllCbs s2 I (PM s2 P2 L2))|].
          destruct P2 as (A & B & C0 & D). intros s3 (A3 & B3 & C3 & D3) _. unfold postM. repeat split; congruence.
      - (* PFlushAllDq *)
        pose proof (postM_preM s (conj Hq (conj Hd (conj Hmi Hl)))) as PM.
        assert (TR : forall s1 s2, postM s s1 -> postM s1 s2 -> postM s s2).
        { intros s1 s2 (A & B & C0 & D) (A2 & B2 & C2 & D2). unfold postM. repeat split; congruence. }
        cbn [run]. destruct (dq s) as [|d t]; [cbn; unfold postM; fin|].
        assert (P0 : postM s (set_dq t s)) by (unfold postM; cbn; fin).
        eapply resP_bind with (P1 := postM s).
        { eapply resP_weaken; [apply (IHm (PFlushBuf d) (set_dq t s) I (PM _ P0 Hl))|]. intros s1 P1 _. exact (TR _ _ P0 P1). }
        intros s1 P1 L1.
        eapply resP_bind with (P1 := postM s).
        { eapply resP_weaken; [apply (IHm PPrq s1 I (PM s1 P1 L1))|]. intros s2 P2 _. exact (TR _ _ P1 P2). }
        intros s2 P2 L2.
        assert (P3 : postM s (set_ret true s2)) by (destruct P2 as (A & B & C0 & D); unfold postM; cbn; fin).
        eapply resP_weaken; [apply (IHm PFlushAllDq (set_ret true s2) I (PM _ P3 L2))|]. intros s3 P4 _. exact (TR _ _ P3 P4).
      - (* PFlushAllSq *)
        pose proof (postM_preM s (conj Hq (conj Hd (conj Hmi Hl)))) as PM.
        cbn [run]. destruct (sendq s) as [|z t]; [cbn; unfold postM; fin|]. cbv zeta.
        eapply resP_bind with (P1 := postM s); [apply (IHm PPrq s I); prem|].
        intros s1 P1 L1.
        assert (P2 : postM s (set_ret (ret s || ret s1) s1)) by (destruct P1 as (A & B & C0 & D); unfold postM; cbn; fin).
        eapply resP_weaken; [apply (IHm PFlushAllSq _ I (PM _ P2 L1))|].
        destruct P2 as (A & B & C0 & D). intros s3 (A3 & B3 & C3 & D3) _. unfold postM. repeat split; congruence. }
    (* ------------------------------------------------------------------ barrier family *)
    assert (SB : forall p s, bproc p -> preM s -> masks s = [] -> resP (postM s) LogOK (run (S fu) c p s)).
    { intros p s Hp (Hq & Hd & Hmi & Hl) Hm0. pose proof (maskinv_nil s Hmi Hm0) as Hi.
      assert (PM : forall s1, postM s s1 -> LogOK s1 -> preM s1 /\ masks s1 = []).
      { intros s1 P1 L1. split; [exact (postM_preM s (conj Hq (conj Hd (conj Hmi Hl))) s1 P1 L1) | destruct P1 as (A & B & C0 & D); congruence]. }
      assert (TR : forall s1 s2, postM s s1 -> postM s1 s2 -> postM s s2).
      { intros s1 s2 (A & B & C0 & D) (A2 & B2 & C2 & D2). unfold postM. repeat split; congruence. }
      destruct p; cbn [bproc] in Hp; try contradiction.
      - (* PBarrier *)
        cbn [run].
        eapply resP_bind with (P1 := postM s); [apply (IHm PFlushAll s I); prem|].
        intros s1 P1 L1.
        assert (P2 : postM s (set_prev (1, 2) (set_cur (3, 4) s1))) by (destruct P1 as (A & B & C0 & D); unfold postM; cbn; fin).
        destruct (PM _ P2 L1) as (X & Y).
        eapply resP_weaken; [apply (IHb PBarrierLoop _ I X Y)|]. intros s3 P3 _. exact (TR _ _ P2 P3).
      - (* PBarrierLoop *)
        cbn [run]. destruct (cur s) as (c1, c2).
        destruct ((c1 =? c2) && (fst (prev s) =? c1) && (snd (prev s) =? c2)).
        + destruct (cbs s); [destruct (dq s)|]; cbn; try exact Hl; unfold postM; fin.
        + assert (P0 : postM s (set_prev (c1, c2) s)) by (unfold postM; cbn; fin).
          destruct (PM _ P0 Hl) as (X & Y).
          eapply resP_bind with (P1 := postM s).
          { eapply resP_weaken; [apply (IHb PReduceCounts _ I X Y)|]. intros s1 P1 _. exact (TR _ _ P0 P1). }
          intros s1 P1 L1. destruct (PM _ P1 L1) as (X1 & Y1).
          eapply resP_bind with (P1 := postM s).
          { destruct (fst (cur s1) =? snd (cur s1)); [cbn; split; assumption|].
            eapply resP_weaken; [apply (IHm PFlushAll s1 I X1)|]. intros s2 P2 _. exact (TR _ _ P1 P2). }
          intros s2 P2 L2. destruct (PM _ P2 L2) as (X2 & Y2).
          eapply resP_weaken; [apply (IHb PBarrierLoop s2 I X2 Y2)|]. intros s3 P3 _. exact (TR _ _ P2 P3).
      - (* PReduceCounts *)
        cbn [run]. destruct (negb ((pend s =? 0) && (sbb s =? 0))); [cbn; exact Hl|].
        set (s0 := emit (EIallreduce (rcnt s) (scnt s)) (set_red_done false s)).
        assert (P0 : postM s s0) by (unfold postM; subst s0; cbn; fin).
        assert (L0 : LogOK s0) by (subst s0; apply LogOK_emit; [exact I|exact Hl]).
        destruct (PM _ P0 L0) as (X & Y).
        eapply resP_weaken; [apply (IHb PReduceLoop s0 I X Y)|]. intros s3 P3 _. exact (TR _ _ P0 P3).
      - (* PReduceLoop *)
        cbn [run]. destruct (red_done s); [cbn; unfold postM; fin|].
        unfold ask. cbn [oracle emit].
        assert (Le : LogOK (emit EWaitIR s)) by (apply LogOK_emit; [exact I|exact Hl]).
        destruct (oracle s) as [|r rest]; [cbn; exact Le|].
        destruct r; try (cbn; exact Le).
        set (s1 := set_oracle rest (emit EWaitIR s)).
        set (s2 := match result with Some v => set_red_done true (set_cur v s1) | None => s1 end).
        assert (P2 : postM s s2 /\ LogOK s2).
        { subst s2 s1. destruct result; cbn; (split; [unfold postM; cbn; fin | exact Le]). }
        destruct P2 as (P2 & L2). destruct (PM _ P2 L2) as (X2 & Y2).
        eapply resP_bind with (P1 := postM s).
        + destruct data as [ms|]; [|cbn; split; assumption].
          destruct P2 as (A & B & C0 & D).
          eapply resP_bind with (P1 := postM s).
          * eapply resP_weaken; [apply (IHhandle ms s2)|]; try congruence; try assumption.
            intros s3 (A3 & B3 & C3 & D3) _. unfold postM. repeat split; congruence.
          * intros s3 P3 L3. destruct (PM _ P3 L3) as (X3 & Y3).
            eapply resP_weaken; [apply (IHm PFlushAll s3 I X3)|]. intros s4 P4 _. exact (TR _ _ P3 P4).
        + intros s3 P3 L3. destruct (PM _ P3 L3) as (X3 & Y3).
          eapply resP_weaken; [apply (IHb PReduceLoop s3 I X3 Y3)|]. intros s4 P4 _. exact (TR _ _ P3 P4). }
    (* ------------------------------------------------------------------ main programs *)
    assert (SMain : forall l s k k', legal_main k l = Some k' -> k = length (masks s) -> preM s ->
        resP (fun s' => inprq s' = false /\ depth s' = O /\ maskinv s' /\ length (masks s') = k') LogOK (run (S fu) c (PActs l) s)).
    { intros l s k k' Hleg Hk (Hq & Hd & Hmi & Hl).
      destruct l as [|a rest]; cbn [run].
      - cbn in Hleg. injection Hleg as <-. cbn. repeat split; try assumption; try apply Hmi; congruence.
      - (* one act, then the rest by the induction hypothesis on fuel *)
        pose proof (conj Hq (conj Hd (conj Hmi Hl)) : preM s) as PS.
        assert (PMk : forall s1, postM s s1 -> LogOK s1 -> preM s1 /\ length (masks s1) = k).
        { intros s1 P1 L1. split; [exact (postM_preM s (conj Hq (conj Hd (conj Hmi Hl))) s1 P1 L1) | destruct P1 as (A & B & C0 & D); congruence]. }
        assert (Rest : forall s1 kk, legal_main kk rest = Some k' -> preM s1 -> length (masks s1) = kk ->
                   resP (fun s' => inprq s' = false /\ depth s' = O /\ maskinv s' /\ length (masks s') = k') LogOK (run fu c (PActs rest) s1)).
        { intros s1 kk H1 H2 H3. apply (IHmain rest s1 kk k' H1 (eq_sym H3) H2). }
        destruct a; cbn [legal_main] in Hleg.
        + (* AAsync *)
          eapply resP_bind with (P1 := fun s1 => preM s1 /\ length (masks s1) = k).
          * eapply resP_bind with (P1 := postM s).
            -- eapply resP_weaken; [apply (IHm (PAsync _) (emit (NO u) s) I)|].
               ++ prem.
               ++ intros s1 (A & B & C0 & D) _. unfold postM. fin.
            -- intros s1 P1 L1. cbn.
               destruct P1 as (A & B & C0 & D).
               destruct (inmain s1); cbn; (split; [split; [apply (postM_preM s PS); [unfold postM; cbn; fin | logok] | cbn; congruence] | logok]).
          * intros s1 (X & Y) _. apply (Rest s1 k Hleg X Y).
        + (* AAsyncRef *)
          eapply resP_bind with (P1 := fun s1 => preM s1 /\ length (masks s1) = k).
          * eapply resP_bind with (P1 := postM s).
            -- eapply resP_weaken; [apply (IHm PCheckHalt (emit (NO u) s) I)|].
               ++ prem.
               ++ intros s1 (A & B & C0 & D) _. unfold postM. fin.
            -- intros s1 P1 L1. destruct (PMk _ P1 L1) as (X1 & Y1).
               eapply resP_bind with (P1 := postM s).
               ++ eapply resP_weaken; [apply (IHm (PAsync _) s1 I X1)|].
                  destruct P1 as (A & B & C0 & D). intros s2 (A2 & B2 & C2 & D2) _. unfold postM. repeat split; congruence.
               ++ intros s2 P2 L2. cbn. destruct P2 as (A & B & C0 & D). split; [split; [apply (postM_preM s PS); [unfold postM; cbn; fin | logok] | cbn; congruence] | logok].
          * intros s1 (X & Y) _. apply (Rest s1 k Hleg X Y).
        + (* AFunctor *)
          eapply resP_bind with (P1 := fun s1 => preM s1 /\ length (masks s1) = k).
          * eapply resP_bind with (P1 := postM s).
            -- eapply resP_weaken; [apply (IHm (PAsync _) (emit (NO u) s) I)|].
               ++ prem.
               ++ intros s1 (A & B & C0 & D) _. unfold postM. fin.
            -- intros s1 P1 L1. cbn. destruct P1 as (A & B & C0 & D). split; [split; [apply (postM_preM s PS); [unfold postM; cbn; fin | logok] | cbn; congruence] | logok].
          * intros s1 (X & Y) _. apply (Rest s1 k Hleg X Y).
        + (* ABcast *)
          eapply resP_bind with (P1 := fun s1 => preM s1 /\ length (masks s1) = k).
          * eapply resP_bind with (P1 := postM s).
            -- eapply resP_weaken; [apply (IHm (PBcast _) (emit (NO u) s) I)|].
               ++ prem.
               ++ intros s1 (A & B & C0 & D) _. unfold postM. fin.
            -- intros s1 P1 L1. cbn. destruct P1 as (A & B & C0 & D). split; [split; [apply (postM_preM s PS); [unfold postM; cbn; fin | logok] | cbn; congruence] | logok].
          * intros s1 (X & Y) _. apply (Rest s1 k Hleg X Y).
        + (* AMcast *)
          eapply resP_bind with (P1 := fun s1 => preM s1 /\ length (masks s1) = k).
          * eapply resP_bind with (P1 := postM s).
            -- eapply resP_weaken; [apply (IHm (PMcast _ _) (emit (NO u) s) I)|].
               ++ prem.
               ++ intros s1 (A & B & C0 & D) _. unfold postM. fin.
            -- intros s1 P1 L1. cbn. destruct P1 as (A & B & C0 & D). split; [split; [apply (postM_preM s PS); [unfold postM; cbn; fin | logok] | cbn; congruence] | logok].
          * intros s1 (X & Y) _. apply (Rest s1 k Hleg X Y).
        + (* ABar: only with no mask alive *)
          destruct k as [|k0]; [|discriminate].
          assert (Hm0 : masks s = []) by (destruct (masks s); [reflexivity|discriminate]).
          eapply resP_bind with (P1 := fun s1 => preM s1 /\ length (masks s1) = O).
          * set (s0 := emit (NBI (nbar s + 1)) (set_nbar (nbar s + 1) s)).
            assert (P0 : postM s s0) by (unfold postM; subst s0; cbn; fin).
            assert (L0 : LogOK s0) by (subst s0; apply LogOK_emit; [exact I|exact Hl]).
            destruct (PMk _ P0 L0) as (X0 & Y0).
            eapply resP_bind with (P1 := postM s).
            -- eapply resP_weaken; [apply (IHb PBarrier s0 I X0)|]; [subst s0; cbn; exact Hm0|].
               destruct P0 as (A & B & C0 & D). intros s1 (A1 & B1 & C1 & D1) _. unfold postM. repeat split; congruence.
            -- intros s1 P1 L1. cbn.
               destruct P1 as (A & B & C0 & D). split; [split; [apply (postM_preM s PS); [unfold postM; cbn; fin | logok] | cbn; congruence] | logok].
          * intros s1 (X & Y) _. apply (Rest s1 O Hleg X Y).
        + (* ACfb *)
          eapply resP_bind with (P1 := fun s1 => preM s1 /\ length (masks s1) = k).
          * unfold ask. cbn [oracle emit].
            assert (Le : LogOK (emit ECfBarrier s)) by (apply LogOK_emit; [exact I|exact Hl]).
            destruct (oracle s) as [|r rest0]; [cbn; exact Le|]. destruct r; try (cbn; exact Le). cbn. split; [|exact Le].
            split; [apply (postM_preM s PS); [unfold postM; cbn; fin | exact Le] | cbn; congruence].
          * intros s1 (X & Y) _. apply (Rest s1 k Hleg X Y).
        + (* ALp *)
          eapply resP_bind with (P1 := fun s1 => preM s1 /\ length (masks s1) = k).
          * eapply resP_weaken; [apply (IHm PLocalProgress s I)|]; [prem|]. intros s1 P1 L1. apply PMk; assumption.
          * intros s1 (X & Y) _. apply (Rest s1 k Hleg X Y).
        + (* AWu *)
          eapply resP_bind with (P1 := fun s1 => preM s1 /\ length (masks s1) = k).
          * eapply resP_weaken; [apply (IHm (PWaitUntil f) s I)|]; [prem|]. intros s1 P1 L1. apply PMk; assumption.
          * intros s1 (X & Y) _. apply (Rest s1 k Hleg X Y).
        + (* ASf *)
          cbn [bind]. apply (Rest _ k Hleg); [prem | cbn; congruence].
        + (* AMon *)
          cbn [bind]. apply (Rest _ (S k) Hleg).
          * unfold preM, maskinv in *. cbn. destruct Hmi as (M1 & M2). repeat split; try assumption.
            destruct (masks s) as [|b t] eqn:Em; cbn; [exact M1 | split; [exact M1|exact M2]].
          * cbn. congruence.
        + (* AMoff *)
          destruct k as [|k0]; [discriminate|].
          destruct (masks s) as [|b t] eqn:Em; [discriminate|]. cbn [bind].
          apply (Rest _ k0 Hleg).
          * unfold preM, maskinv in *. cbn. rewrite Em in Hmi. destruct Hmi as (M1 & M2). repeat split; try assumption.
            -- destruct t; cbn in M2; [exact M2 | destruct M2 as (M2 & _); exact M2].
            -- destruct t; cbn in M2; [exact I | destruct M2 as (_ & M2); exact M2].
          * cbn. cbn in Hk. lia.
        + (* ACb *)
          cbn [bind]. apply (Rest _ k Hleg); [prem | cbn; congruence].
        + (* AMut *)
          cbn [bind]. apply (Rest _ k Hleg); [prem | cbn; congruence].
        + (* AColl *)
          eapply resP_bind with (P1 := fun s1 => preM s1 /\ length (masks s1) = k).
          * unfold ask. cbn [oracle emit].
            assert (Le : LogOK (emit EColl s)) by (apply LogOK_emit; [exact I|exact Hl]).
            destruct (oracle s) as [|r rest0]; [cbn; exact Le|]. destruct r; try (cbn; exact Le). cbn. split; [|exact Le].
            split; [apply (postM_preM s PS); [unfold postM; cbn; fin | exact Le] | cbn; congruence].
          * intros s1 (X & Y) _. apply (Rest s1 k Hleg X Y). }
    repeat split; assumption.
  Qed.

  (* every reported state of a whole rank's life: no handler started inside another or under a mask *)
  Theorem handlers_never_nest_nor_run_masked fuel nranks main orc :
    legal_main O main = Some O ->
    match run_rank fuel c nranks main orc with
    | Ok s' | Blocked s' | Err _ s' => forall u d m, In (NX u d m) (log s') -> d = O /\ m = O
    | OutOfFuel => True
    end.
  Proof.
    intros Hleg. unfold run_rank.
    destruct (all_specs fuel) as (_ & _ & SB & _ & _ & SMain).
    assert (P0 : preM (init_st nranks orc)).
    { unfold preM, maskinv, LogOK, init_st. cbn. repeat split; constructor. }
    pose proof (SMain main (init_st nranks orc) O O Hleg eq_refl P0) as H1.
    assert (Hfin : resP (fun _ => True) LogOK (run fuel c (PActs main) (init_st nranks orc) >>= (fun s => run fuel c PBarrier s))).
    { eapply resP_bind; [exact H1|]. intros s1 (A & B & C0 & D) L1.
      eapply resP_weaken; [apply (SB PBarrier s1 I)|].
      - prem.
      - destruct (masks s1); [reflexivity|discriminate].
      - intros; exact I. }
    assert (Conv : forall s', LogOK s' -> forall u d m, In (NX u d m) (log s') -> d = O /\ m = O).
    { intros s' L u d m Hin. unfold LogOK in L. rewrite Forall_forall in L. apply (L _ Hin). }
    destruct (run fuel c (PActs main) (init_st nranks orc) >>= (fun s => run fuel c PBarrier s)); cbn in Hfin; try exact I; try (apply Conv; tauto).
  Qed.
End Safe.
