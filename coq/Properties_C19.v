(* Properties_C19.v — C19: multi_output writes every line exactly once to the file named by its subpath. *)
From Coq Require Import ZArith List Bool Lia.
Import ListNotations.
From Ygm Require Import MultiOutput.
Local Open Scope Z_scope.

Theorem C19_file_content_is_lines : forall buflen append previous writes,
  close_file (fold_left (fun f s => buffer_output buflen s f) writes (open_file append previous))
  = (if append then previous else []) ++ concat (map (fun s => s ++ [10]) writes).
Proof. exact file_content_is_lines. Qed.
Print Assumptions C19_file_content_is_lines.

Theorem C19_disk_is_prefix : forall buflen s f, exists rest, disk (buffer_output buflen s f) = disk f ++ rest.
Proof. exact disk_is_prefix. Qed.
Print Assumptions C19_disk_is_prefix.

Theorem C19_daily_same_day_same_file : forall (utc_date : Z -> Z * Z * Z) (show : Z -> list Z) t1 t2,
  utc_date t1 = utc_date t2 -> daily_subpath utc_date show t1 = daily_subpath utc_date show t2.
Proof. exact daily_same_day_same_file. Qed.
Print Assumptions C19_daily_same_day_same_file.
