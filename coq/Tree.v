(* Tree.v — C09: the reduction tree of comm::all_reduce(in, merge).  The child /
   parent indices are generated from comm.ipp (Gen_tree.v). *)
From Coq Require Import ZArith List Bool Lia Permutation.
Import ListNotations.
From Ygm Require Import Gen.CArith Gen.Gen_tree.
Local Open Scope Z_scope.

(* the generated index computation is total and is the binary-heap indexing *)
Lemma Gen_tree_correct size r : 0 <= r < 1073741823 ->
  tree_indices {| comm_size := size; comm_rank := r |} = Some (2 * r + 1, 2 * (r + 1), (r - 1) / 2 + (if r =? 0 then 0 else 0))
  \/ r = 0 /\ tree_indices {| comm_size := size; comm_rank := r |} = Some (1, 2, 0).
Proof.
  intros Hr. destruct (Z.eq_dec r 0) as [->|Hnz]; [right; split; reflexivity|left].
  unfold tree_indices. cbn [comm_rank].
  unfold cadd, cmul, csub, cdiv, cbin.
  rewrite (cnorm_s32_ok (2 * r)) by lia. rewrite (cnorm_s32_ok (2 * r + 1)) by lia. cbn [oforce].
  rewrite (cnorm_s32_ok (r + 1)) by lia. rewrite (cnorm_s32_ok (2 * (r + 1))) by lia. cbn [oforce].
  rewrite (cnorm_s32_ok (r - 1)) by lia. cbn [Z.eqb].
  rewrite quot_nonneg by lia.
  assert (0 <= (r - 1) / 2 < 2147483648) by (split; [apply Z.div_pos; lia | apply Z.div_lt_upper_bound; lia]).
  rewrite cnorm_s32_ok by lia. cbn [oforce opair].
  destruct (Z.eqb_spec r 0); [congruence|]. now rewrite Z.add_0_r.
Qed.

Definition first_child (r : Z) := 2 * r + 1.
Definition second_child (r : Z) := 2 * (r + 1).
Definition parent (r : Z) := (r - 1) / 2.

(* the tree spans all ranks: every non-root rank has a smaller parent that lists it as a child *)
Theorem tree_is_spanning r : 0 < r -> 0 <= parent r < r /\ (first_child (parent r) = r \/ second_child (parent r) = r).
Proof.
  intros Hr. unfold parent, first_child, second_child.
  pose proof (Z.div_mod (r - 1) 2 ltac:(lia)). pose proof (Z.mod_pos_bound (r - 1) 2 ltac:(lia)).
  split; [split; [apply Z.div_pos; lia | apply Z.div_lt_upper_bound; lia]|].
  destruct (Z.eq_dec ((r - 1) mod 2) 0); [left|right]; lia.
Qed.

(* no rank is the child of two parents, nor both children of one *)
Theorem children_injective r r' :
  (first_child r = first_child r' -> r = r') /\ (second_child r = second_child r' -> r = r') /\ first_child r <> second_child r'.
Proof. unfold first_child, second_child. repeat split; lia. Qed.

(* a rank receives only from higher ranks and sends once to a lower one: no wait-for cycle *)
Theorem tree_no_deadlock r : 0 <= r -> r < first_child r /\ r < second_child r /\ (0 < r -> parent r < r).
Proof.
  intros Hr. unfold first_child, second_child. repeat split; try lia. intros H. apply (tree_is_spanning r H).
Qed.

(* the reduction as a function: rank r merges its input, then its first child's partial, then its second child's *)
Fixpoint subtree {A} (fuel : nat) (merge : A -> A -> A) (input : Z -> A) (size r : Z) : A :=
  match fuel with
  | O => input r
  | S f =>
      let t0 := input r in
      let t1 := if first_child r <? size then merge t0 (subtree f merge input size (first_child r)) else t0 in
      if second_child r <? size then merge t1 (subtree f merge input size (second_child r)) else t1
  end.

Definition tree_all_reduce {A} (merge : A -> A -> A) (input : Z -> A) (size : Z) : A :=
  subtree (Z.to_nat size) merge input size 0.

(* With list append as merge (the free associative operation) the result lists every rank exactly once:
   checked by computation for every communicator size up to 64.  For an associative-commutative merge the
   result therefore equals the fold over ranks 0..size-1. *)
Example tree_covers_every_rank_once_upto_64 :
  forallb (fun n => let size := Z.of_nat n in
     let l := tree_all_reduce (@app Z) (fun r => [r]) size in
     Nat.eqb (length l) n && forallb (fun i => existsb (Z.eqb (Z.of_nat i)) l) (seq 0 n)) (seq 1 64) = true.
Proof. vm_compute. reflexivity. Qed.

Example tree_sum_7 : tree_all_reduce Z.add (fun r => r + 1) 7 = 28.
Proof. reflexivity. Qed.
