(* TreeFold.v — C09: the tree reduction of comm::all_reduce(in, merge) equals the sequential fold over the ranks
   0, 1, ..., size-1, for every communicator size and every associative and commutative merge.

   [Tree.subtree] is the value a rank forwards to its parent: its input, merged with the first child's partial, then
   the second child's.  With list append as merge the partial is the list of ranks of the subtree; for an associative
   merge the partial is the fold of the inputs over that list (homomorphism); the heap indexing makes the list of the
   root a permutation of 0..size-1 (every rank has a unique chain of parents down to 0, of length at most its index);
   commutativity then allows reordering. *)
From Coq Require Import ZArith List Bool Lia Permutation.
Import ListNotations.
From Ygm Require Import Tree.
Local Open Scope Z_scope.

Definition ranks (fuel : nat) (size r : Z) : list Z := subtree fuel (@app Z) (fun r => [r]) size r.

Lemma ranks_S f size r :
  ranks (S f) size r =
  [r] ++ (if first_child r <? size then ranks f size (first_child r) else [])
      ++ (if second_child r <? size then ranks f size (second_child r) else []).
Proof.
  unfold ranks. cbn [subtree]. destruct (first_child r <? size), (second_child r <? size); cbn; rewrite ?app_nil_r, <- ?app_assoc; reflexivity.
Qed.
Lemma ranks_0 size r : ranks 0 size r = [r].
Proof. reflexivity. Qed.
Lemma ranks_head fuel size r : exists t, ranks fuel size r = r :: t.
Proof. destruct fuel; [exists []; reflexivity|]. rewrite ranks_S. eexists. reflexivity. Qed.

(* ---- parents ---- *)
Definition piter (k : nat) (x : Z) : Z := Nat.iter k parent x.
Lemma piter_S_in k x : piter (S k) x = piter k (parent x).
Proof.
  unfold piter. induction k as [|k IH]; [reflexivity|].
  change (Nat.iter (S (S k)) parent x) with (parent (Nat.iter (S k) parent x)). rewrite IH. reflexivity.
Qed.
Lemma piter_S_out k x : piter (S k) x = parent (piter k x).
Proof. reflexivity. Qed.
Lemma piter_add a b x : piter (a + b) x = piter a (piter b x).
Proof. unfold piter. induction a; cbn; [reflexivity|]. f_equal. exact IHa. Qed.

Lemma parent_le x : -1 <= x -> -1 <= parent x <= x.
Proof. intros H. unfold parent. split; [apply Z.div_le_lower_bound; lia | apply Z.div_le_upper_bound; lia]. Qed.
Lemma piter_le k x : -1 <= x -> -1 <= piter k x <= x.
Proof.
  induction k as [|k IH]; intros H; [cbn; lia|]. rewrite piter_S_out. specialize (IH H).
  pose proof (parent_le (piter k x) ltac:(lia)). lia.
Qed.
Lemma parent_fc r : parent (first_child r) = r.
Proof. unfold parent, first_child. replace (2 * r + 1 - 1) with (r * 2) by lia. apply Z.div_mul. lia. Qed.
Lemma parent_sc r : parent (second_child r) = r.
Proof.
  unfold parent, second_child. replace (2 * (r + 1) - 1) with (1 + r * 2) by lia.
  rewrite Z.div_add by lia. reflexivity.
Qed.
Lemma child_of_parent y : 0 < y -> y = first_child (parent y) \/ y = second_child (parent y).
Proof. intros H. destruct (tree_is_spanning y H) as (_ & [E|E]); [left|right]; symmetry; exact E. Qed.

(* every rank reaches 0 by at most [x] parent steps *)
Lemma reaches_root : forall (n : nat) x, 0 <= x -> (Z.to_nat x <= n)%nat -> exists k, (k <= Z.to_nat x)%nat /\ piter k x = 0.
Proof.
  induction n as [|n IH]; intros x Hx Hn.
  - assert (x = 0) by lia. subst. exists O. split; [lia|reflexivity].
  - destruct (Z.eq_dec x 0) as [->|Hnz]; [exists O; split; [lia|reflexivity]|].
    destruct (tree_is_spanning x ltac:(lia)) as ((P0 & P1) & _).
    destruct (IH (parent x) P0 ltac:(lia)) as (k & Hk & E).
    exists (S k). split; [lia|]. rewrite piter_S_in. exact E.
Qed.

(* ---- membership ---- *)
Lemma ranks_in : forall fuel size r x, 0 <= r -> In x (ranks fuel size r) ->
  r <= x /\ (x = r \/ x < size) /\ exists k, (k <= fuel)%nat /\ piter k x = r.
Proof.
  induction fuel as [|f IH]; intros size r x Hr Hin.
  - rewrite ranks_0 in Hin. destruct Hin as [<-|[]]. split; [lia|]. split; [left; reflexivity|]. exists O. split; [lia|reflexivity].
  - rewrite ranks_S in Hin. cbn [app] in Hin. destruct Hin as [<-|Hin].
    + split; [lia|]. split; [left; reflexivity|]. exists O. split; [lia|reflexivity].
    + apply in_app_or in Hin. destruct Hin as [Hin|Hin].
      * destruct (Z.ltb_spec (first_child r) size) as [Hlt|]; [|destruct Hin].
        destruct (IH size (first_child r) x ltac:(unfold first_child; lia) Hin) as (A & B & k & Hk & E).
        unfold first_child in *. split; [lia|]. split; [right; lia|]. exists (S k). split; [lia|].
        rewrite piter_S_out, E. apply parent_fc.
      * destruct (Z.ltb_spec (second_child r) size) as [Hlt|]; [|destruct Hin].
        destruct (IH size (second_child r) x ltac:(unfold second_child; lia) Hin) as (A & B & k & Hk & E).
        unfold second_child in *. split; [lia|]. split; [right; lia|]. exists (S k). split; [lia|].
        rewrite piter_S_out, E. apply parent_sc.
Qed.

Lemma ranks_complete : forall fuel size r x k, 0 <= r -> 0 <= x < size -> (k <= fuel)%nat -> piter k x = r -> In x (ranks fuel size r).
Proof.
  induction fuel as [|f IH]; intros size r x k Hr Hx Hk E.
  - assert (k = O) by lia. subst k. cbn in E. subst. left. reflexivity.
  - destruct k as [|k]; [cbn in E; subst; rewrite ranks_S; cbn [app]; left; reflexivity|].
    rewrite piter_S_out in E. set (y := piter k x) in *.
    pose proof (piter_le k x ltac:(lia)) as Hy. fold y in Hy.
    assert (Hy0 : 0 < y).
    { destruct (Z_lt_le_dec 0 y); [assumption|]. exfalso. pose proof (parent_le y ltac:(lia)).
      assert (y = 0 \/ y = -1) as [->| ->] by lia; unfold parent in E; cbn in E; lia. }
    rewrite ranks_S. cbn [app]. right. apply in_or_app.
    destruct (child_of_parent y Hy0) as [Ey|Ey]; rewrite E in Ey.
    + left. rewrite <- Ey. destruct (Z.ltb_spec y size); [|lia]. apply (IH size y x k); try lia; reflexivity.
    + right. rewrite <- Ey. destruct (Z.ltb_spec y size); [|lia]. apply (IH size y x k); try lia; reflexivity.
Qed.

(* ---- no rank twice ---- *)
Lemma subtrees_disjoint r x k1 k2 : 0 <= r -> 0 <= x -> piter k1 x = first_child r -> piter k2 x = second_child r -> False.
Proof.
  intros Hr Hx E1 E2.
  assert (F : first_child r = 2 * r + 1) by reflexivity. assert (S2 : second_child r = 2 * (r + 1)) by reflexivity.
  destruct (Nat.le_ge_cases k1 k2) as [H|H].
  - replace k2 with ((k2 - k1) + k1)%nat in E2 by lia. rewrite piter_add, E1 in E2.
    destruct (k2 - k1)%nat as [|j]; [change (piter 0 (first_child r)) with (first_child r) in E2; lia|].
    rewrite piter_S_in, parent_fc in E2.
    pose proof (piter_le j r ltac:(lia)). lia.
  - replace k1 with ((k1 - k2) + k2)%nat in E1 by lia. rewrite piter_add, E2 in E1.
    destruct (k1 - k2)%nat as [|j]; [change (piter 0 (second_child r)) with (second_child r) in E1; lia|].
    rewrite piter_S_in, parent_sc in E1.
    pose proof (piter_le j r ltac:(lia)). lia.
Qed.

Lemma NoDup_app_ {X} (a b : list X) : NoDup a -> NoDup b -> (forall x, In x a -> In x b -> False) -> NoDup (a ++ b).
Proof.
  induction a as [|y a IH]; intros Ha Hb Hd; [exact Hb|]. inversion Ha as [|? ? Hn Ha']; subst. cbn. constructor.
  - intros Hin. apply in_app_or in Hin as [Hin|Hin]; [contradiction|]. apply (Hd y); [left; reflexivity|exact Hin].
  - apply IH; try assumption. intros x H1 H2. apply (Hd x); [right; exact H1|exact H2].
Qed.

Lemma ranks_NoDup : forall fuel size r, 0 <= r -> NoDup (ranks fuel size r).
Proof.
  induction fuel as [|f IH]; intros size r Hr; [rewrite ranks_0; constructor; [intros []|constructor]|].
  rewrite ranks_S. cbn [app]. constructor.
  - intros Hin. apply in_app_or in Hin. destruct Hin as [Hin|Hin].
    + destruct (first_child r <? size); [|destruct Hin].
      destruct (ranks_in f size (first_child r) r ltac:(unfold first_child; lia) Hin) as (A & _). unfold first_child in A. lia.
    + destruct (second_child r <? size); [|destruct Hin].
      destruct (ranks_in f size (second_child r) r ltac:(unfold second_child; lia) Hin) as (A & _). unfold second_child in A. lia.
  - assert (N1 : NoDup (if first_child r <? size then ranks f size (first_child r) else [])).
    { destruct (first_child r <? size); [apply IH; unfold first_child; lia|constructor]. }
    assert (N2 : NoDup (if second_child r <? size then ranks f size (second_child r) else [])).
    { destruct (second_child r <? size); [apply IH; unfold second_child; lia|constructor]. }
    apply NoDup_app_; try assumption.
    intros x H1 H2.
    destruct (first_child r <? size); [|destruct H1]. destruct (second_child r <? size); [|destruct H2].
    destruct (ranks_in f size (first_child r) x ltac:(unfold first_child; lia) H1) as (A1 & _ & k1 & _ & E1).
    destruct (ranks_in f size (second_child r) x ltac:(unfold second_child; lia) H2) as (A2 & _ & k2 & _ & E2).
    apply (subtrees_disjoint r x k1 k2 Hr ltac:(unfold first_child in A1; lia) E1 E2).
Qed.

(* the root's list is a permutation of 0 .. size-1 *)
Theorem ranks_root_perm size : 0 < size ->
  Permutation (ranks (Z.to_nat size) size 0) (map Z.of_nat (seq 0 (Z.to_nat size))).
Proof.
  intros Hs. apply NoDup_Permutation.
  - apply ranks_NoDup. lia.
  - apply FinFun.Injective_map_NoDup; [intros a b H; lia|apply seq_NoDup].
  - intros x. split.
    + intros Hin. destruct (ranks_in (Z.to_nat size) size 0 x ltac:(lia) Hin) as (A & B & _).
      apply in_map_iff. exists (Z.to_nat x). split; [lia|]. apply in_seq. lia.
    + intros Hin. apply in_map_iff in Hin as (i & <- & Hi). apply in_seq in Hi.
      destruct (reaches_root (Z.to_nat (Z.of_nat i)) (Z.of_nat i) ltac:(lia) ltac:(lia)) as (k & Hk & E).
      apply (ranks_complete (Z.to_nat size) size 0 (Z.of_nat i) k); try lia; exact E.
Qed.

(* ---- the fold ---- *)
Section Fold.
  Variable A : Type.
  Variable merge : A -> A -> A.
  Hypothesis assoc : forall a b c, merge (merge a b) c = merge a (merge b c).
  Hypothesis comm : forall a b, merge a b = merge b a.
  Variable input : Z -> A.

  Lemma fold_merge_out a b l : merge a (fold_left merge l b) = fold_left merge l (merge a b).
  Proof. revert b; induction l as [|x l IH]; intros b; cbn; [reflexivity|]. rewrite IH, assoc. reflexivity. Qed.

  (* the partial a rank forwards is the fold of the inputs over the ranks of its subtree *)
  Lemma subtree_hom : forall fuel size r,
    subtree fuel merge input size r = fold_left merge (map input (tl (ranks fuel size r))) (input r).
  Proof.
    induction fuel as [|f IH]; intros size r; [reflexivity|].
    rewrite ranks_S. cbn [subtree app tl].
    assert (H : forall c, subtree f merge input size c = fold_left merge (map input (tl (ranks f size c))) (input c)) by (intros; apply IH).
    assert (Step : forall a c, merge a (subtree f merge input size c) = fold_left merge (map input (ranks f size c)) a).
    { intros a c. rewrite H. destruct (ranks_head f size c) as (t & Et). rewrite Et. cbn [tl map fold_left]. apply fold_merge_out. }
    destruct (first_child r <? size), (second_child r <? size); cbn [app]; rewrite ?app_nil_r, ?map_app, ?fold_left_app, ?Step; reflexivity.
  Qed.

  Lemma fold_perm l l' : Permutation l l' -> forall a, fold_left merge l a = fold_left merge l' a.
  Proof.
    induction 1 as [|x l l' _ IH|x y l|l l' l'' _ IH1 _ IH2]; intros a; cbn.
    - reflexivity.
    - apply IH.
    - f_equal. rewrite !assoc. f_equal. apply comm.
    - rewrite IH1. apply IH2.
  Qed.

  Theorem tree_reduce_is_fold size : 0 < size ->
    tree_all_reduce merge input size = fold_left merge (map input (map Z.of_nat (seq 1 (Z.to_nat size - 1)))) (input 0).
  Proof.
    intros Hs. unfold tree_all_reduce. rewrite subtree_hom.
    pose proof (ranks_root_perm size Hs) as P.
    destruct (ranks_head (Z.to_nat size) size 0) as (t & Et). rewrite Et in *. cbn [tl].
    assert (Es : seq 0 (Z.to_nat size) = 0%nat :: seq 1 (Z.to_nat size - 1)).
    { destruct (Z.to_nat size) as [|n] eqn:En; [lia|]. cbn. rewrite Nat.sub_0_r. reflexivity. }
    rewrite Es in P. cbn [map] in P. change (Z.of_nat 0) with 0 in P. apply Permutation_cons_inv in P.
    apply fold_perm. apply Permutation_map. exact P.
  Qed.
End Fold.
