(* RankSendBound.v — C03 / C07, the size of a physical send caused by a handler.

   Since the repair D13 comm::async ends with flush_to_capacity() also when it is called by a handler.  Consequence, for
   every handler program made of point-to-point asyncs / multicasts / local_progress (no broadcast) whose messages carry at
   most L payload bytes, every capacity, routing scheme, destination pattern and state of the send buffers:

     if at most X >= capacity bytes are buffered when the handler starts, then every MPI_Isend posted while it runs carries
     at most  X + W  bytes (W = the wire size of one largest message), and at most X bytes are buffered when it ends.

   Before the repair the replies of all handlers of one received buffer accumulated in one send buffer: no such bound
   existed, and the single send could exceed the peer's posted receive. *)
From Coq Require Import ZArith List Bool Lia.
Import ListNotations.
From Ygm Require Import RankMachine RankInv RankNoErr RankBound.
Local Open Scope Z_scope.

Definition is_send_le (c : cfg) (B : Z) (e : event) : Prop :=
  match e with EIsend _ _ ms => wires c ms <= B | _ => True end.
Definition SendsLe (c : cfg) (B : Z) (l : list event) : Prop := Forall (is_send_le c B) l.

Definition lenb (L : Z) (l : Z) : bool := (0 <=? l) && (l <=? L).

(* what a handler may do here: point-to-point sends (all flavours), multicasts, local_progress, local effects *)
Definition hsmall (nr : nat) (L : Z) (a : act) : bool :=
  match a with
  | AAsync d _ l => rngb nr d && lenb L l
  | AAsyncRef d _ => rngb nr d
  | AFunctor d _ l _ => rngb nr d && lenb L l
  | AMcast ds _ l => forallb (rngb nr) ds && lenb L l
  | ALp | ASf _ | ACb _ | AMut => true
  | _ => false
  end.

Lemma twires_ge_nth c l i : Forall (Forall len_ok) l -> wires c (nth i l []) <= twires c l.
Proof.
  intros H. revert i. induction H as [|b t Hb Ht IH]; intros i; [destruct i; cbn; lia|].
  pose proof (wires_nonneg c b Hb). assert (0 <= twires c t).
  { clear - Ht. induction Ht as [|x y Hx _ IHy]; cbn; [lia|]. pose proof (wires_nonneg c x Hx). lia. }
  destruct i; cbn; [lia|]. specialize (IH i). lia.
Qed.

Lemma rngb_rng nr d : rngb nr d = true -> rng nr d.
Proof. unfold rngb, rng. intros H. apply andb_prop in H as (A & B). apply Z.leb_le in A. apply Z.ltb_lt in B. lia. Qed.

Section SB.
  Variable c : cfg.
  Variable nr : nat.
  Variable L : Z.
  Hypothesis HL : 0 <= L.
  Hypothesis Hhop : forall d, rng nr d -> rng nr (next_hop c d).

  Definition W : Z := hdr_bytes c + 26 + L.

  Definition K (s : st) : Prop :=
    sbb s = twires c (bufs s) /\ Forall (Forall len_ok) (bufs s) /\ length (bufs s) = nr.

  Definition msmall (m : msg) : Prop := 0 <= len m <= L.

  Lemma wire_le m : msmall m -> 0 <= wire c m <= W.
  Proof.
    unfold msmall, wire, W, hdr_bytes. intros H. destruct (c_routing c =? 0); destruct (Nat.eqb (hk m) 2); lia.
  Qed.

  Lemma K_emit e s : K s -> K (emit e s).
  Proof. intros H. exact H. Qed.

  Lemma K_enqueue d m s : K s -> rng nr d -> msmall m ->
    let s' := enqueue c d m s in
    K s' /\ sbb s' = sbb s + wire c m /\ log s' = log s /\ inprq s' = inprq s.
  Proof.
    intros (K1 & K2 & K3) (Hd0 & Hd1) Hm.
    assert (Hi : (Z.to_nat d < length (bufs s))%nat) by (rewrite K3; lia).
    assert (Hlen : len_ok m) by (unfold len_ok, msmall in *; lia).
    assert (Hb : Forall len_ok (nth (Z.to_nat d) (bufs s) [])).
    { rewrite Forall_forall in K2. apply K2. apply nth_In. exact Hi. }
    assert (Hnew : Forall len_ok (nth (Z.to_nat d) (bufs s) [] ++ [m])) by (apply Forall_app; split; [exact Hb|constructor; [exact Hlen|constructor]]).
    unfold enqueue, K, buf_at.
    destruct (nth (Z.to_nat d) (bufs s) []) as [|m0 b0] eqn:E; cbn -[upd]; rewrite ?E;
      (split; [split; [|split]|split; [|split]]); try reflexivity;
      try (rewrite twires_upd by exact Hi; rewrite E, wires_app; cbn; lia);
      try (apply Forall_upd; [exact K2|exact Hnew]);
      try (rewrite upd_length; exact K3).
  Qed.

  (* results: the bound on the sends holds however the procedure ends *)
  Definition resH (B : Z) (P : st -> Prop) (r : res) : Prop :=
    match r with
    | Ok s' => P s' /\ SendsLe c B (log s')
    | Blocked s' | Err _ s' => SendsLe c B (log s')
    | OutOfFuel => True
    end.
  Lemma resH_bind B (P1 P2 : st -> Prop) r f :
    resH B P1 r -> (forall s1, P1 s1 -> SendsLe c B (log s1) -> resH B P2 (f s1)) -> resH B P2 (r >>= f).
  Proof. destruct r; cbn; auto. intros (A & S) Hf. exact (Hf s A S). Qed.

  Section Bound.
    Variables X B : Z.
    Hypothesis HX : c_cap c <= X.
    Hypothesis HB : X + W <= B.

    (* handler-context state: the guard is up *)
    Definition H0 (bound : Z) (s : st) : Prop := K s /\ inprq s = true /\ sbb s <= bound.

    Definition spec (fuel : nat) (p : proc) (s : st) : Prop :=
      match p with
      | PFlushBuf d => H0 B s -> SendsLe c B (log s) -> resH B (fun s' => H0 (sbb s) s') (run fuel c p s)
      | PFlushToCap => H0 B s -> SendsLe c B (log s) -> resH B (fun s' => H0 (Z.min (sbb s) X) s' \/ (H0 (sbb s) s' /\ sbb s <= c_cap c)) (run fuel c p s)
      | PLocalProgress => H0 X s -> SendsLe c B (log s) -> resH B (H0 X) (run fuel c p s)
      | PCheckHalt => H0 X s -> SendsLe c B (log s) -> resH B (H0 X) (run fuel c p s)
      | PAsync m => rng nr (mdest m) -> msmall m -> H0 X s -> SendsLe c B (log s) -> resH B (H0 X) (run fuel c p s)
      | PMcast ds m => Forall (rng nr) ds -> msmall m -> H0 X s -> SendsLe c B (log s) -> resH B (H0 X) (run fuel c p s)
      | PActs l => forallb (hsmall nr L) l = true -> H0 X s -> SendsLe c B (log s) -> resH B (H0 X) (run fuel c p s)
      | _ => True
      end.

    Lemma SendsLe_emit e s : is_send_le c B e -> SendsLe c B (log s) -> SendsLe c B (log (emit e s)).
    Proof. intros He Hs. unfold SendsLe. cbn. constructor; assumption. Qed.

    Theorem handler_sends_bounded_all : forall fuel p s, spec fuel p s.
    Proof.
      assert (HW : 0 <= W) by (unfold W, hdr_bytes; destruct (c_routing c =? 0); lia).
      induction fuel as [|fu IH]; [intros p s; destruct p; cbn; intros; exact I|].
      intros p s. destruct p; cbn [spec]; try exact I.
      - (* PActs *)
        intros Hl H Hs. destruct l as [|a rest]; cbn [run]; [split; assumption|].
        cbn [forallb] in Hl. apply andb_prop in Hl as (Ha & Hrest).
        eapply resH_bind with (P1 := H0 X); [|intros s1 H1 S1; exact (IH (PActs rest) s1 Hrest H1 S1)].
        destruct a; cbn [hsmall] in Ha; try discriminate.
        + (* AAsync *) apply andb_prop in Ha as (Hd & Hlen). apply andb_prop in Hlen as (L0 & L1). apply Z.leb_le in L0. apply Z.leb_le in L1.
          eapply resH_bind with (P1 := H0 X).
          * apply (IH (PAsync _) (emit (NO u) s)); [exact (rngb_rng _ _ Hd) | unfold msmall; cbn; lia | exact H | apply SendsLe_emit; [exact I|exact Hs]].
          * intros s1 H1 S1. cbn. destruct (inmain s1); (split; [exact H1 | repeat (apply SendsLe_emit; [exact I|]); exact S1]).
        + (* AAsyncRef *)
          eapply resH_bind with (P1 := H0 X).
          * apply (IH PCheckHalt (emit (NO u) s)); [exact H | apply SendsLe_emit; [exact I|exact Hs]].
          * intros s1 H1 S1. eapply resH_bind with (P1 := H0 X).
            -- apply (IH (PAsync _) s1); [exact (rngb_rng _ _ Ha) | unfold msmall; cbn; lia | exact H1 | exact S1].
            -- intros s2 H2 S2. cbn. split; [exact H2 | apply SendsLe_emit; [exact I|exact S2]].
        + (* AFunctor *) apply andb_prop in Ha as (Hd & Hlen). apply andb_prop in Hlen as (L0 & L1). apply Z.leb_le in L0. apply Z.leb_le in L1.
          eapply resH_bind with (P1 := H0 X).
          * apply (IH (PAsync _) (emit (NO u) s)); [exact (rngb_rng _ _ Hd) | unfold msmall; cbn; lia | exact H | apply SendsLe_emit; [exact I|exact Hs]].
          * intros s1 H1 S1. cbn. split; [exact H1 | apply SendsLe_emit; [exact I|exact S1]].
        + (* AMcast *) apply andb_prop in Ha as (Hd & Hlen). apply andb_prop in Hlen as (L0 & L1). apply Z.leb_le in L0. apply Z.leb_le in L1.
          eapply resH_bind with (P1 := H0 X).
          * apply (IH (PMcast _ _) (emit (NO u) s)); [|unfold msmall; cbn; lia | exact H | apply SendsLe_emit; [exact I|exact Hs]].
            apply Forall_forall. intros d Hin. rewrite forallb_forall in Hd. exact (rngb_rng _ _ (Hd d Hin)).
          * intros s1 H1 S1. cbn. split; [exact H1 | apply SendsLe_emit; [exact I|exact S1]].
        + (* ALp *) exact (IH PLocalProgress s H Hs).
        + (* ASf *) cbn. split; [exact H|exact Hs].
        + (* ACb *) cbn. split; [exact H|exact Hs].
        + (* AMut *) cbn. split; [exact H|exact Hs].
      - (* PAsync *)
        intros Hd Hm H Hs. cbn [run].
        eapply resH_bind with (P1 := H0 X).
        { destruct (hk m =? 1)%nat; [split; assumption|]. exact (IH PCheckHalt s H Hs). }
        intros s1 (K1 & Q1 & B1) S1.
        destruct (K_enqueue (next_hop c (mdest m)) m (set_scnt (scnt s1 + 1) s1) K1 (Hhop _ Hd) Hm) as (K3 & E3 & L3 & Q3).
        cbn [sbb set_scnt log inprq] in E3, L3, Q3. cbv zeta.
        pose proof (wire_le m Hm) as Hw.
        set (s3 := enqueue c (next_hop c (mdest m)) m (set_scnt (scnt s1 + 1) s1)) in *.
        assert (F : resH B (fun s' => H0 (Z.min (sbb s3) X) s' \/ (H0 (sbb s3) s' /\ sbb s3 <= c_cap c)) (run fu c PFlushToCap s3)).
        { apply (IH PFlushToCap s3); [split; [exact K3|split; [congruence|lia]] | rewrite L3; exact S1]. }
        destruct (run fu c PFlushToCap s3) as [s4|s4|e s4|]; cbn [resH] in *; try exact F; try exact I.
        destruct F as ([(K4 & Q4 & B4)|((K4 & Q4 & B4) & Hc)] & S4); (split; [split; [exact K4|split; [exact Q4|lia]]|exact S4]).
      - (* PMcast *)
        intros Hds Hm H Hs. destruct ds as [|d ds]; cbn [run]; [split; assumption|].
        inversion Hds as [|? ? Hd Hrest]; subst.
        eapply resH_bind with (P1 := H0 X).
        + apply (IH (PAsync _) s); [cbn; exact Hd | exact Hm | exact H | exact Hs].
        + intros s1 H1 S1. exact (IH (PMcast ds m) s1 Hrest Hm H1 S1).
      - (* PCheckHalt *)
        intros (K0 & Q & B0) Hs. cbn [run]. rewrite Q. rewrite andb_false_r. cbn. split; [split; [exact K0|split; assumption]|exact Hs].
      - (* PFlushToCap *)
        intros (K0 & Q & B0) Hs. cbn [run]. destruct (Z.ltb_spec (c_cap c) (sbb s)) as [Hgt|Hle].
        + destruct (dq s) as [|d t]; [exact Hs|].
          eapply resH_bind with (P1 := fun s' => H0 (sbb s) s').
          * apply (IH (PFlushBuf d) (set_dq t s)); [split; [exact K0|split; [exact Q|exact B0]]|exact Hs].
          * intros s1 (K1 & Q1 & B1) S1. cbn [sbb set_dq] in B1.
            assert (F : resH B (fun s' => H0 (Z.min (sbb s1) X) s' \/ (H0 (sbb s1) s' /\ sbb s1 <= c_cap c)) (run fu c PFlushToCap s1)).
            { apply (IH PFlushToCap s1); [split; [exact K1|split; [exact Q1|lia]]|exact S1]. }
            destruct (run fu c PFlushToCap s1) as [s4|s4|e s4|]; cbn [resH] in *; try exact F; try exact I.
            destruct F as ([(K4 & Q4 & B4)|((K4 & Q4 & B4) & Hc)] & S4); (split; [left; split; [exact K4|split; [exact Q4|lia]]|exact S4]).
        + cbn. split; [right; split; [split; [exact K0|split; [exact Q|lia]]|exact Hle]|exact Hs].
      - (* PFlushBuf *)
        intros (K0 & Q & B0) Hs. cbn [run]. destruct (buf_at s d) as [|m0 ms0] eqn:Eb; [split; [split; [exact K0|split; [exact Q|lia]]|exact Hs]|].
        cbv zeta. destruct K0 as (K1 & K2 & K3).
        assert (Hi : (Z.to_nat d < length (bufs s))%nat) by (apply nth_nonempty_lt; unfold buf_at in Eb; rewrite Eb; discriminate).
        pose proof (twires_ge_nth c (bufs s) (Z.to_nat d) K2) as Hge. unfold buf_at in Eb. rewrite Eb in Hge.
        assert (Hsz : wires c (m0 :: ms0) <= B) by lia.
        assert (Hnn : 0 <= wires c (m0 :: ms0)).
        { apply wires_nonneg. rewrite Forall_forall in K2. rewrite <- Eb. apply K2. apply nth_In. exact Hi. }
        assert (Kn : forall bs sb, bs = bufs s -> sb = sbb s ->
                  sb - wires c (m0 :: ms0) = twires c (upd bs (Z.to_nat d) []) /\ Forall (Forall len_ok) (upd bs (Z.to_nat d) []) /\ length (upd bs (Z.to_nat d) []) = nr).
        { intros bs sb -> ->. split; [|split].
          - rewrite twires_upd by exact Hi. rewrite Eb. cbn [wires]. lia.
          - apply Forall_upd; [exact K2|constructor].
          - rewrite upd_length. exact K3. }
        destruct (Kn _ _ eq_refl eq_refl) as (A1 & A2 & A3).
        destruct (0 <? c_freq c); cbn -[upd wires]; rewrite Q; cbn -[upd wires]; unfold H0, K; cbn -[upd wires];
          (split; [split; [split; [exact A1|split; [exact A2|exact A3]]|split; [exact Q|lia]] | constructor; [exact Hsz|exact Hs]]).
      - (* PLocalProgress *)
        intros (K0 & Q & B0) Hs. cbn [run]. rewrite Q. cbn [bind].
        destruct (dq s) as [|d t]; [split; [split; [exact K0|split; assumption]|exact Hs]|].
        assert (F : resH B (fun s' => H0 (sbb s) s') (run fu c (PFlushBuf d) (set_dq t s))).
        { apply (IH (PFlushBuf d) (set_dq t s)); [split; [exact K0|split; [exact Q|cbn; lia]]|exact Hs]. }
        destruct (run fu c (PFlushBuf d) (set_dq t s)) as [s4|s4|e s4|]; cbn [resH] in *; try exact F; try exact I.
        destruct F as ((K4 & Q4 & B4) & S4). cbn [sbb set_dq] in B4. split; [split; [exact K4|split; [exact Q4|lia]]|exact S4].
    Qed.
  End Bound.

  (* the statement for one handler: the program [l] of a handler, run with the guard up *)
  Theorem handler_sends_bounded fuel l s X :
    c_cap c <= X -> forallb (hsmall nr L) l = true ->
    K s -> inprq s = true -> sbb s <= X -> SendsLe c (X + W) (log s) ->
    match run fuel c (PActs l) s with
    | Ok s' => sbb s' <= X /\ SendsLe c (X + W) (log s')
    | Blocked s' | Err _ s' => SendsLe c (X + W) (log s')
    | OutOfFuel => True
    end.
  Proof.
    intros HX Hl Hk Hq Hb Hs.
    pose proof (handler_sends_bounded_all X (X + W) HX (Z.le_refl _) fuel (PActs l) s Hl (conj Hk (conj Hq Hb)) Hs) as R.
    destruct (run fuel c (PActs l) s); cbn [resH] in R; try exact R; try exact I.
    destruct R as ((_ & _ & B1) & S1). split; assumption.
  Qed.
End SB.
