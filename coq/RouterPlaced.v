(* RouterPlaced.v — C04 on any uniform placement of the ranks on the nodes (block, round-robin, "snake", a communicator
   renumbered with MPI_Comm_split, ...).  comm_router::next_hop works from the layout tables only, so on the layout of a
   placement [rk / nd / lc] (Bcast.placement_ok) the generated code computes [next_hop_placed]; that function is the
   block-placement specification of Router.v transported along the renumbering  a * p + l  |->  rk a l, and so are the
   routes: every statement about hop counts and hop kinds (on-node / off-node, same on-node index, one rank pair per ordered
   node pair) carries over. *)
From Coq Require Import ZArith List Bool Lia.
Import ListNotations.
From Ygm Require Import Gen.CArith Gen.Gen_layout Gen.Gen_router Layout Router Bcast BcastCover.
Local Open Scope Z_scope.

Section Placed.
  Variables n p : Z.
  Variable rk : Z -> Z -> Z.
  Variables nd lc : Z -> Z.
  Hypothesis Hwf : wf_np n p.
  Hypothesis Hpl : placement_ok n p rk nd lc.

  Definition next_hop_placed (sch me dest : Z) : Z :=
    if sch =? RT_NONE then dest
    else if nd me =? nd dest then dest
    else if sch =? RT_NR then rk (nd dest) (lc me)
    else let ch := (nd dest + nd me) mod p in
         let lcr := rk (nd me) ch in
         if me =? lcr then rk (nd dest) (lc me) else lcr.

  Let PL := placed_layout n p rk nd lc.

  Lemma q_check_world me r : 0 <= r <= n * p -> layout__check_world_rank1 (PL me) (Some r) = Some tt.
  Proof.
    intros Hr. unfold layout__check_world_rank1, layout__check_rank3; cbn.
    destruct (Z.ltb_spec r 0); [lia|]. cbn.
    unfold Z.gtb. destruct (Z.compare_spec r (n * p)); try reflexivity; lia.
  Qed.

  Lemma q_node_id1 me r : 0 <= r < n * p -> layout_node_id1 (PL me) (Some r) = Some (nd r).
  Proof.
    destruct Hwf as (Hn & Hp & Hb). intros Hr.
    unfold layout_node_id1. rewrite q_check_world by lia. cbn [obind ccast].
    rewrite cwrap_u64_ok by lia. unfold PL. cbn [m_rank_to_node placed_layout].
    rewrite cvget_map_seq by lia. rewrite Z2Nat.id by lia. reflexivity.
  Qed.

  Lemma q_is_local1 me r : 0 <= r < n * p -> layout_is_local1 (PL me) (Some r) = Some (nd me =? nd r).
  Proof.
    intros Hr. unfold layout_is_local1. rewrite q_check_world by lia. cbn [obind].
    rewrite q_node_id1 by assumption. reflexivity.
  Qed.

  Lemma q_strided_get me a : 0 <= a < n -> cvget (m_strided_ranks (PL me)) (Some a) = Some (rk a (lc me)).
  Proof.
    intros Ha. unfold PL. cbn [m_strided_ranks placed_layout].
    rewrite cvget_map_seq by lia. rewrite Z2Nat.id by lia. reflexivity.
  Qed.

  Lemma q_local_get me l : 0 <= l < p -> cvget (m_local_ranks (PL me)) (Some l) = Some (rk (nd me) l).
  Proof.
    intros Hl. unfold PL. cbn [m_local_ranks placed_layout].
    rewrite cvget_map_seq by lia. rewrite Z2Nat.id by lia. reflexivity.
  Qed.

  (* the generated next_hop on the tables of any placement *)
  Theorem Gen_router_placed me dest sch :
    0 <= me < n * p -> 0 <= dest < n * p ->
    sch = RT_NONE \/ sch = RT_NR \/ sch = RT_NLNR ->
    router_next_hop {| m_layout := PL me |} (Some dest) (Some sch) = Some (next_hop_placed sch me dest).
  Proof.
    intros Hme Hd Hs. pose proof Hwf as (Hn & Hp & Hb). destruct Hpl as (Hfwd & Hbwd).
    destruct (Hbwd me Hme) as (Hnm & Hlm & _). destruct (Hbwd dest Hd) as (Hnd & _ & _).
    assert (Hnn : n <= n * p) by nia. assert (Hpp : p <= n * p) by nia.
    unfold router_next_hop, next_hop_placed, RT_NONE, RT_NR, RT_NLNR in *.
    cbn [Gen_router.m_layout].
    destruct Hs as [ -> | [ -> | -> ] ]; cbn [ceq ccmp Z.eqb Pos.eqb oforce].
    - reflexivity.
    - rewrite (q_is_local1 me dest Hd).
      destruct (Z.eqb_spec (nd me) (nd dest)) as [E|E]; [reflexivity|].
      rewrite (q_node_id1 me dest Hd). cbn [ccast].
      rewrite cwrap_u64_ok by lia.
      rewrite (q_strided_get me (nd dest)) by lia. reflexivity.
    - rewrite (q_is_local1 me dest Hd).
      destruct (Z.eqb_spec (nd me) (nd dest)) as [E|E]; [reflexivity|].
      rewrite (q_node_id1 me dest Hd). cbn [oforce].
      unfold layout_node_id0, layout_local_size0, layout_rank0.
      change (m_node_id (PL me)) with (nd me). change (m_local_size (PL me)) with p. change (m_comm_rank (PL me)) with me.
      unfold cadd, crem, cbin.
      rewrite cnorm_s32_ok by lia.
      destruct (Z.eqb_spec p 0) as [?|_]; [lia|].
      rewrite rem_nonneg by lia.
      pose proof (Z.mod_pos_bound (nd dest + nd me) p Hp) as Hch.
      rewrite cnorm_s32_ok by lia. cbn [oforce ccast].
      rewrite cwrap_u64_ok by lia.
      rewrite (q_local_get me _ Hch). cbn [oforce ceq ccmp].
      destruct (Z.eqb_spec me (rk (nd me) ((nd dest + nd me) mod p))) as [E2|E2].
      + rewrite cwrap_u64_ok by lia.
        rewrite (q_strided_get me (nd dest)) by lia. reflexivity.
      + reflexivity.
  Qed.

  (* ---- transport along the renumbering ---- *)
  Notation T := (to_pl p rk).

  Lemma Hp_ : 0 < p. Proof. destruct Hwf as (_ & Hp & _). exact Hp. Qed.
  Lemma Hn_ : 0 < n. Proof. destruct Hwf as (Hn & _). exact Hn. Qed.

  Lemma next_hop_spec_range sch me dest :
    0 <= me < n * p -> 0 <= dest < n * p -> 0 <= next_hop_spec sch n p me dest < n * p.
  Proof.
    intros Hme Hd. pose proof Hp_ as Hp.
    pose proof (node_lt n p me Hp Hme). pose proof (node_lt n p dest Hp Hd). pose proof (loc_lt p me Hp).
    pose proof (Z.mod_pos_bound (znode p dest + znode p me) p Hp).
    unfold next_hop_spec. destruct (sch =? RT_NONE); [exact Hd|].
    destruct (znode p me =? znode p dest); [exact Hd|].
    destruct (sch =? RT_NR); [apply nl_lt; assumption|]. cbv zeta.
    destruct (me =? _); apply nl_lt; assumption.
  Qed.

  Lemma next_hop_transport sch me dest :
    0 <= me < n * p -> 0 <= dest < n * p ->
    next_hop_placed sch (T me) (T dest) = T (next_hop_spec sch n p me dest).
  Proof.
    intros Hme Hd. pose proof Hp_ as Hp.
    destruct (to_pl_facts n p rk nd lc Hp Hpl me Hme) as (_ & Nm & Lm).
    destruct (to_pl_facts n p rk nd lc Hp Hpl dest Hd) as (_ & Ndd & _).
    pose proof (node_lt n p me Hp Hme) as Hnm. pose proof (loc_lt p me Hp) as Hlm.
    pose proof (Z.mod_pos_bound (znode p dest + znode p me) p Hp) as Hch.
    unfold next_hop_placed, next_hop_spec. rewrite Nm, Ndd, Lm.
    destruct (sch =? RT_NONE); [reflexivity|].
    destruct (znode p me =? znode p dest); [reflexivity|].
    destruct (sch =? RT_NR); [rewrite (to_pl_nl p rk Hp) by assumption; reflexivity|]. cbv zeta.
    rewrite <- (to_pl_nl p rk Hp (znode p me) _ Hch).
    rewrite (to_pl_eqb n p rk nd lc Hp Hpl me _ Hme) by (apply nl_lt; assumption).
    destruct (me =? _); [rewrite (to_pl_nl p rk Hp) by assumption; reflexivity | reflexivity].
  Qed.

  Fixpoint route_placed_aux (fuel : nat) (sch cur dst : Z) : option (list Z) :=
    match fuel with
    | O => None
    | S f =>
        let h := next_hop_placed sch cur dst in
        if h =? dst then Some [h]
        else match route_placed_aux f sch h dst with
             | Some r => Some (h :: r)
             | None => None
             end
    end.
  Definition route_placed (sch src dst : Z) : option (list Z) := route_placed_aux 4 sch src dst.

  Lemma route_transport_aux fuel sch : forall cur dst,
    0 <= cur < n * p -> 0 <= dst < n * p ->
    route_placed_aux fuel sch (T cur) (T dst) = option_map (map T) (route_aux fuel sch n p cur dst).
  Proof.
    pose proof Hp_ as Hp.
    induction fuel as [|f IH]; intros cur dst Hc Hd; [reflexivity|].
    cbn [route_placed_aux route_aux]. cbv zeta.
    rewrite (next_hop_transport sch cur dst Hc Hd).
    pose proof (next_hop_spec_range sch cur dst Hc Hd) as Hh.
    rewrite (to_pl_eqb n p rk nd lc Hp Hpl _ dst Hh Hd).
    destruct (_ =? dst); [reflexivity|].
    rewrite (IH _ dst Hh Hd). destruct (route_aux f sch n p _ dst); reflexivity.
  Qed.

  Theorem route_transport sch src dst :
    0 <= src < n * p -> 0 <= dst < n * p ->
    route_placed sch (T src) (T dst) = option_map (map T) (route sch n p src dst).
  Proof. apply route_transport_aux. Qed.

  Lemma legs_transport src r : legs (T src) (map T r) = map (fun xy => (T (fst xy), T (snd xy))) (legs src r).
  Proof. revert src. induction r as [|h t IH]; intros src; cbn; [reflexivity|]. rewrite IH. reflexivity. Qed.

  Lemma last_map_T r d : last (map T r) (T d) = T (last r d).
  Proof. induction r as [|h t IH]; [reflexivity|]. cbn [map]. destruct t; [reflexivity|]. exact IH. Qed.

  Lemma legs_range r : forall s x y, 0 <= s < n * p -> (forall z, In z r -> 0 <= z < n * p) ->
    In (x, y) (legs s r) -> 0 <= x < n * p /\ 0 <= y < n * p.
  Proof.
    induction r as [|h t IH]; intros s x y Hs Hr Hin; [destruct Hin|].
    cbn [legs In] in Hin. destruct Hin as [E|Hin].
    - injection E as <- <-. split; [exact Hs | apply Hr; left; reflexivity].
    - apply (IH h x y (Hr h (or_introl eq_refl)) (fun z Hz => Hr z (or_intror Hz)) Hin).
  Qed.

  Definition on_node_pl (x y : Z) : Prop := nd x = nd y.

  (* Every message reaches its destination, in at most three hops, through ranks of the communicator: all schemes *)
  Theorem route_placed_reaches sch src dst :
    sch = RT_NONE \/ sch = RT_NR \/ sch = RT_NLNR ->
    0 <= src < n * p -> 0 <= dst < n * p ->
    exists r, route_placed sch src dst = Some r /\ last r src = dst /\ (length r <= 3)%nat /\
              (forall x, In x r -> 0 <= x < n * p).
  Proof.
    intros Hs Hsrc Hdst. pose proof Hp_ as Hp. pose proof Hn_ as Hn.
    destruct (to_of n p rk nd lc Hp Hpl src Hsrc) as (Es & Rs). destruct (to_of n p rk nd lc Hp Hpl dst Hdst) as (Ed & Rd).
    rewrite <- Es, <- Ed. rewrite (route_transport sch _ _ Rs Rd).
    set (s0 := of_pl p nd lc src) in *. set (d0 := of_pl p nd lc dst) in *.
    assert (B : exists r, route sch n p s0 d0 = Some r /\ last r s0 = d0 /\ (length r <= 3)%nat /\ (forall x, In x r -> 0 <= x < n * p)).
    { destruct Hs as [-> | [-> | ->]].
      - rewrite (route_shape_none n p s0 d0 Hn Hp Rs Rd). exists [d0]. cbn. repeat split; try lia; try (intros x [<-|[]]; lia).
      - destruct (route_shape_nr n p s0 d0 Hn Hp Rs Rd) as (r & Hr & Hl & [(-> & _) | (h & -> & _ & _ & _ & _ & _ & Hh)]).
        + exists [d0]. cbn. repeat split; try assumption; try lia; try (intros x [<-|[]]; lia).
        + exists [h; d0]. cbn. repeat split; try assumption; try lia; try (intros x [<-|[<-|[]]]; lia).
      - destruct (route_shape_nlnr n p s0 d0 Hn Hp Rs Rd) as (r & Hr & Hl & _ & Hlen & Hin & _).
        exists r. exact (conj Hr (conj Hl (conj Hlen Hin))). }
    destruct B as (r & Hr & Hl & Hlen & Hin). rewrite Hr. cbn [option_map].
    exists (map T r). split; [reflexivity|]. split; [rewrite last_map_T, Hl; reflexivity|].
    split; [rewrite map_length; exact Hlen|].
    intros x Hx. apply in_map_iff in Hx as (y & <- & Hy). apply (to_pl_facts n p rk nd lc Hp Hpl y (Hin y Hy)).
  Qed.

  (* NLNR: the off-node hop between node a and node b is always made by the same pair of ranks *)
  Theorem nlnr_placed_single_pair src dst r x y :
    0 <= src < n * p -> 0 <= dst < n * p ->
    route_placed RT_NLNR src dst = Some r -> In (x, y) (legs src r) -> ~ on_node_pl x y ->
    let a := nd src in let b := nd dst in
    x = rk a ((a + b) mod p) /\ y = rk b ((a + b) mod p).
  Proof.
    intros Hsrc Hdst Hr Hin Hoff. pose proof Hp_ as Hp. pose proof Hn_ as Hn.
    destruct (to_of n p rk nd lc Hp Hpl src Hsrc) as (Es & Rs). destruct (to_of n p rk nd lc Hp Hpl dst Hdst) as (Ed & Rd).
    set (s0 := of_pl p nd lc src) in *. set (d0 := of_pl p nd lc dst) in *.
    rewrite <- Es, <- Ed in Hr. rewrite (route_transport RT_NLNR _ _ Rs Rd) in Hr.
    destruct (route_shape_nlnr n p s0 d0 Hn Hp Rs Rd) as (r0 & Hr0 & _ & _ & _ & Hrange & _).
    rewrite Hr0 in Hr. cbn [option_map] in Hr. injection Hr as <-.
    rewrite <- Es in Hin. rewrite legs_transport in Hin. apply in_map_iff in Hin as ((x0, y0) & E & Hin0). cbn [fst snd] in E.
    injection E as <- <-.
    destruct (legs_range r0 s0 x0 y0 Rs Hrange Hin0) as (Rx & Ry).
    destruct (to_pl_facts n p rk nd lc Hp Hpl x0 Rx) as (_ & Nx & _). destruct (to_pl_facts n p rk nd lc Hp Hpl y0 Ry) as (_ & Ny & _).
    assert (Hoff0 : off_node p x0 y0) by (unfold off_node, on_node_pl in *; rewrite Nx, Ny in Hoff; exact Hoff).
    destruct (nlnr_single_pair n p s0 d0 r0 x0 y0 Hn Hp Rs Rd Hr0 Hin0 Hoff0) as (Ex & Ey). cbv zeta in Ex, Ey.
    destruct (to_pl_facts n p rk nd lc Hp Hpl s0 Rs) as (_ & Ns & _). destruct (to_pl_facts n p rk nd lc Hp Hpl d0 Rd) as (_ & Ndd & _).
    cbv zeta. rewrite <- Es, <- Ed, Ns, Ndd. fold s0 d0.
    pose proof (Z.mod_pos_bound (znode p s0 + znode p d0) p Hp) as Hch.
    rewrite Ex, Ey. rewrite !(to_pl_nl p rk Hp) by assumption. split; reflexivity.
  Qed.
End Placed.
