(* Properties_C08.v — C08: handlers are atomic; nothing runs under an interrupt mask. *)
From Coq Require Import ZArith List Bool Lia.
Import ListNotations.
From Ygm Require Import RankMachine RankInv RankSafe.

(* re-entering process_receive_queue while a received buffer is being handled is impossible: it is an
   immediate assertion failure before any MPI call (so a handler's async / local_progress cannot poll) *)
Theorem C08_prq_guarded : forall c fuel s, inprq s = true -> (0 < fuel)%nat -> run fuel c PPrq s = Err 2 s.
Proof. exact prq_guarded. Qed.
Print Assumptions C08_prq_guarded.

(* while an interrupt mask is alive process_receive_queue performs no MPI call and executes nothing *)
Theorem C08_prq_masked : forall c fuel s,
  inprq s = false -> intr s = false -> (0 < fuel)%nat ->
  exists s', run fuel c PPrq s = Ok s' /\ log s' = log s /\ oracle s' = oracle s /\ inprq s' = false /\ ret s' = false /\
             rcnt s' = rcnt s /\ depth s' = depth s.
Proof. exact prq_masked. Qed.
Print Assumptions C08_prq_masked.

(* the back-pressure wait of async is skipped while masked or inside a handler *)
Theorem C08_check_halt_deferred : forall c fuel s,
  (intr s = false \/ inprq s = true) -> (0 < fuel)%nat -> run fuel c PCheckHalt s = Ok s.
Proof. exact check_halt_deferred. Qed.
Print Assumptions C08_check_halt_deferred.


(* THE MAIN THEOREM.  For every configuration whose handler and callback programs only use what a handler
   may use (asyncs of every kind, broadcasts, local_progress, flags, callback registration: [legal_h]), every
   main program with well-bracketed interrupt masks and no barrier under a mask ([legal_main]), every
   sequence of MPI responses (= every schedule, every arrival order, every peer behaviour) and every length of
   execution — finished, blocked in an MPI call, or stopped by a failed assertion:
   every handler starts at nesting depth 0 (no handler is active, so handlers never interleave or nest) and
   with no interrupt mask alive.  The depth / mask numbers in the model's NX events are the same numbers the
   hooks of the real library print (X notes), compared event by event by the lock-step replay. *)
Theorem C08_handlers_never_nest_nor_run_masked :
  forall c,
    (forall u, forallb legal_h (c_hprog c u) = true) ->
    (forall i, forallb legal_h (c_cbprog c i) = true) ->
  forall fuel nranks main orc,
    legal_main O main = Some O ->
    match run_rank fuel c nranks main orc with
    | Ok s' | Blocked s' | Err _ s' => forall u d m, In (NX u d m) (log s') -> d = O /\ m = O
    | OutOfFuel => True
    end.
Proof. exact handlers_never_nest_nor_run_masked. Qed.
Print Assumptions C08_handlers_never_nest_nor_run_masked.

(* the hypotheses are satisfiable by a run in which a handler really executes (and sends, and registers a callback) *)
Local Open Scope Z_scope.
Definition c0 : cfg := {| c_n := 2; c_p := 1; c_me := 0; c_routing := 0; c_cap := 16; c_nisw := 4; c_freq := 0;
  c_hprog := fun u => if u =? 5 then [AAsync 1 6 4; ACb 1] else []; c_cbprog := fun _ => [AAsync 1 9 0] |}.
Definition m5 := {| uid := 5; mdest := 0; stage := 0; hk := 0; len := 3; extra := 0 |}.
Definition main0 := [AAsync 1 7 40; AMon; AAsync 1 8 40; AMoff; ALp].
Definition orc0 := [RTestSend true; RTestRecv (Some [m5]); RTestRecv None; RTestSend true; RTestRecv None].
Example C08_main_theorem_not_vacuous :
  (forall u, forallb legal_h (c_hprog c0 u) = true) /\ (forall i, forallb legal_h (c_cbprog c0 i) = true) /\
  legal_main O main0 = Some O /\
  exists s, run_rank 1000 c0 2 main0 orc0 = Blocked s /\ In (NX 5 0 0) (log s) /\ In (NO 6) (log s).
Proof.
  split; [intros u; cbn; destruct (u =? 5); reflexivity|].
  split; [intros i; reflexivity|]. split; [reflexivity|].
  eexists. split; [vm_compute; reflexivity|]. split; cbn; tauto.
Qed.
