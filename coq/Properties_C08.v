(* Properties_C08.v — C08: handlers are atomic; nothing runs under an interrupt mask. *)
From Coq Require Import ZArith List Bool Lia.
Import ListNotations.
From Ygm Require Import RankMachine RankInv.

(* re-entering process_receive_queue while a received buffer is being handled is impossible: it is an
   immediate assertion failure before any MPI call (so a handler's async / local_progress cannot poll) *)
Theorem C08_prq_guarded : forall c fuel s, inprq s = true -> (0 < fuel)%nat -> run fuel c PPrq s = Err 2 s.
Proof. exact prq_guarded. Qed.
Print Assumptions C08_prq_guarded.

(* while an interrupt mask is alive process_receive_queue performs no MPI call and executes nothing *)
Theorem C08_prq_masked : forall c fuel s,
  inprq s = false -> intr s = false -> (0 < fuel)%nat ->
  exists s', run fuel c PPrq s = Ok s' /\ log s' = log s /\ oracle s' = oracle s /\ inprq s' = false /\ ret s' = false /\
             rcnt s' = rcnt s /\ depth s' = depth s.
Proof. exact prq_masked. Qed.
Print Assumptions C08_prq_masked.

(* the back-pressure wait of async is skipped while masked or inside a handler *)
Theorem C08_check_halt_deferred : forall c fuel s,
  (intr s = false \/ inprq s = true) -> (0 < fuel)%nat -> run fuel c PCheckHalt s = Ok s.
Proof. exact check_halt_deferred. Qed.
Print Assumptions C08_check_halt_deferred.
