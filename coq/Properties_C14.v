(* Properties_C14.v — C14 (arithmetic part): bag::rebalance evens items out along
   the block partition; the target-rank loop is generated from bag.ipp. *)
From Coq Require Import ZArith List Bool Lia.
Import ListNotations.
From Ygm Require Import Gen.CArith Gen.Gen_rebalance Partition Rebalance.
Local Open Scope Z_scope.

(* The loop of bag::rebalance on a rank holding positions [prefix, prefix+cnt) of T items emits,
   for each position not owned by the rank itself, the block-partition owner of that position;
   it is total for every T >= 0 (including T < R and T = 0: no division by zero). *)
Theorem C14_rebalance_targets : forall T R me prefix cnt,
  wf_bag T R me -> 0 <= prefix -> 0 <= cnt -> prefix + cnt <= T ->
  bag_rebalance_targets {| bag_m_comm := {| comm_size := R; comm_rank := me |} |} (Some T) (Some prefix) (Some cnt)
  = Some (targets_spec T R me prefix cnt).
Proof. exact Gen_rebalance_correct. Qed.
Print Assumptions C14_rebalance_targets.

(* Hence: whatever the initial placement [cnts] (per-rank counts summing to T, empty ranks and
   T < R included), after the rebalance rank q holds exactly the block size of q. *)
Theorem C14_rebalance_balanced : forall T R cnts q,
  0 < R -> Forall (fun c => 0 <= c) cnts -> fold_right Z.add 0 cnts = T -> 0 <= q < R ->
  Z.of_nat (length (filter (fun i => blk_owner T R i =? q) (concat (ranges 0 cnts)))) = blk_size T R q.
Proof. exact rebalance_balanced. Qed.
Print Assumptions C14_rebalance_balanced.

Theorem C14_counts_differ_by_at_most_one : forall len R r r',
  blk_size len R r - blk_size len R r' <= 1 /\ blk_size len R r' - blk_size len R r <= 1.
Proof. exact blk_balanced. Qed.
Print Assumptions C14_counts_differ_by_at_most_one.
