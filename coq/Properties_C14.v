(* Properties_C14.v — C14 (arithmetic part): bag::rebalance evens items out along
   the block partition; the target-rank loop is generated from bag.ipp. *)
From Coq Require Import ZArith List Bool Lia.
Import ListNotations.
From Coq Require Import NArith Permutation.
From Ygm Require Import Gen.CArith Gen.Gen_rebalance Partition Rebalance Bag.
Local Open Scope Z_scope.

(* The loop of bag::rebalance on a rank holding positions [prefix, prefix+cnt) of T items emits,
   for each position not owned by the rank itself, the block-partition owner of that position;
   it is total for every T >= 0 (including T < R and T = 0: no division by zero). *)
Theorem C14_rebalance_targets : forall T R me prefix cnt,
  wf_bag T R me -> 0 <= prefix -> 0 <= cnt -> prefix + cnt <= T ->
  bag_rebalance_targets {| bag_m_comm := {| comm_size := R; comm_rank := me |} |} (Some T) (Some prefix) (Some cnt)
  = Some (targets_spec T R me prefix cnt).
Proof. exact Gen_rebalance_correct. Qed.
Print Assumptions C14_rebalance_targets.

(* Hence: whatever the initial placement [cnts] (per-rank counts summing to T, empty ranks and
   T < R included), after the rebalance rank q holds exactly the block size of q. *)
Theorem C14_rebalance_balanced : forall T R cnts q,
  0 < R -> Forall (fun c => 0 <= c) cnts -> fold_right Z.add 0 cnts = T -> 0 <= q < R ->
  Z.of_nat (length (filter (fun i => blk_owner T R i =? q) (concat (ranges 0 cnts)))) = blk_size T R q.
Proof. exact rebalance_balanced. Qed.
Print Assumptions C14_rebalance_balanced.

Theorem C14_counts_differ_by_at_most_one : forall len R r r',
  blk_size len R r - blk_size len R r' <= 1 /\ blk_size len R r' - blk_size len R r <= 1.
Proof. exact blk_balanced. Qed.
Print Assumptions C14_counts_differ_by_at_most_one.


(* ---- conservation.  The two bags of Bag.v (all three insert overloads, rebalance shipments, global shuffle to
   arbitrary destinations, local shuffle, clear, swap), viewed as multisets, follow the specification: an insert
   adds exactly its items to the addressed bag, clear empties it, swap exchanges the two multisets, everything
   else changes nothing - for every history, every number of ranks, every choice of shuffle destinations. *)
Theorem C14_bags_refine_multisets : forall R ops, (0 < R)%nat ->
  peq (abs (brun R ops)) (fold_left spec_step ops ([], [])) /\ wf (brun R ops).
Proof. exact brun_refines. Qed.
Print Assumptions C14_bags_refine_multisets.

(* ---- tags.  In every history of inserts, erases, clears and swaps on two tagged bags, the tag returned by an insert
   is at that moment not a key of that bag (so nothing is overwritten), carries the issuing rank in its upper bits
   (so tags of different ranks differ), and the item is stored under exactly that tag.  [tstep] returns None only
   when a rank has used all 2^40 serial numbers. *)
Theorem C14_tag_returned_is_fresh : forall R pre w from v s1 rs1 s2 r,
  trun (tinit R, tinit R) pre = Some (s1, rs1) ->
  tstep s1 (TIns w from v) = Some (s2, r) ->
  let bag_of (s : tbag * tbag) := if w then snd s else fst s in
  exists t, r = Some t /\ ~ In t (map fst (tm (bag_of s1))) /\ trank t = from /\
            tm (bag_of s2) = (t, v) :: tm (bag_of s1) /\ lookup t (tm (bag_of s2)) = Some v.
Proof. exact tagged_insert_unique. Qed.
Print Assumptions C14_tag_returned_is_fresh.

(* non-vacuity: a history with swaps in which tags are really handed out on both bags *)
Example C14_tags_history :
  exists s rs, trun (tinit 2, tinit 2) [TIns true 0 7; TIns true 0 8; TSwap; TIns false 0 9; TIns true 1 5; TErase false 0%N; TClear true; TIns true 1 6]
               = Some (s, rs) /\ rs = [Some 0%N; Some 1%N; None; Some 2%N; Some 1099511627776%N; None; None; Some 1099511627777%N].
Proof. do 2 eexists. split; vm_compute; reflexivity. Qed.
