(* DisjointConn.v — C17, functional correctness of the walk protocol at quiescence: along EVERY delivery order of the
   pending visits (DisjointSet.exec: walk / update_parent / resolve_merge acting on stale information), when no visit is
   pending any more, two items have the same root IF AND ONLY IF they are connected by the async_union calls issued.
     soundness     every parent edge and every pending visit relates items connected in the union graph (R);
     completeness  every issued union (a, b) stays connected through  same-root  +  pending walk pairs (me, other_parent),
                   because same-root only grows: attach merges two trees, compress re-points a non-root inside its tree
                   (the potential guard makes the new parent's chain avoid the item), bump and create change no parent.
   Roots are well defined: under the potential invariant every item has exactly one root (root_total, root_det). *)
From Coq Require Import ZArith List Bool Lia Relations.
Import ListNotations.
From Ygm Require Import DisjointSet DisjointProto.
Local Open Scope Z_scope.

Definition parent_of (t : table) (x : Z) : Z := match lookup t x with Some i => iparent i | None => x end.

Inductive root (t : table) : Z -> Z -> Prop :=
| root_here x : parent_of t x = x -> root t x x
| root_step x r : parent_of t x <> x -> root t (parent_of t x) r -> root t x r.

Lemma root_det t x r1 : root t x r1 -> forall r2, root t x r2 -> r1 = r2.
Proof.
  induction 1 as [x Hx|x r Hx _ IH]; intros r2 H2; inversion H2 as [y Hy|y r' Hy Hr']; subst; try congruence.
  apply IH. exact Hr'.
Qed.
Lemma root_is_root t x r : root t x r -> parent_of t r = r.
Proof. induction 1; assumption. Qed.
Lemma root_ext t t' : (forall z, parent_of t' z = parent_of t z) -> forall z r, root t z r -> root t' z r.
Proof.
  intros E z r H. induction H as [x Hx|x r Hx _ IH]; [apply root_here; rewrite E; exact Hx|].
  apply root_step; rewrite E; assumption.
Qed.

(* potential order on items of a table (missing items sit below everything with their rank -1) *)
Definition plt (t : table) (x y : Z) : Prop := lexlt (fst (pot t x)) x (fst (pot t y)) y.
Definition pltb (t : table) (x y : Z) : bool := lexltb (fst (pot t x)) x (fst (pot t y)) y.
Lemma pltb_spec t x y : pltb t x y = true <-> plt t x y.
Proof. apply lexltb_spec. Qed.
Lemma plt_trans t x y z : plt t x y -> plt t y z -> plt t x z.
Proof. unfold plt, lexlt. lia. Qed.
Lemma plt_irrefl t x : ~ plt t x x.
Proof. unfold plt, lexlt. lia. Qed.

Lemma parent_plt t x : Inv t -> parent_of t x <> x -> plt t x (parent_of t x) /\ lookup t (parent_of t x) <> None.
Proof.
  intros HI Hn. unfold parent_of in *. destruct (lookup t x) as [i|] eqn:Ei; [|congruence].
  destruct (HI x i Ei) as (_ & [Hr|(j & Hj & Hl)]); [congruence|].
  split; [|congruence]. unfold plt, pot. rewrite Ei, Hj. exact Hl.
Qed.

Lemma root_plt t x r : Inv t -> root t x r -> x = r \/ plt t x r.
Proof.
  intros HI H. induction H as [x Hx|x r Hx _ IH]; [left; reflexivity|]. right.
  destruct (parent_plt t x HI Hx) as (Hp & _). destruct IH as [<-|IH]; [exact Hp|apply (plt_trans _ _ _ _ Hp IH)].
Qed.

(* every item has a root: the number of items above strictly decreases along parent edges *)
Lemma lookup_In t x i : lookup t x = Some i -> In x (map fst t).
Proof.
  induction t as [|(y, j) t IH]; cbn; [discriminate|]. destruct (Z.eqb_spec y x) as [->|]; [left; reflexivity|]. intros H. right. apply IH, H.
Qed.
Lemma filter_strict (f g : Z -> bool) l p :
  (forall y, g y = true -> f y = true) -> In p l -> f p = true -> g p = false -> (length (filter g l) < length (filter f l))%nat.
Proof.
  intros Hs. induction l as [|y l IH]; [contradiction|]. intros [->|Hin] Hf Hg.
  - cbn. rewrite Hf, Hg. cbn.
    assert (length (filter g l) <= length (filter f l))%nat; [|lia].
    clear -Hs. induction l as [|z l IH]; [cbn; lia|]. cbn. destruct (g z) eqn:Eg; [rewrite (Hs z Eg); cbn; lia|]. destruct (f z); cbn; lia.
  - specialize (IH Hin Hf Hg). cbn. destruct (g y) eqn:Eg; [rewrite (Hs y Eg); cbn; lia|]. destruct (f y); cbn; lia.
Qed.

Theorem root_total t : Inv t -> forall x, exists r, root t x r.
Proof.
  intros HI.
  assert (W : forall n x, (length (filter (pltb t x) (map fst t)) < n)%nat -> exists r, root t x r).
  { induction n as [|n IH]; intros x Hn; [lia|].
    destruct (Z.eq_dec (parent_of t x) x) as [E|E]; [exists x; apply root_here, E|].
    destruct (parent_plt t x HI E) as (Hp & Hex).
    destruct (IH (parent_of t x)) as (r & Hr).
    - assert (Hlt : (length (filter (pltb t (parent_of t x)) (map fst t)) < length (filter (pltb t x) (map fst t)))%nat); [|lia].
      apply (filter_strict _ _ _ (parent_of t x)).
      + intros y Hy. apply pltb_spec in Hy. apply pltb_spec. apply (plt_trans _ _ _ _ Hp Hy).
      + destruct (lookup t (parent_of t x)) as [j|] eqn:Ej; [apply (lookup_In _ _ _ Ej)|congruence].
      + apply pltb_spec, Hp.
      + destruct (pltb t (parent_of t x) (parent_of t x)) eqn:Eb; [|reflexivity]. apply pltb_spec in Eb. destruct (plt_irrefl _ _ Eb).
    - exists r. apply root_step; assumption. }
  intros x. apply (W (S (length (filter (pltb t x) (map fst t))))). lia.
Qed.

Definition conn (t : table) (a b : Z) : Prop := exists r, root t a r /\ root t b r.
Lemma conn_refl t : Inv t -> forall a, conn t a a.
Proof. intros HI a. destruct (root_total t HI a) as (r & Hr). exists r. split; exact Hr. Qed.
Lemma conn_sym t a b : conn t a b -> conn t b a.
Proof. intros (r & A & B). exists r. split; assumption. Qed.
Lemma conn_trans t a b c : conn t a b -> conn t b c -> conn t a c.
Proof. intros (r & A & B) (r' & B' & C). rewrite <- (root_det t b r B r' B') in C. exists r. split; assumption. Qed.
Lemma conn_parent t x : Inv t -> conn t x (parent_of t x).
Proof.
  intros HI. destruct (root_total t HI (parent_of t x)) as (r & Hr). exists r. split; [|exact Hr].
  destruct (Z.eq_dec (parent_of t x) x) as [E|E]; [rewrite E in Hr; exact Hr|apply root_step; assumption].
Qed.

(* ---- the mutations --------------------------------------------------------------------------------------------- *)
Lemma parent_of_update_eq t x i : parent_of (update t x i) x = iparent i.
Proof. unfold parent_of. rewrite lookup_update_eq. reflexivity. Qed.
Lemma parent_of_update_neq t x y i : x <> y -> parent_of (update t x i) y = parent_of t y.
Proof. intros H. unfold parent_of. rewrite lookup_update_neq by exact H. reflexivity. Qed.

Lemma ensure_parent t x z : parent_of (ensure t x) z = parent_of t z.
Proof.
  unfold ensure. destruct (lookup t x) eqn:E; [reflexivity|].
  destruct (Z.eq_dec x z) as [<-|Hn]; [rewrite parent_of_update_eq; unfold parent_of; rewrite E; reflexivity|apply parent_of_update_neq, Hn].
Qed.
Lemma bump_parent t x i r z : lookup t x = Some i -> iparent i = x -> parent_of (update t x {| irank := r; iparent := x |}) z = parent_of t z.
Proof.
  intros Hx Hr. destruct (Z.eq_dec x z) as [<-|Hn]; [rewrite parent_of_update_eq; unfold parent_of; rewrite Hx; cbn; congruence|apply parent_of_update_neq, Hn].
Qed.

Section SetParent.
  Variables (t : table) (x p : Z) (i j : info).
  Hypothesis HI : Inv t.
  Hypothesis Hx : lookup t x = Some i.
  Hypothesis Hp : lookup t p = Some j.
  Hypothesis Hl : lexlt (irank i) x (irank j) p.
  Let t' := update t x {| irank := irank i; iparent := p |}.

  Lemma sp_plt : plt t x p.
  Proof. unfold plt, pot. rewrite Hx, Hp. exact Hl. Qed.
  Lemma sp_ne : p <> x.
  Proof. intros E. pose proof sp_plt as H. rewrite E in H. apply (plt_irrefl _ _ H). Qed.

  (* chains that start at or above p never meet x: they are unchanged *)
  Lemma sp_above z r : (z = p \/ plt t p z) -> root t z r -> root t' z r.
  Proof.
    intros Hz H. induction H as [z Hr|z r Hr _ IH].
    - assert (z <> x) by (intros ->; destruct Hz as [E|Hz]; [apply sp_ne; congruence|apply (plt_irrefl t x), (plt_trans _ _ _ _ sp_plt Hz)]).
      apply root_here. unfold t'. rewrite parent_of_update_neq by congruence. exact Hr.
    - assert (z <> x) by (intros ->; destruct Hz as [E|Hz]; [apply sp_ne; congruence|apply (plt_irrefl t x), (plt_trans _ _ _ _ sp_plt Hz)]).
      apply root_step; unfold t'; rewrite parent_of_update_neq by congruence; [exact Hr|].
      apply IH. right. destruct (parent_plt t z HI Hr) as (Hq & _).
      destruct Hz as [->|Hz]; [exact Hq|apply (plt_trans _ _ _ _ Hz Hq)].
  Qed.

  (* compress: x and p already have the same root - no root changes *)
  Lemma sp_compress : conn t x p -> forall z r, root t z r -> root t' z r.
  Proof.
    intros (r0 & Rx & Rp) z r H. induction H as [z Hr|z r Hr Hrest IH].
    - assert (z <> x).
      { intros ->. assert (r0 = x) by (symmetry; apply (root_det t x x (root_here t x Hr) r0 Rx)). subst r0.
        destruct (root_plt t p x HI Rp) as [E|Hc]; [apply sp_ne, E|apply (plt_irrefl t x), (plt_trans _ _ _ _ sp_plt Hc)]. }
      apply root_here. unfold t'. rewrite parent_of_update_neq by congruence. exact Hr.
    - destruct (Z.eq_dec z x) as [->|Hn].
      + assert (r = r0) by (apply (root_det t x r (root_step t x r Hr Hrest) r0 Rx)). subst r0.
        apply root_step; unfold t'; rewrite parent_of_update_eq; cbn; [apply sp_ne|]. apply sp_above; [left; reflexivity|exact Rp].
      + apply root_step; unfold t'; rewrite parent_of_update_neq by congruence; assumption.
  Qed.

  (* attach: x is a root - its tree is hung below p's root, every other root is unchanged *)
  Lemma sp_attach rp : parent_of t x = x -> root t p rp -> forall z r, root t z r -> root t' z (if r =? x then rp else r).
  Proof.
    intros Hroot Rp z r H. induction H as [z Hr|z r Hr Hrest IH].
    - destruct (Z.eqb_spec z x) as [->|Hn].
      + apply root_step; unfold t'; rewrite parent_of_update_eq; cbn; [apply sp_ne|]. apply sp_above; [left; reflexivity|exact Rp].
      + apply root_here. unfold t'. rewrite parent_of_update_neq by congruence. exact Hr.
    - assert (z <> x) by congruence.
      apply root_step; unfold t'; rewrite parent_of_update_neq by congruence; assumption.
  Qed.

  Lemma sp_mono : (parent_of t x = x \/ conn t x p) -> forall a b, conn t a b -> conn t' a b.
  Proof.
    intros [Hroot|Hc] a b (r & A & B).
    - destruct (root_total t HI p) as (rp & Rp). exists (if r =? x then rp else r). split; apply sp_attach; assumption.
    - exists r. split; apply sp_compress; assumption.
  Qed.
  Lemma sp_joins : (parent_of t x = x \/ conn t x p) -> conn t' x p.
  Proof.
    intros H. destruct (root_total t HI p) as (rp & Rp). exists rp.
    assert (Rp' : root t' p rp) by (apply sp_above; [left; reflexivity|exact Rp]).
    split; [|exact Rp']. apply root_step; unfold t'; rewrite parent_of_update_eq; cbn; [apply sp_ne|exact Rp'].
  Qed.
End SetParent.

Lemma guarded_set_inv t x p t' : guarded_set t x p = Some t' ->
  exists i j, lookup t x = Some i /\ lookup t p = Some j /\ lexlt (irank i) x (irank j) p /\ t' = update t x {| irank := irank i; iparent := p |}.
Proof.
  unfold guarded_set. destruct (lookup t x) as [i|] eqn:Ei; [|discriminate]. destruct (lookup t p) as [j|] eqn:Ej; [|discriminate].
  destruct (lexltb (irank i) x (irank j) p) eqn:El; [|discriminate]. intros H. injection H as <-.
  exists i, j. repeat split; try reflexivity. apply lexltb_spec, El.
Qed.

(* ---- the pool invariants ---------------------------------------------------------------------------------------- *)
Definition walks (pool : list visit) : list (Z * Z) :=
  flat_map (fun v => match v with Walk _ me _ op _ _ => [(me, op)] | _ => [] end) pool.
Definition base (t : table) (pool : list visit) (u v : Z) : Prop := conn t u v \/ In (u, v) (walks pool).
Definition Q (t : table) (pool : list visit) : Z -> Z -> Prop := clos_refl_sym_trans Z (base t pool).

Definition CI (t : table) (v : visit) : Prop :=
  match v with
  | Walk _ me child op oi _ => conn t child me /\ conn t oi op
  | UpdParent me np => conn t me np
  | Resolve me mitem _ => conn t mitem me
  end.

Lemma Q_conn t pool a b : conn t a b -> Q t pool a b.
Proof. intros H. apply rst_step. left. exact H. Qed.
Lemma Q_walk t pool a b : In (a, b) (walks pool) -> Q t pool a b.
Proof. intros H. apply rst_step. right. exact H. Qed.
Lemma Q_lift t pool t' pool' : (forall u v, base t pool u v -> Q t' pool' u v) -> forall a b, Q t pool a b -> Q t' pool' a b.
Proof.
  intros Hb a b H. induction H as [u v H|u|u v _ IH|u v w _ IH1 _ IH2].
  - apply Hb, H.
  - apply rst_refl.
  - apply rst_sym, IH.
  - apply (rst_trans _ _ _ _ _ IH1 IH2).
Qed.
Lemma walks_app a b : walks (a ++ b) = walks a ++ walks b.
Proof. unfold walks. apply flat_map_app. Qed.
Lemma walks_cons v pool : walks (v :: pool) = walks [v] ++ walks pool.
Proof. apply (walks_app [v] pool). Qed.
Lemma walks_remove k pool v u w : nth_error pool k = Some v -> In (u, w) (walks pool) ->
  In (u, w) (walks (remove_nth k pool)) \/ (exists cb c oi r, v = Walk cb u c w oi r).
Proof.
  revert k; induction pool as [|y pool IH]; intros k Hk Hin; [destruct k; discriminate|].
  destruct k as [|k]; cbn in Hk.
  - injection Hk as ->. rewrite walks_cons in Hin. apply in_app_or in Hin as [Hin|Hin]; [|left; exact Hin].
    right. destruct v; cbn in Hin; try contradiction. destruct Hin as [E|[]]. injection E as <- <-. eauto.
  - rewrite walks_cons in Hin. cbn [remove_nth]. rewrite (walks_cons y (remove_nth k pool)).
    apply in_app_or in Hin as [Hin|Hin]; [left; apply in_or_app; left; exact Hin|].
    destruct (IH k Hk Hin) as [H|H]; [left; apply in_or_app; right; exact H|right; exact H].
Qed.

(* one delivery: same-root only grows, the visits sent carry connected items, and a consumed walk pair stays connected *)
Theorem exec_conn t v t' sends : Inv t -> VI t v -> CI t v -> exec t v = Some (t', sends) ->
  Inv t' /\ (forall a b, conn t a b -> conn t' a b) /\ Forall (CI t') sends /\
  (forall cb me c op oi r, v = Walk cb me c op oi r -> Q t' sends me op).
Proof.
  intros HI HV HC He.
  destruct (exec_ok t v HI HV) as (t2 & s2 & E2 & I2 & _ & _). rewrite He in E2. injection E2 as <- <-. split; [exact I2|]. clear I2.
  destruct v as [cb me child op oi orank|me np|me mitem mrank]; cbn [exec] in He.
  - (* Walk *)
    destruct HC as (Cc & Co).
    set (t1 := ensure t me) in *. assert (I1 : Inv t1) by (apply Inv_ensure, HI).
    assert (M1 : forall a b, conn t a b -> conn t1 a b).
    { intros a b (r & A & B). exists r. split; apply (root_ext t t1 (ensure_parent t me)); assumption. }
    destruct (lookup t1 me) as [i|] eqn:Hi; [|discriminate].
    assert (Pm : parent_of t1 me = iparent i) by (unfold parent_of; rewrite Hi; reflexivity).
    assert (Cmp : conn t1 me (iparent i)) by (rewrite <- Pm; apply conn_parent, I1).
    assert (Cc1 : conn t1 child (iparent i)) by (apply (conn_trans _ _ me); [apply M1, Cc|exact Cmp]).
    assert (S0 : forall t3, (forall a b, conn t1 a b -> conn t3 a b) -> Forall (CI t3) (if child =? me then [] else [UpdParent child (iparent i)])).
    { intros t3 M3. destruct (child =? me); constructor; [|constructor]. cbn. apply M3, Cc1. }
    assert (Wswap : forall t3, (forall a b, conn t1 a b -> conn t3 a b) -> CI t3 (Walk cb op oi (iparent i) me (irank i))).
    { intros t3 M3. cbn. split; [apply M3, M1, Co|apply M3, Cmp]. }
    assert (Wup : forall t3, (forall a b, conn t1 a b -> conn t3 a b) -> CI t3 (Walk cb (iparent i) me op oi orank)).
    { intros t3 M3. cbn. split; [apply M3, Cmp|apply M3, M1, Co]. }
    assert (Qswap : forall t3 s, (forall a b, conn t1 a b -> conn t3 a b) -> Q t3 (s ++ [Walk cb op oi (iparent i) me (irank i)]) me op).
    { intros t3 s M3. apply (rst_trans _ _ _ (iparent i)); [apply Q_conn, M3, Cmp|].
      apply rst_sym, Q_walk. rewrite walks_app. apply in_or_app. right. left. reflexivity. }
    assert (Qup : forall t3 s, (forall a b, conn t1 a b -> conn t3 a b) -> Q t3 (s ++ [Walk cb (iparent i) me op oi orank]) me op).
    { intros t3 s M3. apply (rst_trans _ _ _ (iparent i)); [apply Q_conn, M3, Cmp|].
      apply Q_walk. rewrite walks_app. apply in_or_app. right. left. reflexivity. }
    assert (Attach : forall t3, parent_of t1 me = me -> guarded_set t1 me op = Some t3 ->
              (forall a b, conn t1 a b -> conn t3 a b) /\ conn t3 me op).
    { intros t3 Hroot G. destruct (guarded_set_inv _ _ _ _ G) as (i' & j & Hx & Hp & Hl & ->).
      split; [apply (sp_mono t1 me op i' j I1 Hx Hp Hl); left; exact Hroot|apply (sp_joins t1 me op i' j I1 Hx Hp Hl); left; exact Hroot]. }
    assert (Same : forall a b, conn t1 a b -> conn t1 a b) by auto.
    destruct ((iparent i =? op) || (iparent i =? oi)) eqn:Eret.
    { injection He as <- <-. split; [exact M1|]. split; [apply S0, Same|].
      intros cb' me' c' op' oi' r' E. injection E as <- <- <- <- <- <-. apply Q_conn.
      apply orb_prop in Eret as [E|E]; apply Z.eqb_eq in E.
      - rewrite <- E. exact Cmp.
      - apply (conn_trans _ _ oi); [rewrite <- E; exact Cmp|apply M1, Co]. }
    destruct (orank <? irank i).
    { injection He as <- <-. split; [exact M1|]. split; [apply Forall_app; split; [apply S0, Same|constructor; [apply Wswap, Same|constructor]]|].
      intros cb' me' c' op' oi' r' E. injection E as <- <- <- <- <- <-. apply Qswap, Same. }
    destruct (irank i =? orank).
    + destruct (Z.eqb_spec (iparent i) me) as [Hroot|Hnr].
      * destruct (me <? op).
        -- destruct (guarded_set t1 me op) as [t3|] eqn:G; [|discriminate]. injection He as <- <-.
           destruct (Attach t3 ltac:(congruence) eq_refl) as (M3 & J3).
           split; [intros a b H; apply M3, M1, H|]. split.
           ++ apply Forall_app. split; [apply S0, M3|destruct cb; [constructor|constructor; [cbn; exact J3|constructor]]].
           ++ intros cb' me' c' op' oi' r' E. injection E as <- <- <- <- <- <-. apply Q_conn, J3.
        -- injection He as <- <-. split; [exact M1|]. split; [apply Forall_app; split; [apply S0, Same|constructor; [apply Wswap, Same|constructor]]|].
           intros cb' me' c' op' oi' r' E. injection E as <- <- <- <- <- <-. apply Qswap, Same.
      * injection He as <- <-. split; [exact M1|]. split; [apply Forall_app; split; [apply S0, Same|constructor; [apply Wup, Same|constructor]]|].
        intros cb' me' c' op' oi' r' E. injection E as <- <- <- <- <- <-. apply Qup, Same.
    + destruct (Z.eqb_spec (iparent i) me) as [Hroot|Hnr].
      * destruct (guarded_set t1 me op) as [t3|] eqn:G; [|discriminate]. injection He as <- <-.
        destruct (Attach t3 ltac:(congruence) eq_refl) as (M3 & J3).
        split; [intros a b H; apply M3, M1, H|]. split; [apply S0, M3|].
        intros cb' me' c' op' oi' r' E. injection E as <- <- <- <- <- <-. apply Q_conn, J3.
      * injection He as <- <-. split; [exact M1|]. split; [apply Forall_app; split; [apply S0, Same|constructor; [apply Wup, Same|constructor]]|].
        intros cb' me' c' op' oi' r' E. injection E as <- <- <- <- <- <-. apply Qup, Same.
  - (* UpdParent *)
    cbn in HC.
    set (t1 := ensure t me) in *. assert (I1 : Inv t1) by (apply Inv_ensure, HI).
    assert (M1 : forall a b, conn t a b -> conn t1 a b).
    { intros a b (r & A & B). exists r. split; apply (root_ext t t1 (ensure_parent t me)); assumption. }
    destruct (lookup t1 me) as [i|] eqn:Hi; [|discriminate].
    destruct (iparent i =? np).
    + injection He as <- <-. split; [exact M1|]. split; [constructor|]. intros; discriminate.
    + destruct (guarded_set t1 me np) as [t3|] eqn:G; [|discriminate]. injection He as <- <-.
      destruct (guarded_set_inv _ _ _ _ G) as (i' & j & Hx & Hp & Hl & ->).
      split; [|split; [constructor|intros; discriminate]].
      intros a b H. apply (sp_mono t1 me np i' j I1 Hx Hp Hl); [right; apply M1, HC|apply M1, H].
  - (* Resolve *)
    cbn in HC.
    set (t1 := ensure t me) in *. assert (I1 : Inv t1) by (apply Inv_ensure, HI).
    assert (M1 : forall a b, conn t a b -> conn t1 a b).
    { intros a b (r & A & B). exists r. split; apply (root_ext t t1 (ensure_parent t me)); assumption. }
    destruct (lookup t1 me) as [i|] eqn:Hi; [|discriminate].
    destruct (irank i <? mrank); [discriminate|].
    destruct (mrank <? irank i).
    + injection He as <- <-. split; [exact M1|]. split; [constructor|]. intros; discriminate.
    + destruct (Z.eqb_spec (iparent i) me) as [Hroot|Hnr].
      * injection He as <- <-. split; [|split; [constructor|intros; discriminate]].
        intros a b H. destruct (M1 a b H) as (r & A & B). exists r.
        split; apply (root_ext t1 _ (fun z => bump_parent t1 me i (mrank + 1) z Hi Hroot)); assumption.
      * injection He as <- <-. split; [exact M1|]. split; [|intros; discriminate].
        constructor; [|constructor]. cbn. apply (conn_trans _ _ me); [apply M1, HC|].
        assert (Pm : parent_of t1 me = iparent i) by (unfold parent_of; rewrite Hi; reflexivity). rewrite <- Pm. apply conn_parent, I1.
Qed.

(* ---- completeness along every delivery order --------------------------------------------------------------------- *)
Lemma CI_mono t t' v : (forall a b, conn t a b -> conn t' a b) -> CI t v -> CI t' v.
Proof. intros M. destruct v; cbn; [intros (A & B); split; apply M; assumption|apply M|apply M]. Qed.

Definition GC (es : list (Z * Z)) (st : table * list visit) : Prop :=
  GI st /\ Forall (CI (fst st)) (snd st) /\ forall a b, In (a, b) es -> Q (fst st) (snd st) a b.

Theorem step_preserves_GC es s s' : GC es s -> step s s' -> GC es s'.
Proof.
  intros (G & HC & HQ) Hs. pose proof (step_preserves s s' G Hs) as G'. split; [exact G'|].
  destruct Hs as [t pool k v t' sends Hk He]. cbn [fst snd] in *. destruct G as (HI & HP).
  pose proof HP as HP0. rewrite Forall_forall in HP0. pose proof (HP0 v (nth_error_In _ _ Hk)) as HV.
  pose proof HC as HC0. rewrite Forall_forall in HC0. pose proof (HC0 v (nth_error_In _ _ Hk)) as HCv.
  destruct (exec_conn t v t' sends HI HV HCv He) as (I' & M & CS & QW).
  split.
  - apply Forall_app. split; [|exact CS]. apply Forall_remove_nth. apply Forall_forall. intros w Hw. apply (CI_mono t t' w M), HC0, Hw.
  - intros a b Hab. apply (Q_lift t pool); [|apply HQ, Hab]. intros u w [Hc|Hin]; [apply Q_conn, M, Hc|].
    destruct (walks_remove k pool v u w Hk Hin) as [Hr|(cb0 & c0 & oi0 & r0 & Ev)].
    + apply Q_walk. rewrite walks_app. apply in_or_app. left. exact Hr.
    + apply (Q_lift t' sends); [|apply (QW cb0 u c0 w oi0 r0 Ev)]. intros x y [Hc|Hi]; [apply Q_conn, Hc|].
      apply Q_walk. rewrite walks_app. apply in_or_app. right. exact Hi.
Qed.

Lemma walks_unions l : walks (unionsb l) = map snd l.
Proof. induction l as [|(cb, (a, b)) l IH]; [reflexivity|]. unfold unionsb in *. cbn [map]. rewrite walks_cons, IH. reflexivity. Qed.
Lemma Inv_nil : Inv [].
Proof. intros x i H. discriminate. Qed.

Lemma unions_GC l : GC (map snd l) ([], unionsb l).
Proof.
  split; [apply unions_GI|]. cbn [fst snd]. split.
  - apply Forall_forall. intros v Hv. unfold unionsb in Hv. apply in_map_iff in Hv as ((cb, (a, b)) & <- & _). cbn. split; apply conn_refl, Inv_nil.
  - intros a b Hab. apply Q_walk. rewrite walks_unions. exact Hab.
Qed.

Lemma steps_GC l s : steps ([], unionsb l) s -> GC (map snd l) s.
Proof.
  intros H. remember ([], unionsb l) as s0 eqn:E0. assert (G0 : GC (map snd l) s0) by (subst; apply unions_GC). clear E0.
  induction H as [s|s s1 s2 Hs _ IH]; [exact G0|]. apply IH. apply (step_preserves_GC (map snd l) s s1 G0 Hs).
Qed.

(* the union graph *)
Definition R (es : list (Z * Z)) : Z -> Z -> Prop := clos_refl_sym_trans Z (fun u v => In (u, v) es).

Theorem quiescent_complete l t : steps ([], unionsb l) (t, []) -> forall a b, R (map snd l) a b -> conn t a b.
Proof.
  intros H. destruct (steps_GC l _ H) as ((HI & _) & _ & HQ). cbn [fst snd] in *.
  assert (QC : forall a b, Q t [] a b -> conn t a b).
  { intros a b Hq. induction Hq as [u v [Hc|[]]|u|u v _ IH|u v w _ IH1 _ IH2];
      [exact Hc|apply conn_refl, HI|apply conn_sym, IH|apply (conn_trans _ _ _ _ IH1 IH2)]. }
  intros a b Hr. induction Hr as [u v Hin|u|u v _ IH|u v w _ IH1 _ IH2];
    [apply QC, HQ, Hin|apply conn_refl, HI|apply conn_sym, IH|apply (conn_trans _ _ _ _ IH1 IH2)].
Qed.

(* ---- soundness along every delivery order -------------------------------------------------------------------------- *)
Section Sound.
  Variable l : list (bool * (Z * Z)).
  Notation es := (map snd l).
  Notation Re := (R es).
  Lemma R_refl a : Re a a. Proof. apply rst_refl. Qed.
  Lemma R_sym a b : Re a b -> Re b a. Proof. apply rst_sym. Qed.
  Lemma R_trans a b c : Re a b -> Re b c -> Re a c. Proof. apply rst_trans. Qed.

  Definition SI (t : table) : Prop := forall x, Re x (parent_of t x).
  Definition RV (v : visit) : Prop :=
    match v with
    | Walk _ me child op oi _ => Re me op /\ Re child me /\ Re oi op
    | UpdParent me np => Re me np
    | Resolve me mitem _ => Re mitem me
    end.

  Lemma SI_ensure t x : SI t -> SI (ensure t x).
  Proof. intros H z. rewrite ensure_parent. apply H. Qed.
  Lemma SI_guarded t x p t' : SI t -> Re x p -> guarded_set t x p = Some t' -> SI t'.
  Proof.
    intros H Hr G. destruct (guarded_set_inv _ _ _ _ G) as (i & j & _ & _ & _ & ->). intros z.
    destruct (Z.eq_dec x z) as [<-|Hn]; [rewrite parent_of_update_eq; exact Hr|rewrite parent_of_update_neq by exact Hn; apply H].
  Qed.

  Theorem exec_sound t v t' sends : SI t -> RV v -> exec t v = Some (t', sends) -> SI t' /\ Forall RV sends.
  Proof.
    intros HS HR He. destruct v as [cb me child op oi orank|me np|me mitem mrank]; cbn [exec] in He.
    - destruct HR as (Rmo & Rcm & Roo).
      pose proof (SI_ensure t me HS) as S1. set (t1 := ensure t me) in *.
      destruct (lookup t1 me) as [i|] eqn:Hi; [|discriminate].
      assert (Rmp : Re me (iparent i)) by (pose proof (S1 me) as H; unfold parent_of in H; rewrite Hi in H; exact H).
      assert (S0 : Forall RV (if child =? me then [] else [UpdParent child (iparent i)])).
      { destruct (child =? me); constructor; [|constructor]. cbn. apply (R_trans _ me); assumption. }
      assert (Wswap : RV (Walk cb op oi (iparent i) me (irank i))).
      { cbn. split; [apply (R_trans _ me); [apply R_sym, Rmo|exact Rmp]|]. split; [exact Roo|exact Rmp]. }
      assert (Wup : RV (Walk cb (iparent i) me op oi orank)).
      { cbn. split; [apply (R_trans _ me); [apply R_sym, Rmp|exact Rmo]|]. split; [exact Rmp|exact Roo]. }
      destruct ((iparent i =? op) || (iparent i =? oi)); [injection He as <- <-; split; assumption|].
      destruct (orank <? irank i); [injection He as <- <-; split; [exact S1|apply Forall_app; split; [exact S0|constructor; [exact Wswap|constructor]]]|].
      destruct (irank i =? orank).
      + destruct (iparent i =? me).
        * destruct (me <? op).
          -- destruct (guarded_set t1 me op) as [t3|] eqn:G; [|discriminate]. injection He as <- <-.
             split; [apply (SI_guarded t1 me op t3 S1 Rmo G)|]. apply Forall_app. split; [exact S0|destruct cb; [constructor|constructor; [cbn; exact Rmo|constructor]]].
          -- injection He as <- <-; split; [exact S1|apply Forall_app; split; [exact S0|constructor; [exact Wswap|constructor]]].
        * injection He as <- <-; split; [exact S1|apply Forall_app; split; [exact S0|constructor; [exact Wup|constructor]]].
      + destruct (iparent i =? me).
        * destruct (guarded_set t1 me op) as [t3|] eqn:G; [|discriminate]. injection He as <- <-.
          split; [apply (SI_guarded t1 me op t3 S1 Rmo G)|exact S0].
        * injection He as <- <-; split; [exact S1|apply Forall_app; split; [exact S0|constructor; [exact Wup|constructor]]].
    - cbn in HR. pose proof (SI_ensure t me HS) as S1. set (t1 := ensure t me) in *.
      destruct (lookup t1 me) as [i|] eqn:Hi; [|discriminate].
      destruct (iparent i =? np); [injection He as <- <-; split; [exact S1|constructor]|].
      destruct (guarded_set t1 me np) as [t3|] eqn:G; [|discriminate]. injection He as <- <-.
      split; [apply (SI_guarded t1 me np t3 S1 HR G)|constructor].
    - cbn in HR. pose proof (SI_ensure t me HS) as S1. set (t1 := ensure t me) in *.
      destruct (lookup t1 me) as [i|] eqn:Hi; [|discriminate].
      assert (Rmp : Re me (iparent i)) by (pose proof (S1 me) as H; unfold parent_of in H; rewrite Hi in H; exact H).
      destruct (irank i <? mrank); [discriminate|].
      destruct (mrank <? irank i); [injection He as <- <-; split; [exact S1|constructor]|].
      destruct (Z.eqb_spec (iparent i) me) as [Hroot|Hnr].
      + injection He as <- <-. split; [|constructor]. intros z. rewrite (bump_parent t1 me i (mrank + 1) z Hi Hroot). apply S1.
      + injection He as <- <-. split; [exact S1|]. constructor; [|constructor]. cbn. apply (R_trans _ me); assumption.
  Qed.

  Lemma root_R t x r : SI t -> root t x r -> Re x r.
  Proof. intros HS H. induction H as [x _|x r _ _ IH]; [apply R_refl|apply (R_trans _ (parent_of t x)); [apply HS|exact IH]]. Qed.

  Lemma steps_sound s : steps ([], unionsb l) s -> SI (fst s) /\ Forall RV (snd s).
  Proof.
    intros H. remember ([], unionsb l) as s0 eqn:E0.
    assert (G0 : SI (fst s0) /\ Forall RV (snd s0)).
    { subst. cbn. split; [intros x; apply R_refl|]. apply Forall_forall. intros v Hv. unfold unionsb in Hv.
      apply in_map_iff in Hv as ((cb, (a, b)) & <- & Hin). cbn. split; [apply rst_step; apply (in_map snd) in Hin; exact Hin|]. split; [apply R_refl|apply R_refl]. }
    clear E0. induction H as [s|s s1 s2 Hs _ IH]; [exact G0|]. apply IH. clear IH.
    destruct Hs as [t pool k v t' sends Hk He]. cbn [fst snd] in *. destruct G0 as (HS & HR).
    pose proof HR as HR0. rewrite Forall_forall in HR0.
    destruct (exec_sound t v t' sends HS (HR0 v (nth_error_In _ _ Hk)) He) as (S' & RS).
    split; [exact S'|]. apply Forall_app. split; [apply Forall_remove_nth, HR|exact RS].
  Qed.

  (* at every moment, not only at quiescence: items with the same root are connected in the union graph *)
  Theorem always_sound s a b : steps ([], unionsb l) s -> conn (fst s) a b -> Re a b.
  Proof.
    intros H (r & A & B). destruct (steps_sound s H) as (HS & _).
    apply (R_trans _ r); [apply (root_R _ _ _ HS A)|apply R_sym, (root_R _ _ _ HS B)].
  Qed.
End Sound.

(* THE THEOREM: along every delivery order, once no visit is pending, "same root" is exactly "connected by the unions issued" *)
Theorem quiescent_roots_are_components l t :
  steps ([], unionsb l) (t, []) -> forall a b, conn t a b <-> R (map snd l) a b.
Proof.
  intros H a b. split; [apply (always_sound l (t, []) a b H)|apply (quiescent_complete l t H)].
Qed.

(* [root] is what the executable lookup computes *)
Lemma find_root t fuel x r : find fuel t x = Some r -> root t x r.
Proof.
  revert x; induction fuel as [|f IH]; intros x H; [discriminate|]. cbn in H.
  destruct (lookup t x) as [i|] eqn:Ei; [|discriminate].
  assert (P : parent_of t x = iparent i) by (unfold parent_of; rewrite Ei; reflexivity).
  destruct (Z.eqb_spec (iparent i) x) as [E|E].
  - injection H as <-. apply root_here. congruence.
  - apply root_step; rewrite P; [exact E|apply IH, H].
Qed.

(* the executable scheduler produces delivery sequences: a successful run ends at quiescence *)
Lemma steps_trans s1 s2 s3 : steps s1 s2 -> steps s2 s3 -> steps s1 s3.
Proof. induction 1 as [s|s sa sb Hs _ IH]; [auto|]. intros H. apply (steps_cons _ sa); [exact Hs|apply IH, H]. Qed.
Lemma run_pool_steps fuel pick : forall t pool t' f, run_pool fuel pick t pool = Some (t', f) -> steps (t, pool) (t', []).
Proof.
  induction fuel as [|fu IH]; intros t pool t' f H; [discriminate|]. cbn [run_pool] in H.
  destruct pool as [|v0 rest] eqn:Ep; [injection H as <- _; apply steps_refl|]. rewrite <- Ep in *.
  set (k := Nat.modulo (pick fu (length pool)) (length pool)) in *.
  destruct (nth_error pool k) as [v|] eqn:Ek; [|discriminate].
  destruct (exec t v) as [(t2, sends)|] eqn:Ee; [|discriminate].
  apply (steps_cons _ (t2, remove_nth k pool ++ sends)); [econstructor; eassumption|apply (IH _ _ _ _ H)].
Qed.
