(* LineParser.v — C18: line_parser hands out every line of every file exactly once.

   A file is modelled by the start offsets of its lines (computed from the line
   lengths; the last line may lack its newline).  [carve] is the rank-0 loop of
   line_parser::for_all (files consumed from the back, a budget of
   max(total/ranks + 1, granule) bytes per rank); [delivers b e s] is what the
   reader does with a line starting at offset s when it was given the byte range
   [b, e]: seek to b, discard through the next newline unless b = 0, then hand out
   lines while the position of the line start is <= e.

   The granule is a parameter (8 MB in the code); the correspondence check runs the
   real parser on files larger than 8 MB and compares, per rank, the lines it
   delivered with this model evaluated on the same line lengths. *)
From Coq Require Import ZArith List Bool Lia.
Import ListNotations.
Local Open Scope Z_scope.

(* start offsets of the lines of a file given (length of line incl. its newline) *)
Fixpoint starts_from (pos : Z) (lens : list Z) : list Z :=
  match lens with [] => [] | l :: t => pos :: starts_from (pos + l) t end.
Definition line_starts (lens : list Z) : list Z := starts_from 0 lens.
Fixpoint sumZ (l : list Z) : Z := match l with [] => 0 | x :: t => x + sumZ t end.

(* the reader: a line starting at s is delivered for the range [b, e] iff ... *)
Definition delivers (b e s : Z) : bool := if b =? 0 then s <=? e else (b <? s) && (s <=? e).

(* a chain of ranges over one file: [0,e1] [e1,e2] ... [ek, fsize] *)
Fixpoint chain_ok (b : Z) (ends : list Z) (fsize : Z) : Prop :=
  match ends with
  | [] => False
  | [e] => b < e /\ e = fsize
  | e :: rest => b < e /\ chain_ok e rest fsize
  end.

Fixpoint ranges_of (b : Z) (ends : list Z) : list (Z * Z) :=
  match ends with [] => [] | e :: rest => (b, e) :: ranges_of e rest end.

Definition count_delivered (rs : list (Z * Z)) (s : Z) : nat :=
  length (filter (fun be => delivers (fst be) (snd be) s) rs).

Lemma chain_lt ends : forall b fsize, chain_ok b ends fsize -> b < fsize.
Proof.
  induction ends as [|e rest IH]; intros b fsize H; [destruct H|].
  destruct rest as [|e2 rest]; [destruct H; lia|].
  destruct H as (Hbe & H). specialize (IH e fsize H). lia.
Qed.

(* for a chain starting at b > 0: a start s is delivered exactly once iff b < s <= fsize, never otherwise *)
Lemma chain_counts_pos ends : forall b fsize s, 0 < b -> chain_ok b ends fsize ->
  count_delivered (ranges_of b ends) s = (if (b <? s) && (s <=? fsize) then 1%nat else 0%nat).
Proof.
  induction ends as [|e rest IH]; intros b fsize s Hb H; [destruct H|].
  destruct rest as [|e2 rest].
  - destruct H as (Hbe & ->). unfold count_delivered. cbn [ranges_of filter fst snd]. unfold delivers.
    destruct (Z.eqb_spec b 0); [lia|]. destruct ((b <? s) && (s <=? fsize)); reflexivity.
  - destruct H as (Hbe & H). change (ranges_of b (e :: e2 :: rest)) with ((b, e) :: ranges_of e (e2 :: rest)).
    unfold count_delivered in *. cbn [filter fst snd length].
    specialize (IH e fsize s ltac:(lia) H).
    assert (He : e < fsize) by (eapply chain_lt; exact H).
    unfold delivers at 1. destruct (Z.eqb_spec b 0); [lia|].
    destruct (Z.ltb_spec b s); destruct (Z.leb_spec s e); cbn [andb length]; rewrite IH;
      destruct (Z.ltb_spec e s); destruct (Z.leb_spec s fsize); cbn [andb]; try reflexivity; lia.
Qed.

(* Over a chain from 0 every line start in [0, fsize] is delivered by exactly one range *)
Theorem read_ranges_partition_lines ends fsize s :
  chain_ok 0 ends fsize -> 0 <= s <= fsize -> count_delivered (ranges_of 0 ends) s = 1%nat.
Proof.
  intros H Hs. destruct ends as [|e rest]; [destruct H|].
  destruct rest as [|e2 rest].
  - destruct H as (He & ->). unfold count_delivered. cbn. destruct (Z.leb_spec s fsize); [reflexivity|lia].
  - destruct H as (He & H). change (ranges_of 0 (e :: e2 :: rest)) with ((0, e) :: ranges_of e (e2 :: rest)).
    unfold count_delivered. cbn [filter fst snd]. unfold delivers at 1. cbn [Z.eqb].
    pose proof (chain_counts_pos (e2 :: rest) e fsize s He H) as IH. unfold count_delivered in IH.
    destruct (Z.leb_spec s e); cbn [length]; rewrite IH;
      destruct (Z.ltb_spec e s); destruct (Z.leb_spec s fsize); cbn [andb]; try reflexivity; lia.
Qed.

(* every line start of a file lies in [0, fsize) (non-empty lines), so every line is delivered exactly once *)
Lemma starts_bound lens : forall pos s, Forall (fun l => 0 < l) lens -> In s (starts_from pos lens) -> pos <= s < pos + sumZ lens.
Proof.
  induction lens as [|l t IH]; intros pos s Hl Hin; [destruct Hin|].
  inversion Hl as [|? ? Hl1 Hl2]; subst. cbn [starts_from sumZ] in *.
  assert (0 <= sumZ t) by (clear -Hl2; induction Hl2; cbn; lia).
  destruct Hin as [<-|Hin]; [lia|]. specialize (IH (pos + l) s Hl2 Hin). lia.
Qed.

Theorem every_line_delivered_once lens ends s :
  Forall (fun l => 0 < l) lens -> chain_ok 0 ends (sumZ lens) -> In s (line_starts lens) ->
  count_delivered (ranges_of 0 ends) s = 1%nat.
Proof.
  intros Hl Hc Hin. apply (read_ranges_partition_lines ends (sumZ lens)); [exact Hc|].
  pose proof (starts_bound lens 0 s Hl Hin). lia.
Qed.

(* ---- the carving loop (executable; compared with the implementation's per-rank deliveries) ------------ *)
(* remaining files as (index, position, size), consumed from the back of the list *)
Fixpoint carve_rank (fuel : nat) (rank : Z) (budget : Z) (files : list (Z * Z * Z)) (acc : list (Z * Z * Z * Z))
  : list (Z * Z * Z) * list (Z * Z * Z * Z) :=
  match fuel with
  | O => (files, acc)
  | S f =>
      if budget <=? 0 then (files, acc) else
      match rev files with
      | [] => (files, acc)
      | (idx, pos, size) :: others_rev =>
          let others := rev others_rev in
          let remaining := size - pos in
          if budget <? remaining then
            (others ++ [(idx, pos + budget, size)], acc ++ [(rank, idx, pos, pos + budget)])
          else carve_rank f rank (budget - remaining) others (acc ++ [(rank, idx, pos, size)])
      end
  end.

Fixpoint carve_all (nranks : nat) (rank : Z) (per_rank : Z) (files : list (Z * Z * Z)) (acc : list (Z * Z * Z * Z)) : list (Z * Z * Z * Z) :=
  match nranks with
  | O => acc
  | S n => let '(files', acc') := carve_rank (S (length files)) rank per_rank files acc in carve_all n (rank + 1) per_rank files' acc'
  end.

Definition carve (granule : Z) (sizes : list Z) (nranks : Z) : list (Z * Z * Z * Z) :=
  let total := sumZ sizes in
  if total <=? 0 then [] else
  let per_rank := Z.max (total / nranks + 1) granule in
  carve_all (Z.to_nat nranks) 0 per_rank (map (fun '(i, s) => (Z.of_nat i, 0, s)) (combine (seq 0 (length sizes)) sizes)) [].

(* lines (by index) a rank delivers from a file, given the assignment *)
Definition rank_lines (assign : list (Z * Z * Z * Z)) (rank file : Z) (starts : list Z) : list Z :=
  filter (fun s => existsb (fun '(r, f, b, e) => (r =? rank) && (f =? file) && delivers b e s) assign) starts.

Example carve_example : carve 8 [10; 30] 3 = [(0, 1, 0, 14); (1, 1, 14, 28); (2, 1, 28, 30); (2, 0, 0, 10)].
Proof. vm_compute. reflexivity. Qed.
