(* Layout.v — the block layout the properties quantify over ("n nodes with p
   ranks each, block placement"), as a value of the *generated* record
   [layout_view] (Gen_layout.v, from layout.hpp's field declarations), and the
   characterisation of layout.hpp's generated accessors on it.

   The tables themselves are what `layout::layout(MPI_Comm)` computes with
   MPI_Comm_split_type / MPI_Comm_split / MPI_Allgather; that construction is
   tied by correspondence (the harness dumps every table of every rank of every
   simulated n x p job and compares it with [block_layout]; see DESIGN §5 C04). *)
From Coq Require Import ZArith List Bool Lia.
Import ListNotations.
From Ygm Require Import Gen.CArith Gen.Gen_layout.
Local Open Scope Z_scope.

Definition znode (p r : Z) : Z := r / p.
Definition zloc (p r : Z) : Z := r mod p.

Definition block_layout (n p me : Z) : layout_view :=
  {| m_comm_size := n * p;
     m_comm_rank := me;
     m_node_size := n;
     m_node_id := znode p me;
     m_local_size := p;
     m_local_id := zloc p me;
     m_strided_ranks := map (fun a => Z.of_nat a * p + zloc p me) (seq 0 (Z.to_nat n));
     m_local_ranks := map (fun l => znode p me * p + Z.of_nat l) (seq 0 (Z.to_nat p));
     m_rank_to_node := map (fun r => znode p (Z.of_nat r)) (seq 0 (Z.to_nat (n * p)));
     m_rank_to_local := map (fun r => zloc p (Z.of_nat r)) (seq 0 (Z.to_nat (n * p))) |}.

(* the sizes for which C `int` arithmetic on ranks is exact: the router adds two
   node ids in an `int`, so 2 n must stay below 2^31 *)
Definition wf_np (n p : Z) : Prop := 0 < n /\ 0 < p /\ n * p <= 1073741824.

Lemma node_lt n p r : 0 < p -> 0 <= r < n * p -> 0 <= znode p r < n.
Proof.
  intros Hp Hr; unfold znode. split.
  - apply Z.div_pos; lia.
  - apply Z.div_lt_upper_bound; lia.
Qed.

Lemma loc_lt p r : 0 < p -> 0 <= zloc p r < p.
Proof. intros; unfold zloc; apply Z.mod_pos_bound; lia. Qed.

Lemma node_loc_eq p r : 0 < p -> r = znode p r * p + zloc p r.
Proof. intros; unfold znode, zloc. rewrite Z.mul_comm. apply Z.div_mod; lia. Qed.

Lemma node_of_nl p a l : 0 < p -> 0 <= l < p -> znode p (a * p + l) = a.
Proof. intros; unfold znode. rewrite Z.div_add_l by lia. rewrite Z.div_small by lia. lia. Qed.

Lemma loc_of_nl p a l : 0 < p -> 0 <= l < p -> zloc p (a * p + l) = l.
Proof. intros; unfold zloc. rewrite Z.add_comm, Z.mod_add by lia. apply Z.mod_small; lia. Qed.

Lemma nl_lt n p a l : 0 <= a < n -> 0 <= l < p -> 0 <= a * p + l < n * p.
Proof. intros; nia. Qed.

Lemma check_world_ok n p me r : 0 <= r <= n * p ->
  layout__check_world_rank1 (block_layout n p me) (Some r) = Some tt.
Proof.
  intros Hr. unfold layout__check_world_rank1, layout__check_rank3; cbn.
  destruct (Z.ltb_spec r 0); [lia|]. cbn.
  unfold Z.gtb. destruct (Z.compare_spec r (n * p)); try reflexivity; lia.
Qed.

Lemma node_id1_ok n p me r : wf_np n p -> 0 <= r < n * p ->
  layout_node_id1 (block_layout n p me) (Some r) = Some (znode p r).
Proof.
  intros (Hn & Hp & Hb) Hr.
  unfold layout_node_id1. rewrite check_world_ok by lia. cbn [obind ccast].
  rewrite cwrap_u64_ok by lia. cbn [m_rank_to_node block_layout].
  rewrite cvget_map_seq by lia. rewrite Z2Nat.id by lia. reflexivity.
Qed.

Lemma local_id1_ok n p me r : wf_np n p -> 0 <= r < n * p ->
  layout_local_id1 (block_layout n p me) (Some r) = Some (zloc p r).
Proof.
  intros (Hn & Hp & Hb) Hr.
  unfold layout_local_id1. rewrite check_world_ok by lia. cbn [obind ccast].
  rewrite cwrap_u64_ok by lia. cbn [m_rank_to_local block_layout].
  rewrite cvget_map_seq by lia. rewrite Z2Nat.id by lia. reflexivity.
Qed.

Lemma is_local1_ok n p me r : wf_np n p -> 0 <= r < n * p ->
  layout_is_local1 (block_layout n p me) (Some r) = Some (znode p me =? znode p r).
Proof.
  intros Hwf Hr. unfold layout_is_local1. rewrite check_world_ok by lia. cbn [obind].
  rewrite node_id1_ok by assumption. reflexivity.
Qed.

Lemma is_strided1_ok n p me r : wf_np n p -> 0 <= r < n * p ->
  layout_is_strided1 (block_layout n p me) (Some r) = Some (zloc p me =? zloc p r).
Proof.
  intros Hwf Hr. unfold layout_is_strided1. rewrite check_world_ok by lia. cbn [obind].
  rewrite local_id1_ok by assumption. reflexivity.
Qed.

Lemma strided_get n p me a : 0 <= a < n ->
  cvget (m_strided_ranks (block_layout n p me)) (Some a) = Some (a * p + zloc p me).
Proof.
  intros Ha. cbn [m_strided_ranks block_layout].
  rewrite cvget_map_seq by lia. rewrite Z2Nat.id by lia. reflexivity.
Qed.

Lemma local_get n p me l : 0 <= l < p ->
  cvget (m_local_ranks (block_layout n p me)) (Some l) = Some (znode p me * p + l).
Proof.
  intros Hl. cbn [m_local_ranks block_layout].
  rewrite cvget_map_seq by lia. rewrite Z2Nat.id by lia. reflexivity.
Qed.
