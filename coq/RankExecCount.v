(* RankExecCount.v — C01/C02, the counters count what the accounting is about:
     rcnt = nR hist = number of handlers completed;  #handlers started = completed + handler depth
     scnt = nS hist = number of originations (every send-count increment is immediately followed by its enqueue)
   so that "the sums of the counters balance" (what barrier() tests) is "as many handlers were started as messages were
   originated" (the hypothesis of GlobalOnce.counts_equal_means_nothing_pending). *)
From Coq Require Import ZArith List Bool Lia.
Import ListNotations.
From Ygm Require Import RankMachine RankCount RankAccount.
Local Open Scope Z_scope.

(* every GSend lies directly under the GEnq of the message it counts *)
Fixpoint wfS (h : list gev) : Prop :=
  match h with
  | [] => True
  | g :: t => (match t with GSend :: _ => (match g with GEnq _ _ => True | _ => False end) | _ => True end) /\ wfS t
  end.
Definition topS (h : list gev) : Prop := match h with GSend :: _ => False | _ => True end.

Definition dangling (h : list gev) : Z := match h with GSend :: _ => 1 | _ => 0 end.

(* the originations are the send-count increments, except one whose enqueue has not happened yet *)
Lemma og_counts_sends_gen h : wfS h -> Z.of_nat (length (og h)) + dangling h = nS h.
Proof.
  induction h as [|g t IH]; [reflexivity|]. intros (Hg & Ht). specialize (IH Ht).
  assert (Ht0 : (match g with GEnq _ _ => False | _ => True end) -> dangling t = 0).
  { intros Hne. destruct t as [|g2 t2]; [reflexivity|]. destruct g2; try reflexivity. destruct g; cbn in *; tauto. }
  destruct g; cbn [og nS dangling]; try (rewrite Ht0 in IH by exact I; lia).
  (* GEnq d m *)
  destruct t as [|g2 t2]; [cbn in *; lia|]. destruct g2; cbn [app length dangling] in *; try lia.
Qed.
Lemma og_counts_sends h : wfS h -> topS h -> Z.of_nat (length (og h)) = nS h.
Proof. intros H Ht. pose proof (og_counts_sends_gen h H) as E. destruct h as [|[] ?]; cbn in *; try contradiction; lia. Qed.

Definition EC (d : nat) (s : st) : Prop :=
  wfS (hist s) /\ topS (hist s) /\ Z.of_nat (length (X (hist s))) = nR (hist s) + Z.of_nat (depth s) /\ depth s = d.
(* a handler has finished, its receive count is not yet incremented *)
Definition EJ (d : nat) (s : st) : Prop :=
  wfS (hist s) /\ topS (hist s) /\ Z.of_nat (length (X (hist s))) = nR (hist s) + Z.of_nat (depth s) + 1 /\ depth s = d.

Lemma wfS_push g h : (match g with GSend => False | _ => True end) -> wfS h -> topS h -> wfS (g :: h) /\ topS (g :: h).
Proof. intros Hg Hw Ht. split; [|destruct g; cbn; tauto]. cbn [wfS]. split; [|exact Hw]. destruct h as [|[] ?]; cbn in *; tauto. Qed.

Section ExecCount.
  Variable c : cfg.

  Lemma EC_push g d s s' : (match g with GRecv | GSend | GExec _ => False | _ => True end) ->
    EC d s -> hist s' = g :: hist s -> depth s' = depth s -> EC d s'.
  Proof.
    intros Hg (W & T & E & D) Hh Hd. unfold EC. rewrite Hh, Hd.
    destruct (wfS_push g (hist s) ltac:(destruct g; tauto) W T) as (W' & T').
    split; [exact W'|]. split; [exact T'|]. split; [|exact D].
    destruct g; cbn [X nR length] in *; try contradiction; exact E.
  Qed.

  Lemma EC_ask e s r rest d :
    (match e with EIallreduce _ _ | NX _ _ _ => False | _ => True end) ->
    EC d s -> oracle s = r :: rest -> EC d (set_oracle rest (emit e s)).
  Proof.
    intros He H Eo. apply (EC_push (GResp r) d s); [exact I|exact H| |destruct e; reflexivity].
    cbn [hist set_oracle emit oracle]. rewrite Eo. cbn [hd]. destruct e; try contradiction; reflexivity.
  Qed.

  Lemma EC_enq x m d s : EC d s -> EC d (enqueue c x m s).
  Proof.
    intros H. apply (EC_push (GEnq x m) d s); [exact I|exact H| |]; unfold enqueue; destruct (buf_at s x); reflexivity.
  Qed.

  Lemma EC_enq_async x m v d s : EC d s -> EC d (enqueue c x m (set_scnt v s)).
  Proof.
    intros (W & T & E & D).
    assert (Hh : hist (enqueue c x m (set_scnt v s)) = GEnq x m :: GSend :: hist s) by (unfold enqueue; destruct (buf_at (set_scnt v s) x); reflexivity).
    assert (Hd : depth (enqueue c x m (set_scnt v s)) = depth s) by (unfold enqueue; destruct (buf_at (set_scnt v s) x); reflexivity).
    unfold EC. rewrite Hh, Hd. split; [|split; [exact I|split; [exact E|exact D]]].
    cbn [wfS]. split; [exact I|]. split; [|exact W]. destruct (hist s) as [|[] ?]; cbn in *; tauto.
  Qed.

  Lemma EC_exec_start u a b d s : EC d s -> EC (S d) (set_inmain false (set_depth (S (depth (emit (NX u a b) s))) (emit (NX u a b) s))).
  Proof.
    intros (W & T & E & D). unfold EC. cbn [hist depth set_inmain set_depth emit].
    destruct (wfS_push (GExec u) (hist s) I W T) as (W' & T'). split; [exact W'|]. split; [exact T'|].
    split; [cbn [X nR length]; rewrite Nat2Z.inj_succ; lia|congruence].
  Qed.

  Lemma EJ_recv d s : EJ d s -> EC d (set_rcnt (rcnt s + 1) s).
  Proof.
    intros (W & T & E & D). unfold EC. cbn [hist depth set_rcnt].
    destruct (wfS_push GRecv (hist s) I W T) as (W' & T'). split; [exact W'|]. split; [exact T'|].
    split; [cbn [X nR]; lia|exact D].
  Qed.

  Definition resC (P : st -> Prop) (r : res) : Prop := match r with Ok s' => P s' | _ => True end.
  Lemma resC_bind (P1 P2 : st -> Prop) r f : resC P1 r -> (forall s1, P1 s1 -> resC P2 (f s1)) -> resC P2 (r >>= f).
  Proof. destruct r; cbn; auto. Qed.

  Definition specE (fu : nat) (p : proc) (s : st) : Prop :=
    let R := run fu c p s in
    match p with
    | PExec m => forall d, EC d s -> resC (EJ d) R
    | _ => forall d, EC d s -> resC (EC d) R
    end.

  Theorem execcount_all : forall fu p s, specE fu p s.
  Proof.
    induction fu as [|fu IH]; [intros p s; destruct p; cbn; intros; exact I|].
    intros p s. destruct p; unfold specE; cbv zeta.
    - (* PActs *)
      intros dp Ha. destruct l as [|a rest]; cbn [run]; [exact Ha|].
      eapply resC_bind with (P1 := EC dp); [|intros s1 K1; exact (IH (PActs rest) s1 dp K1)].
      destruct a.
      + eapply resC_bind with (P1 := EC dp); [apply (IH (PAsync _) (emit (NO u) s) dp); exact Ha|].
        intros s1 K1. cbn. destruct (inmain s1); exact K1.
      + eapply resC_bind with (P1 := EC dp); [apply (IH PCheckHalt (emit (NO u) s) dp); exact Ha|].
        intros s1 K1. eapply resC_bind with (P1 := EC dp); [apply (IH (PAsync _) s1 dp K1)|]. intros s2 K2. exact K2.
      + eapply resC_bind with (P1 := EC dp); [apply (IH (PAsync _) (emit (NO u) s) dp); exact Ha|]. intros s1 K1. exact K1.
      + eapply resC_bind with (P1 := EC dp); [apply (IH (PBcast _) (emit (NO u) s) dp); exact Ha|]. intros s1 K1. exact K1.
      + eapply resC_bind with (P1 := EC dp); [apply (IH (PMcast _ _) (emit (NO u) s) dp); exact Ha|]. intros s1 K1. exact K1.
      + eapply resC_bind with (P1 := EC dp); [apply (IH PBarrier (emit (NBI (nbar s + 1)) (set_nbar (nbar s + 1) s)) dp); exact Ha|].
        intros s1 K1. exact K1.
      + unfold ask. cbn [oracle emit]. destruct (oracle s) as [|r rest0] eqn:Eo; [exact I|].
        pose proof (EC_ask ECfBarrier s r rest0 dp I Ha Eo) as K1. destruct r; try exact I. exact K1.
      + apply (IH PLocalProgress s dp Ha).
      + apply (IH (PWaitUntil f) s dp Ha).
      + exact Ha.
      + exact Ha.
      + destruct (masks s); exact Ha.
      + exact Ha.
      + exact Ha.
      + unfold ask. cbn [oracle emit]. destruct (oracle s) as [|r rest0] eqn:Eo; [exact I|].
        pose proof (EC_ask EColl s r rest0 dp I Ha Eo) as K1. destruct r; try exact I. exact K1.
    - (* PAsync *)
      intros dp Ha. cbn [run].
      eapply resC_bind with (P1 := EC dp).
      { destruct (hk m =? 1)%nat; [exact Ha|]. apply (IH PCheckHalt s dp Ha). }
      intros s1 K1.
      pose proof (EC_enq_async (next_hop c (mdest m)) m (scnt s1 + 1) dp s1 K1) as K3.
      apply (IH PFlushToCap _ dp K3).
    - (* PQueueBytes *)
      intros dp Ha. cbn [run]. exact (EC_enq_async d m (scnt s + 1) dp s Ha).
    - (* PBcast *)
      intros dp Ha. cbn [run].
      eapply resC_bind with (P1 := EC dp); [apply (IH PCheckHalt s dp Ha)|]. intros s1 K1.
      eapply resC_bind with (P1 := EC dp); [apply (IH (PQueueMany _ _) s1 dp K1)|]. intros s2 K2.
      apply (IH PFlushToCap s2 dp K2).
    - (* PMcast *)
      intros dp Ha. destruct ds as [|d ds]; cbn [run]; [exact Ha|].
      eapply resC_bind with (P1 := EC dp); [apply (IH (PAsync _) s dp Ha)|].
      intros s1 K1. apply (IH (PMcast ds m) s1 dp K1).
    - (* PCheckHalt *)
      intros dp Ha. cbn [run]. destruct (intr s && negb (inprq s) && (c_cap c <? pend s)); [|exact Ha].
      eapply resC_bind with (P1 := EC dp); [apply (IH PPrq s dp Ha)|]. intros s1 K1. apply (IH PCheckHalt s1 dp K1).
    - (* PFlushToCap *)
      intros dp Ha. cbn [run]. destruct (c_cap c <? sbb s); [|exact Ha].
      destruct (dq s) as [|d t]; [exact I|].
      eapply resC_bind with (P1 := EC dp); [apply (IH (PFlushBuf d) (set_dq t s) dp); exact Ha|].
      intros s1 K2. apply (IH PFlushToCap s1 dp K2).
    - (* PFlushBuf *)
      intros dp Ha. cbn [run]. destruct (buf_at s d) as [|m0 ms0]; [exact Ha|]. cbv zeta.
      match goal with |- resC _ (if inprq ?x then _ else _) => set (s3 := x) end.
      assert (K3 : EC dp s3) by (subst s3; destruct (0 <? c_freq c); exact Ha).
      destruct (inprq s3); [exact K3|apply (IH PPrq s3 dp K3)].
    - (* PPrq *)
      intros dp Ha. cbn [run]. destruct (inprq s); [exact I|].
      set (s0 := set_ret false (set_inprq true s)).
      assert (K0 : EC dp s0) by exact Ha.
      destruct (negb (intr s0)); [exact Ha|].
      eapply resC_bind with (P1 := EC dp).
      + destruct (c_nisw c <? Z.of_nat (length (sendq s0))).
        * unfold ask. cbn [oracle emit]. destruct (oracle s0) as [|r rest] eqn:Eo; [exact I|].
          pose proof (EC_ask EWaitSR s0 r rest dp I K0 Eo) as K1.
          destruct r; try exact I. 
          set (s1 := set_oracle rest (emit EWaitSR s0)) in *.
          set (s2 := if send_done then match sendq s1 with [] => s1 | z :: t => set_sendq t (set_pend (pend s1 - z) s1) end else s1).
          destruct data as [ms|].
          -- assert (K2 : EC dp (set_ret true s2)) by (subst s2; destruct send_done; [destruct (sendq s1)|]; exact K1).
             eapply resC_bind with (P1 := EC dp); [apply (IH (PHandle ms) (set_ret true s2) dp K2)|]. intros s3 K3. exact K3.
          -- assert (K2 : EC dp s2) by (subst s2; destruct send_done; [destruct (sendq s1)|]; exact K1). exact K2.
        * destruct (sendq s0) as [|z t]; [exact K0|].
          unfold ask. cbn [oracle emit]. destruct (oracle s0) as [|r rest] eqn:Eo; [exact I|].
          pose proof (EC_ask ETestSend s0 r rest dp I K0 Eo) as K1.
          destruct r; try exact I.  destruct flag; exact K1.
      + intros s4 K4.
        eapply resC_bind with (P1 := EC dp); [apply (IH PLocalIncoming (set_ret false s4) dp); exact K4|].
        intros s5 K5. exact K5.
    - (* PLocalIncoming *)
      intros dp Ha. cbn [run]. unfold ask. cbn [oracle emit]. destruct (oracle s) as [|r rest] eqn:Eo; [exact I|].
      pose proof (EC_ask ETestRecv s r rest dp I Ha Eo) as K1.
      destruct r; try exact I.  destruct data as [ms|]; [|exact K1].
      eapply resC_bind with (P1 := EC dp); [apply (IH (PHandle ms) _ dp K1)|]. intros s2 K2.
      eapply resC_bind with (P1 := EC dp); [apply (IH PLocalIncoming s2 dp K2)|]. intros s3 K3. exact K3.
    - (* PHandle *)
      intros dp Ha. cbn [run]. cbv zeta.
      eapply resC_bind with (P1 := EC dp); [apply (IH (PHandleLoop ms) (set_inprq true s) dp); exact Ha|].
      intros s1 K1. apply (IH PFlushToCap (emit EIrecv (set_inprq (inprq s) s1)) dp). exact K1.
    - (* PHandleLoop *)
      intros dp Ha. destruct ms as [|m rest]; cbn [run]; [exact Ha|]. 
      eapply resC_bind with (P1 := EC dp); [|intros s1 K1; exact (IH (PHandleLoop rest) s1 dp K1)].
      destruct ((c_routing c =? 0) || (mdest m =? c_me c) || (mdest m =? -1)) eqn:Ecl.
      + eapply resC_bind with (P1 := EJ dp); [apply (IH (PExec m) s dp Ha)|]. intros s1 K1.
        apply EJ_recv, K1.
      + apply (IH PFlushToCap _ dp). apply EC_enq. exact Ha.
    - (* PExec *)
      intros dp Ha. cbn [run]. cbv zeta.
      set (s1 := set_inmain false (set_depth _ (emit _ s))).
      assert (K1 : EC (S dp) s1) by (subst s1; apply EC_exec_start, Ha).
      eapply resC_bind with (P1 := EC (S dp)).
      + destruct (stage m) as [|[|[|?]]]; try exact K1.
        * apply (IH (PQueueMany _ _) s1 (S dp) K1).
        * apply (IH (PQueueMany _ _) s1 (S dp) K1).
      + intros s2 K2.
        eapply resC_bind with (P1 := EC (S dp)); [apply (IH (PActs (c_hprog c (uid m))) s2 (S dp) K2)|]. intros s3 K3.
        (* the handler is over: depth goes back, one more handler has started than has been counted as received *)
        destruct K3 as (W & T & E & D). unfold EJ. cbn [resC hist depth emit set_inmain set_depth].
        destruct Ha as (_ & _ & _ & Dd).
        split; [exact W|]. split; [exact T|]. split; [rewrite E, D, Dd; rewrite Nat2Z.inj_succ; lia|exact Dd].
    - (* PQueueMany *)
      intros dp Ha. destruct ds as [|d ds]; cbn [run]; [exact Ha|].
      eapply resC_bind with (P1 := EC dp); [apply (IH (PQueueBytes d m) s dp Ha)|]. intros s1 K1. apply (IH (PQueueMany ds m) s1 dp K1).
    - (* PLocalProgress *)
      intros dp Ha. cbn [run].
      eapply resC_bind with (P1 := EC dp); [destruct (inprq s); [exact Ha|apply (IH PPrq s dp Ha)]|].
      intros s1 K1. destruct (dq s1) as [|d t]; [exact K1|]. apply (IH (PFlushBuf d) (set_dq t s1) dp). exact K1.
    - (* PWaitUntil *)
      intros dp Ha. cbn [run]. destruct (has_flag s f); [exact Ha|].
      eapply resC_bind with (P1 := EC dp); [apply (IH PLocalProgress s dp Ha)|]. intros s1 K1. apply (IH (PWaitUntil f) s1 dp K1).
    - (* PFlushAll *)
      intros dp Ha. cbn [run].
      eapply resC_bind with (P1 := EC dp); [apply (IH PPrq s dp Ha)|]. intros s1 K1.
      eapply resC_bind with (P1 := EC dp); [apply (IH PFlushAllCbs s1 dp K1)|]. intros s2 K2.
      eapply resC_bind with (P1 := EC dp); [apply (IH PFlushAllDq s2 dp K2)|]. intros s3 K3.
      eapply resC_bind with (P1 := EC dp); [apply (IH PFlushAllSq s3 dp K3)|]. intros s4 K4.
      destruct (ret s4); [apply (IH PFlushAll s4 dp K4)|exact K4].
    - (* PFlushAllCbs *)
      intros dp Ha. cbn [run]. destruct (cbs s) as [|id t]; [exact Ha|]. cbv zeta.
      eapply resC_bind with (P1 := EC dp); [apply (IH (PActs (c_cbprog c id)) _ dp); exact Ha|].
      intros s1 K1. apply (IH PFlushAllCbs _ dp). exact K1.
    - (* PFlushAllDq *)
      intros dp Ha. cbn [run]. destruct (dq s) as [|d t]; [exact Ha|].
      eapply resC_bind with (P1 := EC dp); [apply (IH (PFlushBuf d) (set_dq t s) dp); exact Ha|]. intros s1 K2.
      eapply resC_bind with (P1 := EC dp); [apply (IH PPrq s1 dp K2)|]. intros s2 K3.
      apply (IH PFlushAllDq (set_ret true s2) dp). exact K3.
    - (* PFlushAllSq *)
      intros dp Ha. cbn [run]. destruct (sendq s) as [|z t]; [exact Ha|]. cbv zeta.
      eapply resC_bind with (P1 := EC dp); [apply (IH PPrq s dp Ha)|]. intros s1 K1.
      apply (IH PFlushAllSq (set_ret (ret s || ret s1) s1) dp). exact K1.
    - (* PBarrier *)
      intros dp Ha. cbn [run].
      eapply resC_bind with (P1 := EC dp); [apply (IH PFlushAll s dp Ha)|]. intros s1 K1.
      apply (IH PBarrierLoop (set_prev (1, 2) (set_cur (3, 4) s1)) dp).
      apply (EC_push (GRes (3, 4)) dp s1); [exact I|exact K1|reflexivity|reflexivity].
    - (* PBarrierLoop *)
      intros dp Ha. cbn [run]. destruct (cur s) as (c1, c2).
      destruct ((c1 =? c2) && (fst (prev s) =? c1) && (snd (prev s) =? c2)).
      + destruct (cbs s); [destruct (dq s)|]; try exact I. exact Ha.
      + eapply resC_bind with (P1 := EC dp); [apply (IH PReduceCounts (set_prev (c1, c2) s) dp); exact Ha|]. intros s1 K1.
        eapply resC_bind with (P1 := EC dp); [destruct (fst (cur s1) =? snd (cur s1)); [exact K1|apply (IH PFlushAll s1 dp K1)]|].
        intros s2 K2. apply (IH PBarrierLoop s2 dp K2).
    - (* PReduceCounts *)
      intros dp Ha. cbn [run]. destruct (negb ((pend s =? 0) && (sbb s =? 0))); [exact I|].
      apply (IH PReduceLoop (emit (EIallreduce (rcnt s) (scnt s)) (set_red_done false s)) dp).
      apply (EC_push (GSnap (rcnt s) (scnt s)) dp s); [exact I|exact Ha|reflexivity|reflexivity].
    - (* PReduceLoop *)
      intros dp Ha. cbn [run]. destruct (red_done s); [exact Ha|].
      unfold ask. cbn [oracle emit]. destruct (oracle s) as [|r rest] eqn:Eo; [exact I|].
      pose proof (EC_ask EWaitIR s r rest dp I Ha Eo) as K1.
      destruct r; try exact I. 
      set (s1 := set_oracle rest (emit EWaitIR s)) in *.
      eapply resC_bind with (P1 := EC dp); [|intros s3 K3; exact (IH PReduceLoop s3 dp K3)].
      destruct data as [ms|].
      + assert (K2 : EC dp (match result with Some v => set_red_done true (set_cur v s1) | None => s1 end)).
        { destruct result as [v|]; [|exact K1]. apply (EC_push (GRes v) dp s1); [exact I|exact K1|reflexivity|reflexivity]. }
        eapply resC_bind with (P1 := EC dp); [apply (IH (PHandle ms) _ dp K2)|]. intros s3 K3. apply (IH PFlushAll s3 dp K3).
      + destruct result as [v|]; [|exact K1]. apply (EC_push (GRes v) dp s1); [exact I|exact K1|reflexivity|reflexivity].
  Qed.
End ExecCount.

(* the whole life of a rank: when it has returned from its last barrier, its send counter is the number of messages it
   originated and its receive counter the number of handlers it started (all of them finished) *)
Theorem rank_counters_are_the_accounting c fuel nranks main orc s' :
  run_rank fuel c nranks main orc = Ok s' ->
  scnt s' = Z.of_nat (length (og (hist s'))) /\ rcnt s' = Z.of_nat (length (X (hist s'))).
Proof.
  intros Hrun.
  pose proof (rank_counts c fuel nranks main orc) as HC. rewrite Hrun in HC. destruct HC as (Cs & Cr & _).
  assert (E0 : EC 0 (init_st nranks orc)) by (unfold EC, init_st; cbn; repeat split; reflexivity).
  unfold run_rank in Hrun.
  pose proof (execcount_all c fuel (PActs main) (init_st nranks orc) 0%nat E0) as H1. cbv zeta in H1.
  destruct (run fuel c (PActs main) (init_st nranks orc)) as [s1| | |]; cbn [bind] in Hrun; try discriminate.
  pose proof (execcount_all c fuel PBarrier s1 0%nat H1) as H2. cbv zeta in H2. rewrite Hrun in H2.
  destruct H2 as (W & T & E & D). rewrite D in E. cbn in E.
  split; [rewrite Cs; symmetry; apply og_counts_sends; assumption|rewrite Cr; lia].
Qed.
