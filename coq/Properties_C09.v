(* Properties_C09.v — C09 (the tree of comm::all_reduce; the MPI reductions themselves are an oracle). *)
From Coq Require Import ZArith List Bool Lia.
Import ListNotations.
From Ygm Require Import Gen.CArith Gen.Gen_tree Tree.
Local Open Scope Z_scope.

Theorem C09_tree_indices_generated : forall size r, 0 <= r < 1073741823 ->
  tree_indices {| comm_size := size; comm_rank := r |} = Some (2 * r + 1, 2 * (r + 1), (r - 1) / 2 + (if r =? 0 then 0 else 0))
  \/ r = 0 /\ tree_indices {| comm_size := size; comm_rank := r |} = Some (1, 2, 0).
Proof. exact Gen_tree_correct. Qed.
Print Assumptions C09_tree_indices_generated.

Theorem C09_tree_is_spanning : forall r, 0 < r -> 0 <= parent r < r /\ (first_child (parent r) = r \/ second_child (parent r) = r).
Proof. exact tree_is_spanning. Qed.
Print Assumptions C09_tree_is_spanning.

Theorem C09_children_injective : forall r r',
  (first_child r = first_child r' -> r = r') /\ (second_child r = second_child r' -> r = r') /\ first_child r <> second_child r'.
Proof. exact children_injective. Qed.
Print Assumptions C09_children_injective.

Theorem C09_tree_no_deadlock : forall r, 0 <= r -> r < first_child r /\ r < second_child r /\ (0 < r -> parent r < r).
Proof. exact tree_no_deadlock. Qed.
Print Assumptions C09_tree_no_deadlock.
