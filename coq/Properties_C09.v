(* Properties_C09.v — C09 (the tree of comm::all_reduce; the MPI reductions themselves are an oracle). *)
From Coq Require Import ZArith List Bool Lia.
Import ListNotations.
From Ygm Require Import Gen.CArith Gen.Gen_tree Tree TreeFold.
Local Open Scope Z_scope.

Theorem C09_tree_indices_generated : forall size r, 0 <= r < 1073741823 ->
  tree_indices {| comm_size := size; comm_rank := r |} = Some (2 * r + 1, 2 * (r + 1), (r - 1) / 2 + (if r =? 0 then 0 else 0))
  \/ r = 0 /\ tree_indices {| comm_size := size; comm_rank := r |} = Some (1, 2, 0).
Proof. exact Gen_tree_correct. Qed.
Print Assumptions C09_tree_indices_generated.

Theorem C09_tree_is_spanning : forall r, 0 < r -> 0 <= parent r < r /\ (first_child (parent r) = r \/ second_child (parent r) = r).
Proof. exact tree_is_spanning. Qed.
Print Assumptions C09_tree_is_spanning.

Theorem C09_children_injective : forall r r',
  (first_child r = first_child r' -> r = r') /\ (second_child r = second_child r' -> r = r') /\ first_child r <> second_child r'.
Proof. exact children_injective. Qed.
Print Assumptions C09_children_injective.

Theorem C09_tree_no_deadlock : forall r, 0 <= r -> r < first_child r /\ r < second_child r /\ (0 < r -> parent r < r).
Proof. exact tree_no_deadlock. Qed.
Print Assumptions C09_tree_no_deadlock.


(* THE FOLD THEOREM.  For every communicator size and every associative and commutative merge, the value the tree
   reduction of comm::all_reduce(in, merge) delivers (rank 0's partial, which is then broadcast) equals the sequential
   fold of all ranks' inputs in rank order.  [tree_all_reduce] merges a rank's input with its first child's partial and
   then its second child's, exactly the order of the code (compared with the real library through a non-commutative
   merge on every run). *)
Theorem C09_tree_reduce_is_fold : forall (A : Type) (merge : A -> A -> A),
  (forall a b c, merge (merge a b) c = merge a (merge b c)) -> (forall a b, merge a b = merge b a) ->
  forall (input : Z -> A) size, 0 < size ->
  tree_all_reduce merge input size = fold_left merge (map input (map Z.of_nat (seq 1 (Z.to_nat size - 1)))) (input 0).
Proof. exact tree_reduce_is_fold. Qed.
Print Assumptions C09_tree_reduce_is_fold.

(* every rank contributes exactly once: the ranks merged into the root's partial are a permutation of 0 .. size-1 *)
Theorem C09_every_rank_contributes_once : forall size, 0 < size ->
  Permutation.Permutation (ranks (Z.to_nat size) size 0) (map Z.of_nat (seq 0 (Z.to_nat size))).
Proof. exact ranks_root_perm. Qed.
Print Assumptions C09_every_rank_contributes_once.
