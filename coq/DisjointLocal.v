(* DisjointLocal.v — C17, the tie of the protocol model to the code: what ONE visit does to the entry of the item it runs
   on and which visits it sends, as a function of that entry alone ([lexec]: exactly the information a handler of
   disjoint_set_impl.hpp has).  [exec_lexec]: whenever the guarded model [DisjointSet.exec] succeeds - always, under the
   pool invariant (DisjointProto.exec_ok) - it changes only that entry, to what [lexec] says, and sends what [lexec] says.
   The recorded visits of the real container (hook ds_visit: entry before / after every visitor, visitor arguments) are
   replayed against [lexec] by vm_compute: every post-entry must be the model's, and per epoch the multiset of visits
   executed must be the unions issued plus the visits the model says were sent ([epoch_ok]). *)
From Coq Require Import ZArith List Bool Lia.
Import ListNotations.
From Ygm Require Import DisjointSet.
Local Open Scope Z_scope.

Definition lexec (me : Z) (i : info) (v : visit) : info * list visit :=
  match v with
  | Walk cb _ child op oi orank =>
      let s0 := if child =? me then [] else [UpdParent child (iparent i)] in
      if (iparent i =? op) || (iparent i =? oi) then (i, s0)
      else if orank <? irank i then (i, s0 ++ [Walk cb op oi (iparent i) me (irank i)])
      else if irank i =? orank then
        if iparent i =? me then
          if me <? op then ({| irank := irank i; iparent := op |}, s0 ++ (match cb with Some _ => [] | None => [Resolve op me (irank i)] end))
          else (i, s0 ++ [Walk cb op oi (iparent i) me (irank i)])
        else (i, s0 ++ [Walk cb (iparent i) me op oi orank])
      else
        if iparent i =? me then ({| irank := irank i; iparent := op |}, s0)
        else (i, s0 ++ [Walk cb (iparent i) me op oi orank])
  | UpdParent _ np => ({| irank := irank i; iparent := np |}, [])
  | Resolve _ mitem mrank =>
      if mrank <? irank i then (i, [])
      else if iparent i =? me then ({| irank := mrank + 1; iparent := me |}, [])
      else (i, [UpdParent mitem (iparent i)])
  end.

(* the callback a visit fires (async_union_and_execute: where the walk attaches a root), from the entry alone *)
Definition lcb (me : Z) (i : info) (v : visit) : list (Z * Z) :=
  match v with
  | Walk (Some ab) _ child op oi orank =>
      if (iparent i =? op) || (iparent i =? oi) then []
      else if orank <? irank i then []
      else if irank i =? orank then (if iparent i =? me then (if me <? op then [ab] else []) else [])
      else (if iparent i =? me then [ab] else [])
  | _ => []
  end.

Definition target (v : visit) : Z := match v with Walk _ me _ _ _ _ | UpdParent me _ | Resolve me _ _ => me end.

Lemma guarded_set_shape t x p t' : guarded_set t x p = Some t' ->
  exists i, lookup t x = Some i /\ t' = update t x {| irank := irank i; iparent := p |}.
Proof.
  unfold guarded_set. destruct (lookup t x) as [i|]; [|discriminate]. destruct (lookup t p); [|discriminate].
  destruct (lexltb _ _ _ _); [|discriminate]. intros H. injection H as <-. exists i. split; reflexivity.
Qed.

Lemma info_eta i : {| irank := irank i; iparent := iparent i |} = i.
Proof. destruct i; reflexivity. Qed.

Theorem exec_lexec t v t' sends : exec t v = Some (t', sends) ->
  exists i, lookup (ensure t (target v)) (target v) = Some i /\
    sends = snd (lexec (target v) i v) /\
    lookup t' (target v) = Some (fst (lexec (target v) i v)) /\
    forall y, y <> target v -> lookup t' y = lookup (ensure t (target v)) y.
Proof.
  intros He. destruct v as [cb me child op oi orank|me np|me mitem mrank]; cbn [exec target] in *.
  - set (t1 := ensure t me) in *. destruct (lookup t1 me) as [i|] eqn:Hi; [|discriminate]. exists i. split; [reflexivity|].
    cbn [lexec].
    assert (G : forall t3, guarded_set t1 me op = Some t3 ->
              lookup t3 me = Some {| irank := irank i; iparent := op |} /\ forall y, y <> me -> lookup t3 y = lookup t1 y).
    { intros t3 H. destruct (guarded_set_shape _ _ _ _ H) as (i' & Hi' & ->). rewrite Hi in Hi'. injection Hi' as <-.
      split; [apply lookup_update_eq|intros y Hy; apply lookup_update_neq; congruence]. }
    destruct ((iparent i =? op) || (iparent i =? oi)); [injection He as <- <-; repeat split; auto|].
    destruct (orank <? irank i); [injection He as <- <-; repeat split; auto|].
    destruct (irank i =? orank).
    + destruct (iparent i =? me).
      * destruct (me <? op).
        -- destruct (guarded_set t1 me op) as [t3|] eqn:E; [|discriminate]. injection He as <- <-.
           destruct (G t3 eq_refl) as (A & B). repeat split; auto.
        -- injection He as <- <-; repeat split; auto.
      * injection He as <- <-; repeat split; auto.
    + destruct (iparent i =? me).
      * destruct (guarded_set t1 me op) as [t3|] eqn:E; [|discriminate]. injection He as <- <-.
        destruct (G t3 eq_refl) as (A & B). repeat split; auto.
      * injection He as <- <-; repeat split; auto.
  - set (t1 := ensure t me) in *. destruct (lookup t1 me) as [i|] eqn:Hi; [|discriminate]. exists i. split; [reflexivity|]. cbn [lexec fst snd].
    destruct (Z.eqb_spec (iparent i) np) as [E|E].
    + injection He as <- <-. split; [reflexivity|]. split; [|auto]. rewrite Hi. f_equal. rewrite <- E. symmetry. apply info_eta.
    + destruct (guarded_set t1 me np) as [t3|] eqn:G; [|discriminate]. injection He as <- <-.
      destruct (guarded_set_shape _ _ _ _ G) as (i' & Hi' & ->). rewrite Hi in Hi'. injection Hi' as <-.
      split; [reflexivity|]. split; [apply lookup_update_eq|intros y Hy; apply lookup_update_neq; congruence].
  - set (t1 := ensure t me) in *. destruct (lookup t1 me) as [i|] eqn:Hi; [|discriminate]. exists i. split; [reflexivity|]. cbn [lexec].
    destruct (irank i <? mrank); [discriminate|].
    destruct (mrank <? irank i); [injection He as <- <-; repeat split; auto|].
    destruct (iparent i =? me).
    + injection He as <- <-. split; [reflexivity|]. split; [apply lookup_update_eq|intros y Hy; apply lookup_update_neq; congruence].
    + injection He as <- <-; repeat split; auto.
Qed.

(* ---- replay of recorded visits ------------------------------------------------------------------------------------ *)
(* one recorded visit: the entry before (rank, parent), the visit, the entry after *)
Definition rec := (Z * Z * visit * Z * Z)%type.

Definition visit_eqb (a b : visit) : bool :=
  match a, b with
  | Walk b m c o oi r, Walk b' m' c' o' oi' r' => (match b, b' with None, None => true | Some (x, y), Some (x', y') => (x =? x') && (y =? y') | _, _ => false end) && (m =? m') && (c =? c') && (o =? o') && (oi =? oi') && (r =? r')
  | UpdParent m p, UpdParent m' p' => (m =? m') && (p =? p')
  | Resolve m x r, Resolve m' x' r' => (m =? m') && (x =? x') && (r =? r')
  | _, _ => false
  end.

Definition rec_ok (r : rec) : bool :=
  let '(rk, par, v, rk', par') := r in
  let i' := fst (lexec (target v) {| irank := rk; iparent := par |} v) in
  (irank i' =? rk') && (iparent i' =? par').
Definition rec_sends (r : rec) : list visit :=
  let '(rk, par, v, _, _) := r in snd (lexec (target v) {| irank := rk; iparent := par |} v).
Definition rec_cbs (r : rec) : list (Z * Z) :=
  let '(rk, par, v, _, _) := r in lcb (target v) {| irank := rk; iparent := par |} v.
Definition pair_eqb (a b : Z * Z) : bool := (fst a =? fst b) && (snd a =? snd b).
Definition same_pairs (a b : list (Z * Z)) : bool :=
  Nat.eqb (length a) (length b) && forallb (fun v => Nat.eqb (length (filter (pair_eqb v) a)) (length (filter (pair_eqb v) b))) a.

Definition count (v : visit) (l : list visit) : nat := length (filter (visit_eqb v) l).
(* same multiset: every element of either list occurs equally often in both *)
Definition same_multiset (a b : list visit) : bool :=
  Nat.eqb (length a) (length b) && forallb (fun v => Nat.eqb (count v a) (count v b)) a.

Fixpoint first_bad (i : nat) (l : list rec) : option nat :=
  match l with [] => None | r :: t => if rec_ok r then first_bad (S i) t else Some i end.

(* an epoch: the unions issued (as initial walks) and the recorded visits *)
(* also: the callbacks the implementation reported in the epoch are the ones the model fires *)
Definition epoch_ok (issued : list (bool * (Z * Z))) (recs : list rec) (cbs : list (Z * Z)) : option nat * bool * bool :=
  (first_bad 0 recs, same_multiset (map (fun r => let '(_, _, v, _, _) := r in v) recs) (unionsb issued ++ flat_map rec_sends recs),
   same_pairs cbs (flat_map rec_cbs recs)).

Example epoch_ok_example :
  epoch_ok [(false, (1, 2))] [(0, 1, Walk None 1 1 2 2 (-1), 0, 1); (0, 2, Walk None 2 2 1 1 0, 0, 2); (0, 1, Walk None 1 1 2 2 0, 0, 2); (0, 2, Resolve 2 1 0, 1, 2)] []
  = (None, true, true) /\
  epoch_ok [(true, (1, 2))] [(0, 1, Walk (Some (1, 2)) 1 1 2 2 (-1), 0, 1); (0, 2, Walk (Some (1, 2)) 2 2 1 1 0, 0, 2); (0, 1, Walk (Some (1, 2)) 1 1 2 2 0, 0, 2)] [(1, 2)]
  = (None, true, true).
Proof. vm_compute. split; reflexivity. Qed.
