(* Properties_C16.v — C16: the reducing adapter folds every contributed value exactly once. *)
From Coq Require Import ZArith List Bool Lia.
Import ListNotations.
From Ygm Require Import ContainerModel Cache.
Local Open Scope Z_scope.

(* the adapter's cache on every rank (origin and intermediate hops alike run cache_reduce) conserves, per
   key, sent + cached = contributed, for every re-entry *)
Theorem C16_cache_contribute_conserves : forall n k kv re c, wellplaced n c ->
  total_for n k (contribute n kv re c) =
  total_for n k c + contrib_of k kv +
  (match slots c (slot_of n (fst kv)) with Some (k', _) => if k' =? fst kv then 0 else contribs_of k re | None => 0 end)
  /\ wellplaced n (contribute n kv re c).
Proof. exact contribute_conserves. Qed.
Print Assumptions C16_cache_contribute_conserves.

Theorem C16_cache_flush_conserves : forall n k s re c, wellplaced n c ->
  total_for n k (flush_slot n s re c) = total_for n k c + (match slots c s with Some _ => contribs_of k re | None => 0 end)
  /\ wellplaced n (flush_slot n s re c).
Proof. exact flush_slot_conserves. Qed.
Print Assumptions C16_cache_flush_conserves.

Theorem C16_flush_slot_empties : forall n s c, slots (flush_slot n s [] c) s = None.
Proof. exact flush_slot_empties. Qed.
Print Assumptions C16_flush_slot_empties.

(* at the owner the container folds the partials with the previous value *)
Theorem C16_reduce_folds : forall dflt vsl x t, fst (crun dflt (map RA vsl) (x :: t)) = (x + sumZ vsl) :: t.
Proof. exact reduce_folds. Qed.
Print Assumptions C16_reduce_folds.

Theorem C16_pinned_order_refuted :
  exists n kv re c k,
    total_for n k (contribute_pinned n kv re c) <> total_for n k c + contrib_of k kv + contribs_of k re.
Proof. exact pinned_order_loses. Qed.
Print Assumptions C16_pinned_order_refuted.
