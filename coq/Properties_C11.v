(* Properties_C11.v — C11: map / multimap contents equal a sequential application of all operations. *)
From Coq Require Import ZArith List Bool Lia.
Import ListNotations.
From Ygm Require Import ContainerModel.
Local Open Scope Z_scope.

(* For any key type, owner function and execution order: the owner-partitioned implementation (every
   handler runs on owner(key), atomically) equals the sequential application of the same operations in
   that order on one global container; every rank stores only keys it owns. *)
Theorem C11_refines_sequential : forall (K : Type) (keq : forall a b : K, {a = b} + {a <> b}) (owner : K -> nat) (dflt : Z)
  (ops : list (K * cop)) (L : lstate K), owned K owner L ->
  (forall k, abs K owner (fold_left (fun L ko => lstep K keq owner dflt ko L) ops L) k
             = fold_left (fun g ko => gstep K keq dflt ko g) ops (abs K owner L) k)
  /\ owned K owner (fold_left (fun L ko => lstep K keq owner dflt ko L) ops L).
Proof. exact refines_sequential. Qed.
Print Assumptions C11_refines_sequential.

(* operations on different keys commute: a key's contents depend only on the operations on that key,
   in their relative order *)
Theorem C11_per_key_projection : forall (K : Type) (keq : forall a b : K, {a = b} + {a <> b}) (dflt : Z) ops (g : gstate K) k,
  fold_left (fun g ko => gstep K keq dflt ko g) ops g k
  = fst (crun dflt (map snd (filter (fun ko => if keq (fst ko) k then true else false) ops)) (g k)).
Proof. exact per_key_projection. Qed.
Print Assumptions C11_per_key_projection.

(* the clauses of the property on the sequential specification *)
Theorem C11_insert_overwrites : forall dflt v vs, exists t, fst (cstep dflt (MI v) vs) = v :: t.
Proof. exact insert_overwrites. Qed.
Theorem C11_insert_if_missing_keeps : forall dflt v x t, fst (cstep dflt (MIM v) (x :: t)) = x :: t.
Proof. exact insert_if_missing_keeps. Qed.
Theorem C11_visit_creates_default_and_calls_once_per_value : forall dflt id c vs,
  cstep dflt (MV id c) vs =
  (visit3 c (match vs with [] => [dflt] | _ => vs end), [(id, Z.of_nat (length (match vs with [] => [dflt] | _ => vs end)))]).
Proof. exact visit_creates_default_and_calls_once_per_value. Qed.
Theorem C11_visit_if_exists_never_creates : forall dflt id c, cstep dflt (MVE id c) [] = ([], []).
Proof. exact visit_if_exists_never_creates. Qed.
Theorem C11_erase_removes_all : forall dflt vs, fst (cstep dflt XE vs) = [] /\ fst (cstep dflt ME vs) = [].
Proof. exact erase_removes_all. Qed.
Theorem C11_multimap_insert_adds : forall dflt v vs, fst (cstep dflt (XI v) vs) = vs ++ [v].
Proof. exact multimap_insert_adds. Qed.
Theorem C11_reduce_folds : forall dflt vsl x t, fst (crun dflt (map RA vsl) (x :: t)) = (x + sumZ vsl) :: t.
Proof. exact reduce_folds. Qed.
Print Assumptions C11_insert_overwrites.
Print Assumptions C11_insert_if_missing_keeps.
Print Assumptions C11_visit_creates_default_and_calls_once_per_value.
Print Assumptions C11_visit_if_exists_never_creates.
Print Assumptions C11_erase_removes_all.
Print Assumptions C11_multimap_insert_adds.
Print Assumptions C11_reduce_folds.
