(* Wire.v — C06: the byte format of YGM messages.

   [encode]/[decode] model cereal's binary archive as specialised by
   ygm_cereal_archive.hpp (YGMOutputArchive / YGMInputArchive): arithmetic types are
   their raw little-endian bytes; strings and every sequence (vector, map, set,
   vector<bool>) start with an 8-byte size tag; pairs, tuples and user types with
   serialize() are the concatenation of their members; JSON values (cereal_boost_json.hpp)
   carry a one-byte kind tag.  [pack]/[parse_buffer] model the framing of comm.ipp:
   [header]? lambda-id functor-bytes argument-tuple, and the receive loop of
   handle_next_receive which executes a message or copies message_size bytes for
   forwarding.

   The format facts were read off the real archive (DESIGN §5 C06) and are re-checked on
   every run: the harness dumps the bytes the real archive produces for generated values
   and Coq evaluates [encode]/[decode] on the same values. *)
From Coq Require Import ZArith List Bool Lia.
Import ListNotations.
Local Open Scope Z_scope.

(* ---- little-endian integers ------------------------------------------------ *)
Fixpoint le_bytes (w : nat) (n : Z) : list Z :=
  match w with O => [] | S w' => (n mod 256) :: le_bytes w' (n / 256) end.
Fixpoint le_val (bs : list Z) : Z :=
  match bs with [] => 0 | b :: t => b + 256 * le_val t end.

Lemma le_bytes_length w n : length (le_bytes w n) = w.
Proof. revert n; induction w as [|w IH]; intros n; cbn; [reflexivity|]. now rewrite IH. Qed.

Lemma le_roundtrip w : forall n, 0 <= n < 256 ^ Z.of_nat w -> le_val (le_bytes w n) = n.
Proof.
  induction w as [|w IH]; intros n Hn.
  - cbn in *. lia.
  - cbn [le_bytes le_val]. rewrite IH.
    + pose proof (Z.div_mod n 256 ltac:(lia)). lia.
    + rewrite Nat2Z.inj_succ, Z.pow_succ_r in Hn by lia.
      split; [apply Z.div_pos; lia | apply Z.div_lt_upper_bound; lia].
Qed.

Lemma firstn_app_exact {A} (a b : list A) n : length a = n -> firstn n (a ++ b) = a.
Proof. intros <-. rewrite firstn_app, Nat.sub_diag, firstn_all. cbn. now rewrite app_nil_r. Qed.
Lemma skipn_app_exact {A} (a b : list A) n : length a = n -> skipn n (a ++ b) = b.
Proof. intros <-. rewrite skipn_app, Nat.sub_diag, skipn_all. reflexivity. Qed.

(* ---- values and shapes ------------------------------------------------------ *)
Inductive shape := SInt (w : nat) | SStr | SVec (s : shape) | STup (ss : slist)
with slist := SNil | SCons (s : shape) (t : slist).

Inductive value := VInt (n : Z) | VStr (bs : list Z) | VList (l : vlist)
with vlist := VNil | VCons (v : value) (t : vlist).

Scheme value_mut := Induction for value Sort Prop
  with vlist_mut := Induction for vlist Sort Prop.

Fixpoint vlen (l : vlist) : nat := match l with VNil => O | VCons _ t => S (vlen t) end.

Definition take (n : nat) (bs : list Z) : option (list Z * list Z) :=
  if Nat.leb n (length bs) then Some (firstn n bs, skipn n bs) else None.

Fixpoint encode (s : shape) (v : value) : list Z :=
  match s, v with
  | SInt w, VInt n => le_bytes w n
  | SStr, VStr bs => le_bytes 8 (Z.of_nat (length bs)) ++ bs
  | SVec s', VList l => le_bytes 8 (Z.of_nat (vlen l)) ++ encode_all s' l
  | STup ss, VList l => encode_tup ss l
  | _, _ => []
  end
with encode_all (s : shape) (l : vlist) : list Z :=
  match l with VNil => [] | VCons v t => encode s v ++ encode_all s t end
with encode_tup (ss : slist) (l : vlist) : list Z :=
  match ss, l with SCons s st, VCons v t => encode s v ++ encode_tup st t | _, _ => [] end.

Fixpoint decode (s : shape) (bs : list Z) {struct s} : option (value * list Z) :=
  match s with
  | SInt w => match take w bs with Some (a, r) => Some (VInt (le_val a), r) | None => None end
  | SStr =>
      match take 8 bs with
      | Some (a, r) => match take (Z.to_nat (le_val a)) r with Some (b, r') => Some (VStr b, r') | None => None end
      | None => None
      end
  | SVec s' =>
      match take 8 bs with
      | Some (a, r) =>
          match (fix dec_n (n : nat) (bs : list Z) : option (vlist * list Z) :=
             match n with
             | O => Some (VNil, bs)
             | S n' => match decode s' bs with
                       | Some (v, r1) => match dec_n n' r1 with Some (t, r2) => Some (VCons v t, r2) | None => None end
                       | None => None end
             end) (Z.to_nat (le_val a)) r with
          | Some (l, r') => Some (VList l, r')
          | None => None
          end
      | None => None
      end
  | STup ss =>
      match decode_tup ss bs with Some (l, r) => Some (VList l, r) | None => None end
  end
with decode_tup (ss : slist) (bs : list Z) {struct ss} : option (vlist * list Z) :=
  match ss with
  | SNil => Some (VNil, bs)
  | SCons s st =>
      match decode s bs with
      | Some (v, r1) => match decode_tup st r1 with Some (t, r2) => Some (VCons v t, r2) | None => None end
      | None => None
      end
  end.

(* the element loop of SVec, named *)
Fixpoint decode_n (s : shape) (n : nat) (bs : list Z) : option (vlist * list Z) :=
  match n with
  | O => Some (VNil, bs)
  | S n' => match decode s bs with
            | Some (v, r1) => match decode_n s n' r1 with Some (t, r2) => Some (VCons v t, r2) | None => None end
            | None => None end
  end.

Lemma decode_vec_eq s bs :
  decode (SVec s) bs =
  match take 8 bs with
  | Some (a, r) => match decode_n s (Z.to_nat (le_val a)) r with Some (l, r') => Some (VList l, r') | None => None end
  | None => None
  end.
Proof.
  cbn [decode]. destruct (take 8 bs) as [(a, r)|]; [|reflexivity].
  generalize (Z.to_nat (le_val a)). intros n. revert r.
  induction n as [|n IH]; intros r; cbn; [reflexivity|].
  destruct (decode s r) as [(v, r1)|]; [|reflexivity].
  specialize (IH r1).
  destruct ((fix dec_n (n0 : nat) (bs0 : list Z) {struct n0} : option (vlist * list Z) := _) n r1) as [(t, r2)|] eqn:E1;
    destruct (decode_n s n r1) as [(t', r2')|] eqn:E2; cbn in *; try congruence; try discriminate; reflexivity.
Qed.

(* well-shaped values: what a C++ value of the corresponding type can be *)
Inductive has_shape : value -> shape -> Prop :=
| hs_int w n : 0 <= n < 256 ^ Z.of_nat w -> has_shape (VInt n) (SInt w)
| hs_str bs : Z.of_nat (length bs) < 256 ^ 8 -> has_shape (VStr bs) SStr
| hs_vec s l : Z.of_nat (vlen l) < 256 ^ 8 -> all_shape l s -> has_shape (VList l) (SVec s)
| hs_tup ss l : tup_shape l ss -> has_shape (VList l) (STup ss)
with all_shape : vlist -> shape -> Prop :=
| as_nil s : all_shape VNil s
| as_cons v t s : has_shape v s -> all_shape t s -> all_shape (VCons v t) s
with tup_shape : vlist -> slist -> Prop :=
| ts_nil : tup_shape VNil SNil
| ts_cons v t s st : has_shape v s -> tup_shape t st -> tup_shape (VCons v t) (SCons s st).

Lemma take_app a r n : length a = n -> take n (a ++ r) = Some (a, r).
Proof.
  intros H. unfold take. rewrite app_length. destruct (Nat.leb_spec n (length a + length r)); [|lia].
  now rewrite firstn_app_exact, skipn_app_exact.
Qed.

(* decoding what was encoded returns the value and consumes exactly its bytes, whatever follows *)
Theorem decode_encode_prefix : forall v s rest, has_shape v s -> decode s (encode s v ++ rest) = Some (v, rest).
Proof.
  apply (value_mut
    (fun v => forall s rest, has_shape v s -> decode s (encode s v ++ rest) = Some (v, rest))
    (fun l => (forall s rest, all_shape l s -> decode_n s (vlen l) (encode_all s l ++ rest) = Some (l, rest)) /\
              (forall ss rest, tup_shape l ss -> decode_tup ss (encode_tup ss l ++ rest) = Some (l, rest)))).
  - intros n s rest H. inversion H; subst. cbn [encode decode].
    rewrite take_app by apply le_bytes_length. now rewrite le_roundtrip.
  - intros bs s rest H. inversion H; subst. cbn [encode decode]. rewrite <- app_assoc.
    rewrite take_app by apply le_bytes_length. rewrite le_roundtrip by (split; [lia|assumption]).
    rewrite Nat2Z.id. now rewrite take_app.
  - intros l (IHa & IHt) s rest H. inversion H; subst.
    + rewrite decode_vec_eq. cbn [encode]. rewrite <- app_assoc.
      rewrite take_app by apply le_bytes_length. rewrite le_roundtrip by (split; [lia|assumption]).
      rewrite Nat2Z.id. now rewrite IHa.
    + cbn [encode decode]. now rewrite IHt.
  - split; intros s rest H.
    + reflexivity.
    + inversion H; subst. reflexivity.
  - intros v IHv t (IHa & IHt). split.
    + intros s rest H. inversion H; subst. cbn [vlen encode_all decode_n]. rewrite <- app_assoc.
      rewrite IHv by assumption. now rewrite IHa.
    + intros ss rest H. inversion H; subst. cbn [encode_tup decode_tup]. rewrite <- app_assoc.
      rewrite IHv by assumption. now rewrite IHt.
Qed.

(* ---- framing ------------------------------------------------------------------ *)
Record wmsg := {
  w_dest : Z;              (* final destination, -1 for a broadcast leg *)
  w_lid : Z;               (* lambda id *)
  w_functor : list Z;      (* the functor's bytes (sizeof(Lambda) of them; none for an empty lambda) *)
  w_shape : shape;         (* the argument tuple's type *)
  w_args : value
}.

Definition body (m : wmsg) : list Z := le_bytes 2 (w_lid m) ++ w_functor m ++ encode (w_shape m) (w_args m).
(* async(): header (message size back-patched, destination), then the body;
   queue_message_bytes(): the dummy header (size 0, dest -1) *)
Definition header (m : wmsg) : list Z :=
  le_bytes 4 (if w_dest m =? -1 then 0 else Z.of_nat (length (body m))) ++ le_bytes 4 ((w_dest m + 2 ^ 32) mod 2 ^ 32).
Definition pack (routed : bool) (m : wmsg) : list Z := (if routed then header m else []) ++ body m.

(* what the receive loop does with one message *)
Inductive rx := RxExec (lid : Z) (functor : list Z) (args : value) | RxForward (dest : Z) (bytes : list Z).

(* the handler table: lambda id -> (functor width, argument shape) *)
Definition table := Z -> option (nat * shape).

Fixpoint parse_buffer (fuel : nat) (routed : bool) (me : Z) (T : table) (bs : list Z) : option (list rx) :=
  match bs with
  | [] => Some []
  | _ =>
    match fuel with
    | O => None
    | S f =>
      let exec (bs : list Z) :=
        match take 2 bs with
        | Some (l, r) =>
            match T (le_val l) with
            | Some (fw, sh) =>
                match take fw r with
                | Some (fb, r1) =>
                    match decode sh r1 with
                    | Some (v, r2) => match parse_buffer f routed me T r2 with Some t => Some (RxExec (le_val l) fb v :: t) | None => None end
                    | None => None end
                | None => None end
            | None => None end
        | None => None end in
      if routed then
        match take 4 bs with
        | Some (sz, r0) =>
            match take 4 r0 with
            | Some (d, r) =>
                let dest := if le_val d <? 2 ^ 31 then le_val d else le_val d - 2 ^ 32 in
                if (dest =? me) || ((dest =? -1) && (le_val sz =? 0)) then exec r
                else match take (Z.to_nat (le_val sz)) r with
                     | Some (b, r') => match parse_buffer f routed me T r' with Some t => Some (RxForward dest b :: t) | None => None end
                     | None => None end
            | None => None end
        | None => None end
      else exec bs
    end
  end.

Definition wf_msg (T : table) (m : wmsg) : Prop :=
  T (w_lid m) = Some (length (w_functor m), w_shape m) /\ has_shape (w_args m) (w_shape m) /\
  0 <= w_lid m < 256 ^ 2 /\ -1 <= w_dest m < 2 ^ 31 /\ Z.of_nat (length (body m)) < 256 ^ 4 /\
  (w_dest m = -1 \/ 0 < Z.of_nat (length (body m))).

Definition classify (routed : bool) (me : Z) (m : wmsg) : rx :=
  if negb routed || (w_dest m =? me) || (w_dest m =? -1) then RxExec (w_lid m) (w_functor m) (w_args m)
  else RxForward (w_dest m) (body m).

Lemma body_nonempty m : body m <> [].
Proof. unfold body. cbn. discriminate. Qed.

(* Consecutive messages packed into one buffer never read each other's bytes: the receive loop yields,
   message by message, exactly that message's functor bytes and arguments (or exactly its body for
   forwarding), for every position in the buffer. *)
Theorem parse_buffer_concat routed me T : 0 <= me < 2 ^ 31 -> forall ms fuel,
  Forall (wf_msg T) ms -> (length ms < fuel)%nat ->
  parse_buffer fuel routed me T (concat (map (pack routed) ms)) = Some (map (classify routed me) ms).
Proof.
  intros Hme ms. induction ms as [|m ms IH]; intros fuel Hwf Hf.
  - destruct fuel; reflexivity.
  - destruct fuel as [|fuel]; [cbn in Hf; lia|].
    inversion Hwf as [|? ? (HT & Hs & Hl & Hd & Hb & Hnz) Hrest]; subst.
    cbn [map concat].
    assert (Hexec : forall tail,
      (match take 2 (body m ++ tail) with
       | Some (l, r) =>
           match T (le_val l) with
           | Some (fw, sh) =>
               match take fw r with
               | Some (fb, r1) =>
                   match decode sh r1 with
                   | Some (v, r2) => match parse_buffer fuel routed me T r2 with Some t => Some (RxExec (le_val l) fb v :: t) | None => None end
                   | None => None end
               | None => None end
           | None => None end
       | None => None end)
      = match parse_buffer fuel routed me T tail with Some t => Some (RxExec (w_lid m) (w_functor m) (w_args m) :: t) | None => None end).
    { intros tail. unfold body. rewrite <- !app_assoc.
      rewrite take_app by apply le_bytes_length. rewrite le_roundtrip by exact Hl. rewrite HT.
      rewrite take_app by reflexivity. rewrite decode_encode_prefix by exact Hs. reflexivity. }
    destruct routed.
    + (* routed: header first *)
      unfold pack at 1. unfold header. rewrite <- !app_assoc.
      remember (concat (map (pack true) ms)) as tail.
      cbn [parse_buffer].
      destruct (le_bytes 4 (if w_dest m =? -1 then 0 else Z.of_nat (length (body m))) ++
                le_bytes 4 ((w_dest m + 2 ^ 32) mod 2 ^ 32) ++ body m ++ tail) eqn:Ebs.
      { apply (f_equal (@length _)) in Ebs. rewrite app_length, le_bytes_length in Ebs. cbn in Ebs. lia. }
      rewrite <- Ebs. clear Ebs.
      rewrite take_app by apply le_bytes_length. rewrite take_app by apply le_bytes_length.
      assert (Hsz : le_val (le_bytes 4 (if w_dest m =? -1 then 0 else Z.of_nat (length (body m))))
                    = (if w_dest m =? -1 then 0 else Z.of_nat (length (body m)))).
      { apply le_roundtrip. destruct (w_dest m =? -1); lia. }
      assert (Hdm : 0 <= (w_dest m + 2 ^ 32) mod 2 ^ 32 < 256 ^ Z.of_nat 4) by (apply Z.mod_pos_bound; lia).
      rewrite (le_roundtrip 4 _ Hdm), Hsz.
      assert (Hdest : (if (w_dest m + 2 ^ 32) mod 2 ^ 32 <? 2 ^ 31 then (w_dest m + 2 ^ 32) mod 2 ^ 32 else (w_dest m + 2 ^ 32) mod 2 ^ 32 - 2 ^ 32) = w_dest m).
      { destruct (Z.eq_dec (w_dest m) (-1)) as [E|E].
        - rewrite E. reflexivity.
        - assert (0 <= w_dest m) by lia.
          replace ((w_dest m + 2 ^ 32) mod 2 ^ 32) with (w_dest m).
          + destruct (Z.ltb_spec (w_dest m) (2 ^ 31)); lia.
          + rewrite Z.add_mod, Z.mod_same, Z.add_0_r, Z.mod_mod by lia. symmetry. apply Z.mod_small. lia. }
      rewrite Hdest. unfold classify. cbn [negb orb].
      destruct (Z.eqb_spec (w_dest m) me) as [Em|Em]; cbn [orb].
      * rewrite Hexec. subst tail. rewrite IH by (try assumption; cbn in Hf; lia). reflexivity.
      * destruct (Z.eqb_spec (w_dest m) (-1)) as [E1|E1]; cbn [andb orb].
        -- rewrite Z.eqb_refl. rewrite Hexec. subst tail. rewrite IH by (try assumption; cbn in Hf; lia). reflexivity.
        -- rewrite Nat2Z.id. rewrite take_app by reflexivity.
           subst tail. rewrite IH by (try assumption; cbn in Hf; lia). reflexivity.
    + unfold pack at 1. cbn [app]. remember (concat (map (pack false) ms)) as tail.
      cbn [parse_buffer].
      destruct (body m ++ tail) eqn:Ebs.
      { destruct (body m) eqn:Eb; [exfalso; eapply body_nonempty; exact Eb | discriminate]. }
      rewrite <- Ebs. rewrite Hexec. subst tail. rewrite IH by (try assumption; cbn in Hf; lia). reflexivity.
Qed.

(* forwarding re-buffers exactly pack of the same message (handle_next_receive re-creates the header from
   h.dest and h.message_size and copies message_size bytes): the next hop parses the original message *)
Theorem forward_preserves m : w_dest m <> -1 ->
  le_bytes 4 (Z.of_nat (length (body m))) ++ le_bytes 4 ((w_dest m + 2 ^ 32) mod 2 ^ 32) ++ body m = pack true m.
Proof.
  intros H. unfold pack, header. destruct (Z.eqb_spec (w_dest m) (-1)); [congruence|]. now rewrite <- app_assoc.
Qed.

(* ---- JSON values (cereal_boost_json.hpp): executable model, used by the correspondence check --------- *)
Inductive json := JNull | JBool (b : bool) | JInt (bits : Z) | JUint (n : Z) | JDouble (bits : Z)
                | JStr (bs : list Z) | JArr (l : jlist) | JObj (l : jobj)
with jlist := JNil | JCons (j : json) (t : jlist)
with jobj := ONil | OCons (key : list Z) (j : json) (t : jobj).

Fixpoint jlen (l : jlist) : nat := match l with JNil => O | JCons _ t => S (jlen t) end.
Fixpoint olen (l : jobj) : nat := match l with ONil => O | OCons _ _ t => S (olen t) end.

Fixpoint encode_json (j : json) : list Z :=
  match j with
  | JNull => [0]
  | JBool b => [1; if b then 1 else 0]
  | JInt n => 2 :: le_bytes 8 n
  | JUint n => 3 :: le_bytes 8 n
  | JDouble n => 4 :: le_bytes 8 n
  | JStr bs => 5 :: le_bytes 8 (Z.of_nat (length bs)) ++ bs
  | JArr l => 6 :: le_bytes 8 (Z.of_nat (jlen l)) ++ encode_jlist l
  | JObj l => 7 :: le_bytes 8 (Z.of_nat (olen l)) ++ encode_jobj l
  end
with encode_jlist (l : jlist) : list Z := match l with JNil => [] | JCons j t => encode_json j ++ encode_jlist t end
with encode_jobj (l : jobj) : list Z :=
  match l with ONil => [] | OCons k j t => le_bytes 8 (Z.of_nat (length k)) ++ k ++ encode_json j ++ encode_jobj t end.

Fixpoint decode_json (fuel : nat) (bs : list Z) : option (json * list Z) :=
  match fuel with
  | O => None
  | S f =>
    match bs with
    | [] => None
    | k :: r =>
      let dec_list := fix dl (n : nat) (bs : list Z) : option (jlist * list Z) :=
        match n with O => Some (JNil, bs)
        | S n' => match decode_json f bs with
                  | Some (j, r1) => match dl n' r1 with Some (t, r2) => Some (JCons j t, r2) | None => None end
                  | None => None end end in
      let dec_obj := fix dobj (n : nat) (bs : list Z) : option (jobj * list Z) :=
        match n with O => Some (ONil, bs)
        | S n' => match take 8 bs with
                  | Some (a, r0) => match take (Z.to_nat (le_val a)) r0 with
                     | Some (key, r1) => match decode_json f r1 with
                        | Some (j, r2) => match dobj n' r2 with Some (t, r3) => Some (OCons key j t, r3) | None => None end
                        | None => None end
                     | None => None end
                  | None => None end end in
      if k =? 0 then Some (JNull, r)
      else if k =? 1 then match r with b :: r' => Some (JBool (negb (b =? 0)), r') | [] => None end
      else if (k =? 2) || (k =? 3) || (k =? 4) then
        match take 8 r with
        | Some (a, r') => Some ((if k =? 2 then JInt (le_val a) else if k =? 3 then JUint (le_val a) else JDouble (le_val a)), r')
        | None => None end
      else if k =? 5 then
        match take 8 r with
        | Some (a, r0) => match take (Z.to_nat (le_val a)) r0 with Some (b, r') => Some (JStr b, r') | None => None end
        | None => None end
      else if k =? 6 then
        match take 8 r with
        | Some (a, r0) => match dec_list (Z.to_nat (le_val a)) r0 with Some (l, r') => Some (JArr l, r') | None => None end
        | None => None end
      else if k =? 7 then
        match take 8 r with
        | Some (a, r0) => match dec_obj (Z.to_nat (le_val a)) r0 with Some (l, r') => Some (JObj l, r') | None => None end
        | None => None end
      else None
    end
  end.

Example json_roundtrip_example :
  let j := JObj (OCons [107; 49] (JArr (JCons (JInt 5) (JCons (JStr [97; 98]) (JCons JNull JNil)))) (OCons [] (JBool true) ONil)) in
  decode_json 20 (encode_json j ++ [9; 9]) = Some (j, [9; 9]).
Proof. vm_compute. reflexivity. Qed.

Example tuple_example :
  encode (STup (SCons (SInt 1) (SCons (SInt 1) (SCons (SInt 2) SNil)))) (VList (VCons (VInt 1) (VCons (VInt 2) (VCons (VInt 3) VNil)))) = [1; 2; 3; 0].
Proof. reflexivity. Qed.
