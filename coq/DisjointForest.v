(* DisjointForest.v — C17, the merge callbacks: async_union_and_execute(a, b, fn) runs fn(a, b) exactly where its walk attaches
   a root to the other tree.  Along EVERY delivery order of a pool of such unions, at every moment:
     - the callback edges reported so far form a forest: each one joined two items that the earlier ones did not connect,
     - "same root" is exactly "connected by the callback edges reported so far" (nothing else ever merges two sets, and
       every merge is reported once),
     - every reported edge is one of the unions issued;
   hence, once no visit is pending, the callback edges are a spanning forest of the union graph (with DisjointConn). *)
From Coq Require Import ZArith List Bool Lia Relations.
Import ListNotations.
From Ygm Require Import DisjointSet DisjointProto DisjointConn DisjointLocal.
Local Open Scope Z_scope.

(* the callback fired by the delivery of v in table t (none unless a walk with a payload attaches a root) *)
Definition cb_of (t : table) (v : visit) : list (Z * Z) :=
  match v with
  | Walk (Some ab) me child op oi orank =>
      match lookup (ensure t me) me with
      | Some i =>
          if (iparent i =? op) || (iparent i =? oi) then []
          else if orank <? irank i then []
          else if irank i =? orank then (if iparent i =? me then (if me <? op then [ab] else []) else [])
          else (if iparent i =? me then [ab] else [])
      | None => []
      end
  | _ => []
  end.

(* it is the local function of the visited entry that the recorded visits are replayed against *)
Lemma cb_of_lcb t v i : lookup (ensure t (target v)) (target v) = Some i -> cb_of t v = lcb (target v) i v.
Proof. destruct v as [[ab|] me c op oi r| |]; unfold cb_of, lcb, DisjointLocal.target; try reflexivity. intros ->. reflexivity. Qed.

(* ---- how one delivery changes "same root" ------------------------------------------------------------------------ *)
Definition same (t t' : table) : Prop := forall a b, conn t' a b <-> conn t a b.
Definition merged (t t' : table) (x p : Z) : Prop :=
  forall a b, conn t' a b <-> (conn t a b \/ (conn t a x /\ conn t p b) \/ (conn t a p /\ conn t x b)).

Lemma same_refl t : same t t. Proof. intros a b. tauto. Qed.
Lemma same_trans t1 t2 t3 : same t1 t2 -> same t2 t3 -> same t1 t3.
Proof. intros A B a b. rewrite (B a b). apply A. Qed.

Lemma conn_same t t' : Inv t -> (forall z r, root t z r -> root t' z r) -> same t t'.
Proof.
  intros HI H a b. split.
  - intros (r' & A & B). destruct (root_total t HI a) as (ra & Ra). destruct (root_total t HI b) as (rb & Rb).
    pose proof (root_det t' a ra (H _ _ Ra) r' A). pose proof (root_det t' b rb (H _ _ Rb) r' B). subst. exists r'. split; assumption.
  - intros (r & A & B). exists r. split; apply H; assumption.
Qed.

Lemma ensure_same t x : Inv t -> same t (ensure t x).
Proof. intros HI. apply (conn_same t _ HI). apply root_ext. apply ensure_parent. Qed.

Lemma root_not_conn t x p : Inv t -> parent_of t x = x -> plt t x p -> ~ conn t x p.
Proof.
  intros HI Hr Hl (r & A & B). pose proof (root_det t x x (root_here t x Hr) r A) as E. subst r.
  destruct (root_plt t p x HI B) as [E|Hc]; [subst p; apply (plt_irrefl t x Hl)|apply (plt_irrefl t x), (plt_trans _ _ _ _ Hl Hc)].
Qed.

Lemma attach_merged t x p i j :
  Inv t -> lookup t x = Some i -> lookup t p = Some j -> lexlt (irank i) x (irank j) p -> parent_of t x = x ->
  merged t (update t x {| irank := irank i; iparent := p |}) x p.
Proof.
  intros HI Hx Hp Hl Hroot a b. set (t' := update t x {| irank := irank i; iparent := p |}).
  destruct (root_total t HI p) as (rp & Rp).
  pose proof (sp_attach t x p i j HI Hx Hp Hl rp Hroot Rp) as At.
  pose proof (sp_mono t x p i j HI Hx Hp Hl (or_introl Hroot)) as Mono.
  pose proof (sp_joins t x p i j HI Hx Hp Hl (or_introl Hroot)) as Join.
  assert (Rx : root t x x) by (apply root_here, Hroot).
  split.
  - intros (r' & A & B).
    destruct (root_total t HI a) as (ra & Ra). destruct (root_total t HI b) as (rb & Rb).
    pose proof (root_det _ a _ (At a ra Ra) r' A) as Ea. pose proof (root_det _ b _ (At b rb Rb) r' B) as Eb.
    destruct (Z.eqb_spec ra x) as [Eax|Nax]; destruct (Z.eqb_spec rb x) as [Ebx|Nbx].
    + left. exists x. subst. split; assumption.
    + right. left. subst ra. split; [exists x; split; assumption|]. exists rp. split; [exact Rp|]. rewrite Ea, <- Eb. exact Rb.
    + right. right. subst rb. split; [exists rp; split; [|exact Rp]; rewrite Eb, <- Ea; exact Ra|exists x; split; assumption].
    + left. exists ra. split; [exact Ra|]. rewrite Ea, <- Eb. exact Rb.
  - intros [H|[(H1 & H2)|(H1 & H2)]].
    + apply Mono, H.
    + apply (conn_trans _ _ x); [apply Mono, H1|]. apply (conn_trans _ _ p); [exact Join|apply Mono, H2].
    + apply (conn_trans _ _ p); [apply Mono, H1|]. apply (conn_trans _ _ x); [apply conn_sym, Join|apply Mono, H2].
Qed.

(* the two sides of a walk with a payload are the two items of its union, up to same-root; the payload is an issued union *)
Definition WI (es : list (Z * Z)) (t : table) (v : visit) : Prop :=
  match v with
  | Walk (Some (a, b)) me _ op _ _ => In (a, b) es /\ ((conn t a me /\ conn t b op) \/ (conn t a op /\ conn t b me))
  | Walk None _ _ _ _ _ => False              (* pools of async_union_and_execute only *)
  | _ => True
  end.

Lemma WI_mono es t t' v : (forall a b, conn t a b -> conn t' a b) -> WI es t v -> WI es t' v.
Proof.
  intros M. destruct v as [[(a, b)|] me c op oi r| |]; cbn; auto.
  intros (Hin & [(A & B)|(A & B)]); (split; [exact Hin|]); [left|right]; split; apply M; assumption.
Qed.

Theorem exec_shape es t v t' sends : Inv t -> VI t v -> CI t v -> WI es t v -> exec t v = Some (t', sends) ->
  Forall (WI es t') sends /\
  ((same t t' /\ cb_of t v = []) \/
   (exists ab me child op oi orank, v = Walk (Some ab) me child op oi orank /\ ~ conn t me op /\ merged t t' me op /\ cb_of t v = [ab])).
Proof.
  intros HI HV HC HW He.
  destruct (exec_conn t v t' sends HI HV HC He) as (_ & Mono & _ & _).
  destruct v as [cb me child op oi orank|me np|me mitem mrank].
  - (* Walk *)
    destruct cb as [(a, b)|]; [|destruct HW]. destruct HW as (Hin & HW). destruct HC as (Cc & Co).
    unfold cb_of. cbn [exec] in He.
    set (t1 := ensure t me) in *. assert (I1 : Inv t1) by (apply Inv_ensure, HI).
    pose proof (ensure_same t me HI) as S1. fold t1 in S1.
    destruct (lookup t1 me) as [i|] eqn:Hi; [|discriminate].
    assert (Pm : parent_of t1 me = iparent i) by (unfold parent_of; rewrite Hi; reflexivity).
    assert (Cmp : conn t1 me (iparent i)) by (rewrite <- Pm; apply conn_parent, I1).
    assert (HW1 : (conn t1 a me /\ conn t1 b op) \/ (conn t1 a op /\ conn t1 b me)).
    { destruct HW as [(A & B)|(A & B)]; [left|right]; split; apply S1; assumption. }
    assert (Wswap : forall t3, (forall x y, conn t1 x y -> conn t3 x y) -> WI es t3 (Walk (Some (a, b)) op oi (iparent i) me (irank i))).
    { intros t3 M3. cbn. split; [exact Hin|]. destruct HW1 as [(A & B)|(A & B)]; [right|left]; split; apply M3; try assumption.
      - apply (conn_trans _ _ me); assumption.
      - apply (conn_trans _ _ me); assumption. }
    assert (Wup : forall t3, (forall x y, conn t1 x y -> conn t3 x y) -> WI es t3 (Walk (Some (a, b)) (iparent i) me op oi orank)).
    { intros t3 M3. cbn. split; [exact Hin|]. destruct HW1 as [(A & B)|(A & B)]; [left|right]; split; apply M3; try assumption.
      - apply (conn_trans _ _ me); assumption.
      - apply (conn_trans _ _ me); assumption. }
    assert (S0 : Forall (WI es t') (if child =? me then [] else [UpdParent child (iparent i)])).
    { destruct (child =? me); constructor; [exact I|constructor]. }
    assert (Id : forall x y, conn t1 x y -> conn t1 x y) by auto.
    assert (Attach : forall t3, iparent i = me -> guarded_set t1 me op = Some t3 -> ~ conn t me op /\ merged t t3 me op).
    { intros t3 Hroot G. destruct (guarded_set_inv _ _ _ _ G) as (i' & j & Hx & Hp & Hl & ->).
      assert (Hr1 : parent_of t1 me = me) by congruence.
      assert (Hplt : plt t1 me op) by (unfold plt, pot; rewrite Hx, Hp; exact Hl).
      split.
      - intros Hc. apply (root_not_conn t1 me op I1 Hr1 Hplt). apply S1, Hc.
      - intros x y. rewrite (attach_merged t1 me op i' j I1 Hx Hp Hl Hr1 x y). rewrite !(S1 _ _). tauto. }
    revert He. destruct ((iparent i =? op) || (iparent i =? oi)).
    { intros He. injection He as <- <-. split; [exact S0|]. left. split; [exact S1|reflexivity]. }
    destruct (orank <? irank i).
    { intros He. injection He as <- <-. split; [apply Forall_app; split; [exact S0|constructor; [apply Wswap, Id|constructor]]|].
      left. split; [exact S1|reflexivity]. }
    destruct (irank i =? orank).
    + destruct (Z.eqb_spec (iparent i) me) as [Hroot|Hnr].
      * destruct (me <? op).
        -- destruct (guarded_set t1 me op) as [t3|] eqn:G; [|discriminate]. intros He. injection He as <- <-.
           destruct (Attach t3 Hroot eq_refl) as (NC & Mg).
           split; [apply Forall_app; split; [exact S0|constructor]|].
           right. exists (a, b), me, child, op, oi, orank. split; [reflexivity|]. split; [exact NC|]. split; [exact Mg|reflexivity].
        -- intros He. injection He as <- <-. split; [apply Forall_app; split; [exact S0|constructor; [apply Wswap, Id|constructor]]|].
           left. split; [exact S1|reflexivity].
      * intros He. injection He as <- <-. split; [apply Forall_app; split; [exact S0|constructor; [apply Wup, Id|constructor]]|].
        left. split; [exact S1|reflexivity].
    + destruct (Z.eqb_spec (iparent i) me) as [Hroot|Hnr].
      * destruct (guarded_set t1 me op) as [t3|] eqn:G; [|discriminate]. intros He. injection He as <- <-.
        destruct (Attach t3 Hroot eq_refl) as (NC & Mg).
        split; [exact S0|]. right. exists (a, b), me, child, op, oi, orank. split; [reflexivity|]. split; [exact NC|]. split; [exact Mg|reflexivity].
      * intros He. injection He as <- <-. split; [apply Forall_app; split; [exact S0|constructor; [apply Wup, Id|constructor]]|].
        left. split; [exact S1|reflexivity].
  - (* UpdParent: re-points a non-root inside its tree *)
    cbn in HC. cbn [exec] in He. set (t1 := ensure t me) in *. assert (I1 : Inv t1) by (apply Inv_ensure, HI).
    pose proof (ensure_same t me HI) as S1. fold t1 in S1.
    destruct (lookup t1 me) as [i|] eqn:Hi; [|discriminate].
    destruct (iparent i =? np).
    + injection He as <- <-. split; [constructor|]. left. split; [exact S1|reflexivity].
    + destruct (guarded_set t1 me np) as [t3|] eqn:G; [|discriminate]. injection He as <- <-. split; [constructor|]. left. split; [|reflexivity].
      destruct (guarded_set_inv _ _ _ _ G) as (i' & j & Hx & Hp & Hl & ->).
      apply (same_trans _ t1); [exact S1|]. apply (conn_same t1 _ I1).
      apply (sp_compress t1 me np i' j I1 Hx Hp Hl). apply S1, HC.
  - (* Resolve: raises a rank or sends a compression *)
    cbn in HC. cbn [exec] in He. set (t1 := ensure t me) in *. assert (I1 : Inv t1) by (apply Inv_ensure, HI).
    pose proof (ensure_same t me HI) as S1. fold t1 in S1.
    destruct (lookup t1 me) as [i|] eqn:Hi; [|discriminate].
    destruct (irank i <? mrank); [discriminate|].
    destruct (mrank <? irank i); [injection He as <- <-; split; [constructor|left; split; [exact S1|reflexivity]]|].
    destruct (Z.eqb_spec (iparent i) me) as [Hroot|Hnr].
    + injection He as <- <-. split; [constructor|]. left. split; [|reflexivity].
      apply (same_trans _ t1); [exact S1|]. apply (conn_same t1 _ I1). apply root_ext. intros z. apply (bump_parent t1 me i (mrank + 1) z Hi Hroot).
    + injection He as <- <-. split; [constructor; [exact I|constructor]|]. left. split; [exact S1|reflexivity].
Qed.

(* ---- equivalence closure of an edge list, one more edge ------------------------------------------------------------- *)
Definition cl (l : list (Z * Z)) : Z -> Z -> Prop := clos_refl_sym_trans Z (fun u v => In (u, v) l).
Lemma cl_refl l a : cl l a a. Proof. apply rst_refl. Qed.
Lemma cl_sym l a b : cl l a b -> cl l b a. Proof. apply rst_sym. Qed.
Lemma cl_trans l a b c : cl l a b -> cl l b c -> cl l a c. Proof. apply rst_trans. Qed.
Lemma cl_mono l e a b : cl l a b -> cl (e :: l) a b.
Proof. intros H. induction H as [u v H|u|u v _ IH|u v w _ IH1 _ IH2]; [apply rst_step; right; exact H|apply rst_refl|apply rst_sym, IH|apply (rst_trans _ _ _ _ _ IH1 IH2)]. Qed.
Lemma cl_nil a b : cl [] a b -> a = b.
Proof. intros H. induction H as [u v []|u|u v _ IH|u v w _ IH1 _ IH2]; congruence. Qed.

Lemma cl_add_edge l x y a b :
  cl ((x, y) :: l) a b <-> (cl l a b \/ (cl l a x /\ cl l y b) \/ (cl l a y /\ cl l x b)).
Proof.
  split.
  - intros H. induction H as [u v H|u|u v _ IH|u v w _ IH1 _ IH2].
    + destruct H as [E|H]; [injection E as <- <-; right; left; split; apply cl_refl|left; apply rst_step, H].
    + left. apply cl_refl.
    + destruct IH as [H|[(H1 & H2)|(H1 & H2)]]; [left; apply cl_sym, H|right; right|right; left]; split; apply cl_sym; assumption.
    + destruct IH1 as [P|[(P1 & P2)|(P1 & P2)]]; destruct IH2 as [Q0|[(Q1 & Q2)|(Q1 & Q2)]].
      * left. apply (cl_trans _ _ _ _ P Q0).
      * right. left. split; [apply (cl_trans _ _ _ _ P Q1)|exact Q2].
      * right. right. split; [apply (cl_trans _ _ _ _ P Q1)|exact Q2].
      * right. left. split; [exact P1|apply (cl_trans _ _ _ _ P2 Q0)].
      * right. left. split; [exact P1|exact Q2].
      * left. apply (cl_trans _ _ x); [exact P1|exact Q2].
      * right. right. split; [exact P1|apply (cl_trans _ _ _ _ P2 Q0)].
      * left. apply (cl_trans _ _ y); [exact P1|exact Q2].
      * right. right. split; [exact P1|exact Q2].
  - assert (E : cl ((x, y) :: l) x y) by (apply rst_step; left; reflexivity).
    intros [H|[(H1 & H2)|(H1 & H2)]].
    + apply cl_mono, H.
    + apply (cl_trans _ _ x); [apply cl_mono, H1|]. apply (cl_trans _ _ y); [exact E|apply cl_mono, H2].
    + apply (cl_trans _ _ y); [apply cl_mono, H1|]. apply (cl_trans _ _ x); [apply cl_sym, E|apply cl_mono, H2].
Qed.

(* each edge joined two items the earlier edges (the tail) did not connect *)
Inductive forest : list (Z * Z) -> Prop :=
| forest_nil : forest []
| forest_cons a b l : forest l -> ~ cl l a b -> forest ((a, b) :: l).

(* ---- every delivery order, with the log of callbacks ------------------------------------------------------------------ *)
Definition lstate := (table * list visit * list (Z * Z))%type.
Inductive stepL : lstate -> lstate -> Prop :=
| deliverL t pool log k v t' sends :
    nth_error pool k = Some v -> exec t v = Some (t', sends) ->
    stepL (t, pool, log) (t', remove_nth k pool ++ sends, cb_of t v ++ log).
Inductive stepsL : lstate -> lstate -> Prop :=
| stepsL_refl s : stepsL s s
| stepsL_cons s s1 s2 : stepL s s1 -> stepsL s1 s2 -> stepsL s s2.

Definition FI (es : list (Z * Z)) (s : lstate) : Prop :=
  let '(t, pool, log) := s in
  GI (t, pool) /\ Forall (CI t) pool /\ Forall (WI es t) pool /\
  (forall a b, conn t a b <-> cl log a b) /\ forest log /\ incl log es.

Theorem stepL_preserves es s s' : FI es s -> stepL s s' -> FI es s'.
Proof.
  intros HF Hs. destruct Hs as [t pool log k v t' sends Hk He]. destruct HF as (G & HC & HW & HQ & HFo & Hin).
  pose proof (step_preserves (t, pool) _ G (deliver t pool k v t' sends Hk He)) as G'.
  destruct G as (HI & HP). cbn [fst snd] in *.
  pose proof HP as HP0. rewrite Forall_forall in HP0. pose proof (HP0 v (nth_error_In _ _ Hk)) as HV.
  pose proof HC as HC0. rewrite Forall_forall in HC0. pose proof (HC0 v (nth_error_In _ _ Hk)) as HCv.
  pose proof HW as HW0. rewrite Forall_forall in HW0. pose proof (HW0 v (nth_error_In _ _ Hk)) as HWv.
  destruct (exec_conn t v t' sends HI HV HCv He) as (_ & Mono & CS & _).
  destruct (exec_shape es t v t' sends HI HV HCv HWv He) as (WS & Shape).
  split; [exact G'|]. split.
  { apply Forall_app. split; [|exact CS]. apply Forall_remove_nth. apply Forall_forall. intros w Hw. apply (CI_mono t t' w Mono), HC0, Hw. }
  split.
  { apply Forall_app. split; [|exact WS]. apply Forall_remove_nth. apply Forall_forall. intros w Hw. apply (WI_mono es t t' w Mono), HW0, Hw. }
  destruct Shape as [(Sm & Ecb)|((a, b) & me & child & op & oi & orank & Ev & NC & Mg & Ecb)]; rewrite Ecb; cbn [app].
  - split; [intros x y; rewrite (Sm x y); apply HQ|]. split; assumption.
  - subst v. cbn in HWv. destruct HWv as (Hab & Sides).
    assert (Nab : ~ cl log a b).
    { intros Hc. apply HQ in Hc. apply NC.
      destruct Sides as [(A & B)|(A & B)].
      - apply (conn_trans _ _ a); [apply conn_sym, A|]. apply (conn_trans _ _ b); assumption.
      - apply (conn_trans _ _ b); [apply conn_sym, B|]. apply (conn_trans _ _ a); [apply conn_sym, Hc|exact A]. }
    split; [|split; [constructor; assumption|intros e [<-|He']; [exact Hab|apply Hin, He']]].
    intros x y. rewrite (Mg x y), (cl_add_edge log a b x y), <- !(HQ _ _).
    assert (T := conn_trans t). assert (Sy := conn_sym t).
    destruct Sides as [(A & B)|(A & B)]; split; intros [H|[(H1 & H2)|(H1 & H2)]]; eauto 8.
Qed.

Lemma conn_nil a b : conn [] a b <-> a = b.
Proof.
  split; [|intros ->; apply conn_refl, Inv_nil].
  intros (r & A & B). inversion A as [x Hx|x r' Hx _]; subst; [|cbn in Hx; congruence]. inversion B as [y Hy|y r' Hy _]; subst; [reflexivity|cbn in Hy; congruence].
Qed.

Lemma unions_FI es : FI es ([], unionsb (map (pair true) es), []).
Proof.
  cbn. split; [apply unions_GI|]. split; [|split; [|split; [|split; [constructor|intros e []]]]].
  - apply Forall_forall. intros v Hv. unfold unionsb in Hv. apply in_map_iff in Hv as ((cb, (a, b)) & <- & _). cbn. split; apply conn_refl, Inv_nil.
  - apply Forall_forall. intros v Hv. unfold unionsb in Hv. apply in_map_iff in Hv as ((cb, (a, b)) & <- & Hin).
    apply in_map_iff in Hin as ((a', b') & E & Hin). injection E as <- <- <-. cbn. split; [exact Hin|]. left. split; apply conn_refl, Inv_nil.
  - intros a b. rewrite conn_nil. split; [intros ->; apply cl_refl|apply cl_nil].
Qed.

Lemma stepsL_FI es s : stepsL ([], unionsb (map (pair true) es), []) s -> FI es s.
Proof.
  intros H. remember ([], unionsb (map (pair true) es), []) as s0 eqn:E0. assert (G0 : FI es s0) by (subst; apply unions_FI). clear E0.
  induction H as [s|s s1 s2 Hs _ IH]; [exact G0|]. apply IH. apply (stepL_preserves es s s1 G0 Hs).
Qed.

Lemma stepsL_steps s s' : stepsL s s' -> steps (fst (fst s), snd (fst s)) (fst (fst s'), snd (fst s')).
Proof.
  induction 1 as [s|s s1 s2 Hs _ IH]; [apply steps_refl|]. apply (steps_cons _ (fst (fst s1), snd (fst s1))); [|exact IH].
  destruct Hs as [t pool log k v t' sends Hk He]. cbn. econstructor; eassumption.
Qed.

(* at every moment *)
Theorem callbacks_span_the_forest es t pool log :
  stepsL ([], unionsb (map (pair true) es), []) (t, pool, log) ->
  forest log /\ incl log es /\ forall a b, conn t a b <-> cl log a b.
Proof. intros H. destruct (stepsL_FI es _ H) as (_ & _ & _ & HQ & HFo & Hin). repeat split; try assumption; apply HQ. Qed.

(* once no visit is pending: the callback edges are a spanning forest of the union graph *)
Theorem callbacks_are_a_spanning_forest es t log :
  stepsL ([], unionsb (map (pair true) es), []) (t, [], log) ->
  forest log /\ incl log es /\ forall a b, cl log a b <-> R es a b.
Proof.
  intros H. destruct (callbacks_span_the_forest es t [] log H) as (HFo & Hin & HQ). repeat split; try assumption.
  - intros Hc. apply HQ in Hc. pose proof (stepsL_steps _ _ H) as Hs. cbn in Hs.
    pose proof (quiescent_roots_are_components (map (pair true) es) t Hs a b) as Q0. rewrite map_map in Q0. cbn in Q0. rewrite map_id in Q0. apply Q0, Hc.
  - intros Hr. apply HQ. pose proof (stepsL_steps _ _ H) as Hs. cbn in Hs.
    pose proof (quiescent_roots_are_components (map (pair true) es) t Hs a b) as Q0. rewrite map_map in Q0. cbn in Q0. rewrite map_id in Q0. apply Q0, Hr.
Qed.
