(* RankBarrier.v — C02, what a rank knows when barrier() returns.
   [sr h] is the ghost history restricted to the snapshots contributed to count reductions (GSnap) and the results
   stored in [cur] (GRes).  For programs whose handlers and callbacks do not call barrier():
     - nothing outside barrier() takes a snapshot or stores a result (frame lemma, all procedures);
     - a count reduction appends exactly  GSnap (rcnt, scnt)  and later  GRes v  with v the result MPI delivered;
     - barrier() returns only when the last two reductions of this rank delivered the same pair v with fst v = snd v:
           sr (hist s') = GRes v :: GSnap _ _ :: GRes v :: GSnap _ _ :: ...
   Together with RankCount (the snapshots are the true counters) this is what Barrier.two_equal_rounds_quiescent
   needs from each rank (Global.v). *)
From Coq Require Import ZArith List Bool Lia.
Import ListNotations.
From Ygm Require Import RankMachine.
Local Open Scope Z_scope.

Definition is_sr (g : gev) : bool := match g with GSnap _ _ | GRes _ => true | _ => false end.
Definition sr (h : list gev) : list gev := filter is_sr h.

Definition nobar (a : act) : bool := match a with ABar => false | _ => true end.

(* what the rest of the machine leaves alone *)
Definition Fr (s s' : st) : Prop :=
  sr (hist s') = sr (hist s) /\ cur s' = cur s /\ prev s' = prev s /\ red_done s' = red_done s.
Definition resF (s : st) (r : res) : Prop := match r with Ok s' => Fr s s' | _ => True end.

Lemma Fr_refl s : Fr s s.
Proof. repeat split. Qed.
Lemma Fr_trans a b c : Fr a b -> Fr b c -> Fr a c.
Proof. intros (A1 & A2 & A3 & A4) (B1 & B2 & B3 & B4). repeat split; congruence. Qed.
Lemma resF_bind s r f : resF s r -> (forall s1, Fr s s1 -> resF s (f s1)) -> resF s (r >>= f).
Proof. destruct r; cbn; auto. Qed.
Lemma resF_trans s s1 r : Fr s s1 -> resF s1 r -> resF s r.
Proof. intros H. destruct r; cbn; auto. apply Fr_trans, H. Qed.
Lemma Fr_enqueue c d m s : Fr s (enqueue c d m s).
Proof. unfold enqueue. destruct (buf_at s d); repeat split. Qed.

(* Fr x (f v x) for one setter / emit layer *)
Ltac layer :=
  solve [ unfold Fr;
          cbn [sr hist cur prev red_done filter is_sr emit set_bufs set_sbb set_dq set_sendq set_pend set_cbs set_intr set_inprq
               set_rcnt set_scnt set_ictr set_ret set_depth set_masks set_flags set_shared set_nbar set_inmain set_oracle set_enq set_hist];
          repeat split; reflexivity ].
Ltac fr :=
  match goal with
  | |- Fr ?a ?a => apply Fr_refl
  | H : Fr ?a ?b |- Fr ?a ?b => exact H
  | |- Fr ?a (if ?b then _ else _) => destruct b; fr
  | |- Fr ?a (match ?y with _ => _ end) => destruct y; fr
  | |- Fr ?a (enqueue ?c ?d ?m ?x) => apply (Fr_trans a x); [fr|apply Fr_enqueue]
  | |- Fr ?a (?f ?v ?x) => apply (Fr_trans a x); [fr|layer]
  end.

Section Barrier.
  Variable c : cfg.
  Hypothesis Hh : forall u, forallb nobar (c_hprog c u) = true.
  Hypothesis Hcb : forall i, forallb nobar (c_cbprog c i) = true.

  Definition nbp (p : proc) : Prop :=
    match p with
    | PBarrier | PBarrierLoop | PReduceCounts | PReduceLoop => False
    | PActs l => forallb nobar l = true
    | _ => True
    end.

  Theorem nb_frame : forall fu p s, nbp p -> resF s (run fu c p s).
  Proof.
    induction fu as [|fu IH]; [intros; exact I|].
    intros p s Hp. destruct p; cbn [nbp] in Hp; try contradiction; cbn [run]; cbv zeta.
    1:{ (* PActs *)
      destruct l as [|a rest]; [apply Fr_refl|]. cbn [forallb] in Hp. apply andb_prop in Hp as (Ha & Hrest).
      eapply resF_bind; [|intros s1 F1; eapply resF_trans; [exact F1|apply (IH (PActs rest) s1 Hrest)]].
      destruct a; cbn [nobar] in Ha; try discriminate;
      repeat (cbv zeta; match goal with
      | |- resF _ (Ok _) => cbn [resF]; fr
      | |- resF _ (Blocked _) => exact I
      | |- resF _ (err _ _) => exact I
      | |- resF _ (_ >>= _) => eapply resF_bind; [|intros ? ?]
      | |- resF ?s0 (run _ _ ?q ?x) => eapply (resF_trans s0 x); [fr|apply IH; exact I]
      | |- resF _ (ask _ _ _) => unfold ask; cbn [oracle emit]
      | |- resF _ (match ?x with _ => _ end) => destruct x eqn:?
      end). }
    all: repeat (cbv zeta; match goal with
      | |- resF _ (Ok _) => cbn [resF]; fr
      | |- resF _ (Blocked _) => exact I
      | |- resF _ (Err _ _) => exact I
      | |- resF _ (err _ _) => exact I
      | |- resF _ (_ >>= _) => eapply resF_bind; [|intros ? ?]
      | |- resF ?s0 (run _ _ (PActs (c_hprog _ ?u)) ?x) => eapply (resF_trans s0 x); [fr|apply IH; apply Hh]
      | |- resF ?s0 (run _ _ (PActs (c_cbprog _ ?u)) ?x) => eapply (resF_trans s0 x); [fr|apply IH; apply Hcb]
      | |- resF ?s0 (run _ _ ?q ?x) => eapply (resF_trans s0 x); [fr|apply IH; exact I]
      | |- resF _ (ask _ _ _) => unfold ask; cbn [oracle emit]
      | |- resF _ (match ?x with _ => _ end) => destruct x eqn:?
      end).
  Qed.

  (* ---- the count reductions ---- *)
  (* the snapshot / result history when no reduction is outstanding: rounds (a snapshot, then its result), and the
     sentinel (3,4) that barrier() stores in [cur] when it starts *)
  Inductive wfsr : list gev -> Prop :=
  | wf_nil : wfsr []
  | wf_round v a b t : wfsr t -> wfsr (GRes v :: GSnap a b :: t)
  | wf_sentinel t : wfsr t -> wfsr (GRes (3, 4) :: t).

  Definition W (s : st) : Prop := wfsr (sr (hist s)).

  Lemma frame_of fu p s s' : nbp p -> run fu c p s = Ok s' -> Fr s s'.
  Proof. intros Hp E. pose proof (nb_frame fu p s Hp) as H. rewrite E in H. exact H. Qed.

  (* waiting for the result of the outstanding reduction *)
  Lemma reduce_loop_spec : forall fu s s', run fu c PReduceLoop s = Ok s' ->
    (red_done s = true -> Fr s s') /\
    (red_done s = false -> exists v, sr (hist s') = GRes v :: sr (hist s) /\ cur s' = v /\ prev s' = prev s /\ red_done s' = true).
  Proof.
    induction fu as [|fu IH]; [discriminate|]. intros s s'. cbn [run].
    destruct (red_done s) eqn:Erd.
    { intros [= <-]. split; [intros _; apply Fr_refl|discriminate]. }
    unfold ask. cbn [oracle emit]. destruct (oracle s) as [|r rest]; [discriminate|].
    destruct r; try discriminate.
    set (s1 := set_oracle rest (emit EWaitIR s)).
    set (s2 := match result with Some v => set_red_done true (set_cur v s1) | None => s1 end).
    intros H. split; [discriminate|]. intros _.
    (* the handlers that run in between leave the reduction state alone *)
    assert (Mid : exists s3, (match data with Some ms => run fu c (PHandle ms) s2 >>= run fu c PFlushAll | None => Ok s2 end) = Ok s3 /\
                              run fu c PReduceLoop s3 = Ok s').
    { destruct (match data with Some ms => run fu c (PHandle ms) s2 >>= run fu c PFlushAll | None => Ok s2 end) as [s3| | |] eqn:E3;
        cbn [bind] in H; try discriminate. exists s3. split; [reflexivity|exact H]. }
    destruct Mid as (s3 & E3 & E4).
    assert (F23 : Fr s2 s3).
    { destruct data as [ms|]; [|injection E3 as <-; apply Fr_refl].
      destruct (run fu c (PHandle ms) s2) as [sa| | |] eqn:Ea; cbn [bind] in E3; try discriminate.
      eapply Fr_trans; [apply (frame_of fu (PHandle ms) s2 sa I Ea)|apply (frame_of fu PFlushAll sa s3 I E3)]. }
    destruct (IH s3 s' E4) as (IHt & IHf).
    destruct result as [v|].
    - (* the result arrived *)
      assert (R2 : red_done s2 = true) by reflexivity.
      assert (C2 : cur s2 = v) by reflexivity. assert (P2 : prev s2 = prev s) by reflexivity.
      assert (H2 : sr (hist s2) = GRes v :: sr (hist s)) by reflexivity.
      destruct F23 as (A1 & A2 & A3 & A4).
      destruct (IHt ltac:(congruence)) as (B1 & B2 & B3 & B4).
      exists v. split; [rewrite B1, A1; exact H2|]. repeat split; congruence.
    - assert (R2 : red_done s2 = red_done s) by reflexivity.
      assert (P2 : prev s2 = prev s) by reflexivity.
      assert (H2 : sr (hist s2) = sr (hist s)) by reflexivity.
      destruct F23 as (A1 & A2 & A3 & A4).
      destruct (IHf ltac:(congruence)) as (v & B1 & B2 & B3 & B4).
      exists v. split; [rewrite B1, A1; rewrite H2; reflexivity|]. repeat split; congruence.
  Qed.

  Lemma reduce_counts_spec fu s s' : run fu c PReduceCounts s = Ok s' ->
    exists v, sr (hist s') = GRes v :: GSnap (rcnt s) (scnt s) :: sr (hist s) /\ cur s' = v /\ prev s' = prev s.
  Proof.
    destruct fu as [|fu]; [discriminate|]. cbn [run]. destruct (negb ((pend s =? 0) && (sbb s =? 0))); [discriminate|].
    intros H. destruct (reduce_loop_spec fu _ s' H) as (_ & Hf).
    destruct (Hf eq_refl) as (v & B1 & B2 & B3 & _). exists v. repeat split; assumption.
  Qed.

  (* the loop of barrier(): [cur] is the newest result; [prev] the one before it, or barrier() has just started *)
  Definition LoopInv (s : st) : Prop :=
    exists rest, sr (hist s) = GRes (cur s) :: rest /\
      ((prev s = (1, 2) /\ cur s = (3, 4) /\ wfsr rest) \/
       (exists a b rest', rest = GSnap a b :: GRes (prev s) :: rest' /\ wfsr (GRes (prev s) :: rest'))).

  Definition ExitShape (s' : st) : Prop :=
    exists v a b a' b' t, sr (hist s') = GRes v :: GSnap a b :: GRes v :: GSnap a' b' :: t /\ fst v = snd v /\ wfsr t.

  Lemma barrier_loop_spec : forall fu s s', LoopInv s -> run fu c PBarrierLoop s = Ok s' -> ExitShape s'.
  Proof.
    induction fu as [|fu IH]; [discriminate|]. intros s s' (rest & Hsr & Hcase). cbn [run].
    destruct (cur s) as (c1, c2) eqn:Ecur.
    destruct ((c1 =? c2) && (fst (prev s) =? c1) && (snd (prev s) =? c2)) eqn:Ex.
    - (* two equal rounds *)
      apply andb_prop in Ex as (Ex & E3). apply andb_prop in Ex as (E1 & E2).
      apply Z.eqb_eq in E1, E2, E3. intros H.
      assert (s' = s) by (destruct (cbs s); [destruct (dq s)|]; try discriminate; injection H as <-; reflexivity). subst s'.
      destruct Hcase as [(Hp & Hc & _)|(a & b & rest' & -> & Hw)].
      + exfalso. injection Hc as -> ->. lia.
      + assert (Ep : prev s = (c1, c2)) by (destruct (prev s); cbn in *; congruence).
        rewrite Ep in *. inversion Hw as [|v a' b' t Ht Ev|t Ht Ev].
        * exists (c1, c2), a, b, a', b', t. split; [rewrite Hsr; congruence|]. split; [exact E1|exact Ht].
        * exfalso. lia.
    - (* another round *)
      intros H.
      destruct (run fu c PReduceCounts (set_prev (c1, c2) s)) as [s1| | |] eqn:E1; cbn [bind] in H; try discriminate.
      destruct (reduce_counts_spec fu _ s1 E1) as (v & B1 & B2 & B3).
      cbn [hist set_prev prev rcnt scnt] in B1, B3.
      assert (Mid : exists s2, (if fst (cur s1) =? snd (cur s1) then Ok s1 else run fu c PFlushAll s1) = Ok s2 /\ run fu c PBarrierLoop s2 = Ok s').
      { destruct (if fst (cur s1) =? snd (cur s1) then Ok s1 else run fu c PFlushAll s1) as [s2| | |] eqn:E2; cbn [bind] in H; try discriminate.
        exists s2. split; [reflexivity|exact H]. }
      destruct Mid as (s2 & E2 & E3).
      assert (F12 : Fr s1 s2).
      { destruct (fst (cur s1) =? snd (cur s1)); [injection E2 as <-; apply Fr_refl|apply (frame_of fu PFlushAll s1 s2 I E2)]. }
      destruct F12 as (A1 & A2 & A3 & _).
      apply (IH s2 s'); [|exact E3].
      exists (GSnap (rcnt s) (scnt s) :: sr (hist s)). split; [rewrite A1, B1, A2, B2; reflexivity|].
      right. exists (rcnt s), (scnt s), rest. rewrite A3, B3. split; [rewrite Hsr; reflexivity|].
      destruct Hcase as [(Hp & Hc & Hw)|(a & b & rest' & -> & Hw)].
      + rewrite Hc. apply wf_sentinel, Hw.
      + apply wf_round, Hw.
  Qed.

  (* barrier(): when it returns, the last two count reductions of this rank delivered the same pair (R, S) with R = S *)
  Theorem barrier_exit fu s s' : W s -> run fu c PBarrier s = Ok s' -> ExitShape s' /\ W s'.
  Proof.
    intros Hw H. destruct fu as [|fu]; [discriminate|]. cbn [run] in H.
    destruct (run fu c PFlushAll s) as [s1| | |] eqn:E1; cbn [bind] in H; try discriminate.
    destruct (frame_of fu PFlushAll s s1 I E1) as (A1 & _).
    assert (LI : LoopInv (set_prev (1, 2) (set_cur (3, 4) s1))).
    { exists (sr (hist s1)). split; [reflexivity|]. left. repeat split. unfold W in Hw. rewrite A1. exact Hw. }
    pose proof (barrier_loop_spec fu _ s' LI H) as Ex. split; [exact Ex|].
    destruct Ex as (v & a & b & a' & b' & t & E & _ & Ht). unfold W. rewrite E. apply wf_round, wf_round, Ht.
  Qed.

  Lemma W_frame s s' : W s -> Fr s s' -> W s'.
  Proof. unfold W. intros H (A & _). rewrite A. exact H. Qed.

  (* one act of a program, without unfolding it *)
  Lemma PActs_body fu a s : exists b : res, forall rest, run (S fu) c (PActs (a :: rest)) s = b >>= run fu c (PActs rest).
  Proof. eexists. intros rest. cbn [run]. reflexivity. Qed.
  Lemma PActs_bar fu rest s :
    run (S fu) c (PActs (ABar :: rest)) s =
    (run fu c PBarrier (emit (NBI (nbar s + 1)) (set_nbar (nbar s + 1) s)) >>= fun s1 =>
       let s2 := emit (NBO (nbar s + 1)) s1 in Ok (emit (NS 1 (sbb s2) (pend s2) (length (dq s2)) (length (sendq s2))) s2))
    >>= run fu c (PActs rest).
  Proof. reflexivity. Qed.
  Lemma PActs_nil fu s : run (S fu) c (PActs []) s = Ok s.
  Proof. reflexivity. Qed.

  (* a main program (barriers included): outside count reductions the snapshot / result history stays well formed *)
  Theorem main_W : forall fu l s s', W s -> run fu c (PActs l) s = Ok s' -> W s'.
  Proof.
    induction fu as [|fu IH]; [discriminate|]. intros l s s' Hw H.
    destruct l as [|a rest]; [rewrite PActs_nil in H; injection H as <-; exact Hw|].
    destruct (nobar a) eqn:Ea.
    - (* not a barrier: the act leaves the history of reductions alone *)
      destruct (PActs_body fu a s) as (b & Hb).
      rewrite (Hb rest) in H.
      destruct b as [s1| | |] eqn:Eb; cbn [bind] in H; try discriminate.
      destruct fu as [|fu']; [discriminate|].
      assert (E1 : run (S (S fu')) c (PActs [a]) s = Ok s1) by (rewrite (Hb []); cbn [bind]; apply PActs_nil).
      apply (IH rest s1 s'); [|exact H].
      apply (W_frame s s1 Hw). apply (frame_of (S (S fu')) (PActs [a]) s s1); [cbn [nbp forallb]; rewrite Ea; reflexivity|exact E1].
    - destruct a; try discriminate. rewrite PActs_bar in H.
      destruct (run fu c PBarrier (emit (NBI (nbar s + 1)) (set_nbar (nbar s + 1) s))) as [s1| | |] eqn:E1; cbn [bind] in H; try discriminate.
      destruct (barrier_exit fu (emit (NBI (nbar s + 1)) (set_nbar (nbar s + 1) s)) s1 Hw E1) as (_ & W1).
      cbv zeta in H. eapply (IH rest); [|exact H]. exact W1.
  Qed.
End Barrier.
