(* RankCount.v — C02, the counters: in every execution of the rank machine, whatever the program and the oracle,
     scnt = number of send-count increments so far   (one per async / broadcast leg queued by this rank),
     rcnt = number of receive-count increments so far (one per handler that finished on this rank),
   and every pair (rc, sc) contributed to a count reduction of barrier() is the pair of those two numbers at the
   moment of the contribution.  [hist] is the ghost history kept by set_scnt / set_rcnt / emit (EIallreduce _ _).
   These are the per-rank facts the counting theorem (Barrier.v) needs about a rank (Global.v composes them). *)
From Coq Require Import ZArith List Bool Lia.
Import ListNotations.
From Ygm Require Import RankMachine.
Local Open Scope Z_scope.

Fixpoint nS (h : list gev) : Z := match h with [] => 0 | GSend :: t => 1 + nS t | _ :: t => nS t end.
Fixpoint nR (h : list gev) : Z := match h with [] => 0 | GRecv :: t => 1 + nR t | _ :: t => nR t end.
Fixpoint hist_ok (h : list gev) : Prop :=
  match h with
  | [] => True
  | GSnap rc sc :: t => rc = nR t /\ sc = nS t /\ hist_ok t
  | _ :: t => hist_ok t
  end.

Definition Cnt (s : st) : Prop := scnt s = nS (hist s) /\ rcnt s = nR (hist s) /\ hist_ok (hist s).

Definition resC (P : st -> Prop) (r : res) : Prop := match r with Ok s' | Blocked s' => P s' | _ => True end.
Lemma resC_bind (P : st -> Prop) r f : resC P r -> (forall s1, P s1 -> resC P (f s1)) -> resC P (r >>= f).
Proof. destruct r; cbn; auto. Qed.

Lemma Cnt_enqueue c d m s : Cnt s -> Cnt (enqueue c d m s).
Proof. intros H. unfold enqueue. destruct (buf_at s d); exact H. Qed.
Lemma Cnt_sc s : Cnt s -> Cnt (set_scnt (scnt s + 1) s).
Proof. intros (A & B & C0). unfold Cnt. cbn [scnt rcnt hist set_scnt nS nR hist_ok]. repeat split; try assumption. lia. Qed.
Lemma Cnt_rc s : Cnt s -> Cnt (set_rcnt (rcnt s + 1) s).
Proof. intros (A & B & C0). unfold Cnt. cbn [scnt rcnt hist set_rcnt nS nR hist_ok]. repeat split; try assumption. lia. Qed.
Lemma Cnt_snap s : Cnt s -> Cnt (emit (EIallreduce (rcnt s) (scnt s)) (set_red_done false s)).
Proof. intros (A & B & C0). unfold Cnt. cbn [scnt rcnt hist emit set_red_done nS nR hist_ok]. repeat split; assumption. Qed.

Ltac cnt :=
  first [ assumption
        | apply Cnt_enqueue; cnt
        | apply Cnt_sc; cnt
        | apply Cnt_rc; cnt
        | apply Cnt_snap; cnt
        | match goal with H : Cnt _ |- Cnt _ => exact H end
        | match goal with |- Cnt ?x => match x with context [if ?b then _ else _] => destruct b; cnt end end
        | match goal with |- Cnt ?x => match x with context [match ?y with _ => _ end] => destruct y; cnt end end ].

Section Count.
  Variable c : cfg.

  Theorem count_all : forall fu p s, Cnt s -> resC Cnt (run fu c p s).
  Proof.
    induction fu as [|fu IH]; [intros; exact I|].
    intros p s Hc. destruct p; cbn [run]; cbv zeta;
    repeat (cbv zeta; match goal with
    | |- resC _ (Ok _) => cbn [resC]; cnt
    | |- resC _ (Blocked _) => cbn [resC]; cnt
    | |- resC _ (Err _ _) => exact I
    | |- resC _ (err _ _) => exact I
    | |- resC _ OutOfFuel => exact I
    | |- resC _ (_ >>= _) => eapply resC_bind; [|intros ? ?]
    | |- resC _ (run fu c _ _) => apply IH; cnt
    | |- resC _ (ask _ _ _) => unfold ask; cbn [oracle emit]
    | |- resC _ (match ?x with _ => _ end) => destruct x eqn:?
    end).
  Qed.

  (* the whole life of a rank *)
  Theorem rank_counts fuel nranks main orc :
    match run_rank fuel c nranks main orc with Ok s' | Blocked s' => Cnt s' | _ => True end.
  Proof.
    unfold run_rank. assert (C0 : Cnt (init_st nranks orc)) by (unfold Cnt, init_st; cbn; auto).
    pose proof (count_all fuel (PActs main) (init_st nranks orc) C0) as H1.
    destruct (run fuel c (PActs main) (init_st nranks orc)) as [s1|s1| |]; cbn [bind]; try exact I; [|exact H1].
    apply (count_all fuel PBarrier s1 H1).
  Qed.
End Count.
