(* DisjointFind.v — C17, all_find: after a barrier, all_find(items) sends one walk per item up the parent links; the root
   found is returned to the caller and written back as the item's parent (path compression).  Along EVERY delivery order of
   these messages, starting from any forest t0 that satisfies the invariant:
     - every representative returned for an item is the root that item had in t0,
     - the compressions never change any item's root (so concurrent walks still find the same roots) and keep the invariant,
     - once nothing is pending, every requested item has received exactly one answer (as often as it was requested).
   With DisjointConn: after the unions have quiesced, two items get equal representatives iff they are connected. *)
From Coq Require Import ZArith List Bool Lia Relations.
Import ListNotations.
From Ygm Require Import DisjointSet DisjointProto DisjointConn DisjointForest.
Local Open Scope Z_scope.

Inductive fvisit :=
| Find (me src : Z)           (* find_rep_functor at local_item = me for source_item = src *)
| SetPar (x r : Z)            (* the compression message: local_set_parent(x, r) *)
| Ret (src rep : Z).          (* the answer stored in the caller's map *)

Definition fexec (t : table) (v : fvisit) : table * list fvisit :=
  match v with
  | Find me src =>
      let t1 := ensure t me in                      (* local_get_parent creates a missing item as its own root *)
      let p := parent_of t1 me in
      if p =? me then (t1, [SetPar src me; Ret src me]) else (t1, [Find p src])
  | SetPar x r =>
      let t1 := ensure t x in
      match lookup t1 x with
      | Some i => (update t1 x {| irank := irank i; iparent := r |}, [])
      | None => (t1, [])
      end
  | Ret _ _ => (t, [])
  end.

Lemma Inv_ext t t' : (forall y, lookup t' y = lookup t y) -> Inv t -> Inv t'.
Proof.
  intros E H x i Hx. rewrite E in Hx. destruct (H x i Hx) as (A & B). split; [exact A|].
  destruct B as [B|(j & Hj & Hl)]; [left; exact B|right; exists j; rewrite E; split; assumption].
Qed.

Lemma root_exists t x r : Inv t -> root t x r -> x <> r -> lookup t r <> None.
Proof.
  intros HI H. induction H as [x _|x r Hx Hrest IH]; [congruence|]. intros _.
  destruct (Z.eq_dec (parent_of t x) r) as [E|E]; [rewrite <- E; apply (parent_plt t x HI Hx)|apply IH, E].
Qed.

Section AllFind.
  Variable t0 : table.
  Hypothesis HI0 : Inv t0.

  Definition FInv (t : table) : Prop := Inv t /\ forall z r, root t0 z r -> root t z r.
  Definition FV (v : fvisit) : Prop :=
    match v with
    | Find me src => conn t0 me src
    | SetPar x r => root t0 x r
    | Ret src rep => root t0 src rep
    end.

  Lemma FInv_same t : FInv t -> same t0 t.
  Proof. intros (_ & H). apply (conn_same t0 t HI0 H). Qed.

  Theorem fexec_ok t v t' sends : FInv t -> FV v -> fexec t v = (t', sends) -> FInv t' /\ Forall FV sends.
  Proof.
    intros (HI & HR) HV He. destruct v as [me src|x r|src rep]; cbn [fexec] in He.
    - set (t1 := ensure t me) in *.
      assert (F1 : FInv t1).
      { split; [apply Inv_ensure, HI|]. intros z r Hz. apply (root_ext t t1 (ensure_parent t me)), HR, Hz. }
      cbn in HV. destruct HV as (r & Rm & Rs).
      assert (Rm1 : root t1 me r) by (apply F1, Rm).
      destruct (Z.eqb_spec (parent_of t1 me) me) as [Hroot|Hnr]; injection He as <- <-; (split; [exact F1|]).
      + pose proof (root_det t1 me me (root_here t1 me Hroot) r Rm1) as E. subst r.
        constructor; [exact Rs|constructor; [exact Rs|constructor]].
      + constructor; [|constructor]. cbn.
        apply (FInv_same t1 F1). apply (conn_trans _ _ me).
        * apply conn_sym. apply conn_parent, F1.
        * apply (FInv_same t1 F1). exists r. split; assumption.
    - set (t1 := ensure t x) in *.
      assert (F1 : FInv t1).
      { split; [apply Inv_ensure, HI|]. intros z r' Hz. apply (root_ext t t1 (ensure_parent t x)), HR, Hz. }
      destruct F1 as (I1 & R1). cbn in HV. pose proof (R1 x r HV) as Rx.
      destruct (lookup t1 x) as [i|] eqn:Hi; [|injection He as <- <-; split; [split; assumption|constructor]].
      injection He as <- <-. split; [|constructor].
      destruct (Z.eq_dec x r) as [<-|Hne].
      + (* the item is its own root: the write changes nothing *)
        assert (Ei : iparent i = x) by (pose proof (root_is_root t1 x x Rx) as P; unfold parent_of in P; rewrite Hi in P; exact P).
        assert (E : forall y, lookup (update t1 x {| irank := irank i; iparent := x |}) y = lookup t1 y).
        { intros y. destruct (Z.eq_dec x y) as [<-|Hn]; [rewrite lookup_update_eq, Hi; f_equal; destruct i; cbn in *; congruence|apply lookup_update_neq, Hn]. }
        split; [apply (Inv_ext t1 _ E I1)|]. intros z r' Hz. apply (root_ext t1). { intros w. unfold parent_of. rewrite E. reflexivity. } apply R1, Hz.
      + destruct (root_plt t1 x r I1 Rx) as [E|Hl]; [contradiction|].
        pose proof (root_exists t1 x r I1 Rx Hne) as Hr. destruct (lookup t1 r) as [j|] eqn:Hj; [|congruence].
        assert (Hlex : lexlt (irank i) x (irank j) r) by (unfold plt, pot in Hl; rewrite Hi, Hj in Hl; exact Hl).
        split; [apply (set_parent_preserves t1 x i r j I1 Hi Hj Hlex)|].
        intros z r' Hz. apply (sp_compress t1 x r i j I1 Hi Hj Hlex); [|apply R1, Hz].
        exists r. split; [exact Rx|]. apply root_here, (root_is_root t1 x r Rx).
    - injection He as <- <-. split; [split; assumption|constructor].
  Qed.

  (* ---- every delivery order: (table, pending messages, answers received so far) ---- *)
  Definition fstate := (table * list fvisit * list (Z * Z))%type.
  Definition answer (v : fvisit) : list (Z * Z) := match v with Ret s r => [(s, r)] | _ => [] end.
  Inductive fstep : fstate -> fstate -> Prop :=
  | fdeliver t pool res k v t' sends :
      nth_error pool k = Some v -> fexec t v = (t', sends) ->
      fstep (t, pool, res) (t', remove_nth k pool ++ sends, answer v ++ res).
  Inductive fsteps : fstate -> fstate -> Prop :=
  | fsteps_refl s : fsteps s s
  | fsteps_cons s s1 s2 : fstep s s1 -> fsteps s1 s2 -> fsteps s s2.

  (* pending work for source item x: walks still looking for its root, answers not yet delivered *)
  Definition pend1 (x : Z) (v : fvisit) : nat :=
    match v with Find _ s | Ret s _ => if s =? x then 1%nat else 0%nat | SetPar _ _ => 0%nat end.
  Definition pend (x : Z) (pool : list fvisit) : nat := list_sum (map (pend1 x) pool).
  Definition got (x : Z) (res : list (Z * Z)) : nat := length (filter (fun sr => fst sr =? x) res).

  Variable items : list Z.
  Definition start : fstate := (t0, map (fun x => Find x x) items, []).
  Definition wanted (x : Z) : nat := length (filter (Z.eqb x) items).

  Definition FS (s : fstate) : Prop :=
    let '(t, pool, res) := s in
    FInv t /\ Forall FV pool /\ (forall sr, In sr res -> root t0 (fst sr) (snd sr)) /\
    forall x, (pend x pool + got x res = wanted x)%nat.

  Lemma pend_app x a b : pend x (a ++ b) = (pend x a + pend x b)%nat.
  Proof. unfold pend. rewrite map_app, list_sum_app. reflexivity. Qed.
  Lemma pend_remove x k pool v : nth_error pool k = Some v -> (pend x (remove_nth k pool) + pend1 x v = pend x pool)%nat.
  Proof.
    revert k; induction pool as [|y pool IH]; intros k Hk; [destruct k; discriminate|].
    destruct k as [|k]; cbn in Hk.
    - injection Hk as ->. unfold pend, list_sum. cbn [remove_nth map fold_right]. lia.
    - cbn [remove_nth]. specialize (IH k Hk). unfold pend, list_sum in *. cbn [map fold_right]. lia.
  Qed.

  Lemma pend_start x l : pend x (map (fun y => Find y y) l) = length (filter (Z.eqb x) l).
  Proof.
    induction l as [|y l IH]; [reflexivity|]. unfold pend, list_sum in *. cbn [map fold_right filter pend1].
    rewrite (Z.eqb_sym x y). destruct (y =? x); cbn [length]; rewrite IH; reflexivity.
  Qed.

  Lemma start_FS : FS start.
  Proof.
    unfold start. cbn. split; [split; [exact HI0|auto]|]. split; [|split; [intros sr []|]].
    - apply Forall_forall. intros v Hv. apply in_map_iff in Hv as (x & <- & _). cbn. apply conn_refl, HI0.
    - intros x. unfold got, wanted. cbn [filter length]. rewrite Nat.add_0_r. apply pend_start.
  Qed.

  Theorem fstep_preserves s s' : FS s -> fstep s s' -> FS s'.
  Proof.
    intros HF Hs. destruct Hs as [t pool res k v t' sends Hk He]. destruct HF as (F & HP & HRes & HCnt).
    pose proof HP as HP0. rewrite Forall_forall in HP0. pose proof (HP0 v (nth_error_In _ _ Hk)) as HV.
    destruct (fexec_ok t v t' sends F HV He) as (F' & FS').
    split; [exact F'|]. split; [apply Forall_app; split; [apply Forall_remove_nth, HP|exact FS']|]. split.
    - intros sr Hin. apply in_app_or in Hin as [Hin|Hin]; [|apply HRes, Hin].
      destruct v; cbn in Hin; try contradiction. destruct Hin as [<-|[]]. exact HV.
    - intros x. specialize (HCnt x). pose proof (pend_remove x k pool v Hk) as Pr. rewrite pend_app.
      assert (E : (pend x sends + got x (answer v ++ res) = pend1 x v + got x res)%nat).
      { destruct v as [me src|y r|src rep]; cbn [fexec] in He.
        - destruct (parent_of (ensure t me) me =? me); injection He as _ <-; unfold pend, got; cbn; destruct (src =? x); cbn; lia.
        - destruct (lookup (ensure t y) y); injection He as _ <-; unfold pend, got; cbn; lia.
        - injection He as _ <-. unfold pend, got. cbn. destruct (src =? x); cbn; lia. }
      lia.
  Qed.

  Lemma fsteps_FS s : fsteps start s -> FS s.
  Proof.
    intros H. remember start as s0 eqn:E0. assert (G0 : FS s0) by (subst; apply start_FS). clear E0.
    induction H as [s|s s1 s2 Hs _ IH]; [exact G0|]. apply IH. apply (fstep_preserves s s1 G0 Hs).
  Qed.

  (* at every moment: the answers so far are the roots of the forest all_find started from, which compression never changes *)
  Theorem all_find_answers_are_roots t pool res :
    fsteps start (t, pool, res) ->
    (forall x rep, In (x, rep) res -> root t0 x rep) /\ Inv t /\ (forall a b, conn t a b <-> conn t0 a b).
  Proof.
    intros H. destruct (fsteps_FS _ H) as (F & _ & HRes & _). split; [intros x rep Hin; apply (HRes (x, rep) Hin)|].
    split; [apply F|]. apply (FInv_same t F).
  Qed.

  (* nothing pending: every requested item got exactly as many answers as it was requested, each of them its root *)
  Theorem all_find_complete t res :
    fsteps start (t, [], res) ->
    forall x, got x res = wanted x /\ forall rep, In (x, rep) res -> root t0 x rep.
  Proof.
    intros H x. destruct (fsteps_FS _ H) as (_ & _ & HRes & HCnt). split; [specialize (HCnt x); cbn in HCnt; exact HCnt|].
    intros rep Hin. apply (HRes (x, rep) Hin).
  Qed.

  (* equal representatives == same set *)
  Corollary all_find_equal_reps_iff_connected t pool res x y rx ry :
    fsteps start (t, pool, res) -> In (x, rx) res -> In (y, ry) res -> (rx = ry <-> conn t0 x y).
  Proof.
    intros H Hx Hy. destruct (all_find_answers_are_roots t pool res H) as (HR & _ & _).
    pose proof (HR x rx Hx) as Rx. pose proof (HR y ry Hy) as Ry. split.
    - intros <-. exists rx. split; assumption.
    - intros (r & A & B). rewrite (root_det t0 x rx Rx r A), (root_det t0 y ry Ry r B). reflexivity.
  Qed.
End AllFind.
