(* Properties_C04.v — C04: routing schemes deliver along their promised hop
   structure on every n x p block layout.  Only statements; every proof is
   [exact <lemma of Router.v>].  [router_next_hop] is the definition generated
   from /repo/include/ygm/detail/comm_router.hpp on this run. *)
From Coq Require Import ZArith List Bool Lia.
Import ListNotations.
From Ygm Require Import Gen.CArith Gen.Gen_layout Gen.Gen_router Layout Router.
Local Open Scope Z_scope.

(* The code (as generated from the header) computes the specified next hop, and
   is total: no out-of-range subscript, no int overflow, no exception — for
   every layout with n*p <= 2^30 ranks, every rank, destination and scheme. *)
Theorem C04_code_is_spec : forall n p me dest sch,
  wf_np n p -> 0 <= me < n * p -> 0 <= dest < n * p ->
  sch = RT_NONE \/ sch = RT_NR \/ sch = RT_NLNR ->
  router_next_hop {| m_layout := block_layout n p me |} (Some dest) (Some sch)
  = Some (next_hop_spec sch n p me dest).
Proof. exact Gen_router_correct. Qed.
Print Assumptions C04_code_is_spec.

(* NONE: one direct hop *)
Theorem C04_route_none : forall n p src dst,
  0 < n -> 0 < p -> 0 <= src < n * p -> 0 <= dst < n * p ->
  route RT_NONE n p src dst = Some [dst].
Proof. exact route_shape_none. Qed.
Print Assumptions C04_route_none.

(* NR: at most two hops, off-node (equal on-node index) then on-node *)
Theorem C04_route_nr : forall n p src dst,
  0 < n -> 0 < p -> 0 <= src < n * p -> 0 <= dst < n * p ->
  exists r, route RT_NR n p src dst = Some r /\ last r src = dst /\
    (r = [dst] /\ (on_node p src dst \/ (off_node p src dst /\ zloc p src = zloc p dst))
     \/ exists h, r = [h; dst] /\ h <> dst /\ h <> src /\ off_node p src h /\ zloc p src = zloc p h /\
                  on_node p h dst /\ 0 <= h < n * p).
Proof. exact route_shape_nr. Qed.
Print Assumptions C04_route_nr.

(* NLNR: at most three hops on/off/on, off-node hop joins equal indices, ends
   at dst, never revisits a rank *)
Theorem C04_route_nlnr : forall n p src dst,
  0 < n -> 0 < p -> 0 <= src < n * p -> 0 <= dst < n * p ->
  exists r, route RT_NLNR n p src dst = Some r /\ last r src = dst /\
            nlnr_shape p src dst r /\ (length r <= 3)%nat /\
            (forall x, In x r -> 0 <= x < n * p) /\
            (src <> dst -> NoDup (src :: r)).
Proof. exact route_shape_nlnr. Qed.
Print Assumptions C04_route_nlnr.

(* NLNR: one sender/receiver pair per ordered pair of nodes *)
Theorem C04_nlnr_single_pair : forall n p src dst r x y,
  0 < n -> 0 < p -> 0 <= src < n * p -> 0 <= dst < n * p ->
  route RT_NLNR n p src dst = Some r -> In (x, y) (legs src r) -> off_node p x y ->
  let a := znode p src in let b := znode p dst in
  x = a * p + (a + b) mod p /\ y = b * p + (a + b) mod p.
Proof. exact nlnr_single_pair. Qed.
Print Assumptions C04_nlnr_single_pair.

(* NLNR's off-node pairs are a subset of NR's *)
Theorem C04_nlnr_pairs_subset_nr : forall n p src dst r x y,
  0 < n -> 0 < p -> 0 <= src < n * p -> 0 <= dst < n * p ->
  route RT_NLNR n p src dst = Some r -> In (x, y) (legs src r) -> off_node p x y ->
  exists src' dst' r', 0 <= src' < n * p /\ 0 <= dst' < n * p /\
    route RT_NR n p src' dst' = Some r' /\ In (x, y) (legs src' r').
Proof. exact nlnr_pairs_subset_nr. Qed.
Print Assumptions C04_nlnr_pairs_subset_nr.
