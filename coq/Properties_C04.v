(* Properties_C04.v — C04: routing schemes deliver along their promised hop
   structure on every n x p block layout.  Only statements; every proof is
   [exact <lemma of Router.v>].  [router_next_hop] is the definition generated
   from /repo/include/ygm/detail/comm_router.hpp on this run. *)
From Coq Require Import ZArith List Bool Lia.
Import ListNotations.
From Ygm Require Import Gen.CArith Gen.Gen_layout Gen.Gen_router Layout Router.
Local Open Scope Z_scope.

(* The code (as generated from the header) computes the specified next hop, and
   is total: no out-of-range subscript, no int overflow, no exception — for
   every layout with n*p <= 2^30 ranks, every rank, destination and scheme. *)
Theorem C04_code_is_spec : forall n p me dest sch,
  wf_np n p -> 0 <= me < n * p -> 0 <= dest < n * p ->
  sch = RT_NONE \/ sch = RT_NR \/ sch = RT_NLNR ->
  router_next_hop {| m_layout := block_layout n p me |} (Some dest) (Some sch)
  = Some (next_hop_spec sch n p me dest).
Proof. exact Gen_router_correct. Qed.
Print Assumptions C04_code_is_spec.

(* NONE: one direct hop *)
Theorem C04_route_none : forall n p src dst,
  0 < n -> 0 < p -> 0 <= src < n * p -> 0 <= dst < n * p ->
  route RT_NONE n p src dst = Some [dst].
Proof. exact route_shape_none. Qed.
Print Assumptions C04_route_none.

(* NR: at most two hops, off-node (equal on-node index) then on-node *)
Theorem C04_route_nr : forall n p src dst,
  0 < n -> 0 < p -> 0 <= src < n * p -> 0 <= dst < n * p ->
  exists r, route RT_NR n p src dst = Some r /\ last r src = dst /\
    (r = [dst] /\ (on_node p src dst \/ (off_node p src dst /\ zloc p src = zloc p dst))
     \/ exists h, r = [h; dst] /\ h <> dst /\ h <> src /\ off_node p src h /\ zloc p src = zloc p h /\
                  on_node p h dst /\ 0 <= h < n * p).
Proof. exact route_shape_nr. Qed.
Print Assumptions C04_route_nr.

(* NLNR: at most three hops on/off/on, off-node hop joins equal indices, ends
   at dst, never revisits a rank *)
Theorem C04_route_nlnr : forall n p src dst,
  0 < n -> 0 < p -> 0 <= src < n * p -> 0 <= dst < n * p ->
  exists r, route RT_NLNR n p src dst = Some r /\ last r src = dst /\
            nlnr_shape p src dst r /\ (length r <= 3)%nat /\
            (forall x, In x r -> 0 <= x < n * p) /\
            (src <> dst -> NoDup (src :: r)).
Proof. exact route_shape_nlnr. Qed.
Print Assumptions C04_route_nlnr.

(* NLNR: one sender/receiver pair per ordered pair of nodes *)
Theorem C04_nlnr_single_pair : forall n p src dst r x y,
  0 < n -> 0 < p -> 0 <= src < n * p -> 0 <= dst < n * p ->
  route RT_NLNR n p src dst = Some r -> In (x, y) (legs src r) -> off_node p x y ->
  let a := znode p src in let b := znode p dst in
  x = a * p + (a + b) mod p /\ y = b * p + (a + b) mod p.
Proof. exact nlnr_single_pair. Qed.
Print Assumptions C04_nlnr_single_pair.

(* NLNR's off-node pairs are a subset of NR's *)
Theorem C04_nlnr_pairs_subset_nr : forall n p src dst r x y,
  0 < n -> 0 < p -> 0 <= src < n * p -> 0 <= dst < n * p ->
  route RT_NLNR n p src dst = Some r -> In (x, y) (legs src r) -> off_node p x y ->
  exists src' dst' r', 0 <= src' < n * p /\ 0 <= dst' < n * p /\
    route RT_NR n p src' dst' = Some r' /\ In (x, y) (legs src' r').
Proof. exact nlnr_pairs_subset_nr. Qed.
Print Assumptions C04_nlnr_pairs_subset_nr.

(* ANY PLACEMENT OF THE RANKS ON THE NODES.  comm_router::next_hop reads the layout tables only; on the tables of any uniform
   placement (Bcast.placement_ok: rank [rk a l] has on-node index l on node a; block, round-robin, a renumbered communicator)
   the regenerated code computes [next_hop_placed], which is the block specification transported along the renumbering - and
   so are all routes. *)
From Ygm Require Import Bcast BcastCover RouterPlaced.
Theorem C04_code_is_spec_on_any_placement : forall n p rk nd lc,
  wf_np n p -> placement_ok n p rk nd lc -> forall me dest sch,
  0 <= me < n * p -> 0 <= dest < n * p -> sch = RT_NONE \/ sch = RT_NR \/ sch = RT_NLNR ->
  router_next_hop {| m_layout := placed_layout n p rk nd lc me |} (Some dest) (Some sch) = Some (next_hop_placed p rk nd lc sch me dest).
Proof. exact Gen_router_placed. Qed.
Print Assumptions C04_code_is_spec_on_any_placement.

Theorem C04_routes_are_the_block_routes_renumbered : forall n p rk nd lc,
  wf_np n p -> placement_ok n p rk nd lc -> forall sch src dst,
  0 <= src < n * p -> 0 <= dst < n * p ->
  route_placed p rk nd lc sch (to_pl p rk src) (to_pl p rk dst) = option_map (map (to_pl p rk)) (route sch n p src dst).
Proof. exact route_transport. Qed.
Print Assumptions C04_routes_are_the_block_routes_renumbered.

(* delivery: under every scheme every message reaches its destination in at most three hops through ranks of the communicator *)
Theorem C04_every_route_reaches_its_destination_on_any_placement : forall n p rk nd lc,
  wf_np n p -> placement_ok n p rk nd lc -> forall sch src dst,
  sch = RT_NONE \/ sch = RT_NR \/ sch = RT_NLNR -> 0 <= src < n * p -> 0 <= dst < n * p ->
  exists r, route_placed p rk nd lc sch src dst = Some r /\ last r src = dst /\ (length r <= 3)%nat /\
            (forall x, In x r -> 0 <= x < n * p).
Proof. exact route_placed_reaches. Qed.
Print Assumptions C04_every_route_reaches_its_destination_on_any_placement.

(* NLNR: the off-node hop from node a to node b is made by one fixed pair of ranks, on any placement *)
Theorem C04_nlnr_single_pair_on_any_placement : forall n p rk nd lc,
  wf_np n p -> placement_ok n p rk nd lc -> forall src dst r x y,
  0 <= src < n * p -> 0 <= dst < n * p ->
  route_placed p rk nd lc RT_NLNR src dst = Some r -> In (x, y) (legs src r) -> ~ on_node_pl nd x y ->
  let a := nd src in let b := nd dst in
  x = rk a ((a + b) mod p) /\ y = rk b ((a + b) mod p).
Proof. exact nlnr_placed_single_pair. Qed.
Print Assumptions C04_nlnr_single_pair_on_any_placement.

(* non-vacuity: round-robin placement of 3 nodes x 2 ranks (rank r on node r mod 3): the NLNR route 0 -> 5 (node 0 -> node 2)
   goes through rank 0's node-mate with index (0 + 2) mod 2 = 0, i.e. rank 0 itself sends off-node to rank 2, which hands to 5 *)
Example C04_round_robin_route :
  route_placed 2 (fun a l => l * 3 + a) (fun r => r mod 3) (fun r => r / 3) RT_NLNR 0 5 = Some [2; 5] /\
  route_placed 2 (fun a l => l * 3 + a) (fun r => r mod 3) (fun r => r / 3) RT_NLNR 3 2 = Some [0; 2] /\
  router_next_hop {| m_layout := cyclic_layout 3 2 3 |} (Some 2) (Some RT_NLNR) = Some 0.
Proof. vm_compute. repeat split; reflexivity. Qed.
