(* Global.v — C02, the composition: when barrier() returns on a rank, the whole communicator was quiescent.

   A global execution is a list [gtr] of (rank, ghost event) pairs: the interleaving, in real time, of the ghost
   histories of the rank machines (RankMachine.hist: send-count increments, receive-count increments at the end of a
   handler, snapshots contributed to count reductions, results stored).  What is assumed of MPI_Iallreduce:
     - [lockstep]: a rank can take its snapshot for reduction m+1 only after every rank has contributed to reduction m
       (it needs the result of m first);
     - the result of reduction m is the sum of the pairs contributed to it.
   What the rank machines provide (theorems, all programs / oracles / lengths):
     - RankCount.count_all: every contributed pair is (receive count, send count) of the contributing rank at that moment;
     - RankBarrier.barrier_exit: barrier() returns only when the last two reductions of the rank delivered the same pair
       v with fst v = snd v.
   Conclusion (Barrier.two_equal_rounds_quiescent): there is an instant t* at which every rank has entered the barrier
   (contributed to the first of the two reductions), the total number of send-count increments equals the total number
   of completed handlers (nothing queued, in flight or executing), and from which no rank issues or executes anything
   until its next snapshot. *)
From Coq Require Import ZArith List Bool Lia Arith.
Import ListNotations.
From Ygm Require Import Barrier RankMachine RankCount RankBarrier.

Definition gmap (i : nat) (g : gev) : list ev :=
  match g with GSend => [Send i] | GRecv => [Recv i] | GSnap _ _ => [Snap i] | _ => [] end.
Definition evs (p : list (nat * gev)) : list ev := flat_map (fun x => gmap (fst x) (snd x)) p.
Definition view (i : nat) (p : list (nat * gev)) : list gev := map snd (filter (fun x => Nat.eqb (fst x) i) p).

Lemma evs_app a b : evs (a ++ b) = evs a ++ evs b.
Proof. unfold evs. apply flat_map_app. Qed.
Lemma view_app i a b : view i (a ++ b) = view i a ++ view i b.
Proof. unfold view. rewrite filter_app, map_app. reflexivity. Qed.

(* counts of the abstract trace = counts in the rank's own view *)
Fixpoint cS (l : list gev) : nat := match l with [] => 0 | GSend :: t => S (cS t) | _ :: t => cS t end.
Fixpoint cR (l : list gev) : nat := match l with [] => 0 | GRecv :: t => S (cR t) | _ :: t => cR t end.
Fixpoint cK (l : list gev) : nat := match l with [] => 0 | GSnap _ _ :: t => S (cK t) | _ :: t => cK t end.

Lemma counts_evs i p : S_ i (evs p) = cS (view i p) /\ R_ i (evs p) = cR (view i p) /\ K_ i (evs p) = cK (view i p).
Proof.
  induction p as [|(j, g) p (IH1 & IH2 & IH3)]; [repeat split|].
  change (evs ((j, g) :: p)) with (gmap j g ++ evs p).
  unfold S_, R_, K_ in *. rewrite !cnt_app, IH1, IH2, IH3.
  unfold view. cbn [filter fst].
  destruct (Nat.eqb_spec j i) as [->|Hne].
  - cbn [map snd]. destruct g; unfold cnt; cbn [gmap filter is_send is_recv is_snap]; rewrite ?Nat.eqb_refl; cbn [length cS cR cK];
      repeat split; lia.
  - assert (Hni : Nat.eqb i j = false) by (apply Nat.eqb_neq; congruence).
    destruct g; unfold cnt; cbn [gmap filter is_send is_recv is_snap]; rewrite ?Hni; cbn [length]; repeat split; lia.
Qed.

Lemma nS_app a b : nS (a ++ b) = (nS a + nS b)%Z.
Proof. induction a as [|g a IH]; [reflexivity|]. destruct g; cbn [nS app]; rewrite ?IH; lia. Qed.
Lemma nR_app a b : nR (a ++ b) = (nR a + nR b)%Z.
Proof. induction a as [|g a IH]; [reflexivity|]. destruct g; cbn [nR app]; rewrite ?IH; lia. Qed.
Lemma nS_rev l : nS (rev l) = Z.of_nat (cS l).
Proof. induction l as [|g l IH]; [reflexivity|]. cbn [rev]. rewrite nS_app, IH. destruct g; cbn [nS cS]; lia. Qed.
Lemma nR_rev l : nR (rev l) = Z.of_nat (cR l).
Proof. induction l as [|g l IH]; [reflexivity|]. cbn [rev]. rewrite nR_app, IH. destruct g; cbn [nR cR]; lia. Qed.

Lemma hist_ok_split a rc sc b : hist_ok (a ++ GSnap rc sc :: b) -> rc = nR b /\ sc = nS b.
Proof. induction a as [|g a IH]; cbn; [tauto|]. destruct g; try exact IH. intros (_ & _ & H). apply IH, H. Qed.

(* the pair a rank contributes to a reduction is its (receive count, send count) at that point of the global execution *)
Lemma payload_is_count i gtr h p q rc sc :
  view i gtr = rev h -> hist_ok h -> gtr = p ++ (i, GSnap rc sc) :: q ->
  rc = Z.of_nat (R_ i (evs p)) /\ sc = Z.of_nat (S_ i (evs p)).
Proof.
  intros Hv Hok ->. rewrite view_app in Hv. unfold view at 2 in Hv. cbn [filter fst] in Hv. rewrite Nat.eqb_refl in Hv. cbn [map snd] in Hv.
  fold (view i q) in Hv.
  assert (Eh : h = rev (view i q) ++ GSnap rc sc :: rev (view i p)).
  { rewrite <- (rev_involutive h), <- Hv. rewrite rev_app_distr. cbn [rev]. rewrite <- app_assoc. reflexivity. }
  rewrite Eh in Hok. destruct (hist_ok_split _ _ _ _ Hok) as (-> & ->).
  destruct (counts_evs i p) as (A & B & _). rewrite A, B, nR_rev, nS_rev. split; reflexivity.
Qed.

Fixpoint sumZ (n : nat) (f : nat -> Z) : Z := match n with O => 0%Z | S m => (sumZ m f + f m)%Z end.
Lemma sumZ_of_nat n f : sumZ n (fun i => Z.of_nat (f i)) = Z.of_nat (sum n f).
Proof. induction n as [|n IH]; cbn; [reflexivity|]. rewrite IH. lia. Qed.
Lemma sumZ_ext n f g : (forall i, i < n -> f i = g i) -> sumZ n f = sumZ n g.
Proof. induction n as [|n IH]; intros H; cbn; [reflexivity|]. rewrite IH by (intros; apply H; lia). rewrite H by lia. reflexivity. Qed.

Section Global.
  Variable n : nat.                       (* number of ranks *)
  Variable gtr : list (nat * gev).        (* the global execution so far *)
  Variable hs : nat -> list gev.          (* hist of every rank machine, at this moment *)
  Hypothesis Hn : 0 < n.
  (* the global execution is an interleaving of the ranks' ghost histories *)
  Hypothesis Hview : forall i, i < n -> view i gtr = rev (hs i).
  (* every rank machine keeps its counters (RankCount.count_all: holds in every reachable state) *)
  Hypothesis Hcnt : forall i, i < n -> hist_ok (hs i).
  (* MPI_Iallreduce: a rank takes its snapshot for the next reduction only after every rank contributed to the current one *)
  Hypothesis Hlock : lockstep n (evs gtr).

  (* rank j has just returned from barrier(): its last two reductions, numbers k and k+1, delivered the same pair v
     with fst v = snd v (RankBarrier.barrier_exit) *)
  Variable k : nat.
  Variable v : Z * Z.
  Hypothesis Hbal : fst v = snd v.
  (* the contributions of all ranks to reductions k and k+1 ... *)
  Variables pk qk pk1 qk1 : nat -> list (nat * gev).
  Variables rc sc rc1 sc1 : nat -> Z.
  Hypothesis Hk : forall i, i < n -> gtr = pk i ++ (i, GSnap (rc i) (sc i)) :: qk i /\ cK (view i (pk i)) = k.
  Hypothesis Hk1 : forall i, i < n -> gtr = pk1 i ++ (i, GSnap (rc1 i) (sc1 i)) :: qk1 i /\ cK (view i (pk1 i)) = S k.
  (* ... and MPI_Iallreduce delivered their sums *)
  Hypothesis Hres : v = (sumZ n rc, sumZ n sc).
  Hypothesis Hres1 : v = (sumZ n rc1, sumZ n sc1).

  Theorem barrier_return_means_global_quiescence :
    exists tstar rest, evs gtr = tstar ++ rest /\
      (forall i, i < n ->
         K_ i tstar = S k /\                                        (* every rank is inside the barrier ... *)
         (exists e, tstar = evs (pk i) ++ Snap i :: e) /\
         (exists e, evs (pk1 i) = tstar ++ e) /\
         R_ i tstar = R_ i (evs (pk1 i)) /\ S_ i tstar = S_ i (evs (pk1 i))) /\   (* ... and does nothing until its next snapshot *)
      totS n tstar = totR n tstar.                                  (* every message issued has been executed *)
  Proof.
    assert (P0 : forall i, i < n -> rc i = Z.of_nat (R_ i (evs (pk i))) /\ sc i = Z.of_nat (S_ i (evs (pk i)))).
    { intros i Hi. destruct (Hk i Hi) as (E & _). apply (payload_is_count i gtr (hs i) (pk i) (qk i)); auto. }
    assert (P1 : forall i, i < n -> rc1 i = Z.of_nat (R_ i (evs (pk1 i))) /\ sc1 i = Z.of_nat (S_ i (evs (pk1 i)))).
    { intros i Hi. destruct (Hk1 i Hi) as (E & _). apply (payload_is_count i gtr (hs i) (pk1 i) (qk1 i)); auto. }
    assert (Sk : forall i, i < n -> evs gtr = evs (pk i) ++ Snap i :: evs (qk i) /\ K_ i (evs (pk i)) = k).
    { intros i Hi. destruct (Hk i Hi) as (E & Kk). split.
      - rewrite E at 1. rewrite evs_app. reflexivity.
      - destruct (counts_evs i (pk i)) as (_ & _ & C). rewrite C. exact Kk. }
    assert (Sk1 : forall i, i < n -> evs gtr = evs (pk1 i) ++ Snap i :: evs (qk1 i) /\ K_ i (evs (pk1 i)) = S k).
    { intros i Hi. destruct (Hk1 i Hi) as (E & Kk). split.
      - rewrite E at 1. rewrite evs_app. reflexivity.
      - destruct (counts_evs i (pk1 i)) as (_ & _ & C). rewrite C. exact Kk. }
    (* the sums, in nat *)
    assert (ER : sumZ n rc = Z.of_nat (sum n (fun i => R_ i (evs (pk i))))).
    { rewrite <- sumZ_of_nat. apply sumZ_ext. intros i Hi. apply (P0 i Hi). }
    assert (ES : sumZ n sc = Z.of_nat (sum n (fun i => S_ i (evs (pk i))))).
    { rewrite <- sumZ_of_nat. apply sumZ_ext. intros i Hi. apply (P0 i Hi). }
    assert (ER1 : sumZ n rc1 = Z.of_nat (sum n (fun i => R_ i (evs (pk1 i))))).
    { rewrite <- sumZ_of_nat. apply sumZ_ext. intros i Hi. apply (P1 i Hi). }
    assert (ES1 : sumZ n sc1 = Z.of_nat (sum n (fun i => S_ i (evs (pk1 i))))).
    { rewrite <- sumZ_of_nat. apply sumZ_ext. intros i Hi. apply (P1 i Hi). }
    assert (V0 : fst v = sumZ n rc /\ snd v = sumZ n sc) by (rewrite Hres; split; reflexivity).
    assert (V1 : fst v = sumZ n rc1 /\ snd v = sumZ n sc1) by (rewrite Hres1; split; reflexivity).
    destruct V0 as (V0a & V0b). destruct V1 as (V1a & V1b).
    assert (HRS : sum n (fun i => R_ i (evs (pk i))) = sum n (fun i => S_ i (evs (pk i)))) by lia.
    assert (HRR : sum n (fun i => R_ i (evs (pk i))) = sum n (fun i => R_ i (evs (pk1 i)))) by lia.
    assert (HSS : sum n (fun i => S_ i (evs (pk i))) = sum n (fun i => S_ i (evs (pk1 i)))) by lia.
    destruct (two_equal_rounds_quiescent n (evs gtr) k (fun i => evs (pk i)) (fun i => evs (qk i)) (fun i => evs (pk1 i)) (fun i => evs (qk1 i))
                Hn Hlock Sk Sk1 HRS HRR HSS) as (tstar & rest & Et & Hall & Htot).
    exists tstar, rest. split; [exact Et|]. split; [|exact Htot].
    intros i Hi. destruct (Hall i Hi) as (A & B & C0 & D1 & D2 & D3 & D4). repeat split; try assumption; congruence.
  Qed.
End Global.

(* ---- the hypotheses are satisfiable: two ranks, one message ---- *)
Lemma lockstep_b_aux_sound n : forall tr seen, lockstep_b_aux n seen tr = true ->
  forall p q i, tr = p ++ Snap i :: q -> forall j, j < n -> K_ i (rev seen ++ p) <= K_ j (rev seen ++ p).
Proof.
  induction tr as [|e t IH]; intros seen H p q i E j Hj; [destruct p; discriminate|].
  cbn [lockstep_b_aux] in H. apply andb_prop in H as (H1 & H2).
  destruct p as [|e' p'].
  - cbn in E. injection E as -> _. rewrite app_nil_r. rewrite forallb_forall in H1.
    apply Nat.leb_le. apply H1. apply in_seq. lia.
  - cbn in E. injection E as <- E. specialize (IH (e :: seen) H2 p' q i E j Hj).
    cbn [rev] in IH. rewrite <- app_assoc in IH. exact IH.
Qed.
Lemma lockstep_b_sound n tr : lockstep_b n tr = true -> lockstep n tr.
Proof. intros H p q i E j Hj. apply (lockstep_b_aux_sound n tr [] H p q i E j Hj). Qed.

Definition ex_gtr : list (nat * gev) :=
  [(0, GSend); (0, GSnap 0 1); (1, GSnap 0 0); (0, GRes (0, 1)%Z); (1, GRes (0, 1)%Z); (1, GRecv);
   (0, GSnap 0 1); (1, GSnap 1 0); (0, GRes (1, 1)%Z); (1, GRes (1, 1)%Z);
   (0, GSnap 0 1); (1, GSnap 1 0); (0, GRes (1, 1)%Z); (1, GRes (1, 1)%Z)].
Definition pick {A} (a b : A) (i : nat) : A := match i with O => a | _ => b end.

Example quiescence_theorem_not_vacuous :
  exists tstar rest, evs ex_gtr = tstar ++ rest /\ totS 2 tstar = totR 2 tstar /\ totS 2 tstar = 1.
Proof.
  set (hs := fun i => rev (view i ex_gtr)).
  assert (Hv : forall i, i < 2 -> view i ex_gtr = rev (hs i)) by (intros i _; unfold hs; rewrite rev_involutive; reflexivity).
  assert (Hc : forall i, i < 2 -> hist_ok (hs i)).
  { intros [|[|?]] ?; [vm_compute; repeat split; reflexivity|vm_compute; repeat split; reflexivity|lia]. }
  assert (Hl : lockstep 2 (evs ex_gtr)) by (apply lockstep_b_sound; reflexivity).
  destruct (barrier_return_means_global_quiescence 2 ex_gtr hs ltac:(lia) Hv Hc Hl
              1 (1, 1)%Z eq_refl
              (pick (firstn 6 ex_gtr) (firstn 7 ex_gtr)) (pick (skipn 7 ex_gtr) (skipn 8 ex_gtr))
              (pick (firstn 10 ex_gtr) (firstn 11 ex_gtr)) (pick (skipn 11 ex_gtr) (skipn 12 ex_gtr))
              (pick 0%Z 1%Z) (pick 1%Z 0%Z) (pick 0%Z 1%Z) (pick 1%Z 0%Z))
    as (tstar & rest & E & Hall & Htot).
  - intros [|[|?]] ?; [split; reflexivity|split; reflexivity|lia].
  - intros [|[|?]] ?; [split; reflexivity|split; reflexivity|lia].
  - reflexivity.
  - reflexivity.
  - exists tstar, rest. split; [exact E|]. split; [exact Htot|].
    destruct (Hall 0 ltac:(lia)) as (_ & _ & _ & _ & S0). destruct (Hall 1 ltac:(lia)) as (_ & _ & _ & _ & S1).
    unfold totS. cbn [sum]. rewrite S0, S1. reflexivity.
Qed.
