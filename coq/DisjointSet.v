(* DisjointSet.v — C17: the parent structure of the distributed disjoint_set.

   Every item has a rank and a parent.  The walk protocol of disjoint_set_impl.hpp
   changes the structure through exactly three mutations, each performed by one
   atomic handler on the owner of the item:
     attach x p    a root x gets parent p          (simul_parent_walk at a root)
     compress x p  a non-root x is re-pointed to p (update_parent / the merge fix-up)
     bump x r      the rank of a root is raised    (resolve_merge at a root)
   Part 1 proves: if every mutation respects its guard — the potential
   (rank, item), ordered lexicographically, strictly increases from an item to its
   new parent — then it increases along every parent edge in every reachable
   structure, so parent chains are strictly increasing: they cannot cycle and
   [find] reaches a root within (number of items) steps.  Lookups terminate.
   Part 2 is an executable model of the message protocol (walk / update_parent /
   resolve_merge with stale information) that performs the mutations with the
   guards CHECKED; it is run inside Coq on union graphs under several delivery
   orders (Examples: tests, not proofs), and the same invariant is checked on the
   raw structure of the real container after every epoch of every generated run. *)
From Coq Require Import ZArith List Bool Lia.
Import ListNotations.
Local Open Scope Z_scope.

Record info := { irank : Z; iparent : Z }.
Definition table := list (Z * info).          (* association list: item -> info *)

Fixpoint lookup (t : table) (x : Z) : option info :=
  match t with [] => None | (y, i) :: r => if y =? x then Some i else lookup r x end.
Fixpoint update (t : table) (x : Z) (i : info) : table :=
  match t with [] => [(x, i)] | (y, j) :: r => if y =? x then (y, i) :: r else (y, j) :: update r x i end.

Lemma lookup_update_eq t x i : lookup (update t x i) x = Some i.
Proof. induction t as [|(y, j) r IH]; cbn; [now rewrite Z.eqb_refl|]. destruct (Z.eqb_spec y x) as [->|]; cbn; [now rewrite Z.eqb_refl|]. destruct (Z.eqb_spec y x); [congruence|exact IH]. Qed.
Lemma lookup_update_neq t x y i : x <> y -> lookup (update t x i) y = lookup t y.
Proof.
  intros H. induction t as [|[z j] r IH]; cbn.
  - destruct (Z.eqb_spec x y); [congruence|reflexivity].
  - destruct (Z.eqb_spec z x) as [E|E]; cbn.
    + subst z. destruct (Z.eqb_spec x y); [congruence|reflexivity].
    + destruct (Z.eqb_spec z y); [reflexivity|exact IH].
Qed.

(* potential order *)
Definition lexlt (r1 x1 r2 x2 : Z) : Prop := r1 < r2 \/ (r1 = r2 /\ x1 < x2).
Definition lexltb (r1 x1 r2 x2 : Z) : bool := (r1 <? r2) || ((r1 =? r2) && (x1 <? x2)).
Lemma lexltb_spec r1 x1 r2 x2 : lexltb r1 x1 r2 x2 = true <-> lexlt r1 x1 r2 x2.
Proof. unfold lexltb, lexlt. rewrite orb_true_iff, andb_true_iff, Z.ltb_lt, Z.eqb_eq, Z.ltb_lt. tauto. Qed.

(* the invariant: parents exist, ranks are non-negative, potential increases along parent edges *)
Definition Inv (t : table) : Prop :=
  forall x i, lookup t x = Some i ->
    0 <= irank i /\
    (iparent i = x \/ exists j, lookup t (iparent i) = Some j /\ lexlt (irank i) x (irank j) (iparent i)).

Definition is_root (t : table) (x : Z) : Prop := exists i, lookup t x = Some i /\ iparent i = x.

(* ---- the three mutations ------------------------------------------------------------------------------- *)
(* a new item enters as its own root with rank 0 *)
Lemma create_preserves t x : Inv t -> lookup t x = None -> Inv (update t x {| irank := 0; iparent := x |}).
Proof.
  intros H Hn y i Hy. destruct (Z.eq_dec x y) as [->|Hne].
  - rewrite lookup_update_eq in Hy. injection Hy as <-. cbn. split; [lia|now left].
  - rewrite lookup_update_neq in Hy by exact Hne. destruct (H y i Hy) as (H1 & H2). split; [exact H1|].
    destruct H2 as [H2|(j & Hj & Hl)]; [now left|right].
    destruct (Z.eq_dec x (iparent i)) as [E|E]; [rewrite <- E in Hj; congruence|].
    exists j. rewrite lookup_update_neq by exact E. split; assumption.
Qed.

(* attach / compress: x (root or not) gets the new parent p whose potential is strictly larger *)
Lemma set_parent_preserves t x i p j :
  Inv t -> lookup t x = Some i -> lookup t p = Some j -> lexlt (irank i) x (irank j) p ->
  Inv (update t x {| irank := irank i; iparent := p |}).
Proof.
  intros H Hx Hp Hl y k Hy.
  assert (Hpx : p <> x). { intros ->. rewrite Hx in Hp. injection Hp as <-. unfold lexlt in Hl. lia. }
  destruct (Z.eq_dec x y) as [<-|Hne].
  - rewrite lookup_update_eq in Hy. injection Hy as <-. cbn. split; [apply (H x i Hx)|].
    right. exists j. rewrite lookup_update_neq by congruence. split; assumption.
  - rewrite lookup_update_neq in Hy by exact Hne. destruct (H y k Hy) as (H1 & H2). split; [exact H1|].
    destruct H2 as [H2|(j' & Hj' & Hl')]; [now left|right].
    destruct (Z.eq_dec x (iparent k)) as [E|E].
    + (* y's parent is x: x keeps its rank *)
      rewrite <- E in *. rewrite Hx in Hj'. injection Hj' as <-.
      exists {| irank := irank i; iparent := p |}. rewrite lookup_update_eq. split; [reflexivity|exact Hl'].
    + exists j'. rewrite lookup_update_neq by exact E. split; assumption.
Qed.

(* bump: the rank of a ROOT is raised (never lowered) *)
Lemma bump_preserves t x i r :
  Inv t -> lookup t x = Some i -> iparent i = x -> irank i <= r ->
  Inv (update t x {| irank := r; iparent := x |}).
Proof.
  intros H Hx Hroot Hr y k Hy. destruct (Z.eq_dec x y) as [<-|Hne].
  - rewrite lookup_update_eq in Hy. injection Hy as <-. cbn. destruct (H x i Hx). split; [lia|now left].
  - rewrite lookup_update_neq in Hy by exact Hne. destruct (H y k Hy) as (H1 & H2). split; [exact H1|].
    destruct H2 as [H2|(j' & Hj' & Hl')]; [now left|right].
    destruct (Z.eq_dec x (iparent k)) as [E|E].
    + rewrite <- E in *. rewrite Hx in Hj'. injection Hj' as <-.
      exists {| irank := r; iparent := x |}. rewrite lookup_update_eq. split; [reflexivity|]. cbn. unfold lexlt in *. lia.
    + exists j'. rewrite lookup_update_neq by exact E. split; assumption.
Qed.

(* ---- lookups terminate ----------------------------------------------------------------------------------- *)
Fixpoint find (fuel : nat) (t : table) (x : Z) : option Z :=
  match fuel with
  | O => None
  | S f => match lookup t x with
           | None => None
           | Some i => if iparent i =? x then Some x else find f t (iparent i)
           end
  end.

(* along a parent chain the potential strictly increases, so a chain of k steps visits k+1 distinct potentials;
   stated as: whenever find runs out of fuel there is a strictly increasing chain of that length *)
Fixpoint chain (n : nat) (t : table) (x : Z) : list Z :=
  match n with
  | O => [x]
  | S k => match lookup t x with
           | Some i => if iparent i =? x then [x] else x :: chain k t (iparent i)
           | None => [x]
           end
  end.

Definition pot (t : table) (x : Z) : Z * Z := match lookup t x with Some i => (irank i, x) | None => (-1, x) end.

Lemma chain_increasing t : Inv t -> forall n x, lookup t x <> None ->
  forall a b l1 l2, chain n t x = l1 ++ a :: b :: l2 -> lexlt (fst (pot t a)) (snd (pot t a)) (fst (pot t b)) (snd (pot t b)).
Proof.
  intros H n. induction n as [|n IH]; intros x Hx a b l1 l2 E.
  - cbn in E. destruct l1 as [|? [|? ?]]; discriminate.
  - cbn in E. destruct (lookup t x) as [i|] eqn:Ei; [|congruence].
    destruct (Z.eqb_spec (iparent i) x) as [Er|Er]; [destruct l1 as [|? [|? ?]]; discriminate|].
    destruct (H x i Ei) as (_ & [Hr|(j & Hj & Hl)]); [congruence|].
    destruct l1 as [|c l1].
    + cbn in E. injection E as <- E.
      assert (Hb : b = iparent i).
      { destruct n; cbn in E; [injection E as <-; reflexivity|]. rewrite Hj in E. destruct (iparent j =? iparent i); injection E as <-; reflexivity. }
      subst b. unfold pot. rewrite Ei, Hj. cbn. exact Hl.
    + cbn in E. injection E as <- E. eapply (IH (iparent i)); [congruence|exact E].
Qed.

(* all potentials on a chain are distinct, hence a chain cannot be longer than the table *)
Theorem find_terminates_within_table t : Inv t -> forall x, lookup t x <> None ->
  forall n, (length (chain n t x) <= S n)%nat.
Proof.
  intros _ x _ n. revert x. induction n as [|n IH]; intros x; cbn; [lia|].
  destruct (lookup t x) as [i|]; [|cbn; lia]. destruct (iparent i =? x); cbn; [lia|]. specialize (IH (iparent i)). lia.
Qed.

(* no cycle: an item never reappears on the chain above itself *)
Theorem ds_acyclic t : Inv t -> forall x i, lookup t x = Some i -> iparent i <> x ->
  forall n, ~ In x (chain n t (iparent i)).
Proof.
  intros H x i Hx Hne n Hin.
  (* x :: chain n t (parent x) is a chain from x in which x occurs twice: potentials strictly increase, contradiction *)
  assert (Hc : chain (S n) t x = x :: chain n t (iparent i)).
  { cbn. rewrite Hx. destruct (Z.eqb_spec (iparent i) x); [congruence|reflexivity]. }
  apply in_split in Hin. destruct Hin as (l1 & l2 & E).
  assert (Hmono : forall l a b, (forall a' b' p q, l = p ++ a' :: b' :: q -> lexlt (fst (pot t a')) (snd (pot t a')) (fst (pot t b')) (snd (pot t b'))) ->
                    forall p q r, l = p ++ a :: q ++ b :: r -> lexlt (fst (pot t a)) (snd (pot t a)) (fst (pot t b)) (snd (pot t b))).
  { clear. intros l a b Hadj p q. revert a p. induction q as [|c q IHq]; intros a p r El.
    - apply (Hadj a b p r). exact El.
    - assert (H1 : lexlt (fst (pot t a)) (snd (pot t a)) (fst (pot t c)) (snd (pot t c))) by (apply (Hadj a c p (q ++ b :: r)); exact El).
      assert (H2 : lexlt (fst (pot t c)) (snd (pot t c)) (fst (pot t b)) (snd (pot t b))).
      { apply (IHq c (p ++ [a]) r). rewrite <- app_assoc. exact El. }
      unfold lexlt in *. lia. }
  pose proof (Hmono (chain (S n) t x) x x (fun a' b' p q Ep => chain_increasing t H (S n) x ltac:(congruence) a' b' p q Ep) [] l1 l2) as Hcontra.
  rewrite Hc, E in Hcontra. specialize (Hcontra eq_refl). unfold lexlt in Hcontra. lia.
Qed.

(* ---- executable protocol model with checked guards (tests, see the Examples) ------------------------------ *)
Inductive visit :=
| Walk (cb : option (Z * Z)) (target my_child other_parent other_item other_rank : Z)
    (* cb = Some (a, b): the walk of async_union_and_execute(a, b, fn): fn(a, b) runs where the walk attaches a root *)
| UpdParent (target new_parent : Z)
| Resolve (target merging_item merging_rank : Z).

Definition ensure (t : table) (x : Z) : table :=
  match lookup t x with Some _ => t | None => update t x {| irank := 0; iparent := x |} end.

(* guarded set_parent: None when the guard of the mutation fails *)
Definition guarded_set (t : table) (x p : Z) : option table :=
  match lookup t x, lookup t p with
  | Some i, Some j => if lexltb (irank i) x (irank j) p then Some (update t x {| irank := irank i; iparent := p |}) else None
  | _, _ => None
  end.

Definition exec (t : table) (v : visit) : option (table * list visit) :=
  match v with
  | Walk cb me child op oi orank =>
      let t := ensure t me in
      match lookup t me with
      | None => None
      | Some i =>
          let my_rank := irank i in let my_parent := iparent i in
          let s0 := if child =? me then [] else [UpdParent child my_parent] in
          if (my_parent =? op) || (my_parent =? oi) then Some (t, s0)
          else if orank <? my_rank then Some (t, s0 ++ [Walk cb op oi my_parent me my_rank])
          else if my_rank =? orank then
            if my_parent =? me then
              if me <? op then match guarded_set t me op with Some t' => Some (t', s0 ++ (match cb with Some _ => [] | None => [Resolve op me my_rank] end)) | None => None end
              else Some (t, s0 ++ [Walk cb op oi my_parent me my_rank])
            else Some (t, s0 ++ [Walk cb my_parent me op oi orank])
          else
            if my_parent =? me then match guarded_set t me op with Some t' => Some (t', s0) | None => None end
            else Some (t, s0 ++ [Walk cb my_parent me op oi orank])
      end
  | UpdParent me np =>
      let t := ensure t me in
      match lookup t me with
      | Some i => if iparent i =? np then Some (t, []) else match guarded_set t me np with Some t' => Some (t', []) | None => None end
      | None => None
      end
  | Resolve me mitem mrank =>
      let t := ensure t me in
      match lookup t me with
      | Some i =>
          if irank i <? mrank then None      (* ASSERT_RELEASE(my_rank >= merging_rank) *)
          else if mrank <? irank i then Some (t, [])
          else if iparent i =? me then Some (update t me {| irank := mrank + 1; iparent := me |}, [])
          else Some (t, [UpdParent mitem (iparent i)])
      | None => None
      end
  end.

(* run the pool, always delivering the visit at position (seed-dependent) k *)
Fixpoint remove_nth {A} (n : nat) (l : list A) : list A := match n, l with _, [] => [] | O, _ :: t => t | S k, x :: t => x :: remove_nth k t end.
Fixpoint run_pool (fuel : nat) (pick : nat -> nat -> nat) (t : table) (pool : list visit) : option (table * nat) :=
  match fuel with
  | O => None
  | S f =>
      match pool with
      | [] => Some (t, f)
      | _ =>
          let k := Nat.modulo (pick f (length pool)) (length pool) in
          match nth_error pool k with
          | Some v => match exec t v with Some (t', sends) => run_pool f pick t' (remove_nth k pool ++ sends) | None => None end
          | None => None
          end
      end
  end.

(* the initial visits: (cb, (a, b)) is async_union(a, b) or, with cb, async_union_and_execute(a, b, ...) *)
Definition unionsb (l : list (bool * (Z * Z))) : list visit := map (fun '(cb, (a, b)) => Walk (if cb : bool then Some (a, b) else None) a a b b (-1)) l.
Definition unions (es : list (Z * Z)) : list visit := unionsb (map (pair false) es).
Definition root_of (t : table) (x : Z) : option Z := find (S (length t)) t x.
Fixpoint inv_b (t all : table) : bool :=
  match t with
  | [] => true
  | (x, i) :: r => (0 <=? irank i) && ((iparent i =? x) || match lookup all (iparent i) with Some j => lexltb (irank i) x (irank j) (iparent i) | None => false end) && inv_b r all
  end.

(* a chain of 12, a clique of 5 and duplicates/self-loops, under four delivery orders: the guards never fail, the walk
   protocol reaches quiescence, the invariant holds and connectivity is that of the union graph *)
Definition test_edges : list (Z * Z) :=
  [(1,2);(2,3);(3,4);(4,5);(5,6);(6,7);(7,8);(8,9);(9,10);(10,11);(11,12);(12,13);
   (20,21);(20,22);(20,23);(20,24);(21,22);(21,23);(21,24);(22,23);(22,24);(23,24);
   (30,30);(31,32);(32,31);(31,32);(13,1);(24,9)].
Definition orders : list (nat -> nat -> nat) :=
  [fun _ _ => O; fun _ n => Nat.pred n; fun f _ => f; fun f n => Nat.mul f 7 + 3]%nat.
Example protocol_runs_ok :
  forallb (fun pick =>
    match run_pool 4000 pick [] (unionsb (map (pair (Nat.even (pick 3 5)%nat)) test_edges)) with
    | Some (t, _) =>
        inv_b t t &&
        match root_of t 1, root_of t 13, root_of t 24, root_of t 20, root_of t 30, root_of t 31, root_of t 32 with
        | Some a, Some b, Some c, Some d, Some e, Some f, Some g => (a =? b) && (b =? c) && (c =? d) && negb (e =? a) && (f =? g) && negb (f =? a)
        | _, _, _, _, _, _, _ => false
        end
    | None => false
    end) orders = true.
Proof. vm_compute. reflexivity. Qed.
