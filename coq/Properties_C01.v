(* Properties_C01.v — C01: every async executes exactly once, on its destination, with its arguments.
   Proved here (all layouts / schemes / capacities / oracles): a message travels along next hops that
   end at its destination within three hops without revisiting a rank (Router.v, over the generated
   next_hop); a rank executes a received message iff it is addressed to it (or is a broadcast leg) and
   otherwise re-buffers it unchanged for the next hop (RankMachine).  The global counting statement
   (per-message balance over all ranks) is validated on every recorded run by the lock-step replay and
   the exactly-once oracle; see DESIGN.md §5 C01 for what is proved and what is checked. *)
From Coq Require Import ZArith List Bool Lia.
Import ListNotations.
From Ygm Require Import Gen.CArith Gen.Gen_layout Gen.Gen_router Layout Router RankMachine RankInv.
Local Open Scope Z_scope.

Theorem C01_route_reaches_destination : forall n p src dst,
  0 < n -> 0 < p -> 0 <= src < n * p -> 0 <= dst < n * p ->
  exists r, route RT_NLNR n p src dst = Some r /\ last r src = dst /\
            nlnr_shape p src dst r /\ (length r <= 3)%nat /\
            (forall x, In x r -> 0 <= x < n * p) /\
            (src <> dst -> NoDup (src :: r)).
Proof. exact route_shape_nlnr. Qed.
Print Assumptions C01_route_reaches_destination.

Theorem C01_route_reaches_destination_nr : forall n p src dst,
  0 < n -> 0 < p -> 0 <= src < n * p -> 0 <= dst < n * p ->
  exists r, route RT_NR n p src dst = Some r /\ last r src = dst /\
    (r = [dst] /\ (on_node p src dst \/ (off_node p src dst /\ zloc p src = zloc p dst))
     \/ exists h, r = [h; dst] /\ h <> dst /\ h <> src /\ off_node p src h /\ zloc p src = zloc p h /\
                  on_node p h dst /\ 0 <= h < n * p).
Proof. exact route_shape_nr. Qed.
Print Assumptions C01_route_reaches_destination_nr.

(* what a rank does with each message of a received buffer: execute it iff it is for this rank (or the
   scheme is NONE, or it is a broadcast leg); otherwise append it unchanged to the next hop's buffer *)
Theorem C01_receive_classifies : forall fu c m rest s,
  run (S fu) c (PHandleLoop (m :: rest)) s =
  ((if (c_routing c =? 0) || (mdest m =? c_me c) || (mdest m =? -1) then
      run fu c (PExec m) s >>= fun s1 => Ok (set_rcnt (rcnt s1 + 1) s1)
    else run fu c PFlushToCap (enqueue c (next_hop c (mdest m)) m s)) >>= run fu c (PHandleLoop rest)).
Proof. exact run_PHandleLoop_cons. Qed.
Print Assumptions C01_receive_classifies.

Theorem C01_forward_preserves_message : forall c d m s,
  buf_at (enqueue c d m s) d = buf_at s d ++ [m] \/ (length (bufs s) <= Z.to_nat d)%nat.
Proof. exact forward_preserves_message. Qed.
Print Assumptions C01_forward_preserves_message.
