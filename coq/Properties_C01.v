(* Properties_C01.v — C01: every async executes exactly once, on its destination, with its arguments.
   Proved here (all layouts / schemes / capacities / oracles): a message travels along next hops that
   end at its destination within three hops without revisiting a rank (Router.v, over the generated
   next_hop); a rank executes a received message iff it is addressed to it (or is a broadcast leg) and
   otherwise re-buffers it unchanged for the next hop (RankMachine).  The global counting statement
   (per-message balance over all ranks) is validated on every recorded run by the lock-step replay and
   the exactly-once oracle; see DESIGN.md §5 C01 for what is proved and what is checked. *)
From Coq Require Import ZArith List Bool Lia.
Import ListNotations.
From Ygm Require Import Gen.CArith Gen.Gen_layout Gen.Gen_router Layout Router RankMachine RankInv.
Local Open Scope Z_scope.

Theorem C01_route_reaches_destination : forall n p src dst,
  0 < n -> 0 < p -> 0 <= src < n * p -> 0 <= dst < n * p ->
  exists r, route RT_NLNR n p src dst = Some r /\ last r src = dst /\
            nlnr_shape p src dst r /\ (length r <= 3)%nat /\
            (forall x, In x r -> 0 <= x < n * p) /\
            (src <> dst -> NoDup (src :: r)).
Proof. exact route_shape_nlnr. Qed.
Print Assumptions C01_route_reaches_destination.

Theorem C01_route_reaches_destination_nr : forall n p src dst,
  0 < n -> 0 < p -> 0 <= src < n * p -> 0 <= dst < n * p ->
  exists r, route RT_NR n p src dst = Some r /\ last r src = dst /\
    (r = [dst] /\ (on_node p src dst \/ (off_node p src dst /\ zloc p src = zloc p dst))
     \/ exists h, r = [h; dst] /\ h <> dst /\ h <> src /\ off_node p src h /\ zloc p src = zloc p h /\
                  on_node p h dst /\ 0 <= h < n * p).
Proof. exact route_shape_nr. Qed.
Print Assumptions C01_route_reaches_destination_nr.

(* what a rank does with each message of a received buffer: execute it iff it is for this rank (or the
   scheme is NONE, or it is a broadcast leg); otherwise append it unchanged to the next hop's buffer *)
Theorem C01_receive_classifies : forall fu c m rest s,
  run (S fu) c (PHandleLoop (m :: rest)) s =
  ((if (c_routing c =? 0) || (mdest m =? c_me c) || (mdest m =? -1) then
      run fu c (PExec m) s >>= fun s1 => Ok (set_rcnt (rcnt s1 + 1) s1)
    else run fu c PFlushToCap (enqueue c (next_hop c (mdest m)) m s)) >>= run fu c (PHandleLoop rest)).
Proof. exact run_PHandleLoop_cons. Qed.
Print Assumptions C01_receive_classifies.

Theorem C01_forward_preserves_message : forall c d m s,
  buf_at (enqueue c d m s) d = buf_at s d ++ [m] \/ (length (bufs s) <= Z.to_nat d)%nat.
Proof. exact forward_preserves_message. Qed.
Print Assumptions C01_forward_preserves_message.


(* CONSERVATION INSIDE A RANK.  [enq] is the ghost record of every (rank, message) pair ever appended to a send buffer
   (asyncs of the main program and of handlers, broadcast legs, messages forwarded for other ranks).  When the
   destructor's barrier of a rank has returned, the pairs its MPI_Isend calls put on the wire are exactly those
   pairs, each once, addressed to the rank it was queued for: nothing is lost, duplicated, re-addressed or invented
   between async() / forwarding and the wire - for every program with in-range destinations, every oracle, every
   capacity, routing scheme and execution length.  (The wire side is what the lock-step replay compares with the
   real library, buffer by buffer.) *)
From Coq Require Import Permutation.
From Ygm Require Import RankNoErr RankConserve.
Theorem C01_rank_conserves : forall c nr fuel main orc s',
  (0 <= c_cap c)%Z ->
  (forall d, rng nr d -> rng nr (next_hop c d)) ->
  Forall (rng nr) (locals_of c) ->
  Forall (rng nr) (Bcast.remote_partners_spec (c_n c) (c_p c) (c_me c)) ->
  (forall u, forallb (hact_ok nr) (c_hprog c u) = true) ->
  (forall i, forallb (dests_ok nr) (c_cbprog c i) = true) ->
  forallb (dests_ok nr) main = true ->
  Forall (resp_ok nr) orc ->
  run_rank fuel c nr main orc = Ok s' ->
  Permutation (enq s') (sent_of (log s')).
Proof. exact rank_conserves. Qed.
Print Assumptions C01_rank_conserves.

(* in every reachable state (not only at the end): queued = sent + still buffered, as multisets *)
Theorem C01_queued_is_sent_plus_buffered : forall c nr,
  (forall d, rng nr d -> rng nr (next_hop c d)) ->
  Forall (rng nr) (locals_of c) ->
  Forall (rng nr) (Bcast.remote_partners_spec (c_n c) (c_p c) (c_me c)) ->
  (forall u, forallb (dests_ok nr) (c_hprog c u) = true) ->
  (forall i, forallb (dests_ok nr) (c_cbprog c i) = true) ->
  forall fu p s, specC c nr fu p s.
Proof. exact conserve_all. Qed.
Print Assumptions C01_queued_is_sent_plus_buffered.

(* one async contributes exactly its own message, addressed to the next hop towards its destination *)
Theorem C01_async_enqueues_exactly_its_message : forall c fuel m s,
  (3 <= fuel)%nat -> inprq s = false -> (pend s <= c_cap c)%Z -> (sbb s + wire c m <= c_cap c)%Z ->
  exists s', run fuel c (PAsync m) s = Ok s' /\ enq s' = (next_hop c (mdest m), m) :: enq s /\ log s' = log s.
Proof. exact async_enqueues_exactly_its_message. Qed.
Print Assumptions C01_async_enqueues_exactly_its_message.

(* non-vacuity: a complete run (status Ok) of a rank that sends one message and forwards nothing *)
Local Open Scope Z_scope.
Definition c1 : cfg := {| c_n := 2; c_p := 1; c_me := 0; c_routing := 0; c_cap := 16; c_nisw := 4; c_freq := 0;
  c_hprog := fun _ => []; c_cbprog := fun _ => [] |}.
Example C01_conservation_not_vacuous :
  exists s, run_rank 1000 c1 2 [AAsync 1 7 40] [RTestSend true; RTestRecv None; RTestRecv None; RWaitIR (Some (1, 1)) None; RWaitIR (Some (1, 1)) None] = Ok s
            /\ enq s = [(1, {| uid := 7; mdest := 1; stage := 0; hk := 0; len := 40; extra := 0 |})]
            /\ sent_of (log s) = enq s.
Proof. eexists. split; [vm_compute; reflexivity|]. split; reflexivity. Qed.
