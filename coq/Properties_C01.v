(* Properties_C01.v — C01: every async executes exactly once, on its destination, with its arguments.
   Proved here (all layouts / schemes / capacities / oracles): a message travels along next hops that
   end at its destination within three hops without revisiting a rank (Router.v, over the generated
   next_hop); a rank executes a received message iff it is addressed to it (or is a broadcast leg) and
   otherwise re-buffers it unchanged for the next hop (RankMachine); inside a rank queued == sent + buffered
   (RankConserve); per rank, received == executed + forwarded + owed, by kind (RankAccount); over all ranks and at
   every cut, originated == executed + pending in exactly one place, hence exactly once at quiescence (GlobalOnce; one
   hypothesis about MPI: handed to MPI_Isend == delivered + still inside).  The lock-step replay and the exactly-once
   oracle compare the model with the real library on every recorded run. *)
From Coq Require Import ZArith List Bool Lia.
Import ListNotations.
From Ygm Require Import Gen.CArith Gen.Gen_layout Gen.Gen_router Layout Router RankMachine RankInv.
Local Open Scope Z_scope.

Theorem C01_route_reaches_destination : forall n p src dst,
  0 < n -> 0 < p -> 0 <= src < n * p -> 0 <= dst < n * p ->
  exists r, route RT_NLNR n p src dst = Some r /\ last r src = dst /\
            nlnr_shape p src dst r /\ (length r <= 3)%nat /\
            (forall x, In x r -> 0 <= x < n * p) /\
            (src <> dst -> NoDup (src :: r)).
Proof. exact route_shape_nlnr. Qed.
Print Assumptions C01_route_reaches_destination.

Theorem C01_route_reaches_destination_nr : forall n p src dst,
  0 < n -> 0 < p -> 0 <= src < n * p -> 0 <= dst < n * p ->
  exists r, route RT_NR n p src dst = Some r /\ last r src = dst /\
    (r = [dst] /\ (on_node p src dst \/ (off_node p src dst /\ zloc p src = zloc p dst))
     \/ exists h, r = [h; dst] /\ h <> dst /\ h <> src /\ off_node p src h /\ zloc p src = zloc p h /\
                  on_node p h dst /\ 0 <= h < n * p).
Proof. exact route_shape_nr. Qed.
Print Assumptions C01_route_reaches_destination_nr.

(* what a rank does with each message of a received buffer: execute it iff it is for this rank (or the
   scheme is NONE, or it is a broadcast leg); otherwise append it unchanged to the next hop's buffer *)
Theorem C01_receive_classifies : forall fu c m rest s,
  run (S fu) c (PHandleLoop (m :: rest)) s =
  ((if (c_routing c =? 0) || (mdest m =? c_me c) || (mdest m =? -1) then
      run fu c (PExec m) s >>= fun s1 => Ok (set_rcnt (rcnt s1 + 1) s1)
    else run fu c PFlushToCap (enqueue c (next_hop c (mdest m)) m s)) >>= run fu c (PHandleLoop rest)).
Proof. exact run_PHandleLoop_cons. Qed.
Print Assumptions C01_receive_classifies.

Theorem C01_forward_preserves_message : forall c d m s,
  buf_at (enqueue c d m s) d = buf_at s d ++ [m] \/ (length (bufs s) <= Z.to_nat d)%nat.
Proof. exact forward_preserves_message. Qed.
Print Assumptions C01_forward_preserves_message.


(* CONSERVATION INSIDE A RANK.  [enq] is the ghost record of every (rank, message) pair ever appended to a send buffer
   (asyncs of the main program and of handlers, broadcast legs, messages forwarded for other ranks).  When the
   destructor's barrier of a rank has returned, the pairs its MPI_Isend calls put on the wire are exactly those
   pairs, each once, addressed to the rank it was queued for: nothing is lost, duplicated, re-addressed or invented
   between async() / forwarding and the wire - for every program with in-range destinations, every oracle, every
   capacity, routing scheme and execution length.  (The wire side is what the lock-step replay compares with the
   real library, buffer by buffer.) *)
From Coq Require Import Permutation.
From Ygm Require Import RankNoErr RankConserve.
Theorem C01_rank_conserves : forall c nr fuel main orc s',
  (0 <= c_cap c)%Z ->
  (forall d, rng nr d -> rng nr (next_hop c d)) ->
  Forall (rng nr) (locals_of c) ->
  Forall (rng nr) (Bcast.remote_partners_spec (c_n c) (c_p c) (c_me c)) ->
  (forall u, forallb (hact_ok nr) (c_hprog c u) = true) ->
  (forall i, forallb (dests_ok nr) (c_cbprog c i) = true) ->
  forallb (dests_ok nr) main = true ->
  Forall (resp_ok nr) orc ->
  run_rank fuel c nr main orc = Ok s' ->
  Permutation (enq s') (sent_of (log s')).
Proof. exact rank_conserves. Qed.
Print Assumptions C01_rank_conserves.

(* in every reachable state (not only at the end): queued = sent + still buffered, as multisets *)
Theorem C01_queued_is_sent_plus_buffered : forall c nr,
  (forall d, rng nr d -> rng nr (next_hop c d)) ->
  Forall (rng nr) (locals_of c) ->
  Forall (rng nr) (Bcast.remote_partners_spec (c_n c) (c_p c) (c_me c)) ->
  (forall u, forallb (dests_ok nr) (c_hprog c u) = true) ->
  (forall i, forallb (dests_ok nr) (c_cbprog c i) = true) ->
  forall fu p s, specC c nr fu p s.
Proof. exact conserve_all. Qed.
Print Assumptions C01_queued_is_sent_plus_buffered.

(* one async contributes exactly its own message, addressed to the next hop towards its destination *)
Theorem C01_async_enqueues_exactly_its_message : forall c fuel m s,
  (3 <= fuel)%nat -> inprq s = false -> (pend s <= c_cap c)%Z -> (sbb s + wire c m <= c_cap c)%Z ->
  exists s', run fuel c (PAsync m) s = Ok s' /\ enq s' = (next_hop c (mdest m), m) :: enq s /\ log s' = log s.
Proof. exact async_enqueues_exactly_its_message. Qed.
Print Assumptions C01_async_enqueues_exactly_its_message.

(* non-vacuity: a complete run (status Ok) of a rank that sends one message and forwards nothing *)
Local Open Scope Z_scope.
Definition c1 : cfg := {| c_n := 2; c_p := 1; c_me := 0; c_routing := 0; c_cap := 16; c_nisw := 4; c_freq := 0;
  c_hprog := fun _ => []; c_cbprog := fun _ => [] |}.
Example C01_conservation_not_vacuous :
  exists s, run_rank 1000 c1 2 [AAsync 1 7 40] [RTestSend true; RTestRecv None; RTestRecv None; RWaitIR (Some (1, 1)) None; RWaitIR (Some (1, 1)) None] = Ok s
            /\ enq s = [(1, {| uid := 7; mdest := 1; stage := 0; hk := 0; len := 40; extra := 0 |})]
            /\ sent_of (log s) = enq s.
Proof. eexists. split; [vm_compute; reflexivity|]. split; reflexivity. Qed.


(* EXACTLY ONCE, OVER ALL RANKS, AT EVERY CUT.  The ghost history of a rank machine records every MPI response consumed
   (GResp), every handler started (GExec), every pair appended to a send buffer (GEnq; right after a GSend: an origination -
   an async or broadcast leg issued here; otherwise: a forward).  Per rank, for every program, oracle and length, at the
   end and whenever the rank is blocked in an MPI call: the received messages that address the rank are exactly the handlers
   started plus those still owed from the buffer being processed; the other received messages are exactly the forwards
   plus those owed; nothing else is executed or forwarded. *)
From Ygm Require Import RankAccount GlobalOnce.
Theorem C01_rank_accounts : forall c fuel nranks main orc,
  match run_rank fuel c nranks main orc with
  | Ok s' => A c [] s'
  | Blocked s' => exists dd, A c dd s'
  | _ => True
  end.
Proof. exact rank_accounts. Qed.
Print Assumptions C01_rank_accounts.

Theorem C01_account_every_procedure : forall c fu p s, specA c fu p s.
Proof. exact account_all. Qed.
Print Assumptions C01_account_every_procedure.

Theorem C01_executes_only_what_addresses_it : forall c debt s u,
  A c debt s -> In u (X (hist s)) -> exists m, In m (Rc (hist s)) /\ is_local c m = true /\ uid m = u.
Proof. exact executes_only_what_addresses_it. Qed.
Print Assumptions C01_executes_only_what_addresses_it.

Theorem C01_queued_is_sent_plus_buffered_at_every_cut : forall c nr fuel main orc,
  (forall d, rng nr d -> rng nr (next_hop c d)) ->
  Forall (rng nr) (locals_of c) ->
  Forall (rng nr) (Bcast.remote_partners_spec (c_n c) (c_p c) (c_me c)) ->
  (forall u, forallb (dests_ok nr) (c_hprog c u) = true) ->
  (forall i, forallb (dests_ok nr) (c_cbprog c i) = true) ->
  forallb (dests_ok nr) main = true ->
  Forall (resp_ok nr) orc ->
  match run_rank fuel c nr main orc with
  | Ok s' | Blocked s' => Permutation (enq s') (sent_of (log s') ++ buffered s')
  | _ => True
  end.
Proof. exact rank_conserves_at_every_cut. Qed.
Print Assumptions C01_queued_is_sent_plus_buffered_at_every_cut.

(* The composition.  rs: all ranks at a cut, each satisfying what the two theorems above establish (acct); U: the messages
   inside MPI.  Assumed of MPI: handed to MPI_Isend == delivered by completed receives + still inside (no loss, duplication
   or alteration).  Then the uids of all originated messages are, as a multiset, the handlers started on all ranks plus the
   messages pending in exactly one place.  With nothing pending - or merely as many handlers started as messages originated,
   the barrier's criterion - every originated message has been executed exactly once and nothing else has. *)
Theorem C01_every_message_accounted_once_at_every_cut : forall rs, Forall acct rs -> forall U,
  Permutation (flat_map (fun r => map snd (sent_of (log (r_st r)))) rs) (flat_map (fun r => Rc (r_h r)) rs ++ U) ->
  Permutation (originated rs) (executed rs ++ owed rs ++ map uid U ++ in_buffers rs).
Proof. exact every_message_accounted_once_at_every_cut. Qed.
Print Assumptions C01_every_message_accounted_once_at_every_cut.

Theorem C01_exactly_once_at_quiescence : forall rs, Forall acct rs -> forall U,
  Permutation (flat_map (fun r => map snd (sent_of (log (r_st r)))) rs) (flat_map (fun r => Rc (r_h r)) rs ++ U) ->
  owed rs = [] -> U = [] -> in_buffers rs = [] -> Permutation (originated rs) (executed rs).
Proof. exact exactly_once_at_quiescence. Qed.
Print Assumptions C01_exactly_once_at_quiescence.

Theorem C01_counts_equal_means_nothing_pending : forall rs, Forall acct rs -> forall U,
  Permutation (flat_map (fun r => map snd (sent_of (log (r_st r)))) rs) (flat_map (fun r => Rc (r_h r)) rs ++ U) ->
  length (originated rs) = length (executed rs) ->
  owed rs = [] /\ U = [] /\ in_buffers rs = [] /\ Permutation (originated rs) (executed rs).
Proof. exact counts_equal_means_nothing_pending. Qed.
Print Assumptions C01_counts_equal_means_nothing_pending.

(* non-vacuity: two complete rank executions (rank 0 sends uid 7 to rank 1, which receives and executes it) satisfy every
   hypothesis of the composition, through the per-rank theorems, and the conclusion reads [7] == [7] *)
Definition m7 := {| uid := 7; mdest := 1; stage := 0; hk := 0; len := 40; extra := 0 |}.
Definition c1b : cfg := {| c_n := 2; c_p := 1; c_me := 1; c_routing := 0; c_cap := 16; c_nisw := 4; c_freq := 0;
  c_hprog := fun _ => []; c_cbprog := fun _ => [] |}.
Definition o0 := [RTestSend true; RTestRecv None; RTestRecv None; RWaitIR (Some (1, 1)) None; RWaitIR (Some (1, 1)) None].
Definition o1 := [RTestRecv (Some [m7]); RTestRecv None; RTestRecv None; RWaitIR (Some (1, 1)) None; RWaitIR (Some (1, 1)) None].
Definition st_of (r : res) : st := match r with Ok s | Blocked s | Err _ s => s | OutOfFuel => init_st 0 [] end.
Definition two_ranks : list rk :=
  [ {| r_cfg := c1; r_st := st_of (run_rank 1000 c1 2 [AAsync 1 7 40] o0); r_debt := [] |};
    {| r_cfg := c1b; r_st := st_of (run_rank 1000 c1b 2 [] o1); r_debt := [] |} ].
Lemma rng2_c cc : c_routing cc = 0 -> forall d, rng 2 d -> rng 2 (next_hop cc d).
Proof. intros H d Hd. unfold next_hop. rewrite H. exact Hd. Qed.
Example C01_composition_not_vacuous :
  Forall acct two_ranks /\
  Permutation (flat_map (fun r => map snd (sent_of (log (r_st r)))) two_ranks) (flat_map (fun r => Rc (r_h r)) two_ranks ++ []) /\
  owed two_ranks = [] /\ in_buffers two_ranks = [] /\ originated two_ranks = [7] /\ executed two_ranks = [7].
Proof.
  assert (R0 : exists s, run_rank 1000 c1 2 [AAsync 1 7 40] o0 = Ok s) by (eexists; vm_compute; reflexivity).
  assert (R1 : exists s, run_rank 1000 c1b 2 [] o1 = Ok s) by (eexists; vm_compute; reflexivity).
  destruct R0 as (s0 & E0). destruct R1 as (s1 & E1).
  split; [|split; [vm_compute; apply Permutation_refl|repeat split; vm_compute; reflexivity]].
  unfold two_ranks. rewrite E0, E1. cbn [st_of].
  constructor; [|constructor; [|constructor]]; split; cbn [r_cfg r_st r_debt].
  - pose proof (rank_accounts c1 1000 2 [AAsync 1 7 40] o0) as H. rewrite E0 in H. exact H.
  - pose proof (rank_conserves_at_every_cut c1 2 1000 [AAsync 1 7 40] o0 (rng2_c c1 eq_refl)) as H. rewrite E0 in H.
    apply H; try (intros; reflexivity); try (repeat constructor; cbv; intuition congruence).
  - pose proof (rank_accounts c1b 1000 2 [] o1) as H. rewrite E1 in H. exact H.
  - pose proof (rank_conserves_at_every_cut c1b 2 1000 [] o1 (rng2_c c1b eq_refl)) as H. rewrite E1 in H.
    apply H; try (intros; reflexivity); try (repeat constructor; cbv; intuition congruence).
Qed.

(* THE COUNTERS ARE THE ACCOUNTING, AND THE BARRIER'S CRITERION SUFFICES.  When a rank has returned from its last barrier its send
   counter is the number of messages it originated and its receive counter the number of handlers it started
   (RankExecCount.v: every send-count increment is immediately followed by its enqueue; handlers started = handlers completed +
   handler depth, through all 24 procedures).  If the counters of all ranks at a cut sum to the same value - what the count
   reduction of barrier() tests - then nothing is pending in any buffer or inside MPI, and the handlers started are exactly the
   messages originated: every async issued has executed exactly once. *)
From Ygm Require Import RankExecCount.
Theorem C01_rank_counters_are_the_accounting : forall c fuel nranks main orc s',
  run_rank fuel c nranks main orc = Ok s' ->
  scnt s' = Z.of_nat (length (og (hist s'))) /\ rcnt s' = Z.of_nat (length (X (hist s'))).
Proof. exact rank_counters_are_the_accounting. Qed.
Print Assumptions C01_rank_counters_are_the_accounting.

Theorem C01_balanced_counters_mean_exactly_once : forall rs, Forall acct rs -> forall U,
  Permutation (flat_map (fun r => map snd (sent_of (log (r_st r)))) rs) (flat_map (fun r => Rc (r_h r)) rs ++ U) ->
  Forall cntok rs -> sumf (fun r => scnt (r_st r)) rs = sumf (fun r => rcnt (r_st r)) rs ->
  owed rs = [] /\ U = [] /\ in_buffers rs = [] /\ Permutation (originated rs) (executed rs).
Proof. exact balanced_counters_mean_exactly_once. Qed.
Print Assumptions C01_balanced_counters_mean_exactly_once.

(* non-vacuity: the two complete rank executions of C01_composition_not_vacuous satisfy cntok through the theorem above, and
   their counters balance (1 = 1) *)
Example C01_counters_theorem_not_vacuous :
  Forall cntok two_ranks /\ sumf (fun r => scnt (r_st r)) two_ranks = sumf (fun r => rcnt (r_st r)) two_ranks.
Proof.
  assert (R0 : exists s, run_rank 1000 c1 2 [AAsync 1 7 40] o0 = Ok s) by (eexists; vm_compute; reflexivity).
  assert (R1 : exists s, run_rank 1000 c1b 2 [] o1 = Ok s) by (eexists; vm_compute; reflexivity).
  destruct R0 as (s0 & E0). destruct R1 as (s1 & E1).
  split; [|vm_compute; reflexivity].
  unfold two_ranks. rewrite E0, E1. cbn [st_of].
  constructor; [|constructor; [|constructor]]; unfold cntok, r_h; cbn [r_st].
  - apply (rank_counters_are_the_accounting c1 1000 2 [AAsync 1 7 40] o0 s0 E0).
  - apply (rank_counters_are_the_accounting c1b 1000 2 [] o1 s1 E1).
Qed.
