(* Partition.v — C10 / C13 / C14 (arithmetic part).
   The block partition of [0, len) over R ranks as array::resize / array::owner
   / bag::rebalance compute it, the theorems about it, and the equivalence with
   the definitions generated from array.ipp, bag.ipp and hash_partitioner.hpp. *)
From Coq Require Import ZArith List Bool Lia.
Import ListNotations.
From Ygm Require Import Gen.CArith Gen.Gen_array Gen.Gen_rebalance Gen.Gen_hash.
Local Open Scope Z_scope.

(* ---------------------------------------------------------------------- *)
(* Specification                                                           *)

Definition blk_small (len R : Z) : Z := len / R.
Definition blk_rem (len R : Z) : Z := len mod R.
Definition blk_large (len R : Z) : Z := blk_small len R + (if 0 <? blk_rem len R then 1 else 0).
Definition blk_size (len R r : Z) : Z := blk_small len R + (if r <? blk_rem len R then 1 else 0).
Definition blk_start (len R r : Z) : Z := r * blk_small len R + Z.min r (blk_rem len R).
Definition blk_owner (len R i : Z) : Z :=
  if i <? blk_rem len R * blk_large len R then i / blk_large len R
  else blk_rem len R + (i - blk_rem len R * blk_large len R) / blk_small len R.

Lemma blk_decomp len R : 0 < R -> len = R * blk_small len R + blk_rem len R.
Proof. intros; unfold blk_small, blk_rem. apply Z.div_mod; lia. Qed.

Lemma blk_rem_bound len R : 0 < R -> 0 <= blk_rem len R < R.
Proof. intros; unfold blk_rem; apply Z.mod_pos_bound; lia. Qed.

Lemma blk_small_nonneg len R : 0 < R -> 0 <= len -> 0 <= blk_small len R.
Proof. intros; unfold blk_small; apply Z.div_pos; lia. Qed.

(* contiguous, covering, balanced *)
Theorem blk_start_0 len R : 0 < R -> blk_start len R 0 = 0.
Proof. intros HR; unfold blk_start. pose proof (blk_rem_bound len R HR). lia. Qed.

Theorem blk_contiguous len R r : 0 < R -> 0 <= r ->
  blk_start len R (r + 1) = blk_start len R r + blk_size len R r.
Proof.
  intros HR Hr; unfold blk_start, blk_size. pose proof (blk_rem_bound len R HR).
  destruct (Z.ltb_spec r (blk_rem len R)); lia.
Qed.

Theorem blk_cover len R : 0 < R -> blk_start len R R = len.
Proof.
  intros HR; unfold blk_start. pose proof (blk_rem_bound len R HR).
  rewrite (blk_decomp len R HR) at 3. lia.
Qed.

Theorem blk_balanced len R r r' : blk_size len R r - blk_size len R r' <= 1 /\ blk_size len R r' - blk_size len R r <= 1.
Proof. unfold blk_size. destruct (r <? blk_rem len R), (r' <? blk_rem len R); lia. Qed.

Theorem blk_size_nonneg len R r : 0 < R -> 0 <= len -> 0 <= blk_size len R r.
Proof. intros; unfold blk_size. pose proof (blk_small_nonneg len R). destruct (r <? blk_rem len R); lia. Qed.

Lemma blk_start_mono len R r r' : 0 < R -> 0 <= len -> 0 <= r <= r' -> blk_start len R r <= blk_start len R r'.
Proof.
  intros HR Hl Hr; unfold blk_start. pose proof (blk_small_nonneg len R HR Hl). nia.
Qed.

(* owner: in range, and the index lies in the owner's block *)
Theorem blk_owner_spec len R i : 0 < R -> 0 <= i < len ->
  let r := blk_owner len R i in
  0 <= r < R /\ blk_start len R r <= i < blk_start len R r + blk_size len R r.
Proof.
  intros HR Hi. cbv zeta.
  pose proof (blk_rem_bound len R HR) as Hm. pose proof (blk_decomp len R HR) as Hd.
  pose proof (blk_small_nonneg len R HR ltac:(lia)) as Hs.
  unfold blk_owner, blk_start, blk_size, blk_large in *.
  set (s := blk_small len R) in *. set (m := blk_rem len R) in *.
  destruct (Z.ltb_spec 0 m) as [Hm0|Hm0].
  - (* m > 0 : large = s + 1 *)
    destruct (Z.ltb_spec i (m * (s + 1))) as [Hlt|Hge].
    + pose proof (Z.div_mod i (s + 1) ltac:(lia)) as E.
      pose proof (Z.mod_pos_bound i (s + 1) ltac:(lia)) as B.
      set (q := i / (s + 1)) in *. set (t := i mod (s + 1)) in *.
      assert (0 <= q) by (apply Z.div_pos; lia).
      assert (q < m) by nia.
      destruct (Z.ltb_spec q m); [|lia]. rewrite Z.min_l by lia. nia.
    + assert (0 < s) by nia.
      pose proof (Z.div_mod (i - m * (s + 1)) s ltac:(lia)) as E.
      pose proof (Z.mod_pos_bound (i - m * (s + 1)) s ltac:(lia)) as B.
      set (q := (i - m * (s + 1)) / s) in *. set (t := (i - m * (s + 1)) mod s) in *.
      assert (0 <= q) by (apply Z.div_pos; lia).
      assert (q < R - m) by nia.
      destruct (Z.ltb_spec (m + q) m); [lia|]. rewrite Z.min_r by lia. nia.
  - assert (m = 0) by lia. subst m. replace (blk_rem len R) with 0 in * by lia.
    rewrite Z.add_0_r in *. cbn [Z.mul] in *.
    destruct (Z.ltb_spec i 0); [lia|].
    assert (0 < s) by nia.
    rewrite Z.sub_0_r. cbn [Z.add].
    pose proof (Z.div_mod i s ltac:(lia)) as E.
    pose proof (Z.mod_pos_bound i s ltac:(lia)) as B.
    set (q := i / s) in *. set (t := i mod s) in *.
    assert (0 <= q) by (apply Z.div_pos; lia).
    assert (q < R) by nia.
    destruct (Z.ltb_spec q 0); [lia|]. rewrite Z.min_r by lia. nia.
Qed.

(* uniqueness: blocks are pairwise disjoint *)
Theorem blk_owner_unique len R i r : 0 < R -> 0 <= i < len -> 0 <= r < R ->
  blk_start len R r <= i < blk_start len R r + blk_size len R r -> r = blk_owner len R i.
Proof.
  intros HR Hi Hr Hin.
  destruct (blk_owner_spec len R i HR Hi) as (Ho & Hoin).
  set (o := blk_owner len R i) in *.
  destruct (Z.lt_trichotomy r o) as [Hlt|[E|Hgt]]; [|exact E|].
  - pose proof (blk_start_mono len R (r + 1) o HR ltac:(lia) ltac:(lia)).
    rewrite blk_contiguous in * by lia. lia.
  - pose proof (blk_start_mono len R (o + 1) r HR ltac:(lia) ltac:(lia)).
    rewrite blk_contiguous in * by lia. lia.
Qed.

(* ---------------------------------------------------------------------- *)
(* The generated array code computes this partition                        *)

Definition wf_arr (len R r : Z) : Prop :=
  0 <= len < 4611686018427387904 /\ 0 < R < 2147483648 /\ 0 <= r < R.

Definition arr_view (len R r : Z) : array_view :=
  {| m_global_size := len;
     m_small_block_size := blk_small len R;
     m_large_block_size := blk_large len R;
     m_local_start_index := blk_start len R r;
     m_comm := {| comm_size := R; comm_rank := r |} |}.

Ltac u64 := rewrite ?cwrap_u64_ok, ?cnorm_u64_ok by lia.

Lemma div_le_self len R : 0 <= len -> 0 < R -> 0 <= len / R <= len.
Proof. intros; split; [apply Z.div_pos; lia|]. apply Z.div_le_upper_bound; nia. Qed.

(* resize stores exactly the spec's block sizes, local length and start index,
   whatever the array held before *)
Lemma Gen_array_resize_correct v0 len R r :
  wf_arr len R r -> m_comm v0 = {| comm_size := R; comm_rank := r |} ->
  array_resize v0 (Some len)
  = Some (len, blk_small len R, blk_large len R, blk_size len R r, blk_start len R r).
Proof.
  intros (Hl & HR & Hr) Hc.
  pose proof (blk_rem_bound len R ltac:(lia)) as Hm. pose proof (blk_decomp len R ltac:(lia)) as Hd.
  pose proof (div_le_self len R ltac:(lia) ltac:(lia)) as Hs.
  unfold array_resize. rewrite Hc. cbn [comm_size comm_rank].
  unfold cdiv, crem, cadd, cmul, csub, cbin, ccast, cgt, clt, ccmp, cb2z.
  u64. destruct (Z.eqb_spec R 0); [lia|].
  rewrite !quot_nonneg, !rem_nonneg by lia.
  fold (blk_small len R) (blk_rem len R) in *.
  set (s := blk_small len R) in *. set (m := blk_rem len R) in *.
  u64. cbn [oforce].
  assert (Hlarge : Z.gtb m 0 = (0 <? m)) by (unfold Z.gtb, Z.ltb; rewrite Z.compare_antisym; destruct (0 ?= m); reflexivity).
  rewrite Hlarge.
  assert (Hms : 0 <= m * (s + 1) <= len) by nia.
  assert (Hms0 : 0 <= m * s <= len) by nia.
  destruct (Z.ltb_spec 0 m) as [Hm0|Hm0]; u64; cbn [oforce];
    destruct (Z.ltb_spec r m) as [Hrm|Hrm]; u64; cbn [oforce]; unfold blk_large, blk_size, blk_start;
    fold s m;
    repeat match goal with
    | |- context [0 <? m] => destruct (Z.ltb_spec 0 m); try lia
    | |- context [r <? m] => destruct (Z.ltb_spec r m); try lia
    end.
  - assert (0 <= r * (s + 1) <= m * (s + 1)) by nia. u64. cbn [oforce opair]. do 2 f_equal; lia.
  - assert (0 <= (r - m) * s <= (R - m) * s) by nia. assert ((R - m) * s + m * (s + 1) = len) by nia. u64. cbn [oforce opair]. do 2 f_equal; lia.
  - assert (m = 0) by lia. assert (0 <= r * s <= R * s) by nia.
    replace (m * (s + 0)) with 0 by lia. replace (r - m) with r by lia. u64. cbn [Z.add]. u64. cbn [oforce opair].
    do 2 f_equal; lia.
Qed.

(* owner on the view that resize establishes *)
Lemma Gen_array_owner_correct len R r i :
  wf_arr len R r -> 0 <= i < len ->
  array_owner (arr_view len R r) (Some i) = Some (blk_owner len R i).
Proof.
  intros (Hl & HR & Hr) Hi.
  pose proof (blk_rem_bound len R ltac:(lia)) as Hm. pose proof (blk_decomp len R ltac:(lia)) as Hd.
  pose proof (div_le_self len R ltac:(lia) ltac:(lia)) as Hs.
  destruct (blk_owner_spec len R i ltac:(lia) Hi) as (Ho & _).
  unfold array_owner, arr_view, blk_owner in *. cbn [m_global_size m_small_block_size m_large_block_size m_comm comm_size comm_rank].
  unfold cdiv, crem, cadd, cmul, csub, cbin, ccast, cgt, clt, cge, ccmp, cb2z.
  u64. destruct (Z.eqb_spec R 0); [lia|].
  rewrite !rem_nonneg by lia. fold (blk_rem len R).
  unfold blk_large in *. change (len / R) with (blk_small len R) in Hs.
  set (s := blk_small len R) in *. set (m := blk_rem len R) in *.
  assert (Hml : 0 <= m * (s + (if 0 <? m then 1 else 0)) <= len) by (destruct (Z.ltb_spec 0 m); nia).
  u64.
  destruct (Z.ltb_spec i (m * (s + (if 0 <? m then 1 else 0)))) as [Hlt|Hge].
  - assert (0 < s + (if 0 <? m then 1 else 0)) by (destruct (Z.ltb_spec 0 m); nia).
    destruct (Z.eqb_spec (s + (if 0 <? m then 1 else 0)) 0); [lia|].
    rewrite quot_nonneg by lia.
    set (o := i / (s + (if 0 <? m then 1 else 0))) in *.
    u64. cbn [oforce]. rewrite cwrap_s32_ok by lia.
    destruct (Z.geb_spec o 0); [|lia]. destruct (Z.ltb_spec o R); [reflexivity|lia].
  - assert (0 < s) by (destruct (Z.ltb_spec 0 m); nia).
    destruct (Z.eqb_spec s 0); [lia|]. u64.
    rewrite quot_nonneg by lia.
    set (q := (i - m * (s + (if 0 <? m then 1 else 0))) / s) in *.
    assert (0 <= q <= len) by (subst q; split; [apply Z.div_pos; lia | apply Z.div_le_upper_bound; nia]).
    u64. cbn [oforce]. rewrite cwrap_s32_ok by lia.
    destruct (Z.geb_spec (m + q) 0); [|lia]. destruct (Z.ltb_spec (m + q) R); [reflexivity|lia].
Qed.

(* local_index / global_index round trip on the owner *)
Lemma Gen_array_index_roundtrip len R i :
  0 <= len < 4611686018427387904 -> 0 < R < 2147483648 -> 0 <= i < len ->
  let r := blk_owner len R i in
  exists j, array_local_index (arr_view len R r) (Some i) = Some j /\
            0 <= j < blk_size len R r /\
            array_global_index (arr_view len R r) (Some j) = Some i.
Proof.
  intros Hl HR Hi. cbv zeta.
  destruct (blk_owner_spec len R i ltac:(lia) Hi) as (Ho & Hin).
  set (r := blk_owner len R i) in *.
  pose proof (div_le_self len R ltac:(lia) ltac:(lia)) as Hs.
  assert (Hst : 0 <= blk_start len R r).
  { rewrite <- (blk_start_0 len R) by lia. apply blk_start_mono; lia. }
  exists (i - blk_start len R r).
  unfold array_local_index, array_global_index, arr_view.
  cbn [m_local_start_index m_small_block_size].
  unfold csub, cadd, cbin, ccast, cge, cle, ccmp. u64. cbn [oforce].
  destruct (Z.geb_spec (i - blk_start len R r) 0); [|lia].
  assert (blk_size len R r <= blk_small len R + 1) by (unfold blk_size; destruct (r <? blk_rem len R); lia).
  destruct (Z.leb_spec (i - blk_start len R r) (blk_small len R)); [|lia].
  split; [reflexivity|]. split; [lia|].
  cbn [oforce]. replace (blk_start len R r + (i - blk_start len R r)) with i by lia. u64. reflexivity.
Qed.

(* ---------------------------------------------------------------------- *)
(* hash partitioner                                                        *)

Lemma Gen_hash_owner_in_range h n b :
  0 <= h < 18446744073709551616 -> 0 < n < 18446744073709551616 -> 0 < b < 18446744073709551616 ->
  hash_partition (Some h) (Some 0) (Some n) (Some b) = Some (h mod n, (h / n) mod b) /\ 0 <= h mod n < n.
Proof.
  intros Hh Hn Hb. unfold hash_partition, crem, cdiv, cbin. cbn [oforce].
  destruct (Z.eqb_spec n 0); [lia|]. destruct (Z.eqb_spec b 0); [lia|].
  rewrite rem_nonneg, quot_nonneg by lia.
  pose proof (Z.mod_pos_bound h n ltac:(lia)). pose proof (div_le_self h n ltac:(lia) ltac:(lia)).
  u64. cbn [oforce]. rewrite rem_nonneg by lia.
  pose proof (Z.mod_pos_bound (h / n) b ltac:(lia)). u64. cbn [oforce opair]. split; [reflexivity|lia].
Qed.
