(* ContainerModel.v — sequential specifications of the distributed containers,
   per key (C11, C12, C13, C15, C16), and the generic refinement argument (Dist):
   an owner-partitioned implementation whose handlers run on owner(key) equals
   the sequential application of the same operations, in the order in which they
   executed, on one global container; operations on different keys commute, so
   the contents of a key depend only on the order of the operations on that key.

   The per-key step functions are executable; the correspondence check evaluates
   them (vm_compute) on every key of every generated history and requires the
   state the real containers reached to be the result of SOME order of the
   operations issued on that key in that epoch (exactly the property's "in some
   sequential order"), with the visitor-call tallies of that same order. *)
From Coq Require Import ZArith List Bool Lia Permutation.
Import ListNotations.
Local Open Scope Z_scope.

(* ---------------------------------------------------------------------- *)
(* Per-key operations.  State of a key: the values stored under it, in storage order
   (map/multimap: values; set/multiset: one entry per copy; array: exactly one value;
   counting_set / reduction target: zero or one value). *)

Inductive cop :=
(* map (unique) *)
| MI (v : Z) | MIM (v : Z) | MV (id c : Z) | MVE (id c : Z) | MIV (id v c : Z) | MRA (v : Z) | MRX (v : Z) | MRN (v : Z) | ME
(* multimap *)
| XI (v : Z) | XV (id c : Z) | XVG (id : Z) | XVE (id c : Z) | XE
(* set / multiset *)
| SI | SE | SIM (id : Z) | SIC (id : Z) | SXM (id : Z) | SXC (id : Z) | TI | TE
(* counting set: n inserts; reduction with +: one contribution *)
| CI (n : Z) | RA (v : Z)
(* array element *)
| AS (v : Z) | AV (id c : Z) | AP (v : Z) | AX (v : Z) | AM (v : Z) | AI.

Definition tally := list (Z * Z).     (* (operation id, number of visitor calls) *)

(* visitors used by the harness: v := 3 v + c ; insert-else-visit: v := 5 v + offered + c *)
Definition visit3 (c : Z) (vs : list Z) : list Z := map (fun v => v * 3 + c) vs.

Definition cstep (dflt : Z) (o : cop) (vs : list Z) : list Z * tally :=
  match o with
  | MI v => (match vs with [] => [v] | _ :: t => v :: t end, [])
  | MIM v => (match vs with [] => [v] | _ => vs end, [])
  | MV id c | XV id c =>
      let vs' := match vs with [] => [dflt] | _ => vs end in
      (visit3 c vs', [(id, Z.of_nat (length vs'))])
  | MVE id c | XVE id c => (visit3 c vs, match vs with [] => [] | _ => [(id, Z.of_nat (length vs))] end)
  | MIV id v c =>
      (match vs with [] => [v] | _ => map (fun x => x * 5 + v + c) vs end,
       match vs with [] => [] | _ => [(id, Z.of_nat (length vs))] end)
  | MRA v => (match vs with [] => [v] | x :: t => (x + v) :: t end, [])
  | MRX v => (match vs with [] => [v] | x :: t => Z.max x v :: t end, [])
  | MRN v => (match vs with [] => [v] | x :: t => (2 * x + v) :: t end, [])      (* a non-commutative reducer: stored <- f(stored, offered) *)
  | ME | XE | SE | TE => ([], [])
  | XI v => (vs ++ [v], [])
  | XVG id =>
      let vs' := match vs with [] => [dflt] | _ => vs end in
      (vs', [(id, 1 + 1000 * Z.of_nat (length vs'))])
  | SI => (match vs with [] => [0] | _ => vs end, [])
  | SIM id => (match vs with [] => [0] | _ => vs end, match vs with [] => [(id, 1)] | _ => [] end)
  | SIC id => (match vs with [] => [0] | _ => vs end, match vs with [] => [] | _ => [(id, 1)] end)
  | SXM id => (vs, match vs with [] => [(id, 1)] | _ => [] end)
  | SXC id => (vs, match vs with [_] => [(id, 1)] | _ => [] end)
  | TI => (vs ++ [0], [])
  | CI n => (match vs with [] => [dflt + n] | x :: t => (x + n) :: t end, [])
  | RA v => (match vs with [] => [v] | x :: t => (x + v) :: t end, [])
  | AS v => ([v], [])
  | AV id c => (visit3 c vs, [(id, Z.of_nat (length vs))])
  | AP v => (map (fun x => x + v) vs, [])
  | AX v => (map (fun x => Z.lxor x v) vs, [])
  | AM v => (map (fun x => x - v) vs, [])
  | AI => (map (fun x => x + 1) vs, [])
  end.

Fixpoint crun (dflt : Z) (ops : list cop) (vs : list Z) : list Z * tally :=
  match ops with
  | [] => (vs, [])
  | o :: rest =>
      let '(vs1, t1) := cstep dflt o vs in
      let '(vs2, t2) := crun dflt rest vs1 in
      (vs2, t1 ++ t2)
  end.

(* ---------------------------------------------------------------------- *)
(* Clauses of the property text, as lemmas about the specification          *)

Lemma insert_overwrites dflt v vs : exists t, fst (cstep dflt (MI v) vs) = v :: t.
Proof. destruct vs; cbn; eexists; reflexivity. Qed.

Lemma insert_if_missing_keeps dflt v x t : fst (cstep dflt (MIM v) (x :: t)) = x :: t.
Proof. reflexivity. Qed.

Lemma visit_creates_default_and_calls_once_per_value dflt id c vs :
  cstep dflt (MV id c) vs =
  (visit3 c (match vs with [] => [dflt] | _ => vs end), [(id, Z.of_nat (length (match vs with [] => [dflt] | _ => vs end)))]).
Proof. reflexivity. Qed.

Lemma visit_if_exists_never_creates dflt id c : cstep dflt (MVE id c) [] = ([], []).
Proof. reflexivity. Qed.

Lemma erase_removes_all dflt vs : fst (cstep dflt XE vs) = [] /\ fst (cstep dflt ME vs) = [].
Proof. split; reflexivity. Qed.

Lemma multimap_insert_adds dflt v vs : fst (cstep dflt (XI v) vs) = vs ++ [v].
Proof. reflexivity. Qed.

(* a set never stores a key twice *)
Definition set_op (o : cop) : bool :=
  match o with SI | SE | SIM _ | SIC _ | SXM _ | SXC _ => true | _ => false end.

Lemma set_nodup dflt o vs : set_op o = true -> (length vs <= 1)%nat -> (length (fst (cstep dflt o vs)) <= 1)%nat.
Proof. destruct o; cbn; try discriminate; intros _ H; destruct vs as [|x [|y t]]; cbn in *; lia. Qed.

(* insert_exe_if_missing: the callback runs iff the key was absent, and then the key is present: however many
   such operations hit an absent key in whatever order, exactly one of them runs its callback *)
Fixpoint total_tally (t : tally) : Z := match t with [] => 0 | (_, n) :: r => n + total_tally r end.

Lemma exe_if_missing_once dflt ids :
  ids <> [] -> total_tally (snd (crun dflt (map SIM ids) [])) = 1 /\ fst (crun dflt (map SIM ids) []) = [0].
Proof.
  destruct ids as [|i rest]; [congruence|]. intros _. cbn [map crun cstep].
  assert (H : forall l, crun dflt (map SIM l) [0] = ([0], [])).
  { induction l as [|j l IH]; cbn [map crun cstep]; [reflexivity|]. rewrite IH. reflexivity. }
  rewrite H. cbn. split; reflexivity.
Qed.

(* counting: n inserts add n, in any order; reduction with + folds every contribution once *)
Fixpoint sumZ (l : list Z) : Z := match l with [] => 0 | x :: t => x + sumZ t end.

Lemma counting_adds dflt ns : forall vs x t, vs = x :: t ->
  fst (crun dflt (map CI ns) vs) = (x + sumZ ns) :: t.
Proof.
  induction ns as [|n ns IH]; intros vs x t ->; cbn [map crun sumZ].
  - cbn [fst]. f_equal; lia.
  - cbn [cstep]. destruct (crun dflt (map CI ns) ((x + n) :: t)) as (a, b) eqn:E.
    cbn. pose proof (IH ((x + n) :: t) (x + n) t eq_refl) as H. rewrite E in H. cbn in H. rewrite H. f_equal. lia.
Qed.

Lemma counting_from_empty dflt n ns : fst (crun dflt (map CI (n :: ns)) []) = [dflt + n + sumZ ns].
Proof.
  cbn [map crun cstep]. destruct (crun dflt (map CI ns) [dflt + n]) as (a, b) eqn:E. cbn.
  pose proof (counting_adds dflt ns [dflt + n] (dflt + n) [] eq_refl) as H. rewrite E in H. exact H.
Qed.

Lemma reduce_folds dflt vsl : forall x t,
  fst (crun dflt (map RA vsl) (x :: t)) = (x + sumZ vsl) :: t.
Proof.
  induction vsl as [|v vsl IH]; intros x t; cbn [map crun sumZ].
  - cbn [fst]. f_equal; lia.
  - cbn [cstep]. destruct (crun dflt (map RA vsl) ((x + v) :: t)) as (a, b) eqn:E. cbn.
    pose proof (IH (x + v) t) as H. rewrite E in H. cbn in H. rewrite H. f_equal. lia.
Qed.

(* order does not matter for the commutative array updates *)
Lemma array_plus_commutes dflt a b vs :
  fst (crun dflt [AP a; AP b] vs) = fst (crun dflt [AP b; AP a] vs).
Proof. cbn. rewrite !map_map. apply map_ext. intros; lia. Qed.

(* ---------------------------------------------------------------------- *)
(* Dist: owner-partitioned implementation refines the global container     *)

Section Dist.
  Variable K : Type.
  Variable keq : forall a b : K, {a = b} + {a <> b}.
  Variable owner : K -> nat.
  Variable dflt : Z.

  Definition gstate := K -> list Z.                 (* the global (abstract) container *)
  Definition lstate := nat -> K -> list Z.           (* rank -> its local container *)

  Definition gstep (ko : K * cop) (g : gstate) : gstate :=
    fun k' => if keq (fst ko) k' then fst (cstep dflt (snd ko) (g k')) else g k'.

  (* the handler of an operation on key k runs on rank owner k and touches only that rank's entry for k *)
  Definition lstep (ko : K * cop) (L : lstate) : lstate :=
    fun r k' => if Nat.eqb r (owner (fst ko)) then (if keq (fst ko) k' then fst (cstep dflt (snd ko) (L r k')) else L r k') else L r k'.

  Definition abs (L : lstate) : gstate := fun k => L (owner k) k.
  Definition owned (L : lstate) : Prop := forall r k, r <> owner k -> L r k = [].

  Lemma refine_step ko L k : abs (lstep ko L) k = gstep ko (abs L) k.
  Proof.
    unfold abs, lstep, gstep. destruct (keq (fst ko) k) as [E|E].
    - subst k. rewrite Nat.eqb_refl. reflexivity.
    - destruct (Nat.eqb (owner k) (owner (fst ko))); reflexivity.
  Qed.

  Lemma owned_step ko L : owned L -> owned (lstep ko L).
  Proof.
    intros H r k Hr. unfold lstep. destruct (Nat.eqb_spec r (owner (fst ko))) as [E|E]; [|apply H; exact Hr].
    destruct (keq (fst ko) k) as [E2|E2]; [subst k; congruence | apply H; exact Hr].
  Qed.

  (* any execution order: the implementation equals the sequential application in that order *)
  Theorem refines_sequential ops : forall L, owned L ->
    (forall k, abs (fold_left (fun L ko => lstep ko L) ops L) k = fold_left (fun g ko => gstep ko g) ops (abs L) k)
    /\ owned (fold_left (fun L ko => lstep ko L) ops L).
  Proof.
    induction ops as [|ko ops IH]; intros L HL; cbn [fold_left]; [split; [reflexivity|exact HL]|].
    destruct (IH (lstep ko L) (owned_step ko L HL)) as (H1 & H2). split; [|exact H2].
    intros k. rewrite H1.
    (* the two folds start from pointwise-equal states *)
    assert (Hext : forall ops g g', (forall k, g k = g' k) -> forall k, fold_left (fun g ko => gstep ko g) ops g k = fold_left (fun g ko => gstep ko g) ops g' k).
    { clear. induction ops as [|o ops IH]; intros g g' Hg k; cbn [fold_left]; [apply Hg|].
      apply IH. intros k'. unfold gstep. destruct (keq (fst o) k'); [now rewrite Hg | apply Hg]. }
    apply Hext. intros k'. apply refine_step.
  Qed.

  (* the contents of key k depend only on the operations on k, in their relative order *)
  Theorem per_key_projection ops : forall g k,
    fold_left (fun g ko => gstep ko g) ops g k
    = fst (crun dflt (map snd (filter (fun ko => if keq (fst ko) k then true else false) ops)) (g k)).
  Proof.
    induction ops as [|ko ops IH]; intros g k; cbn [fold_left filter map crun]; [reflexivity|].
    rewrite IH. unfold gstep. destruct (keq (fst ko) k) as [E|E]; cbn [map crun].
    - destruct (cstep dflt (snd ko) (g k)) as (v1, t1) eqn:E1. cbn [fst].
      destruct (crun dflt _ v1) as (v2, t2). reflexivity.
    - reflexivity.
  Qed.
End Dist.

(* ---------------------------------------------------------------------- *)
(* The correspondence check: is the observed state (and tallies) of a key the outcome of SOME order? *)

Fixpoint insert_all {A} (x : A) (l : list A) : list (list A) :=
  match l with
  | [] => [[x]]
  | y :: t => (x :: y :: t) :: map (cons y) (insert_all x t)
  end.
Fixpoint perms {A} (l : list A) : list (list A) :=
  match l with [] => [[]] | x :: t => flat_map (insert_all x) (perms t) end.

Fixpoint zlist_eqb (a b : list Z) : bool :=
  match a, b with [], [] => true | x :: a', y :: b' => (x =? y) && zlist_eqb a' b' | _, _ => false end.

Fixpoint tally_lookup (id : Z) (t : tally) : Z :=
  match t with [] => 0 | (i, n) :: r => (if i =? id then n else 0) + tally_lookup id r end.
Definition tally_agrees (obs model : tally) : bool :=
  forallb (fun '(i, n) => tally_lookup i model =? n) obs && forallb (fun '(i, n) => tally_lookup i obs =? n) model.

(* the values stored under one key are compared as a multiset: the order in which a multimap keeps equal keys is not part of
   its contents (an implementation may insert new equal keys first or last) *)
Fixpoint zinsert (x : Z) (l : list Z) : list Z := match l with [] => [x] | y :: t => if x <=? y then x :: y :: t else y :: zinsert x t end.
Definition zsort (l : list Z) : list Z := fold_right zinsert [] l.
Definition outcome_ok (dflt : Z) (start : list Z) (ops : list cop) (obs : list Z) (obs_t : tally) : bool :=
  existsb (fun p => let '(vs, t) := crun dflt p start in zlist_eqb (zsort vs) (zsort obs) && tally_agrees obs_t t) (perms ops).

Example outcome_examples :
  outcome_ok 7 [] [MI 10; MI 20] [20] [] = true /\ outcome_ok 7 [] [MI 10; MI 20] [10] [] = true /\
  outcome_ok 7 [] [MI 10; MI 20] [30] [] = false /\
  outcome_ok 7 [] [SIM 1; SIM 2; SIM 3] [0] [(2, 1)] = true /\ outcome_ok 7 [] [SIM 1; SIM 2] [0] [(1, 1); (2, 1)] = false /\
  outcome_ok 7 [1; 2] [XE] [] [] = true /\ outcome_ok 7 [1; 2] [XE] [2] [] = false /\
  outcome_ok 0 [] [CI 3; CI 2] [5] [] = true /\
  outcome_ok 7 [] [MRN 1; MRN 10; MRN 100] [124] [] = true /\ outcome_ok 7 [] [MRN 1; MRN 10; MRN 100] [221] [] = false.
Proof. vm_compute. repeat split. Qed.

(* ---- consume_all (set_impl::local_consume_all): while the local store is not empty, take the first element, erase that one
   element (by position, not by key), hand it to the callback.  [store]: the rank's elements in iteration order, copies adjacent. *)
Fixpoint consume_loop (fuel : nat) (store calls : list Z) : list Z * list Z :=
  match fuel, store with
  | S f, x :: rest => consume_loop f rest (calls ++ [x])
  | _, _ => (store, calls)
  end.
Definition consume_all (store : list Z) : list Z * list Z := consume_loop (length store) store [].

Lemma consume_loop_spec fuel : forall store calls, (length store <= fuel)%nat -> consume_loop fuel store calls = ([], calls ++ store).
Proof.
  induction fuel as [|f IH]; intros store calls H.
  - destruct store; [cbn; rewrite app_nil_r; reflexivity|cbn in H; lia].
  - destruct store as [|x rest]; [cbn; rewrite app_nil_r; reflexivity|]. cbn [consume_loop]. rewrite IH by (cbn in H; lia).
    rewrite <- app_assoc. reflexivity.
Qed.
(* every element - every copy of a multiset key - is handed to the callback exactly once, in order, and nothing is left *)
Theorem consume_all_exactly_once store : consume_all store = ([], store).
Proof. unfold consume_all. rewrite consume_loop_spec by lia. reflexivity. Qed.
