(* Properties_C10.v — C10: each key/index has exactly one owner; array blocks
   partition the index range.  Statements only; proofs are [exact]. The
   functions array_resize / array_owner / hash_partition are generated from
   /repo's array.ipp and hash_partitioner.hpp on this run. *)
From Coq Require Import ZArith List Bool Lia.
Import ListNotations.
From Ygm Require Import Gen.CArith Gen.Gen_array Gen.Gen_hash Partition.
Local Open Scope Z_scope.

(* hash-partitioned containers: the owner is hash mod nranks — a function of the
   key's hash and the communicator size only, always within [0, nranks) *)
Theorem C10_hash_owner_in_range : forall h n b,
  0 <= h < 18446744073709551616 -> 0 < n < 18446744073709551616 -> 0 < b < 18446744073709551616 ->
  hash_partition (Some h) (Some 0) (Some n) (Some b) = Some (h mod n, (h / n) mod b) /\ 0 <= h mod n < n.
Proof. exact Gen_hash_owner_in_range. Qed.
Print Assumptions C10_hash_owner_in_range.

(* array::resize computes the block partition on every rank (total: no division by zero,
   for every length including 0 and lengths below the number of ranks) *)
Theorem C10_resize_is_partition : forall v0 len R r,
  wf_arr len R r -> m_comm v0 = {| comm_size := R; comm_rank := r |} ->
  array_resize v0 (Some len)
  = Some (len, blk_small len R, blk_large len R, blk_size len R r, blk_start len R r).
Proof. exact Gen_array_resize_correct. Qed.
Print Assumptions C10_resize_is_partition.

Theorem C10_owner_is_spec : forall len R r i,
  wf_arr len R r -> 0 <= i < len ->
  array_owner (arr_view len R r) (Some i) = Some (blk_owner len R i).
Proof. exact Gen_array_owner_correct. Qed.
Print Assumptions C10_owner_is_spec.

(* the ranges [start r, start r + size r) are contiguous, start at 0, end at len *)
Theorem C10_blocks_contiguous : forall len R r, 0 < R -> 0 <= r ->
  blk_start len R (r + 1) = blk_start len R r + blk_size len R r.
Proof. exact blk_contiguous. Qed.
Theorem C10_blocks_start_0 : forall len R, 0 < R -> blk_start len R 0 = 0.
Proof. exact blk_start_0. Qed.
Theorem C10_blocks_cover : forall len R, 0 < R -> blk_start len R R = len.
Proof. exact blk_cover. Qed.
Theorem C10_blocks_balanced : forall len R r r',
  blk_size len R r - blk_size len R r' <= 1 /\ blk_size len R r' - blk_size len R r <= 1.
Proof. exact blk_balanced. Qed.
Print Assumptions C10_blocks_contiguous.
Print Assumptions C10_blocks_start_0.
Print Assumptions C10_blocks_cover.
Print Assumptions C10_blocks_balanced.

(* every index has an owner in range whose block contains it, and no other block does *)
Theorem C10_owner_in_range_and_block : forall len R i, 0 < R -> 0 <= i < len ->
  let r := blk_owner len R i in
  0 <= r < R /\ blk_start len R r <= i < blk_start len R r + blk_size len R r.
Proof. exact blk_owner_spec. Qed.
Theorem C10_owner_unique : forall len R i r, 0 < R -> 0 <= i < len -> 0 <= r < R ->
  blk_start len R r <= i < blk_start len R r + blk_size len R r -> r = blk_owner len R i.
Proof. exact blk_owner_unique. Qed.
Print Assumptions C10_owner_in_range_and_block.
Print Assumptions C10_owner_unique.

(* non-vacuity: fewer elements than ranks, and zero *)
Example C10_small : array_resize (arr_view 0 4 1) (Some 3) = Some (3, 0, 1, 1, 1)
  /\ array_owner (arr_view 3 4 1) (Some 2) = Some 2
  /\ array_resize (arr_view 0 4 3) (Some 0) = Some (0, 0, 0, 0, 0).
Proof. vm_compute. repeat split. Qed.
