(* RankNoErr.v — C03: no ASSERT_RELEASE of comm.ipp can fail.
   For every configuration with a non-negative capacity and in-range routing, every program whose destinations are
   ranks of the communicator (handlers and callbacks restricted to what a handler may do), every sequence of MPI
   responses whose received messages are addressed to ranks of the communicator, and every fuel: the rank machine
   never stops with Err 1 (front() of an empty destination queue in flush_to_capacity), Err 2 (re-entering
   process_receive_queue), Err 3 (barrier leaves with callbacks or buffers queued) or Err 4 (counts contributed with
   bytes buffered or pending).  Err 9 is "MPI answered a call with a response of another call" and is the only
   stop left.  The invariant carried through every procedure:
     sbb  = total wire size of all buffers            (m_send_buffer_bytes)
     every non-empty buffer's rank is in dq           (m_send_dest_queue)
     pend = sum of the posted send sizes              (m_pending_isend_bytes)
   and flush_all_local_and_process_incoming returns only with callbacks, destination queue and send queue empty. *)
From Coq Require Import ZArith List Bool Lia.
Import ListNotations.
From Ygm Require Import Bcast RankMachine.
Local Open Scope Z_scope.

Fixpoint twires (c : cfg) (l : list (list msg)) : Z := match l with [] => 0 | b :: t => wires c b + twires c t end.
Fixpoint sumz (l : list Z) : Z := match l with [] => 0 | x :: t => x + sumz t end.

Definition rng (nr : nat) (d : Z) : Prop := 0 <= d < Z.of_nat nr.
Definition msg_ok (nr : nat) (m : msg) : Prop := mdest m = -1 \/ rng nr (mdest m).
Definition resp_ok (nr : nat) (r : resp) : Prop :=
  match r with
  | RTestRecv (Some ms) | RWaitSR _ (Some ms) | RWaitIR _ (Some ms) => Forall (msg_ok nr) ms
  | _ => True
  end.

Lemma resp_okb_ok nr orc : forallb (resp_okb nr) orc = true -> Forall (resp_ok nr) orc.
Proof.
  intros H. rewrite forallb_forall in H. apply Forall_forall. intros r Hr. specialize (H r Hr).
  assert (M : forall ms, forallb (msg_okb nr) ms = true -> Forall (msg_ok nr) ms).
  { intros ms Hm. rewrite forallb_forall in Hm. apply Forall_forall. intros m Hin. specialize (Hm m Hin).
    unfold msg_okb, rngb in Hm. unfold msg_ok, rng. apply orb_prop in Hm as [E|E].
    - left. apply Z.eqb_eq. exact E.
    - right. apply andb_prop in E as (A & B). apply Z.leb_le in A. apply Z.ltb_lt in B. lia. }
  destruct r; cbn in *; try exact I; destruct data; try exact I; apply M; exact H.
Qed.

Definition DIx0 (c : cfg) (nr : nat) (ex : option Z) (s : st) : Prop :=
  sbb s = twires c (bufs s) /\
  (forall d, 0 <= d -> Some d <> ex -> buf_at s d <> [] -> In d (dq s)) /\
  pend s = sumz (sendq s) /\
  length (bufs s) = nr /\
  Forall (resp_ok nr) (oracle s).
Definition DI0 c nr s := DIx0 c nr None s.

Definition resE (P : st -> Prop) (r : res) : Prop :=
  match r with Ok s' => P s' | Blocked _ => True | Err a _ => a = 9%nat | OutOfFuel => True end.
Lemma resE_bind (P1 P2 : st -> Prop) r f : resE P1 r -> (forall s1, P1 s1 -> resE P2 (f s1)) -> resE P2 (r >>= f).
Proof. destruct r; cbn; auto. Qed.
Lemma resE_weaken (P1 P2 : st -> Prop) r : resE P1 r -> (forall s, P1 s -> P2 s) -> resE P2 r.
Proof. destruct r; cbn; auto. Qed.

(* ---- upd ---- *)
Lemma upd_cons0 {A} (a : A) l x : upd (a :: l) 0 x = x :: l.
Proof. reflexivity. Qed.
Lemma upd_consS {A} (a : A) l i x : upd (a :: l) (S i) x = a :: upd l i x.
Proof. reflexivity. Qed.
Lemma upd_length {A} (l : list A) i x : length (upd l i x) = length l.
Proof.
  revert i; induction l as [|a l IH]; intros i.
  - unfold upd. destruct i; reflexivity.
  - destruct i; [reflexivity|]. rewrite upd_consS. cbn. f_equal. apply IH.
Qed.
Lemma upd_nth_same {A} (l : list A) i x d : (i < length l)%nat -> nth i (upd l i x) d = x.
Proof.
  revert i; induction l as [|a l IH]; intros i Hi; cbn in Hi; [lia|].
  destruct i; [reflexivity|]. rewrite upd_consS. cbn. apply IH. lia.
Qed.
Lemma upd_nth_other {A} (l : list A) i j x d : j <> i -> nth j (upd l i x) d = nth j l d.
Proof.
  revert i j; induction l as [|a l IH]; intros i j Hne.
  - unfold upd. destruct i; reflexivity.
  - destruct i, j; try reflexivity; try lia. rewrite upd_consS. cbn. apply IH. lia.
Qed.
Lemma twires_upd c l i x : (i < length l)%nat -> twires c (upd l i x) = twires c l - wires c (nth i l []) + wires c x.
Proof.
  revert i; induction l as [|a l IH]; intros i Hi; cbn in Hi; [lia|].
  destruct i; [rewrite upd_cons0; cbn; lia|]. rewrite upd_consS. cbn. rewrite IH by lia. lia.
Qed.
Lemma wires_app c a b : wires c (a ++ b) = wires c a + wires c b.
Proof. induction a; cbn; lia. Qed.
Lemma sumz_app a b : sumz (a ++ b) = sumz a + sumz b.
Proof. induction a; cbn; lia. Qed.
Lemma twires_all_empty c l : (forall i, nth i l [] = []) -> twires c l = 0.
Proof.
  induction l as [|a l IH]; intros H; [reflexivity|]. cbn.
  pose proof (H O) as H0. cbn in H0. subst a. cbn. apply IH. intros i. apply (H (S i)).
Qed.
Lemma nth_nonempty_lt {A} (l : list (list A)) i : nth i l [] <> [] -> (i < length l)%nat.
Proof. intros H. destruct (Nat.lt_ge_cases i (length l)); [assumption|]. rewrite nth_overflow in H by lia. congruence. Qed.

Section NoErr.
  Variable c : cfg.
  Variable nr : nat.
  Hypothesis Hcap : 0 <= c_cap c.
  Hypothesis Hhop : forall d, rng nr d -> rng nr (next_hop c d).
  Hypothesis Hloc : Forall (rng nr) (locals_of c).
  Hypothesis Hrem : Forall (rng nr) (remote_partners_spec (c_n c) (c_p c) (c_me c)).
  Hypothesis Hh : forall u, forallb (hact_ok nr) (c_hprog c u) = true.
  Hypothesis Hcb : forall i, forallb (dests_ok nr) (c_cbprog c i) = true.

  Notation DI := (DI0 c nr).
  Notation DIx := (DIx0 c nr).

  Lemma DI_of_DIx_empty d s : DIx (Some d) s -> buf_at s d = [] -> DI s.
  Proof.
    intros (I1 & I2 & I3 & I4 & I5) He. repeat split; try assumption.
    intros d' Hd' _ Hb. apply I2; try assumption. intros E. injection E as ->. contradiction.
  Qed.

  Lemma DIx_pop d t s : DI s -> dq s = d :: t -> DIx (Some d) (set_dq t s).
  Proof.
    intros (I1 & I2 & I3 & I4 & I5) Hq. repeat split; try assumption.
    intros d' Hd' Hne Hb. cbn. specialize (I2 d' Hd' ltac:(discriminate) Hb). rewrite Hq in I2.
    destruct I2 as [<-|Hin]; [exfalso; apply Hne; reflexivity|exact Hin].
  Qed.

  Lemma DI_dq_nil_sbb s : DI s -> dq s = [] -> sbb s = 0.
  Proof.
    intros (I1 & I2 & _) Hq. rewrite I1. apply twires_all_empty. intros i.
    destruct (nth i (bufs s) []) eqn:E; [reflexivity|]. exfalso.
    assert (Hb : buf_at s (Z.of_nat i) <> []) by (unfold buf_at; rewrite Nat2Z.id, E; discriminate).
    specialize (I2 (Z.of_nat i) ltac:(lia) ltac:(discriminate) Hb). rewrite Hq in I2. exact I2.
  Qed.

  Lemma DI_sendq_nil_pend s : DI s -> sendq s = [] -> pend s = 0.
  Proof. intros (_ & _ & I3 & _) Hq. rewrite I3, Hq. reflexivity. Qed.

  Lemma DI_enqueue d m s : DI s -> rng nr d -> DI (enqueue c d m s) /\ inprq (enqueue c d m s) = inprq s.
  Proof.
    intros (I1 & I2 & I3 & I4 & I5) (Hd0 & Hd1).
    assert (Hi : (Z.to_nat d < length (bufs s))%nat) by (rewrite I4; lia).
    unfold enqueue, DI0, DIx0, buf_at.
    destruct (nth (Z.to_nat d) (bufs s) []) as [|m0 b0] eqn:E; cbn -[upd]; rewrite ?E.
    - split; [|reflexivity]. repeat split; try assumption.
      + rewrite twires_upd by exact Hi. rewrite E. cbn. lia.
      + intros d' Hd' _ Hb. apply in_or_app.
        destruct (Nat.eq_dec (Z.to_nat d') (Z.to_nat d)) as [Heq|Hne].
        * right. left. lia.
        * left. rewrite upd_nth_other in Hb by exact Hne. apply I2; try assumption. discriminate.
      + rewrite upd_length. exact I4.
    - split; [|reflexivity]. repeat split; try assumption.
      + rewrite twires_upd by exact Hi. rewrite E, wires_app. cbn. lia.
      + intros d' Hd' _ Hb.
        destruct (Nat.eq_dec (Z.to_nat d') (Z.to_nat d)) as [Heq|Hne].
        * assert (d' = d) by lia. subst d'. apply I2; try assumption; [discriminate|]. unfold buf_at. rewrite E. discriminate.
        * rewrite upd_nth_other in Hb by exact Hne. apply I2; try assumption. discriminate.
      + rewrite upd_length. exact I4.
  Qed.

  (* popping the answer of an MPI call *)
  Lemma DI_ask e s r rest : DI s -> oracle s = r :: rest -> DI (set_oracle rest (emit e s)) /\ resp_ok nr r.
  Proof.
    intros (I1 & I2 & I3 & I4 & I5) Ho. rewrite Ho in I5. inversion I5 as [|? ? Hr Hrest]; subst.
    split; [|exact Hr]. repeat split; assumption.
  Qed.

  Definition pre0 (b : bool) (s : st) : Prop := inprq s = b /\ DI s.
  Definition E (s : st) : Prop := cbs s = [] /\ dq s = [] /\ sendq s = [].
  Definition Rpost (s s' : st) : Prop := ret s' = true \/ (cbs s' = cbs s /\ dq s' = dq s /\ ret s' = ret s).
  Definition Fpost (s s' : st) : Prop := ret s' = true \/ (cbs s' = cbs s /\ dq s' = dq s).

  Definition spec (fu : nat) (b : bool) (p : proc) (s : st) : Prop :=
    let R := run fu c p s in
    match p with
    | PActs l => forallb (if b then hact_ok nr else dests_ok nr) l = true -> pre0 b s -> resE (pre0 b) R
    | PAsync m => rng nr (mdest m) -> pre0 b s -> resE (pre0 b) R
    | PQueueBytes d m => rng nr d -> pre0 b s -> resE (pre0 b) R
    | PBcast m => pre0 b s -> resE (pre0 b) R
    | PMcast ds m => Forall (rng nr) ds -> pre0 b s -> resE (pre0 b) R
    | PCheckHalt | PFlushToCap | PLocalProgress => pre0 b s -> resE (pre0 b) R
    | PFlushBuf d => inprq s = b -> DIx (Some d) s -> resE (pre0 b) R
    | PQueueMany ds m => Forall (rng nr) ds -> pre0 b s -> resE (pre0 b) R
    | PHandle ms => Forall (msg_ok nr) ms -> pre0 b s -> resE (pre0 b) R
    | PLocalIncoming => if b then pre0 true s -> resE (fun s' => pre0 true s' /\ Rpost s s') R else True
    | PHandleLoop ms => if b then Forall (msg_ok nr) ms -> pre0 true s -> resE (pre0 true) R else True
    | PExec m => if b then pre0 true s -> resE (pre0 true) R else True
    | PPrq => if b then True else pre0 false s -> resE (fun s' => pre0 false s' /\ Fpost s s') R
    | PWaitUntil _ => if b then True else pre0 false s -> resE (pre0 false) R
    | PFlushAll => if b then True else pre0 false s -> resE (fun s' => pre0 false s' /\ E s') R
    | PFlushAllCbs => if b then True else pre0 false s -> resE (fun s' => pre0 false s' /\ cbs s' = [] /\ (ret s' = true \/ s' = s)) R
    | PFlushAllDq => if b then True else pre0 false s -> resE (fun s' => pre0 false s' /\ dq s' = [] /\ (ret s' = true \/ s' = s)) R
    | PFlushAllSq => if b then True else pre0 false s ->
                     resE (fun s' => pre0 false s' /\ sendq s' = [] /\ (ret s' = true \/ (cbs s' = cbs s /\ dq s' = dq s /\ ret s' = ret s))) R
    | PBarrier => if b then True else pre0 false s -> resE (fun s' => pre0 false s' /\ E s') R
    | PBarrierLoop | PReduceCounts | PReduceLoop => if b then True else pre0 false s -> E s -> resE (fun s' => pre0 false s' /\ E s') R
    end.

  Lemma rngb_rng d : rngb nr d = true -> rng nr d.
  Proof. unfold rngb, rng. intros H. apply andb_prop in H as (A & B). apply Z.leb_le in A. apply Z.ltb_lt in B. lia. Qed.
  Lemma forallb_rng ds : forallb (rngb nr) ds = true -> Forall (rng nr) ds.
  Proof. intros H. rewrite forallb_forall in H. apply Forall_forall. intros x Hx. apply rngb_rng, H, Hx. Qed.

  (* the act-level hypotheses, whichever context *)
  Lemma acts_dests (b : bool) (a : act) : (if b then hact_ok nr else dests_ok nr) a = true -> dests_ok nr a = true.
  Proof. destruct b; intros Hx; [unfold hact_ok in Hx; apply andb_prop in Hx; tauto | exact Hx]. Qed.
  Lemma acts_legal a : hact_ok nr a = true -> legal_h a = true.
  Proof. unfold hact_ok. intros H. apply andb_prop in H. tauto. Qed.

  Theorem all_specs : forall fu b p s, spec fu b p s.
  Proof.
    induction fu as [|fu IH].
    { intros b p s. destruct p, b; cbn; intros; exact I. }
    intros b p s. destruct p; unfold spec; cbv zeta.
    - (* PActs *)
      intros Hl (Hq & Hdi). destruct l as [|a rest]; cbn [run]; [split; assumption|].
      cbn [forallb] in Hl. apply andb_prop in Hl as (Ha & Hrest).
      pose proof (acts_dests b a Ha) as Hd.
      eapply resE_bind with (P1 := pre0 b); [|intros s1 P1; exact (IH b (PActs rest) s1 Hrest P1)].
      destruct a; cbn [dests_ok] in Hd.
      + eapply resE_bind with (P1 := pre0 b); [apply (IH b (PAsync _) (emit (NO u) s)); [cbn; apply rngb_rng, Hd | split; assumption]|].
        intros s1 (A & B). cbn. destruct (inmain s1); cbn; split; assumption.
      + eapply resE_bind with (P1 := pre0 b); [apply (IH b PCheckHalt (emit (NO u) s)); split; assumption|].
        intros s1 P1. eapply resE_bind with (P1 := pre0 b); [apply (IH b (PAsync _) s1); [cbn; apply rngb_rng, Hd | exact P1]|].
        intros s2 (A & B). cbn. split; assumption.
      + eapply resE_bind with (P1 := pre0 b); [apply (IH b (PAsync _) (emit (NO u) s)); [cbn; apply rngb_rng, Hd | split; assumption]|].
        intros s1 (A & B). cbn. split; assumption.
      + eapply resE_bind with (P1 := pre0 b); [apply (IH b (PBcast _) (emit (NO u) s)); split; assumption|].
        intros s1 (A & B). cbn. split; assumption.
      + eapply resE_bind with (P1 := pre0 b); [apply (IH b (PMcast _ _) (emit (NO u) s)); [apply forallb_rng, Hd | split; assumption]|].
        intros s1 (A & B). cbn. split; assumption.
      + (* ABar: main context only *)
        destruct b; [apply acts_legal in Ha; discriminate|].
        eapply resE_bind with (P1 := pre0 false); [|intros s1 (A & B); cbn; split; assumption].
        eapply resE_weaken; [apply (IH false PBarrier (emit (NBI (nbar s + 1)) (set_nbar (nbar s + 1) s))); split; assumption|].
        intros s1 (P1 & _). exact P1.
      + (* ACfb *)
        destruct b; [apply acts_legal in Ha; discriminate|].
        unfold ask. cbn [oracle emit]. destruct (oracle s) as [|r rest0] eqn:Eo; [exact I|].
        destruct (DI_ask ECfBarrier s r rest0 Hdi Eo) as (D1 & _). destruct r; try reflexivity. cbn. split; assumption.
      + apply (IH b PLocalProgress s). split; assumption.
      + destruct b; [apply acts_legal in Ha; discriminate|]. apply (IH false (PWaitUntil f) s). split; assumption.
      + cbn. split; assumption.
      + destruct b; [apply acts_legal in Ha; discriminate|]. cbn. split; assumption.
      + destruct b; [apply acts_legal in Ha; discriminate|]. destruct (masks s); cbn; split; assumption.
      + cbn. split; assumption.
      + cbn. split; assumption.
      + destruct b; [apply acts_legal in Ha; discriminate|].
        unfold ask. cbn [oracle emit]. destruct (oracle s) as [|r rest0] eqn:Eo; [exact I|].
        destruct (DI_ask EColl s r rest0 Hdi Eo) as (D1 & _). destruct r; try reflexivity. cbn. split; assumption.
    - (* PAsync *)
      intros Hm (Hq & Hdi). cbn [run].
      eapply resE_bind with (P1 := pre0 b).
      { destruct (hk m =? 1)%nat; [cbn; split; assumption|]. apply (IH b PCheckHalt s). split; assumption. }
      intros s1 (A & B).
      destruct (DI_enqueue (next_hop c (mdest m)) m (set_scnt (scnt s1 + 1) s1) B (Hhop _ Hm)) as (D3 & Q3).
      cbn [inprq set_scnt] in Q3.
      apply (IH b PFlushToCap). split; [congruence|exact D3].
    - (* PQueueBytes *)
      intros Hd (Hq & Hdi). cbn [run].
      destruct (DI_enqueue d m (set_scnt (scnt s + 1) s) Hdi Hd) as (D3 & Q3). cbn [inprq set_scnt] in Q3.
      split; [congruence|exact D3].
    - (* PBcast *)
      intros (Hq & Hdi). cbn [run].
      eapply resE_bind with (P1 := pre0 b); [apply (IH b PCheckHalt s); split; assumption|].
      intros s1 P1.
      eapply resE_bind with (P1 := pre0 b); [apply (IH b (PQueueMany _ _) s1 Hloc P1)|].
      intros s2 (A & B). apply (IH b PFlushToCap s2). split; assumption.
    - (* PMcast *)
      intros Hds P0. destruct ds as [|d ds]; cbn [run]; [exact P0|]. inversion Hds as [|? ? Hd Hrest]; subst.
      eapply resE_bind with (P1 := pre0 b); [apply (IH b (PAsync _) s); [cbn; exact Hd|exact P0]|].
      intros s1 P1. apply (IH b (PMcast ds m) s1 Hrest P1).
    - (* PCheckHalt *)
      intros (Hq & Hdi). cbn [run]. rewrite Hq. destruct b.
      + rewrite andb_false_r. cbn. split; assumption.
      + destruct (intr s && negb false && (c_cap c <? pend s)); [|cbn; split; assumption].
        eapply resE_bind with (P1 := pre0 false).
        * eapply resE_weaken; [apply (IH false PPrq s); split; assumption|]. intros s1 (P1 & _). exact P1.
        * intros s1 P1. apply (IH false PCheckHalt s1 P1).
    - (* PFlushToCap *)
      intros (Hq & Hdi). cbn [run]. destruct (c_cap c <? sbb s) eqn:Ec; [|cbn; split; assumption].
      destruct (dq s) as [|d t] eqn:Eq.
      + exfalso. apply Z.ltb_lt in Ec. rewrite (DI_dq_nil_sbb s Hdi Eq) in Ec. lia.
      + eapply resE_bind with (P1 := pre0 b); [apply (IH b (PFlushBuf d) (set_dq t s)); [exact Hq | exact (DIx_pop d t s Hdi Eq)]|].
        intros s1 P1. apply (IH b PFlushToCap s1 P1).
    - (* PFlushBuf *)
      intros Hq Hdx. cbn [run]. destruct (buf_at s d) as [|m0 ms0] eqn:Eb.
      + cbn. split; [exact Hq|exact (DI_of_DIx_empty d s Hdx Eb)].
      + cbv zeta.
        match goal with |- resE _ (if inprq ?x then _ else _) => set (s3 := x) end.
        assert (F3 : inprq s3 = b /\ DI s3).
        { destruct Hdx as (I1 & I2 & I3 & I4 & I5).
          assert (Hi : (Z.to_nat d < length (bufs s))%nat).
          { apply nth_nonempty_lt. unfold buf_at in Eb. rewrite Eb. discriminate. }
          subst s3. split; [destruct (0 <? c_freq c); exact Hq|].
          unfold DI0, DIx0, buf_at. destruct (0 <? c_freq c); cbn -[upd wires];
            (repeat split; try assumption;
             [ rewrite twires_upd by exact Hi; unfold buf_at in Eb; rewrite Eb; cbn [wires]; lia
             | intros d' Hd' _ Hb;
               destruct (Nat.eq_dec (Z.to_nat d') (Z.to_nat d)) as [Heq|Hne];
               [ rewrite Heq, upd_nth_same in Hb by exact Hi; congruence
               | rewrite upd_nth_other in Hb by exact Hne; apply I2; try assumption; intros X; injection X as ->; apply Hne; reflexivity ]
             | rewrite sumz_app; cbn; lia
             | rewrite upd_length; exact I4 ]). }
        destruct F3 as (F1 & F2). rewrite F1. destruct b; [cbn; split; assumption|].
        eapply resE_weaken; [apply (IH false PPrq s3); split; assumption|]. intros s4 (P4 & _). exact P4.
    - (* PPrq *)
      destruct b; [exact I|]. intros (Hq & Hdi). cbn [run]. rewrite Hq.
      set (s0 := set_ret false (set_inprq true s)).
      destruct (negb (intr s0)) eqn:Ei.
      { cbn. split; [split; [reflexivity|exact Hdi]|]. right. split; reflexivity. }
      assert (P0 : pre0 true s0) by (split; [reflexivity|exact Hdi]).
      eapply resE_bind with (P1 := fun s4 => pre0 true s4 /\ (ret s4 = true \/ (cbs s4 = cbs s /\ dq s4 = dq s /\ ret s4 = false))).
      + destruct (c_nisw c <? Z.of_nat (length (sendq s0))).
        * unfold ask. cbn [oracle emit]. destruct (oracle s0) as [|r rest] eqn:Eo; [exact I|].
          destruct (DI_ask EWaitSR s0 r rest Hdi Eo) as (D1 & Hr).
          destruct r; try reflexivity.
          set (s1 := set_oracle rest (emit EWaitSR s0)) in *.
          set (s2 := if send_done then match sendq s1 with [] => s1 | z :: t => set_sendq t (set_pend (pend s1 - z) s1) end else s1).
          assert (D2 : DI s2 /\ inprq s2 = true /\ cbs s2 = cbs s /\ dq s2 = dq s /\ ret s2 = false).
          { subst s2. destruct send_done; [|split; [exact D1|repeat split]].
            destruct (sendq s1) as [|z t] eqn:Es; [split; [exact D1|repeat split]|].
            split; [|repeat split].
            destruct D1 as (I1 & I2 & I3 & I4 & I5). repeat split; try assumption. cbn [pend sendq set_sendq set_pend]. rewrite I3, Es. cbn [sumz]. lia. }
          destruct D2 as (D2 & Q2 & C2 & K2 & R2).
          destruct data as [ms|].
          -- eapply resE_bind with (P1 := pre0 true); [apply (IH true (PHandle ms) (set_ret true s2) Hr); split; assumption|].
             intros s3 (A & B). cbn. split; [split; assumption|]. left. reflexivity.
          -- cbn. split; [split; assumption|]. right. repeat split; assumption.
        * destruct (sendq s0) as [|z t] eqn:Es.
          -- cbn. split; [exact P0|]. right. repeat split.
          -- unfold ask. cbn [oracle emit]. destruct (oracle s0) as [|r rest] eqn:Eo; [exact I|].
             destruct (DI_ask ETestSend s0 r rest Hdi Eo) as (D1 & Hr).
             destruct r; try reflexivity. destruct flag; cbn.
             ++ split; [split; [reflexivity|]|right; repeat split].
                destruct D1 as (I1 & I2 & I3 & I4 & I5). repeat split; try assumption. cbn. cbn in I3, Es. rewrite I3, Es. cbn. lia.
             ++ split; [split; [reflexivity|exact D1]|right; repeat split].
      + intros s4 ((A4 & D4) & F4).
        eapply resE_bind with (P1 := fun s5 => pre0 true s5 /\ Rpost (set_ret false s4) s5).
        * apply (IH true PLocalIncoming (set_ret false s4)). split; assumption.
        * intros s5 ((A5 & D5) & R5). cbn. split; [split; [reflexivity|exact D5]|].
          unfold Fpost. cbn.
          destruct (ret s4) eqn:E4; [left; reflexivity|]. cbn.
          destruct R5 as [R5|(C5 & K5 & R5)]; [left; exact R5|]. cbn in C5, K5, R5.
          destruct F4 as [F4|(C4 & K4 & _)]; [congruence|]. right. split; congruence.
    - (* PLocalIncoming *)
      destruct b; [|exact I]. intros (Hq & Hdi). cbn [run].
      unfold ask. cbn [oracle emit]. destruct (oracle s) as [|r rest] eqn:Eo; [exact I|].
      destruct (DI_ask ETestRecv s r rest Hdi Eo) as (D1 & Hr).
      destruct r; try reflexivity. destruct data as [ms|].
      + eapply resE_bind with (P1 := pre0 true); [apply (IH true (PHandle ms) _ Hr); split; assumption|].
        intros s2 P2.
        eapply resE_bind with (P1 := fun s3 => pre0 true s3 /\ Rpost s2 s3); [apply (IH true PLocalIncoming s2 P2)|].
        intros s3 ((A3 & D3) & _). cbn. split; [split; assumption|]. left. reflexivity.
      + cbn. split; [split; assumption|]. right. repeat split.
    - (* PHandle *)
      intros Hms (Hq & Hdi). cbn [run]. cbv zeta.
      eapply resE_bind with (P1 := pre0 true); [apply (IH true (PHandleLoop ms) (set_inprq true s) Hms); split; [reflexivity|exact Hdi]|].
      intros s1 (A & B). rewrite Hq.
      apply (IH b PFlushToCap (emit EIrecv (set_inprq b s1))). split; [reflexivity|exact B].
    - (* PHandleLoop *)
      destruct b; [|exact I]. intros Hms P0. destruct ms as [|m rest]; cbn [run]; [exact P0|].
      inversion Hms as [|? ? Hm Hrest]; subst.
      eapply resE_bind with (P1 := pre0 true); [|intros s1 P1; exact (IH true (PHandleLoop rest) s1 Hrest P1)].
      destruct ((c_routing c =? 0) || (mdest m =? c_me c) || (mdest m =? -1)) eqn:Ecl.
      + eapply resE_bind with (P1 := pre0 true); [apply (IH true (PExec m) s P0)|].
        intros s1 (A & B). cbn. split; assumption.
      + destruct P0 as (Hq & Hdi).
        assert (Hr : rng nr (mdest m)).
        { destruct Hm as [Hm|Hm]; [|exact Hm]. rewrite Hm in Ecl. rewrite orb_true_r in Ecl. discriminate. }
        destruct (DI_enqueue (next_hop c (mdest m)) m s Hdi (Hhop _ Hr)) as (D3 & Q3).
        apply (IH true PFlushToCap). split; [congruence|exact D3].
    - (* PExec *)
      destruct b; [|exact I]. intros (Hq & Hdi). cbn [run]. cbv zeta.
      set (s1 := set_inmain false (set_depth _ (emit _ s))).
      assert (P1 : pre0 true s1) by (split; assumption).
      eapply resE_bind with (P1 := pre0 true).
      + destruct (stage m) as [|[|[|?]]]; try (cbn; exact P1).
        * apply (IH true (PQueueMany _ _) s1 Hrem P1).
        * apply (IH true (PQueueMany _ _) s1); [|exact P1].
          apply Forall_forall. intros x Hx. apply filter_In in Hx as (Hx & _). rewrite Forall_forall in Hloc. apply Hloc, Hx.
      + intros s2 P2.
        eapply resE_bind with (P1 := pre0 true); [apply (IH true (PActs (c_hprog c (uid m))) s2 (Hh (uid m)) P2)|].
        intros s3 (A & B). cbn. split; assumption.
    - (* PQueueMany *)
      intros Hds P0. destruct ds as [|d ds]; cbn [run]; [exact P0|]. inversion Hds as [|? ? Hd Hrest]; subst.
      eapply resE_bind with (P1 := pre0 b); [apply (IH b (PQueueBytes d m) s Hd P0)|].
      intros s1 P1. apply (IH b (PQueueMany ds m) s1 Hrest P1).
    - (* PLocalProgress *)
      intros (Hq & Hdi). cbn [run]. rewrite Hq.
      eapply resE_bind with (P1 := pre0 b).
      + destruct b; [cbn; split; assumption|].
        eapply resE_weaken; [apply (IH false PPrq s); split; assumption|]. intros s1 (P1 & _). exact P1.
      + intros s1 (A & B). destruct (dq s1) as [|d t] eqn:Eq; [cbn; split; assumption|].
        apply (IH b (PFlushBuf d) (set_dq t s1)); [exact A|exact (DIx_pop d t s1 B Eq)].
    - (* PWaitUntil *)
      destruct b; [exact I|]. intros P0. cbn [run]. destruct (has_flag s f); [exact P0|].
      eapply resE_bind with (P1 := pre0 false); [apply (IH false PLocalProgress s P0)|].
      intros s1 P1. apply (IH false (PWaitUntil f) s1 P1).
    - (* PFlushAll *)
      destruct b; [exact I|]. intros P0. cbn [run].
      eapply resE_bind with (P1 := pre0 false).
      { eapply resE_weaken; [apply (IH false PPrq s P0)|]. intros s1 (P1 & _). exact P1. }
      intros s1 P1.
      eapply resE_bind with (P1 := fun s2 => pre0 false s2 /\ cbs s2 = [] /\ (ret s2 = true \/ s2 = s1)); [apply (IH false PFlushAllCbs s1 P1)|].
      intros s2 (P2 & C2 & _).
      eapply resE_bind with (P1 := fun s3 => pre0 false s3 /\ dq s3 = [] /\ (ret s3 = true \/ s3 = s2)); [apply (IH false PFlushAllDq s2 P2)|].
      intros s3 (P3 & K3 & F3).
      eapply resE_bind with (P1 := fun s4 => pre0 false s4 /\ sendq s4 = [] /\ (ret s4 = true \/ (cbs s4 = cbs s3 /\ dq s4 = dq s3 /\ ret s4 = ret s3)));
        [apply (IH false PFlushAllSq s3 P3)|].
      intros s4 (P4 & Q4 & F4).
      destruct (ret s4) eqn:E4; [apply (IH false PFlushAll s4 P4)|].
      cbn. split; [exact P4|].
      destruct F4 as [F4|(C4 & K4 & R4)]; [discriminate|].
      destruct F3 as [F3|F3]; [congruence|]. subst s3.
      unfold E. repeat split; congruence.
    - (* PFlushAllCbs *)
      destruct b; [exact I|]. intros (Hq & Hdi). cbn [run]. destruct (cbs s) as [|id t] eqn:Ec.
      + cbn. split; [split; assumption|]. split; [exact Ec|right; reflexivity].
      + cbv zeta.
        eapply resE_bind with (P1 := pre0 false); [apply (IH false (PActs (c_cbprog c id)) _ (Hcb id)); split; assumption|].
        intros s1 (A & B).
        eapply resE_weaken; [apply (IH false PFlushAllCbs); split; [exact A|exact B]|].
        intros s2 (P2 & C2 & F2). split; [exact P2|]. split; [exact C2|]. left.
        destruct F2 as [F2|F2]; [exact F2|subst s2; reflexivity].
    - (* PFlushAllDq *)
      destruct b; [exact I|]. intros (Hq & Hdi). cbn [run]. destruct (dq s) as [|d t] eqn:Eq.
      + cbn. split; [split; assumption|]. split; [exact Eq|right; reflexivity].
      + eapply resE_bind with (P1 := pre0 false); [apply (IH false (PFlushBuf d) (set_dq t s)); [exact Hq|exact (DIx_pop d t s Hdi Eq)]|].
        intros s1 P1.
        eapply resE_bind with (P1 := pre0 false).
        { eapply resE_weaken; [apply (IH false PPrq s1 P1)|]. intros s2 (P2 & _). exact P2. }
        intros s2 (A & B).
        eapply resE_weaken; [apply (IH false PFlushAllDq (set_ret true s2)); split; assumption|].
        intros s3 (P3 & K3 & F3). split; [exact P3|]. split; [exact K3|]. left.
        destruct F3 as [F3|F3]; [exact F3|subst s3; reflexivity].
    - (* PFlushAllSq *)
      destruct b; [exact I|]. intros (Hq & Hdi). cbn [run]. destruct (sendq s) as [|z t] eqn:Es.
      + cbn. split; [split; assumption|]. split; [exact Es|right; repeat split].
      + cbv zeta.
        eapply resE_bind with (P1 := fun s1 => pre0 false s1 /\ Fpost s s1); [apply (IH false PPrq s); split; assumption|].
        intros s1 ((A & B) & F1).
        eapply resE_weaken; [apply (IH false PFlushAllSq (set_ret (ret s || ret s1) s1)); split; assumption|].
        intros s2 (P2 & Q2 & F2). split; [exact P2|]. split; [exact Q2|].
        destruct F2 as [F2|(C2 & K2 & R2)]; [left; exact F2|]. cbn in C2, K2, R2.
        destruct (ret s) eqn:Er; cbn in R2; [left; exact R2|].
        destruct (ret s1) eqn:Er1; [left; exact R2|].
        destruct F1 as [F1|(C1 & K1)]; [congruence|]. right. repeat split; congruence.
    - (* PBarrier *)
      destruct b; [exact I|]. intros P0. cbn [run].
      eapply resE_bind with (P1 := fun s1 => pre0 false s1 /\ E s1); [apply (IH false PFlushAll s P0)|].
      intros s1 ((A & B) & (C1 & K1 & Q1)).
      apply (IH false PBarrierLoop (set_prev (1, 2) (set_cur (3, 4) s1))); [split; assumption|repeat split; assumption].
    - (* PBarrierLoop *)
      destruct b; [exact I|]. intros (Hq & Hdi) (C0 & K0 & Q0). cbn [run]. destruct (cur s) as (c1, c2) eqn:Ecur.
      destruct ((c1 =? c2) && (fst (prev s) =? c1) && (snd (prev s) =? c2)).
      + rewrite C0, K0. cbn. split; [split; assumption|repeat split; assumption].
      + eapply resE_bind with (P1 := fun s1 => pre0 false s1 /\ E s1).
        { apply (IH false PReduceCounts (set_prev (c1, c2) s)); [split; assumption|repeat split; assumption]. }
        intros s1 (P1 & E1).
        eapply resE_bind with (P1 := fun s2 => pre0 false s2 /\ E s2).
        { destruct (fst (cur s1) =? snd (cur s1)); [cbn; split; assumption|]. apply (IH false PFlushAll s1 P1). }
        intros s2 (P2 & E2). apply (IH false PBarrierLoop s2 P2 E2).
    - (* PReduceCounts *)
      destruct b; [exact I|]. intros (Hq & Hdi) (C0 & K0 & Q0). cbn [run].
      rewrite (DI_sendq_nil_pend s Hdi Q0), (DI_dq_nil_sbb s Hdi K0). cbn.
      apply (IH false PReduceLoop); [split; assumption|repeat split; assumption].
    - (* PReduceLoop *)
      destruct b; [exact I|]. intros (Hq & Hdi) E0. cbn [run]. destruct (red_done s); [cbn; split; [split; assumption|exact E0]|].
      unfold ask. cbn [oracle emit]. destruct (oracle s) as [|r rest] eqn:Eo; [exact I|].
      destruct (DI_ask EWaitIR s r rest Hdi Eo) as (D1 & Hr).
      destruct r; try reflexivity.
      set (s1 := set_oracle rest (emit EWaitIR s)) in *.
      set (s2 := match result with Some v => set_red_done true (set_cur v s1) | None => s1 end).
      assert (P2 : pre0 false s2 /\ E s2).
      { subst s2. destruct E0 as (C0 & K0 & Q0). destruct result; (split; [split; [exact Hq|exact D1]|repeat split; assumption]). }
      destruct P2 as (P2 & E2).
      eapply resE_bind with (P1 := fun s3 => pre0 false s3 /\ E s3); [|intros s3 (P3 & E3); exact (IH false PReduceLoop s3 P3 E3)].
      destruct data as [ms|]; [|cbn; split; assumption].
      eapply resE_bind with (P1 := pre0 false); [apply (IH false (PHandle ms) s2 Hr P2)|].
      intros s3 P3. apply (IH false PFlushAll s3 P3).
  Qed.

  (* barrier() returns only with every callback run, every buffer on the wire and every posted send complete *)
  Theorem barrier_returns_flushed fuel s s' :
    inprq s = false -> DI s -> run fuel c PBarrier s = Ok s' ->
    cbs s' = [] /\ dq s' = [] /\ sendq s' = [] /\ sbb s' = 0 /\ pend s' = 0.
  Proof.
    intros Hq Hdi Hr. pose proof (all_specs fuel false PBarrier s (conj Hq Hdi)) as H. rewrite Hr in H. cbn in H.
    destruct H as ((_ & D') & (C1 & K1 & Q1)). repeat split; try assumption.
    - exact (DI_dq_nil_sbb s' D' K1).
    - exact (DI_sendq_nil_pend s' D' Q1).
  Qed.

  (* the whole life of a rank: the main program, then the destructor's barrier *)
  Theorem no_assertion_fails fuel main orc :
    forallb (dests_ok nr) main = true ->
    Forall (resp_ok nr) orc ->
    match run_rank fuel c nr main orc with
    | Err a _ => a = 9%nat          (* only: MPI answered with the response of a different call *)
    | _ => True
    end.
  Proof.
    intros Hm Ho. unfold run_rank.
    assert (P0 : pre0 false (init_st nr orc)).
    { split; [reflexivity|]. unfold DI0, DIx0, init_st, buf_at. cbn. repeat split.
      - clear. induction nr; cbn; auto.
      - intros d _ _ Hb. exfalso. apply Hb. clear. generalize (Z.to_nat d). induction nr; intros [|i]; cbn; auto.
      - apply repeat_length.
      - exact Ho. }
    assert (H : resE (fun _ => True) (run fuel c (PActs main) (init_st nr orc) >>= (fun s => run fuel c PBarrier s))).
    { eapply resE_bind; [apply (all_specs fuel false (PActs main) _ Hm P0)|].
      intros s1 P1. eapply resE_weaken; [apply (all_specs fuel false PBarrier s1 P1)|]. intros; exact I. }
    destruct (run fuel c (PActs main) (init_st nr orc) >>= (fun s => run fuel c PBarrier s)); cbn in H; auto.
  Qed.
End NoErr.

(* ---- the routing hypotheses hold on every block layout ---- *)
From Ygm Require Import Layout Router.

Lemma next_hop_spec_range sch n p me d :
  0 < n -> 0 < p -> 0 <= me < n * p -> 0 <= d < n * p -> 0 <= next_hop_spec sch n p me d < n * p.
Proof.
  intros Hn Hp Hme Hd. unfold next_hop_spec.
  pose proof (node_lt n p me Hp Hme) as Am. pose proof (node_lt n p d Hp Hd) as Ad.
  pose proof (loc_lt p me Hp) as Lm.
  destruct (sch =? RT_NONE); [exact Hd|].
  destruct (znode p me =? znode p d); [exact Hd|].
  destruct (sch =? RT_NR); [apply nl_lt; assumption|].
  pose proof (Z.mod_pos_bound (znode p d + znode p me) p Hp) as Hc.
  cbv zeta. destruct (me =? znode p me * p + (znode p d + znode p me) mod p); apply nl_lt; assumption.
Qed.

Theorem no_assertion_fails_on_every_layout c fuel main orc :
  let nr := Z.to_nat (c_n c * c_p c) in
  0 < c_n c -> 0 < c_p c -> 0 <= c_me c < c_n c * c_p c -> 0 <= c_cap c ->
  (forall u, forallb (hact_ok nr) (c_hprog c u) = true) ->
  (forall i, forallb (dests_ok nr) (c_cbprog c i) = true) ->
  forallb (dests_ok nr) main = true ->
  Forall (resp_ok nr) orc ->
  match run_rank fuel c nr main orc with Err a _ => a = 9%nat | _ => True end.
Proof.
  intros nr Hn Hp Hme Hcap Hh Hcb Hm Ho.
  assert (Enr : Z.of_nat nr = c_n c * c_p c) by (subst nr; rewrite Z2Nat.id; nia).
  apply (no_assertion_fails c nr Hcap); try assumption.
  - intros d Hd. unfold rng in *. rewrite Enr in *. unfold next_hop.
    destruct (c_routing c =? 0); [exact Hd|]. apply next_hop_spec_range; assumption.
  - unfold locals_of, local_ranks_of. apply Forall_forall. intros x Hx. apply in_map_iff in Hx as (l & <- & Hl).
    apply in_seq in Hl. unfold rng. rewrite Enr.
    pose proof (node_lt (c_n c) (c_p c) (c_me c) Hp Hme) as Am. unfold znode in Am.
    apply nl_lt; [exact Am|]. lia.
  - apply Forall_forall. intros x Hx. unfold rng. rewrite Enr.
    apply (remote_partners_shape (c_n c) (c_p c) (c_me c) x Hn Hp Hme Hx).
Qed.
