(* Router.v — C04.  Hand-written specification of comm_router::next_hop on a
   block layout, its equivalence with the definition *generated* from
   comm_router.hpp (Gen_router.v), and the route-shape theorems.

   Routes are obtained by iterating next_hop, exactly as comm.ipp does: the
   origin calls next_hop(dest), and every rank that receives a message whose
   destination is not itself calls next_hop(dest) again. *)
From Coq Require Import ZArith List Bool Lia.
Import ListNotations.
From Ygm Require Import Gen.CArith Gen.Gen_layout Gen.Gen_router Layout.
Local Open Scope Z_scope.

Definition RT_NONE := 0.
Definition RT_NR := 1.
Definition RT_NLNR := 2.

(* ---------------------------------------------------------------------- *)
(* Specification                                                           *)

Definition next_hop_spec (sch n p me dest : Z) : Z :=
  if sch =? RT_NONE then dest
  else if znode p me =? znode p dest then dest
  else if sch =? RT_NR then znode p dest * p + zloc p me
  else let ch := (znode p dest + znode p me) mod p in
       let lcr := znode p me * p + ch in
       if me =? lcr then znode p dest * p + zloc p me else lcr.

(* ---------------------------------------------------------------------- *)
(* Equivalence with the generated code (re-proved on every run)            *)

Lemma Gen_router_correct n p me dest sch :
  wf_np n p -> 0 <= me < n * p -> 0 <= dest < n * p ->
  sch = RT_NONE \/ sch = RT_NR \/ sch = RT_NLNR ->
  router_next_hop {| m_layout := block_layout n p me |} (Some dest) (Some sch)
  = Some (next_hop_spec sch n p me dest).
Proof.
  intros Hwf Hme Hd Hs. pose proof Hwf as (Hn & Hp & Hb).
  pose proof (node_lt n p me Hp Hme) as Hnm. pose proof (node_lt n p dest Hp Hd) as Hnd.
  pose proof (loc_lt p me Hp) as Hlm.
  assert (Hnn : n <= n * p) by nia. assert (Hpp : p <= n * p) by nia.
  unfold router_next_hop, next_hop_spec, RT_NONE, RT_NR, RT_NLNR in *.
  cbn [Gen_router.m_layout].
  destruct Hs as [ -> | [ -> | -> ] ]; cbn [ceq ccmp Z.eqb Pos.eqb oforce].
  - reflexivity.
  - rewrite (is_local1_ok n p me dest Hwf Hd).
    destruct (Z.eqb_spec (znode p me) (znode p dest)) as [E|E]; [reflexivity|].
    rewrite (node_id1_ok n p me dest Hwf Hd). cbn [ccast].
    rewrite cwrap_u64_ok by lia.
    rewrite (strided_get n p me (znode p dest)) by lia. reflexivity.
  - rewrite (is_local1_ok n p me dest Hwf Hd).
    destruct (Z.eqb_spec (znode p me) (znode p dest)) as [E|E]; [reflexivity|].
    rewrite (node_id1_ok n p me dest Hwf Hd). cbn [oforce].
    unfold layout_node_id0, layout_local_size0, layout_rank0.
    cbn [m_node_id m_local_size m_comm_rank block_layout].
    unfold cadd, crem, cbin.
    rewrite cnorm_s32_ok by lia.
    destruct (Z.eqb_spec p 0) as [?|_]; [lia|].
    rewrite rem_nonneg by lia.
    pose proof (Z.mod_pos_bound (znode p dest + znode p me) p Hp) as Hch.
    rewrite cnorm_s32_ok by lia. cbn [oforce ccast].
    rewrite cwrap_u64_ok by lia.
    rewrite (local_get n p me _ Hch). cbn [oforce ceq ccmp].
    destruct (Z.eqb_spec me (znode p me * p + (znode p dest + znode p me) mod p)) as [E2|E2].
    + rewrite cwrap_u64_ok by lia.
      rewrite (strided_get n p me (znode p dest)) by lia. reflexivity.
    + reflexivity.
Qed.

(* ---------------------------------------------------------------------- *)
(* Routes                                                                  *)

(* hops taken by a message from [cur] to [dst]; [None] = more than [fuel] hops *)
Fixpoint route_aux (fuel : nat) (sch n p cur dst : Z) : option (list Z) :=
  match fuel with
  | O => None
  | S f =>
      let h := next_hop_spec sch n p cur dst in
      if h =? dst then Some [h]
      else match route_aux f sch n p h dst with
           | Some r => Some (h :: r)
           | None => None
           end
  end.

Definition route (sch n p src dst : Z) : option (list Z) := route_aux 4 sch n p src dst.

Definition on_node (p x y : Z) : Prop := znode p x = znode p y.
Definition off_node (p x y : Z) : Prop := znode p x <> znode p y.

(* consecutive (sender, receiver) pairs of a route starting at src *)
Fixpoint legs (src : Z) (r : list Z) : list (Z * Z) :=
  match r with [] => [] | h :: t => (src, h) :: legs h t end.

(* next_hop in (node, on-node index) coordinates *)
Section Coordinates.
  Variables n p : Z.
  Hypothesis Hn : 0 < n.
  Hypothesis Hp : 0 < p.

  Lemma nh_same_node sch a l m :
    0 <= l < p -> 0 <= m < p ->
    next_hop_spec sch n p (a * p + l) (a * p + m) = a * p + m.
  Proof.
    intros Hl Hm. unfold next_hop_spec.
    rewrite !node_of_nl by lia. rewrite Z.eqb_refl.
    destruct (sch =? RT_NONE); reflexivity.
  Qed.

  Lemma nh_nr a b l m :
    0 <= l < p -> 0 <= m < p -> a <> b ->
    next_hop_spec RT_NR n p (a * p + l) (b * p + m) = b * p + l.
  Proof.
    intros Hl Hm Hab. unfold next_hop_spec, RT_NR, RT_NONE. cbn [Z.eqb Pos.eqb].
    rewrite !node_of_nl, !loc_of_nl by lia.
    destruct (Z.eqb_spec a b); [lia | reflexivity].
  Qed.

  Lemma nh_nlnr a b l m :
    0 <= l < p -> 0 <= m < p -> a <> b ->
    next_hop_spec RT_NLNR n p (a * p + l) (b * p + m)
    = if l =? (b + a) mod p then b * p + l else a * p + (b + a) mod p.
  Proof.
    intros Hl Hm Hab. unfold next_hop_spec, RT_NLNR, RT_NONE. cbn [Z.eqb Pos.eqb].
    rewrite !node_of_nl, !loc_of_nl by lia.
    destruct (Z.eqb_spec a b); [lia|].
    pose proof (Z.mod_pos_bound (b + a) p Hp).
    destruct (Z.eqb_spec (a * p + l) (a * p + (b + a) mod p));
      destruct (Z.eqb_spec l ((b + a) mod p)); try reflexivity; lia.
  Qed.

  Lemma nl_inj a b l m : 0 <= l < p -> 0 <= m < p -> a * p + l = b * p + m -> a = b /\ l = m.
  Proof.
    intros Hl Hm E.
    assert (a = b) by (rewrite <- (node_of_nl p a l), <- (node_of_nl p b m) by lia; now rewrite E).
    subst; lia.
  Qed.
End Coordinates.

(* Every rank is (node, index) *)
Lemma rank_nl n p r : 0 < p -> 0 <= r < n * p ->
  exists a l, r = a * p + l /\ 0 <= a < n /\ 0 <= l < p.
Proof.
  intros Hp Hr. exists (znode p r), (zloc p r). split; [apply node_loc_eq; lia|].
  split; [apply node_lt; lia | apply loc_lt; lia].
Qed.

(* ---------------------------------------------------------------------- *)
(* Route shape theorems                                                    *)

Theorem route_shape_none n p src dst :
  0 < n -> 0 < p -> 0 <= src < n * p -> 0 <= dst < n * p ->
  route RT_NONE n p src dst = Some [dst].
Proof.
  intros. unfold route, route_aux, next_hop_spec, RT_NONE. cbn. now rewrite Z.eqb_refl.
Qed.

(* NR: at most two hops; if two, the first is off-node between equal on-node
   indices and the second is on-node; the route ends at dst. *)
Theorem route_shape_nr n p src dst :
  0 < n -> 0 < p -> 0 <= src < n * p -> 0 <= dst < n * p ->
  exists r, route RT_NR n p src dst = Some r /\ last r src = dst /\
    (r = [dst] /\ (on_node p src dst \/ (off_node p src dst /\ zloc p src = zloc p dst))
     \/ exists h, r = [h; dst] /\ h <> dst /\ h <> src /\ off_node p src h /\ zloc p src = zloc p h /\
                  on_node p h dst /\ 0 <= h < n * p).
Proof.
  intros Hn Hp Hs Hd.
  destruct (rank_nl n p src Hp Hs) as (a & l & -> & Ha & Hl).
  destruct (rank_nl n p dst Hp Hd) as (b & m & -> & Hb & Hm).
  unfold route, on_node, off_node. cbn [route_aux].
  destruct (Z.eq_dec a b) as [->|Hab].
  - rewrite nh_same_node by lia. rewrite Z.eqb_refl. eexists; split; [reflexivity|].
    split; [reflexivity|]. left. split; [reflexivity|]. left. now rewrite !node_of_nl by lia.
  - rewrite nh_nr by lia.
    destruct (Z.eqb_spec (b * p + l) (b * p + m)) as [E|E].
    + eexists; split; [reflexivity|]. split; [cbn; lia|]. left. split; [now rewrite E|].
      right. rewrite !node_of_nl, !loc_of_nl by lia. split; lia.
    + rewrite nh_same_node by lia. rewrite Z.eqb_refl.
      eexists; split; [reflexivity|]. split; [reflexivity|]. right.
      exists (b * p + l). rewrite !node_of_nl, !loc_of_nl by lia.
      repeat split; try lia; try nia; try (intros E2; apply (nl_inj p Hp) in E2; lia).
Qed.

(* NLNR: at most three hops, of kinds on-node / off-node / on-node with absent
   hops allowed; the off-node hop joins equal on-node indices; ends at dst;
   never revisits a rank. *)
Inductive nlnr_shape (p src dst : Z) : list Z -> Prop :=
| sh_direct_on : on_node p src dst -> nlnr_shape p src dst [dst]
| sh_direct_off : off_node p src dst -> zloc p src = zloc p dst -> nlnr_shape p src dst [dst]
| sh_off_on h : off_node p src h -> zloc p src = zloc p h -> on_node p h dst ->
                nlnr_shape p src dst [h; dst]
| sh_on_off h : on_node p src h -> off_node p h dst -> zloc p h = zloc p dst ->
                nlnr_shape p src dst [h; dst]
| sh_on_off_on h1 h2 : on_node p src h1 -> off_node p h1 h2 -> zloc p h1 = zloc p h2 ->
                on_node p h2 dst -> nlnr_shape p src dst [h1; h2; dst].

Theorem route_shape_nlnr n p src dst :
  0 < n -> 0 < p -> 0 <= src < n * p -> 0 <= dst < n * p ->
  exists r, route RT_NLNR n p src dst = Some r /\ last r src = dst /\
            nlnr_shape p src dst r /\ (length r <= 3)%nat /\
            (forall x, In x r -> 0 <= x < n * p) /\
            (src <> dst -> NoDup (src :: r)).
Proof.
  intros Hn Hp Hs Hd.
  destruct (rank_nl n p src Hp Hs) as (a & l & -> & Ha & Hl).
  destruct (rank_nl n p dst Hp Hd) as (b & m & -> & Hb & Hm).
  unfold route. cbn [route_aux].
  destruct (Z.eq_dec a b) as [->|Hab].
  - rewrite nh_same_node by lia. rewrite Z.eqb_refl. eexists; split; [reflexivity|].
    split; [reflexivity|]. split; [apply sh_direct_on; unfold on_node; now rewrite !node_of_nl by lia|].
    split; [cbn; lia|]. split.
    + intros x [<-|[]]. nia.
    + intros Hne. constructor; [intros [E|[]]; congruence | constructor; [intros []|constructor]].
  - set (ch := (b + a) mod p). assert (Hch : 0 <= ch < p) by (apply Z.mod_pos_bound; lia).
    rewrite nh_nlnr by lia. fold ch.
    destruct (Z.eqb_spec l ch) as [Elc|Elc].
    + (* src is the channel rank: off-node first *)
      destruct (Z.eqb_spec (b * p + l) (b * p + m)) as [E|E].
      * eexists; split; [reflexivity|]. split; [cbn; lia|]. split.
        { rewrite <- E. apply sh_direct_off; unfold off_node; rewrite ?node_of_nl, ?loc_of_nl by lia; lia. }
        split; [cbn; lia|]. split.
        { intros x [<-|[]]. nia. }
        { intros Hne. constructor; [intros [E2|[]]; congruence | constructor; [intros []|constructor]]. }
      * rewrite nh_same_node by lia. rewrite Z.eqb_refl.
        eexists; split; [reflexivity|]. split; [reflexivity|]. split.
        { apply sh_off_on; unfold off_node, on_node; rewrite ?node_of_nl, ?loc_of_nl by lia; lia. }
        split; [cbn; lia|]. split.
        { intros x [<-|[<-|[]]]; nia. }
        { intros Hne. constructor.
          - intros [E2|[E2|[]]]; [apply (nl_inj p Hp) in E2; lia | congruence].
          - constructor; [intros [E2|[]]; congruence | constructor; [intros []|constructor]]. }
    + (* on-node hop to the channel rank first *)
      destruct (Z.eqb_spec (a * p + ch) (b * p + m)) as [E|E];
        [apply (nl_inj p Hp) in E; lia|].
      rewrite nh_nlnr by lia. fold ch. rewrite Z.eqb_refl.
      destruct (Z.eqb_spec (b * p + ch) (b * p + m)) as [E2|E2].
      * eexists; split; [reflexivity|]. split; [cbn; lia|]. split.
        { rewrite <- E2. apply sh_on_off; unfold off_node, on_node; rewrite ?node_of_nl, ?loc_of_nl by lia; lia. }
        split; [cbn; lia|]. split.
        { intros x [<-|[<-|[]]]; nia. }
        { intros Hne. constructor.
          - intros [E3|[E3|[]]]; [apply (nl_inj p Hp) in E3; lia | congruence].
          - constructor; [intros [E3|[]]; apply (nl_inj p Hp) in E3; lia | constructor; [intros []|constructor]]. }
      * rewrite nh_same_node by lia. rewrite Z.eqb_refl.
        eexists; split; [reflexivity|]. split; [reflexivity|]. split.
        { apply sh_on_off_on; unfold off_node, on_node; rewrite ?node_of_nl, ?loc_of_nl by lia; lia. }
        split; [cbn; lia|]. split.
        { intros x [<-|[<-|[<-|[]]]]; nia. }
        { intros Hne. constructor.
          - intros [E3|[E3|[E3|[]]]]; try (apply (nl_inj p Hp) in E3; lia); try congruence.
          - constructor.
            + intros [E3|[E3|[]]]; apply (nl_inj p Hp) in E3; lia.
            + constructor; [intros [E3|[]]; congruence | constructor; [intros []|constructor]]. }
Qed.

(* all traffic from node a to node b uses the single rank pair
   (a*p + (a+b) mod p , b*p + (a+b) mod p) *)
Theorem nlnr_single_pair n p src dst r x y :
  0 < n -> 0 < p -> 0 <= src < n * p -> 0 <= dst < n * p ->
  route RT_NLNR n p src dst = Some r -> In (x, y) (legs src r) -> off_node p x y ->
  let a := znode p src in let b := znode p dst in
  x = a * p + (a + b) mod p /\ y = b * p + (a + b) mod p.
Proof.
  intros Hn Hp Hs Hd.
  destruct (rank_nl n p src Hp Hs) as (a & l & -> & Ha & Hl).
  destruct (rank_nl n p dst Hp Hd) as (b & m & -> & Hb & Hm).
  rewrite !node_of_nl by lia. unfold route. cbn [route_aux].
  destruct (Z.eq_dec a b) as [->|Hab].
  - rewrite nh_same_node by lia. rewrite Z.eqb_refl. intros [= <-]. cbn.
    intros [[= <- <-]|[]]. unfold off_node. rewrite !node_of_nl by lia. lia.
  - replace ((a + b) mod p) with ((b + a) mod p) by (f_equal; lia).
    set (ch := (b + a) mod p). assert (Hch : 0 <= ch < p) by (apply Z.mod_pos_bound; lia).
    rewrite nh_nlnr by lia. fold ch.
    destruct (Z.eqb_spec l ch) as [Elc|Elc].
    + destruct (Z.eqb_spec (b * p + l) (b * p + m)) as [E|E].
      * intros [= <-]. cbn. intros [[= <- <-]|[]] _. subst l. lia.
      * rewrite nh_same_node by lia. rewrite Z.eqb_refl. intros [= <-]. cbn.
        intros [[= <- <-]|[[= <- <-]|[]]] Hoff.
        { subst l; lia. }
        { unfold off_node in Hoff. rewrite !node_of_nl in Hoff by lia. lia. }
    + destruct (Z.eqb_spec (a * p + ch) (b * p + m)) as [E|E];
        [apply (nl_inj p Hp) in E; lia|].
      rewrite nh_nlnr by lia. fold ch. rewrite Z.eqb_refl.
      destruct (Z.eqb_spec (b * p + ch) (b * p + m)) as [E2|E2].
      * intros [= <-]. cbn. intros [[= <- <-]|[[= <- <-]|[]]] Hoff.
        { unfold off_node in Hoff. rewrite !node_of_nl in Hoff by lia. lia. }
        { lia. }
      * rewrite nh_same_node by lia. rewrite Z.eqb_refl. intros [= <-]. cbn.
        intros [[= <- <-]|[[= <- <-]|[[= <- <-]|[]]]] Hoff;
          unfold off_node in Hoff; rewrite ?node_of_nl in Hoff by lia; lia.
Qed.

(* the off-node pairs used by NLNR are off-node pairs used by NR *)
Theorem nlnr_pairs_subset_nr n p src dst r x y :
  0 < n -> 0 < p -> 0 <= src < n * p -> 0 <= dst < n * p ->
  route RT_NLNR n p src dst = Some r -> In (x, y) (legs src r) -> off_node p x y ->
  exists src' dst' r', 0 <= src' < n * p /\ 0 <= dst' < n * p /\
    route RT_NR n p src' dst' = Some r' /\ In (x, y) (legs src' r').
Proof.
  intros Hn Hp Hs Hd Hr Hin Hoff.
  destruct (nlnr_single_pair n p src dst r x y Hn Hp Hs Hd Hr Hin Hoff) as (Hx & Hy).
  pose proof (node_lt n p src Hp Hs) as Ha. pose proof (node_lt n p dst Hp Hd) as Hb.
  set (a := znode p src) in *. set (b := znode p dst) in *.
  set (ch := (a + b) mod p) in *. assert (Hch : 0 <= ch < p) by (apply Z.mod_pos_bound; lia).
  assert (Hab : a <> b).
  { intros E. unfold off_node in Hoff. rewrite Hx, Hy, !node_of_nl in Hoff by lia. lia. }
  exists x, y. eexists. split; [subst x; nia|]. split; [subst y; nia|].
  unfold route. cbn [route_aux]. subst x y.
  rewrite nh_nr by lia. rewrite Z.eqb_refl. split; [reflexivity|]. cbn. now left.
Qed.

(* Non-vacuity: a concrete 3 x 2 layout exercises the three-hop case *)
Example route_nlnr_3x2 : route RT_NLNR 3 2 0 5 = Some [4; 5] /\ route RT_NLNR 3 2 1 4 = Some [0; 4]
  /\ route RT_NLNR 3 4 1 10 = Some [2; 10] /\ route RT_NLNR 3 4 0 11 = Some [2; 10; 11]
  /\ route RT_NR 3 4 0 11 = Some [8; 11].
Proof. vm_compute. repeat split. Qed.
