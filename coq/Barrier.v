(* Barrier.v — C02: the counting argument behind comm::barrier(), independent of
   the rank machine.

   A global trace is a list of events of n ranks:
     Send i   rank i increments its send count    (comm::async, queue_message_bytes)
     Recv i   rank i increments its receive count (a handler finished executing)
     Snap i   rank i reads its two counters and contributes them to the next
              count reduction (barrier_reduce_counts)
   [lockstep] is all that is used of MPI_Iallreduce: a rank can obtain the result
   of reduction round k, and hence take its round-(k+1) snapshot, only after
   every rank has contributed to round k.
   barrier() returns when two consecutive rounds k, k+1 return the same pair
   (R, S) with R = S.  The theorem exhibits an instant t* at which every rank
   has entered the barrier (taken its round-k snapshot), the global number of
   sent-but-unexecuted messages is zero, and after which no rank sends or
   executes anything until it takes its round-(k+1) snapshot. *)
From Coq Require Import List Arith Lia.
Import ListNotations.

Inductive ev := Send (i : nat) | Recv (i : nat) | Snap (i : nat).

Definition is_send i e := match e with Send j => Nat.eqb i j | _ => false end.
Definition is_recv i e := match e with Recv j => Nat.eqb i j | _ => false end.
Definition is_snap i e := match e with Snap j => Nat.eqb i j | _ => false end.

Definition cnt (f : ev -> bool) (p : list ev) : nat := length (filter f p).
Definition S_ i p := cnt (is_send i) p.
Definition R_ i p := cnt (is_recv i) p.
Definition K_ i p := cnt (is_snap i) p.

Fixpoint sum (n : nat) (f : nat -> nat) : nat :=
  match n with O => 0 | S m => sum m f + f m end.

Definition totS n p := sum n (fun i => S_ i p).
Definition totR n p := sum n (fun i => R_ i p).

Definition lockstep (n : nat) (tr : list ev) : Prop :=
  forall p q i, tr = p ++ Snap i :: q -> forall j, j < n -> K_ i p <= K_ j p.

(* every executed message was sent before: used to read "totS = totR" as "nothing in flight" *)
Definition causal (n : nat) (tr : list ev) : Prop :=
  forall p q, tr = p ++ q -> totR n p <= totS n p.

Lemma cnt_app f a b : cnt f (a ++ b) = cnt f a + cnt f b.
Proof. unfold cnt. now rewrite filter_app, app_length. Qed.

Lemma cnt_mono f a b : cnt f a <= cnt f (a ++ b).
Proof. rewrite cnt_app. lia. Qed.

Lemma sum_le n f g : (forall i, i < n -> f i <= g i) -> sum n f <= sum n g.
Proof.
  induction n as [|n IH]; intros H; cbn; [lia|].
  pose proof (H n ltac:(lia)). pose proof (IH ltac:(intros; apply H; lia)). lia.
Qed.

(* pointwise <= with equal sums is pointwise = *)
Lemma sum_squeeze n f g :
  (forall i, i < n -> f i <= g i) -> sum n f = sum n g -> forall i, i < n -> f i = g i.
Proof.
  induction n as [|n IH]; intros Hle Heq i Hi; [lia|].
  cbn in Heq.
  pose proof (Hle n ltac:(lia)) as Hn.
  pose proof (sum_le n f g ltac:(intros; apply Hle; lia)) as Hs.
  destruct (Nat.eq_dec i n) as [->|Hne]; [lia|].
  apply IH; try lia. intros; apply Hle; lia.
Qed.

(* two prefixes of one list are comparable *)
Lemma prefix_total {A} (a b c d : list A) :
  a ++ b = c ++ d -> (exists e, c = a ++ e) \/ (exists e, a = c ++ e).
Proof.
  revert c. induction a as [|x a IH]; intros c H.
  - left. exists c. reflexivity.
  - destruct c as [|y c].
    + right. exists (x :: a). reflexivity.
    + cbn in H. injection H as -> H. destruct (IH c H) as [(e & ->)|(e & ->)].
      * left. exists e. reflexivity.
      * right. exists e. reflexivity.
Qed.

(* an index minimising a measure over 0..n-1 *)
Lemma argmin n (m : nat -> nat) : 0 < n -> exists i0, i0 < n /\ forall j, j < n -> m i0 <= m j.
Proof.
  induction n as [|n IH]; intros Hn; [lia|].
  destruct n as [|n'].
  - exists 0. split; [lia|]. intros j Hj. replace j with 0 by lia. lia.
  - destruct (IH ltac:(lia)) as (i0 & Hi0 & Hmin).
    destruct (le_lt_dec (m i0) (m (S n'))) as [Hle|Hlt].
    + exists i0. split; [lia|]. intros j Hj. destruct (Nat.eq_dec j (S n')) as [->|]; [lia|]. apply Hmin; lia.
    + exists (S n'). split; [lia|]. intros j Hj. destruct (Nat.eq_dec j (S n')) as [->|]; [lia|].
      pose proof (Hmin j ltac:(lia)). lia.
Qed.

Lemma K_snap_self i p : K_ i (p ++ [Snap i]) = S (K_ i p).
Proof. unfold K_. rewrite cnt_app. unfold cnt. cbn. rewrite Nat.eqb_refl. cbn. lia. Qed.

Section CountingTheorem.
  Variable n : nat.
  Variable tr : list ev.
  Variable k : nat.
  (* pk i / pk1 i: the trace up to (not including) rank i's round-k / round-(k+1) snapshot *)
  Variables pk qk pk1 qk1 : nat -> list ev.
  Hypothesis Hn : 0 < n.
  Hypothesis Hlock : lockstep n tr.
  Hypothesis Hk : forall i, i < n -> tr = pk i ++ Snap i :: qk i /\ K_ i (pk i) = k.
  Hypothesis Hk1 : forall i, i < n -> tr = pk1 i ++ Snap i :: qk1 i /\ K_ i (pk1 i) = S k.
  (* both rounds returned the same pair (R, S) with R = S *)
  Hypothesis HRS : sum n (fun i => R_ i (pk i)) = sum n (fun i => S_ i (pk i)).
  Hypothesis HRR : sum n (fun i => R_ i (pk i)) = sum n (fun i => R_ i (pk1 i)).
  Hypothesis HSS : sum n (fun i => S_ i (pk i)) = sum n (fun i => S_ i (pk1 i)).

  (* rank i's round-k snapshot precedes its round-(k+1) snapshot *)
  Lemma pk_before_pk1 i : i < n -> exists e, pk1 i = pk i ++ Snap i :: e.
  Proof.
    intros Hi. destruct (Hk i Hi) as (E1 & K1). destruct (Hk1 i Hi) as (E2 & K2).
    rewrite E1 in E2.
    destruct (prefix_total _ _ _ _ E2) as [(e & He)|(e & He)].
    - destruct e as [|x e].
      + rewrite app_nil_r in He. rewrite He in K2. lia.
      + rewrite He in E2. rewrite <- app_assoc in E2. apply app_inv_head in E2.
        cbn in E2. injection E2 as <- _. exists e. exact He.
    - rewrite He in K1. unfold K_ in K1, K2. rewrite cnt_app in K1. unfold K_ in *. lia.
  Qed.

  Theorem two_equal_rounds_quiescent :
    exists tstar rest, tr = tstar ++ rest /\
      (forall i, i < n ->
         K_ i tstar = S k /\
         (exists e, tstar = pk i ++ Snap i :: e) /\ (exists e, pk1 i = tstar ++ e) /\
         R_ i tstar = R_ i (pk i) /\ R_ i tstar = R_ i (pk1 i) /\
         S_ i tstar = S_ i (pk i) /\ S_ i tstar = S_ i (pk1 i)) /\
      totS n tstar = totR n tstar.
  Proof.
    destruct (argmin n (fun i => length (pk1 i)) Hn) as (i0 & Hi0 & Hmin).
    set (tstar := pk1 i0).
    destruct (Hk1 i0 Hi0) as (E0 & K0).
    (* tstar is a prefix of every pk1 j *)
    assert (Hpre1 : forall j, j < n -> exists e, pk1 j = tstar ++ e).
    { intros j Hj. destruct (Hk1 j Hj) as (Ej & _). rewrite E0 in Ej.
      destruct (prefix_total _ _ _ _ Ej) as [(e & He)|(e & He)]; [exists e; exact He|].
      pose proof (Hmin j Hj) as Hl. cbn in Hl. unfold tstar. rewrite He in Hl. rewrite app_length in Hl.
      destruct e; [exists []; rewrite He; now rewrite !app_nil_r | cbn in Hl; lia]. }
    (* every rank has taken its round-k snapshot before tstar *)
    assert (Hge : forall j, j < n -> S k <= K_ j tstar).
    { intros j Hj. pose proof (Hlock _ _ _ E0 j Hj) as H. rewrite K0 in H. exact H. }
    assert (Hle : forall j, j < n -> K_ j tstar <= S k).
    { intros j Hj. destruct (Hpre1 j Hj) as (e & He). destruct (Hk1 j Hj) as (_ & Kj).
      rewrite He in Kj. unfold K_ in *. rewrite cnt_app in Kj. lia. }
    assert (Hpre0 : forall j, j < n -> exists e, tstar = pk j ++ Snap j :: e).
    { intros j Hj. destruct (Hk j Hj) as (Ej & Kj).
      assert (Et : tr = tstar ++ Snap i0 :: qk1 i0) by exact E0.
      rewrite Ej in Et.
      destruct (prefix_total _ _ _ _ Et) as [(e & He)|(e & He)].
      - destruct e as [|x e].
        + rewrite app_nil_r in He. pose proof (Hge j Hj) as G. rewrite He in G. lia.
        + rewrite He in Et. rewrite <- app_assoc in Et. apply app_inv_head in Et. cbn in Et.
          injection Et as <- _. exists e. exact He.
      - pose proof (Hge j Hj) as G. rewrite He in Kj. unfold K_ in *. rewrite cnt_app in Kj. lia. }
    (* squeeze the monotone counters between equal sums *)
    assert (HR1 : forall j, j < n -> R_ j (pk j) <= R_ j tstar).
    { intros j Hj. destruct (Hpre0 j Hj) as (e & ->). apply cnt_mono. }
    assert (HR2 : forall j, j < n -> R_ j tstar <= R_ j (pk1 j)).
    { intros j Hj. destruct (Hpre1 j Hj) as (e & ->). apply cnt_mono. }
    assert (HS1 : forall j, j < n -> S_ j (pk j) <= S_ j tstar).
    { intros j Hj. destruct (Hpre0 j Hj) as (e & ->). apply cnt_mono. }
    assert (HS2 : forall j, j < n -> S_ j tstar <= S_ j (pk1 j)).
    { intros j Hj. destruct (Hpre1 j Hj) as (e & ->). apply cnt_mono. }
    assert (HRa : forall j, j < n -> R_ j (pk j) = R_ j (pk1 j)).
    { apply sum_squeeze; [|exact HRR]. intros j Hj. pose proof (HR1 j Hj). pose proof (HR2 j Hj). lia. }
    assert (HSa : forall j, j < n -> S_ j (pk j) = S_ j (pk1 j)).
    { apply sum_squeeze; [|exact HSS]. intros j Hj. pose proof (HS1 j Hj). pose proof (HS2 j Hj). lia. }
    exists tstar, (Snap i0 :: qk1 i0). split; [exact E0|]. split.
    - intros j Hj. pose proof (Hge j Hj). pose proof (Hle j Hj).
      pose proof (HR1 j Hj). pose proof (HR2 j Hj). pose proof (HS1 j Hj). pose proof (HS2 j Hj).
      pose proof (HRa j Hj). pose proof (HSa j Hj).
      repeat split; try lia; auto.
    - unfold totS, totR.
      assert (E1 : sum n (fun i => S_ i tstar) = sum n (fun i => S_ i (pk i))).
      { assert (forall j, j < n -> S_ j tstar = S_ j (pk j)).
        { intros j Hj. pose proof (HS1 j Hj). pose proof (HS2 j Hj). pose proof (HSa j Hj). lia. }
        clear -H. induction n as [|m IH]; cbn; [reflexivity|]. rewrite IH by (intros; apply H; lia). rewrite H by lia. reflexivity. }
      assert (E2 : sum n (fun i => R_ i tstar) = sum n (fun i => R_ i (pk i))).
      { assert (forall j, j < n -> R_ j tstar = R_ j (pk j)).
        { intros j Hj. pose proof (HR1 j Hj). pose proof (HR2 j Hj). pose proof (HRa j Hj). lia. }
        clear -H. induction n as [|m IH]; cbn; [reflexivity|]. rewrite IH by (intros; apply H; lia). rewrite H by lia. reflexivity. }
      rewrite E1, E2. symmetry. exact HRS.
  Qed.
End CountingTheorem.

(* A boolean checker of the premises and of the conclusion on a concrete trace:
   used by the correspondence check on recorded executions of the real barrier
   (extracted and run on every simulated run). *)
Fixpoint prefixes_before_snaps (i : nat) (seen : list ev) (tr : list ev) : list (list ev) :=
  match tr with
  | [] => []
  | e :: t => (if is_snap i e then [rev seen] else []) ++ prefixes_before_snaps i (e :: seen) t
  end.

Fixpoint lockstep_b_aux (n : nat) (seen : list ev) (tr : list ev) : bool :=
  match tr with
  | [] => true
  | e :: t =>
      (match e with
       | Snap i => forallb (fun j => Nat.leb (K_ i (rev seen)) (K_ j (rev seen))) (seq 0 n)
       | _ => true end) && lockstep_b_aux n (e :: seen) t
  end.
Definition lockstep_b n tr := lockstep_b_aux n [] tr.

Example counting_nonvacuous :
  let tr := [Send 0; Snap 0; Snap 1; Recv 1; Snap 0; Snap 1; Snap 0; Snap 1] in
  lockstep_b 2 tr = true /\
  (* rounds 1 and 2 (0-based) both return (1,1) *)
  map (fun p => (R_ 1 p, S_ 0 p)) (prefixes_before_snaps 1 [] tr) = [(0,1); (1,1); (1,1)].
Proof. vm_compute. split; reflexivity. Qed.
