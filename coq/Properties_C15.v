(* Properties_C15.v — C15: counting_set counts equal the number of inserts, from any context. *)
From Coq Require Import ZArith List Bool Lia.
Import ListNotations.
From Ygm Require Import ContainerModel Cache.
Local Open Scope Z_scope.

(* The count cache conserves counts: for every contribution (an insert is a contribution of 1), whatever
   handlers insert re-entrantly during the eviction send, per key: sent + cached grows by exactly what was
   contributed (the contribution itself plus the re-entrant ones). *)
Theorem C15_cache_contribute_conserves : forall n k kv re c, wellplaced n c ->
  total_for n k (contribute n kv re c) =
  total_for n k c + contrib_of k kv +
  (match slots c (slot_of n (fst kv)) with Some (k', _) => if k' =? fst kv then 0 else contribs_of k re | None => 0 end)
  /\ wellplaced n (contribute n kv re c).
Proof. exact contribute_conserves. Qed.
Print Assumptions C15_cache_contribute_conserves.

Theorem C15_cache_flush_conserves : forall n k s re c, wellplaced n c ->
  total_for n k (flush_slot n s re c) = total_for n k c + (match slots c s with Some _ => contribs_of k re | None => 0 end)
  /\ wellplaced n (flush_slot n s re c).
Proof. exact flush_slot_conserves. Qed.
Print Assumptions C15_cache_flush_conserves.

(* the order the pinned tree used (send first, then overwrite the slot) loses counts: witness *)
Theorem C15_pinned_order_refuted :
  exists n kv re c k,
    total_for n k (contribute_pinned n kv re c) <> total_for n k c + contrib_of k kv + contribs_of k re.
Proof. exact pinned_order_loses. Qed.
Print Assumptions C15_pinned_order_refuted.

(* at the owner, the sent partial counts are added: n inserts add n in any order *)
Theorem C15_counting_adds : forall dflt n ns, fst (crun dflt (map CI (n :: ns)) []) = [dflt + n + sumZ ns].
Proof. exact counting_from_empty. Qed.
Print Assumptions C15_counting_adds.
