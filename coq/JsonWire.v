(* JsonWire.v — C06, JSON values: decoding what was encoded returns the value and consumes exactly its bytes,
   whatever follows, for every boost::json value within the size limits of the format (64-bit lengths and integers),
   at every nesting depth.  [Wire.encode_json] / [Wire.decode_json] are the executable model of
   cereal_boost_json.hpp that the codec correspondence check runs against the real archive. *)
From Coq Require Import ZArith List Bool Lia.
Import ListNotations.
From Ygm Require Import Wire.
Local Open Scope Z_scope.

(* the element loops of decode_json, named *)
Fixpoint jdl (f : nat) (n : nat) (bs : list Z) : option (jlist * list Z) :=
  match n with
  | O => Some (JNil, bs)
  | S n' => match decode_json f bs with
            | Some (j, r1) => match jdl f n' r1 with Some (t, r2) => Some (JCons j t, r2) | None => None end
            | None => None end
  end.
Fixpoint jdo (f : nat) (n : nat) (bs : list Z) : option (jobj * list Z) :=
  match n with
  | O => Some (ONil, bs)
  | S n' => match take 8 bs with
            | Some (a, r0) => match take (Z.to_nat (le_val a)) r0 with
               | Some (key, r1) => match decode_json f r1 with
                  | Some (j, r2) => match jdo f n' r2 with Some (t, r3) => Some (OCons key j t, r3) | None => None end
                  | None => None end
               | None => None end
            | None => None end
  end.

Lemma decode_arr_eq f r :
  decode_json (S f) (6 :: r) =
  match take 8 r with
  | Some (a, r0) => match jdl f (Z.to_nat (le_val a)) r0 with Some (l, r') => Some (JArr l, r') | None => None end
  | None => None
  end.
Proof.
  cbn [decode_json]. change (6 =? 0) with false. change (6 =? 1) with false. change (6 =? 2) with false.
  change (6 =? 3) with false. change (6 =? 4) with false. change (6 =? 5) with false. change (6 =? 6) with true. cbn [orb].
  destruct (take 8 r) as [(a, r0)|]; [|reflexivity].
  generalize (Z.to_nat (le_val a)). intros n. revert r0.
  induction n as [|n IH]; intros r0; cbn; [reflexivity|].
  destruct (decode_json f r0) as [(j, r1)|]; [|reflexivity].
  specialize (IH r1).
  destruct ((fix dl (n0 : nat) (bs0 : list Z) {struct n0} : option (jlist * list Z) := _) n r1) as [(t, r2)|] eqn:E1;
    destruct (jdl f n r1) as [(t', r2')|] eqn:E2; cbn in *; try congruence; try discriminate; reflexivity.
Qed.

Lemma decode_obj_eq f r :
  decode_json (S f) (7 :: r) =
  match take 8 r with
  | Some (a, r0) => match jdo f (Z.to_nat (le_val a)) r0 with Some (l, r') => Some (JObj l, r') | None => None end
  | None => None
  end.
Proof.
  cbn [decode_json]. change (7 =? 0) with false. change (7 =? 1) with false. change (7 =? 2) with false.
  change (7 =? 3) with false. change (7 =? 4) with false. change (7 =? 5) with false. change (7 =? 6) with false.
  change (7 =? 7) with true. cbn [orb].
  destruct (take 8 r) as [(a, r0)|]; [|reflexivity].
  generalize (Z.to_nat (le_val a)). intros n. revert r0.
  induction n as [|n IH]; intros r0; cbn; [reflexivity|].
  destruct (take 8 r0) as [(a1, r1)|]; [|reflexivity].
  destruct (take (Z.to_nat (le_val a1)) r1) as [(key, r2)|]; [|reflexivity].
  destruct (decode_json f r2) as [(j, r3)|]; [|reflexivity].
  specialize (IH r3).
  destruct ((fix dobj (n0 : nat) (bs0 : list Z) {struct n0} : option (jobj * list Z) := _) n r3) as [(t, r4)|] eqn:E1;
    destruct (jdo f n r3) as [(t', r4')|] eqn:E2; cbn in *; try congruence; try discriminate; reflexivity.
Qed.

(* what a boost::json value can be: 64-bit payloads and lengths *)
Definition lim : Z := 256 ^ 8.
Inductive jwf : json -> Prop :=
| wf_null : jwf JNull
| wf_bool b : jwf (JBool b)
| wf_int n : 0 <= n < lim -> jwf (JInt n)
| wf_uint n : 0 <= n < lim -> jwf (JUint n)
| wf_dbl n : 0 <= n < lim -> jwf (JDouble n)
| wf_str bs : Z.of_nat (length bs) < lim -> jwf (JStr bs)
| wf_arr l : Z.of_nat (jlen l) < lim -> jwfl l -> jwf (JArr l)
| wf_obj l : Z.of_nat (olen l) < lim -> jwfo l -> jwf (JObj l)
with jwfl : jlist -> Prop :=
| wfl_nil : jwfl JNil
| wfl_cons j t : jwf j -> jwfl t -> jwfl (JCons j t)
with jwfo : jobj -> Prop :=
| wfo_nil : jwfo ONil
| wfo_cons k j t : Z.of_nat (length k) < lim -> jwf j -> jwfo t -> jwfo (OCons k j t).

(* nesting depth: the fuel decode_json needs *)
Fixpoint jdepth (j : json) : nat :=
  match j with
  | JArr l => S (ldepth l)
  | JObj l => S (odepth l)
  | _ => 1
  end
with ldepth (l : jlist) : nat := match l with JNil => O | JCons j t => Nat.max (jdepth j) (ldepth t) end
with odepth (l : jobj) : nat := match l with ONil => O | OCons _ j t => Nat.max (jdepth j) (odepth t) end.

Scheme json_mut := Induction for json Sort Prop
  with jlist_mut := Induction for jlist Sort Prop
  with jobj_mut := Induction for jobj Sort Prop.

Lemma scalar_tag f k r :
  decode_json (S f) (k :: r) =
  (if k =? 0 then Some (JNull, r)
   else if k =? 1 then match r with b :: r' => Some (JBool (negb (b =? 0)), r') | [] => None end
   else if (k =? 2) || (k =? 3) || (k =? 4) then
     match take 8 r with
     | Some (a, r') => Some ((if k =? 2 then JInt (le_val a) else if k =? 3 then JUint (le_val a) else JDouble (le_val a)), r')
     | None => None end
   else if k =? 5 then
     match take 8 r with
     | Some (a, r0) => match take (Z.to_nat (le_val a)) r0 with Some (b, r') => Some (JStr b, r') | None => None end
     | None => None end
   else decode_json (S f) (k :: r)).
Proof.
  destruct (k =? 0) eqn:E0; [cbn [decode_json]; rewrite E0; reflexivity|].
  destruct (k =? 1) eqn:E1; [cbn [decode_json]; rewrite E0, E1; reflexivity|].
  destruct ((k =? 2) || (k =? 3) || (k =? 4)) eqn:E2; [cbn [decode_json]; rewrite E0, E1, E2; reflexivity|].
  destruct (k =? 5) eqn:E5; [cbn [decode_json]; rewrite E0, E1, E2, E5; reflexivity|]. reflexivity.
Qed.

Theorem json_decode_encode_prefix : forall j, jwf j -> forall f rest, (jdepth j <= f)%nat ->
  decode_json f (encode_json j ++ rest) = Some (j, rest).
Proof.
  apply (json_mut
    (fun j => jwf j -> forall f rest, (jdepth j <= f)%nat -> decode_json f (encode_json j ++ rest) = Some (j, rest))
    (fun l => jwfl l -> forall f rest, (ldepth l <= f)%nat -> jdl f (jlen l) (encode_jlist l ++ rest) = Some (l, rest))
    (fun l => jwfo l -> forall f rest, (odepth l <= f)%nat -> jdo f (olen l) (encode_jobj l ++ rest) = Some (l, rest))).
  - (* JNull *) intros _ f rest Hf. destruct f as [|f]; [cbn in Hf; lia|]. reflexivity.
  - (* JBool *) intros b _ f rest Hf. destruct f as [|f]; [cbn in Hf; lia|]. destruct b; reflexivity.
  - (* JInt *) intros n H f rest Hf. inversion H; subst. destruct f as [|f]; [cbn in Hf; lia|].
    cbn [encode_json app]. rewrite scalar_tag. cbn [Z.eqb orb]. change (2 =? 0) with false. change (2 =? 1) with false. change (2 =? 2) with true. cbn [orb].
    rewrite take_app by apply le_bytes_length. rewrite le_roundtrip by assumption. reflexivity.
  - (* JUint *) intros n H f rest Hf. inversion H; subst. destruct f as [|f]; [cbn in Hf; lia|].
    cbn [encode_json app]. rewrite scalar_tag. change (3 =? 0) with false. change (3 =? 1) with false. change (3 =? 2) with false. change (3 =? 3) with true. cbn [orb].
    rewrite take_app by apply le_bytes_length. rewrite le_roundtrip by assumption. reflexivity.
  - (* JDouble *) intros n H f rest Hf. inversion H; subst. destruct f as [|f]; [cbn in Hf; lia|].
    cbn [encode_json app]. rewrite scalar_tag. change (4 =? 0) with false. change (4 =? 1) with false. change (4 =? 2) with false. change (4 =? 3) with false. change (4 =? 4) with true. cbn [orb].
    rewrite take_app by apply le_bytes_length. rewrite le_roundtrip by assumption. reflexivity.
  - (* JStr *) intros bs H f rest Hf. inversion H; subst. destruct f as [|f]; [cbn in Hf; lia|].
    cbn [encode_json app]. rewrite scalar_tag. change (5 =? 0) with false. change (5 =? 1) with false. change (5 =? 2) with false. change (5 =? 3) with false. change (5 =? 4) with false. change (5 =? 5) with true. cbn [orb].
    rewrite <- app_assoc. rewrite take_app by apply le_bytes_length.
    rewrite le_roundtrip by (split; [lia|assumption]). rewrite Nat2Z.id. rewrite take_app by reflexivity. reflexivity.
  - (* JArr *) intros l IH H f rest Hf. inversion H; subst. destruct f as [|f]; [cbn in Hf; lia|]. cbn [jdepth] in Hf.
    cbn [encode_json app]. rewrite decode_arr_eq. rewrite <- app_assoc. rewrite take_app by apply le_bytes_length.
    rewrite le_roundtrip by (split; [lia|assumption]). rewrite Nat2Z.id. rewrite IH by (try assumption; lia). reflexivity.
  - (* JObj *) intros l IH H f rest Hf. inversion H; subst. destruct f as [|f]; [cbn in Hf; lia|]. cbn [jdepth] in Hf.
    cbn [encode_json app]. rewrite decode_obj_eq. rewrite <- app_assoc. rewrite take_app by apply le_bytes_length.
    rewrite le_roundtrip by (split; [lia|assumption]). rewrite Nat2Z.id. rewrite IH by (try assumption; lia). reflexivity.
  - (* JNil *) intros _ f rest _. reflexivity.
  - (* JCons *) intros j IHj t IHt H f rest Hf. inversion H; subst. cbn [ldepth] in Hf.
    cbn [jlen encode_jlist jdl]. rewrite <- app_assoc. rewrite IHj by (try assumption; lia). rewrite IHt by (try assumption; lia). reflexivity.
  - (* ONil *) intros _ f rest _. reflexivity.
  - (* OCons *) intros k j IHj t IHt H f rest Hf. inversion H; subst. cbn [odepth] in Hf.
    cbn [olen encode_jobj jdo]. rewrite <- !app_assoc. rewrite take_app by apply le_bytes_length.
    rewrite le_roundtrip by (split; [lia|assumption]). rewrite Nat2Z.id. rewrite take_app by reflexivity.
    rewrite IHj by (try assumption; lia). rewrite IHt by (try assumption; lia). reflexivity.
Qed.
