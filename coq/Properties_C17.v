(* Properties_C17.v — C17 (the parent structure): every mutation the walk protocol performs respects the potential
   (rank, item); therefore the potential increases along every parent edge of every reachable structure, the structure
   is acyclic and lookups terminate; along every delivery order of the protocol's visits no guard fails (DisjointProto) and,
   once no visit is pending, two items have the same root iff they are connected by the unions issued (DisjointConn).
   That every delivery order reaches quiescence (termination of the walks) and that the merge callbacks form a spanning
   forest are compared with a sequential union-find on every generated run (DESIGN §5 C17). *)
From Coq Require Import ZArith List Bool Lia.
Import ListNotations.
From Ygm Require Import DisjointSet.
Local Open Scope Z_scope.

Theorem C17_create_preserves : forall t x, Inv t -> lookup t x = None -> Inv (update t x {| irank := 0; iparent := x |}).
Proof. exact create_preserves. Qed.
Print Assumptions C17_create_preserves.

Theorem C17_set_parent_preserves : forall t x i p j,
  Inv t -> lookup t x = Some i -> lookup t p = Some j -> lexlt (irank i) x (irank j) p ->
  Inv (update t x {| irank := irank i; iparent := p |}).
Proof. exact set_parent_preserves. Qed.
Print Assumptions C17_set_parent_preserves.

Theorem C17_bump_preserves : forall t x i r,
  Inv t -> lookup t x = Some i -> iparent i = x -> irank i <= r ->
  Inv (update t x {| irank := r; iparent := x |}).
Proof. exact bump_preserves. Qed.
Print Assumptions C17_bump_preserves.

(* acyclic: following parents from the parent of x never comes back to x *)
Theorem C17_ds_acyclic : forall t, Inv t -> forall x i, lookup t x = Some i -> iparent i <> x ->
  forall n, ~ In x (chain n t (iparent i)).
Proof. exact ds_acyclic. Qed.
Print Assumptions C17_ds_acyclic.

Theorem C17_chain_increasing : forall t, Inv t -> forall n x, lookup t x <> None ->
  forall a b l1 l2, chain n t x = l1 ++ a :: b :: l2 -> lexlt (fst (pot t a)) (snd (pot t a)) (fst (pot t b)) (snd (pot t b)).
Proof. exact chain_increasing. Qed.
Print Assumptions C17_chain_increasing.


(* THE MESSAGE LEVEL.  From any list of unions, along EVERY delivery order of the pending visits of the walk protocol
   (walk / update_parent / resolve_merge of disjoint_set_impl.hpp, acting on stale information): the forest invariant
   holds in every reachable structure (hence no cycle, lookups terminate), and whichever pending visit is delivered
   next, none of the guarded mutations can fail its guard and the ASSERT_RELEASE of resolve_merge holds.  Proof: the
   pool of undelivered visits carries an invariant that is stable under the monotone evolution of the structure
   (ranks never decrease; a non-root never becomes a root again and keeps its rank) - DisjointProto.v. *)
From Ygm Require Import DisjointProto.
Theorem C17_walk_protocol_safe : forall l s,
  steps ([], unionsb l) s ->
  Inv (fst s) /\ forall k v, nth_error (snd s) k = Some v -> exists t' sends, exec (fst s) v = Some (t', sends).
Proof. exact walk_protocol_safe. Qed.
Print Assumptions C17_walk_protocol_safe.

Theorem C17_step_preserves : forall s s', GI s -> step s s' -> GI s'.
Proof. exact step_preserves. Qed.
Print Assumptions C17_step_preserves.

(* the executable scheduler of the Examples can only stop by exhausting its fuel, never on a guard *)
Theorem C17_run_pool_never_fails_a_guard : forall fuel pick t pool, GI (t, pool) ->
  match run_pool fuel pick t pool with Some (t', _) => Inv t' | None => True end.
Proof. exact run_pool_never_fails_a_guard. Qed.
Print Assumptions C17_run_pool_never_fails_a_guard.


(* FUNCTIONAL CORRECTNESS AT QUIESCENCE.  [root t x r]: following parents from x ends at the root r (an item that was
   never visited is its own root); under the invariant every item has exactly one root.  Along EVERY delivery order:
   at any moment items with the same root are connected in the union graph (soundness), and once the pool of pending
   visits is empty, items connected in the union graph have the same root (completeness).  R es = reflexive-symmetric-
   transitive closure of the unions issued. *)
From Ygm Require Import DisjointConn.
Theorem C17_every_item_has_one_root : forall t, Inv t ->
  (forall x, exists r, root t x r) /\ (forall x r1 r2, root t x r1 -> root t x r2 -> r1 = r2).
Proof. intros t HI. split; [apply (root_total t HI)|intros x r1 r2 H1 H2; apply (root_det t x r1 H1 r2 H2)]. Qed.
Print Assumptions C17_every_item_has_one_root.

Theorem C17_quiescent_roots_are_components : forall l t,
  steps ([], unionsb l) (t, []) -> forall a b, conn t a b <-> R (map snd l) a b.
Proof. exact quiescent_roots_are_components. Qed.
Print Assumptions C17_quiescent_roots_are_components.

Theorem C17_same_root_implies_connected_always : forall l s a b,
  steps ([], unionsb l) s -> conn (fst s) a b -> R (map snd l) a b.
Proof. exact always_sound. Qed.
Print Assumptions C17_same_root_implies_connected_always.

(* same-root only grows with every delivery (sets are never split), and a consumed walk keeps its two sides connected
   through same-root + pending walks *)
Theorem C17_delivery_never_splits_a_set : forall t v t' sends, Inv t -> VI t v -> CI t v -> exec t v = Some (t', sends) ->
  Inv t' /\ (forall a b, conn t a b -> conn t' a b) /\ Forall (CI t') sends /\
  (forall cb me c op oi r, v = Walk cb me c op oi r -> Q t' sends me op).
Proof. exact exec_conn. Qed.
Print Assumptions C17_delivery_never_splits_a_set.

Theorem C17_find_computes_root : forall t fuel x r, find fuel t x = Some r -> root t x r.
Proof. exact find_root. Qed.
Print Assumptions C17_find_computes_root.

(* non-vacuity: the four delivery orders of DisjointSet.protocol_runs_ok reach quiescence on the 28 test unions (a chain,
   a clique, duplicates, self-loops), so the theorem applies to them: 1 ~ 13 ~ 24 ~ 20, and 30 is not with 1 *)
Example C17_quiescence_theorem_not_vacuous :
  exists t, steps ([], unions test_edges) (t, []) /\ conn t 1 20 /\ ~ conn t 30 1.
Proof.
  destruct (run_pool 4000 (fun _ _ => O) [] (unions test_edges)) as [(t, f)|] eqn:E; [|vm_compute in E; discriminate].
  pose proof (run_pool_steps _ _ _ _ _ _ E) as H. exists t. split; [exact H|].
  assert (Step : forall a b, In (a, b) test_edges -> R test_edges a b) by (intros a b Hin; apply Relation_Operators.rst_step, Hin).
  split.
  - apply (quiescent_roots_are_components _ _ H).
    (* 1 - 2 - ... - 9 - 24 - 20 *)
    assert (P : forall l x z, (fix path (l : list Z) (x : Z) : Prop := match l with [] => x = z | y :: l' => (In (x, y) test_edges \/ In (y, x) test_edges) /\ path l' y end) l x ->
                            R test_edges x z).
    { induction l as [|y l IH]; intros x z Hp; [subst; apply Relation_Operators.rst_refl|]. destruct Hp as (Hxy & Hrest).
      apply (Relation_Operators.rst_trans _ _ _ y); [destruct Hxy as [Hxy|Hxy]; [apply Step, Hxy|apply Relation_Operators.rst_sym, Step, Hxy]|].
      apply IH, Hrest. }
    apply (P [2; 3; 4; 5; 6; 7; 8; 9; 24; 20] 1 20). cbn. intuition.
  - intros Hc. apply (quiescent_roots_are_components _ _ H) in Hc.
    (* every edge keeps "is 30" invariant, so nothing but 30 is related to 30 *)
    assert (Inv30 : forall a b, R test_edges a b -> (a = 30 <-> b = 30)).
    { intros a b Hr. induction Hr as [u v Hin|u|u v _ IH|u v w _ IH1 _ IH2]; [|tauto|tauto|tauto].
      cbn in Hin. repeat (destruct Hin as [Hin|Hin]; [injection Hin as <- <-; lia|]). contradiction. }
    destruct (Inv30 _ _ Hc) as (A & _). specialize (A eq_refl). discriminate.
Qed.

(* THE TIE TO THE CODE.  [lexec me i v]: what a visit does to the entry i of the item it runs on and which visits it sends,
   from that entry alone - what a handler of disjoint_set_impl.hpp can see.  Whenever the guarded model succeeds (always,
   under the pool invariant: C17_walk_protocol_safe) it changes only that entry, as lexec says, and sends what lexec says.
   Every visit recorded from the real container is replayed against lexec on every run (vlib/dstrace.py). *)
From Ygm Require Import DisjointLocal.
Theorem C17_model_step_is_the_local_step : forall t v t' sends, exec t v = Some (t', sends) ->
  exists i, lookup (ensure t (target v)) (target v) = Some i /\
    sends = snd (lexec (target v) i v) /\
    lookup t' (target v) = Some (fst (lexec (target v) i v)) /\
    forall y, y <> target v -> lookup t' y = lookup (ensure t (target v)) y.
Proof. exact exec_lexec. Qed.
Print Assumptions C17_model_step_is_the_local_step.

(* THE MERGE CALLBACKS.  async_union_and_execute(a, b, fn) runs fn(a, b) exactly where its walk attaches a root to the other
   tree ([cb_of]; compared with the callbacks the real container reports, per epoch, on every run).  [stepsL] = deliveries
   with the log of callbacks fired.  Along every delivery order of a pool of such unions, at every moment: the callback
   edges form a forest (each joined two items the earlier ones did not connect), "same root" is exactly "connected by the
   callback edges so far" (every merge is reported once and nothing else merges), and every edge is an issued union.  Once
   no visit is pending they are a spanning forest of the union graph. *)
From Ygm Require Import DisjointForest.
Theorem C17_callbacks_span_the_forest : forall es t pool log,
  stepsL ([], unionsb (map (pair true) es), []) (t, pool, log) ->
  forest log /\ incl log es /\ forall a b, conn t a b <-> cl log a b.
Proof. exact callbacks_span_the_forest. Qed.
Print Assumptions C17_callbacks_span_the_forest.

Theorem C17_callbacks_are_a_spanning_forest : forall es t log,
  stepsL ([], unionsb (map (pair true) es), []) (t, [], log) ->
  forest log /\ incl log es /\ forall a b, cl log a b <-> R es a b.
Proof. exact callbacks_are_a_spanning_forest. Qed.
Print Assumptions C17_callbacks_are_a_spanning_forest.

(* one delivery either leaves "same root" unchanged and fires no callback, or attaches the root of one tree to another tree
   (the two were not connected) and fires exactly the walk's callback *)
Theorem C17_a_delivery_merges_and_reports_or_does_neither : forall es t v t' sends,
  Inv t -> VI t v -> CI t v -> WI es t v -> exec t v = Some (t', sends) ->
  Forall (WI es t') sends /\
  ((same t t' /\ cb_of t v = []) \/
   (exists ab me child op oi orank, v = Walk (Some ab) me child op oi orank /\ ~ conn t me op /\ merged t t' me op /\ cb_of t v = [ab])).
Proof. exact exec_shape. Qed.
Print Assumptions C17_a_delivery_merges_and_reports_or_does_neither.

Theorem C17_callback_is_the_local_function : forall t v i,
  lookup (ensure t (DisjointLocal.target v)) (DisjointLocal.target v) = Some i -> cb_of t v = lcb (DisjointLocal.target v) i v.
Proof. exact cb_of_lcb. Qed.
Print Assumptions C17_callback_is_the_local_function.

(* all_find.  After a barrier, all_find(items) sends one walk per item up the parent links (find_rep_functor); where it
   reaches a root it answers the caller and writes the root back as the item's parent (local_set_parent: path compression).
   Along every delivery order of these messages, from any forest t0 satisfying the invariant: every answer is the root the
   item had in t0; compression keeps the invariant and never changes any item's root; once nothing is pending every item has
   been answered exactly as often as it was requested; hence equal representatives == same set. *)
From Ygm Require Import DisjointFind.
Theorem C17_all_find_answers_are_roots : forall t0, Inv t0 -> forall items t pool res,
  fsteps (start t0 items) (t, pool, res) ->
  (forall x rep, In (x, rep) res -> root t0 x rep) /\ Inv t /\ (forall a b, conn t a b <-> conn t0 a b).
Proof. exact all_find_answers_are_roots. Qed.
Print Assumptions C17_all_find_answers_are_roots.

Theorem C17_all_find_complete : forall t0, Inv t0 -> forall items t res,
  fsteps (start t0 items) (t, [], res) ->
  forall x, got x res = wanted items x /\ forall rep, In (x, rep) res -> root t0 x rep.
Proof. exact all_find_complete. Qed.
Print Assumptions C17_all_find_complete.

Theorem C17_all_find_equal_reps_iff_connected : forall t0, Inv t0 -> forall items t pool res x y rx ry,
  fsteps (start t0 items) (t, pool, res) -> In (x, rx) res -> In (y, ry) res -> (rx = ry <-> conn t0 x y).
Proof. exact all_find_equal_reps_iff_connected. Qed.
Print Assumptions C17_all_find_equal_reps_iff_connected.
