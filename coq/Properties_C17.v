(* Properties_C17.v — C17 (the parent structure): every mutation the walk protocol performs respects the potential
   (rank, item); therefore the potential increases along every parent edge of every reachable structure, the structure
   is acyclic and lookups terminate.  Connectivity = union graph and merge callbacks = spanning forest are compared
   with a sequential union-find on every generated run (DESIGN §5 C17: partial). *)
From Coq Require Import ZArith List Bool Lia.
Import ListNotations.
From Ygm Require Import DisjointSet.
Local Open Scope Z_scope.

Theorem C17_create_preserves : forall t x, Inv t -> lookup t x = None -> Inv (update t x {| irank := 0; iparent := x |}).
Proof. exact create_preserves. Qed.
Print Assumptions C17_create_preserves.

Theorem C17_set_parent_preserves : forall t x i p j,
  Inv t -> lookup t x = Some i -> lookup t p = Some j -> lexlt (irank i) x (irank j) p ->
  Inv (update t x {| irank := irank i; iparent := p |}).
Proof. exact set_parent_preserves. Qed.
Print Assumptions C17_set_parent_preserves.

Theorem C17_bump_preserves : forall t x i r,
  Inv t -> lookup t x = Some i -> iparent i = x -> irank i <= r ->
  Inv (update t x {| irank := r; iparent := x |}).
Proof. exact bump_preserves. Qed.
Print Assumptions C17_bump_preserves.

(* acyclic: following parents from the parent of x never comes back to x *)
Theorem C17_ds_acyclic : forall t, Inv t -> forall x i, lookup t x = Some i -> iparent i <> x ->
  forall n, ~ In x (chain n t (iparent i)).
Proof. exact ds_acyclic. Qed.
Print Assumptions C17_ds_acyclic.

Theorem C17_chain_increasing : forall t, Inv t -> forall n x, lookup t x <> None ->
  forall a b l1 l2, chain n t x = l1 ++ a :: b :: l2 -> lexlt (fst (pot t a)) (snd (pot t a)) (fst (pot t b)) (snd (pot t b)).
Proof. exact chain_increasing. Qed.
Print Assumptions C17_chain_increasing.
