(* Properties_C17.v — C17 (the parent structure): every mutation the walk protocol performs respects the potential
   (rank, item); therefore the potential increases along every parent edge of every reachable structure, the structure
   is acyclic and lookups terminate.  Connectivity = union graph and merge callbacks = spanning forest are compared
   with a sequential union-find on every generated run (DESIGN §5 C17: partial). *)
From Coq Require Import ZArith List Bool Lia.
Import ListNotations.
From Ygm Require Import DisjointSet.
Local Open Scope Z_scope.

Theorem C17_create_preserves : forall t x, Inv t -> lookup t x = None -> Inv (update t x {| irank := 0; iparent := x |}).
Proof. exact create_preserves. Qed.
Print Assumptions C17_create_preserves.

Theorem C17_set_parent_preserves : forall t x i p j,
  Inv t -> lookup t x = Some i -> lookup t p = Some j -> lexlt (irank i) x (irank j) p ->
  Inv (update t x {| irank := irank i; iparent := p |}).
Proof. exact set_parent_preserves. Qed.
Print Assumptions C17_set_parent_preserves.

Theorem C17_bump_preserves : forall t x i r,
  Inv t -> lookup t x = Some i -> iparent i = x -> irank i <= r ->
  Inv (update t x {| irank := r; iparent := x |}).
Proof. exact bump_preserves. Qed.
Print Assumptions C17_bump_preserves.

(* acyclic: following parents from the parent of x never comes back to x *)
Theorem C17_ds_acyclic : forall t, Inv t -> forall x i, lookup t x = Some i -> iparent i <> x ->
  forall n, ~ In x (chain n t (iparent i)).
Proof. exact ds_acyclic. Qed.
Print Assumptions C17_ds_acyclic.

Theorem C17_chain_increasing : forall t, Inv t -> forall n x, lookup t x <> None ->
  forall a b l1 l2, chain n t x = l1 ++ a :: b :: l2 -> lexlt (fst (pot t a)) (snd (pot t a)) (fst (pot t b)) (snd (pot t b)).
Proof. exact chain_increasing. Qed.
Print Assumptions C17_chain_increasing.


(* THE MESSAGE LEVEL.  From any list of unions, along EVERY delivery order of the pending visits of the walk protocol
   (walk / update_parent / resolve_merge of disjoint_set_impl.hpp, acting on stale information): the forest invariant
   holds in every reachable structure (hence no cycle, lookups terminate), and whichever pending visit is delivered
   next, none of the guarded mutations can fail its guard and the ASSERT_RELEASE of resolve_merge holds.  Proof: the
   pool of undelivered visits carries an invariant that is stable under the monotone evolution of the structure
   (ranks never decrease; a non-root never becomes a root again and keeps its rank) - DisjointProto.v. *)
From Ygm Require Import DisjointProto.
Theorem C17_walk_protocol_safe : forall es s,
  steps ([], unions es) s ->
  Inv (fst s) /\ forall k v, nth_error (snd s) k = Some v -> exists t' sends, exec (fst s) v = Some (t', sends).
Proof. exact walk_protocol_safe. Qed.
Print Assumptions C17_walk_protocol_safe.

Theorem C17_step_preserves : forall s s', GI s -> step s s' -> GI s'.
Proof. exact step_preserves. Qed.
Print Assumptions C17_step_preserves.

(* the executable scheduler of the Examples can only stop by exhausting its fuel, never on a guard *)
Theorem C17_run_pool_never_fails_a_guard : forall fuel pick t pool, GI (t, pool) ->
  match run_pool fuel pick t pool with Some (t', _) => Inv t' | None => True end.
Proof. exact run_pool_never_fails_a_guard. Qed.
Print Assumptions C17_run_pool_never_fails_a_guard.
