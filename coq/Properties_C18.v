(* Properties_C18.v — C18: line_parser hands out every line of every file exactly once. *)
From Coq Require Import ZArith List Bool Lia.
Import ListNotations.
From Ygm Require Import LineParser.
Local Open Scope Z_scope.

(* over a chain of byte ranges [0,e1] [e1,e2] ... [ek,fsize], every line start is delivered by exactly one range,
   wherever the range boundaries fall relative to the line boundaries *)
Theorem C18_read_ranges_partition_lines : forall ends fsize s,
  chain_ok 0 ends fsize -> 0 <= s <= fsize -> count_delivered (ranges_of 0 ends) s = 1%nat.
Proof. exact read_ranges_partition_lines. Qed.
Print Assumptions C18_read_ranges_partition_lines.

Theorem C18_every_line_delivered_once : forall lens ends s,
  Forall (fun l => 0 < l) lens -> chain_ok 0 ends (sumZ lens) -> In s (line_starts lens) ->
  count_delivered (ranges_of 0 ends) s = 1%nat.
Proof. exact every_line_delivered_once. Qed.
Print Assumptions C18_every_line_delivered_once.
