(* Properties_C02.v — C02: barrier() returns only after global quiescence. *)
From Coq Require Import ZArith List Bool Lia.
Import ListNotations.
From Ygm Require Import Barrier RankMachine RankInv.

(* The counting theorem: if count-reduction rounds k and k+1 return the same pair (R, S) with R = S,
   there is an instant t* before any rank's round-(k+1) snapshot at which every rank has already
   entered the barrier (taken its round-k snapshot), every rank's counters already have their final
   values (so nothing is sent or executed between t* and the exit), and globally sent = executed. *)
Theorem C02_two_equal_rounds_quiescent : forall n tr k pk qk pk1 qk1,
  0 < n -> lockstep n tr ->
  (forall i, i < n -> tr = pk i ++ Snap i :: qk i /\ K_ i (pk i) = k) ->
  (forall i, i < n -> tr = pk1 i ++ Snap i :: qk1 i /\ K_ i (pk1 i) = S k) ->
  sum n (fun i => R_ i (pk i)) = sum n (fun i => S_ i (pk i)) ->
  sum n (fun i => R_ i (pk i)) = sum n (fun i => R_ i (pk1 i)) ->
  sum n (fun i => S_ i (pk i)) = sum n (fun i => S_ i (pk1 i)) ->
  exists tstar rest, tr = tstar ++ rest /\
    (forall i, i < n ->
       K_ i tstar = S k /\
       (exists e, tstar = pk i ++ Snap i :: e) /\ (exists e, pk1 i = tstar ++ e) /\
       R_ i tstar = R_ i (pk i) /\ R_ i tstar = R_ i (pk1 i) /\
       S_ i tstar = S_ i (pk i) /\ S_ i tstar = S_ i (pk1 i)) /\
    totS n tstar = totR n tstar.
Proof. exact two_equal_rounds_quiescent. Qed.
Print Assumptions C02_two_equal_rounds_quiescent.

(* the rank machine's barrier loop exits exactly under the premise of the counting theorem, with no
   callback and no unsent buffer left *)
Theorem C02_barrier_exit_condition : forall c fuel s s',
  run fuel c PBarrierLoop s = Ok s' ->
  fst (cur s') = snd (cur s') /\ prev s' = cur s' /\ cbs s' = [] /\ dq s' = [].
Proof. exact barrier_exit_condition. Qed.
Print Assumptions C02_barrier_exit_condition.

(* a snapshot is taken only with nothing buffered and nothing posted-incomplete on the rank *)
Theorem C02_contribution_requires_local_quiescence : forall c fuel s s',
  reached (run fuel c PReduceCounts s) s' -> pend s = 0%Z /\ sbb s = 0%Z.
Proof. exact contribution_requires_local_quiescence. Qed.
Print Assumptions C02_contribution_requires_local_quiescence.


(* barrier() returns only with every pre-barrier callback run, every buffer put on the wire and every posted send
   complete - for every program, schedule and execution length (same hypotheses as C03_no_assertion_fails) *)
From Ygm Require Import RankNoErr.
Theorem C02_barrier_returns_flushed : forall c nr,
  (0 <= c_cap c)%Z ->
  (forall d, rng nr d -> rng nr (next_hop c d)) ->
  Forall (rng nr) (locals_of c) ->
  Forall (rng nr) (Bcast.remote_partners_spec (c_n c) (c_p c) (c_me c)) ->
  (forall u, forallb (hact_ok nr) (c_hprog c u) = true) ->
  (forall i, forallb (dests_ok nr) (c_cbprog c i) = true) ->
  forall fuel s s',
  inprq s = false -> DI0 c nr s -> run fuel c PBarrier s = Ok s' ->
  cbs s' = [] /\ dq s' = [] /\ sendq s' = [] /\ sbb s' = 0%Z /\ pend s' = 0%Z.
Proof. exact barrier_returns_flushed. Qed.
Print Assumptions C02_barrier_returns_flushed.


(* ---- the counters and the exit of barrier(), per rank; and the composition over the communicator ---- *)
From Ygm Require Import RankCount RankBarrier Global.

(* in every execution (any program, oracle, length; finished or blocked in an MPI call): scnt / rcnt are the numbers of
   send-count / receive-count increments so far and every pair contributed to a count reduction is (rcnt, scnt) at
   that moment ([hist]: ghost history kept by the machine) *)
Theorem C02_contributions_are_the_counters : forall c fu p s, Cnt s -> resC Cnt (run fu c p s).
Proof. exact count_all. Qed.
Print Assumptions C02_contributions_are_the_counters.

(* for programs whose handlers and callbacks do not call barrier(): barrier() returns only when the last two count
   reductions of this rank delivered the same pair v with fst v = snd v *)
Theorem C02_barrier_exit : forall c,
  (forall u, forallb nobar (c_hprog c u) = true) -> (forall i, forallb nobar (c_cbprog c i) = true) ->
  forall fu s s', W s -> run fu c PBarrier s = Ok s' -> ExitShape s' /\ W s'.
Proof. exact barrier_exit. Qed.
Print Assumptions C02_barrier_exit.

Theorem C02_reductions_stay_well_formed : forall c,
  (forall u, forallb nobar (c_hprog c u) = true) -> (forall i, forallb nobar (c_cbprog c i) = true) ->
  forall fu l s s', W s -> run fu c (PActs l) s = Ok s' -> W s'.
Proof. exact main_W. Qed.
Print Assumptions C02_reductions_stay_well_formed.

(* THE GLOBAL THEOREM.  [gtr]: the interleaving of the ranks' ghost histories.  Assumed of MPI_Iallreduce: lockstep
   (a rank snapshots for reduction m+1 only after every rank contributed to m) and that the result is the sum of the
   contributions.  Given by the rank machines: contributions are the counters (C02_contributions_are_the_counters),
   barrier() returned on some rank only after reductions k and k+1 delivered the same v with fst v = snd v
   (C02_barrier_exit).  Then there is an instant t* at which every rank is inside the barrier, every send-count
   increment has been matched by a completed handler (nothing queued, in flight or executing anywhere), and no rank
   issues or executes anything from t* until its next snapshot. *)
Theorem C02_barrier_return_means_global_quiescence :
  forall (n : nat) (gtr : list (nat * gev)) (hs : nat -> list gev),
  0 < n ->
  (forall i, i < n -> view i gtr = rev (hs i)) ->
  (forall i, i < n -> hist_ok (hs i)) ->
  Barrier.lockstep n (evs gtr) ->
  forall (k : nat) (v : Z * Z), fst v = snd v ->
  forall (pk qk pk1 qk1 : nat -> list (nat * gev)) (rc sc rc1 sc1 : nat -> Z),
  (forall i, i < n -> gtr = pk i ++ (i, GSnap (rc i) (sc i)) :: qk i /\ cK (view i (pk i)) = k) ->
  (forall i, i < n -> gtr = pk1 i ++ (i, GSnap (rc1 i) (sc1 i)) :: qk1 i /\ cK (view i (pk1 i)) = S k) ->
  v = (sumZ n rc, sumZ n sc) -> v = (sumZ n rc1, sumZ n sc1) ->
  exists tstar rest, evs gtr = tstar ++ rest /\
    (forall i, i < n ->
       Barrier.K_ i tstar = S k /\ (exists e, tstar = evs (pk i) ++ Barrier.Snap i :: e) /\ (exists e, evs (pk1 i) = tstar ++ e) /\
       Barrier.R_ i tstar = Barrier.R_ i (evs (pk1 i)) /\ Barrier.S_ i tstar = Barrier.S_ i (evs (pk1 i))) /\
    Barrier.totS n tstar = Barrier.totR n tstar.
Proof. exact barrier_return_means_global_quiescence. Qed.
Print Assumptions C02_barrier_return_means_global_quiescence.
