(* Properties_C07.v — C07: aggregation up to the capacity; unsent bytes bounded. *)
From Coq Require Import ZArith List Bool Lia.
Import ListNotations.
From Ygm Require Import RankMachine RankInv RankBound.
Local Open Scope Z_scope.

(* below the capacity nothing goes on the wire: no MPI call at all, the message is only buffered *)
Theorem C07_async_below_capacity_is_silent : forall c fuel m s,
  (3 <= fuel)%nat -> inprq s = false -> pend s <= c_cap c ->
  sbb s + wire c m <= c_cap c ->
  exists s', run fuel c (PAsync m) s = Ok s' /\ log s' = log s /\ oracle s' = oracle s /\
             sbb s' = sbb s + wire c m /\ pend s' = pend s /\ sendq s' = sendq s /\ scnt s' = scnt s + 1.
Proof. exact async_below_capacity_is_silent. Qed.
Print Assumptions C07_async_below_capacity_is_silent.

(* after an async / async_bcast from outside a handler at most the capacity remains unsent *)
Theorem C07_async_unsent_le_cap : forall c fuel m s s',
  run fuel c (PAsync m) s = Ok s' -> inprq s' = false -> sbb s' <= c_cap c.
Proof. exact async_unsent_le_cap. Qed.
Print Assumptions C07_async_unsent_le_cap.

Theorem C07_bcast_unsent_le_cap : forall c fuel m s s',
  run fuel c (PBcast m) s = Ok s' -> inprq s' = false -> sbb s' <= c_cap c.
Proof. exact bcast_unsent_le_cap. Qed.
Print Assumptions C07_bcast_unsent_le_cap.


(* THE IN-FLIGHT BOUND.  A rank that only issues point-to-point asyncs from its main program (payloads 0..L), whose
   handlers and callbacks send nothing and which forwards nothing (routing NONE; what it receives are point-to-point
   messages or last-stage broadcast legs), never has more than  2 * capacity + one message  bytes buffered plus
   posted-but-incomplete: at every MPI call of every execution (every prefix: finished, blocked, stopped), for every
   capacity, every destination pattern, every completion delay of its sends and every arrival pattern of incoming
   messages (all encoded in the oracle).  18 + L is the wire size of one message. *)
Theorem C07_inflight_bounded : forall c,
  c_routing c = 0%Z ->
  (forall u, forallb quiet_act (c_hprog c u) = true) ->
  (forall i, forallb quiet_act (c_cbprog c i) = true) ->
  forall L fuel nranks main orc,
  forallb (p2p L) main = true -> forallb quiet_resp orc = true -> (0 <= c_cap c)%Z -> (0 <= L)%Z ->
  match run_rank fuel c nranks main orc with
  | Ok s' | Blocked s' | Err _ s' => (pend s' + sbb s' <= 2 * c_cap c + (18 + L))%Z
  | OutOfFuel => True
  end.
Proof. exact inflight_bounded. Qed.
Print Assumptions C07_inflight_bounded.

(* everything except the enqueue of an async never increases buffered + pending bytes, nor the buffered bytes *)
Theorem C07_only_asyncs_add_bytes : forall c,
  c_routing c = 0%Z ->
  (forall u, forallb quiet_act (c_hprog c u) = true) ->
  (forall i, forallb quiet_act (c_cbprog c i) = true) ->
  forall fu p s, quietp p -> N s -> resQ s (run fu c p s).
Proof. exact quiet_mono. Qed.
Print Assumptions C07_only_asyncs_add_bytes.

(* non-vacuity: capacity 16, two 40-byte asyncs (58 bytes on the wire each); the first send stays incomplete, so the second
   async waits in check_if_production_halt_required with 58 bytes in flight *)
Local Open Scope Z_scope.
Definition c7 : cfg := {| c_n := 2; c_p := 1; c_me := 0; c_routing := 0; c_cap := 16; c_nisw := 4; c_freq := 0;
  c_hprog := fun _ => []; c_cbprog := fun _ => [] |}.
Example C07_bound_not_vacuous :
  exists s, run_rank 1000 c7 2 [AAsync 1 1 40; AAsync 1 2 40] [RTestSend false; RTestRecv None; RTestSend false; RTestRecv None] = Blocked s
            /\ pend s = 58 /\ pend s + sbb s <= 2 * 16 + (18 + 40).
Proof. eexists. split; [vm_compute; reflexivity|]. cbn. lia. Qed.
