(* Properties_C07.v — C07: aggregation up to the capacity; unsent bytes bounded. *)
From Coq Require Import ZArith List Bool Lia.
Import ListNotations.
From Ygm Require Import RankMachine RankInv.
Local Open Scope Z_scope.

(* below the capacity nothing goes on the wire: no MPI call at all, the message is only buffered *)
Theorem C07_async_below_capacity_is_silent : forall c fuel m s,
  (3 <= fuel)%nat -> inprq s = false -> pend s <= c_cap c ->
  sbb s + wire c m <= c_cap c ->
  exists s', run fuel c (PAsync m) s = Ok s' /\ log s' = log s /\ oracle s' = oracle s /\
             sbb s' = sbb s + wire c m /\ pend s' = pend s /\ sendq s' = sendq s /\ scnt s' = scnt s + 1.
Proof. exact async_below_capacity_is_silent. Qed.
Print Assumptions C07_async_below_capacity_is_silent.

(* after an async / async_bcast from outside a handler at most the capacity remains unsent *)
Theorem C07_async_unsent_le_cap : forall c fuel m s s',
  run fuel c (PAsync m) s = Ok s' -> inprq s' = false -> sbb s' <= c_cap c.
Proof. exact async_unsent_le_cap. Qed.
Print Assumptions C07_async_unsent_le_cap.

Theorem C07_bcast_unsent_le_cap : forall c fuel m s s',
  run fuel c (PBcast m) s = Ok s' -> inprq s' = false -> sbb s' <= c_cap c.
Proof. exact bcast_unsent_le_cap. Qed.
Print Assumptions C07_bcast_unsent_le_cap.
