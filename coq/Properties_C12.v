(* Properties_C12.v — C12: set / multiset membership and conditional callbacks are exact. *)
From Coq Require Import ZArith List Bool Lia.
Import ListNotations.
From Ygm Require Import ContainerModel.
Local Open Scope Z_scope.

Theorem C12_refines_sequential : forall (K : Type) (keq : forall a b : K, {a = b} + {a <> b}) (owner : K -> nat) (dflt : Z)
  (ops : list (K * cop)) (L : lstate K), owned K owner L ->
  (forall k, abs K owner (fold_left (fun L ko => lstep K keq owner dflt ko L) ops L) k
             = fold_left (fun g ko => gstep K keq dflt ko g) ops (abs K owner L) k)
  /\ owned K owner (fold_left (fun L ko => lstep K keq owner dflt ko L) ops L).
Proof. exact refines_sequential. Qed.
Print Assumptions C12_refines_sequential.

(* a set never stores a key twice (needed because async_exe_if_contains tests count == 1) *)
Theorem C12_set_nodup : forall dflt o vs, set_op o = true -> (length vs <= 1)%nat -> (length (fst (cstep dflt o vs)) <= 1)%nat.
Proof. exact set_nodup. Qed.
Print Assumptions C12_set_nodup.

(* however many insert_exe_if_missing hit an absent key, in whatever order they are serialised on the
   owner, exactly one callback runs and the key is present afterwards *)
Theorem C12_exe_if_missing_once : forall dflt ids,
  ids <> [] -> total_tally (snd (crun dflt (map SIM ids) [])) = 1 /\ fst (crun dflt (map SIM ids) []) = [0].
Proof. exact exe_if_missing_once. Qed.
Print Assumptions C12_exe_if_missing_once.

Theorem C12_erase_removes_all_copies : forall dflt vs, fst (cstep dflt TE vs) = [] /\ fst (cstep dflt SE vs) = [].
Proof. intros; split; reflexivity. Qed.
Print Assumptions C12_erase_removes_all_copies.

Theorem C12_exe_does_not_modify : forall dflt id vs, fst (cstep dflt (SXM id) vs) = vs /\ fst (cstep dflt (SXC id) vs) = vs.
Proof. intros; split; reflexivity. Qed.
Print Assumptions C12_exe_does_not_modify.

(* consume_all: the loop of set_impl::local_consume_all (take the first element, erase that one element, call back) hands every
   element - every copy of a multiset key - to the callback exactly once and leaves the local store empty; the counts of
   callback calls per key and the sizes afterwards are compared with the real set / multiset on every run *)
Theorem C12_consume_all_exactly_once : forall store, consume_all store = ([], store).
Proof. exact consume_all_exactly_once. Qed.
Print Assumptions C12_consume_all_exactly_once.
