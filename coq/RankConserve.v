(* RankConserve.v — C01, conservation inside a rank: nothing that is appended to a send buffer (an async of the main
   program or of a handler, a broadcast leg, a message forwarded for another rank) is lost, duplicated or sent to a
   different rank.  [enq] is a ghost field of the machine: every (rank, message) pair ever passed to [enqueue].
   Invariant, for every procedure, program, oracle and execution length:
        enq  ==  (pairs put on the wire by EIsend events of the log)  +  (pairs still in the buffers)      as multisets
   and since barrier() returns only with all buffers empty (RankNoErr.barrier_returns_flushed), at the end of a complete
   run of a rank  enq == sent. *)
From Coq Require Import ZArith List Bool Lia Permutation.
Import ListNotations.
From Ygm Require Import Bcast RankMachine RankInv RankNoErr.
Local Open Scope Z_scope.

Fixpoint sent_of (l : list event) : list (Z * msg) :=
  match l with
  | [] => []
  | EIsend _ d ms :: t => map (pair d) ms ++ sent_of t
  | _ :: t => sent_of t
  end.
Fixpoint buffered_from (i : nat) (l : list (list msg)) : list (Z * msg) :=
  match l with [] => [] | b :: t => map (pair (Z.of_nat i)) b ++ buffered_from (S i) t end.
Definition buffered (s : st) : list (Z * msg) := buffered_from 0 (bufs s).

Definition CV (nr : nat) (s : st) : Prop :=
  Permutation (enq s) (sent_of (log s) ++ buffered s) /\
  Forall (fun d => 0 <= d) (dq s) /\
  length (bufs s) = nr /\
  Forall (resp_ok nr) (oracle s).

(* Blocked: the rank waits in an MPI call with its oracle exhausted - any cut of an execution *)
Definition resC (P : st -> Prop) (r : res) : Prop := match r with Ok s' | Blocked s' => P s' | _ => True end.
Lemma resC_bind (P1 : st -> Prop) r f : resC P1 r -> (forall s1, P1 s1 -> resC P1 (f s1)) -> resC P1 (r >>= f).
Proof. destruct r; cbn; auto. Qed.

Lemma buffered_upd_app b l i m : (i < length l)%nat ->
  Permutation (buffered_from b (upd l i (nth i l [] ++ [m]))) ((Z.of_nat (b + i), m) :: buffered_from b l).
Proof.
  revert b i; induction l as [|x l IH]; intros b i Hi; cbn in Hi; [lia|].
  destruct i as [|i].
  - rewrite upd_cons0. cbn [nth buffered_from]. rewrite Nat.add_0_r, map_app. cbn [map].
    rewrite <- app_assoc. cbn [app]. symmetry. apply Permutation_cons_app. reflexivity.
  - rewrite upd_consS. cbn [nth buffered_from]. rewrite (IH (S b) i) by lia.
    replace (S b + i)%nat with (b + S i)%nat by lia.
    symmetry. apply Permutation_cons_app. reflexivity.
Qed.

Lemma buffered_upd_nil b l i : (i < length l)%nat ->
  Permutation (buffered_from b l) (map (pair (Z.of_nat (b + i))) (nth i l []) ++ buffered_from b (upd l i [])).
Proof.
  revert b i; induction l as [|x l IH]; intros b i Hi; cbn in Hi; [lia|].
  destruct i as [|i].
  - rewrite upd_cons0. cbn [nth buffered_from map app]. rewrite Nat.add_0_r. reflexivity.
  - rewrite upd_consS. cbn [nth buffered_from]. rewrite (IH (S b) i) at 1 by lia.
    replace (S b + i)%nat with (b + S i)%nat by lia.
    rewrite !app_assoc. apply Permutation_app_tail. apply Permutation_app_comm.
Qed.

Section Conserve.
  Variable c : cfg.
  Variable nr : nat.
  Hypothesis Hhop : forall d, rng nr d -> rng nr (next_hop c d).
  Hypothesis Hloc : Forall (rng nr) (locals_of c).
  Hypothesis Hrem : Forall (rng nr) (remote_partners_spec (c_n c) (c_p c) (c_me c)).
  Hypothesis Hh : forall u, forallb (dests_ok nr) (c_hprog c u) = true.
  Hypothesis Hcb : forall i, forallb (dests_ok nr) (c_cbprog c i) = true.

  Notation K := (CV nr).

  Lemma K_enqueue d m s : K s -> rng nr d -> K (enqueue c d m s).
  Proof.
    intros (P & Q & L & O) (Hd0 & Hd1).
    assert (Hi : (Z.to_nat d < length (bufs s))%nat) by (rewrite L; lia).
    unfold enqueue, CV, buffered, buf_at.
    destruct (nth (Z.to_nat d) (bufs s) []) as [|m0 b0] eqn:E; cbn -[upd]; rewrite ?E.
    - split; [|split; [|split]]; try assumption.
      + pose proof (buffered_upd_app 0 (bufs s) (Z.to_nat d) m Hi) as B. rewrite E in B. cbn [app] in B.
        rewrite B. cbn [plus]. rewrite Z2Nat.id by lia.
        rewrite P. unfold buffered. apply Permutation_middle.
      + apply Forall_app. split; [exact Q|constructor; [exact Hd0|constructor]].
      + rewrite upd_length. exact L.
    - split; [|split; [|split]]; try assumption.
      + pose proof (buffered_upd_app 0 (bufs s) (Z.to_nat d) m Hi) as B. rewrite E in B.
        rewrite B. cbn [plus]. rewrite Z2Nat.id by lia.
        rewrite P. unfold buffered. apply Permutation_middle.
      + rewrite upd_length. exact L.
  Qed.

  Lemma K_ask e s r rest :
    (match e with EIsend _ _ _ => False | _ => True end) ->
    K s -> oracle s = r :: rest -> K (set_oracle rest (emit e s)) /\ resp_ok nr r.
  Proof.
    intros He (P & Q & L & O) Ho. rewrite Ho in O. pose proof (Forall_inv O) as Hr. pose proof (Forall_inv_tail O) as Hrest.
    split; [|exact Hr]. unfold CV, buffered. cbn [enq log bufs dq oracle set_oracle emit].
    split; [|split; [|split]]; try assumption.
    destruct e; try contradiction; cbn [sent_of]; exact P.
  Qed.

  Definition specC (fu : nat) (p : proc) (s : st) : Prop :=
    let R := run fu c p s in
    match p with
    | PActs l => forallb (dests_ok nr) l = true -> K s -> resC K R
    | PAsync m => rng nr (mdest m) -> K s -> resC K R
    | PQueueBytes d m => rng nr d -> K s -> resC K R
    | PMcast ds m | PQueueMany ds m => Forall (rng nr) ds -> K s -> resC K R
    | PHandle ms | PHandleLoop ms => Forall (msg_ok nr) ms -> K s -> resC K R
    | PFlushBuf d => 0 <= d -> K s -> resC K R
    | _ => K s -> resC K R
    end.

  Lemma rngb_rng d : rngb nr d = true -> rng nr d.
  Proof. unfold rngb, rng. intros H. apply andb_prop in H as (A & B). apply Z.leb_le in A. apply Z.ltb_lt in B. lia. Qed.
  Lemma forallb_rng ds : forallb (rngb nr) ds = true -> Forall (rng nr) ds.
  Proof. intros H. rewrite forallb_forall in H. apply Forall_forall. intros x Hx. apply rngb_rng, H, Hx. Qed.

  Lemma K_pop d t s : K s -> dq s = d :: t -> 0 <= d /\ K (set_dq t s).
  Proof.
    intros (P & Q & L & O) Hq. rewrite Hq in Q. pose proof (Forall_inv Q) as Hd. pose proof (Forall_inv_tail Q) as Ht.
    split; [exact Hd|]. split; [exact P|]. split; [exact Ht|]. split; assumption.
  Qed.

  Ltac same := match goal with H : K ?s |- K _ => exact H end.

  Theorem conserve_all : forall fu p s, specC fu p s.
  Proof.
    induction fu as [|fu IH]; [intros p s; destruct p; cbn; intros; exact I|].
    intros p s. destruct p; unfold specC; cbv zeta.
    - (* PActs *)
      intros Hl Hk. destruct l as [|a rest]; cbn [run]; [exact Hk|].
      cbn [forallb] in Hl. apply andb_prop in Hl as (Hd & Hrest).
      eapply resC_bind with (P1 := K); [|intros s1 K1; exact (IH (PActs rest) s1 Hrest K1)].
      destruct a; cbn [dests_ok] in Hd.
      + eapply resC_bind with (P1 := K); [apply (IH (PAsync _) (emit (NO u) s)); [cbn; apply rngb_rng, Hd|exact Hk]|].
        intros s1 K1. cbn. destruct (inmain s1); exact K1.
      + eapply resC_bind with (P1 := K); [apply (IH PCheckHalt (emit (NO u) s)); exact Hk|].
        intros s1 K1. eapply resC_bind with (P1 := K); [apply (IH (PAsync _) s1); [cbn; apply rngb_rng, Hd|exact K1]|].
        intros s2 K2. exact K2.
      + eapply resC_bind with (P1 := K); [apply (IH (PAsync _) (emit (NO u) s)); [cbn; apply rngb_rng, Hd|exact Hk]|].
        intros s1 K1. exact K1.
      + eapply resC_bind with (P1 := K); [apply (IH (PBcast _) (emit (NO u) s)); exact Hk|]. intros s1 K1. exact K1.
      + eapply resC_bind with (P1 := K); [apply (IH (PMcast _ _) (emit (NO u) s)); [apply forallb_rng, Hd|exact Hk]|]. intros s1 K1. exact K1.
      + eapply resC_bind with (P1 := K); [apply (IH PBarrier (emit (NBI (nbar s + 1)) (set_nbar (nbar s + 1) s))); exact Hk|].
        intros s1 K1. exact K1.
      + unfold ask. cbn [oracle emit]. destruct (oracle s) as [|r rest0] eqn:Eo; [exact Hk|].
        destruct (K_ask ECfBarrier s r rest0 I Hk Eo) as (K1 & _). destruct r; try exact I. exact K1.
      + apply (IH PLocalProgress s Hk).
      + apply (IH (PWaitUntil f) s Hk).
      + exact Hk.
      + exact Hk.
      + destruct (masks s); exact Hk.
      + exact Hk.
      + exact Hk.
      + unfold ask. cbn [oracle emit]. destruct (oracle s) as [|r rest0] eqn:Eo; [exact Hk|].
        destruct (K_ask EColl s r rest0 I Hk Eo) as (K1 & _). destruct r; try exact I. exact K1.
    - (* PAsync *)
      intros Hm Hk. cbn [run].
      eapply resC_bind with (P1 := K).
      { destruct (hk m =? 1)%nat; [exact Hk|]. apply (IH PCheckHalt s Hk). }
      intros s1 K1.
      pose proof (K_enqueue (next_hop c (mdest m)) m (set_scnt (scnt s1 + 1) s1) K1 (Hhop _ Hm)) as K3.
      apply (IH PFlushToCap _ K3).
    - (* PQueueBytes *)
      intros Hd Hk. cbn [run]. exact (K_enqueue d m (set_scnt (scnt s + 1) s) Hk Hd).
    - (* PBcast *)
      intros Hk. cbn [run].
      eapply resC_bind with (P1 := K); [apply (IH PCheckHalt s Hk)|]. intros s1 K1.
      eapply resC_bind with (P1 := K); [apply (IH (PQueueMany _ _) s1 Hloc K1)|]. intros s2 K2.
      apply (IH PFlushToCap s2 K2).
    - (* PMcast *)
      intros Hds Hk. destruct ds as [|d ds]; cbn [run]; [exact Hk|]. inversion Hds as [|? ? Hd Hrest]; subst.
      eapply resC_bind with (P1 := K); [apply (IH (PAsync _) s); [cbn; exact Hd|exact Hk]|].
      intros s1 K1. apply (IH (PMcast ds m) s1 Hrest K1).
    - (* PCheckHalt *)
      intros Hk. cbn [run]. destruct (intr s && negb (inprq s) && (c_cap c <? pend s)); [|exact Hk].
      eapply resC_bind with (P1 := K); [apply (IH PPrq s Hk)|]. intros s1 K1. apply (IH PCheckHalt s1 K1).
    - (* PFlushToCap *)
      intros Hk. cbn [run]. destruct (c_cap c <? sbb s); [|exact Hk].
      destruct (dq s) as [|d t] eqn:Eq; [exact I|].
      destruct (K_pop d t s Hk Eq) as (Hd & K1).
      eapply resC_bind with (P1 := K); [apply (IH (PFlushBuf d) (set_dq t s) Hd K1)|].
      intros s1 K2. apply (IH PFlushToCap s1 K2).
    - (* PFlushBuf *)
      intros Hd Hk. cbn [run]. destruct (buf_at s d) as [|m0 ms0] eqn:Eb; [exact Hk|]. cbv zeta.
      match goal with |- resC _ (if inprq ?x then _ else _) => set (s3 := x) end.
      assert (K3 : K s3).
      { destruct Hk as (P & Q & L & O).
        assert (Hi : (Z.to_nat d < length (bufs s))%nat).
        { apply nth_nonempty_lt. unfold buf_at in Eb. rewrite Eb. discriminate. }
        subst s3. unfold CV, buffered.
        pose proof (buffered_upd_nil 0 (bufs s) (Z.to_nat d) Hi) as B. cbn [plus] in B. rewrite Z2Nat.id in B by lia.
        unfold buf_at in Eb. rewrite Eb in B.
        destruct (0 <? c_freq c); cbn -[upd]; (split; [|split; [|split]]; try assumption;
          [ rewrite P; unfold buffered; rewrite B; rewrite <- app_assoc; apply Permutation_app_swap_app
          | rewrite upd_length; exact L ]). }
      destruct (inprq s3); [exact K3|apply (IH PPrq s3 K3)].
    - (* PPrq *)
      intros Hk. cbn [run]. destruct (inprq s); [exact I|].
      set (s0 := set_ret false (set_inprq true s)).
      assert (K0 : K s0) by exact Hk.
      destruct (negb (intr s0)); [exact Hk|].
      eapply resC_bind with (P1 := K).
      + destruct (c_nisw c <? Z.of_nat (length (sendq s0))).
        * unfold ask. cbn [oracle emit]. destruct (oracle s0) as [|r rest] eqn:Eo; [exact K0|].
          destruct (K_ask EWaitSR s0 r rest I K0 Eo) as (K1 & Hr).
          destruct r; try exact I.
          set (s1 := set_oracle rest (emit EWaitSR s0)) in *.
          assert (K2 : K (if send_done then match sendq s1 with [] => s1 | z :: t => set_sendq t (set_pend (pend s1 - z) s1) end else s1)).
          { destruct send_done; [|exact K1]. destruct (sendq s1); exact K1. }
          destruct data as [ms|]; [|exact K2].
          eapply resC_bind with (P1 := K); [apply (IH (PHandle ms) _ Hr); exact K2|]. intros s3 K3. exact K3.
        * destruct (sendq s0) as [|z t]; [exact K0|].
          unfold ask. cbn [oracle emit]. destruct (oracle s0) as [|r rest] eqn:Eo; [exact K0|].
          destruct (K_ask ETestSend s0 r rest I K0 Eo) as (K1 & Hr).
          destruct r; try exact I. destruct flag; exact K1.
      + intros s4 K4.
        eapply resC_bind with (P1 := K); [apply (IH PLocalIncoming (set_ret false s4)); exact K4|].
        intros s5 K5. exact K5.
    - (* PLocalIncoming *)
      intros Hk. cbn [run]. unfold ask. cbn [oracle emit]. destruct (oracle s) as [|r rest] eqn:Eo; [exact Hk|].
      destruct (K_ask ETestRecv s r rest I Hk Eo) as (K1 & Hr).
      destruct r; try exact I. destruct data as [ms|]; [|exact K1].
      eapply resC_bind with (P1 := K); [apply (IH (PHandle ms) _ Hr K1)|]. intros s2 K2.
      eapply resC_bind with (P1 := K); [apply (IH PLocalIncoming s2 K2)|]. intros s3 K3. exact K3.
    - (* PHandle *)
      intros Hms Hk. cbn [run]. cbv zeta.
      eapply resC_bind with (P1 := K); [apply (IH (PHandleLoop ms) (set_inprq true s) Hms); exact Hk|].
      intros s1 K1. apply (IH PFlushToCap (emit EIrecv (set_inprq (inprq s) s1))). exact K1.
    - (* PHandleLoop *)
      intros Hms Hk. destruct ms as [|m rest]; cbn [run]; [exact Hk|]. inversion Hms as [|? ? Hm Hrest]; subst.
      eapply resC_bind with (P1 := K); [|intros s1 K1; exact (IH (PHandleLoop rest) s1 Hrest K1)].
      destruct ((c_routing c =? 0) || (mdest m =? c_me c) || (mdest m =? -1)) eqn:Ecl.
      + eapply resC_bind with (P1 := K); [apply (IH (PExec m) s Hk)|]. intros s1 K1. exact K1.
      + assert (Hr : rng nr (mdest m)).
        { destruct Hm as [Hm|Hm]; [|exact Hm]. rewrite Hm in Ecl. rewrite orb_true_r in Ecl. discriminate. }
        apply (IH PFlushToCap _ (K_enqueue (next_hop c (mdest m)) m s Hk (Hhop _ Hr))).
    - (* PExec *)
      intros Hk. cbn [run]. cbv zeta.
      set (s1 := set_inmain false (set_depth _ (emit _ s))).
      assert (K1 : K s1) by exact Hk.
      eapply resC_bind with (P1 := K).
      + destruct (stage m) as [|[|[|?]]]; try exact K1.
        * apply (IH (PQueueMany _ _) s1 Hrem K1).
        * apply (IH (PQueueMany _ _) s1); [|exact K1].
          apply Forall_forall. intros x Hx. apply filter_In in Hx as (Hx & _). rewrite Forall_forall in Hloc. apply Hloc, Hx.
      + intros s2 K2.
        eapply resC_bind with (P1 := K); [apply (IH (PActs (c_hprog c (uid m))) s2 (Hh (uid m)) K2)|]. intros s3 K3. exact K3.
    - (* PQueueMany *)
      intros Hds Hk. destruct ds as [|d ds]; cbn [run]; [exact Hk|]. inversion Hds as [|? ? Hd Hrest]; subst.
      eapply resC_bind with (P1 := K); [apply (IH (PQueueBytes d m) s Hd Hk)|]. intros s1 K1. apply (IH (PQueueMany ds m) s1 Hrest K1).
    - (* PLocalProgress *)
      intros Hk. cbn [run].
      eapply resC_bind with (P1 := K); [destruct (inprq s); [exact Hk|apply (IH PPrq s Hk)]|].
      intros s1 K1. destruct (dq s1) as [|d t] eqn:Eq; [exact K1|].
      destruct (K_pop d t s1 K1 Eq) as (Hd & K2). apply (IH (PFlushBuf d) (set_dq t s1) Hd K2).
    - (* PWaitUntil *)
      intros Hk. cbn [run]. destruct (has_flag s f); [exact Hk|].
      eapply resC_bind with (P1 := K); [apply (IH PLocalProgress s Hk)|]. intros s1 K1. apply (IH (PWaitUntil f) s1 K1).
    - (* PFlushAll *)
      intros Hk. cbn [run].
      eapply resC_bind with (P1 := K); [apply (IH PPrq s Hk)|]. intros s1 K1.
      eapply resC_bind with (P1 := K); [apply (IH PFlushAllCbs s1 K1)|]. intros s2 K2.
      eapply resC_bind with (P1 := K); [apply (IH PFlushAllDq s2 K2)|]. intros s3 K3.
      eapply resC_bind with (P1 := K); [apply (IH PFlushAllSq s3 K3)|]. intros s4 K4.
      destruct (ret s4); [apply (IH PFlushAll s4 K4)|exact K4].
    - (* PFlushAllCbs *)
      intros Hk. cbn [run]. destruct (cbs s) as [|id t]; [exact Hk|]. cbv zeta.
      eapply resC_bind with (P1 := K); [apply (IH (PActs (c_cbprog c id)) _ (Hcb id)); exact Hk|].
      intros s1 K1. apply (IH PFlushAllCbs). exact K1.
    - (* PFlushAllDq *)
      intros Hk. cbn [run]. destruct (dq s) as [|d t] eqn:Eq; [exact Hk|].
      destruct (K_pop d t s Hk Eq) as (Hd & K1).
      eapply resC_bind with (P1 := K); [apply (IH (PFlushBuf d) (set_dq t s) Hd K1)|]. intros s1 K2.
      eapply resC_bind with (P1 := K); [apply (IH PPrq s1 K2)|]. intros s2 K3.
      apply (IH PFlushAllDq (set_ret true s2)). exact K3.
    - (* PFlushAllSq *)
      intros Hk. cbn [run]. destruct (sendq s) as [|z t]; [exact Hk|]. cbv zeta.
      eapply resC_bind with (P1 := K); [apply (IH PPrq s Hk)|]. intros s1 K1.
      apply (IH PFlushAllSq (set_ret (ret s || ret s1) s1)). exact K1.
    - (* PBarrier *)
      intros Hk. cbn [run].
      eapply resC_bind with (P1 := K); [apply (IH PFlushAll s Hk)|]. intros s1 K1.
      apply (IH PBarrierLoop (set_prev (1, 2) (set_cur (3, 4) s1))). exact K1.
    - (* PBarrierLoop *)
      intros Hk. cbn [run]. destruct (cur s) as (c1, c2).
      destruct ((c1 =? c2) && (fst (prev s) =? c1) && (snd (prev s) =? c2)).
      + destruct (cbs s); [destruct (dq s)|]; try exact I. exact Hk.
      + eapply resC_bind with (P1 := K); [apply (IH PReduceCounts (set_prev (c1, c2) s)); exact Hk|]. intros s1 K1.
        eapply resC_bind with (P1 := K); [destruct (fst (cur s1) =? snd (cur s1)); [exact K1|apply (IH PFlushAll s1 K1)]|].
        intros s2 K2. apply (IH PBarrierLoop s2 K2).
    - (* PReduceCounts *)
      intros Hk. cbn [run]. destruct (negb ((pend s =? 0) && (sbb s =? 0))); [exact I|].
      apply (IH PReduceLoop (emit (EIallreduce (rcnt s) (scnt s)) (set_red_done false s))). exact Hk.
    - (* PReduceLoop *)
      intros Hk. cbn [run]. destruct (red_done s); [exact Hk|].
      unfold ask. cbn [oracle emit]. destruct (oracle s) as [|r rest] eqn:Eo; [exact Hk|].
      destruct (K_ask EWaitIR s r rest I Hk Eo) as (K1 & Hr).
      destruct r; try exact I.
      set (s1 := set_oracle rest (emit EWaitIR s)) in *.
      assert (K2 : K (match result with Some v => set_red_done true (set_cur v s1) | None => s1 end)) by (destruct result; exact K1).
      eapply resC_bind with (P1 := K); [|intros s3 K3; exact (IH PReduceLoop s3 K3)].
      destruct data as [ms|]; [|exact K2].
      eapply resC_bind with (P1 := K); [apply (IH (PHandle ms) _ Hr K2)|]. intros s3 K3. apply (IH PFlushAll s3 K3).
  Qed.
End Conserve.

Lemma buffered_all_empty b l : (forall i, nth i l [] = []) -> buffered_from b l = [].
Proof.
  revert b; induction l as [|x l IH]; intros b H; [reflexivity|]. cbn.
  pose proof (H O) as H0. cbn in H0. subst x. cbn. apply IH. intros i. apply (H (S i)).
Qed.

(* the whole life of a rank: when the destructor's barrier has returned, every (rank, message) pair that was ever appended
   to a send buffer has been put on the wire exactly once, addressed to that rank - and nothing else has *)
Theorem rank_conserves c nr fuel main orc s' :
  0 <= c_cap c ->
  (forall d, rng nr d -> rng nr (next_hop c d)) ->
  Forall (rng nr) (locals_of c) ->
  Forall (rng nr) (remote_partners_spec (c_n c) (c_p c) (c_me c)) ->
  (forall u, forallb (hact_ok nr) (c_hprog c u) = true) ->
  (forall i, forallb (dests_ok nr) (c_cbprog c i) = true) ->
  forallb (dests_ok nr) main = true ->
  Forall (resp_ok nr) orc ->
  run_rank fuel c nr main orc = Ok s' ->
  Permutation (enq s') (sent_of (log s')).
Proof.
  intros Hcap Hhop Hloc Hrem Hh Hcb Hm Ho Hrun. unfold run_rank in Hrun.
  assert (Hh' : forall u, forallb (dests_ok nr) (c_hprog c u) = true).
  { intros u. specialize (Hh u). rewrite forallb_forall in *. intros a Ha. specialize (Hh a Ha).
    unfold hact_ok in Hh. apply andb_prop in Hh. tauto. }
  destruct (run fuel c (PActs main) (init_st nr orc)) as [s1| | |] eqn:E1; cbn [bind] in Hrun; try discriminate.
  (* conservation *)
  assert (K0 : CV nr (init_st nr orc)).
  { unfold CV, buffered, init_st. cbn. split; [|split; [constructor|split; [apply repeat_length|exact Ho]]].
    rewrite buffered_all_empty; [constructor|]. intros i. clear. generalize i. induction nr; intros [|j]; cbn; auto. }
  pose proof (conserve_all c nr Hhop Hloc Hrem Hh' Hcb fuel (PActs main) (init_st nr orc) Hm K0) as C1.
  rewrite E1 in C1. cbn in C1.
  pose proof (conserve_all c nr Hhop Hloc Hrem Hh' Hcb fuel PBarrier s1 C1) as C2. rewrite Hrun in C2. cbn in C2.
  destruct C2 as (P & _).
  (* all buffers are empty when the barrier has returned *)
  assert (P0 : pre0 c nr false (init_st nr orc)).
  { split; [reflexivity|]. unfold DI0, DIx0, init_st, buf_at. cbn. repeat split.
    - clear. induction nr; cbn; auto.
    - intros d _ _ Hb. exfalso. apply Hb. clear. generalize (Z.to_nat d). induction nr; intros [|i]; cbn; auto.
    - apply repeat_length.
    - exact Ho. }
  pose proof (all_specs c nr Hcap Hhop Hloc Hrem Hh Hcb fuel false (PActs main) (init_st nr orc) Hm P0) as S1.
  rewrite E1 in S1. cbn in S1.
  pose proof (all_specs c nr Hcap Hhop Hloc Hrem Hh Hcb fuel false PBarrier s1 S1) as S2. rewrite Hrun in S2. cbn in S2.
  destruct S2 as ((_ & (_ & I2 & _)) & (_ & K2 & _)).
  assert (B : buffered s' = []).
  { unfold buffered. apply buffered_all_empty. intros i.
    destruct (nth i (bufs s') []) eqn:En; [reflexivity|]. exfalso.
    assert (Hb : buf_at s' (Z.of_nat i) <> []) by (unfold buf_at; rewrite Nat2Z.id, En; discriminate).
    specialize (I2 (Z.of_nat i) ltac:(lia) ltac:(discriminate) Hb). rewrite K2 in I2. exact I2. }
  rewrite B, app_nil_r in P. exact P.
Qed.

(* ... and at every cut of its execution (Blocked: waiting in an MPI call), what was appended is on the wire or still buffered *)
Theorem rank_conserves_at_every_cut c nr fuel main orc :
  (forall d, rng nr d -> rng nr (next_hop c d)) ->
  Forall (rng nr) (locals_of c) ->
  Forall (rng nr) (remote_partners_spec (c_n c) (c_p c) (c_me c)) ->
  (forall u, forallb (dests_ok nr) (c_hprog c u) = true) ->
  (forall i, forallb (dests_ok nr) (c_cbprog c i) = true) ->
  forallb (dests_ok nr) main = true ->
  Forall (resp_ok nr) orc ->
  match run_rank fuel c nr main orc with
  | Ok s' | Blocked s' => Permutation (enq s') (sent_of (log s') ++ buffered s')
  | _ => True
  end.
Proof.
  intros Hhop Hloc Hrem Hh Hcb Hm Ho. unfold run_rank.
  assert (K0 : CV nr (init_st nr orc)).
  { unfold CV, buffered, init_st. cbn. split; [|split; [constructor|split; [apply repeat_length|exact Ho]]].
    rewrite buffered_all_empty; [constructor|]. intros i. clear. generalize i. induction nr; intros [|j]; cbn; auto. }
  pose proof (conserve_all c nr Hhop Hloc Hrem Hh Hcb fuel (PActs main) (init_st nr orc) Hm K0) as C1. cbv zeta in C1.
  destruct (run fuel c (PActs main) (init_st nr orc)) as [s1|s1| |]; cbn [bind]; try exact I; [|exact (proj1 C1)].
  pose proof (conserve_all c nr Hhop Hloc Hrem Hh Hcb fuel PBarrier s1 C1) as C2. cbv zeta in C2.
  destruct (run fuel c PBarrier s1); try exact I; exact (proj1 C2).
Qed.

(* what one async contributes to [enq]: exactly its own message, addressed to the next hop towards its destination
   (stated for an async that needs no wait and still fits; with waits, handlers that run meanwhile add their own) *)
Lemma enqueue_enq c d m s : enq (enqueue c d m s) = (d, m) :: enq s.
Proof. unfold enqueue. destruct (buf_at s d); reflexivity. Qed.

Theorem async_enqueues_exactly_its_message c fuel m s :
  (3 <= fuel)%nat -> inprq s = false -> pend s <= c_cap c -> sbb s + wire c m <= c_cap c ->
  exists s', run fuel c (PAsync m) s = Ok s' /\ enq s' = (next_hop c (mdest m), m) :: enq s /\ log s' = log s.
Proof.
  intros Hf Hq Hp Hs.
  destruct fuel as [|[|[|fuel]]]; try lia.
  assert (Hhalt : run (S (S fuel)) c PCheckHalt s = Ok s).
  { rewrite run_PCheckHalt. rewrite Hq. destruct (intr s); cbn [andb negb]; [|reflexivity].
    destruct (Z.ltb_spec (c_cap c) (pend s)); [lia|reflexivity]. }
  rewrite run_PAsync.
  assert (Hpre : (if (hk m =? 1)%nat then Ok s else run (S (S fuel)) c PCheckHalt s) = Ok s)
    by (destruct (hk m =? 1)%nat; [reflexivity | exact Hhalt]).
  rewrite Hpre. cbn [bind]. cbv zeta.
  set (s2 := set_scnt (scnt s + 1) s).
  destruct (enqueue_fields c (next_hop c (mdest m)) m s2) as (E1 & E2 & E3 & _).
  pose proof (enqueue_enq c (next_hop c (mdest m)) m s2) as Eq.
  set (s3 := enqueue c (next_hop c (mdest m)) m s2) in *.
  unfold s2 in E1, E2, E3, Eq. cbn [set_scnt inprq sbb log enq] in E1, E2, E3, Eq.
  rewrite run_PFlushToCap. rewrite E2.
  destruct (Z.ltb_spec (c_cap c) (sbb s + wire c m)); [lia|].
  exists s3. repeat split; assumption.
Qed.
