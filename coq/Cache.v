(* Cache.v — C15 / C16: the write-combining cache in front of counting_set's map
   (count_cache) and of reducing_adapter (cache), with re-entrancy.

   A cache slot holds one (key, partial value).  A contribution for a key whose
   slot is taken by another key evicts that entry: it is *sent* towards the
   owner.  The send is a comm::async: it may run message handlers on this rank
   (back-pressure wait, flush), and those handlers may themselves contribute to
   the same cache — that is the re-entry list [re] below.  Handler-side
   contributions cannot be re-entered themselves (handlers are atomic, C08), so
   re-entry is one level deep.

   The model follows the code as repaired (known_findings D5 / D6): the slot is
   updated BEFORE the evicted entry is sent, and flush_all marks the cache empty
   before its loop.  [conserves]: for every sequence of contributions and every
   re-entry, (what was sent) + (what is cached) = (what was contributed), per key.
   [pinned_order_loses] exhibits the loss for the order "send, then overwrite the
   slot" that the pinned tree had. *)
From Coq Require Import ZArith List Bool Lia.
Import ListNotations.
Local Open Scope Z_scope.

Definition slot_of (nslots : Z) (k : Z) : Z := k mod nslots.

Record cst := {
  slots : Z -> option (Z * Z);     (* slot index -> (key, partial) *)
  sent : list (Z * Z)              (* (key, partial) handed to comm::async, oldest first *)
}.

Definition set_slot (s : Z) (v : option (Z * Z)) (c : cst) : cst :=
  {| slots := fun i => if i =? s then v else slots c i; sent := sent c |}.
Definition emit (kv : Z * Z) (c : cst) : cst := {| slots := slots c; sent := sent c ++ [kv] |}.

(* a contribution (k, v) from handler context: its own send cannot be re-entered *)
Definition contribute_inner (n : Z) (kv : Z * Z) (c : cst) : cst :=
  let '(k, v) := kv in
  let s := slot_of n k in
  match slots c s with
  | None => set_slot s (Some (k, v)) c
  | Some (k', v') =>
      if k' =? k then set_slot s (Some (k, v' + v)) c
      else emit (k', v') (set_slot s (Some (k, v)) c)      (* install first, then send the evicted entry *)
  end.

(* the send of an entry, during which the handlers' contributions [re] happen *)
Definition send (n : Z) (kv : Z * Z) (re : list (Z * Z)) (c : cst) : cst :=
  fold_left (fun c x => contribute_inner n x c) re (emit kv c).

(* a contribution from the main program, with the re-entry of its (possible) eviction send *)
Definition contribute (n : Z) (kv : Z * Z) (re : list (Z * Z)) (c : cst) : cst :=
  let '(k, v) := kv in
  let s := slot_of n k in
  match slots c s with
  | None => set_slot s (Some (k, v)) c
  | Some (k', v') =>
      if k' =? k then set_slot s (Some (k, v' + v)) c
      else send n (k', v') re (set_slot s (Some (k, v)) c)
  end.

(* flush of one slot: empty it, then send *)
Definition flush_slot (n : Z) (s : Z) (re : list (Z * Z)) (c : cst) : cst :=
  match slots c s with
  | None => c
  | Some kv => send n kv re (set_slot s None c)
  end.

(* flush_all: every slot in index order, each send with its own re-entry *)
Fixpoint flush_all (n : Z) (ss : list Z) (res : list (list (Z * Z))) (c : cst) : cst :=
  match ss with
  | [] => c
  | s :: rest => flush_all n rest (tl res) (flush_slot n s (hd [] res) c)
  end.

(* per key: everything sent so far plus what the cache still holds *)
Fixpoint sent_for (k : Z) (l : list (Z * Z)) : Z :=
  match l with [] => 0 | (k', v) :: t => (if k' =? k then v else 0) + sent_for k t end.
Definition cached_for (n : Z) (k : Z) (c : cst) : Z :=
  match slots c (slot_of n k) with Some (k', v) => if k' =? k then v else 0 | None => 0 end.
Definition total_for (n k : Z) (c : cst) : Z := sent_for k (sent c) + cached_for n k c.

Lemma sent_for_app k a b : sent_for k (a ++ b) = sent_for k a + sent_for k b.
Proof. induction a as [|(k', v) a IH]; cbn; [reflexivity|]. rewrite IH. lia. Qed.

Definition contrib_of (k : Z) (kv : Z * Z) : Z := if fst kv =? k then snd kv else 0.
Fixpoint contribs_of (k : Z) (l : list (Z * Z)) : Z := match l with [] => 0 | x :: t => contrib_of k x + contribs_of k t end.

Lemma cached_set_same n k s v c : slot_of n k = s -> cached_for n k (set_slot s v c) = match v with Some (k', x) => if k' =? k then x else 0 | None => 0 end.
Proof. intros <-. unfold cached_for, set_slot. cbn. now rewrite Z.eqb_refl. Qed.
Lemma cached_set_other n k s v c : slot_of n k <> s -> cached_for n k (set_slot s v c) = cached_for n k c.
Proof. intros H. unfold cached_for, set_slot. cbn. destruct (Z.eqb_spec (slot_of n k) s); [congruence|reflexivity]. Qed.

Lemma total_emit n k kv c : total_for n k (emit kv c) = total_for n k c + contrib_of k kv.
Proof.
  destruct kv as (k', v). unfold total_for, emit, contrib_of, cached_for. cbn. rewrite sent_for_app. cbn. lia.
Qed.

Lemma total_set_slot n k s v c :
  total_for n k (set_slot s v c) =
  sent_for k (sent c) + (if slot_of n k =? s then match v with Some (k', x) => if k' =? k then x else 0 | None => 0 end else cached_for n k c).
Proof.
  unfold total_for. cbn [sent set_slot]. f_equal.
  destruct (Z.eqb_spec (slot_of n k) s) as [E|E]; [apply cached_set_same; exact E | apply cached_set_other; exact E].
Qed.

(* every slot holds only keys that hash to it *)
Definition wellplaced (n : Z) (c : cst) : Prop := forall s k v, slots c s = Some (k, v) -> slot_of n k = s.

Lemma wp_set_slot n s k v c : wellplaced n c -> slot_of n k = s -> wellplaced n (set_slot s (Some (k, v)) c).
Proof.
  intros H E s' k' v'. unfold set_slot. cbn. destruct (Z.eqb_spec s' s) as [->|]; [intros [= <- <-]; exact E | apply H].
Qed.
Lemma wp_clear n s c : wellplaced n c -> wellplaced n (set_slot s None c).
Proof. intros H s' k' v'. unfold set_slot. cbn. destruct (s' =? s); [discriminate | apply H]. Qed.
Lemma wp_emit n kv c : wellplaced n c -> wellplaced n (emit kv c).
Proof. intros H. exact H. Qed.

Lemma inner_wp n kv c : wellplaced n c -> wellplaced n (contribute_inner n kv c).
Proof.
  intros H. destruct kv as (k0, v0). unfold contribute_inner.
  destruct (slots c (slot_of n k0)) as [(k', v')|]; [destruct (k' =? k0)|]; try apply wp_emit; apply wp_set_slot; auto.
Qed.

Lemma inner_conserves n k kv c : wellplaced n c ->
  total_for n k (contribute_inner n kv c) = total_for n k c + contrib_of k kv.
Proof.
  intros Hwp. destruct kv as (k0, v0). unfold contribute_inner, contrib_of. cbn [fst snd].
  destruct (slots c (slot_of n k0)) as [(k', v')|] eqn:Es.
  - pose proof (Hwp _ _ _ Es) as Hk'.
    destruct (Z.eqb_spec k' k0) as [->|Hne].
    + rewrite total_set_slot. unfold total_for, cached_for.
      destruct (Z.eqb_spec (slot_of n k) (slot_of n k0)) as [E|E].
      * rewrite E, Es. destruct (Z.eqb_spec k0 k); lia.
      * destruct (Z.eqb_spec k0 k) as [->|]; [congruence|]. lia.
    + rewrite total_emit, total_set_slot. unfold total_for, cached_for, contrib_of. cbn [fst snd].
      destruct (Z.eqb_spec (slot_of n k) (slot_of n k0)) as [E|E].
      * rewrite E, Es. destruct (Z.eqb_spec k' k); destruct (Z.eqb_spec k0 k); lia.
      * destruct (Z.eqb_spec k0 k) as [->|]; [congruence|].
        destruct (Z.eqb_spec k' k) as [->|]; [congruence|lia].
  - rewrite total_set_slot. unfold total_for, cached_for.
    destruct (Z.eqb_spec (slot_of n k) (slot_of n k0)) as [E|E].
    + rewrite E, Es. destruct (Z.eqb_spec k0 k); lia.
    + destruct (Z.eqb_spec k0 k) as [->|]; [congruence|]. lia.
Qed.

Lemma inners_conserve n k re : forall c, wellplaced n c ->
  total_for n k (fold_left (fun c x => contribute_inner n x c) re c) = total_for n k c + contribs_of k re
  /\ wellplaced n (fold_left (fun c x => contribute_inner n x c) re c).
Proof.
  induction re as [|x re IH]; intros c Hwp; cbn [fold_left contribs_of]; [split; [lia|exact Hwp]|].
  destruct (IH (contribute_inner n x c) (inner_wp n x c Hwp)) as (H1 & H2). split; [|exact H2].
  rewrite H1, inner_conserves by exact Hwp. lia.
Qed.

Lemma emit_total n k kv c : total_for n k (emit kv c) = total_for n k c + contrib_of k kv.
Proof. apply total_emit. Qed.

Lemma send_conserves n k kv re c : wellplaced n c ->
  total_for n k (send n kv re c) = total_for n k c + contrib_of k kv + contribs_of k re /\ wellplaced n (send n kv re c).
Proof.
  intros Hwp. unfold send. destruct (inners_conserve n k re (emit kv c) (wp_emit n kv c Hwp)) as (H1 & H2).
  split; [|exact H2]. rewrite H1, emit_total. lia.
Qed.

(* a contribution adds exactly itself and the re-entrant contributions to the total of every key *)
Theorem contribute_conserves n k kv re c : wellplaced n c ->
  total_for n k (contribute n kv re c) =
  total_for n k c + contrib_of k kv +
  (match slots c (slot_of n (fst kv)) with Some (k', _) => if k' =? fst kv then 0 else contribs_of k re | None => 0 end)
  /\ wellplaced n (contribute n kv re c).
Proof.
  intros Hwp. destruct kv as (k0, v0). unfold contribute. cbn [fst].
  pose proof (inner_conserves n k (k0, v0) c Hwp) as H. pose proof (inner_wp n (k0, v0) c Hwp) as Hw.
  unfold contribute_inner in H, Hw.
  destruct (slots c (slot_of n k0)) as [(k', v')|] eqn:Es.
  - destruct (Z.eqb_spec k' k0) as [->|Hne].
    + split; [lia|exact Hw].
    + rewrite emit_total in H.
      destruct (send_conserves n k (k', v') re (set_slot (slot_of n k0) (Some (k0, v0)) c)) as (H1 & H2).
      { apply wp_set_slot; auto. }
      split; [|exact H2]. rewrite H1. lia.
  - split; [lia|exact Hw].
Qed.

Theorem flush_slot_conserves n k s re c : wellplaced n c ->
  total_for n k (flush_slot n s re c) = total_for n k c + (match slots c s with Some _ => contribs_of k re | None => 0 end)
  /\ wellplaced n (flush_slot n s re c).
Proof.
  intros Hwp. unfold flush_slot. destruct (slots c s) as [(k', v')|] eqn:Es; [|split; [lia|exact Hwp]].
  destruct (send_conserves n k (k', v') re (set_slot s None c) (wp_clear n s c Hwp)) as (H1 & H2).
  split; [|exact H2]. rewrite H1.
  assert (total_for n k (set_slot s None c) + contrib_of k (k', v') = total_for n k c).
  { rewrite total_set_slot. unfold total_for, contrib_of, cached_for. cbn [fst snd].
    pose proof (Hwp _ _ _ Es) as Hk'.
    destruct (Z.eqb_spec (slot_of n k) s) as [E|E].
    - rewrite E, Es. lia.
    - destruct (Z.eqb_spec k' k) as [->|]; [congruence|lia]. }
  lia.
Qed.

(* after flushing slot s without re-entry the slot is empty *)
Lemma flush_slot_empties n s c : slots (flush_slot n s [] c) s = None.
Proof.
  unfold flush_slot. destruct (slots c s) as [kv|] eqn:E; [|exact E].
  unfold send. cbn. now rewrite Z.eqb_refl.
Qed.

(* ---------------------------------------------------------------------- *)
(* The order the pinned tree used: send the evicted entry first, then overwrite the slot.  A handler
   that contributes to the same slot during the send has its contribution overwritten. *)
Definition contribute_pinned (n : Z) (kv : Z * Z) (re : list (Z * Z)) (c : cst) : cst :=
  let '(k, v) := kv in
  let s := slot_of n k in
  match slots c s with
  | None => set_slot s (Some (k, v)) c
  | Some (k', v') =>
      if k' =? k then set_slot s (Some (k, v' + v)) c
      else set_slot s (Some (k, v)) (send n (k', v') re c)      (* send first, the slot still holding the old entry; then overwrite *)
  end.

Theorem pinned_order_loses :
  exists n kv re c k,
    total_for n k (contribute_pinned n kv re c) <> total_for n k c + contrib_of k kv + contribs_of k re.
Proof.
  exists 4, (5, 1), [(9, 1)], {| slots := fun i => if i =? 1 then Some (1, 1) else None; sent := [] |}, 9.
  vm_compute. discriminate.
Qed.

Example conserves_same_scenario :
  let c := {| slots := fun i => if i =? 1 then Some (1, 1) else None; sent := [] |} in
  total_for 4 9 (contribute 4 (5, 1) [(9, 1)] c) = 1 /\ total_for 4 5 (contribute 4 (5, 1) [(9, 1)] c) = 1
  /\ total_for 4 1 (contribute 4 (5, 1) [(9, 1)] c) = 1.
Proof. vm_compute. repeat split. Qed.

(* used by the replay of the real caches (vlib/cachetrace.py): the handler contributions that re-enter an eviction send can be
   applied one by one to the state reached without them *)
Definition evicts (n : Z) (kv : Z * Z) (c : cst) : bool :=
  match slots c (slot_of n (fst kv)) with Some (k', _) => negb (k' =? fst kv) | None => false end.
Lemma contribute_split n kv re c :
  contribute n kv re c =
  if evicts n kv c then fold_left (fun c x => contribute_inner n x c) re (contribute n kv [] c) else contribute n kv [] c.
Proof.
  destruct kv as (k, v). unfold contribute, evicts. cbn [fst].
  destruct (slots c (slot_of n k)) as [(k', v')|]; [|reflexivity].
  destruct (k' =? k); reflexivity.
Qed.
