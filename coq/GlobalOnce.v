(* GlobalOnce.v — C01, the composition over all ranks: at EVERY cut of an execution, every message (or broadcast leg)
   that any rank has queued for sending is accounted for exactly once - its handler has been started exactly once
   somewhere, or it is in exactly one of: a send buffer, the MPI library, a receive buffer being processed.
   Nothing else has been executed.  When nothing is pending (global quiescence, which is what barrier() establishes:
   Global.barrier_return_means_global_quiescence), the handlers executed are exactly the messages originated.

   What the rank machines provide (theorems over every program, oracle and execution length; Blocked = any cut):
     RankAccount.rank_accounts              received-and-local == executed + owed;  received-and-not-local == forwarded + owed;
                                            everything enqueued is one of the two kinds (forward / origination)
     RankConserve.rank_conserves_at_every_cut   enqueued == put on the wire + still buffered
   What is assumed of MPI (hypothesis Hmpi): the messages handed to MPI_Isend are the messages delivered by completed
   receives plus the ones still inside MPI - no loss, no duplication, no alteration.  (Destinations are not needed
   for the counting; that a handler runs only on the rank its message addresses is RankAccount: X comes from is_local.) *)
From Coq Require Import ZArith List Bool Lia Permutation.
Import ListNotations.
From Ygm Require Import Bcast RankMachine RankConserve RankAccount.
Local Open Scope Z_scope.

Definition cnt (l : list Z) (z : Z) : nat := count_occ Z.eq_dec l z.
Lemma cnt_app a b z : cnt (a ++ b) z = (cnt a z + cnt b z)%nat.
Proof. apply count_occ_app. Qed.
Lemma perm_cnt a b : Permutation a b <-> forall z, cnt a z = cnt b z.
Proof. apply Permutation_count_occ. Qed.
Lemma perm_map_cnt (a b : list msg) z : Permutation a b -> cnt (map uid a) z = cnt (map uid b) z.
Proof. intros H. apply perm_cnt. apply Permutation_map, H. Qed.
Lemma cnt_filter_split (f : msg -> bool) l z :
  cnt (map uid l) z = (cnt (map uid (filter f l)) z + cnt (map uid (filter (fun m => negb (f m)) l)) z)%nat.
Proof.
  induction l as [|m l IH]; [reflexivity|]. cbn [filter map]. destruct (f m); cbn [negb map];
    change (cnt (uid m :: ?t) z) with (cnt ([uid m] ++ t) z); rewrite !(cnt_app [uid m]), IH; lia.
Qed.

Record rk := { r_cfg : cfg; r_st : st; r_debt : list msg }.
Definition r_h (r : rk) := hist (r_st r).
(* what the per-rank theorems establish about a rank at a cut *)
Definition acct (r : rk) : Prop :=
  A (r_cfg r) (r_debt r) (r_st r) /\
  Permutation (enq (r_st r)) (sent_of (log (r_st r)) ++ buffered (r_st r)).

Definition uR r := map uid (Rc (r_h r)).
Definition uF r := map uid (map snd (fw (r_h r))).
Definition uO r := map uid (map snd (og (r_h r))).
Definition uS r := map uid (map snd (sent_of (log (r_st r)))).
Definition uB r := map uid (map snd (buffered (r_st r))).
Definition uD r := map uid (r_debt r).
Definition uX r := X (r_h r).

Lemma rank_eqs r : acct r -> forall z,
  cnt (uR r) z = (cnt (uX r) z + cnt (uF r) z + cnt (uD r) z)%nat /\
  (cnt (uF r) z + cnt (uO r) z = cnt (uS r) z + cnt (uB r) z)%nat.
Proof.
  intros ((A1 & A2 & A3 & _) & P) z. unfold uR, uF, uO, uS, uB, uD, uX, r_h in *.
  set (c := r_cfg r) in *. set (h := hist (r_st r)) in *.
  split.
  - rewrite (cnt_filter_split (is_local c) (Rc h) z), (cnt_filter_split (is_local c) (r_debt r) z).
    apply perm_cnt with (z := z) in A1. rewrite cnt_app in A1.
    apply (perm_map_cnt _ _ z) in A2. rewrite map_app, cnt_app in A2. unfold nloc in A2.
    rewrite A1, A2. lia.
  - rewrite A3 in P. pose proof (genq_split h) as G.
    assert (E : Permutation (fw h ++ og h) (sent_of (log (r_st r)) ++ buffered (r_st r)))
      by (etransitivity; [symmetry; exact G|exact P]).
    apply (Permutation_map snd) in E. apply (perm_map_cnt _ _ z) in E. rewrite !map_app, !cnt_app in E. exact E.
Qed.

Section Global.
  Variable rs : list rk.                  (* every rank of the communicator, at a cut of the execution *)
  Hypothesis Hacct : Forall acct rs.
  Variable U : list msg.                  (* the messages inside MPI: sent, not yet delivered *)
  Hypothesis Hmpi : Permutation (flat_map (fun r => map snd (sent_of (log (r_st r)))) rs) (flat_map (fun r => Rc (r_h r)) rs ++ U).

  Definition originated : list Z := flat_map uO rs.                 (* uids of the asyncs / broadcast legs queued by their issuers *)
  Definition executed : list Z := flat_map uX rs.                   (* uids of the handlers started, on any rank *)
  Definition owed : list Z := flat_map uD rs.                       (* received, in a buffer whose processing has begun *)
  Definition in_buffers : list Z := flat_map uB rs.                 (* in a send buffer *)

  Lemma sums z :
    cnt (flat_map uR rs) z = (cnt executed z + cnt (flat_map uF rs) z + cnt owed z)%nat /\
    (cnt (flat_map uF rs) z + cnt originated z = cnt (flat_map uS rs) z + cnt in_buffers z)%nat.
  Proof.
    unfold originated, executed, owed, in_buffers. clear Hmpi. induction rs as [|r l IH]; [split; reflexivity|].
    pose proof (Forall_inv Hacct) as Hr. pose proof (Forall_inv_tail Hacct) as Hl.
    destruct (IH Hl) as (I1 & I2). destruct (rank_eqs r Hr z) as (E1 & E2).
    cbn [flat_map]. rewrite !cnt_app. lia.
  Qed.

  Lemma flat_map_map_uid (f : rk -> list msg) l : map uid (flat_map f l) = flat_map (fun r => map uid (f r)) l.
  Proof. induction l as [|r l IH]; [reflexivity|]. cbn [flat_map]. rewrite map_app, IH. reflexivity. Qed.

  Theorem every_message_accounted_once_at_every_cut :
    Permutation originated (executed ++ owed ++ map uid U ++ in_buffers).
  Proof.
    apply perm_cnt. intros z. destruct (sums z) as (S1 & S2).
    pose proof (perm_map_cnt _ _ z Hmpi) as M. rewrite map_app, cnt_app, !flat_map_map_uid in M.
    change (flat_map (fun r => map uid (map snd (sent_of (log (r_st r))))) rs) with (flat_map uS rs) in M.
    change (flat_map (fun r => map uid (Rc (r_h r))) rs) with (flat_map uR rs) in M.
    rewrite !cnt_app. lia.
  Qed.

  (* nothing pending: every originated message has been executed exactly once, and nothing else has *)
  Corollary exactly_once_at_quiescence :
    owed = [] -> U = [] -> in_buffers = [] -> Permutation originated executed.
  Proof.
    intros H1 H2 H3. pose proof every_message_accounted_once_at_every_cut as P. rewrite H1, H2, H3 in P. cbn in P.
    rewrite app_nil_r in P. exact P.
  Qed.

  (* the barrier's criterion suffices: if as many handlers were started as messages originated, nothing is pending anywhere *)
  Corollary counts_equal_means_nothing_pending :
    length originated = length executed -> owed = [] /\ U = [] /\ in_buffers = [] /\ Permutation originated executed.
  Proof.
    intros HL. pose proof every_message_accounted_once_at_every_cut as P.
    pose proof (Permutation_length P) as L. rewrite !app_length, map_length in L.
    assert (L1 : length owed = 0%nat) by lia. assert (L2 : length U = 0%nat) by lia. assert (L3 : length in_buffers = 0%nat) by lia.
    apply length_zero_iff_nil in L1, L2, L3. repeat split; try assumption.
    apply exactly_once_at_quiescence; assumption.
  Qed.
  (* THE BARRIER'S CRITERION.  cntok: what RankExecCount establishes of a rank in main context - its send counter is the
     number of messages it originated, its receive counter the number of handlers it started.  If the counters of all ranks
     at the cut sum to the same value (what the count reduction of barrier() tests), then nothing is pending anywhere and the
     handlers started are exactly the messages originated: every async issued has executed exactly once. *)
  Definition cntok (r : rk) : Prop :=
    scnt (r_st r) = Z.of_nat (length (og (r_h r))) /\ rcnt (r_st r) = Z.of_nat (length (X (r_h r))).
  Fixpoint sumf (f : rk -> Z) (l : list rk) : Z := match l with [] => 0 | r :: t => f r + sumf f t end.

  Lemma length_flat_map_sum (f : rk -> list Z) (g : rk -> Z) l :
    Forall (fun r => g r = Z.of_nat (length (f r))) l -> Z.of_nat (length (flat_map f l)) = sumf g l.
  Proof.
    induction 1 as [|r t Hr _ IH]; [reflexivity|]. cbn [flat_map sumf]. rewrite app_length, Nat2Z.inj_add, IH, Hr. reflexivity.
  Qed.

  Theorem balanced_counters_mean_exactly_once :
    Forall cntok rs -> sumf (fun r => scnt (r_st r)) rs = sumf (fun r => rcnt (r_st r)) rs ->
    owed = [] /\ U = [] /\ in_buffers = [] /\ Permutation originated executed.
  Proof.
    intros HC Hsum. apply counts_equal_means_nothing_pending.
    assert (Eo : Z.of_nat (length originated) = sumf (fun r => scnt (r_st r)) rs).
    { unfold originated. apply length_flat_map_sum. eapply Forall_impl; [|exact HC]. intros r (A1 & _). unfold uO. rewrite !map_length. exact A1. }
    assert (Ee : Z.of_nat (length executed) = sumf (fun r => rcnt (r_st r)) rs).
    { unfold executed. apply length_flat_map_sum. eapply Forall_impl; [|exact HC]. intros r (_ & A2). unfold uX. exact A2. }
    lia.
  Qed.
End Global.
