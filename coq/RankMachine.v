(* RankMachine.v — executable model of one rank of ygm::comm (comm.ipp), MPI
   replaced by an oracle (DESIGN.md §4.1).  No proofs in this file: it is
   extracted to OCaml and run in lock-step against the per-rank MPI logs of the
   real library (ocaml/lockstep.ml); RankInv.v proves properties of it.

   Every C++ function / loop head of comm.ipp is a constructor of [proc]; [run]
   is one structural recursion on fuel.  An MPI call is an [ask]: the call is
   appended to [log] and its response popped from [oracle]; with no response left
   the result is [Blocked] (a prefix of an execution).  Failing ASSERT_RELEASEs
   are [Err]; exhausted fuel is [OutOfFuel] — both are distinct results, never a
   normal-looking state. *)
From Coq Require Import ZArith NArith List Bool Lia.
Import ListNotations.
From Ygm Require Import Router Bcast.
Local Open Scope Z_scope.

(* ---- messages ---------------------------------------------------------- *)
Record msg := {
  uid : Z;
  mdest : Z;        (* final destination; -1 on a broadcast leg *)
  stage : nat;      (* 0 point-to-point; 1,2,3 the broadcast lambdas *)
  hk : nat;         (* which harness lambda: 0 async 1 by-ref 2 functor 3 bcast 4 mcast *)
  len : Z;          (* payload bytes *)
  extra : Z         (* by-ref value / functor state *)
}.

Inductive act :=
| AAsync (d u l : Z) | AAsyncRef (d u : Z) | AFunctor (d u l st : Z)
| ABcast (u l : Z) | AMcast (ds : list Z) (u l : Z)
| ABar | ACfb | ALp | AWu (f : Z) | ASf (f : Z) | AMon | AMoff | ACb (id : Z) | AMut | AColl.

Record cfg := {
  c_n : Z; c_p : Z; c_me : Z;       (* nodes, ranks per node, this rank *)
  c_routing : Z;                    (* 0 NONE 1 NR 2 NLNR *)
  c_cap : Z;                        (* buffer_size *)
  c_nisw : Z; c_freq : Z;
  c_hprog : Z -> list act;          (* handler of message uid *)
  c_cbprog : Z -> list act
}.

Definition hdr_bytes (c : cfg) : Z := if c_routing c =? 0 then 0 else 8.
Definition wire (c : cfg) (m : msg) : Z := hdr_bytes c + 18 + (if Nat.eqb (hk m) 2 then 8 else 0) + len m.
Fixpoint wires (c : cfg) (l : list msg) : Z := match l with [] => 0 | m :: t => wire c m + wires c t end.

(* ---- events ------------------------------------------------------------ *)
Inductive event :=
| EIsend (sync : bool) (dest : Z) (ms : list msg)
| EIrecv
| ETestSend | ETestRecv
| EWaitSR            (* Waitsome(front isend, front irecv) *)
| EWaitIR            (* Waitsome(iallreduce, front irecv) *)
| EIallreduce (rc sc : Z)
| ECfBarrier | EColl
| NO (u : Z) | No (u : Z)                    (* async call begin / end *)
| NX (u : Z) (depth : nat) (masks : nat) | Nx (u : Z)
| NBI (k : Z) | NBO (k : Z)
| NS (tag : nat) (sb pend : Z) (dq sq : nat)   (* tag 0: after a main-context async; 1: after barrier *)
| NCBX (id : Z) | Ncbx (id : Z).

(* responses of the MPI oracle *)
Inductive resp :=
| RTestSend (flag : bool)
| RTestRecv (data : option (list msg))
| RWaitSR (send_done : bool) (data : option (list msg))
| RWaitIR (result : option (Z * Z)) (data : option (list msg))
| RUnit.

(* ghost history of the counters the barrier sums (Barrier.v): a send count increment, a receive count increment
   (a handler finished), a snapshot contributed to a count reduction, the result of a count reduction stored in [cur]
   (set_cur; the sentinel (3,4) at the start of a barrier is recorded too) *)
Inductive gev := GSend | GRecv | GSnap (rc sc : Z) | GRes (v : Z * Z)
  | GEnq (d : Z) (m : msg)        (* a message appended to the send buffer of rank d (enqueue) *)
  | GResp (r : resp)              (* an MPI response consumed (set_oracle: used only by [ask]) *)
  | GExec (u : Z).                (* a handler started (emit (NX u _ _)) *)

(* ---- state --------------------------------------------------------------- *)
Record st := {
  bufs : list (list msg);     (* m_vec_send_buffers, indexed by rank *)
  sbb : Z;                    (* m_send_buffer_bytes *)
  dq : list Z;                (* m_send_dest_queue *)
  sendq : list Z;             (* sizes of posted isends, oldest first *)
  pend : Z;                   (* m_pending_isend_bytes *)
  cbs : list Z;               (* m_pre_barrier_callbacks (ids) *)
  intr : bool;                (* m_enable_interrupts *)
  inprq : bool;               (* m_in_process_receive_queue *)
  rcnt : Z; scnt : Z;
  ictr : Z;                   (* static counter of flush_send_buffer *)
  ret : bool;                 (* return register of process_receive_queue / local_process_incoming *)
  depth : nat;                (* handler nesting (harness counter) *)
  masks : list bool;          (* saved m_enable_interrupts of live interrupt_mask objects *)
  flags : list Z;
  shared : Z;
  nbar : Z;
  inmain : bool;
  cur : Z * Z; prev : Z * Z;  (* barrier(): current_counts / previous_counts *)
  red_done : bool;
  oracle : list resp;
  log : list event;           (* newest first *)
  enq : list (Z * msg);       (* ghost: every (rank, message) ever appended to a send buffer, newest first (RankConserve.v) *)
  hist : list gev             (* ghost: history of the send / receive counters and of the snapshots contributed to count
                                 reductions and of their results, newest first; maintained by set_scnt, set_rcnt (used only to
                                 increment), emit (EIallreduce _ _) and set_cur (RankCount.v, RankBarrier.v, Global.v) *)
}.

Inductive res := Ok (s : st) | Blocked (s : st) | Err (what : nat) (s : st) | OutOfFuel.

Definition bind (r : res) (f : st -> res) : res := match r with Ok s => f s | x => x end.
Notation "r >>= f" := (bind r f) (at level 60, right associativity).

Definition emit (e : event) (s : st) : st :=
  {| bufs := bufs s; sbb := sbb s; dq := dq s; sendq := sendq s; pend := pend s; cbs := cbs s; intr := intr s; inprq := inprq s;
     rcnt := rcnt s; scnt := scnt s; ictr := ictr s; ret := ret s; depth := depth s; masks := masks s; flags := flags s;
     shared := shared s; nbar := nbar s; inmain := inmain s; cur := cur s; prev := prev s; red_done := red_done s;
     oracle := oracle s; log := e :: log s; enq := enq s;
     hist := match e with EIallreduce rc sc => GSnap rc sc :: hist s | NX u _ _ => GExec u :: hist s | _ => hist s end |}.

Definition upd {A} (l : list A) (i : nat) (x : A) : list A :=
  firstn i l ++ match skipn i l with [] => [] | _ :: t => x :: t end.

Definition buf_at (s : st) (d : Z) : list msg := nth (Z.to_nat d) (bufs s) [].

(* field setters (record update spelled out once) *)
Definition set_bufs v s := {| bufs := v; sbb := sbb s; dq := dq s; sendq := sendq s; pend := pend s; cbs := cbs s; intr := intr s; inprq := inprq s; rcnt := rcnt s; scnt := scnt s; ictr := ictr s; ret := ret s; depth := depth s; masks := masks s; flags := flags s; shared := shared s; nbar := nbar s; inmain := inmain s; cur := cur s; prev := prev s; red_done := red_done s; oracle := oracle s; log := log s; enq := enq s; hist := hist s |}.
Definition set_sbb v s := {| bufs := bufs s; sbb := v; dq := dq s; sendq := sendq s; pend := pend s; cbs := cbs s; intr := intr s; inprq := inprq s; rcnt := rcnt s; scnt := scnt s; ictr := ictr s; ret := ret s; depth := depth s; masks := masks s; flags := flags s; shared := shared s; nbar := nbar s; inmain := inmain s; cur := cur s; prev := prev s; red_done := red_done s; oracle := oracle s; log := log s; enq := enq s; hist := hist s |}.
Definition set_dq v s := {| bufs := bufs s; sbb := sbb s; dq := v; sendq := sendq s; pend := pend s; cbs := cbs s; intr := intr s; inprq := inprq s; rcnt := rcnt s; scnt := scnt s; ictr := ictr s; ret := ret s; depth := depth s; masks := masks s; flags := flags s; shared := shared s; nbar := nbar s; inmain := inmain s; cur := cur s; prev := prev s; red_done := red_done s; oracle := oracle s; log := log s; enq := enq s; hist := hist s |}.
Definition set_sendq v s := {| bufs := bufs s; sbb := sbb s; dq := dq s; sendq := v; pend := pend s; cbs := cbs s; intr := intr s; inprq := inprq s; rcnt := rcnt s; scnt := scnt s; ictr := ictr s; ret := ret s; depth := depth s; masks := masks s; flags := flags s; shared := shared s; nbar := nbar s; inmain := inmain s; cur := cur s; prev := prev s; red_done := red_done s; oracle := oracle s; log := log s; enq := enq s; hist := hist s |}.
Definition set_pend v s := {| bufs := bufs s; sbb := sbb s; dq := dq s; sendq := sendq s; pend := v; cbs := cbs s; intr := intr s; inprq := inprq s; rcnt := rcnt s; scnt := scnt s; ictr := ictr s; ret := ret s; depth := depth s; masks := masks s; flags := flags s; shared := shared s; nbar := nbar s; inmain := inmain s; cur := cur s; prev := prev s; red_done := red_done s; oracle := oracle s; log := log s; enq := enq s; hist := hist s |}.
Definition set_cbs v s := {| bufs := bufs s; sbb := sbb s; dq := dq s; sendq := sendq s; pend := pend s; cbs := v; intr := intr s; inprq := inprq s; rcnt := rcnt s; scnt := scnt s; ictr := ictr s; ret := ret s; depth := depth s; masks := masks s; flags := flags s; shared := shared s; nbar := nbar s; inmain := inmain s; cur := cur s; prev := prev s; red_done := red_done s; oracle := oracle s; log := log s; enq := enq s; hist := hist s |}.
Definition set_intr v s := {| bufs := bufs s; sbb := sbb s; dq := dq s; sendq := sendq s; pend := pend s; cbs := cbs s; intr := v; inprq := inprq s; rcnt := rcnt s; scnt := scnt s; ictr := ictr s; ret := ret s; depth := depth s; masks := masks s; flags := flags s; shared := shared s; nbar := nbar s; inmain := inmain s; cur := cur s; prev := prev s; red_done := red_done s; oracle := oracle s; log := log s; enq := enq s; hist := hist s |}.
Definition set_inprq v s := {| bufs := bufs s; sbb := sbb s; dq := dq s; sendq := sendq s; pend := pend s; cbs := cbs s; intr := intr s; inprq := v; rcnt := rcnt s; scnt := scnt s; ictr := ictr s; ret := ret s; depth := depth s; masks := masks s; flags := flags s; shared := shared s; nbar := nbar s; inmain := inmain s; cur := cur s; prev := prev s; red_done := red_done s; oracle := oracle s; log := log s; enq := enq s; hist := hist s |}.
Definition set_rcnt v s := {| bufs := bufs s; sbb := sbb s; dq := dq s; sendq := sendq s; pend := pend s; cbs := cbs s; intr := intr s; inprq := inprq s; rcnt := v; scnt := scnt s; ictr := ictr s; ret := ret s; depth := depth s; masks := masks s; flags := flags s; shared := shared s; nbar := nbar s; inmain := inmain s; cur := cur s; prev := prev s; red_done := red_done s; oracle := oracle s; log := log s; enq := enq s; hist := GRecv :: hist s |}.
Definition set_scnt v s := {| bufs := bufs s; sbb := sbb s; dq := dq s; sendq := sendq s; pend := pend s; cbs := cbs s; intr := intr s; inprq := inprq s; rcnt := rcnt s; scnt := v; ictr := ictr s; ret := ret s; depth := depth s; masks := masks s; flags := flags s; shared := shared s; nbar := nbar s; inmain := inmain s; cur := cur s; prev := prev s; red_done := red_done s; oracle := oracle s; log := log s; enq := enq s; hist := GSend :: hist s |}.
Definition set_ictr v s := {| bufs := bufs s; sbb := sbb s; dq := dq s; sendq := sendq s; pend := pend s; cbs := cbs s; intr := intr s; inprq := inprq s; rcnt := rcnt s; scnt := scnt s; ictr := v; ret := ret s; depth := depth s; masks := masks s; flags := flags s; shared := shared s; nbar := nbar s; inmain := inmain s; cur := cur s; prev := prev s; red_done := red_done s; oracle := oracle s; log := log s; enq := enq s; hist := hist s |}.
Definition set_ret v s := {| bufs := bufs s; sbb := sbb s; dq := dq s; sendq := sendq s; pend := pend s; cbs := cbs s; intr := intr s; inprq := inprq s; rcnt := rcnt s; scnt := scnt s; ictr := ictr s; ret := v; depth := depth s; masks := masks s; flags := flags s; shared := shared s; nbar := nbar s; inmain := inmain s; cur := cur s; prev := prev s; red_done := red_done s; oracle := oracle s; log := log s; enq := enq s; hist := hist s |}.
Definition set_depth v s := {| bufs := bufs s; sbb := sbb s; dq := dq s; sendq := sendq s; pend := pend s; cbs := cbs s; intr := intr s; inprq := inprq s; rcnt := rcnt s; scnt := scnt s; ictr := ictr s; ret := ret s; depth := v; masks := masks s; flags := flags s; shared := shared s; nbar := nbar s; inmain := inmain s; cur := cur s; prev := prev s; red_done := red_done s; oracle := oracle s; log := log s; enq := enq s; hist := hist s |}.
Definition set_masks v s := {| bufs := bufs s; sbb := sbb s; dq := dq s; sendq := sendq s; pend := pend s; cbs := cbs s; intr := intr s; inprq := inprq s; rcnt := rcnt s; scnt := scnt s; ictr := ictr s; ret := ret s; depth := depth s; masks := v; flags := flags s; shared := shared s; nbar := nbar s; inmain := inmain s; cur := cur s; prev := prev s; red_done := red_done s; oracle := oracle s; log := log s; enq := enq s; hist := hist s |}.
Definition set_flags v s := {| bufs := bufs s; sbb := sbb s; dq := dq s; sendq := sendq s; pend := pend s; cbs := cbs s; intr := intr s; inprq := inprq s; rcnt := rcnt s; scnt := scnt s; ictr := ictr s; ret := ret s; depth := depth s; masks := masks s; flags := v; shared := shared s; nbar := nbar s; inmain := inmain s; cur := cur s; prev := prev s; red_done := red_done s; oracle := oracle s; log := log s; enq := enq s; hist := hist s |}.
Definition set_shared v s := {| bufs := bufs s; sbb := sbb s; dq := dq s; sendq := sendq s; pend := pend s; cbs := cbs s; intr := intr s; inprq := inprq s; rcnt := rcnt s; scnt := scnt s; ictr := ictr s; ret := ret s; depth := depth s; masks := masks s; flags := flags s; shared := v; nbar := nbar s; inmain := inmain s; cur := cur s; prev := prev s; red_done := red_done s; oracle := oracle s; log := log s; enq := enq s; hist := hist s |}.
Definition set_nbar v s := {| bufs := bufs s; sbb := sbb s; dq := dq s; sendq := sendq s; pend := pend s; cbs := cbs s; intr := intr s; inprq := inprq s; rcnt := rcnt s; scnt := scnt s; ictr := ictr s; ret := ret s; depth := depth s; masks := masks s; flags := flags s; shared := shared s; nbar := v; inmain := inmain s; cur := cur s; prev := prev s; red_done := red_done s; oracle := oracle s; log := log s; enq := enq s; hist := hist s |}.
Definition set_inmain v s := {| bufs := bufs s; sbb := sbb s; dq := dq s; sendq := sendq s; pend := pend s; cbs := cbs s; intr := intr s; inprq := inprq s; rcnt := rcnt s; scnt := scnt s; ictr := ictr s; ret := ret s; depth := depth s; masks := masks s; flags := flags s; shared := shared s; nbar := nbar s; inmain := v; cur := cur s; prev := prev s; red_done := red_done s; oracle := oracle s; log := log s; enq := enq s; hist := hist s |}.
Definition set_cur v s := {| bufs := bufs s; sbb := sbb s; dq := dq s; sendq := sendq s; pend := pend s; cbs := cbs s; intr := intr s; inprq := inprq s; rcnt := rcnt s; scnt := scnt s; ictr := ictr s; ret := ret s; depth := depth s; masks := masks s; flags := flags s; shared := shared s; nbar := nbar s; inmain := inmain s; cur := v; prev := prev s; red_done := red_done s; oracle := oracle s; log := log s; enq := enq s; hist := GRes v :: hist s |}.
Definition set_prev v s := {| bufs := bufs s; sbb := sbb s; dq := dq s; sendq := sendq s; pend := pend s; cbs := cbs s; intr := intr s; inprq := inprq s; rcnt := rcnt s; scnt := scnt s; ictr := ictr s; ret := ret s; depth := depth s; masks := masks s; flags := flags s; shared := shared s; nbar := nbar s; inmain := inmain s; cur := cur s; prev := v; red_done := red_done s; oracle := oracle s; log := log s; enq := enq s; hist := hist s |}.
Definition set_red_done v s := {| bufs := bufs s; sbb := sbb s; dq := dq s; sendq := sendq s; pend := pend s; cbs := cbs s; intr := intr s; inprq := inprq s; rcnt := rcnt s; scnt := scnt s; ictr := ictr s; ret := ret s; depth := depth s; masks := masks s; flags := flags s; shared := shared s; nbar := nbar s; inmain := inmain s; cur := cur s; prev := prev s; red_done := v; oracle := oracle s; log := log s; enq := enq s; hist := hist s |}.
Definition set_oracle v s := {| bufs := bufs s; sbb := sbb s; dq := dq s; sendq := sendq s; pend := pend s; cbs := cbs s; intr := intr s; inprq := inprq s; rcnt := rcnt s; scnt := scnt s; ictr := ictr s; ret := ret s; depth := depth s; masks := masks s; flags := flags s; shared := shared s; nbar := nbar s; inmain := inmain s; cur := cur s; prev := prev s; red_done := red_done s; oracle := v; log := log s; enq := enq s; hist := GResp (hd RUnit (oracle s)) :: hist s |}.
Definition set_enq v s := {| bufs := bufs s; sbb := sbb s; dq := dq s; sendq := sendq s; pend := pend s; cbs := cbs s; intr := intr s; inprq := inprq s; rcnt := rcnt s; scnt := scnt s; ictr := ictr s; ret := ret s; depth := depth s; masks := masks s; flags := flags s; shared := shared s; nbar := nbar s; inmain := inmain s; cur := cur s; prev := prev s; red_done := red_done s; oracle := oracle s; log := log s; enq := v; hist := hist s |}.
Definition set_hist v s := {| bufs := bufs s; sbb := sbb s; dq := dq s; sendq := sendq s; pend := pend s; cbs := cbs s; intr := intr s; inprq := inprq s; rcnt := rcnt s; scnt := scnt s; ictr := ictr s; ret := ret s; depth := depth s; masks := masks s; flags := flags s; shared := shared s; nbar := nbar s; inmain := inmain s; cur := cur s; prev := prev s; red_done := red_done s; oracle := oracle s; log := log s; enq := enq s; hist := v |}.

(* an MPI call: log it, pop the response *)
Definition ask (e : event) (s : st) (k : resp -> st -> res) : res :=
  let s1 := emit e s in
  match oracle s1 with
  | [] => Blocked s1
  | r :: rest => k r (set_oracle rest s1)
  end.

Definition next_hop (c : cfg) (dest : Z) : Z :=
  if c_routing c =? 0 then dest else next_hop_spec (c_routing c) (c_n c) (c_p c) (c_me c) dest.

Definition locals_of (c : cfg) : list Z := local_ranks_of (c_p c) (c_me c / c_p c).

(* append message m to the buffer of rank d (common tail of async / queue_message_bytes / forwarding) *)
Definition enqueue (c : cfg) (d : Z) (m : msg) (s : st) : st :=
  let s1 := if match buf_at s d with [] => true | _ => false end then set_dq (dq s ++ [d]) s else s in
  let s2 := set_sbb (sbb s1 + wire c m) s1 in
  set_hist (GEnq d m :: hist s) (set_enq ((d, m) :: enq s) (set_bufs (upd (bufs s2) (Z.to_nat d) (buf_at s2 d ++ [m])) s2)).

Inductive proc :=
| PActs (l : list act)
| PAsync (m : msg)
| PQueueBytes (d : Z) (m : msg)
| PBcast (m : msg)
| PMcast (ds : list Z) (m : msg)
| PCheckHalt
| PFlushToCap
| PFlushBuf (d : Z)
| PPrq
| PLocalIncoming
| PHandle (ms : list msg)
| PHandleLoop (ms : list msg)
| PExec (m : msg)
| PQueueMany (ds : list Z) (m : msg)
| PLocalProgress
| PWaitUntil (f : Z)
| PFlushAll
| PFlushAllCbs | PFlushAllDq | PFlushAllSq
| PBarrier | PBarrierLoop
| PReduceCounts | PReduceLoop.

Definition has_flag (s : st) (f : Z) : bool := existsb (Z.eqb f) (flags s).

Definition err (a : nat) (s : st) : res := Err a s.

Fixpoint run (fuel : nat) (c : cfg) (p : proc) (s : st) : res :=
  match fuel with
  | O => OutOfFuel
  | S fu =>
    let go := run fu c in
    match p with
    (* ---------------- user level ---------------- *)
    | PActs [] => Ok s
    | PActs (a :: rest) =>
        (match a with
         | AAsync d u l =>
             go (PAsync {| uid := u; mdest := d; stage := 0; hk := 0; len := l; extra := 0 |}) (emit (NO u) s) >>= fun s1 =>
             let s2 := emit (No u) s1 in
             Ok (if inmain s2 then emit (NS 0 (sbb s2) (pend s2) (length (dq s2)) (length (sendq s2))) s2 else s2)
         | AAsyncRef d u =>
             (* the by-reference argument is read when the message is packed, after check_if_production_halt_required *)
             go PCheckHalt (emit (NO u) s) >>= fun s1 =>
             go (PAsync {| uid := u; mdest := d; stage := 0; hk := 1; len := 0; extra := shared s1 |}) s1 >>= fun s2 => Ok (emit (No u) s2)
         | AFunctor d u l stt =>
             go (PAsync {| uid := u; mdest := d; stage := 0; hk := 2; len := l; extra := stt |}) (emit (NO u) s) >>= fun s1 => Ok (emit (No u) s1)
         | ABcast u l =>
             go (PBcast {| uid := u; mdest := -1; stage := 1; hk := 3; len := l; extra := 0 |}) (emit (NO u) s) >>= fun s1 => Ok (emit (No u) s1)
         | AMcast ds u l =>
             go (PMcast ds {| uid := u; mdest := 0; stage := 0; hk := 4; len := l; extra := 0 |}) (emit (NO u) s) >>= fun s1 => Ok (emit (No u) s1)
         | ABar =>
             let k := nbar s + 1 in
             go PBarrier (emit (NBI k) (set_nbar k s)) >>= fun s1 =>
             let s2 := emit (NBO k) s1 in
             Ok (emit (NS 1 (sbb s2) (pend s2) (length (dq s2)) (length (sendq s2))) s2)
         | ACfb => ask ECfBarrier s (fun r s1 => match r with RUnit => Ok s1 | _ => err 9 s1 end)
         | ALp => go PLocalProgress s
         | AWu f => go (PWaitUntil f) s
         | ASf f => Ok (set_flags (f :: flags s) s)
         | AMon => Ok (set_intr false (set_masks (intr s :: masks s) s))
         | AMoff => match masks s with [] => Ok s | b :: t => Ok (set_intr b (set_masks t s)) end
         | ACb id => Ok (set_cbs (cbs s ++ [id]) s)
         | AMut => Ok (set_shared (shared s + 1) s)
         | AColl => ask EColl s (fun r s1 => match r with RUnit => Ok s1 | _ => err 9 s1 end)
         end) >>= fun s' => go (PActs rest) s'

    (* ---------------- comm::async ---------------- *)
    | PAsync m =>
        (if hk m =? 1 then Ok s else go PCheckHalt s)%nat >>= fun s1 =>
        let s2 := set_scnt (scnt s1 + 1) s1 in
        let s3 := enqueue c (next_hop c (mdest m)) m s2 in
        go PFlushToCap s3
    | PMcast [] m => Ok s
    | PMcast (d :: ds) m =>
        go (PAsync {| uid := uid m; mdest := d; stage := 0; hk := hk m; len := len m; extra := extra m |}) s >>= go (PMcast ds m)
    | PQueueBytes d m => Ok (enqueue c d m (set_scnt (scnt s + 1) s))
    | PQueueMany [] m => Ok s
    | PQueueMany (d :: ds) m => go (PQueueBytes d m) s >>= go (PQueueMany ds m)
    | PBcast m =>
        go PCheckHalt s >>= fun s1 =>
        go (PQueueMany (locals_of c) m) s1 >>= fun s2 =>
        go PFlushToCap s2

    (* ---------------- buffers ---------------- *)
    | PCheckHalt =>
        if intr s && negb (inprq s) && (c_cap c <? pend s) then go PPrq s >>= go PCheckHalt else Ok s
    | PFlushToCap =>
        if c_cap c <? sbb s then
          match dq s with
          | [] => err 1 s            (* front() of an empty deque *)
          | d :: t => go (PFlushBuf d) (set_dq t s) >>= go PFlushToCap
          end
        else Ok s
    | PFlushBuf d =>
        match buf_at s d with
        | [] => Ok s
        | ms =>
            let sz := wires c ms in
            let sync := (0 <? c_freq c) && (ictr s mod c_freq c =? 0) in
            let s0 := if 0 <? c_freq c then set_ictr (ictr s + 1) s else s in
            let s1 := emit (EIsend sync d ms) s0 in
            let s2 := set_bufs (upd (bufs s1) (Z.to_nat d) []) s1 in
            let s3 := set_sendq (sendq s2 ++ [sz]) (set_sbb (sbb s2 - sz) (set_pend (pend s2 + sz) s2)) in
            if inprq s3 then Ok s3 else go PPrq s3
        end

    (* ---------------- receive side ---------------- *)
    | PPrq =>
        if inprq s then err 2 s else
        let s0 := set_ret false (set_inprq true s) in
        if negb (intr s0) then Ok (set_inprq false s0) else
        (if c_nisw c <? Z.of_nat (length (sendq s0)) then
           ask EWaitSR s0 (fun r s1 =>
             match r with
             | RWaitSR sd data =>
                 let s2 := if sd then match sendq s1 with [] => s1 | z :: t => set_sendq t (set_pend (pend s1 - z) s1) end else s1 in
                 match data with
                 | Some ms => go (PHandle ms) (set_ret true s2) >>= fun s3 => Ok (set_ret true s3)
                 | None => Ok s2
                 end
             | _ => err 9 s1
             end)
         else
           match sendq s0 with
           | [] => Ok s0
           | z :: t =>
               ask ETestSend s0 (fun r s1 =>
                 match r with
                 | RTestSend true => Ok (set_sendq t (set_pend (pend s1 - z) s1))
                 | RTestSend false => Ok s1
                 | _ => err 9 s1
                 end)
           end) >>= fun s4 =>
        let r0 := ret s4 in
        go PLocalIncoming (set_ret false s4) >>= fun s5 =>
        Ok (set_inprq false (set_ret (r0 || ret s5) s5))
    | PLocalIncoming =>
        ask ETestRecv s (fun r s1 =>
          match r with
          | RTestRecv (Some ms) => go (PHandle ms) s1 >>= fun s2 => go PLocalIncoming s2 >>= fun s3 => Ok (set_ret true s3)
          | RTestRecv None => Ok s1
          | _ => err 9 s1
          end)
    | PHandle ms =>
        let saved := inprq s in
        go (PHandleLoop ms) (set_inprq true s) >>= fun s1 =>
        let s2 := emit EIrecv (set_inprq saved s1) in
        go PFlushToCap s2
    | PHandleLoop [] => Ok s
    | PHandleLoop (m :: rest) =>
        (if (c_routing c =? 0) || (mdest m =? c_me c) || (mdest m =? -1) then
           go (PExec m) s >>= fun s1 => Ok (set_rcnt (rcnt s1 + 1) s1)
         else
           go PFlushToCap (enqueue c (next_hop c (mdest m)) m s)) >>= go (PHandleLoop rest)
    | PExec m =>
        let s0 := emit (NX (uid m) (depth s) (length (masks s))) s in
        let s1 := set_inmain false (set_depth (S (depth s0)) s0) in
        (match stage m with
         | 1%nat => go (PQueueMany (remote_partners_spec (c_n c) (c_p c) (c_me c))
                          {| uid := uid m; mdest := -1; stage := 2; hk := hk m; len := len m; extra := extra m |}) s1
         | 2%nat => go (PQueueMany (filter (fun d => negb (d =? c_me c)) (locals_of c))
                          {| uid := uid m; mdest := -1; stage := 3; hk := hk m; len := len m; extra := extra m |}) s1
         | _ => Ok s1
         end) >>= fun s2 =>
        go (PActs (c_hprog c (uid m))) s2 >>= fun s3 =>
        Ok (emit (Nx (uid m)) (set_inmain (inmain s) (set_depth (depth s) s3)))

    (* ---------------- progress ---------------- *)
    | PLocalProgress =>
        (if inprq s then Ok s else go PPrq s) >>= fun s1 =>
        match dq s1 with
        | [] => Ok s1
        | d :: t => go (PFlushBuf d) (set_dq t s1)
        end
    | PWaitUntil f => if has_flag s f then Ok s else go PLocalProgress s >>= go (PWaitUntil f)
    | PFlushAll =>
        go PPrq s >>= fun s1 =>
        go PFlushAllCbs s1 >>= fun s2 =>
        go PFlushAllDq s2 >>= fun s3 =>
        go PFlushAllSq s3 >>= fun s4 =>
        if ret s4 then go PFlushAll s4 else Ok s4
    | PFlushAllCbs =>       (* ret accumulates did_something *)
        match cbs s with
        | [] => Ok s
        | id :: t =>
            let s0 := emit (NCBX id) (set_ret true (set_cbs t s)) in
            let im := inmain s0 in
            go (PActs (c_cbprog c id)) (set_inmain false s0) >>= fun s1 =>
            go PFlushAllCbs (set_ret true (emit (Ncbx id) (set_inmain im s1)))
        end
    | PFlushAllDq =>
        match dq s with
        | [] => Ok s
        | d :: t =>
            go (PFlushBuf d) (set_dq t s) >>= fun s1 =>
            go PPrq s1 >>= fun s2 => go PFlushAllDq (set_ret true s2)
        end
    | PFlushAllSq =>
        match sendq s with
        | [] => Ok s
        | _ => let r0 := ret s in go PPrq s >>= fun s1 => go PFlushAllSq (set_ret (r0 || ret s1) s1)
        end

    (* ---------------- barrier ---------------- *)
    | PBarrier =>
        go PFlushAll s >>= fun s1 => go PBarrierLoop (set_prev (1, 2) (set_cur (3, 4) s1))
    | PBarrierLoop =>
        let '(c1, c2) := cur s in
        if (c1 =? c2) && (fst (prev s) =? c1) && (snd (prev s) =? c2) then
          (match cbs s, dq s with [], [] => Ok s | _, _ => err 3 s end)
        else
          go PReduceCounts (set_prev (cur s) s) >>= fun s1 =>
          (if fst (cur s1) =? snd (cur s1) then Ok s1 else go PFlushAll s1) >>= go PBarrierLoop
    | PReduceCounts =>
        if negb ((pend s =? 0) && (sbb s =? 0)) then err 4 s else
        go PReduceLoop (emit (EIallreduce (rcnt s) (scnt s)) (set_red_done false s))
    | PReduceLoop =>
        if red_done s then Ok s else
        ask EWaitIR s (fun r s1 =>
          match r with
          | RWaitIR result data =>
              let s2 := match result with Some v => set_red_done true (set_cur v s1) | None => s1 end in
              (match data with
               | Some ms => go (PHandle ms) s2 >>= go PFlushAll
               | None => Ok s2
               end) >>= go PReduceLoop
          | _ => err 9 s1
          end)
    end
  end.

Definition init_st (nranks : nat) (orc : list resp) : st :=
  {| bufs := repeat [] nranks; sbb := 0; dq := []; sendq := []; pend := 0; cbs := []; intr := true; inprq := false;
     rcnt := 0; scnt := 0; ictr := 0; ret := false; depth := 0; masks := []; flags := []; shared := 1000; nbar := 0;
     inmain := true; cur := (3, 4); prev := (1, 2); red_done := false; oracle := orc; log := []; enq := []; hist := [] |}.

(* the whole life of the communicator after construction: the main program, then ~comm()'s barrier *)
Definition run_rank (fuel : nat) (c : cfg) (nranks : nat) (main : list act) (orc : list resp) : res :=
  run fuel c (PActs main) (init_st nranks orc) >>= fun s => run fuel c PBarrier s.

(* ---- legality of programs (the hypotheses of RankSafe.v; checked on every replayed scenario) ---- *)
(* acts a handler or a pre-barrier callback may perform *)
Definition legal_h (a : act) : bool :=
  match a with
  | AAsync _ _ _ | AAsyncRef _ _ | AFunctor _ _ _ _ | ABcast _ _ | AMcast _ _ _ | ALp | ASf _ | ACb _ | AMut => true
  | _ => false
  end.

(* main programs: masks are well bracketed; no barrier while a mask is held.
   Returns the number of masks alive at the end. *)
Fixpoint legal_main (k : nat) (l : list act) : option nat :=
  match l with
  | [] => Some k
  | a :: r =>
      match a with
      | AMon => legal_main (S k) r
      | AMoff => match k with O => None | S k' => legal_main k' r end
      | ABar => match k with O => legal_main k r | _ => None end
      | _ => legal_main k r
      end
  end.

(* destinations of a program are ranks of the communicator (hypotheses of RankNoErr.v; checked on every replayed scenario) *)
Definition rngb (nr : nat) (d : Z) : bool := (0 <=? d) && (d <? Z.of_nat nr).
Definition dests_ok (nr : nat) (a : act) : bool :=
  match a with
  | AAsync d _ _ | AAsyncRef d _ | AFunctor d _ _ _ => rngb nr d
  | AMcast ds _ _ => forallb (rngb nr) ds
  | _ => true
  end.
Definition hact_ok (nr : nat) (a : act) : bool := legal_h a && dests_ok nr a.
Definition msg_okb (nr : nat) (m : msg) : bool := (mdest m =? -1) || rngb nr (mdest m).
Definition resp_okb (nr : nat) (r : resp) : bool :=
  match r with
  | RTestRecv (Some ms) | RWaitSR _ (Some ms) | RWaitIR _ (Some ms) => forallb (msg_okb nr) ms
  | _ => true
  end.
