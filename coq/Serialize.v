(* Serialize.v — C20: serialize followed by deserialize reproduces a container.
   serialize(f): barrier, then every rank writes (its local contents, the default
   value / round-robin cursor, the communicator size) through an archive;
   deserialize(f): barrier, then every rank replaces its local state by what it
   reads.  The archive (cereal's JSON archive) is a section variable with its
   round-trip law as the section hypothesis — it is modelled, not verified; the
   law is validated by the differential run on every generated content (and is
   known to fail for strings with an embedded NUL, which the generator avoids). *)
From Coq Require Import List Lia.
Import ListNotations.

Section Serialize.
  Variable L : Type.          (* local contents of one rank *)
  Variable D : Type.          (* default value / cursor *)
  Variable image : Type.
  Variable enc : L * D * nat -> image.
  Variable dec : image -> option (L * D * nat).
  Hypothesis dec_enc : forall x, dec (enc x) = Some x.

  Definition rank_state := (L * D)%type.

  Definition serialize (st : list rank_state) : list image :=
    map (fun ld => enc (fst ld, snd ld, length st)) st.

  (* whatever the target held before is replaced *)
  Fixpoint deserialize (imgs : list image) (old : list rank_state) : option (list rank_state) :=
    match imgs, old with
    | [], [] => Some []
    | i :: is, _ :: os =>
        match dec i, deserialize is os with
        | Some (l, d, _), Some rest => Some ((l, d) :: rest)
        | _, _ => None
        end
    | _, _ => None
    end.

  Theorem deserialize_serialize_id (st old : list rank_state) :
    length old = length st -> deserialize (serialize st) old = Some st.
  Proof.
    unfold serialize. generalize (length st) at 2 as n. intros n. revert old.
    induction st as [|(l, d) st IH]; intros old H; destruct old as [|o old]; cbn in *; try discriminate; [reflexivity|].
    rewrite dec_enc. rewrite IH by lia. reflexivity.
  Qed.

  (* the size recorded in every image is the communicator size it was written with *)
  Theorem image_records_size (st : list rank_state) i :
    In i (serialize st) -> exists l d, dec i = Some (l, d, length st).
  Proof.
    unfold serialize. rewrite in_map_iff. intros ((l, d) & <- & _). exists l, d. apply dec_enc.
  Qed.
End Serialize.
