(* Properties_C06.v — C06: arguments and functor state arrive bit-exact; packed messages never overlap. *)
From Coq Require Import ZArith List Bool Lia.
Import ListNotations.
From Ygm Require Import Wire.
Local Open Scope Z_scope.

(* every well-shaped value (arithmetic types of every width, strings, sequences, tuples/pairs/user types,
   nested to any depth, any size below 2^64): decoding what was encoded returns the value and consumes
   exactly its own bytes, whatever follows in the buffer *)
Theorem C06_decode_encode_prefix : forall v s rest, has_shape v s -> decode s (encode s v ++ rest) = Some (v, rest).
Proof. exact decode_encode_prefix. Qed.
Print Assumptions C06_decode_encode_prefix.

(* the receive loop over a buffer of packed messages yields, message by message, exactly that message's
   functor bytes and arguments (if it is for this rank or a broadcast leg) or exactly its body (to forward) *)
Theorem C06_parse_buffer_concat : forall routed me T, 0 <= me < 2 ^ 31 -> forall ms fuel,
  Forall (wf_msg T) ms -> (length ms < fuel)%nat ->
  parse_buffer fuel routed me T (concat (map (pack routed) ms)) = Some (map (classify routed me) ms).
Proof. exact parse_buffer_concat. Qed.
Print Assumptions C06_parse_buffer_concat.

(* re-buffering at an intermediate hop re-creates the packed message *)
Theorem C06_forward_preserves : forall m, w_dest m <> -1 ->
  le_bytes 4 (Z.of_nat (length (body m))) ++ le_bytes 4 ((w_dest m + 2 ^ 32) mod 2 ^ 32) ++ body m = pack true m.
Proof. exact forward_preserves. Qed.
Print Assumptions C06_forward_preserves.


(* JSON values (cereal_boost_json.hpp): decoding what was encoded returns the value and consumes exactly its bytes,
   whatever follows, for every value within the format's 64-bit limits and at every nesting depth (fuel >= depth) *)
From Ygm Require Import JsonWire.
Theorem C06_json_decode_encode_prefix : forall j, jwf j -> forall f rest, (jdepth j <= f)%nat ->
  decode_json f (encode_json j ++ rest) = Some (j, rest).
Proof. exact json_decode_encode_prefix. Qed.
Print Assumptions C06_json_decode_encode_prefix.
