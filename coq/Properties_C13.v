(* Properties_C13.v — C13 (index arithmetic part): an index is addressed on its
   owner at a valid local position and maps back to itself.  array_local_index /
   array_global_index / array_owner are generated from array.ipp. *)
From Coq Require Import ZArith List Bool Lia.
Import ListNotations.
From Ygm Require Import Gen.CArith Gen.Gen_array Partition ContainerModel.
Local Open Scope Z_scope.

Theorem C13_index_roundtrip : forall len R i,
  0 <= len < 4611686018427387904 -> 0 < R < 2147483648 -> 0 <= i < len ->
  let r := blk_owner len R i in
  exists j, array_local_index (arr_view len R r) (Some i) = Some j /\
            0 <= j < blk_size len R r /\
            array_global_index (arr_view len R r) (Some j) = Some i.
Proof. exact Gen_array_index_roundtrip. Qed.
Print Assumptions C13_index_roundtrip.

Theorem C13_owner_total : forall len R r i,
  wf_arr len R r -> 0 <= i < len ->
  array_owner (arr_view len R r) (Some i) = Some (blk_owner len R i).
Proof. exact Gen_array_owner_correct. Qed.
Print Assumptions C13_owner_total.

Theorem C13_local_length : forall v0 len R r,
  wf_arr len R r -> m_comm v0 = {| comm_size := R; comm_rank := r |} ->
  array_resize v0 (Some len)
  = Some (len, blk_small len R, blk_large len R, blk_size len R r, blk_start len R r).
Proof. exact Gen_array_resize_correct. Qed.
Print Assumptions C13_local_length.

(* the array is an owner-partitioned container over indices: any execution order equals the sequential
   application on one global vector, and an update changes the addressed element only *)
Theorem C13_array_refines_vector : forall (owner : Z -> nat) (dflt : Z) (ops : list (Z * cop)) (L : lstate Z), owned Z owner L ->
  (forall i, abs Z owner (fold_left (fun L ko => lstep Z Z.eq_dec owner dflt ko L) ops L) i
             = fold_left (fun g ko => gstep Z Z.eq_dec dflt ko g) ops (abs Z owner L) i)
  /\ owned Z owner (fold_left (fun L ko => lstep Z Z.eq_dec owner dflt ko L) ops L).
Proof. exact (refines_sequential Z Z.eq_dec). Qed.
Print Assumptions C13_array_refines_vector.

Theorem C13_update_hits_only_the_addressed_element : forall dflt ops (g : gstate Z) i,
  fold_left (fun g ko => gstep Z Z.eq_dec dflt ko g) ops g i
  = fst (crun dflt (map snd (filter (fun ko => if Z.eq_dec (fst ko) i then true else false) ops)) (g i)).
Proof. exact (per_key_projection Z Z.eq_dec). Qed.
Print Assumptions C13_update_hits_only_the_addressed_element.
