(* MultiOutput.v — C19: multi_output writes every line exactly once to the file of its subpath.
   One owner rank per subpath (C10) executes the writes of that subpath one at a time (C01, C08);
   each write appends line + '\n' to the file's buffer, which is flushed to the file when it grows
   beyond buffer_length and at destruction (after the barrier). *)
From Coq Require Import ZArith List Bool Lia.
Import ListNotations.
Local Open Scope Z_scope.

Record fstate := { disk : list Z; buf : list Z }.

Definition open_file (append : bool) (previous : list Z) : fstate :=
  {| disk := if append then previous else []; buf := [] |}.

Definition buffer_output (buflen : Z) (s : list Z) (f : fstate) : fstate :=
  let b := buf f ++ s ++ [10] in
  if buflen <? Z.of_nat (length b) then {| disk := disk f ++ b; buf := [] |} else {| disk := disk f; buf := b |}.

Definition close_file (f : fstate) : list Z := disk f ++ buf f.

Lemma buffer_output_inv buflen s f : close_file (buffer_output buflen s f) = close_file f ++ s ++ [10].
Proof.
  unfold buffer_output, close_file. destruct (buflen <? _); cbn [disk buf]; rewrite <- ?app_assoc, ?app_nil_r; reflexivity.
Qed.

(* for every buffer length (0 upward), line size and number of writes: the file holds the previous content (append)
   or nothing (truncate), followed by exactly the written lines, each once, in the order they executed *)
Theorem file_content_is_lines buflen append previous writes :
  close_file (fold_left (fun f s => buffer_output buflen s f) writes (open_file append previous))
  = (if append then previous else []) ++ concat (map (fun s => s ++ [10]) writes).
Proof.
  assert (H : forall ws f, close_file (fold_left (fun f s => buffer_output buflen s f) ws f) = close_file f ++ concat (map (fun s => s ++ [10]) ws)).
  { induction ws as [|w ws IH]; intros f; cbn [fold_left map concat]; [now rewrite app_nil_r|].
    rewrite IH, buffer_output_inv. now rewrite <- !app_assoc. }
  rewrite H. unfold close_file, open_file. cbn [disk buf]. now rewrite app_nil_r.
Qed.

(* nothing is ever on disk that was not written: the disk is a prefix of the final content at every moment *)
Theorem disk_is_prefix buflen s f : exists rest, disk (buffer_output buflen s f) = disk f ++ rest.
Proof.
  unfold buffer_output. destruct (buflen <? _); cbn [disk]; [eexists; reflexivity | exists []; now rewrite app_nil_r].
Qed.

(* daily_output: the subpath is year/month/day of the timestamp's UTC date; gmtime is a parameter *)
Section Daily.
  Variable utc_date : Z -> Z * Z * Z.
  Variable show : Z -> list Z.       (* std::to_string *)
  Definition daily_subpath (ts : Z) : list Z :=
    let '(y, m, d) := utc_date ts in show y ++ [47] ++ show m ++ [47] ++ show d.
  Theorem daily_same_day_same_file t1 t2 : utc_date t1 = utc_date t2 -> daily_subpath t1 = daily_subpath t2.
  Proof. unfold daily_subpath. now intros ->. Qed.
End Daily.

Example buffering_example :
  close_file (fold_left (fun f s => buffer_output 3 s f) [[97]; [98; 99; 100]; []] (open_file true [120; 10]))
  = [120; 10; 97; 10; 98; 99; 100; 10; 10].
Proof. reflexivity. Qed.
