(* Extract.v — extraction of the executable models to OCaml for the correspondence
   checks.  Only the directives of ExtrOcamlBasic are used (bool, option, unit, list,
   prod, sumbool, sumor, andb, orb); nat, positive, N and Z stay Coq's datatypes. *)
From Coq Require Import ExtrOcamlBasic.
From Ygm Require Import RankMachine.
Extraction Language OCaml.
Set Extraction Optimize.
Extraction "../ocaml/gen/rankmachine.ml" run_rank init_st run wire wires legal_h legal_main dests_ok hact_ok resp_okb.
