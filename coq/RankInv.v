(* RankInv.v — properties of the rank machine (RankMachine.v), for every
   configuration, handler table, oracle (= every behaviour of MPI) and fuel. *)
From Coq Require Import ZArith List Bool Lia.
Import ListNotations.
From Ygm Require Import RankMachine.
Local Open Scope Z_scope.

(* a result that is a (possibly partial) execution, as opposed to an assertion failure or no fuel *)
Definition reached (r : res) (s' : st) : Prop := r = Ok s' \/ r = Blocked s'.

(* ---------------------------------------------------------------------- *)
(* C07: flush_to_capacity leaves at most the capacity unsent               *)

Lemma flush_to_cap_post c fuel : forall s s', run fuel c PFlushToCap s = Ok s' -> sbb s' <= c_cap c.
Proof.
  induction fuel as [|fuel IH]; intros s s' H; [discriminate|].
  cbn [run] in H.
  destruct (Z.ltb_spec (c_cap c) (sbb s)) as [Hgt|Hle].
  - destruct (dq s) as [|d t]; [discriminate|].
    unfold bind in H. destruct (run fuel c (PFlushBuf d) (set_dq t s)) as [s1| | |]; try discriminate.
    eapply IH; exact H.
  - injection H as <-. exact Hle.
Qed.

(* a main-context async ends with flush_to_capacity: unsent bytes <= capacity afterwards *)
Theorem async_unsent_le_cap c fuel m s s' :
  run fuel c (PAsync m) s = Ok s' -> inprq s' = false -> sbb s' <= c_cap c.
Proof.
  destruct fuel as [|fuel]; [discriminate|]. cbn [run]. intros H Hq.
  unfold bind in H.
  destruct ((if (hk m =? 1)%nat then Ok s else run fuel c PCheckHalt s)) as [s1| | |] eqn:E1; try discriminate.
  eapply flush_to_cap_post; exact H.
Qed.

(* since the repair of the handler-side flush (D13) the same holds for an async issued by a handler: comm::async ends with
   flush_to_capacity in every context, so whatever a handler sends, at most the capacity is left unsent when its async
   returns (before, a handler's replies accumulated without bound and left as one physical send) *)
Theorem async_unsent_le_cap_any_context c fuel m s s' :
  run fuel c (PAsync m) s = Ok s' -> sbb s' <= c_cap c.
Proof.
  destruct fuel as [|fuel]; [discriminate|]. cbn [run]. intros H.
  unfold bind in H.
  destruct ((if (hk m =? 1)%nat then Ok s else run fuel c PCheckHalt s)) as [s1| | |] eqn:E1; try discriminate.
  eapply flush_to_cap_post; exact H.
Qed.
Theorem bcast_unsent_le_cap_any_context c fuel m s s' :
  run fuel c (PBcast m) s = Ok s' -> sbb s' <= c_cap c.
Proof.
  destruct fuel as [|fuel]; [discriminate|]. cbn [run]. intros H. unfold bind in H.
  destruct (run fuel c PCheckHalt s) as [s1| | |]; try discriminate.
  destruct (run fuel c (PQueueMany (locals_of c) m) s1) as [s2| | |]; try discriminate.
  eapply flush_to_cap_post; exact H.
Qed.

(* the same for async_bcast *)
Theorem bcast_unsent_le_cap c fuel m s s' :
  run fuel c (PBcast m) s = Ok s' -> inprq s' = false -> sbb s' <= c_cap c.
Proof.
  destruct fuel as [|fuel]; [discriminate|]. cbn [run]. intros H Hq. unfold bind in H.
  destruct (run fuel c PCheckHalt s) as [s1| | |]; try discriminate.
  destruct (run fuel c (PQueueMany (locals_of c) m) s1) as [s2| | |]; try discriminate.
  eapply flush_to_cap_post; exact H.
Qed.

(* unfolding equations (one step of [run]) *)
Lemma run_PAsync fu c m s :
  run (S fu) c (PAsync m) s =
  ((if (hk m =? 1)%nat then Ok s else run fu c PCheckHalt s) >>= fun s1 =>
   let s2 := set_scnt (scnt s1 + 1) s1 in
   let s3 := enqueue c (next_hop c (mdest m)) m s2 in
   run fu c PFlushToCap s3).
Proof. reflexivity. Qed.
Lemma run_PCheckHalt fu c s :
  run (S fu) c PCheckHalt s =
  if intr s && negb (inprq s) && (c_cap c <? pend s) then run fu c PPrq s >>= run fu c PCheckHalt else Ok s.
Proof. reflexivity. Qed.
Lemma run_PFlushToCap fu c s :
  run (S fu) c PFlushToCap s =
  if c_cap c <? sbb s then
    match dq s with [] => Err 1 s | d :: t => run fu c (PFlushBuf d) (set_dq t s) >>= run fu c PFlushToCap end
  else Ok s.
Proof. reflexivity. Qed.

(* enqueue touches only the buffer, the destination queue and the byte count *)
Lemma enqueue_fields c d m s :
  let s' := enqueue c d m s in
  inprq s' = inprq s /\ sbb s' = sbb s + wire c m /\ log s' = log s /\ oracle s' = oracle s /\
  pend s' = pend s /\ sendq s' = sendq s /\ scnt s' = scnt s /\ rcnt s' = rcnt s /\ intr s' = intr s /\
  depth s' = depth s /\ masks s' = masks s.
Proof. unfold enqueue. destruct (buf_at s d); cbn; repeat split; reflexivity. Qed.

(* C07: below the capacity nothing goes on the wire.  An async from the main program whose message
   still fits (and with no back-pressure pending) performs no MPI call at all: it only appends to
   its buffer. *)
Theorem async_below_capacity_is_silent c fuel m s :
  (3 <= fuel)%nat -> inprq s = false -> pend s <= c_cap c ->
  sbb s + wire c m <= c_cap c ->
  exists s', run fuel c (PAsync m) s = Ok s' /\ log s' = log s /\ oracle s' = oracle s /\
             sbb s' = sbb s + wire c m /\ pend s' = pend s /\ sendq s' = sendq s /\ scnt s' = scnt s + 1.
Proof.
  intros Hf Hq Hp Hs.
  destruct fuel as [|[|[|fuel]]]; try lia.
  assert (Hhalt : run (S (S fuel)) c PCheckHalt s = Ok s).
  { rewrite run_PCheckHalt. rewrite Hq. destruct (intr s); cbn [andb negb]; [|reflexivity].
    destruct (Z.ltb_spec (c_cap c) (pend s)); [lia|reflexivity]. }
  rewrite run_PAsync.
  assert (Hpre : (if (hk m =? 1)%nat then Ok s else run (S (S fuel)) c PCheckHalt s) = Ok s)
    by (destruct (hk m =? 1)%nat; [reflexivity | exact Hhalt]).
  rewrite Hpre. cbn [bind]. cbv zeta.
  set (s2 := set_scnt (scnt s + 1) s).
  destruct (enqueue_fields c (next_hop c (mdest m)) m s2) as (E1 & E2 & E3 & E4 & E5 & E6 & E7 & _).
  set (s3 := enqueue c (next_hop c (mdest m)) m s2) in *.
  unfold s2 in E1, E2, E3, E4, E5, E6, E7.
  cbn [set_scnt inprq sbb log oracle pend sendq scnt] in E1, E2, E3, E4, E5, E6, E7.
  rewrite run_PFlushToCap. rewrite E2.
  destruct (Z.ltb_spec (c_cap c) (sbb s + wire c m)); [lia|].
  exists s3. repeat split; assumption.
Qed.

(* ---------------------------------------------------------------------- *)
(* C08 / C03: the re-entrancy guard                                        *)

(* process_receive_queue refuses to run re-entrantly: with the guard set it fails its assertion
   before any MPI call *)
Theorem prq_guarded c fuel s : inprq s = true -> (0 < fuel)%nat -> run fuel c PPrq s = Err 2 s.
Proof. intros H Hf. destruct fuel; [lia|]. cbn [run]. now rewrite H. Qed.

(* with interrupts masked, process_receive_queue performs no MPI call and delivers nothing *)
Theorem prq_masked c fuel s :
  inprq s = false -> intr s = false -> (0 < fuel)%nat ->
  exists s', run fuel c PPrq s = Ok s' /\ log s' = log s /\ oracle s' = oracle s /\ inprq s' = false /\ ret s' = false /\
             rcnt s' = rcnt s /\ depth s' = depth s.
Proof.
  intros Hq Hi Hf. destruct fuel; [lia|]. cbn [run]. rewrite Hq. cbn. rewrite Hi. cbn.
  eexists; split; [reflexivity|]. cbn. repeat split; reflexivity.
Qed.

(* the back-pressure wait of async does not poll while masked or while a handler is active *)
Theorem check_halt_deferred c fuel s :
  (intr s = false \/ inprq s = true) -> (0 < fuel)%nat -> run fuel c PCheckHalt s = Ok s.
Proof.
  intros H Hf. destruct fuel; [lia|]. cbn [run]. destruct H as [-> | ->]; cbn; [reflexivity|].
  destruct (intr s); reflexivity.
Qed.

(* ---------------------------------------------------------------------- *)
(* C02: what barrier() guarantees locally                                  *)

Lemma run_PBarrierLoop fu c s :
  run (S fu) c PBarrierLoop s =
  let '(c1, c2) := cur s in
  if (c1 =? c2) && (fst (prev s) =? c1) && (snd (prev s) =? c2) then
    (match cbs s, dq s with [], [] => Ok s | _, _ => Err 3 s end)
  else
    run fu c PReduceCounts (set_prev (cur s) s) >>= fun s1 =>
    (if fst (cur s1) =? snd (cur s1) then Ok s1 else run fu c PFlushAll s1) >>= run fu c PBarrierLoop.
Proof. reflexivity. Qed.

(* barrier() returns only when the last two count reductions returned the same pair (R, S) with
   R = S, and with no registered callback and no unsent buffer left on this rank *)
Theorem barrier_exit_condition c fuel : forall s s',
  run fuel c PBarrierLoop s = Ok s' ->
  fst (cur s') = snd (cur s') /\ prev s' = cur s' /\ cbs s' = [] /\ dq s' = [].
Proof.
  induction fuel as [|fuel IH]; intros s s' H; [discriminate|].
  rewrite run_PBarrierLoop in H. destruct (cur s) as (c1, c2) eqn:Ec.
  destruct ((c1 =? c2) && (fst (prev s) =? c1) && (snd (prev s) =? c2)) eqn:Econd.
  - apply andb_prop in Econd as (Econd & E3). apply andb_prop in Econd as (E1 & E2).
    apply Z.eqb_eq in E1, E2, E3.
    destruct (cbs s) eqn:Ecb; [|discriminate]. destruct (dq s) eqn:Edq; [|discriminate].
    injection H as <-. rewrite Ec. cbn. repeat split; try assumption.
    destruct (prev s) as (p1, p2). cbn in *. congruence.
  - unfold bind in H.
    destruct (run fuel c PReduceCounts (set_prev (c1, c2) s)) as [s1| | |]; try discriminate.
    destruct (if fst (cur s1) =? snd (cur s1) then Ok s1 else run fuel c PFlushAll s1) as [s2| | |]; try discriminate.
    eapply IH; exact H.
Qed.

(* a rank contributes to a count reduction only with nothing buffered and nothing posted-incomplete
   (otherwise barrier_reduce_counts fails its assertion), and it contributes its two counters *)
Theorem contribution_requires_local_quiescence c fuel s s' :
  reached (run fuel c PReduceCounts s) s' -> pend s = 0 /\ sbb s = 0.
Proof.
  intros H. destruct fuel as [|fuel]; [destruct H; discriminate|]. cbn [run] in H.
  destruct ((pend s =? 0) && (sbb s =? 0)) eqn:E; cbn [negb] in H.
  - apply andb_prop in E as (E1 & E2). apply Z.eqb_eq in E1, E2. split; assumption.
  - destruct H as [H|H]; discriminate.
Qed.

Lemma run_PReduceCounts_ok fu c s :
  pend s = 0 -> sbb s = 0 ->
  run (S fu) c PReduceCounts s = run fu c PReduceLoop (emit (EIallreduce (rcnt s) (scnt s)) (set_red_done false s)).
Proof. intros H1 H2. cbn [run]. rewrite H1, H2. reflexivity. Qed.

(* ---------------------------------------------------------------------- *)
(* C01: what a rank does with a received message                           *)

Lemma run_PHandleLoop_cons fu c m rest s :
  run (S fu) c (PHandleLoop (m :: rest)) s =
  ((if (c_routing c =? 0) || (mdest m =? c_me c) || (mdest m =? -1) then
      run fu c (PExec m) s >>= fun s1 => Ok (set_rcnt (rcnt s1 + 1) s1)
    else run fu c PFlushToCap (enqueue c (next_hop c (mdest m)) m s)) >>= run fu c (PHandleLoop rest)).
Proof. reflexivity. Qed.

(* a message addressed to another rank is not executed here: it is appended, unchanged, to the
   buffer of the next hop towards its destination *)
Theorem forward_preserves_message c d m s :
  buf_at (enqueue c d m s) d = buf_at s d ++ [m] \/ (length (bufs s) <= Z.to_nat d)%nat.
Proof.
  unfold enqueue, buf_at.
  destruct (le_lt_dec (length (bufs s)) (Z.to_nat d)) as [Hle|Hlt]; [right; exact Hle|left].
  assert (forall (l : list (list msg)) i x, (i < length l)%nat -> nth i (upd l i x) [] = x) as Hupd.
  { intros l i x Hi. unfold upd. rewrite app_nth2 by (rewrite firstn_length; lia).
    rewrite firstn_length, Nat.min_l by lia. rewrite Nat.sub_diag.
    destruct (skipn i l) eqn:E; [|reflexivity].
    apply (f_equal (@length _)) in E. rewrite skipn_length in E. cbn in E. lia. }
  destruct (nth (Z.to_nat d) (bufs s) []) eqn:Eb; cbn; rewrite Hupd by (cbn; assumption); cbn; rewrite Eb; reflexivity.
Qed.

(* ---------------------------------------------------------------------- *)
(* C03: the wait loops poll MPI on every iteration (they cannot spin without asking for progress):
   with no response available they are Blocked at an MPI call, not looping *)

Theorem send_wait_polls c fuel s :
  (1 <= fuel)%nat -> sendq s <> [] -> inprq s = false -> intr s = true -> oracle s = [] ->
  exists s', run fuel c PPrq s = Blocked s' /\
             (hd ETestRecv (log s') = EWaitSR \/ hd ETestRecv (log s') = ETestSend).
Proof.
  intros Hf Hq Hi Hn Ho. destruct fuel as [|fuel]; [lia|].
  cbn [run]. rewrite Hi. cbn [negb set_inprq set_ret intr]. rewrite Hn. cbn [negb].
  cbn [sendq set_ret set_inprq].
  destruct (c_nisw c <? Z.of_nat (length (sendq s))) eqn:Ew.
  - unfold ask. cbn [oracle emit set_ret set_inprq]. rewrite Ho. cbn [bind].
    eexists; split; [reflexivity|]. cbn. now left.
  - destruct (sendq s) as [|z t] eqn:Es; [congruence|].
    unfold ask. cbn [oracle emit set_ret set_inprq]. rewrite Ho. cbn [bind].
    eexists; split; [reflexivity|]. cbn. now right.
Qed.

Theorem reduce_wait_polls c fuel s :
  (1 <= fuel)%nat -> red_done s = false -> oracle s = [] ->
  exists s', run fuel c PReduceLoop s = Blocked s' /\ hd ETestRecv (log s') = EWaitIR.
Proof.
  intros Hf Hr Ho. destruct fuel as [|fuel]; [lia|]. cbn [run]. rewrite Hr. unfold ask. cbn. rewrite Ho.
  eexists; split; reflexivity.
Qed.
