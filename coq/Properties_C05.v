(* Properties_C05.v — C05: async_bcast reaches every rank exactly once.  The remote partner loop of
   pack_lambda_broadcast is generated from comm.ipp (Gen_bcast.v) on this run. *)
From Coq Require Import ZArith List Bool Lia.
Import ListNotations.
From Ygm Require Import Gen.CArith Gen.Gen_layout Gen.Gen_bcast Layout Bcast.
Local Open Scope Z_scope.

Theorem C05_remote_loop_is_spec : forall n p me,
  wf_bcast n p -> 0 <= me < n * p ->
  bcast_remote_partners (block_layout n p me) = Some (remote_partners_spec n p me).
Proof. exact Gen_bcast_correct. Qed.
Print Assumptions C05_remote_loop_is_spec.

(* every remote node is served by exactly one rank of the origin's node *)
Theorem C05_remote_node_served_once : forall n p a0 b l,
  0 < n -> 0 < p -> 0 <= a0 < n -> 0 <= b < n -> b <> a0 -> 0 <= l < p ->
  (In (b * p + l) (remote_partners_spec n p (a0 * p + l)) <-> l = (a0 + b) mod p).
Proof. exact remote_node_served_once. Qed.
Print Assumptions C05_remote_node_served_once.

Theorem C05_remote_partners_shape : forall n p me x,
  0 < n -> 0 < p -> 0 <= me < n * p -> In x (remote_partners_spec n p me) ->
  0 <= x < n * p /\ znode p x <> znode p me /\ zloc p x = zloc p me.
Proof. exact remote_partners_shape. Qed.
Print Assumptions C05_remote_partners_shape.

Theorem C05_remote_partners_NoDup : forall n p me, 0 < p -> NoDup (remote_partners_spec n p me).
Proof. exact remote_partners_NoDup. Qed.
Print Assumptions C05_remote_partners_NoDup.


(* THE COVERAGE THEOREM.  For every n x p layout and every origin, the three-stage fan-out of async_bcast (origin ->
   every rank of its node -> their remote partners -> the other ranks of each partner's node; the lists are the ones
   the rank machine queues to in PBcast / PExec) runs the user function on every rank of the communicator exactly
   once, and on nothing else. *)
From Ygm Require Import BcastCover.
Theorem C05_bcast_covers_every_rank_once : forall n p o x,
  0 < n -> 0 < p -> 0 <= o < n * p -> 0 <= x < n * p -> zcount x (bcast_execs n p o) = 1%nat.
Proof. exact bcast_covers_every_rank_once. Qed.
Print Assumptions C05_bcast_covers_every_rank_once.

Theorem C05_bcast_execs_in_range : forall n p o y,
  0 < n -> 0 < p -> 0 <= o < n * p -> In y (bcast_execs n p o) -> 0 <= y < n * p.
Proof. exact bcast_execs_in_range. Qed.
Print Assumptions C05_bcast_execs_in_range.
