(* Properties_C05.v — C05: async_bcast reaches every rank exactly once.  The remote partner loop of
   pack_lambda_broadcast is generated from comm.ipp (Gen_bcast.v) on this run. *)
From Coq Require Import ZArith List Bool Lia.
Import ListNotations.
From Ygm Require Import Gen.CArith Gen.Gen_layout Gen.Gen_bcast Layout Bcast.
Local Open Scope Z_scope.

Theorem C05_remote_loop_is_spec : forall n p me,
  wf_bcast n p -> 0 <= me < n * p ->
  bcast_remote_partners (block_layout n p me) = Some (remote_partners_spec n p me).
Proof. exact Gen_bcast_correct. Qed.
Print Assumptions C05_remote_loop_is_spec.

(* every remote node is served by exactly one rank of the origin's node *)
Theorem C05_remote_node_served_once : forall n p a0 b l,
  0 < n -> 0 < p -> 0 <= a0 < n -> 0 <= b < n -> b <> a0 -> 0 <= l < p ->
  (In (b * p + l) (remote_partners_spec n p (a0 * p + l)) <-> l = (a0 + b) mod p).
Proof. exact remote_node_served_once. Qed.
Print Assumptions C05_remote_node_served_once.

Theorem C05_remote_partners_shape : forall n p me x,
  0 < n -> 0 < p -> 0 <= me < n * p -> In x (remote_partners_spec n p me) ->
  0 <= x < n * p /\ znode p x <> znode p me /\ zloc p x = zloc p me.
Proof. exact remote_partners_shape. Qed.
Print Assumptions C05_remote_partners_shape.

Theorem C05_remote_partners_NoDup : forall n p me, 0 < p -> NoDup (remote_partners_spec n p me).
Proof. exact remote_partners_NoDup. Qed.
Print Assumptions C05_remote_partners_NoDup.


(* THE COVERAGE THEOREM.  For every n x p layout and every origin, the three-stage fan-out of async_bcast (origin ->
   every rank of its node -> their remote partners -> the other ranks of each partner's node; the lists are the ones
   the rank machine queues to in PBcast / PExec) runs the user function on every rank of the communicator exactly
   once, and on nothing else. *)
From Ygm Require Import BcastCover.
Theorem C05_bcast_covers_every_rank_once : forall n p o x,
  0 < n -> 0 < p -> 0 <= o < n * p -> 0 <= x < n * p -> zcount x (bcast_execs n p o) = 1%nat.
Proof. exact bcast_covers_every_rank_once. Qed.
Print Assumptions C05_bcast_covers_every_rank_once.

Theorem C05_bcast_execs_in_range : forall n p o y,
  0 < n -> 0 < p -> 0 <= o < n * p -> In y (bcast_execs n p o) -> 0 <= y < n * p.
Proof. exact bcast_execs_in_range. Qed.
Print Assumptions C05_bcast_execs_in_range.

(* ANY PLACEMENT OF THE RANKS ON THE NODES ("every node layout").  A uniform layout is given by the rank [rk a l] with
   on-node index l on node a and its inverse (nd, lc): block placement is a * p + l, round-robin placement
   (mpirun --map-by node, srun -m cyclic) is l * n + a.  [placed_layout] is the set of tables ygm::detail::layout builds
   from the communicator splits for such a placement.  The generated partner loop sends to rank  rk b l  of every other
   node b of the caller's class - since the repair D14 it looks each partner up in the strided-ranks table; before, it
   computed the second and later partners as  first + k p^2, which is right for block placement only. *)
Theorem C05_remote_loop_on_any_placement : forall n p rk nd lc,
  wf_bcast n p -> placement_ok n p rk nd lc -> forall me, 0 <= me < n * p ->
  bcast_remote_partners (placed_layout n p rk nd lc me) = Some (remote_partners_placed n p rk nd lc me).
Proof. exact Gen_bcast_placed. Qed.
Print Assumptions C05_remote_loop_on_any_placement.

Theorem C05_block_and_round_robin_are_placements : forall n p, 0 < n -> 0 < p ->
  placement_ok n p (fun a l => a * p + l) (znode p) (zloc p) /\
  placement_ok n p (fun a l => l * n + a) (fun r => r mod n) (fun r => r / n).
Proof. intros n p Hn Hp. split; [apply block_placement_ok | apply cyclic_placement_ok]; assumption. Qed.
Print Assumptions C05_block_and_round_robin_are_placements.

(* the coverage theorem for any placement: origin -> the ranks of its node (the local_ranks table) -> their remote
   partners -> the other ranks of each partner's node: every rank exactly once, nothing outside the communicator *)
Theorem C05_bcast_covers_every_rank_once_on_any_placement : forall n p rk nd lc,
  0 < n -> 0 < p -> placement_ok n p rk nd lc -> forall o x,
  0 <= o < n * p -> 0 <= x < n * p -> zcount x (bcast_execs_placed n p rk nd lc o) = 1%nat.
Proof. exact bcast_placed_covers_every_rank_once. Qed.
Print Assumptions C05_bcast_covers_every_rank_once_on_any_placement.

Theorem C05_bcast_execs_in_range_on_any_placement : forall n p rk nd lc,
  0 < n -> 0 < p -> placement_ok n p rk nd lc -> forall o y,
  0 <= o < n * p -> In y (bcast_execs_placed n p rk nd lc o) -> 0 <= y < n * p.
Proof. exact bcast_placed_execs_in_range. Qed.
Print Assumptions C05_bcast_execs_in_range_on_any_placement.

(* non-vacuity, and the defect made visible: on 3 nodes x 2 ranks placed round-robin the generated loop of rank 0
   (node 0, index 0: class of nodes {0, 2}) sends to rank 2 = rk 2 0; the old arithmetic 0 + 2*2 gave rank 4, which is
   on node 1.  5 x 2: rank 0 serves nodes 2 and 4, i.e. ranks 2 and 4. *)
Example C05_round_robin_3x2 :
  bcast_remote_partners (cyclic_layout 3 2 0) = Some [2] /\ bcast_remote_partners (cyclic_layout 5 2 0) = Some [2; 4] /\
  bcast_remote_partners (cyclic_layout 5 2 6) = Some [5; 7; 9] /\
  forallb (fun o => forallb (fun x => Nat.eqb (zcount (Z.of_nat x)
       (bcast_execs_placed 5 2 (fun a l => l * 5 + a) (fun r => r mod 5) (fun r => r / 5) (Z.of_nat o))) 1) (seq 0 10)) (seq 0 10) = true.
Proof. vm_compute. repeat split; reflexivity. Qed.
