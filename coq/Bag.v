(* Bag.v — C14: executable models of ygm::container::bag (two bags, for swap) and of
   ygm::container::tagged_bag (two tagged bags), their refinement to multisets / tag maps, and the
   theorems: every operation conserves the multiset of each bag; every tag handed out is fresh.

   Modelled from bag.ipp / tagged_bag.hpp:
     async_insert(item)            dest = (m_round_robin++ + rank) % size
     async_insert(item, dest), async_insert(vector, dest)
     rebalance                     a set of shipments  local_pop(k) from the back of src -> async_insert(vector, dst)
     global_shuffle                every item to a destination drawn by the caller's random engine (here: an oracle)
     local_shuffle                 order inside a rank: not observable in the model (ranks hold multisets)
     clear                         every rank empties its part
     swap                          exchanges m_local_bag of the two bags, NOT m_round_robin
     tagged_bag::async_insert      tag = m_next_tag++ ; map insert (overwriting an equal key!)
     tagged_bag::swap              exchanges the maps AND the counters
   The executable definitions are evaluated by vm_compute on the histories the real containers ran
   (vlib/bags.py); proofs are below the definitions. *)
From Coq Require Import ZArith NArith List Bool Lia Permutation.
Import ListNotations.

(* ======================================================================= bags *)
Fixpoint app_at (l : list (list Z)) (d : nat) (vs : list Z) : list (list Z) :=
  match l, d with
  | [], _ => []
  | x :: t, O => (x ++ vs) :: t
  | x :: t, S d' => x :: app_at t d' vs
  end.

Fixpoint take_back (l : list (list Z)) (src k : nat) : list (list Z) * list Z :=
  match l, src with
  | [], _ => ([], [])
  | x :: t, O => let n := length x - k in (firstn n x :: t, skipn n x)
  | x :: t, S s' => let '(t', m) := take_back t s' k in (x :: t', m)
  end.

Fixpoint bump (l : list nat) (i : nat) : list nat :=
  match l, i with
  | [], _ => []
  | x :: t, O => S x :: t
  | x :: t, S i' => x :: bump t i'
  end.

Record bag := { loc : list (list Z); rr : list nat }.

Inductive bop :=
| BIns (w : bool) (from : nat) (v : Z)
| BInsD (w : bool) (d : nat) (v : Z)
| BInsV (w : bool) (d : nat) (vs : list Z)
| BShip (w : bool) (src k dst : nat)            (* one shipment of rebalance *)
| BScatter (w : bool) (dests : list (list nat))   (* global_shuffle *)
| BLocalShuffle (w : bool)
| BClear (w : bool)
| BSwap.

Definition nranks (b : bag) : nat := length (loc b).

(* item i of rank r goes to (nth i (nth r dests []) 0) mod R; arrival order: by source rank (one legal schedule) *)
Definition scatter_pairs (l : list (list Z)) (dests : list (list nat)) : list (Z * nat) :=
  concat (map (fun '(r, x) => map (fun '(i, v) => (v, nth i (nth r dests []) O)) (combine (seq 0 (length x)) x))
              (combine (seq 0 (length l)) l)).

Definition scatter (l : list (list Z)) (dests : list (list nat)) : list (list Z) :=
  let R := length l in
  fold_left (fun st '(v, d) => app_at st (d mod R) [v]) (scatter_pairs l dests) (map (fun _ => []) l).

Definition bstep1 (b : bag) (o : bop) : bag :=
  let R := nranks b in
  match o with
  | BIns _ from v => {| loc := app_at (loc b) ((nth from (rr b) O + from) mod R) [v]; rr := bump (rr b) from |}
  | BInsD _ d v => {| loc := app_at (loc b) (d mod R) [v]; rr := rr b |}
  | BInsV _ d vs => {| loc := app_at (loc b) (d mod R) vs; rr := rr b |}
  | BShip _ src k dst => let '(l', m) := take_back (loc b) src k in {| loc := app_at l' (dst mod R) m; rr := rr b |}
  | BScatter _ dests => {| loc := scatter (loc b) dests; rr := rr b |}
  | BLocalShuffle _ => b
  | BClear _ => {| loc := map (fun _ => []) (loc b); rr := rr b |}
  | BSwap => b
  end.

Definition which (o : bop) : option bool :=
  match o with
  | BIns w _ _ | BInsD w _ _ | BInsV w _ _ | BShip w _ _ _ | BScatter w _ | BLocalShuffle w | BClear w => Some w
  | BSwap => None
  end.

(* the pair (A, B); w = false addresses A *)
Definition bstep (s : bag * bag) (o : bop) : bag * bag :=
  let '(a, b) := s in
  match which o with
  | Some false => (bstep1 a o, b)
  | Some true => (a, bstep1 b o)
  | None => ({| loc := loc b; rr := rr a |}, {| loc := loc a; rr := rr b |})
  end.

Definition binit (R : nat) : bag := {| loc := repeat [] R; rr := repeat O R |}.
Definition brun (R : nat) (ops : list bop) : bag * bag := fold_left bstep ops (binit R, binit R).

(* the abstract bag: a multiset, as a list up to Permutation *)
Definition contents (b : bag) : list Z := concat (loc b).

Definition added (o : bop) : list Z :=
  match o with BIns _ _ v | BInsD _ _ v => [v] | BInsV _ _ vs => vs | _ => [] end.

Definition spec1 (m : list Z) (o : bop) : list Z := match o with BClear _ => [] | _ => m ++ added o end.

Definition spec_step (s : list Z * list Z) (o : bop) : list Z * list Z :=
  let '(a, b) := s in
  match which o with
  | Some false => (spec1 a o, b)
  | Some true => (a, spec1 b o)
  | None => (b, a)
  end.

(* ======================================================================= tagged bags *)
Local Open Scope N_scope.
Definition TAG_BITS : N := 40.
Definition tag_base (r : nat) : N := N.shiftl (N.of_nat r) TAG_BITS.

Record tbag := { nxt : list N; tm : list (N * Z) }.   (* per-rank m_next_tag; the map, newest first *)

Fixpoint remove_key (k : N) (m : list (N * Z)) : list (N * Z) :=
  match m with [] => [] | (k', v) :: t => if k' =? k then remove_key k t else (k', v) :: remove_key k t end.
Fixpoint lookup (k : N) (m : list (N * Z)) : option Z :=
  match m with [] => None | (k', v) :: t => if k' =? k then Some v else lookup k t end.
Fixpoint setn (l : list N) (i : nat) (x : N) : list N :=
  match l, i with [] , _ => [] | _ :: t, O => x :: t | y :: t, S i' => y :: setn t i' x end.

Inductive top :=
| TIns (w : bool) (from : nat) (v : Z)     (* returns the tag *)
| TErase (w : bool) (tag : N)
| TClear (w : bool)                        (* map::clear: the counters keep running *)
| TSwap.

Definition tinit (R : nat) : tbag := {| nxt := map tag_base (seq 0 R); tm := [] |}.

(* None: the 40-bit serial space of the issuing rank is exhausted (the real code would silently run into the next
   rank's tags: excluded by the theorem's statement, never reached by a run shorter than 2^40 inserts) *)
Definition tstep1 (b : tbag) (o : top) : option (tbag * option N) :=
  match o with
  | TIns _ from v =>
      let t := nth from (nxt b) 0 in
      if (from <? length (nxt b))%nat && (t <? tag_base (S from)) then
        Some ({| nxt := setn (nxt b) from (t + 1); tm := (t, v) :: remove_key t (tm b) |}, Some t)
      else None
  | TErase _ t => Some ({| nxt := nxt b; tm := remove_key t (tm b) |}, None)
  | TClear _ => Some ({| nxt := nxt b; tm := [] |}, None)
  | TSwap => Some (b, None)
  end.

Definition tstep (s : tbag * tbag) (o : top) : option ((tbag * tbag) * option N) :=
  let '(a, b) := s in
  match o with
  | TSwap => Some ((b, a), None)
  | TIns false _ _ | TErase false _ | TClear false => match tstep1 a o with Some (a', r) => Some ((a', b), r) | None => None end
  | TIns true _ _ | TErase true _ | TClear true => match tstep1 b o with Some (b', r) => Some ((a, b'), r) | None => None end
  end.

Fixpoint trun (s : tbag * tbag) (ops : list top) : option ((tbag * tbag) * list (option N)) :=
  match ops with
  | [] => Some (s, [])
  | o :: rest =>
      match tstep s o with
      | Some (s', r) => match trun s' rest with Some (s'', rs) => Some (s'', r :: rs) | None => None end
      | None => None
      end
  end.

(* ======================================================================= proofs: bags *)
Local Close Scope N_scope.

Lemma app_at_length l d vs : length (app_at l d vs) = length l.
Proof. revert d; induction l as [|x t IH]; intros [|d]; cbn; auto. Qed.

Lemma app_at_perm l d vs : (d < length l)%nat -> Permutation (concat (app_at l d vs)) (concat l ++ vs).
Proof.
  revert d; induction l as [|x t IH]; intros d Hd; cbn in Hd; [lia|].
  destruct d as [|d]; cbn.
  - rewrite <- !app_assoc. apply Permutation_app_head. apply Permutation_app_comm.
  - rewrite <- app_assoc. apply Permutation_app_head. apply IH. lia.
Qed.

Lemma take_back_spec l src k :
  Permutation (concat l) (concat (fst (take_back l src k)) ++ snd (take_back l src k)) /\
  length (fst (take_back l src k)) = length l.
Proof.
  revert src; induction l as [|x t IH]; intros src; cbn; [split; constructor|].
  destruct src as [|s]; cbn.
  - split; [|reflexivity].
    rewrite <- (firstn_skipn (length x - k) x) at 1. rewrite <- !app_assoc.
    apply Permutation_app_head. apply Permutation_app_comm.
  - specialize (IH s). destruct (take_back t s k) as (t', m). cbn in *. destruct IH as (IH1 & IH2).
    split; [|congruence]. rewrite <- app_assoc. apply Permutation_app_head. exact IH1.
Qed.

Lemma fold_app_at_perm R pairs st :
  length st = R -> (0 < R)%nat ->
  Permutation (concat (fold_left (fun st '(v, d) => app_at st (d mod R) [v]) pairs st)) (concat st ++ map fst pairs) /\
  length (fold_left (fun st '(v, d) => app_at st (d mod R) [v]) pairs st) = R.
Proof.
  revert st; induction pairs as [|(v, d) rest IH]; intros st Hl HR; cbn [fold_left map].
  - rewrite app_nil_r. split; [reflexivity|exact Hl].
  - destruct (IH (app_at st (d mod R) [v])) as (P & L); [rewrite app_at_length; exact Hl|exact HR|].
    split; [|exact L]. rewrite P. cbn [fst].
    rewrite (app_at_perm st (d mod R) [v]); [|rewrite Hl; apply Nat.mod_upper_bound; lia].
    rewrite <- app_assoc. reflexivity.
Qed.

Lemma concat_empties {A B} (l : list A) : concat (map (fun _ => @nil B) l) = [].
Proof. induction l; cbn; auto. Qed.

Lemma sp_inner (ds : list nat) (x : list Z) b2 :
  map fst (map (fun '(i, v) => (v, nth i ds O)) (combine (seq b2 (length x)) x)) = x.
Proof. revert b2; induction x as [|v x IH]; intros b2; cbn; [reflexivity|]. f_equal. apply IH. Qed.

Lemma sp_outer (l : list (list Z)) dests base :
  map fst (concat (map (fun '(r, x) => map (fun '(i, v) => (v, nth i (nth r dests []) O)) (combine (seq 0 (length x)) x))
                       (combine (seq base (length l)) l))) = concat l.
Proof.
  revert base; induction l as [|x t IH]; intros base; cbn; [reflexivity|].
  rewrite map_app, IH. f_equal. apply sp_inner.
Qed.

Lemma scatter_pairs_fst l dests : map fst (scatter_pairs l dests) = concat l.
Proof. apply sp_outer. Qed.

Lemma scatter_spec l dests : (0 < length l)%nat ->
  Permutation (concat (scatter l dests)) (concat l) /\ length (scatter l dests) = length l.
Proof.
  intros HR. unfold scatter.
  destruct (fold_app_at_perm (length l) (scatter_pairs l dests) (map (fun _ => []) l)) as (P & L); [apply map_length|exact HR|].
  split; [|exact L]. rewrite P, concat_empties, scatter_pairs_fst. reflexivity.
Qed.

(* one bag: every operation adds exactly [added o] to the multiset and keeps the number of ranks *)
Lemma bstep1_spec b o : (0 < nranks b)%nat ->
  Permutation (contents (bstep1 b o)) (spec1 (contents b) o) /\ nranks (bstep1 b o) = nranks b.
Proof.
  intros HR. unfold contents, nranks, spec1 in *. destruct o; cbn [bstep1 added loc].
  - split; [apply app_at_perm, Nat.mod_upper_bound; lia | apply app_at_length].
  - split; [apply app_at_perm, Nat.mod_upper_bound; lia | apply app_at_length].
  - split; [apply app_at_perm, Nat.mod_upper_bound; lia | apply app_at_length].
  - destruct (take_back_spec (loc b) src k) as (P & L). destruct (take_back (loc b) src k) as (l', m). cbn in *.
    split; [|rewrite app_at_length; exact L].
    rewrite app_nil_r, P. apply app_at_perm. rewrite L. apply Nat.mod_upper_bound; lia.
  - destruct (scatter_spec (loc b) dests HR) as (P & L). cbn. rewrite app_nil_r. split; assumption.
  - rewrite app_nil_r. split; reflexivity.
  - rewrite concat_empties, map_length. split; reflexivity.
  - rewrite app_nil_r. split; reflexivity.
Qed.

Lemma spec1_perm m m' o : Permutation m m' -> Permutation (spec1 m o) (spec1 m' o).
Proof. intros P. unfold spec1. destruct o; try (apply Permutation_app_tail; exact P). constructor. Qed.

Definition abs (s : bag * bag) : list Z * list Z := (contents (fst s), contents (snd s)).
Definition peq (x y : list Z * list Z) : Prop := Permutation (fst x) (fst y) /\ Permutation (snd x) (snd y).
Definition wf (s : bag * bag) : Prop := (0 < nranks (fst s))%nat /\ nranks (snd s) = nranks (fst s).

(* refinement: the two real bags, viewed as multisets, take exactly the step of the specification *)
Theorem bstep_refines s o : wf s -> peq (abs (bstep s o)) (spec_step (abs s) o) /\ wf (bstep s o).
Proof.
  destruct s as (a, b). intros (HR & HE). cbn in HR, HE. unfold bstep, spec_step, abs. cbn [fst snd].
  destruct (which o) as [[|]|] eqn:W.
  - destruct (bstep1_spec b o) as (P & L); [lia|]. split; [split; [reflexivity|exact P]|]. split; cbn; [exact HR|congruence].
  - destruct (bstep1_spec a o HR) as (P & L). split; [split; [exact P|reflexivity]|]. split; cbn; [lia|congruence].
  - split; [split; reflexivity|]. unfold wf, nranks in *. cbn. split; [lia|congruence].
Qed.

Theorem brun_refines R ops : (0 < R)%nat ->
  peq (abs (brun R ops)) (fold_left spec_step ops ([], [])) /\ wf (brun R ops).
Proof.
  intros HR. unfold brun.
  assert (G : forall ops s sp, wf s -> peq (abs s) sp ->
            peq (abs (fold_left bstep ops s)) (fold_left spec_step ops sp) /\ wf (fold_left bstep ops s)).
  { clear. induction ops as [|o rest IH]; intros s sp W E; cbn [fold_left]; [split; assumption|].
    destruct (bstep_refines s o W) as (E1 & W1). apply IH; [exact W1|].
    destruct s as (a, b), sp as (x, y). destruct E as (Ea & Eb). destruct E1 as (E1a & E1b).
    unfold spec_step in *. cbn [abs fst snd] in *.
    destruct (which o) as [[|]|]; cbn [fst snd] in *; split; cbn [fst snd];
      try (rewrite E1a); try (rewrite E1b); try (apply spec1_perm); try assumption; reflexivity. }
  apply G.
  - unfold wf, nranks, binit. cbn. rewrite repeat_length. split; [exact HR|reflexivity].
  - unfold abs, contents, binit. cbn. assert (C : concat (repeat (@nil Z) R) = []) by (clear; induction R; cbn; auto).
    rewrite C. split; reflexivity.
Qed.

(* ======================================================================= proofs: tagged bags *)
Local Open Scope N_scope.

Definition trank (t : N) : nat := N.to_nat (N.shiftr t TAG_BITS).

Definition TInv (b : tbag) : Prop :=
  NoDup (map fst (tm b)) /\
  (forall r, (r < length (nxt b))%nat -> tag_base r <= nth r (nxt b) 0 <= tag_base (S r)) /\
  (forall t, In t (map fst (tm b)) -> (trank t < length (nxt b))%nat /\ t < nth (trank t) (nxt b) 0).

Lemma tag_base_le r : tag_base r = N.of_nat r * 2 ^ 40.
Proof. unfold tag_base, TAG_BITS. apply N.shiftl_mul_pow2. Qed.

Lemma trank_spec t r : tag_base r <= t < tag_base (S r) -> trank t = r.
Proof.
  rewrite !tag_base_le. intros (H1 & H2). unfold trank, TAG_BITS. rewrite N.shiftr_div_pow2.
  assert (t / 2 ^ 40 = N.of_nat r); [|lia].
  symmetry. apply (N.div_unique t (2 ^ 40) (N.of_nat r) (t - N.of_nat r * 2 ^ 40)); lia.
Qed.

Lemma remove_key_keys k m t : In t (map fst (remove_key k m)) -> In t (map fst m) /\ t <> k.
Proof.
  induction m as [|(k', v) rest IH]; cbn; [tauto|].
  destruct (N.eqb_spec k' k) as [->|Hne]; cbn.
  - intros H. destruct (IH H). split; [right|]; assumption.
  - intros [<-|H]; [split; [left; reflexivity|exact Hne]|]. destruct (IH H). split; [right|]; assumption.
Qed.

Lemma remove_key_nodup k m : NoDup (map fst m) -> NoDup (map fst (remove_key k m)).
Proof.
  induction m as [|(k', v) rest IH]; cbn; [auto|]. intros H. inversion H as [|? ? Hn Hd]; subst.
  destruct (k' =? k); [apply IH, Hd|]. cbn. constructor; [|apply IH, Hd].
  intros Hin. apply Hn. apply (remove_key_keys k rest k' Hin).
Qed.

Lemma remove_key_fresh k m : ~ In k (map fst m) -> remove_key k m = m.
Proof.
  induction m as [|(k', v) rest IH]; cbn; [auto|]. intros H.
  destruct (N.eqb_spec k' k) as [->|Hne]; [exfalso; apply H; left; reflexivity|]. f_equal. apply IH. tauto.
Qed.

Lemma setn_length l i x : length (setn l i x) = length l.
Proof. revert i; induction l; intros [|i]; cbn; auto. Qed.
Lemma setn_nth l i j x : (i < length l)%nat -> nth j (setn l i x) 0 = if Nat.eqb j i then x else nth j l 0.
Proof.
  revert i j; induction l as [|y t IH]; intros i j Hi; cbn in Hi; [lia|].
  destruct i as [|i], j as [|j]; cbn; auto. apply IH. lia.
Qed.

(* the tag an insert returns is not in the bag: nothing is overwritten, the size grows by one,
   and the invariant is kept *)
Theorem tins_fresh b w from v b' r :
  TInv b -> tstep1 b (TIns w from v) = Some (b', r) ->
  exists t, r = Some t /\ ~ In t (map fst (tm b)) /\ trank t = from /\ tm b' = (t, v) :: tm b /\ TInv b'.
Proof.
  intros (ND & RG & KY) H. unfold tstep1 in H.
  destruct ((from <? length (nxt b))%nat) eqn:Hf; cbn [andb] in H; [|discriminate].
  destruct (nth from (nxt b) 0 <? tag_base (S from)) eqn:Hlt; [|discriminate].
  apply Nat.ltb_lt in Hf. apply N.ltb_lt in Hlt.
  injection H as <- <-. set (t := nth from (nxt b) 0) in *.
  pose proof (RG from Hf) as (Lo & Hi). fold t in Lo, Hi.
  assert (Tr : trank t = from) by (apply trank_spec; split; assumption).
  assert (Fresh : ~ In t (map fst (tm b))).
  { intros Hin. destruct (KY t Hin) as (_ & Hlt2). rewrite Tr in Hlt2. fold t in Hlt2. lia. }
  exists t. split; [reflexivity|]. split; [exact Fresh|]. split; [exact Tr|].
  rewrite (remove_key_fresh t (tm b) Fresh). split; [reflexivity|].
  unfold TInv. cbn [tm nxt]. rewrite setn_length. split; [|split].
  - cbn. constructor; assumption.
  - intros r Hr. rewrite setn_nth by exact Hf. destruct (Nat.eqb_spec r from) as [->|Hne]; [|apply RG, Hr].
    fold t. split; lia.
  - intros t' [<-|Hin]; cbn [fst].
    + rewrite Tr. split; [exact Hf|]. rewrite setn_nth by exact Hf. rewrite Nat.eqb_refl. cbn. lia.
    + destruct (KY t' Hin) as (K1 & K2). split; [exact K1|]. rewrite setn_nth by exact Hf.
      destruct (Nat.eqb_spec (trank t') from) as [E|Hne]; [|exact K2]. rewrite E in K2. fold t in K2. lia.
Qed.

Lemma terase_inv b w t b' r : TInv b -> tstep1 b (TErase w t) = Some (b', r) -> TInv b'.
Proof.
  intros (ND & RG & KY) H. cbn in H. injection H as <- <-. unfold TInv. cbn [tm nxt].
  split; [apply remove_key_nodup, ND|]. split; [exact RG|].
  intros t' Hin. apply KY. apply (remove_key_keys t (tm b) t' Hin).
Qed.

Definition TInv2 (s : tbag * tbag) : Prop := TInv (fst s) /\ TInv (snd s).

Theorem tstep_inv s o s' r : TInv2 s -> tstep s o = Some (s', r) -> TInv2 s'.
Proof.
  destruct s as (a, b). intros (Ia & Ib) H. cbn [fst snd] in *. destruct o as [w from v|w t|w|]; cbn [tstep] in H.
  - destruct w.
    + destruct (tstep1 b (TIns true from v)) as [(b', r')|] eqn:E; [|discriminate]. injection H as <- <-.
      destruct (tins_fresh b true from v b' r' Ib E) as (t & _ & _ & _ & _ & I'). split; assumption.
    + destruct (tstep1 a (TIns false from v)) as [(a', r')|] eqn:E; [|discriminate]. injection H as <- <-.
      destruct (tins_fresh a false from v a' r' Ia E) as (t & _ & _ & _ & _ & I'). split; assumption.
  - destruct w.
    + destruct (tstep1 b (TErase true t)) as [(b', r')|] eqn:E; [|discriminate]. injection H as <- <-.
      split; [exact Ia | exact (terase_inv b true t b' r' Ib E)].
    + destruct (tstep1 a (TErase false t)) as [(a', r')|] eqn:E; [|discriminate]. injection H as <- <-.
      split; [exact (terase_inv a false t a' r' Ia E) | exact Ib].
  - assert (C : forall b, TInv b -> TInv {| nxt := nxt b; tm := [] |}).
    { intros x (ND & RG & KY). unfold TInv. cbn [tm nxt]. split; [constructor|]. split; [exact RG|intros t []]. }
    destruct w; cbn [tstep1] in H; injection H as <- <-; split; cbn [fst snd]; auto.
  - injection H as <- <-. split; assumption.
Qed.

Lemma tinit_inv R : TInv (tinit R).
Proof.
  unfold TInv, tinit. cbn [tm nxt]. split; [constructor|]. split; [|intros t []].
  intros r Hr. rewrite map_length, seq_length in Hr.
  rewrite (nth_indep _ 0 (tag_base 0)) by (rewrite map_length, seq_length; exact Hr).
  rewrite (map_nth tag_base (seq 0 R) 0%nat r), seq_nth by exact Hr. cbn [plus].
  rewrite !tag_base_le. split; lia.
Qed.

(* every state reachable by any history of inserts, erases and swaps satisfies the invariant *)
Theorem trun_inv : forall ops s s' rs, TInv2 s -> trun s ops = Some (s', rs) -> TInv2 s'.
Proof.
  induction ops as [|o rest IH]; intros s s' rs I H; cbn [trun] in H.
  - injection H as <- <-. exact I.
  - destruct (tstep s o) as [(s1, r)|] eqn:E; [|discriminate].
    destruct (trun s1 rest) as [(s2, rs2)|] eqn:E2; [|discriminate]. injection H as <- <-.
    apply (IH s1 s2 rs2); [exact (tstep_inv s o s1 r I E)|exact E2].
Qed.

(* the user-visible statement: in any history, the tag returned by an insert into a bag is, at that moment,
   not a key of that bag; it carries the issuing rank; the item is stored under exactly that tag *)
Theorem tagged_insert_unique R pre w from v s1 rs1 s2 r :
  trun (tinit R, tinit R) pre = Some (s1, rs1) ->
  tstep s1 (TIns w from v) = Some (s2, r) ->
  let bag_of (s : tbag * tbag) := if w then snd s else fst s in
  exists t, r = Some t /\ ~ In t (map fst (tm (bag_of s1))) /\ trank t = from /\
            tm (bag_of s2) = (t, v) :: tm (bag_of s1) /\ lookup t (tm (bag_of s2)) = Some v.
Proof.
  intros Hpre Hstep bag_of.
  assert (I0 : TInv2 (tinit R, tinit R)) by (split; apply tinit_inv).
  assert (I1 : TInv2 s1) by (apply (trun_inv pre _ s1 rs1 I0 Hpre)).
  destruct s1 as (a, b). destruct I1 as (Ia & Ib). cbn [fst snd] in *. cbn [tstep] in Hstep. subst bag_of.
  destruct w.
  - destruct (tstep1 b (TIns true from v)) as [(b', r')|] eqn:E; [|discriminate]. injection Hstep as <- <-.
    destruct (tins_fresh b true from v b' r' Ib E) as (t & -> & F & Tr & M & _).
    exists t. cbn [fst snd]. repeat split; try assumption. rewrite M. cbn. rewrite N.eqb_refl. reflexivity.
  - destruct (tstep1 a (TIns false from v)) as [(a', r')|] eqn:E; [|discriminate]. injection Hstep as <- <-.
    destruct (tins_fresh a false from v a' r' Ia E) as (t & -> & F & Tr & M & _).
    exists t. cbn [fst snd]. repeat split; try assumption. rewrite M. cbn. rewrite N.eqb_refl. reflexivity.
Qed.

(* what the theorem excludes really happens when swap forgets the counters: the model of that variant hands out a
   tag twice (the witness the correspondence check looks for on the implementation) *)
Definition tstep_swap_maps_only (s : tbag * tbag) (o : top) : option ((tbag * tbag) * option N) :=
  match o with
  | TSwap => let '(a, b) := s in Some (({| nxt := nxt a; tm := tm b |}, {| nxt := nxt b; tm := tm a |}), None)
  | _ => tstep s o
  end.
Example swap_without_counters_reuses_a_tag :
  exists s1 s2 s3 s4 t,
    tstep_swap_maps_only (tinit 1, tinit 1) (TIns true O 7) = Some (s1, Some t) /\
    tstep_swap_maps_only s1 TSwap = Some (s2, None) /\
    tstep_swap_maps_only s2 (TIns false O 8) = Some (s3, Some t) /\
    tstep_swap_maps_only s3 TSwap = Some (s4, None) /\ length (tm (fst s3)) = 1%nat.
Proof. do 5 eexists. repeat split; vm_compute; reflexivity. Qed.
