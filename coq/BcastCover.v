(* BcastCover.v — C05: the three-stage fan-out of async_bcast runs the user function on every rank exactly once, for
   every n x p layout and every origin.
     stage 1  the origin queues the message to every rank of its own node (itself included);
     stage 2  each of them forwards it to its remote partners (one rank on each other node of its class);
     stage 3  each remote partner hands it to the other ranks of its node.
   [Bcast.bcast_execs n p o] lists the ranks that execute, with multiplicity, using the same [remote_partners_spec] and
   local-rank lists the rank machine uses; [remote_node_served_once] (every other node is served by exactly one rank of
   the origin's node) is the key fact. *)
From Coq Require Import ZArith List Bool Lia.
Import ListNotations.
From Ygm Require Import Gen.Gen_layout Layout Bcast.
Local Open Scope Z_scope.

Lemma zcount_app x a b : zcount x (a ++ b) = (zcount x a + zcount x b)%nat.
Proof. induction a as [|y a IH]; cbn; [reflexivity|]. rewrite IH. lia. Qed.
Lemma zcount_notin x l : ~ In x l -> zcount x l = O.
Proof.
  induction l as [|y l IH]; intros H; cbn; [reflexivity|].
  destruct (Z.eqb_spec x y) as [->|_]; [exfalso; apply H; left; reflexivity|]. apply IH. intros Hin. apply H. right. exact Hin.
Qed.
Lemma zcount_nodup_in x l : NoDup l -> In x l -> zcount x l = 1%nat.
Proof.
  induction l as [|y l IH]; intros Hn Hin; [destruct Hin|]. inversion Hn as [|? ? Hy Hl]; subst. cbn.
  destruct (Z.eqb_spec x y) as [->|Hne].
  - rewrite (zcount_notin y l Hy). reflexivity.
  - destruct Hin as [E|Hin]; [congruence|]. rewrite (IH Hl Hin). reflexivity.
Qed.
Lemma zcount_concat_zero {A} x (F : A -> list Z) l : (forall r, In r l -> zcount x (F r) = O) -> zcount x (concat (map F l)) = O.
Proof.
  induction l as [|r l IH]; intros H; cbn; [reflexivity|]. rewrite zcount_app, (H r (or_introl eq_refl)), IH; [reflexivity|].
  intros r' Hr'. apply H. right. exact Hr'.
Qed.
Lemma zcount_concat_one x (F : Z -> list Z) l r0 :
  NoDup l -> In r0 l -> zcount x (F r0) = 1%nat -> (forall r, In r l -> r <> r0 -> zcount x (F r) = O) ->
  zcount x (concat (map F l)) = 1%nat.
Proof.
  induction l as [|r l IH]; intros Hn Hin H1 H0; [destruct Hin|]. inversion Hn as [|? ? Hr Hl]; subst. cbn. rewrite zcount_app.
  destruct Hin as [->|Hin].
  - rewrite H1, zcount_concat_zero; [reflexivity|]. intros r' Hr'. apply H0; [right; exact Hr'|]. intros ->. contradiction.
  - rewrite (H0 r (or_introl eq_refl)) by (intros ->; contradiction).
    rewrite IH; try assumption; [reflexivity|]. intros r' Hr' Hne. apply H0; [right; exact Hr'|exact Hne].
Qed.

(* the ranks of one node *)
Lemma local_ranks_In p a y : 0 < p -> In y (local_ranks_of p a) <-> exists l, 0 <= l < p /\ y = a * p + l.
Proof.
  intros Hp. unfold local_ranks_of. rewrite in_map_iff. split.
  - intros (i & <- & Hi). apply in_seq in Hi. exists (Z.of_nat i). split; [lia|reflexivity].
  - intros (l & Hl & ->). exists (Z.to_nat l). split; [rewrite Z2Nat.id by lia; reflexivity|]. apply in_seq. lia.
Qed.
Lemma local_ranks_NoDup p a : NoDup (local_ranks_of p a).
Proof. unfold local_ranks_of. apply FinFun.Injective_map_NoDup; [intros i j H; lia|apply seq_NoDup]. Qed.
Lemma local_ranks_node p a y : 0 < p -> In y (local_ranks_of p a) -> znode p y = a.
Proof. intros Hp H. apply (local_ranks_In p a y Hp) in H as (l & Hl & ->). apply node_of_nl; assumption. Qed.

Theorem bcast_covers_every_rank_once n p o x :
  0 < n -> 0 < p -> 0 <= o < n * p -> 0 <= x < n * p -> zcount x (bcast_execs n p o) = 1%nat.
Proof.
  intros Hn Hp Ho Hx. unfold bcast_execs. cbv zeta.
  set (a0 := znode p o).
  pose proof (node_lt n p o Hp Ho) as Ha0. fold a0 in Ha0.
  pose proof (node_lt n p x Hp Hx) as Hb.
  pose proof (loc_lt p x Hp) as Hlx.
  pose proof (node_loc_eq p x Hp) as Ex.
  remember (znode p x) as b eqn:Eqb. remember (zloc p x) as lx eqn:Eqlx.
  set (s1 := local_ranks_of p a0).
  set (G := fun r2 => filter (fun d => negb (d =? r2)) (local_ranks_of p (znode p r2))).
  set (F := fun r => remote_partners_spec n p r ++ concat (map G (remote_partners_spec n p r))).
  change (zcount x (s1 ++ concat (map F s1)) = 1%nat). rewrite zcount_app.
  (* facts about G *)
  assert (GIn : forall r2 y, In y (G r2) -> znode p y = znode p r2 /\ y <> r2).
  { intros r2 y Hy. unfold G in Hy. apply filter_In in Hy as (Hy & Hne). split; [apply (local_ranks_node p _ y Hp Hy)|].
    destruct (Z.eqb_spec y r2); [discriminate|assumption]. }
  assert (s1In : forall r, In r s1 -> 0 <= r < n * p /\ znode p r = a0 /\ exists l, 0 <= l < p /\ r = a0 * p + l).
  { intros r Hr. unfold s1 in Hr. pose proof (local_ranks_node p a0 r Hp Hr) as E.
    apply (local_ranks_In p a0 r Hp) in Hr as (l & Hl & ->). split; [apply nl_lt; assumption|]. split; [exact E|]. exists l. split; [exact Hl|reflexivity]. }
  destruct (Z.eq_dec b a0) as [Eb|Eb].
  - (* x is on the origin's node: stage 1 only *)
    assert (H1 : zcount x s1 = 1%nat).
    { apply zcount_nodup_in; [apply local_ranks_NoDup|]. apply (local_ranks_In p a0 x Hp). exists lx. split; [exact Hlx|]. rewrite <- Eb. exact Ex. }
    rewrite H1. rewrite zcount_concat_zero; [reflexivity|].
    intros r Hr. destruct (s1In r Hr) as (Rr & Nr & _). unfold F. rewrite zcount_app.
    rewrite zcount_notin.
    + rewrite zcount_concat_zero; [reflexivity|]. intros r2 Hr2. apply zcount_notin. intros Hin.
      destruct (GIn r2 x Hin) as (E1 & _). destruct (remote_partners_shape n p r r2 Hn Hp Rr Hr2) as (_ & Hne & _).
      rewrite <- Eqb in E1. congruence.
    + intros Hin. destruct (remote_partners_shape n p r x Hn Hp Rr Hin) as (_ & Hne & _). rewrite <- Eqb in Hne. congruence.
  - (* x is on another node b: served through exactly one rank of the origin's node *)
    assert (H1 : zcount x s1 = O).
    { apply zcount_notin. intros Hin. destruct (s1In x Hin) as (_ & E & _). rewrite <- Eqb in E. contradiction. }
    rewrite H1. cbn [plus].
    set (ls := (a0 + b) mod p).
    pose proof (Z.mod_pos_bound (a0 + b) p Hp) as Hls. fold ls in Hls.
    set (rs := a0 * p + ls). set (r2s := b * p + ls).
    assert (Hrs : In rs s1) by (apply (local_ranks_In p a0 rs Hp); exists ls; split; [exact Hls|reflexivity]).
    assert (Rrs : 0 <= rs < n * p) by (apply nl_lt; assumption).
    assert (Served : forall l, 0 <= l < p -> (In (b * p + l) (remote_partners_spec n p (a0 * p + l)) <-> l = ls)).
    { intros l Hl. apply remote_node_served_once; assumption. }
    assert (Hr2s : In r2s (remote_partners_spec n p rs)) by (apply (Served ls Hls); reflexivity).
    (* a remote partner of a rank with on-node index l that lies on node b is b*p+l *)
    assert (OnB : forall l r2, 0 <= l < p -> In r2 (remote_partners_spec n p (a0 * p + l)) -> znode p r2 = b -> r2 = b * p + l).
    { intros l r2 Hl Hin Hnode. destruct (remote_partners_shape n p (a0 * p + l) r2 Hn Hp ltac:(apply nl_lt; assumption) Hin) as (_ & _ & Eloc).
      rewrite loc_of_nl in Eloc by assumption. rewrite (node_loc_eq p r2 Hp), Hnode, Eloc. reflexivity. }
    apply (zcount_concat_one x F s1 rs (local_ranks_NoDup p a0) Hrs).
    + (* through rs *)
      unfold F. rewrite zcount_app.
      destruct (Z.eq_dec lx ls) as [El|El].
      * (* x is the remote partner itself *)
        assert (Exr : x = r2s) by (unfold r2s; rewrite <- El; exact Ex). rewrite Exr.
        rewrite (zcount_nodup_in r2s _ (remote_partners_NoDup n p rs Hp) Hr2s).
        rewrite zcount_concat_zero; [reflexivity|]. intros r2 Hr2. apply zcount_notin. intros Hin.
        destruct (GIn r2 r2s Hin) as (E1 & Hne). apply Hne. symmetry.
        apply (OnB ls r2 Hls Hr2). rewrite <- E1. unfold r2s. apply node_of_nl; assumption.
      * (* x is another rank of node b: handed over by r2s in stage 3 *)
        rewrite zcount_notin.
        2:{ intros Hin. destruct (remote_partners_shape n p rs x Hn Hp Rrs Hin) as (_ & _ & Eloc).
            unfold rs in Eloc. rewrite loc_of_nl in Eloc by assumption. rewrite <- Eqlx in Eloc. contradiction. }
        cbn [plus].
        apply (zcount_concat_one x G _ r2s (remote_partners_NoDup n p rs Hp) Hr2s).
        -- unfold G. apply zcount_nodup_in; [apply NoDup_filter, local_ranks_NoDup|]. apply filter_In. split.
           ++ unfold r2s. rewrite node_of_nl by assumption. apply (local_ranks_In p b x Hp). exists lx. split; [exact Hlx|exact Ex].
           ++ destruct (Z.eqb_spec x r2s) as [E|_]; [|reflexivity]. exfalso. apply El.
              rewrite E in Ex. unfold r2s in Ex. lia.
        -- intros r2 Hr2 Hne. apply zcount_notin. intros Hin. destruct (GIn r2 x Hin) as (E1 & _). apply Hne.
           apply (OnB ls r2 Hls Hr2). rewrite <- Eqb in E1. congruence.
    + (* through any other rank of the origin's node: nothing reaches node b *)
      intros r Hr Hne. destruct (s1In r Hr) as (Rr & _ & l & Hl & Er). subst r.
      assert (Hl_ne : l <> ls) by (intros ->; apply Hne; reflexivity).
      unfold F. rewrite zcount_app. rewrite zcount_notin.
      * rewrite zcount_concat_zero; [reflexivity|]. intros r2 Hr2. apply zcount_notin. intros Hin.
        destruct (GIn r2 x Hin) as (E1 & _). rewrite <- Eqb in E1.
        pose proof (OnB l r2 Hl Hr2 (eq_sym E1)) as E2. subst r2. apply (Served l Hl) in Hr2. contradiction.
      * intros Hin. destruct (remote_partners_shape n p (a0 * p + l) x Hn Hp Rr Hin) as (_ & _ & Eloc).
        rewrite loc_of_nl in Eloc by assumption. rewrite <- Eqlx in Eloc.
        rewrite Ex, Eloc in Hin. apply (Served l Hl) in Hin. contradiction.
Qed.

(* and nothing outside the communicator executes *)
Theorem bcast_execs_in_range n p o y :
  0 < n -> 0 < p -> 0 <= o < n * p -> In y (bcast_execs n p o) -> 0 <= y < n * p.
Proof.
  intros Hn Hp Ho. unfold bcast_execs. cbv zeta. pose proof (node_lt n p o Hp Ho) as Ha0.
  assert (LR : forall a z, 0 <= a < n -> In z (local_ranks_of p a) -> 0 <= z < n * p).
  { intros a z Ha Hz. apply (local_ranks_In p a z Hp) in Hz as (l & Hl & ->). apply nl_lt; assumption. }
  intros Hin. apply in_app_or in Hin as [Hin|Hin]; [apply (LR _ y Ha0 Hin)|].
  apply in_concat in Hin as (lst & Hl & Hy). apply in_map_iff in Hl as (r & <- & Hr).
  pose proof (LR _ r Ha0 Hr) as Rr.
  apply in_app_or in Hy as [Hy|Hy]; [apply (remote_partners_shape n p r y Hn Hp Rr Hy)|].
  apply in_concat in Hy as (l2 & Hl2 & Hy2). apply in_map_iff in Hl2 as (r2 & <- & Hr2).
  apply filter_In in Hy2 as (Hy2 & _).
  destruct (remote_partners_shape n p r r2 Hn Hp Rr Hr2) as (Rr2 & _).
  apply (LR (znode p r2) y (node_lt n p r2 Hp Rr2) Hy2).
Qed.

(* ---------------------------------------------------------------------- *)
(* The same for any uniform placement of the ranks on the nodes (block, round-robin, ...): the fan-out is the block
   fan-out transported along the renumbering  block rank a * p + l  |->  rk a l, which is a bijection of [0, n p). *)
Section PlacedCover.
  Variables n p : Z.
  Variable rk : Z -> Z -> Z.
  Variables nd lc : Z -> Z.
  Hypothesis Hn : 0 < n.
  Hypothesis Hp : 0 < p.
  Hypothesis Hpl : placement_ok n p rk nd lc.

  Definition to_pl (r : Z) : Z := rk (znode p r) (zloc p r).
  Definition of_pl (r : Z) : Z := nd r * p + lc r.

  Lemma to_pl_nl a l : 0 <= l < p -> to_pl (a * p + l) = rk a l.
  Proof. intros Hl. unfold to_pl. rewrite node_of_nl, loc_of_nl by assumption. reflexivity. Qed.

  Lemma to_pl_facts r : 0 <= r < n * p -> 0 <= to_pl r < n * p /\ nd (to_pl r) = znode p r /\ lc (to_pl r) = zloc p r.
  Proof.
    intros Hr. destruct Hpl as (Hfwd & _). unfold to_pl.
    apply Hfwd; [apply node_lt; assumption | apply loc_lt; assumption].
  Qed.

  Lemma of_to r : 0 <= r < n * p -> of_pl (to_pl r) = r.
  Proof.
    intros Hr. destruct (to_pl_facts r Hr) as (_ & E1 & E2). unfold of_pl. rewrite E1, E2.
    unfold znode, zloc. pose proof (Z.div_mod r p ltac:(lia)). lia.
  Qed.

  Lemma to_of r : 0 <= r < n * p -> to_pl (of_pl r) = r /\ 0 <= of_pl r < n * p.
  Proof.
    intros Hr. destruct Hpl as (_ & Hbwd). destruct (Hbwd r Hr) as (Ha & Hl & E). unfold of_pl.
    split; [rewrite to_pl_nl by assumption; exact E | nia].
  Qed.

  Lemma to_pl_eqb x y : 0 <= x < n * p -> 0 <= y < n * p -> (to_pl x =? to_pl y) = (x =? y).
  Proof.
    intros Hx Hy. destruct (Z.eqb_spec x y) as [->|Hne]; [apply Z.eqb_refl|].
    apply Z.eqb_neq. intros E. apply Hne. rewrite <- (of_to x Hx), <- (of_to y Hy), E. reflexivity.
  Qed.

  Lemma zcount_map_to_pl x l : 0 <= x < n * p -> (forall y, In y l -> 0 <= y < n * p) ->
    zcount (to_pl x) (map to_pl l) = zcount x l.
  Proof.
    intros Hx. induction l as [|y l IH]; intros Hl; cbn; [reflexivity|].
    rewrite (to_pl_eqb x y Hx (Hl y (or_introl eq_refl))). f_equal. apply IH. intros z Hz. apply Hl. right. exact Hz.
  Qed.

  (* the ranks of one node, as ygm::detail::layout::local_ranks() lists them *)
  Definition local_ranks_placed (a : Z) : list Z := map (fun l => rk a (Z.of_nat l)) (seq 0 (Z.to_nat p)).

  Lemma local_ranks_is_table me : local_ranks_placed (nd me) = m_local_ranks (placed_layout n p rk nd lc me).
  Proof. reflexivity. Qed.

  Definition bcast_execs_placed (o : Z) : list Z :=
    let s1 := local_ranks_placed (nd o) in
    s1 ++ concat (map (fun r =>
        let s2 := remote_partners_placed n p rk nd lc r in
        s2 ++ concat (map (fun r2 => filter (fun d => negb (d =? r2)) (local_ranks_placed (nd r2))) s2)) s1).

  Lemma local_ranks_transport a : local_ranks_placed a = map to_pl (local_ranks_of p a).
  Proof.
    unfold local_ranks_placed, local_ranks_of. rewrite map_map. apply map_ext_in. intros i Hi. apply in_seq in Hi.
    rewrite to_pl_nl by lia. reflexivity.
  Qed.

  Lemma remote_partners_transport r : 0 <= r < n * p ->
    remote_partners_placed n p rk nd lc (to_pl r) = map to_pl (remote_partners_spec n p r).
  Proof.
    intros Hr. destruct (to_pl_facts r Hr) as (_ & E1 & E2).
    unfold remote_partners_placed, remote_partners_spec. cbv zeta. rewrite E1, E2.
    destruct (_ <? n); [|reflexivity]. rewrite map_map. apply map_ext. intros b.
    rewrite to_pl_nl by (apply loc_lt; assumption). reflexivity.
  Qed.

  Lemma filter_transport r2 l : 0 <= r2 < n * p -> (forall d, In d l -> 0 <= d < n * p) ->
    filter (fun d => negb (d =? to_pl r2)) (map to_pl l) = map to_pl (filter (fun d => negb (d =? r2)) l).
  Proof.
    intros Hr2. induction l as [|d l IH]; intros Hl; cbn; [reflexivity|].
    rewrite (to_pl_eqb d r2 (Hl d (or_introl eq_refl)) Hr2).
    destruct (d =? r2); cbn; [|f_equal]; apply IH; intros z Hz; apply Hl; right; exact Hz.
  Qed.

  Lemma concat_map_map {A} (f : Z -> Z) (G : A -> list Z) l : map f (concat (map G l)) = concat (map (fun x => map f (G x)) l).
  Proof. rewrite concat_map, map_map. reflexivity. Qed.

  Theorem bcast_execs_transport o : 0 <= o < n * p -> bcast_execs_placed (to_pl o) = map to_pl (bcast_execs n p o).
  Proof.
    intros Ho. destruct (to_pl_facts o Ho) as (_ & E1 & _).
    pose proof (node_lt n p o Hp Ho) as Ha0.
    assert (LR : forall a z, 0 <= a < n -> In z (local_ranks_of p a) -> 0 <= z < n * p).
    { intros a z Ha Hz. apply (local_ranks_In p a z Hp) in Hz as (l & Hl & ->). apply nl_lt; assumption. }
    unfold bcast_execs_placed, bcast_execs. cbv zeta. rewrite E1.
    rewrite map_app. f_equal; [apply local_ranks_transport|].
    rewrite concat_map_map. rewrite local_ranks_transport, map_map. f_equal. apply map_ext_in. intros r Hr.
    pose proof (LR _ r Ha0 Hr) as Rr.
    rewrite map_app. rewrite (remote_partners_transport r Rr). f_equal.
    rewrite concat_map_map, map_map. f_equal. apply map_ext_in. intros r2 Hr2.
    destruct (remote_partners_shape n p r r2 Hn Hp Rr Hr2) as (Rr2 & _).
    destruct (to_pl_facts r2 Rr2) as (_ & F1 & _). rewrite F1.
    rewrite local_ranks_transport. apply filter_transport; [exact Rr2|].
    intros d Hd. apply (LR (znode p r2) d (node_lt n p r2 Hp Rr2) Hd).
  Qed.

  (* every rank of the communicator runs the broadcast function exactly once, whatever the placement *)
  Theorem bcast_placed_covers_every_rank_once o x :
    0 <= o < n * p -> 0 <= x < n * p -> zcount x (bcast_execs_placed o) = 1%nat.
  Proof.
    intros Ho Hx. destruct (to_of o Ho) as (Eo & Ro). destruct (to_of x Hx) as (Ex & Rx).
    rewrite <- Eo, <- Ex. rewrite (bcast_execs_transport (of_pl o) Ro).
    rewrite zcount_map_to_pl; [apply bcast_covers_every_rank_once; assumption | exact Rx|].
    intros y Hy. apply (bcast_execs_in_range n p (of_pl o) y Hn Hp Ro Hy).
  Qed.

  Theorem bcast_placed_execs_in_range o y : 0 <= o < n * p -> In y (bcast_execs_placed o) -> 0 <= y < n * p.
  Proof.
    intros Ho Hy. destruct (to_of o Ho) as (Eo & Ro). rewrite <- Eo in Hy. rewrite (bcast_execs_transport (of_pl o) Ro) in Hy.
    apply in_map_iff in Hy as (z & <- & Hz). apply to_pl_facts. apply (bcast_execs_in_range n p (of_pl o) z Hn Hp Ro Hz).
  Qed.
End PlacedCover.
