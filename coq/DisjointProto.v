(* DisjointProto.v — C17, the message level: in the walk protocol of disjoint_set_impl.hpp (DisjointSet.exec: walk /
   update_parent / resolve_merge, acting on stale information) no guard can fail and the forest invariant is kept,
   for EVERY delivery order of the pending visits - not only the orders tried in DisjointSet.protocol_runs_ok.

   The pool of undelivered visits carries an invariant that survives every mutation made by other visits, because
   the structure only moves monotonically: ranks never decrease, a non-root never becomes a root again and keeps its
   rank.  [NRp t x p]: "x is a non-root and the potential (rank, item) of p is above x's" is stable under that order.
     Walk me child op oi orank :  orank >= 0 -> op exists with rank >= orank;  child = me or NRp child me;  oi = op or NRp oi op
     UpdParent me np           :  NRp me np
     Resolve me mitem mrank    :  NRp mitem me;  me exists with rank >= mrank
   Whatever visit is delivered next, [exec] succeeds (every guarded mutation has its guard, the ASSERT_RELEASE of
   resolve_merge holds), the forest invariant [Inv] is kept, and the visits it sends satisfy the pool invariant. *)
From Coq Require Import ZArith List Bool Lia.
Import ListNotations.
From Ygm Require Import DisjointSet.
Local Open Scope Z_scope.

Lemma lexlt_trans r1 x1 r2 x2 r3 x3 : lexlt r1 x1 r2 x2 -> lexlt r2 x2 r3 x3 -> lexlt r1 x1 r3 x3.
Proof. unfold lexlt. lia. Qed.
Lemma lexlt_up r x rj p rj' : lexlt r x rj p -> rj <= rj' -> lexlt r x rj' p.
Proof. unfold lexlt. lia. Qed.
Lemma lexlt_le r x rj p : lexlt r x rj p -> r <= rj.
Proof. unfold lexlt. lia. Qed.

(* monotone evolution of the structure *)
Definition le_tab (t t' : table) : Prop :=
  forall x i, lookup t x = Some i ->
    exists i', lookup t' x = Some i' /\ irank i <= irank i' /\ (iparent i <> x -> iparent i' <> x /\ irank i' = irank i).

Lemma le_tab_refl t : le_tab t t.
Proof. intros x i H. exists i. split; [exact H|]. split; [lia|]. intros Hn. split; [exact Hn|reflexivity]. Qed.
Lemma le_tab_trans a b c : le_tab a b -> le_tab b c -> le_tab a c.
Proof.
  intros H1 H2 x i Hx. destruct (H1 x i Hx) as (i1 & L1 & R1 & N1). destruct (H2 x i1 L1) as (i2 & L2 & R2 & N2).
  exists i2. split; [exact L2|]. split; [lia|]. intros Hn. destruct (N1 Hn) as (A & B). destruct (N2 A) as (C0 & D). split; [exact C0|lia].
Qed.

Lemma le_tab_update_new t x i : lookup t x = None -> le_tab t (update t x i).
Proof.
  intros Hn y j Hy. assert (x <> y) by (intros ->; congruence).
  exists j. rewrite lookup_update_neq by assumption. split; [exact Hy|]. split; [lia|]. intros Hr. split; [exact Hr|reflexivity].
Qed.
Lemma le_tab_ensure t x : le_tab t (ensure t x).
Proof. unfold ensure. destruct (lookup t x) eqn:E; [apply le_tab_refl|apply le_tab_update_new, E]. Qed.

Lemma le_tab_set_parent t x i p : lookup t x = Some i -> p <> x -> le_tab t (update t x {| irank := irank i; iparent := p |}).
Proof.
  intros Hx Hp y j Hy. destruct (Z.eq_dec x y) as [<-|Hne].
  - rewrite Hx in Hy. injection Hy as <-. eexists. rewrite lookup_update_eq. split; [reflexivity|]. cbn. split; [lia|].
    intros _. split; [exact Hp|reflexivity].
  - exists j. rewrite lookup_update_neq by exact Hne. split; [exact Hy|]. split; [lia|]. intros Hr. split; [exact Hr|reflexivity].
Qed.
Lemma le_tab_bump t x i r : lookup t x = Some i -> iparent i = x -> irank i <= r -> le_tab t (update t x {| irank := r; iparent := x |}).
Proof.
  intros Hx Hroot Hr y j Hy. destruct (Z.eq_dec x y) as [<-|Hne].
  - rewrite Hx in Hy. injection Hy as <-. eexists. rewrite lookup_update_eq. split; [reflexivity|]. cbn. split; [exact Hr|].
    intros Hn. contradiction.
  - exists j. rewrite lookup_update_neq by exact Hne. split; [exact Hy|]. split; [lia|]. intros Hn. split; [exact Hn|reflexivity].
Qed.

(* x is a non-root and p's potential is above x's *)
Definition NRp (t : table) (x p : Z) : Prop :=
  exists i j, lookup t x = Some i /\ iparent i <> x /\ lookup t p = Some j /\ lexlt (irank i) x (irank j) p.

Lemma NRp_mono t t' x p : le_tab t t' -> NRp t x p -> NRp t' x p.
Proof.
  intros L (i & j & Hx & Hn & Hp & Hl).
  destruct (L x i Hx) as (i' & Hx' & _ & N). destruct (N Hn) as (Hn' & Er).
  destruct (L p j Hp) as (j' & Hp' & Rj & _).
  exists i', j'. split; [exact Hx'|]. split; [exact Hn'|]. split; [exact Hp'|]. rewrite Er. apply (lexlt_up _ _ _ _ _ Hl Rj).
Qed.

Lemma NRp_step t x m p : Inv t -> NRp t x m -> (forall i, lookup t m = Some i -> iparent i = p) -> p <> m -> NRp t x p.
Proof.
  intros HI (i & j & Hx & Hn & Hm & Hl) Hpar Hne.
  destruct (HI m j Hm) as (_ & [Hr|(k & Hk & Hl2)]); [rewrite (Hpar j Hm) in Hr; contradiction|].
  rewrite (Hpar j Hm) in *. exists i, k. split; [exact Hx|]. split; [exact Hn|]. split; [exact Hk|].
  apply (lexlt_trans _ _ _ _ _ _ Hl Hl2).
Qed.

Definition VI (t : table) (v : visit) : Prop :=
  match v with
  | Walk _ me child op oi orank =>
      (0 <= orank -> exists j, lookup t op = Some j /\ orank <= irank j) /\
      (child = me \/ NRp t child me) /\ (oi = op \/ NRp t oi op) /\ -1 <= orank
  | UpdParent me np => NRp t me np
  | Resolve me mitem mrank => NRp t mitem me /\ 0 <= mrank /\ exists j, lookup t me = Some j /\ mrank <= irank j
  end.

Lemma VI_mono t t' v : le_tab t t' -> VI t v -> VI t' v.
Proof.
  intros L. destruct v; cbn.
  - intros (A & B & C0 & D). split; [|split; [|split]]; try assumption.
    + intros H. destruct (A H) as (j & Hj & Hr). destruct (L _ _ Hj) as (j' & Hj' & R & _). exists j'. split; [exact Hj'|lia].
    + destruct B as [B|B]; [left; exact B|right; apply (NRp_mono _ _ _ _ L B)].
    + destruct C0 as [C0|C0]; [left; exact C0|right; apply (NRp_mono _ _ _ _ L C0)].
  - apply NRp_mono, L.
  - intros (A & B & j & Hj & Hr). split; [apply (NRp_mono _ _ _ _ L A)|]. split; [exact B|].
    destruct (L _ _ Hj) as (j' & Hj' & R & _). exists j'. split; [exact Hj'|lia].
Qed.

Lemma Inv_ensure t x : Inv t -> Inv (ensure t x).
Proof. intros H. unfold ensure. destruct (lookup t x) eqn:E; [exact H|apply create_preserves; assumption]. Qed.
Lemma ensure_lookup t x : exists i, lookup (ensure t x) x = Some i.
Proof. unfold ensure. destruct (lookup t x) eqn:E; [exists i; exact E|eexists; apply lookup_update_eq]. Qed.

(* a guarded mutation whose guard holds *)
Lemma guarded_set_ok t x p i j :
  Inv t -> lookup t x = Some i -> lookup t p = Some j -> lexlt (irank i) x (irank j) p ->
  exists t', guarded_set t x p = Some t' /\ Inv t' /\ le_tab t t' /\
             lookup t' x = Some {| irank := irank i; iparent := p |} /\ (forall y, y <> x -> lookup t' y = lookup t y) /\ p <> x.
Proof.
  intros HI Hx Hp Hl. unfold guarded_set. rewrite Hx, Hp.
  assert (Hb : lexltb (irank i) x (irank j) p = true) by (apply lexltb_spec; exact Hl). rewrite Hb.
  assert (Hpx : p <> x). { intros ->. rewrite Hx in Hp. injection Hp as <-. unfold lexlt in Hl. lia. }
  eexists. split; [reflexivity|]. split; [apply (set_parent_preserves t x i p j HI Hx Hp Hl)|].
  split; [apply le_tab_set_parent; assumption|]. split; [apply lookup_update_eq|]. split; [|exact Hpx].
  intros y Hy. apply lookup_update_neq. congruence.
Qed.

Theorem exec_ok t v : Inv t -> VI t v ->
  exists t' sends, exec t v = Some (t', sends) /\ Inv t' /\ le_tab t t' /\ Forall (VI t') sends.
Proof.
  intros HI HV. destruct v as [cb me child op oi orank|me np|me mitem mrank]; cbn [exec].
  - (* Walk *)
    destruct HV as (A & B & C0 & D).
    set (t1 := ensure t me). assert (I1 : Inv t1) by (apply Inv_ensure, HI). assert (L1 : le_tab t t1) by apply le_tab_ensure.
    destruct (ensure_lookup t me) as (i & Hi). fold t1 in Hi. rewrite Hi.
    destruct (I1 me i Hi) as (R0 & Hpar).
    assert (A1 : 0 <= orank -> exists j, lookup t1 op = Some j /\ orank <= irank j).
    { intros H. destruct (A H) as (j & Hj & Hr). destruct (L1 _ _ Hj) as (j' & Hj' & R & _). exists j'. split; [exact Hj'|lia]. }
    assert (B1 : child = me \/ NRp t1 child me) by (destruct B as [B|B]; [left; exact B|right; apply (NRp_mono _ _ _ _ L1 B)]).
    assert (C1 : oi = op \/ NRp t1 oi op) by (destruct C0 as [C0|C0]; [left; exact C0|right; apply (NRp_mono _ _ _ _ L1 C0)]).
    (* the compression message for the child *)
    assert (S0 : forall t2, le_tab t1 t2 -> Forall (VI t2) (if child =? me then [] else [UpdParent child (iparent i)])).
    { intros t2 L2. destruct (Z.eqb_spec child me) as [E|E]; [constructor|]. constructor; [|constructor]. cbn.
      destruct B1 as [B1|B1]; [contradiction|]. apply (NRp_mono _ _ _ _ L2).
      destruct (Z.eq_dec (iparent i) me) as [Er|Er]; [rewrite Er; exact B1|].
      apply (NRp_step t1 child me (iparent i) I1 B1); [|exact Er]. intros i0 H0. rewrite Hi in H0. injection H0 as <-. reflexivity. }
    (* me and its parent *)
    assert (MP : me = iparent i \/ NRp t1 me (iparent i)).
    { destruct Hpar as [Hr|(j & Hj & Hl)]; [left; symmetry; exact Hr|].
      destruct (Z.eq_dec (iparent i) me) as [E|E]; [left; symmetry; exact E|]. right. exists i, j. repeat split; assumption. }
    assert (PR : exists j, lookup t1 (iparent i) = Some j /\ irank i <= irank j).
    { destruct Hpar as [Hr|(j & Hj & Hl)]; [rewrite Hr; exists i; split; [exact Hi|lia]|]. exists j. split; [exact Hj|apply (lexlt_le _ _ _ _ Hl)]. }
    (* the walk handed over to the other side *)
    assert (WSwap : VI t1 (Walk cb op oi (iparent i) me (irank i))).
    { cbn. split; [intros _; exact PR|]. split; [exact C1|]. split; [exact MP|lia]. }
    (* the walk handed up to my parent (non-root case) *)
    assert (WUp : iparent i <> me -> VI t1 (Walk cb (iparent i) me op oi orank)).
    { intros Hn. cbn. split; [exact A1|]. split; [|split; [exact C1|exact D]].
      right. destruct MP as [E|MPn]; [congruence|exact MPn]. }
    destruct ((iparent i =? op) || (iparent i =? oi)).
    { exists t1. eexists. split; [reflexivity|]. split; [exact I1|]. split; [exact L1|]. apply S0, le_tab_refl. }
    destruct (Z.ltb_spec orank (irank i)) as [Hlt|Hge].
    { exists t1. eexists. split; [reflexivity|]. split; [exact I1|]. split; [exact L1|].
      apply Forall_app. split; [apply S0, le_tab_refl|constructor; [exact WSwap|constructor]]. }
    destruct (Z.eqb_spec (irank i) orank) as [Heq|Hneq].
    + destruct (Z.eqb_spec (iparent i) me) as [Hroot|Hnr].
      * destruct (Z.ltb_spec me op) as [Hmo|Hmo].
        -- destruct (A1 ltac:(lia)) as (j & Hj & Hrj).
           assert (Hl : lexlt (irank i) me (irank j) op) by (unfold lexlt; lia).
           destruct (guarded_set_ok t1 me op i j I1 Hi Hj Hl) as (t2 & G & I2 & L2 & Hme2 & Hoth & Hne).
           rewrite G. exists t2. eexists. split; [reflexivity|]. split; [exact I2|]. split; [apply (le_tab_trans _ _ _ L1 L2)|].
           apply Forall_app. split; [apply S0, L2|]. destruct cb; [constructor|]. constructor; [|constructor]. cbn.
           split; [|split; [lia|]].
           ++ exists {| irank := irank i; iparent := op |}, j. split; [exact Hme2|]. cbn. split; [exact Hne|].
              split; [rewrite Hoth by exact Hne; exact Hj|exact Hl].
           ++ exists j. split; [rewrite Hoth by exact Hne; exact Hj|lia].
        -- exists t1. eexists. split; [reflexivity|]. split; [exact I1|]. split; [exact L1|].
           apply Forall_app. split; [apply S0, le_tab_refl|constructor; [exact WSwap|constructor]].
      * exists t1. eexists. split; [reflexivity|]. split; [exact I1|]. split; [exact L1|].
        apply Forall_app. split; [apply S0, le_tab_refl|constructor; [exact (WUp Hnr)|constructor]].
    + destruct (Z.eqb_spec (iparent i) me) as [Hroot|Hnr].
      * destruct (A1 ltac:(lia)) as (j & Hj & Hrj).
        assert (Hl : lexlt (irank i) me (irank j) op) by (unfold lexlt; lia).
        destruct (guarded_set_ok t1 me op i j I1 Hi Hj Hl) as (t2 & G & I2 & L2 & _).
        rewrite G. exists t2. eexists. split; [reflexivity|]. split; [exact I2|]. split; [apply (le_tab_trans _ _ _ L1 L2)|]. apply S0, L2.
      * exists t1. eexists. split; [reflexivity|]. split; [exact I1|]. split; [exact L1|].
        apply Forall_app. split; [apply S0, le_tab_refl|constructor; [exact (WUp Hnr)|constructor]].
  - (* UpdParent *)
    cbn in HV.
    set (t1 := ensure t me). assert (I1 : Inv t1) by (apply Inv_ensure, HI). assert (L1 : le_tab t t1) by apply le_tab_ensure.
    pose proof (NRp_mono _ _ _ _ L1 HV) as (i & j & Hi & Hn & Hj & Hl). rewrite Hi.
    destruct (iparent i =? np).
    + exists t1, []. split; [reflexivity|]. split; [exact I1|]. split; [exact L1|constructor].
    + destruct (guarded_set_ok t1 me np i j I1 Hi Hj Hl) as (t2 & G & I2 & L2 & _).
      rewrite G. exists t2, []. split; [reflexivity|]. split; [exact I2|]. split; [apply (le_tab_trans _ _ _ L1 L2)|constructor].
  - (* Resolve *)
    destruct HV as (A & B & j0 & Hj0 & Hr0).
    set (t1 := ensure t me). assert (I1 : Inv t1) by (apply Inv_ensure, HI). assert (L1 : le_tab t t1) by apply le_tab_ensure.
    destruct (L1 _ _ Hj0) as (i & Hi & Ri & _). rewrite Hi.
    destruct (Z.ltb_spec (irank i) mrank) as [Hbad|_]; [lia|].
    destruct (Z.ltb_spec mrank (irank i)) as [Hlt|Hge].
    + exists t1, []. split; [reflexivity|]. split; [exact I1|]. split; [exact L1|constructor].
    + assert (Er : irank i = mrank) by lia.
      destruct (Z.eqb_spec (iparent i) me) as [Hroot|Hnr].
      * eexists. exists []. split; [reflexivity|].
        split; [apply (bump_preserves t1 me i (mrank + 1) I1 Hi Hroot); lia|].
        split; [apply (le_tab_trans _ _ _ L1); apply (le_tab_bump t1 me i (mrank + 1) Hi Hroot); lia|constructor].
      * exists t1. eexists. split; [reflexivity|]. split; [exact I1|]. split; [exact L1|].
        constructor; [|constructor]. cbn.
        apply (NRp_step t1 mitem me (iparent i) I1 (NRp_mono _ _ _ _ L1 A)); [|exact Hnr].
        intros i0 H0. rewrite Hi in H0. injection H0 as <-. reflexivity.
Qed.

(* ---- every delivery order ---- *)
Definition GI (st : table * list visit) : Prop := Inv (fst st) /\ Forall (VI (fst st)) (snd st).

Inductive step : table * list visit -> table * list visit -> Prop :=
| deliver t pool k v t' sends :
    nth_error pool k = Some v -> exec t v = Some (t', sends) -> step (t, pool) (t', remove_nth k pool ++ sends).

Lemma Forall_remove_nth {A} (P : A -> Prop) k l : Forall P l -> Forall P (remove_nth k l).
Proof.
  revert k; induction l as [|x l IH]; intros k H; [destruct k; constructor|].
  inversion H as [|? ? Hx Hl]; subst. destruct k; cbn; [exact Hl|constructor; [exact Hx|apply IH, Hl]].
Qed.

(* progress: whichever pending visit is delivered next, no guard fails *)
Theorem no_guard_fails t pool k v : GI (t, pool) -> nth_error pool k = Some v -> exists t' sends, exec t v = Some (t', sends).
Proof.
  intros (HI & HP) Hk. cbn in *. rewrite Forall_forall in HP. pose proof (HP v (nth_error_In _ _ Hk)) as HV.
  destruct (exec_ok t v HI HV) as (t' & sends & E & _). exists t', sends. exact E.
Qed.

(* preservation: after any delivery the forest invariant and the pool invariant hold again *)
Theorem step_preserves s s' : GI s -> step s s' -> GI s'.
Proof.
  intros (HI & HP) Hs. destruct Hs as [t pool k v t' sends Hk He]. cbn in *.
  pose proof HP as HP0. rewrite Forall_forall in HP0. pose proof (HP0 v (nth_error_In _ _ Hk)) as HV.
  destruct (exec_ok t v HI HV) as (t2 & s2 & E & I2 & L2 & V2). rewrite E in He. injection He as <- <-.
  split; [exact I2|]. cbn. apply Forall_app. split; [|exact V2].
  apply Forall_remove_nth. apply Forall_forall. intros w Hw. apply (VI_mono t t2 w L2). apply HP0, Hw.
Qed.

Inductive steps : table * list visit -> table * list visit -> Prop :=
| steps_refl s : steps s s
| steps_cons s s1 s2 : step s s1 -> steps s1 s2 -> steps s s2.

Lemma unions_GI l : GI ([], unionsb l).
Proof.
  split; [intros x i H; discriminate|]. cbn. unfold unionsb. apply Forall_forall. intros v Hv.
  apply in_map_iff in Hv as ((cb, (a, b)) & <- & _). cbn. split; [intros H; lia|]. split; [left; reflexivity|]. split; [left; reflexivity|lia].
Qed.

(* from any set of unions, along every delivery order: the forest stays acyclic with increasing potential, and the
   next delivery - whichever it is - cannot fail a guard or the assertion of resolve_merge *)
Theorem walk_protocol_safe l s :
  steps ([], unionsb l) s ->
  Inv (fst s) /\ forall k v, nth_error (snd s) k = Some v -> exists t' sends, exec (fst s) v = Some (t', sends).
Proof.
  intros H. assert (G : GI s).
  { remember ([], unionsb l) as s0 eqn:E0. assert (G0 : GI s0) by (subst; apply unions_GI). clear E0.
    induction H as [s|s s1 s2 Hs _ IH]; [exact G0|]. apply IH. apply (step_preserves s s1 G0 Hs). }
  split; [apply G|]. intros k v Hk. destruct s as (t, pool). apply (no_guard_fails t pool k v G Hk).
Qed.

(* run_pool (the executable scheduler used in the Examples) can only return None by running out of fuel *)
Theorem run_pool_never_fails_a_guard : forall fuel pick t pool, GI (t, pool) ->
  match run_pool fuel pick t pool with Some (t', _) => Inv t' | None => True end.
Proof.
  induction fuel as [|f IH]; intros pick t pool G; cbn [run_pool]; [exact I|].
  destruct pool as [|v0 rest] eqn:Ep; [apply G|]. rewrite <- Ep in *.
  set (k := Nat.modulo (pick f (length pool)) (length pool)).
  destruct (nth_error pool k) as [v|] eqn:Ek; [|exact I].
  destruct (no_guard_fails t pool k v G Ek) as (t' & sends & E). rewrite E.
  apply IH. apply (step_preserves (t, pool) _ G). econstructor; eassumption.
Qed.
