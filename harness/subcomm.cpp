// subcomm.cpp — C01 on communicators other than MPI_COMM_WORLD: a ygm::comm built on a given MPI communicator addresses the ranks
// of THAT communicator.  Scenario A: all ranks in reversed order (MPI_Comm_split with a rank-permuting key); scenario B: the odd and
// the even world ranks as two separate communicators.  Every rank sends every rank of its communicator (itself included) K messages
// whose payload encodes (scenario, colour, source, destination, sequence number); the handler records where it runs.
//   X <scenario> <colour> <rank in the communicator> : <src>,<dst>,<seq>,<payload ok 0|1> ...     everything executed on this rank
#include <ygm/comm.hpp>
#include <cstdio>
#include <string>
#include <vector>

struct rec { int sc, colour, src, dst, seq, ok; };
static std::vector<rec> g_got;
static int              g_me = -1, g_colour = -1;
static long code(int sc, int colour, int src, int dst, int seq) { return ((((long)sc * 7 + colour) * 131 + src) * 131 + dst) * 1009 + seq; }

static void run(int sc, int colour, MPI_Comm mc, int K) {
  ygm::comm c(mc);
  g_me = c.rank(); g_colour = colour;
  g_got.clear();
  for (int d = 0; d < c.size(); ++d)
    for (int k = 0; k < K; ++k)
      c.async(d, [](int sc, int colour, int src, int dst, int seq, long payload, const std::string &tail) {
        g_got.push_back({sc, colour, src, dst, seq, (payload == code(sc, colour, src, dst, seq) && tail == std::to_string(payload)) ? 1 : 0});
      }, sc, colour, c.rank(), d, k, code(sc, colour, c.rank(), d, k), std::to_string(code(sc, colour, c.rank(), d, k)));
  c.barrier();
  std::string s = "X " + std::to_string(sc) + " " + std::to_string(colour) + " " + std::to_string(c.rank()) + " " + std::to_string(c.size()) + " :";
  for (auto &r : g_got)
    s += " " + std::to_string(r.sc) + "," + std::to_string(r.colour) + "," + std::to_string(r.src) + "," + std::to_string(r.dst) + "," + std::to_string(r.seq) + "," + std::to_string(r.ok);
  puts(s.c_str());
  fflush(stdout);
}

int main(int argc, char **argv) {
  MPI_Init(&argc, &argv);
  int wr, ws;
  MPI_Comm_rank(MPI_COMM_WORLD, &wr);
  MPI_Comm_size(MPI_COMM_WORLD, &ws);
  const int K = 3;
  {
    MPI_Comm rev;
    MPI_Comm_split(MPI_COMM_WORLD, 0, ws - 1 - wr, &rev);     // same members, reversed numbering
    run(0, 0, rev, K);
    MPI_Comm_free(&rev);
  }
  MPI_Barrier(MPI_COMM_WORLD);
  {
    MPI_Comm half;
    MPI_Comm_split(MPI_COMM_WORLD, wr % 2, wr, &half);        // two disjoint communicators used at the same time
    run(1, wr % 2, half, K);
    MPI_Comm_free(&half);
  }
  MPI_Barrier(MPI_COMM_WORLD);
  printf("DONE %d\n", wr);
  MPI_Finalize();
  return 0;
}
