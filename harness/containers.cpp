// containers.cpp — executes an operation history on the real YGM containers
// (DESIGN §3.3, C11-C16, C20).
//
//   containers <history-file> <outdir>
//
// History lines:  op <id> <rank> <epoch> <code> <args...>
// Every rank runs its own ops of epoch 1, then barrier, dumps, queries; epoch 2; ...
// Codes (k key, v value, c constant, i index, r rank, n count):
//  map<long,long> (default 7):  MI k v | MIM k v | MV k c | MVE k c | MIV k v c | MRA k v | MRX k v | MRN k v (reducer 2*stored+offered) | ME k
//  multimap<long,long> (dflt 7): XI k v | XV k c | XVG k | XVE k c | XE k
//  set<long>: SI k | SE k | SIM k | SIC k | SXM k | SXC k          multiset<long>: TI k | TE k
//  counting_set<long>: CI k n | CH r k n   (n inserts from main / from a handler on rank r)
//  reducing adapter (+) over map<long,long>: RA k v | RH r k v ; over array<long>(37): RB i v
//  bag<long>: BI v | BID v r | BIV n v r        array<long>(alen, 5): AS i v | AV i c | AP i v | AX i v | AI i | AM i v
// Output lines (stdout, one writer at a time under simmpi):
//  D <epoch> <rank> <container> : <raw local state>      T <epoch> <rank> : <opid>=<visitor calls> ...
//  Q <epoch> <rank> <query> : <result>
#include <ygm/comm.hpp>
#include <ygm/container/array.hpp>
#include <ygm/container/bag.hpp>
#include <ygm/container/counting_set.hpp>
#include <ygm/container/map.hpp>
#include <ygm/container/set.hpp>
#include <ygm/container/detail/reducing_adapter.hpp>
#include <ygm/container/reduce_by_key.hpp>
#include <cstdio>
#include <fstream>
#include <functional>
#include <map>
#include <sstream>
#include <string>
#include <vector>

using namespace ygm::container;

struct Op {
  long id, rank, epoch;
  std::string code;
  std::vector<long> a;
};

static std::map<long, long> g_tally;
static counting_set<long>  *g_cset = nullptr;
static void                *g_red = nullptr;
static int                  g_lib_depth = 0;
// cache traces (VERIF_CTRACE=1): every operation on the write-combining caches of counting_set and of the reducing adapter
// over RM, with the state of the touched slot afterwards; replayed against coq/Cache.v (C15, C16)
static bool                               g_ctrace = false;
static int                                g_me = -1;
static std::function<std::string(long)>   g_cslot, g_rslot;
static std::function<bool(long)>          g_rcached;      // does a reduce of this key on this rank go through the cache?

static void line(const std::string &s) {
  fputs(s.c_str(), stdout);
  fputc('\n', stdout);
  fflush(stdout);
}

template <typename T>
static std::string join(const T &v) {
  std::string s;
  for (const auto &x : v) s += " " + std::to_string(x);
  return s;
}

static std::vector<std::string> tricky_strings() {
  return {"", "plain", "with \"quotes\"", "back\\slash", "tab\there", "new\nline", "caf\xc3\xa9", "\x01\x02ctl", "{\"json\":[1,2]}", "a,b;c", " lead", "trail ", "/slash/", "\xe2\x82\xac", "'single'", "percent%d"};
}

int main(int argc, char **argv) {
  if (argc < 3) return 2;
  std::vector<Op> ops;
  long            nepochs = 0, alen = 23;
  {
    std::ifstream in(argv[1]);
    std::string   l;
    while (std::getline(in, l)) {
      std::istringstream ss(l);
      std::string        kw;
      ss >> kw;
      if (kw == "alen") ss >> alen;
      if (kw != "op") continue;
      Op o;
      ss >> o.id >> o.rank >> o.epoch >> o.code;
      long v;
      while (ss >> v) o.a.push_back(v);
      nepochs = std::max(nepochs, o.epoch);
      ops.push_back(o);
    }
  }
  std::string outdir = argv[2];
#ifdef YGM_VERIF
  ygm::verif::hooks.exec_begin = [](void *, uint16_t lid, void *) {
    if (++g_lib_depth > 1) line("NESTED lid=" + std::to_string(lid));
  };
  ygm::verif::hooks.exec_end = [](void *, uint16_t, void *) { --g_lib_depth; };
#endif
  ygm::comm world(&argc, &argv);
  int       me = world.rank(), R = world.size();
  {
    map<long, long>          M(world, 7);
    multimap<long, long>     X(world, 7);
    set<long>                S(world);
    multiset<long>           T(world);
    counting_set<long>       C(world);
    map<long, long>          RM(world, 1000);     // a non-zero default: a reduction into an absent key starts from the contribution, not from the default
    array<long>              RARR(world, 37, 0);
    bag<long>                B(world);
    array<long>              A(world, alen, 5);
    g_cset = &C;
    g_me = me;
    g_ctrace = getenv("VERIF_CTRACE") != nullptr;
    g_cslot = [&C](long k) {
      auto &e = C.m_count_cache[std::hash<long>{}(k) % C.count_cache_size];
      return std::to_string(e.first) + " " + std::to_string(e.second);
    };
    auto plus = [](const long &a, const long &b) { return a + b; };
    auto redm = detail::make_reducing_adapter(RM, plus);
    auto reda = detail::make_reducing_adapter(RARR, plus);
    using redm_t = decltype(redm);
    g_red        = &redm;
    g_rslot = [&redm](long k) {
      auto &e = redm.m_cache[std::hash<long>{}(k) % redm.cache_size];
      return std::to_string(e.key) + " " + std::to_string(e.value) + " " + std::to_string((int)e.occupied);
    };
    g_rcached = [&RM, me](long k) { return RM.owner(k) != me; };

    for (long e = 1; e <= nepochs; ++e) {
      if (g_ctrace) line("CT " + std::to_string(me) + " BE");     // no barrier runs on this rank until the next BB
      for (const Op &o : ops) {
        if (o.epoch != e || o.rank != me) continue;
        const auto &a = o.a;
        const std::string &c = o.code;
        if (c == "MI") M.async_insert(a[0], a[1]);
        else if (c == "MIM") M.async_insert_if_missing(a[0], a[1]);
        else if (c == "MV") M.async_visit(a[0], [](const long &k, long &v, long id, long cc) { v = v * 3 + cc; g_tally[id]++; }, o.id, a[1]);
        else if (c == "MVE") M.async_visit_if_exists(a[0], [](const long &k, long &v, long id, long cc) { v = v * 3 + cc; g_tally[id]++; }, o.id, a[1]);
        else if (c == "MIV") M.async_insert_if_missing_else_visit(a[0], a[1], [](const long &k, long &v, const long &nv, long id, long cc) { v = v * 5 + nv + cc; g_tally[id]++; }, o.id, a[2]);
        else if (c == "MRA") M.async_reduce(a[0], a[1], std::plus<long>());
        else if (c == "MRX") M.async_reduce(a[0], a[1], [](const long &x, const long &y) { return std::max(x, y); });
        else if (c == "MRN") M.async_reduce(a[0], a[1], [](const long &x, const long &y) { return 2 * x + y; });
        else if (c == "ME") M.async_erase(a[0]);
        else if (c == "XI") X.async_insert(a[0], a[1]);
        else if (c == "XV") X.async_visit(a[0], [](const long &k, long &v, long id, long cc) { v = v * 3 + cc; g_tally[id]++; }, o.id, a[1]);
        else if (c == "XVG") X.async_visit_group(a[0], [](auto first, auto last, long id) { long n = 0; for (auto it = first; it != last; ++it) ++n; g_tally[id] += 1 + 1000 * n; }, o.id);
        else if (c == "XVE") X.async_visit_if_exists(a[0], [](const long &k, long &v, long id, long cc) { v = v * 3 + cc; g_tally[id]++; }, o.id, a[1]);
        else if (c == "XE") X.async_erase(a[0]);
        else if (c == "SI") S.async_insert(a[0]);
        else if (c == "SE") S.async_erase(a[0]);
        else if (c == "SIM") S.async_insert_exe_if_missing(a[0], [](const long &k, long id) { g_tally[id]++; }, o.id);
        else if (c == "SIC") S.async_insert_exe_if_contains(a[0], [](const long &k, long id) { g_tally[id]++; }, o.id);
        else if (c == "SXM") S.async_exe_if_missing(a[0], [](const long &k, long id) { g_tally[id]++; }, o.id);
        else if (c == "SXC") S.async_exe_if_contains(a[0], [](const long &k, long id) { g_tally[id]++; }, o.id);
        else if (c == "TI") T.async_insert(a[0]);
        else if (c == "TE") T.async_erase(a[0]);
        else if (c == "CI") {
          for (long i = 0; i < a[1]; ++i) {
            if (g_ctrace) line("CT " + std::to_string(me) + " M C " + std::to_string(a[0]));
            C.async_insert(a[0]);
            if (g_ctrace) line("CT " + std::to_string(me) + " E C " + g_cslot(a[0]));
          }
        }
        else if (c == "CH") world.async((int)a[0], [](long k, long n) {
          for (long i = 0; i < n; ++i) {
            g_cset->async_insert(k);
            if (g_ctrace) line("CT " + std::to_string(g_me) + " H C " + std::to_string(k) + " " + g_cslot(k));
          } }, a[1], a[2]);
        else if (c == "RA") {
          bool t = g_ctrace && g_rcached(a[0]);
          if (t) line("CT " + std::to_string(me) + " M R " + std::to_string(a[0]) + " " + std::to_string(a[1]));
          redm.async_reduce(a[0], a[1]);
          if (t) line("CT " + std::to_string(me) + " E R " + g_rslot(a[0]));
        }
        else if (c == "RH") world.async((int)a[0], [](long k, long v) {
          ((redm_t *)g_red)->async_reduce(k, v);
          if (g_ctrace && g_rcached(k)) line("CT " + std::to_string(g_me) + " H R " + std::to_string(k) + " " + std::to_string(v) + " " + g_rslot(k));
        }, a[1], a[2]);
        else if (c == "RB") reda.async_reduce((size_t)a[0], a[1]);
        else if (c == "BI") B.async_insert(a[0]);
        else if (c == "BID") B.async_insert(a[0], (int)a[1]);
        else if (c == "BIV") { std::vector<long> v((size_t)a[0], a[1]); B.async_insert(v, (int)a[2]); }
        else if (c == "AS") A.async_set((size_t)a[0], a[1]);
        else if (c == "AV") A.async_visit((size_t)a[0], [](const size_t i, long &v, long id, long cc) { v = v * 3 + cc; g_tally[id]++; }, o.id, a[1]);
        else if (c == "AP") A.async_plus((size_t)a[0], a[1]);
        else if (c == "AX") A.async_bit_xor((size_t)a[0], a[1]);
        else if (c == "AM") A.async_minus((size_t)a[0], a[1]);
        else if (c == "AI") A.async_increment((size_t)a[0]);
      }
      if (g_ctrace) line("CT " + std::to_string(me) + " BB");     // from here on (barrier, dumps, collective queries) the caches may be flushed at any time
      world.barrier();
      // ---- raw local state (the rank's own part of every container) -----------------------------
      std::string pre = "D " + std::to_string(e) + " " + std::to_string(me) + " ";
      {
        std::string s = pre + "M :";
        for (auto &kv : M.m_impl.m_local_map) s += " " + std::to_string(kv.first) + "=" + std::to_string(kv.second) + "@" + std::to_string(M.owner(kv.first));
        line(s);
        s = pre + "X :";
        for (auto &kv : X.m_impl.m_local_map) s += " " + std::to_string(kv.first) + "=" + std::to_string(kv.second) + "@" + std::to_string(X.m_impl.owner(kv.first));
        line(s);
        s = pre + "S :";
        for (auto &k : S.m_impl.m_local_set) s += " " + std::to_string(k) + "@" + std::to_string(S.m_impl.owner(k));
        line(s);
        s = pre + "T :";
        for (auto &k : T.m_impl.m_local_set) s += " " + std::to_string(k) + "@" + std::to_string(T.m_impl.owner(k));
        line(s);
        s = pre + "C :";
        for (auto &kv : C.m_map.m_impl.m_local_map) s += " " + std::to_string(kv.first) + "=" + std::to_string(kv.second);
        line(s);
        s = pre + "RM :";
        for (auto &kv : RM.m_impl.m_local_map) s += " " + std::to_string(kv.first) + "=" + std::to_string(kv.second);
        line(s);
        s = pre + "RARR :";
        RARR.local_for_all([&](const size_t i, long &v) { s += " " + std::to_string(i) + "=" + std::to_string(v); });
        line(s);
        s = pre + "B :" + join(B.m_local_bag);
        line(s);
        s = pre + "A :";
        A.local_for_all([&](const size_t i, long &v) { s += " " + std::to_string(i) + "=" + std::to_string(v); });
        line(s);
        s = "T " + std::to_string(e) + " " + std::to_string(me) + " :";
        for (auto &kv : g_tally) s += " " + std::to_string(kv.first) + "=" + std::to_string(kv.second);
        g_tally.clear();
        line(s);
      }
      // ---- collective queries (every rank must see the same answers) ------------------------------
      std::string q = "Q " + std::to_string(e) + " " + std::to_string(me) + " ";
      line(q + "M.size : " + std::to_string(M.size()));
      line(q + "X.size : " + std::to_string(X.size()));
      line(q + "S.size : " + std::to_string(S.size()));
      line(q + "T.size : " + std::to_string(T.size()));
      line(q + "C.size : " + std::to_string(C.size()));
      line(q + "C.count_all : " + std::to_string(C.count_all()));
      line(q + "B.size : " + std::to_string(B.size()));
      {
        std::string s = q + "counts :";
        for (long k = 0; k < 6; ++k)
          s += " " + std::to_string(M.count(k)) + "/" + std::to_string(X.count(k)) + "/" + std::to_string(S.count(k)) + "/" + std::to_string(T.count(k)) + "/" + std::to_string(C.count(k));
        line(s);
        std::vector<long> keys{0, 1, 2, 3, 4, 5, 1048576, 1048577, 99};
        auto gm = M.all_gather(keys);
        s = q + "M.all_gather :";
        for (auto &kv : gm) s += " " + std::to_string(kv.first) + "=" + std::to_string(kv.second);
        line(s);
        {
          // multimap: every rank (the owner of a key included) gets all the values of every key asked for
          auto gx = X.all_gather(keys);
          std::vector<std::pair<long, long>> v(gx.begin(), gx.end());
          std::sort(v.begin(), v.end());
          std::string sx = q + "X.all_gather :";
          for (auto &kv : v) sx += " " + std::to_string(kv.first) + "=" + std::to_string(kv.second);
          line(sx);
        }
        auto gc = C.all_gather(keys);
        s = q + "C.all_gather :";
        for (auto &kv : gc) s += " " + std::to_string(kv.first) + "=" + std::to_string(kv.second);
        line(s);
        auto tk = C.topk(3, [](const auto &x, const auto &y) { return x.second != y.second ? x.second > y.second : x.first < y.first; });
        s = q + "C.topk3 :";
        for (auto &kv : tk) s += " " + std::to_string(kv.first) + "=" + std::to_string(kv.second);
        line(s);
        auto tm = M.topk(2, [](const auto &x, const auto &y) { return x.second != y.second ? x.second > y.second : x.first < y.first; });
        s = q + "M.topk2 :";
        for (auto &kv : tm) s += " " + std::to_string(kv.first) + "=" + std::to_string(kv.second);
        line(s);
        {
          // k larger than the number of entries, and a least-first comparator
          auto desc = [](const auto &x, const auto &y) { return x.second != y.second ? x.second > y.second : x.first < y.first; };
          auto asc  = [](const auto &x, const auto &y) { return x.second != y.second ? x.second < y.second : x.first < y.first; };
          auto dump = [&](const char *name, const auto &v) {
            std::string t = q + name + " :";
            for (auto &kv : v) t += " " + std::to_string(kv.first) + "=" + std::to_string(kv.second);
            line(t);
          };
          dump("C.topk50", C.topk(50, desc));
          dump("C.topk4a", C.topk(4, asc));
          dump("M.topk50", M.topk(50, desc));
          dump("M.topk3a", M.topk(3, asc));
        }
        {
          // array: both forms of for_all present every element once (global index form: index and value; value-only form)
          long vc = 0, vs = 0, ic = 0, is = 0, ix = 0;
          A.for_all([&](long &v) { vc += 1; vs += v; });
          A.for_all([&](const size_t i, long &v) { ic += 1; is += v; ix += (long)i; });
          line(q + "A.for_all : " + std::to_string(vc) + " " + std::to_string(vs) + " " + std::to_string(ic) + " " + std::to_string(is) + " " + std::to_string(ix));
        }
        long fa = 0, fx = 0;
        M.for_all([&](const long &k, long &v) { fa += 1; });
        C.for_all([&](const long &k, size_t &v) { fx += (long)v; });
        line(q + "for_all : " + std::to_string(fa) + " " + std::to_string(fx));
        auto gv = B.gather_to_vector(0);
        std::sort(gv.begin(), gv.end());
        line(q + "B.gather0 :" + join(gv));
      }
    }
    // ---- consume_all (C12): every element handed to the callback exactly once, the container left empty ----
    {
      set<long>      S4(world);
      multiset<long> T4(world);
      for (auto &k : S.m_impl.m_local_set) S4.async_insert(k + 1);          // same sizes as S / T, other owners
      for (auto &k : T.m_impl.m_local_set) { T4.async_insert(k + 1); }
      T4.async_insert(4242); T4.async_insert(4242);                          // a key held several times, inserted by every rank
      world.barrier();
      std::string s = "W " + std::to_string(me) + " S4 :";
      for (auto &k : S4.m_impl.m_local_set) s += " " + std::to_string(k);
      line(s);
      s = "W " + std::to_string(me) + " T4 :";
      for (auto &k : T4.m_impl.m_local_set) s += " " + std::to_string(k);
      line(s);
      world.cf_barrier();
      std::map<long, long> cs, ct;
      S4.consume_all([&cs](const long &k) { cs[k]++; });
      T4.consume_all([&ct](const long &k) { ct[k]++; });
      s = "W " + std::to_string(me) + " S4C :";
      for (auto &kv : cs) s += " " + std::to_string(kv.first) + "=" + std::to_string(kv.second);
      line(s);
      s = "W " + std::to_string(me) + " T4C :";
      for (auto &kv : ct) s += " " + std::to_string(kv.first) + "=" + std::to_string(kv.second);
      line(s);
      line("W " + std::to_string(me) + " AFTER : " + std::to_string(S4.size()) + " " + std::to_string(T4.size()));
      world.cf_barrier();
      {
        // iterative use: the callback inserts smaller keys into the set being consumed (chains l*C+c -> (l-1)*C+c)
        set<long>            S6(world);
        const long           CH = 24, LV = 5;
        std::map<long, long> handed;
        for (long c = me; c < CH; c += R) S6.async_insert((LV - 1) * CH + c);
        int rounds = 0;
        while (S6.size() > 0 && rounds < 40) {
          S6.consume_all([&](const long &k) { handed[k]++; if (k >= CH) S6.async_insert(k - CH); });
          ++rounds;
        }
        s = "W " + std::to_string(me) + " S6C :";
        for (auto &kv : handed) s += " " + std::to_string(kv.first) + "=" + std::to_string(kv.second);
        line(s);
        line("W " + std::to_string(me) + " S6AFTER : " + std::to_string(S6.size()) + " " + std::to_string(rounds));
        world.cf_barrier();
      }
    }
    // ---- counting_set (C15): long runs of one key inside one epoch (the cached count must not wrap or saturate silently) ----
    {
      counting_set<long> CS2(world);
      const long         reps = 70000;
      for (long i = 0; i < reps; ++i) CS2.async_insert(9000 + me);          // a key per rank, 70000 times
      for (long i = 0; i < 33000; ++i) CS2.async_insert(8888);              // one key from every rank, 33000 times each
      world.barrier();
      std::string s = "W " + std::to_string(me) + " CS2 :";
      for (auto &kv : CS2.m_map.m_impl.m_local_map) s += " " + std::to_string(kv.first) + "=" + std::to_string(kv.second);
      line(s);
      world.cf_barrier();
    }
    // ---- reduce_by_key_map (C16): over a rank-local vector of pairs (colliding cache slots) and over a distributed map ----
    {
      const long keys[5] = {0, 1, 1048576, 99, 2097153};
      std::vector<std::pair<long, long>> local;
      for (long i = 0; i < 5 + me; ++i) local.push_back({keys[(i * 7 + me) % 5], i + 10 * me + 1});
      auto plusl = [](const long &a, const long &b) { return a + b; };
      auto r1 = reduce_by_key_map<long, long>(local, plusl, world);
      // a distributed collection: a bag of pairs holding the same pairs, inserted round robin (so they sit on other ranks)
      bag<std::pair<long, long>> PB(world);
      for (auto &kv : local) PB.async_insert(kv);
      auto r2 = reduce_by_key_map<long, long>(PB, plusl, world);
      // an operator for which the map's default value (0) is not an identity on the contributed values (all positive): min
      auto minl = [](const long &a, const long &b) { return a < b ? a : b; };
      auto r3 = reduce_by_key_map<long, long>(local, minl, world);
      world.barrier();
      {
        std::string s3 = "Y " + std::to_string(me) + " RBK3 :";
        for (auto &kv : r3.m_impl.m_local_map) s3 += " " + std::to_string(kv.first) + "=" + std::to_string(kv.second);
        line(s3);
      }
      std::string s = "Y " + std::to_string(me) + " RBK1 :";
      for (auto &kv : r1.m_impl.m_local_map) s += " " + std::to_string(kv.first) + "=" + std::to_string(kv.second);
      line(s);
      s = "Y " + std::to_string(me) + " RBK2 :";
      for (auto &kv : r2.m_impl.m_local_map) s += " " + std::to_string(kv.first) + "=" + std::to_string(kv.second);
      line(s);
      world.cf_barrier();
    }
    // ---- serialization round trip (C20): pending operations are part of the image ------------------
    {
      map<std::string, std::string> SM(world, "dflt");
      auto                          tr = tricky_strings();
      for (size_t i = me; i < tr.size(); i += R) SM.async_insert(tr[i], tr[(i * 7 + 3) % tr.size()]);
      M.async_insert(424242 + me, me);     // pending when serialize is called
      B.async_insert(777000 + me);
      std::string base = outdir + "/ser_";
      M.serialize(base + "M");
      X.serialize(base + "X");
      S.serialize(base + "S");
      T.serialize(base + "T");
      B.serialize(base + "B");
      C.serialize(base + "C");
      SM.serialize(base + "SM");
      map<long, long>               M2(world, 99);
      multimap<long, long>          X2(world, 99);
      set<long>                     S2(world);
      multiset<long>                T2(world);
      bag<long>                     B2(world);
      counting_set<long>            C2(world);
      map<std::string, std::string> SM2(world, "other");
      M2.async_insert(5, 55555);     // pre-populated targets must be replaced
      M2.async_insert(31337 + me, 1);
      X2.async_insert(5, 1);
      S2.async_insert(31337 + me);
      T2.async_insert(31337);
      B2.async_insert(31337);
      C2.async_insert(31337);
      SM2.async_insert("stale", "x");
      world.barrier();
      M2.deserialize(base + "M");
      X2.deserialize(base + "X");
      S2.deserialize(base + "S");
      T2.deserialize(base + "T");
      B2.deserialize(base + "B");
      C2.deserialize(base + "C");
      SM2.deserialize(base + "SM");
      world.barrier();
      // operations issued right after deserialize() returned must survive (every rank has loaded before anyone continues)
      map<long, long> M3(world, 99);
      set<long>       S3(world);
      bag<long>       B3(world);
      M3.deserialize(base + "M");
      M3.async_insert(515151 + me, 7);
      S3.deserialize(base + "S");
      S3.async_insert(515151 + me);
      B3.deserialize(base + "B");
      B3.async_insert(515151 + me, (me + 1) % R);
      world.barrier();
      // checkpoint and continue: operations issued after serialize() returned are not part of the image
      map<long, long>    M4(world, 3), M5(world, 4);
      set<long>          S4(world), S5(world);
      bag<long>          B4(world), B5(world);
      counting_set<long> C4(world), C5(world);
      M4.async_insert(me, 100 + me);
      S4.async_insert(me);
      B4.async_insert(me);
      C4.async_insert(7);
      M4.serialize(base + "M4");
      for (int k = 0; k < R; ++k) M4.async_insert(616161 + me * R + k, 9);
      S4.serialize(base + "S4");
      for (int k = 0; k < R; ++k) S4.async_insert(616161 + me * R + k);
      B4.serialize(base + "B4");
      for (int k = 0; k < R; ++k) B4.async_insert(616161 + me * R + k, k);
      C4.serialize(base + "C4");
      for (int k = 0; k < R; ++k) C4.async_insert(616161 + me * R + k);
      world.barrier();
      M5.deserialize(base + "M4");
      S5.deserialize(base + "S4");
      B5.deserialize(base + "B4");
      C5.deserialize(base + "C4");
      world.barrier();
      // images in which some ranks own nothing (and an empty image), loaded into targets that hold something on every rank
      bag<long>       B6(world), B7(world), B8(world), B9(world);
      map<long, long> M6(world, 1), M7(world, 2), M8(world, 3), M9(world, 4);
      set<long>       S6(world), S7(world), S8(world), S9(world);
      if (me == 0) { B6.async_insert(71, 0); B6.async_insert(72, 0); M6.async_insert(0, 5); S6.async_insert(0); }
      for (int k = 0; k < 3 * R; ++k) { B7.async_insert(900 + k, k % R); B9.async_insert(950 + k, k % R); M7.async_insert(1000 + k + me * 100, 1); M9.async_insert(2000 + k + me * 100, 1);
                                        S7.async_insert(1000 + k + me * 100); S9.async_insert(2000 + k + me * 100); }
      B6.serialize(base + "B6"); B8.serialize(base + "B8"); M6.serialize(base + "M6"); M8.serialize(base + "M8"); S6.serialize(base + "S6"); S8.serialize(base + "S8");
      B7.deserialize(base + "B6"); B9.deserialize(base + "B8"); M7.deserialize(base + "M6"); M9.deserialize(base + "M8"); S7.deserialize(base + "S6"); S9.deserialize(base + "S8");
      world.barrier();
      auto dumpm = [&](const std::string &tag, auto &m) {
        std::string s = "Z " + std::to_string(me) + " " + tag + " dflt=" + std::to_string(m.m_impl.m_default_value) + " :";
        for (auto &kv : m.m_impl.m_local_map) s += " " + std::to_string(kv.first) + "=" + std::to_string(kv.second);
        line(s);
      };
      dumpm("M", M); dumpm("M2", M2); dumpm("X", X); dumpm("X2", X2); dumpm("M3", M3); dumpm("M5", M5); dumpm("M6", M6); dumpm("M7", M7); dumpm("M8", M8); dumpm("M9", M9);
      auto dumps = [&](const std::string &tag, auto &m) {
        std::string s = "Z " + std::to_string(me) + " " + tag + " :";
        for (auto &k : m.m_impl.m_local_set) s += " " + std::to_string(k);
        line(s);
      };
      dumps("S", S); dumps("S2", S2); dumps("T", T); dumps("T2", T2); dumps("S3", S3); dumps("S5", S5); dumps("S6", S6); dumps("S7", S7); dumps("S8", S8); dumps("S9", S9);
      line("Z " + std::to_string(me) + " B3 rr=" + std::to_string(B3.m_round_robin) + " :" + join(B3.m_local_bag));
      line("Z " + std::to_string(me) + " B6 rr=" + std::to_string(B6.m_round_robin) + " :" + join(B6.m_local_bag));
      line("Z " + std::to_string(me) + " B7 rr=" + std::to_string(B7.m_round_robin) + " :" + join(B7.m_local_bag));
      line("Z " + std::to_string(me) + " B8 rr=" + std::to_string(B8.m_round_robin) + " :" + join(B8.m_local_bag));
      line("Z " + std::to_string(me) + " B9 rr=" + std::to_string(B9.m_round_robin) + " :" + join(B9.m_local_bag));
      line("Z " + std::to_string(me) + " B5 rr=" + std::to_string(B5.m_round_robin) + " :" + join(B5.m_local_bag));
      line("Z " + std::to_string(me) + " B rr=" + std::to_string(B.m_round_robin) + " :" + join(B.m_local_bag));
      line("Z " + std::to_string(me) + " B2 rr=" + std::to_string(B2.m_round_robin) + " :" + join(B2.m_local_bag));
      {
        std::string s = "Z " + std::to_string(me) + " C :";
        for (auto &kv : C.m_map.m_impl.m_local_map) s += " " + std::to_string(kv.first) + "=" + std::to_string(kv.second);
        line(s);
        s = "Z " + std::to_string(me) + " C2 :";
        for (auto &kv : C2.m_map.m_impl.m_local_map) s += " " + std::to_string(kv.first) + "=" + std::to_string(kv.second);
        line(s);
        s = "Z " + std::to_string(me) + " C5 :";
        for (auto &kv : C5.m_map.m_impl.m_local_map) s += " " + std::to_string(kv.first) + "=" + std::to_string(kv.second);
        line(s);
      }
      auto hex = [](const std::string &x) {
        std::string h;
        char        b[4];
        for (unsigned char ch : x) { snprintf(b, sizeof b, "%02x", ch); h += b; }
        return h.empty() ? std::string("-") : h;
      };
      auto dumpsm = [&](const std::string &tag, auto &m) {
        std::string s = "Z " + std::to_string(me) + " " + tag + " dflt=" + hex(m.m_impl.m_default_value) + " :";
        for (auto &kv : m.m_impl.m_local_map) s += " " + hex(kv.first) + "=" + hex(kv.second);
        line(s);
      };
      dumpsm("SM", SM); dumpsm("SM2", SM2);
      {
        // values whose text form is delicate: doubles that need all 17 significant digits, strings that need JSON escaping
        bag<double>           BD(world), BD2(world);
        map<long, double>     MD(world, 0.5), MD2(world, 0.25);
        set<std::string>      SS(world), SS2(world);
        const double tricky[] = {0.1 + 0.2, 1.0 / 3.0, 2.0 / 3.0, 0.7 * 0.1, 1e-20, 1e30, 123456789.123456789, -0.0, 5e-324, 1.7976931348623157e308};
        const char  *strs[]   = {"a\"b", "back\\slash", "new\nline", "tab\there", "uni\xc3\xa9", "", "sp ace", "{\"k\":[1,2]}", "\x01\x1f"};
        if (me == 0) {
          long k = 0;
          for (double d : tricky) { BD.async_insert(d); MD.async_insert(k++, d); }
          for (const char *c : strs) SS.async_insert(std::string(c));
        }
        BD2.async_insert(42.0);
        BD.serialize(base + "BD"); MD.serialize(base + "MD"); SS.serialize(base + "SS");
        BD2.deserialize(base + "BD"); MD2.deserialize(base + "MD"); SS2.deserialize(base + "SS");
        world.barrier();
        auto hexd = [](double d) { char b[64]; snprintf(b, sizeof b, "%a", d); return std::string(b); };
        auto dbag = [&](const std::string &tag, auto &b) {
          std::string s = "Z " + std::to_string(me) + " " + tag + " :";
          for (auto &d : b.m_local_bag) s += " " + hexd(d);
          line(s);
        };
        dbag("BD", BD); dbag("BD2", BD2);
        auto dmd = [&](const std::string &tag, auto &m) {
          std::string s = "Z " + std::to_string(me) + " " + tag + " dflt=" + hexd(m.m_impl.m_default_value) + " :";
          for (auto &kv : m.m_impl.m_local_map) s += " " + std::to_string(kv.first) + "=" + hexd(kv.second);
          line(s);
        };
        dmd("MD", MD); dmd("MD2", MD2);
        auto dss = [&](const std::string &tag, auto &m) {
          std::string s = "Z " + std::to_string(me) + " " + tag + " :";
          for (auto &k : m.m_impl.m_local_set) s += " " + hex(k);
          line(s);
        };
        dss("SS", SS); dss("SS2", SS2);
        world.cf_barrier();
      }
      line("Q 0 " + std::to_string(me) + " M2.size : " + std::to_string(M2.size()) + " " + std::to_string(M.size()));
    }
  }
  line("DONE " + std::to_string(me));
  return 0;
}
