// traffic.cpp — interprets a scenario file with real ygm::comm calls (DESIGN §3.3).
//
//   traffic <scenario-file>
//
// Scenario (line oriented; every rank reads the same file):
//   main <rank> : act act ...          program of a rank's main context
//   msg <uid> : act act ...            what the handler of message <uid> does when it executes
//   cb <id> : act act ...              body of pre-barrier callback <id>
// Acts:
//   A <dest> <uid> <len>     async to dest, payload of len bytes derived from uid
//   AR <dest> <uid>          async whose argument is the by-reference global `shared`; the handler
//                            checks that it received the value `shared` had when AR was called
//   B <uid> <len>            async_bcast
//   M <k> <d1..dk> <uid> <len>  async_mcast
//   BAR | CFB | LP           barrier / cf_barrier / local_progress
//   WU <f> | SF <f>          local_wait_until(flag f) / set flag f
//   MON | MOFF               push / pop an interrupt_mask
//   CB <id>                  register_pre_barrier_callback(body of cb <id>)
//   MUT                      shared++   (used by handlers to disturb AR)
//   F <dest> <uid> <len> <state>   async with a non-empty functor carrying <state> (8 bytes)
//   COLL                     a blocking collective on the communicator (all_reduce_sum)
// Notes are written through simmpi_note (total order across ranks):
//   O/o  async call begin/end      X/x  handler begin/end      BI/BO barrier in/out
//   S    send_buffer_bytes / pending_isend_bytes / queue sizes after a main-context async
#include <ygm/comm.hpp>
#include <ygm/detail/interrupt_mask.hpp>
#include <cstdarg>
#include <unistd.h>
#include <fstream>
#include <map>
#include <memory>
#include <sstream>
#include <string>
#include <vector>

#ifdef SIMMPI
#define NOTE(...) simmpi_note(__VA_ARGS__)
#else
static FILE *g_notes = nullptr;
static unsigned long g_seq = 0;
static void NOTE(const char *fmt, ...) {
  if (!g_notes) return;
  fprintf(g_notes, "N 0.%lu ", ++g_seq);
  va_list ap;
  va_start(ap, fmt);
  vfprintf(g_notes, fmt, ap);
  va_end(ap);
  fputc('\n', g_notes);
  fflush(g_notes);
}
#endif

struct Act {
  std::string op;
  std::vector<long> a;
};
using Prog = std::vector<Act>;

static std::map<long, Prog> g_main, g_msg, g_cb;
static std::map<long, bool> g_flag;
static int                   g_depth = 0;        // handler nesting depth observed by the harness
static int                   g_lib_depth = 0;    // nesting of *any* received lambda (hook H1)
static int                   g_lib_depth_max = 0;
static std::vector<std::unique_ptr<ygm::detail::interrupt_mask>> g_masks;
static long                  shared_value = 1000;
static long                  g_barriers = 0;
static bool                  g_in_main = true;
static int                   g_cur_hk = -1;      // harness lambda kind of the async being issued (-1: none)
static int                   g_exec_lid = -1;    // lid of the received lambda currently executing
static ygm::comm            *g_comm = nullptr;

static uint8_t pay(long uid, size_t i) { return (uint8_t)((uid * 131 + i * 7 + (i >> 8)) & 0xff); }

static std::vector<uint8_t> payload(long uid, long len) {
  std::vector<uint8_t> v((size_t)len);
  for (size_t i = 0; i < v.size(); ++i) v[i] = pay(uid, i);
  return v;
}

static void run_prog(ygm::comm &c, const Prog &p, long parent);

static void on_exec(ygm::comm *c, long uid, const std::vector<uint8_t> &data, long extra, int kind) {
  bool ok = true;
  for (size_t i = 0; i < data.size(); ++i)
    if (data[i] != pay(uid, i)) { ok = false; break; }
  NOTE("X %ld rank=%d depth=%d masks=%zu ok=%d len=%zu kind=%d extra=%ld libdepth=%d", uid, c->rank(), g_depth, g_masks.size(), (int)ok,
       data.size(), kind, extra, g_lib_depth);
  ++g_depth;
  bool was_main = g_in_main;
  g_in_main     = false;
  auto f = g_msg.find(uid);
  if (f != g_msg.end()) run_prog(*c, f->second, uid);
  g_in_main = was_main;
  --g_depth;
  NOTE("x %ld", uid);
}

struct functor8 {
  uint64_t state;
  void     operator()(ygm::comm *c, long uid, const std::vector<uint8_t> &data) { on_exec(c, uid, data, (long)state, 2); }
};

static void state_note(ygm::comm &c, const char *tag) {
  NOTE("%s sb=%zu pend=%zu dq=%zu sq=%zu rq=%zu", tag, c.m_send_buffer_bytes, c.m_pending_isend_bytes, c.m_send_dest_queue.size(),
       c.m_send_queue.size(), c.m_recv_queue.size());
}

static void run_prog(ygm::comm &c, const Prog &p, long parent) {
  for (const Act &a : p) {
    const std::string &op = a.op;
    if (op == "A") {
      auto v = payload(a.a[1], a.a[2]);
      NOTE("O %ld dest=%ld len=%ld parent=%ld", a.a[1], a.a[0], a.a[2], parent);
      int saved_hk_0 = g_cur_hk;
      g_cur_hk = 0;
      c.async((int)a.a[0], [](ygm::comm *c, long uid, const std::vector<uint8_t> &data) { on_exec(c, uid, data, 0, 0); }, a.a[1], v);
      g_cur_hk = saved_hk_0;
      NOTE("o %ld", a.a[1]);
      if (g_in_main) state_note(c, "S");
    } else if (op == "AR") {
      NOTE("O %ld dest=%ld len=0 parent=%ld ref=%ld", a.a[1], a.a[0], parent, shared_value);
      int saved_hk_1 = g_cur_hk;
      g_cur_hk = 1;
      c.async((int)a.a[0],
              [](ygm::comm *c, long uid, const long &val) {
                std::vector<uint8_t> none;
                on_exec(c, uid, none, val, 1);
              },
              a.a[1], shared_value);
      g_cur_hk = saved_hk_1;
      NOTE("o %ld", a.a[1]);
    } else if (op == "F") {
      auto     v = payload(a.a[1], a.a[2]);
      functor8 f{(uint64_t)a.a[3]};
      NOTE("O %ld dest=%ld len=%ld parent=%ld state=%ld", a.a[1], a.a[0], a.a[2], parent, a.a[3]);
      int saved_hk_2 = g_cur_hk;
      g_cur_hk = 2;
      c.async((int)a.a[0], f, a.a[1], v);
      g_cur_hk = saved_hk_2;
      NOTE("o %ld", a.a[1]);
    } else if (op == "B") {
      auto v = payload(a.a[0], a.a[1]);
      NOTE("OB %ld len=%ld parent=%ld", a.a[0], a.a[1], parent);
      int saved_hk_3 = g_cur_hk;
      g_cur_hk = 3;
      c.async_bcast([](ygm::comm *c, long uid, const std::vector<uint8_t> &data) { on_exec(c, uid, data, 0, 3); }, a.a[0], v);
      g_cur_hk = saved_hk_3;
      NOTE("o %ld", a.a[0]);
    } else if (op == "M") {
      long             k = a.a[0];
      std::vector<int> dests;
      for (long i = 0; i < k; ++i) dests.push_back((int)a.a[1 + i]);
      long uid = a.a[1 + k], len = a.a[2 + k];
      auto v   = payload(uid, len);
      std::string ds;
      for (int d : dests) ds += (ds.empty() ? "" : ",") + std::to_string(d);
      NOTE("OM %ld dests=%s len=%ld parent=%ld", uid, ds.c_str(), len, parent);
      int saved_hk_4 = g_cur_hk;
      g_cur_hk = 4;
      c.async_mcast(dests, [](ygm::comm *c, long uid, const std::vector<uint8_t> &data) { on_exec(c, uid, data, 0, 4); }, uid, v);
      g_cur_hk = saved_hk_4;
      NOTE("o %ld", uid);
    } else if (op == "BAR") {
      long k = ++g_barriers;
      NOTE("BI %ld", k);
      c.barrier();
      NOTE("BO %ld", k);
      state_note(c, "SB");
    } else if (op == "CFB") {
      c.cf_barrier();
    } else if (op == "LP") {
      NOTE("LPI");
      c.local_progress();
      NOTE("LPO");
    } else if (op == "WU") {
      long f = a.a[0];
      NOTE("WUI %ld", f);
      c.local_wait_until([f]() { return g_flag[f]; });
      NOTE("WUO %ld", f);
    } else if (op == "SF") {
      g_flag[a.a[0]] = true;
    } else if (op == "MON") {
      g_masks.push_back(std::make_unique<ygm::detail::interrupt_mask>(c));
      NOTE("MON %zu", g_masks.size());
    } else if (op == "MOFF") {
      if (!g_masks.empty()) g_masks.pop_back();
      NOTE("MOFF %zu", g_masks.size());
    } else if (op == "CB") {
      long id = a.a[0];
      NOTE("CBR %ld", id);
      c.register_pre_barrier_callback([id]() {
        NOTE("CBX %ld", id);
        bool was_main = g_in_main;
        g_in_main     = false;
        auto f        = g_cb.find(id);
        if (f != g_cb.end()) run_prog(*g_comm, f->second, -2 - id);
        g_in_main = was_main;
        NOTE("cbx %ld", id);
      });
    } else if (op == "MUT") {
      ++shared_value;
    } else if (op == "COLL") {
      NOTE("CI");
      long s = c.all_reduce_sum((long)1);
      NOTE("CO %ld", s);
    }
  }
}

static bool load(const char *path) {
  std::ifstream in(path);
  if (!in) return false;
  std::string line;
  while (std::getline(in, line)) {
    if (line.empty() || line[0] == '#') continue;
    std::istringstream ss(line);
    std::string        kind, colon;
    long               id;
    ss >> kind;
    if (kind != "main" && kind != "msg" && kind != "cb") continue;
    ss >> id >> colon;
    Prog        p;
    std::string tok;
    while (ss >> tok) {
      Act a;
      a.op = tok;
      int n = 0;
      if (tok == "A") n = 3;
      else if (tok == "AR") n = 2;
      else if (tok == "F") n = 4;
      else if (tok == "B") n = 2;
      else if (tok == "WU" || tok == "SF" || tok == "CB") n = 1;
      else if (tok == "M") {
        long k;
        ss >> k;
        a.a.push_back(k);
        n = (int)k + 2;
      }
      for (int i = 0; i < n; ++i) {
        long v;
        ss >> v;
        a.a.push_back(v);
      }
      p.push_back(a);
    }
    (kind == "main" ? g_main : kind == "msg" ? g_msg : g_cb)[id] = p;
  }
  return true;
}

int main(int argc, char **argv) {
  if (argc < 2 || !load(argv[1])) {
    fprintf(stderr, "usage: traffic <scenario>\n");
    return 2;
  }
#ifdef YGM_VERIF
  ygm::verif::hooks.exec_begin = [](void *, uint16_t lid, void *) {
    ++g_lib_depth;
    if (g_lib_depth == 1) g_exec_lid = lid;
    if (g_lib_depth > g_lib_depth_max) g_lib_depth_max = g_lib_depth;
    if (g_lib_depth > 1) NOTE("NESTED lid=%d libdepth=%d", (int)lid, g_lib_depth);
  };
  ygm::verif::hooks.exec_end = [](void *, uint16_t, void *) {
    --g_lib_depth;
    if (g_lib_depth == 0) g_exec_lid = -1;
  };
  ygm::verif::hooks.originate = [](void *cm, int dest, int hop, size_t hdr, size_t body) {
    // the lambda id is the first two bytes of the body just appended to the buffer of `hop`
    ygm::comm *c  = (ygm::comm *)cm;
    auto      &b  = c->m_vec_send_buffers[hop];
    uint16_t   lid = 0xffff;
    if (b.size() >= body && body >= 2) std::memcpy(&lid, b.data() + (b.size() - body), 2);
    // hk: harness kind of the async being issued; from: lid of the library lambda that is forwarding (bcast stages 2, 3)
    // a library lambda that is executing while no user handler is active is a broadcast stage forwarding: the kind of
    // whatever async the main program happens to be inside (back-pressure wait) is not this message's kind
    int hk = (g_exec_lid >= 0 && g_depth == 0) ? -1 : g_cur_hk;
    NOTE("OR dest=%d hop=%d hdr=%zu body=%zu lid=%d hk=%d from=%d userdepth=%d", dest, hop, hdr, body, (int)lid, hk, g_exec_lid, g_depth);
  };
#endif
  int rc = 0;
  try {
    ygm::comm world(&argc, &argv);
    g_comm = &world;
#ifndef SIMMPI
    if (const char *d = getenv("VERIF_NOTEDIR")) {
      std::string p = std::string(d) + "/rank" + std::to_string(world.rank()) + ".log";
      g_notes       = fopen(p.c_str(), "w");
    }
#endif
    {
      const auto &L = world.layout();
      std::string s = "LAYOUT size=" + std::to_string(L.size()) + " rank=" + std::to_string(L.rank()) + " nodes=" + std::to_string(L.node_size()) +
                      " node=" + std::to_string(L.node_id()) + " lsize=" + std::to_string(L.local_size()) + " lid=" + std::to_string(L.local_id()) + " strided=";
      for (int x : L.strided_ranks()) s += std::to_string(x) + ",";
      s += " locals=";
      for (int x : L.local_ranks()) s += std::to_string(x) + ",";
      s += " r2n=";
      for (int r = 0; r < L.size(); ++r) s += std::to_string(L.node_id(r)) + ",";
      s += " r2l=";
      for (int r = 0; r < L.size(); ++r) s += std::to_string(L.local_id(r)) + ",";
      NOTE("%s", s.c_str());
      NOTE("CFG bufsz=%zu nirecv=%zu irecvsz=%zu nisw=%zu freq=%zu routing=%d", world.config.buffer_size, world.config.num_irecvs,
           world.config.irecv_size, world.config.num_isends_wait, world.config.freq_issend, (int)world.config.routing);
    }
    auto f = g_main.find(world.rank());
    if (f != g_main.end()) run_prog(world, f->second, -1);
    NOTE("DI");
    // destructor: implicit barrier
  } catch (const std::exception &e) {
    NOTE("EXC %s", e.what());
    fprintf(stderr, "traffic: uncaught exception: %s\n", e.what());
    rc = 3;
    _exit(rc);
  }
  NOTE("DO maxlibdepth=%d", g_lib_depth_max);
  return rc;
}
