// subcoll.cpp — C09 on communicators other than MPI_COMM_WORLD: every collective of a ygm::comm built on a reversed or a split
// communicator folds the inputs of THAT communicator's ranks (input of world rank w: 100 + 7 * w; distinct across groups).
//   Z <scenario> <colour> <rank in the communicator> <world rank> : name=value ...
#include <ygm/comm.hpp>
#include <ygm/collective.hpp>
#include <cstdio>
#include <string>
#include <vector>

static void run(int sc, int colour, MPI_Comm mc, int wr) {
  ygm::comm c(mc);
  long        v = 100 + 7 * wr;
  std::string s = "Z " + std::to_string(sc) + " " + std::to_string(colour) + " " + std::to_string(c.rank()) + " " + std::to_string(wr) + " :";
  auto add = [&](const char *n, long x) { s += std::string(" ") + n + "=" + std::to_string(x); };
  add("all_reduce_sum", c.all_reduce_sum(v));
  add("all_reduce_min", c.all_reduce_min(v));
  add("all_reduce_max", c.all_reduce_max(v));
  add("tree_sum", c.all_reduce(v, [](long a, long b) { return a + b; }));
  add("sum", ygm::sum(v, c));
  add("min", ygm::min(v, c));
  add("max", ygm::max(v, c));
  add("prefix_sum", ygm::prefix_sum(v, c));
  add("logical_and", (long)ygm::logical_and(wr % 2 == colour || sc == 0, c));
  add("logical_or", (long)ygm::logical_or(c.rank() == c.size() - 1, c));
  long b = c.rank() == c.size() - 1 ? v : -1;
  ygm::bcast(b, c.size() - 1, c);
  add("bcast_last", b);
  std::vector<std::string> w;
  if (c.rank() == 0) w = {"from", std::to_string(wr)};
  ygm::bcast(w, 0, c);
  add("bcast_vec_first", w.size() == 2 ? std::stol(w[1]) : -1);
  add("is_same", (long)ygm::is_same(v, c));
  puts(s.c_str());
  fflush(stdout);
}

int main(int argc, char **argv) {
  MPI_Init(&argc, &argv);
  int wr, ws;
  MPI_Comm_rank(MPI_COMM_WORLD, &wr);
  MPI_Comm_size(MPI_COMM_WORLD, &ws);
  {
    MPI_Comm rev;
    MPI_Comm_split(MPI_COMM_WORLD, 0, ws - 1 - wr, &rev);
    run(0, 0, rev, wr);
    MPI_Comm_free(&rev);
  }
  MPI_Barrier(MPI_COMM_WORLD);
  {
    MPI_Comm half;
    MPI_Comm_split(MPI_COMM_WORLD, wr % 2, wr, &half);
    run(1, wr % 2, half, wr);
    MPI_Comm_free(&half);
  }
  MPI_Barrier(MPI_COMM_WORLD);
  printf("DONE %d\n", wr);
  MPI_Finalize();
  return 0;
}
