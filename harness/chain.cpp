// chain.cpp — C03: handlers may call async to any recursion depth, at every capacity: every rank starts a long chain of
// handler-spawned messages (each handler sends the next hop, to itself or to its neighbour) and counts the handlers that ran.
//   chain <hops> <self 0|1>        Lines:  CH <rank> <handlers executed> <expected>
#include <ygm/comm.hpp>
#include <cstdio>
#include <cstdlib>

static long g_count = 0;
struct hop {
  void operator()(ygm::comm *c, long left, int self) {
    ++g_count;
    if (left > 0) c->async(self ? c->rank() : (c->rank() + 1) % c->size(), hop(), left - 1, self);
  }
};

int main(int argc, char **argv) {
  ygm::comm world(&argc, &argv);
  long hops = argc > 1 ? atol(argv[1]) : 1000;
  int  self = argc > 2 ? atoi(argv[2]) : 1;
  world.async(self ? world.rank() : (world.rank() + 1) % world.size(), hop(), hops - 1, self);
  world.barrier();
  long total = world.all_reduce_sum(g_count);
  printf("CH %d %ld %ld\n", world.rank(), total, hops * world.size());
  fflush(stdout);
  return 0;
}
