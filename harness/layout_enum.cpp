// layout_enum.cpp — C04: the layout tables that ygm::comm builds from MPI_Comm_split_type / MPI_Comm_split (layout.hpp), and the
// next hops the real router computes from them, under a simulated multi-node placement (simmpi: blocks of ppn ranks per node).
//   L <rank> : comm_size node_size local_size node_id local_id | local_ranks | strided_ranks | rank_to_node | rank_to_local
//   H <rank> <scheme 0|1|2> : next_hop(0) ... next_hop(size-1)
//   HD <rank> <scheme the communicator selected from YGM_COMM_ROUTING> : the communicator's own router().next_hop(0) ...
#include <ygm/comm.hpp>
#include <cstdio>
#include <string>

int main(int argc, char **argv) {
  ygm::comm   world(&argc, &argv);
  const auto &L  = world.layout();
  int         me = world.rank();
  std::string s  = "L " + std::to_string(me) + " : " + std::to_string(L.m_comm_size) + " " + std::to_string(L.m_node_size) + " " +
                  std::to_string(L.m_local_size) + " " + std::to_string(L.m_node_id) + " " + std::to_string(L.m_local_id) + " |";
  for (int x : L.m_local_ranks) s += " " + std::to_string(x);
  s += " |";
  for (int x : L.m_strided_ranks) s += " " + std::to_string(x);
  s += " |";
  for (int x : L.m_rank_to_node) s += " " + std::to_string(x);
  s += " |";
  for (int x : L.m_rank_to_local) s += " " + std::to_string(x);
  puts(s.c_str());
  for (int sc = 0; sc < 3; ++sc) {
    ygm::detail::comm_router R(L, (ygm::detail::routing_type)sc);
    s = "H " + std::to_string(me) + " " + std::to_string(sc) + " :";
    for (int d = 0; d < world.size(); ++d) {
      try { s += " " + std::to_string(R.next_hop(d)); } catch (...) { s += " E"; }
    }
    puts(s.c_str());
  }
  // the scheme selected through YGM_COMM_ROUTING, as the communicator itself routes
  s = "HD " + std::to_string(me) + " " + std::to_string((int)world.config.routing) + " :";
  for (int d = 0; d < world.size(); ++d) {
    try { s += " " + std::to_string(world.router().next_hop(d)); } catch (...) { s += " E"; }
  }
  puts(s.c_str());
  fflush(stdout);
  return 0;
}
