// gather_nb.cpp — C14: gather_to_vector called while one rank is still inserting (no barrier in between, as in the first
// blocks of test_bag.cpp but with enough items for back-pressure).  gather_nb <items> <per_message> <dest-mode>
#include <ygm/comm.hpp>
#include <ygm/container/bag.hpp>
#include <cstdio>
#include <string>
#include <vector>
static void line(const std::string &s) { fputs(s.c_str(), stdout); fputc('\n', stdout); fflush(stdout); }
int main(int argc, char **argv) {
  ygm::comm world(&argc, &argv);
  long      items = atol(argv[1]), per = atol(argv[2]);
  int       mode = atoi(argv[3]);      // 0: round robin, 1: everything to the last rank
  int       me = world.rank(), R = world.size();
  {
    ygm::container::bag<long> b(world);
    if (me == 0) {
      for (long i = 0; i < items; i += per) {
        std::vector<long> v;
        for (long j = i; j < i + per && j < items; ++j) v.push_back(j);
        if (mode == 1) b.async_insert(v, R - 1); else for (long x : v) b.async_insert(x);
      }
    }
    auto g = b.gather_to_vector(0);                 // the other ranks get here at once
    long sum = 0;
    for (long x : g) sum += x;
    line("G0 " + std::to_string(me) + " " + std::to_string(g.size()) + " " + std::to_string(sum));
    if (me == R - 1) for (long i = 0; i < items; ++i) b.async_insert(items + i, 0);
    auto ga = b.gather_to_vector();
    sum = 0;
    for (long x : ga) sum += x;
    line("GA " + std::to_string(me) + " " + std::to_string(ga.size()) + " " + std::to_string(sum));
  }
  line("DONE " + std::to_string(me));
  return 0;
}
