// partition_enum.cpp — runs the real array / bag / hash-partitioned containers on
// every rank of a (simulated) communicator and prints what they compute, so that
// the check can compare it with the Coq definitions generated from the same
// headers and evaluate the property clauses directly.
//
//   partition_enum array <maxlen>     arrays of every length 0..maxlen
//   partition_enum bag <maxtotal>     bags of every total 0..maxtotal, 4 placements, rebalance
//   partition_enum hash               owners of a list of keys under map / set / disjoint_set
//
// Every output line starts with a tag and the rank; a line is flushed before the
// next MPI call, and only one rank runs at a time under simmpi.
#include <ygm/comm.hpp>
#include <ygm/container/array.hpp>
#include <ygm/container/tagged_bag.hpp>
#include <ygm/container/bag.hpp>
#include <ygm/container/map.hpp>
#include <ygm/container/set.hpp>
#include <ygm/container/disjoint_set.hpp>
#include <cstdio>
#include <string>

static void line(const std::string &s) {
  fputs(s.c_str(), stdout);
  fputc('\n', stdout);
  fflush(stdout);
}

int main(int argc, char **argv) {
  ygm::comm world(&argc, &argv);
  std::string mode = argc > 1 ? argv[1] : "array";
  int         maxv = argc > 2 ? atoi(argv[2]) : 20;
  int         R = world.size(), me = world.rank();
  char        buf[256];

  if (mode == "array") {
    for (int len = 0; len <= maxv; ++len) {
      snprintf(buf, sizeof buf, "BEGIN array R=%d rank=%d len=%d", R, me, len);
      line(buf);
      ygm::container::array<int> a(world, len, 7);
      std::string s;
      snprintf(buf, sizeof buf, "A %d %d %d %zu %zu %zu %zu :", R, me, len, (size_t)a.m_small_block_size,
               (size_t)a.m_large_block_size, (size_t)a.m_local_start_index, a.m_local_vec.size());
      s = buf;
      for (int i = 0; i < len; ++i) {
        snprintf(buf, sizeof buf, " %d", a.owner(i));
        s += buf;
      }
      line(s);
      {
        // a copy-constructed array must have the same partition: block sizes, start, owner of every index, is_mine
        ygm::container::array<int> c(a);
        snprintf(buf, sizeof buf, "AC %d %d %d %zu %zu %zu %zu :", R, me, len, (size_t)c.m_small_block_size,
                 (size_t)c.m_large_block_size, (size_t)c.m_local_start_index, c.m_local_vec.size());
        std::string sc = buf;
        const size_t large_part = c.m_large_block_size * (size_t)(len % R);    // indices below this are in large blocks
        std::string mc = "MC " + std::to_string(R) + " " + std::to_string(me) + " " + std::to_string(len) + " :";
        for (int i = 0; i < len; ++i) {
          // owner() asserts that its result is a rank; a broken copy may compute one that is not: report -1 instead of aborting
          long o = -1;
          if (c.m_large_block_size > 0 && (size_t)i < large_part) o = i / c.m_large_block_size;
          else if (c.m_small_block_size > 0) o = (len % R) + (i - large_part) / c.m_small_block_size;
          const bool safe = o >= 0 && o < R;
          sc += " " + std::to_string(safe ? (long)c.owner(i) : -1L);
          if (safe && c.is_mine(i)) mc += " " + std::to_string(i);
        }
        line(mc);
        line(sc);
      }
      // every index exactly once across ranks, with its global index; values are the default
      s = "F " + std::to_string(R) + " " + std::to_string(me) + " " + std::to_string(len) + " :";
      bool defaults = true;
      a.for_all([&](const size_t idx, int &v) {
        s += " " + std::to_string(idx);
        if (v != 7) defaults = false;
      });
      s += defaults ? " ok" : " BADDEFAULT";
      line(s);
      // no rank may start updating before every rank has finished reading (a message of the next
      // epoch may legally execute on a rank that is still inside the barrier of for_all)
      world.cf_barrier();
      // address every element once: a[i] += i+1 from rank (i % R); then read back through for_all
      for (int i = 0; i < len; ++i)
        if (i % R == me) a.async_binary_op_update_value(i, i + 1, std::plus<int>());
      s = "V " + std::to_string(R) + " " + std::to_string(me) + " " + std::to_string(len) + " :";
      a.for_all([&](const size_t idx, int &v) { s += " " + std::to_string(idx) + "=" + std::to_string(v); });
      line(s);
      // local_index / global_index round trip on the owner
      s = "I " + std::to_string(R) + " " + std::to_string(me) + " " + std::to_string(len) + " :";
      for (int i = 0; i < len; ++i)
        if (a.is_mine(i)) {
          size_t li = a.local_index(i);
          s += " " + std::to_string(i) + ">" + std::to_string(li) + ">" + std::to_string(a.global_index(li));
        }
      line(s);
    }
    // every named update wrapper once, on its own element, with operands that tell the functors (and their operand order) apart:
    // element 6, operand 4  ->  bit_and 4, bit_or 6, bit_xor 2, logical_and 1, logical_or 1, multiplies 24, divides 1, plus 10, minus 2,
    // increment 7, decrement 5, set 4, unary (x -> 3x+1) 19, visit (v = v*10 + index) 6*10+i
    {
      const int NW = 14;
      ygm::container::array<long> w(world, NW + 3, 6);
      if (me == R - 1) {
        w.async_bit_and(0, 4); w.async_bit_or(1, 4); w.async_bit_xor(2, 4); w.async_logical_and(3, 4); w.async_logical_or(4, 4);
        w.async_multiplies(5, 4); w.async_divides(6, 4); w.async_plus(7, 4); w.async_minus(8, 4);
        w.async_increment(9); w.async_decrement(10); w.async_set(11, 4);
        w.async_unary_op_update_value(12, [](const long &x) { return 3 * x + 1; });
        w.async_visit(13, [](const size_t i, long &v) { v = v * 10 + (long)i; });
      }
      std::string sw = "WR " + std::to_string(R) + " " + std::to_string(me) + " :";
      w.for_all([&](const size_t idx, long &v) { sw += " " + std::to_string(idx) + "=" + std::to_string(v); });
      line(sw);
      world.cf_barrier();
      // the same binary wrappers with operand 0 on element 6 (a non-bool value type: logical_or(6, 0) is 1, not 6)
      // bit_and 0, bit_or 6, bit_xor 6, logical_and 0, logical_or 1, multiplies 0, plus 6, minus 6
      ygm::container::array<long> z(world, 8 + 3, 6);
      if (me == 0) {
        z.async_bit_and(0, 0); z.async_bit_or(1, 0); z.async_bit_xor(2, 0); z.async_logical_and(3, 0); z.async_logical_or(4, 0);
        z.async_multiplies(5, 0); z.async_plus(6, 0); z.async_minus(7, 0);
      }
      std::string sz = "WZ " + std::to_string(R) + " " + std::to_string(me) + " :";
      z.for_all([&](const size_t idx, long &v) { sz += " " + std::to_string(idx) + "=" + std::to_string(v); });
      line(sz);
      world.cf_barrier();
    }
  } else if (mode == "bag") {
    for (int T = 0; T <= maxv; ++T) {
      for (int placement = 0; placement < 4; ++placement) {
        snprintf(buf, sizeof buf, "BEGIN bag R=%d rank=%d T=%d placement=%d", R, me, T, placement);
        line(buf);
        ygm::container::bag<int> b(world);
        // items 0..T-1, all issued by rank 0
        if (me == 0) {
          for (int i = 0; i < T; ++i) {
            switch (placement) {
              case 0: b.async_insert(i, 0); break;                    // all on rank 0
              case 1: b.async_insert(i, R - 1); break;                // all on the last rank
              case 2: b.async_insert(i); break;                       // round robin
              default: b.async_insert(i, (i * 7 + T) % R); break;     // scattered
            }
          }
        }
        world.barrier();
        size_t before = b.local_size();
        b.rebalance();
        size_t after = b.local_size();
        std::string s = "B " + std::to_string(R) + " " + std::to_string(me) + " " + std::to_string(T) + " " +
                        std::to_string(placement) + " " + std::to_string(before) + " " + std::to_string(after) + " :";
        b.for_all([&](int &x) { s += " " + std::to_string(x); });
        line(s);
        auto all = b.gather_to_vector();
        std::sort(all.begin(), all.end());
        s = "G " + std::to_string(R) + " " + std::to_string(me) + " " + std::to_string(T) + " " + std::to_string(placement) + " :";
        for (int x : all) s += " " + std::to_string(x);
        line(s);
      }
    }
  } else if (mode == "hash") {
    ygm::container::map<int, int>                 mi(world);
    ygm::container::map<std::string, int>         ms(world);
    ygm::container::set<std::string>              ss(world);
    ygm::container::disjoint_set<int>             ds(world);
    std::vector<int> keys;
    for (int k = -3; k < 40; ++k) keys.push_back(k * 37);
    keys.push_back(1 << 20);
    keys.push_back((1 << 20) + 5);
    keys.push_back(2147483647);
    keys.push_back(-2147483647 - 1);          // hashes whose low 32 bits are 0x80000000 / all ones
    keys.push_back(-2147483647);
    keys.push_back(-1);
    std::string s = "HI " + std::to_string(R) + " " + std::to_string(me) + " :";
    for (int k : keys) {
      s += " " + std::to_string(k) + "," + std::to_string(std::hash<int>{}(k)) + "," + std::to_string(mi.owner(k)) + "," +
           std::to_string(ds.m_impl.owner(k)) + "," + std::to_string((int)mi.is_mine(k));
    }
    line(s);
    {
      // 64-bit keys around the 31 / 32 / 63-bit boundaries
      ygm::container::map<long, int> ml(world);
      ygm::container::set<long>      sl(world);
      const long K64[] = {1L << 31, 3L << 31, (5L << 32) | 0x80000000L, 1L << 32, (1L << 32) + 1, (1L << 32) - 1, 0x7fffffffffffffffL,
                          -0x7fffffffffffffffL - 1, -1L, (1L << 62) + 12345, 0xffffffffL * 3 + 1};
      s = "HL " + std::to_string(R) + " " + std::to_string(me) + " :";
      for (long k : K64)
        s += " " + std::to_string(k) + "," + std::to_string(std::hash<long>{}(k)) + "," + std::to_string(ml.owner(k)) + "," +
             std::to_string(sl.m_impl.owner(k)) + "," + std::to_string((int)ml.is_mine(k));
      line(s);
    }
    s = "HS " + std::to_string(R) + " " + std::to_string(me) + " :";
    for (int k = 0; k < 30; ++k) {
      std::string key = "key" + std::to_string(k * k) + (k % 3 ? "" : "_x");
      s += " " + std::to_string(std::hash<std::string>{}(key)) + "," + std::to_string(ms.owner(key)) + "," +
           std::to_string(ss.m_impl.owner(key));
    }
    line(s);
    // "stored only on its owner, seen exactly once": fill the containers from rank 0 (+ unions and lookups for the
    // disjoint_set, whose lookups re-parent items), then every rank lists what it holds locally
    ygm::container::tagged_bag<int> tb(world);
    for (int i = 0; i < 7; ++i) tb.async_insert(me * 100 + i);         // tags are generated on the inserting rank
    if (me == 0) {
      for (int k : keys) { mi.async_insert(k, k + 1); ds.async_union(k, keys[0]); }
      for (int k = 0; k < 30; ++k) { std::string key = "key" + std::to_string(k * k) + (k % 3 ? "" : "_x"); ms.async_insert(key, k); ss.async_insert(key); }
    }
    world.barrier();
    auto reps = ds.all_find(keys);
    world.barrier();
    s = "HP " + std::to_string(R) + " " + std::to_string(me) + " :";
    for (auto &kv : mi.m_impl.m_local_map) s += " mi," + std::to_string(kv.first) + "," + std::to_string(mi.owner(kv.first));
    for (auto &kv : ms.m_impl.m_local_map) s += " ms," + std::to_string(std::hash<std::string>{}(kv.first)) + "," + std::to_string(ms.owner(kv.first));
    for (auto &k : ss.m_impl.m_local_set) s += " ss," + std::to_string(std::hash<std::string>{}(k)) + "," + std::to_string(ss.m_impl.owner(k));
    for (auto &kv : ds.m_impl.m_local_item_parent_map) s += " ds," + std::to_string(kv.first) + "," + std::to_string(ds.m_impl.owner(kv.first));
    // tagged_bag: every stored tag is owned (owner / is_mine of the tagged_bag itself) by the rank that stores it
    for (auto &kv : tb.m_tagged_bag.m_impl.m_local_map)
      s += " tb," + std::to_string(kv.first) + "," + std::to_string(tb.is_mine(kv.first) ? tb.owner(kv.first) : -1 - tb.owner(kv.first));
    line(s);
    size_t n_for_all = 0;
    ds.for_all([&](const int &item, const int &rep) { ++n_for_all; });
    line("HQ " + std::to_string(R) + " " + std::to_string(me) + " : " + std::to_string(mi.size()) + " " + std::to_string(ms.size()) + " " +
         std::to_string(ss.size()) + " " + std::to_string(ds.size()) + " " + std::to_string(n_for_all));
    world.cf_barrier();
  }
  return 0;
}
