// router_enum.cpp — exercises the real comm_router / layout accessors without
// MPI: a `layout` is default-constructed and its private tables are filled with
// the block placement (built with -fno-access-control).  Prints, for every
// (n, p, me, scheme) with n, p <= MAX, the next hop for every destination.
// Output line:  n p me scheme : h_0 h_1 ... h_{np-1}      ("E" = exception)
#include <ygm/comm.hpp>
#include <cstdio>
#include <cstdlib>

int main(int argc, char **argv) {
  int maxn = argc > 1 ? atoi(argv[1]) : 6;
  int maxp = argc > 2 ? atoi(argv[2]) : 6;
  for (int n = 1; n <= maxn; ++n)
    for (int p = 1; p <= maxp; ++p)
      for (int me = 0; me < n * p; ++me) {
        ygm::detail::layout L;
        L.m_comm_size  = n * p;
        L.m_comm_rank  = me;
        L.m_node_size  = n;
        L.m_node_id    = me / p;
        L.m_local_size = p;
        L.m_local_id   = me % p;
        for (int a = 0; a < n; ++a) L.m_strided_ranks.push_back(a * p + me % p);
        for (int l = 0; l < p; ++l) L.m_local_ranks.push_back((me / p) * p + l);
        for (int r = 0; r < n * p; ++r) {
          L.m_rank_to_node.push_back(r / p);
          L.m_rank_to_local.push_back(r % p);
        }
        for (int s = 0; s < 3; ++s) {
          ygm::detail::comm_router R(L, (ygm::detail::routing_type)s);
          printf("%d %d %d %d :", n, p, me, s);
          for (int d = 0; d < n * p; ++d) {
            try {
              int h = R.next_hop(d);
              printf(" %d", h);
            } catch (...) {
              printf(" E");
            }
          }
          printf("\n");
        }
      }
  return 0;
}
