// collectives.cpp — C09: every collective on every rank of a (simulated) communicator.
// Lines: R <name> <rank> : <result>        the check compares with the sequential fold of the inputs,
// which are a deterministic function of (seed, rank).
#include <ygm/comm.hpp>
#include <ygm/collective.hpp>
#include <ygm/detail/cereal_boost_json.hpp>
#include <cstdio>
#include <map>
#include <string>
#include <vector>

static void line(const std::string &s) { fputs(s.c_str(), stdout); fputc('\n', stdout); fflush(stdout); }
// every mpi_typeof specialisation, with inputs that tell signed from unsigned from floating point (top bit set on odd ranks /
// negative values / fractions); printed as integers (floating point: times 4, the inputs are multiples of 1/4)
#include <cmath>
#include <limits>
#include <cstdint>
template <typename T> static std::string show(T x) {
  if constexpr (std::is_floating_point<T>::value) return std::to_string((long long)std::llround((long double)x * 4));
  else if constexpr (std::is_signed<T>::value) return std::to_string((long long)x);
  else return std::to_string((unsigned long long)x);
}
template <typename T> static void typed(ygm::comm &world, const std::string &nm, int me) {
  std::string p = " " + std::to_string(me) + " : ";
  T small, ext;
  if constexpr (std::is_floating_point<T>::value) {
    small = (me % 2) ? (T)(-(me + 1) * 0.25) : (T)(me * 0.5 + 0.75);
    ext   = small;
  } else if constexpr (std::is_signed<T>::value) {
    small = (T)((me % 2) ? -(me + 2) : (me + 1));
    ext   = (me % 2) ? (T)(std::numeric_limits<T>::min() + me) : (T)(std::numeric_limits<T>::max() - me);
  } else {
    small = (T)((me % 2) ? ((T)1 << (sizeof(T) * 8 - 1)) + (T)me : (T)(me + 1));
    ext   = small;
  }
  if (nm != "char") fputs(("R ty_sum_" + nm + p + show<T>(world.all_reduce_sum(small)) + "\n").c_str(), stdout);
  fputs(("R ty_min_" + nm + p + show<T>(world.all_reduce_min(ext)) + "\n").c_str(), stdout);
  fputs(("R ty_max_" + nm + p + show<T>(world.all_reduce_max(ext)) + "\n").c_str(), stdout);
  fflush(stdout);
}
static int ygm_n = 0;
static long inp(long seed, int r, int k) { return ((seed * 7919 + r * 104729 + k * 1299709) % 2001) - 1000; }

int main(int argc, char **argv) {
  ygm::comm world(&argc, &argv);
  long seed = argc > 1 ? atol(argv[1]) : 1;
  int  me = world.rank(), n = world.size();
  ygm_n = n;
  std::string p = " " + std::to_string(me) + " : ";
  long a = inp(seed, me, 0);
  line("R all_reduce_sum" + p + std::to_string(world.all_reduce_sum(a)));
  line("R all_reduce_min" + p + std::to_string(world.all_reduce_min(a)));
  line("R all_reduce_max" + p + std::to_string(world.all_reduce_max(a)));
  line("R all_reduce_sum_u8" + p + std::to_string((int)world.all_reduce_sum((uint8_t)(me % 3))));
  line("R all_reduce_max_i16" + p + std::to_string((int)world.all_reduce_max((int16_t)inp(seed, me, 1))));
  line("R all_reduce_min_u32" + p + std::to_string(world.all_reduce_min((uint32_t)(inp(seed, me, 2) + 5000))));
  line("R all_reduce_max_i64" + p + std::to_string(world.all_reduce_max((int64_t)(inp(seed, me, 3) * 5000000000L))));
  line("R all_reduce_sum_dbl" + p + std::to_string((long)(world.all_reduce_sum((double)inp(seed, me, 4) / 4.0) * 4)));
  typed<char>(world, "char", me);          typed<int8_t>(world, "i8", me);    typed<int16_t>(world, "i16", me);
  typed<int32_t>(world, "i32", me);        typed<int64_t>(world, "i64", me);  typed<uint8_t>(world, "u8", me);
  typed<uint16_t>(world, "u16", me);       typed<uint32_t>(world, "u32", me); typed<uint64_t>(world, "u64", me);
  typed<float>(world, "f32", me);          typed<double>(world, "f64", me);   typed<long double>(world, "f128", me);
  // tree all_reduce with user merges
  line("R tree_sum" + p + std::to_string(world.all_reduce((long)inp(seed, me, 5), [](long x, long y) { return x + y; })));
  line("R tree_max" + p + std::to_string(world.all_reduce((long)inp(seed, me, 6), [](long x, long y) { return std::max(x, y); })));
  {
    std::vector<int> mine{me};
    auto u = world.all_reduce(mine, [](const std::vector<int> &x, const std::vector<int> &y) {
      std::vector<int> o(x); o.insert(o.end(), y.begin(), y.end()); std::sort(o.begin(), o.end()); return o; });
    std::string s;
    for (int x : u) s += std::to_string(x) + ",";
    line("R tree_union" + p + s);
    // a merge that is associative but NOT commutative exposes the order in which the tree merges: compared with
    // Tree.tree_all_reduce (list append) evaluated in Coq
    auto ord = world.all_reduce(mine, [](const std::vector<int> &x, const std::vector<int> &y) {
      std::vector<int> o(x); o.insert(o.end(), y.begin(), y.end()); return o; });
    std::string so;
    for (int x : ord) so += std::to_string(x) + ",";
    line("R tree_order" + p + so);
    std::string str = std::string(1, (char)('a' + me % 26));
    auto cat = world.all_reduce(str, [](const std::string &x, const std::string &y) { std::string o = x + y; std::sort(o.begin(), o.end()); return o; });
    line("R tree_strcat" + p + cat);
  }
  // free functions: they first complete outstanding asyncs
  static long counter = 0;
  counter = 0;
  for (int d = 0; d < n; ++d) world.async(d, [](long v) { counter += v; }, (long)(me + 1));
  long s = ygm::sum(counter, world);      // every rank's counter must already hold n(n+1)/2
  (void)s;     // the value reduced may legitimately be the one read at the call; what must hold is that the handlers have run
  line("R sum_after_asyncs" + p + "local=" + std::to_string(counter));
  {
    // every free-function reduction first completes the outstanding asyncs: when it returns, the handlers of the asyncs issued
    // before it (by every rank) have run here - observed through their side effect, not through the value reduced (some of
    // the functions take their argument by value)
    static long c_min = 0, c_max = 0, c_pfx = 0, c_and = 0, c_or = 0;     // one counter per call, never reset
    for (int d = 0; d < n; ++d) world.async(d, [](long v) { c_min += v; }, 1L);
    (void)ygm::min(1L, world);
    line("R min_after_asyncs" + p + std::to_string(c_min));
    for (int d = 0; d < n; ++d) world.async(d, [](long v) { c_max += v; }, 1L);
    (void)ygm::max(1L, world);
    line("R max_after_asyncs" + p + std::to_string(c_max));
    for (int d = 0; d < n; ++d) world.async(d, [](long v) { c_pfx += v; }, 1L);
    (void)ygm::prefix_sum(1L, world);
    line("R prefix_sum_after_asyncs" + p + std::to_string(c_pfx));
    for (int d = 0; d < n; ++d) world.async(d, [](long v) { c_and += v; }, 1L);
    (void)ygm::logical_and(true, world);
    line("R logical_and_after_asyncs" + p + std::to_string(c_and));
    for (int d = 0; d < n; ++d) world.async(d, [](long v) { c_or += v; }, 1L);
    (void)ygm::logical_or(false, world);
    line("R logical_or_after_asyncs" + p + std::to_string(c_or));
  }
  line("R sum" + p + std::to_string(ygm::sum(a, world)));
  line("R min" + p + std::to_string(ygm::min(a, world)));
  line("R max" + p + std::to_string(ygm::max(a, world)));
  line("R prefix_sum" + p + std::to_string(ygm::prefix_sum(a, world)));
  line("R prefix_sum_u64" + p + std::to_string(ygm::prefix_sum((uint64_t)(me + 1), world)));
  {
    // floating-point prefix sums: the exclusive prefix of rank 1 is exactly rank 0's input whatever the association order, also when
    // rank 1's own input is huge; with inputs that are small integers every prefix is exact
    double big = me == 1 ? 1e17 : 1.0;
    line("R prefix_sum_dbl_big" + p + std::to_string((long long)std::llround(ygm::prefix_sum(big, world) * 4)) + (me <= 1 ? "" : " -"));
    line("R prefix_sum_dbl" + p + std::to_string((long long)std::llround(ygm::prefix_sum((double)(me * 0.5 + 0.25), world) * 4)));
    line("R prefix_sum_flt" + p + std::to_string((long long)std::llround(ygm::prefix_sum((float)(me + 1), world) * 4)));
    line("R prefix_sum_i32" + p + std::to_string((long long)ygm::prefix_sum((int32_t)(me % 2 ? -(me + 1) : me + 1), world)));
  }
  line("R logical_and" + p + std::to_string((int)ygm::logical_and(inp(seed, me, 7) > -900, world)));
  line("R logical_or" + p + std::to_string((int)ygm::logical_or(inp(seed, me, 8) > 900, world)));
  line("R logical_and_all" + p + std::to_string((int)ygm::logical_and(true, world)));
  line("R logical_or_none" + p + std::to_string((int)ygm::logical_or(false, world)));
  for (int root = 0; root < n; ++root) {
    long v = me == root ? inp(seed, root, 9) : -777777;
    ygm::bcast(v, root, world);
    std::vector<std::string> w;
    if (me == root) w = {"r" + std::to_string(root), "", "x\"y"};
    ygm::bcast(w, root, world);
    std::string ws;
    for (auto &x : w) ws += x + "|";
    line("R bcast_" + std::to_string(root) + p + std::to_string(v) + " " + ws);
  }
  {
    // bcast replaces whatever the non-root ranks held, also for boost::json containers (loaded element by element)
    namespace bj = boost::json;
    bj::object o = me == 0 ? bj::object{{"a", 1}, {"only_on_root", true}} : bj::object{{"a", 2}, {"stale", 3}};
    ygm::bcast(o, 0, world);
    line("R bcast_json_object" + p + bj::serialize(o));
    bj::array ar = me == 0 ? bj::array{1, 2, 3} : bj::array{9, 9};
    ygm::bcast(ar, 0, world);
    line("R bcast_json_array" + p + bj::serialize(ar));
    std::vector<bj::value> vv = me == 0 ? std::vector<bj::value>{bj::object{{"k", "v"}}, bj::array{true, nullptr}} : std::vector<bj::value>{bj::object{{"old", 1}}, bj::array{7}, 5};
    ygm::bcast(vv, 0, world);
    std::string sv;
    for (auto &x : vv) sv += bj::serialize(x) + ";";
    line("R bcast_json_vector" + p + sv);
    std::map<std::string, long> mp = me == 0 ? std::map<std::string, long>{{"x", 1}} : std::map<std::string, long>{{"y", 2}, {"x", 9}};
    ygm::bcast(mp, 0, world);
    std::string sm;
    for (auto &kv : mp) sm += kv.first + "=" + std::to_string(kv.second) + ";";
    line("R bcast_std_map" + p + sm);
  }
  line("R is_same_yes" + p + std::to_string((int)ygm::is_same(42L, world)));
  line("R is_same_last" + p + std::to_string((int)ygm::is_same((long)(me == n - 1 ? 1 : 0), world)));
  line("R is_same_first" + p + std::to_string((int)ygm::is_same((long)(me == 0 ? 1 : 0), world)));
  line("R is_same_str" + p + std::to_string((int)ygm::is_same(std::string("abc"), world)));
  return 0;
}
