// maskhandler.cpp — C08: interrupt masks taken and released INSIDE handlers (every map::async_visit handler does this through
// map_impl::local_visit; a user handler may too) while further receive buffers are already waiting on the rank: no handler may
// start before the running one has finished, and a by-reference argument of the async it then issues is serialized unchanged.
//   maskhandler <rounds>
// Lines:  MH <rank> <handlers started while another was running> <acks whose by-reference argument changed> <handlers run> <acks>
#include <ygm/comm.hpp>
#include <ygm/container/map.hpp>
#include <ygm/detail/interrupt_mask.hpp>
#include <cstdio>
#include <string>
static int  g_depth = 0;
static long g_nested = 0, g_run = 0, g_badack = 0, g_acks = 0;
static long g_current = 0;
static void on_begin(void *, uint16_t, void *) { if (g_depth > 0) ++g_nested; ++g_depth; ++g_run; }
static void on_end(void *, uint16_t, void *) { --g_depth; }
static void line(const std::string &s) { fputs(s.c_str(), stdout); fputc('\n', stdout); fflush(stdout); }
int main(int argc, char **argv) {
  ygm::comm world(&argc, &argv);
  ygm::verif::hooks.exec_begin = on_begin;
  ygm::verif::hooks.exec_end   = on_end;
  const int rounds = argc > 1 ? atoi(argv[1]) : 6;
  const int me = world.rank(), R = world.size();
  static ygm::comm *pw;
  pw = &world;
  {
    ygm::container::map<long, long> m(world, 0);
    for (int r = 0; r < rounds; ++r) {
      // a user handler takes a mask in a scope, then answers with a by-reference argument
      for (int d = 0; d < R; ++d) {
        world.async(d, [](int src, long id) {
          g_current = id;
          { ygm::detail::interrupt_mask mask(*pw); g_current = id; }
          pw->async(src, [](long want, const long &got) { ++g_acks; if (want != got) ++g_badack; }, id, g_current);
        }, me, (long)(me * 1000 + r * 10 + d));
        world.local_progress();                 // several separate buffers per destination
      }
      // map visits: local_visit takes a mask inside the handler
      for (int k = 0; k < 3 * R; ++k) {
        m.async_visit((long)k, [](const long &key, long &v) { v += 1; });
        if (k % 2) world.local_progress();
      }
    }
    world.barrier();
  }
  line("MH " + std::to_string(me) + " " + std::to_string(g_nested) + " " + std::to_string(g_badack) + " " + std::to_string(g_run) + " " + std::to_string(g_acks));
  return 0;
}
