// disjoint.cpp — C17 harness: union multigraphs on the real disjoint_set.
//   disjoint <edge-file>
// Edge file lines:  u <epoch> <rank> <a> <b> <cb>     (cb = 1: async_union_and_execute, the callback records (a, b))
// After every epoch (barrier): raw dump of every rank's (item, rank, parent); all_find of every item;
// for_all (item, representative); num_sets; size; the callback edges of the epoch.
#include <ygm/comm.hpp>
#include <ygm/container/disjoint_set.hpp>
#include <cstdio>
#include <cstdlib>
#include <fstream>
#include <set>
#include <sstream>
#include <string>
#include <vector>

static void line(const std::string &s) { fputs(s.c_str(), stdout); fputc('\n', stdout); fflush(stdout); }
static std::vector<std::pair<long, long>> g_cb;
// VERIF_DSTRACE=1: every visit of the walk protocol that runs on this rank during a union epoch, with the item's entry before
// and after the visitor (hook ds_visit of verif_hooks.hpp):   W <rank> <phase 0|1> <visitor type> <item> <rank> <parent> : args
static bool g_trace = false;
static int  g_me    = -1;
static void trace_visit(int phase, const char *visitor, long item, long rank, long parent, const long *args, int nargs) {
  if (!g_trace) return;
  std::string s = "W " + std::to_string(g_me) + " " + std::to_string(phase) + " " + visitor + " " + std::to_string(item) + " " +
                  std::to_string(rank) + " " + std::to_string(parent) + " :";
  for (int i = 0; i < nargs; ++i) s += " " + std::to_string(args[i]);
  line(s);
}

struct E { long epoch, rank, a, b, cb; };

int main(int argc, char **argv) {
  ygm::comm world(&argc, &argv);
  std::vector<E> es;
  long           nepochs = 0;
  std::set<long> items;
  {
    std::ifstream in(argv[1]);
    std::string   l;
    while (std::getline(in, l)) {
      std::istringstream ss(l);
      std::string kw;
      E e;
      ss >> kw >> e.epoch >> e.rank >> e.a >> e.b >> e.cb;
      if (kw != "u") continue;
      es.push_back(e);
      nepochs = std::max(nepochs, e.epoch);
    }
  }
  int me = world.rank();
  g_me   = me;
  const bool tracing = getenv("VERIF_DSTRACE") != nullptr;
  if (tracing) ygm::verif::hooks.ds_visit = trace_visit;
  {
    ygm::container::disjoint_set<long> ds(world);
    for (long ep = 1; ep <= nepochs; ++ep) {
      if (tracing) { line("WB " + std::to_string(ep) + " " + std::to_string(me)); g_trace = true; }
      for (auto &e : es) {
        if (e.epoch != ep) continue;
        items.insert(e.a);
        items.insert(e.b);
        if (e.rank != me) continue;
        if (e.cb) ds.async_union_and_execute(e.a, e.b, [](const long &x, const long &y) { g_cb.push_back({x, y}); });
        else ds.async_union(e.a, e.b);
      }
      world.barrier();
      g_trace = false;
      if (tracing) world.cf_barrier();      // no rank starts all_compress / all_find visits while another still traces
      std::string p = " " + std::to_string(ep) + " " + std::to_string(me) + " :";
      std::string s = "P" + p;
      for (auto &kv : ds.m_impl.m_local_item_parent_map)
        s += " " + std::to_string(kv.first) + "," + std::to_string(kv.second.get_rank()) + "," + std::to_string(kv.second.get_parent()) + "," + std::to_string(ds.m_impl.owner(kv.first));
      line(s);
      s = "CB" + p;
      for (auto &ab : g_cb) s += " " + std::to_string(ab.first) + "," + std::to_string(ab.second);
      g_cb.clear();
      line(s);
      std::vector<long> all(items.begin(), items.end());
      // all_find compresses paths as a side effect: in odd epochs for_all (all_compress) runs first, on the raw structure
      auto do_find = [&]() {
        auto reps = ds.all_find(all);
        std::string s = "F" + p;
        for (auto &kv : reps) s += " " + std::to_string(kv.first) + "," + std::to_string(kv.second);
        line(s);
        line("NS" + p + " " + std::to_string(ds.num_sets()) + " " + std::to_string(ds.size()));
      };
      auto do_forall = [&]() {
        std::string s = "A" + p;
        ds.for_all([&](const long &item, const long &rep) { s += " " + std::to_string(item) + "," + std::to_string(rep); });
        line(s);
        s = "P2" + p;        // after all_compress (called by for_all)
        for (auto &kv : ds.m_impl.m_local_item_parent_map)
          s += " " + std::to_string(kv.first) + "," + std::to_string(kv.second.get_rank()) + "," + std::to_string(kv.second.get_parent());
        line(s);
      };
      if (ep % 2) { do_forall(); world.cf_barrier(); do_find(); } else { do_find(); world.cf_barrier(); do_forall(); }
      // a rank that is still inside the last barrier of for_all may legally execute unions of the next epoch
      // issued by faster ranks: nobody starts the next epoch before everybody has finished reading this one
      world.cf_barrier();
    }
    // ---- clear() and immediate reuse: a union issued as soon as clear() has returned on this rank must survive (every rank
    // has cleared before anyone continues) ----
    {
      ds.clear();
      ds.async_union(500000 + me, 600000 + me);
      ds.async_union(600000 + me, 600000 + (me + 1) % world.size());
      world.barrier();
      std::string s = "PC " + std::to_string(me) + " :";
      for (auto &kv : ds.m_impl.m_local_item_parent_map)
        s += " " + std::to_string(kv.first) + "," + std::to_string(kv.second.get_rank()) + "," + std::to_string(kv.second.get_parent());
      line(s);
      line("NSC " + std::to_string(me) + " : " + std::to_string(ds.num_sets()) + " " + std::to_string(ds.size()));
      world.cf_barrier();
      // all_find of items that never appeared in a union (each is a set of its own), with a duplicate, next to known items
      std::vector<long> q = {500000 + me, 910001, 910002, 910002, 920000 + me, 600000 + me};
      auto              reps = ds.all_find(q);
      s = "FU " + std::to_string(me) + " :";
      for (auto &kv : reps) s += " " + std::to_string(kv.first) + "," + std::to_string(kv.second);
      line(s);
      world.cf_barrier();
    }
  }
  line("DONE " + std::to_string(me));
  return 0;
}
