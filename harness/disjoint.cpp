// disjoint.cpp — C17 harness: union multigraphs on the real disjoint_set.
//   disjoint <edge-file>
// Edge file lines:  u <epoch> <rank> <a> <b> <cb>     (cb = 1: async_union_and_execute, the callback records (a, b))
// After every epoch (barrier): raw dump of every rank's (item, rank, parent); all_find of every item;
// for_all (item, representative); num_sets; size; the callback edges of the epoch.
#include <ygm/comm.hpp>
#include <ygm/container/disjoint_set.hpp>
#include <cstdio>
#include <fstream>
#include <set>
#include <sstream>
#include <string>
#include <vector>

static void line(const std::string &s) { fputs(s.c_str(), stdout); fputc('\n', stdout); fflush(stdout); }
static std::vector<std::pair<long, long>> g_cb;

struct E { long epoch, rank, a, b, cb; };

int main(int argc, char **argv) {
  ygm::comm world(&argc, &argv);
  std::vector<E> es;
  long           nepochs = 0;
  std::set<long> items;
  {
    std::ifstream in(argv[1]);
    std::string   l;
    while (std::getline(in, l)) {
      std::istringstream ss(l);
      std::string kw;
      E e;
      ss >> kw >> e.epoch >> e.rank >> e.a >> e.b >> e.cb;
      if (kw != "u") continue;
      es.push_back(e);
      nepochs = std::max(nepochs, e.epoch);
    }
  }
  int me = world.rank();
  {
    ygm::container::disjoint_set<long> ds(world);
    for (long ep = 1; ep <= nepochs; ++ep) {
      for (auto &e : es) {
        if (e.epoch != ep) continue;
        items.insert(e.a);
        items.insert(e.b);
        if (e.rank != me) continue;
        if (e.cb) ds.async_union_and_execute(e.a, e.b, [](const long &x, const long &y) { g_cb.push_back({x, y}); });
        else ds.async_union(e.a, e.b);
      }
      world.barrier();
      std::string p = " " + std::to_string(ep) + " " + std::to_string(me) + " :";
      std::string s = "P" + p;
      for (auto &kv : ds.m_impl.m_local_item_parent_map)
        s += " " + std::to_string(kv.first) + "," + std::to_string(kv.second.get_rank()) + "," + std::to_string(kv.second.get_parent()) + "," + std::to_string(ds.m_impl.owner(kv.first));
      line(s);
      s = "CB" + p;
      for (auto &ab : g_cb) s += " " + std::to_string(ab.first) + "," + std::to_string(ab.second);
      g_cb.clear();
      line(s);
      std::vector<long> all(items.begin(), items.end());
      // all_find compresses paths as a side effect: in odd epochs for_all (all_compress) runs first, on the raw structure
      auto do_find = [&]() {
        auto reps = ds.all_find(all);
        std::string s = "F" + p;
        for (auto &kv : reps) s += " " + std::to_string(kv.first) + "," + std::to_string(kv.second);
        line(s);
        line("NS" + p + " " + std::to_string(ds.num_sets()) + " " + std::to_string(ds.size()));
      };
      auto do_forall = [&]() {
        std::string s = "A" + p;
        ds.for_all([&](const long &item, const long &rep) { s += " " + std::to_string(item) + "," + std::to_string(rep); });
        line(s);
        s = "P2" + p;        // after all_compress (called by for_all)
        for (auto &kv : ds.m_impl.m_local_item_parent_map)
          s += " " + std::to_string(kv.first) + "," + std::to_string(kv.second.get_rank()) + "," + std::to_string(kv.second.get_parent());
        line(s);
      };
      if (ep % 2) { do_forall(); world.cf_barrier(); do_find(); } else { do_find(); world.cf_barrier(); do_forall(); }
      // a rank that is still inside the last barrier of for_all may legally execute unions of the next epoch
      // issued by faster ranks: nobody starts the next epoch before everybody has finished reading this one
      world.cf_barrier();
    }
  }
  line("DONE " + std::to_string(me));
  return 0;
}
