// bags.cpp — C14 correspondence harness: histories on two real bags and two real tagged bags.
//   bags <history-file>
// History lines (every rank reads the whole file; an op with a <from> field is issued by that rank only):
//   bi <w> <from> <v>                 bag[w].async_insert(v)
//   bd <w> <from> <dest> <v>          bag[w].async_insert(v, dest)
//   bv <w> <from> <dest> <n> v...     bag[w].async_insert(vector, dest)
//   reb <w> | gs <w> <seed> | ls <w> <seed> | swap | bclr <w> | tclr <w>
//   obs                               barrier; dump local contents, size(), gather_to_vector(), gather_to_vector(0)
//   ti <w> <from> <v>                 tagged[w].async_insert(v)     -> prints the returned tag
//   te <w> <from> <tag>               tagged[w].async_erase(tag)
//   tv <w> <from> <tag>               tagged[w].async_visit_if_exists(tag, record)
//   tswap | tobs
#include <ygm/comm.hpp>
#include <ygm/container/bag.hpp>
#include <ygm/container/tagged_bag.hpp>
#include <algorithm>
#include <cstdio>
#include <fstream>
#include <random>
#include <sstream>
#include <string>
#include <vector>

static void line(const std::string &s) { fputs(s.c_str(), stdout); fputc('\n', stdout); fflush(stdout); }
template <class V>
static std::string join_sorted(V v) {
  std::sort(v.begin(), v.end());
  std::string s;
  for (auto &x : v) s += " " + std::to_string(x);
  return s;
}
static std::vector<std::pair<size_t, long>> g_visited;   // key: tag * 2 + bag

int main(int argc, char **argv) {
  ygm::comm world(&argc, &argv);
  int       me = world.rank();
  std::vector<std::vector<std::string>> ops;
  {
    std::ifstream in(argv[1]);
    std::string   l;
    while (std::getline(in, l)) {
      std::istringstream       ss(l);
      std::vector<std::string> t;
      std::string              w;
      while (ss >> w) t.push_back(w);
      if (!t.empty() && t[0][0] != '#') ops.push_back(t);
    }
  }
  {
    ygm::container::bag<long>        A(world), B(world);
    ygm::container::tagged_bag<long> TA(world), TB(world);
    auto bag = [&](const std::string &w) -> ygm::container::bag<long> & { return w == "0" ? A : B; };
    auto tbag = [&](const std::string &w) -> ygm::container::tagged_bag<long> & { return w == "0" ? TA : TB; };
    long nobs = 0, idx = 0;
    for (auto &t : ops) {
      ++idx;
      const std::string &k = t[0];
      if (k == "bi") { if (atoi(t[2].c_str()) == me) bag(t[1]).async_insert(atol(t[3].c_str())); }
      else if (k == "bd") { if (atoi(t[2].c_str()) == me) bag(t[1]).async_insert(atol(t[4].c_str()), atoi(t[3].c_str())); }
      else if (k == "bv") {
        if (atoi(t[2].c_str()) == me) {
          std::vector<long> v;
          for (int i = 0; i < atoi(t[4].c_str()); ++i) v.push_back(atol(t[5 + i].c_str()));
          bag(t[1]).async_insert(v, atoi(t[3].c_str()));
        }
      }
      else if (k == "reb") bag(t[1]).rebalance();
      else if (k == "gs") { std::mt19937 r(atol(t[2].c_str()) * 977 + me); bag(t[1]).global_shuffle(r); }
      else if (k == "ls") { std::mt19937 r(atol(t[2].c_str()) * 977 + me); bag(t[1]).local_shuffle(r); }
      else if (k == "swap") A.swap(B);
      else if (k == "bclr") bag(t[1]).clear();
      else if (k == "tclr") tbag(t[1]).clear();
      else if (k == "obs") {
        ++nobs;
        world.barrier();
        std::string s = "O " + std::to_string(nobs) + " " + std::to_string(me) + " A :" + join_sorted(A.m_local_bag) + " | B :" + join_sorted(B.m_local_bag);
        world.cf_barrier();       // nobody starts the collectives below (which may move on to later ops) before all dumps are taken
        size_t sa = A.size(), sb = B.size();
        s += " | " + std::to_string(sa) + " " + std::to_string(sb);
        auto ga = A.gather_to_vector();
        auto gb = B.gather_to_vector();
        auto g0 = A.gather_to_vector(0);
        auto g1 = B.gather_to_vector(world.size() - 1);
        s += " | GA :" + join_sorted(ga) + " | GB :" + join_sorted(gb) + " | G0 :" + join_sorted(g0) + " | G1 :" + join_sorted(g1);
        // for_all sees every item once
        std::vector<long> fa;
        A.for_all([&](long &x) { fa.push_back(x); });
        s += " | FA :" + join_sorted(fa);
        line(s);
        world.cf_barrier();
      }
      else if (k == "ti") {
        if (atoi(t[2].c_str()) == me) {
          size_t tag = tbag(t[1]).async_insert(atol(t[3].c_str()));
          line("T " + std::to_string(idx) + " " + std::to_string(me) + " " + std::to_string(tag));
        }
      }
      else if (k == "te") { if (atoi(t[2].c_str()) == me) tbag(t[1]).async_erase(strtoull(t[3].c_str(), 0, 10)); }
      else if (k == "tv") {
        if (atoi(t[2].c_str()) == me)
          tbag(t[1]).async_visit_if_exists(strtoull(t[3].c_str(), 0, 10), [](const size_t &tag, long &v, int w) { g_visited.push_back({tag * 2 + w, v}); }, atoi(t[1].c_str()));
      }
      else if (k == "tswap") TA.swap(TB);
      else if (k == "tobs") {
        ++nobs;
        world.barrier();
        std::string s = "TO " + std::to_string(nobs) + " " + std::to_string(me) + " A :";
        std::vector<std::pair<size_t, long>> la, lb;
        // (tagged_bag::local_for_all / local_size do not compile on this tree: they name members ygm::container::map does not have)
        for (auto &kv : TA.m_tagged_bag.m_impl.m_local_map) la.push_back({kv.first, kv.second});
        for (auto &kv : TB.m_tagged_bag.m_impl.m_local_map) lb.push_back({kv.first, kv.second});
        std::sort(la.begin(), la.end());
        std::sort(lb.begin(), lb.end());
        for (auto &kv : la) s += " " + std::to_string(kv.first) + "=" + std::to_string(kv.second);
        s += " | B :";
        for (auto &kv : lb) s += " " + std::to_string(kv.first) + "=" + std::to_string(kv.second);
        s += " | V :";
        std::sort(g_visited.begin(), g_visited.end());
        for (auto &kv : g_visited) s += " " + std::to_string(kv.first) + "=" + std::to_string(kv.second);
        g_visited.clear();
        world.cf_barrier();
        size_t sa = TA.size(), sb = TB.size();
        s += " | " + std::to_string(sa) + " " + std::to_string(sb);
        // all_gather of every tag seen locally in A, through A
        std::vector<size_t> tags;
        for (auto &kv : la) tags.push_back(kv.first);
        auto got = TA.all_gather(tags);
        s += " | AG :";
        for (auto &kv : got) s += " " + std::to_string(kv.first) + "=" + std::to_string(kv.second);
        line(s);
        world.cf_barrier();
      }
    }
    world.barrier();
  }
  line("DONE " + std::to_string(me));
  return 0;
}
