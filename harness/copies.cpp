// copies.cpp — C11 / C12 / C13: the copy and move constructors the containers define (map: copy; set / multiset: move, which is
// also what a std::vector<set> uses when it grows; array: copy), applied to a container that still has operations in flight.
// After the next barrier the new object holds everything issued before it was made (and, for a copy, so does the original).
//   copies <keys-per-rank>
// Lines:  CP <what> <rank> : <sorted local contents of the new object> | <of the original>
#include <ygm/comm.hpp>
#include <ygm/container/array.hpp>
#include <ygm/container/bag.hpp>
#include <ygm/container/counting_set.hpp>
#include <ygm/container/disjoint_set.hpp>
#include <ygm/container/map.hpp>
#include <ygm/container/set.hpp>
#include <algorithm>
#include <cstdio>
#include <string>
#include <vector>
static void line(const std::string &s) { fputs(s.c_str(), stdout); fputc('\n', stdout); fflush(stdout); }
template <class S>
static std::string keys(const S &s) { std::vector<long> v(s.begin(), s.end()); std::sort(v.begin(), v.end()); std::string r; for (long x : v) r += " " + std::to_string(x); return r; }
template <class M>
static std::string kvs(const M &m) { std::vector<std::pair<long, long>> v(m.begin(), m.end()); std::sort(v.begin(), v.end()); std::string r; for (auto &x : v) r += " " + std::to_string(x.first) + "=" + std::to_string(x.second); return r; }
int main(int argc, char **argv) {
  ygm::comm world(&argc, &argv);
  const int K = argc > 1 ? atoi(argv[1]) : 10;
  const int me = world.rank(), R = world.size();
  using namespace ygm::container;
  {
    set<long> a(world);
    for (int i = 0; i < K; ++i) a.async_insert(i * R + me);
    set<long> b(std::move(a));
    world.barrier();
    line("CP set_move " + std::to_string(me) + " :" + keys(b.m_impl.m_local_set) + " |");
    world.cf_barrier();
  }
  {
    std::vector<multiset<long>> levels;
    levels.emplace_back(world);
    for (int i = 0; i < K; ++i) levels[0].async_insert(i % 3 + 10 * me);
    levels.emplace_back(world);            // the reallocation move-constructs levels[0]
    world.barrier();
    line("CP vector_growth " + std::to_string(me) + " :" + keys(levels[0].m_impl.m_local_set) + " |");
    world.cf_barrier();
  }
  {
    map<long, long> a(world, 7);
    for (int i = 0; i < K; ++i) a.async_insert(i * R + me, 100 + i);
    map<long, long> b(a);
    world.barrier();
    line("CP map_copy " + std::to_string(me) + " :" + kvs(b.m_impl.m_local_map) + " |" + kvs(a.m_impl.m_local_map));
    world.cf_barrier();
  }
  {
    multimap<long, long> a(world, 7);
    for (int i = 0; i < K; ++i) a.async_insert(i % 4, 1000 * me + i);
    multimap<long, long> b(a);
    world.barrier();
    line("CP multimap_copy " + std::to_string(me) + " :" + kvs(b.m_impl.m_local_map) + " |" + kvs(a.m_impl.m_local_map));
    world.cf_barrier();
  }
  {
    const int len = 2 * R + 1;
    array<long> a(world, len, 5);
    for (int i = 0; i < len; ++i) a.async_plus(i, 10 * (me + 1) + i);
    array<long> c(a);
    world.barrier();
    std::string s = "CP array_copy " + std::to_string(me) + " :";
    for (size_t i = 0; i < c.m_local_vec.size(); ++i) s += " " + std::to_string(c.m_local_start_index + i) + "=" + std::to_string(c.m_local_vec[i]);
    s += " |";
    for (size_t i = 0; i < a.m_local_vec.size(); ++i) s += " " + std::to_string(a.m_local_start_index + i) + "=" + std::to_string(a.m_local_vec[i]);
    line(s);
    world.cf_barrier();
  }
  {
    // a copy is a container of its own: what is inserted into it afterwards goes to the copy, not to the original
    bag<long> a(world);
    for (int i = 0; i < K; ++i) a.async_insert(i * R + me);
    bag<long> b(a);
    for (int i = 0; i < K; ++i) b.async_insert(100000 + i * R + me);
    world.barrier();
    line("CP bag_copy " + std::to_string(me) + " :" + keys(b.m_local_bag) + " |" + keys(a.m_local_bag));
    world.cf_barrier();
  }
  {
    counting_set<long> a(world);
    for (int i = 0; i < K; ++i) a.async_insert(i % 5);
    counting_set<long> b(a);
    for (int i = 0; i < K; ++i) b.async_insert(100 + i % 3);
    world.barrier();
    line("CP counting_set_copy " + std::to_string(me) + " :" + kvs(b.m_map.m_impl.m_local_map) + " |" + kvs(a.m_map.m_impl.m_local_map));
    world.cf_barrier();
  }
  {
    disjoint_set<long> a(world);
    a.async_union(10 * me, 10 * me + 1);
    disjoint_set<long> b(a);
    b.async_union(10 * me + 1, 10 * me + 2);
    world.barrier();
    std::string s = "CP disjoint_set_copy " + std::to_string(me) + " :";
    std::vector<long> v;
    for (auto &kv : b.m_impl.m_local_item_parent_map) v.push_back(kv.first);
    s += keys(v) + " |";
    v.clear();
    for (auto &kv : a.m_impl.m_local_item_parent_map) v.push_back(kv.first);
    line(s + keys(v));
    world.cf_barrier();
  }
  line("DONE " + std::to_string(me));
  return 0;
}
