// dtor.cpp — C02, the implicit barrier in the destructor of a container: when ~container() returns on a rank, every operation
// issued on the container before it (by any rank) has executed.  For every container kind: operations are issued from every
// rank with NO explicit barrier, the container goes out of scope, and the rank notes how many message handlers it has executed
// so far (hook exec_end); then world.barrier().  If any handler ran on this rank between the destructor's return and the end of
// that barrier, work issued before the destructor's barrier ran after it had returned.
//   dtor <seed>
// Lines:  D <kind> <rank> <handlers executed when the destructor returned> <... after the following barrier> <issued by this rank>
#include <ygm/comm.hpp>
#include <ygm/container/array.hpp>
#include <ygm/container/bag.hpp>
#include <ygm/container/counting_set.hpp>
#include <ygm/container/disjoint_set.hpp>
#include <ygm/container/map.hpp>
#include <ygm/container/set.hpp>
#include <ygm/collective.hpp>
#include <cstdio>
#include <unistd.h>
#include <vector>
#include <string>

static long g_exec = 0;
static void on_exec_end(void *, uint16_t, void *) { ++g_exec; }
static void line(const std::string &s) { fputs(s.c_str(), stdout); fputc('\n', stdout); fflush(stdout); }

int main(int argc, char **argv) {
  ygm::comm world(&argc, &argv);
  ygm::verif::hooks.exec_end = on_exec_end;
  long seed = argc > 1 ? atol(argv[1]) : 1;
  int  me = world.rank(), n = world.size();
  auto report = [&](const char *kind, long at_return, long issued) {
    world.barrier();
    line(std::string("D ") + kind + " " + std::to_string(me) + " " + std::to_string(at_return) + " " + std::to_string(g_exec) + " " + std::to_string(issued));
    world.cf_barrier();
  };
  const int K = 40 + (int)(seed % 7);
  long      c;
  { ygm::container::map<long, long> m(world);
    for (int i = 0; i < K; ++i) m.async_insert((long)(i * n + me), (long)i);
    for (int i = 0; i < K; ++i) m.async_visit((long)(i * 3 + me), [](const long &, long &v) { v += 1; });
  }
  c = g_exec; report("map", c, 2 * K);
  { ygm::container::multimap<long, long> m(world);
    for (int i = 0; i < K; ++i) m.async_insert((long)(i % 5), (long)me);
  }
  c = g_exec; report("multimap", c, K);
  { ygm::container::set<long> s(world);
    for (int i = 0; i < K; ++i) s.async_insert((long)(i * 7 + me));
    for (int i = 0; i < K; ++i) s.async_exe_if_missing((long)(1000 + i), [](const long &) {});
  }
  c = g_exec; report("set", c, 2 * K);
  { ygm::container::multiset<long> s(world);
    for (int i = 0; i < K; ++i) s.async_insert((long)(i % 4));
  }
  c = g_exec; report("multiset", c, K);
  { ygm::container::bag<long> b(world);
    for (int i = 0; i < K; ++i) b.async_insert((long)i, (me + 1 + i) % n);
  }
  c = g_exec; report("bag", c, K);
  { ygm::container::array<long> a(world, 64, 0);
    for (int i = 0; i < K; ++i) a.async_set((size_t)((i * 5 + me) % 64), (long)i);
  }
  c = g_exec; report("array", c, K);
  // arrays with fewer elements than ranks, and none: the destructor's barrier is the communicator's, whatever the container holds
  { ygm::container::array<long> a(world, n > 1 ? (size_t)(n - 1) : 0, 0);
    for (int i = 0; i < K; ++i) world.async((me + 1 + i) % n, [](long) {}, (long)i);
    if (n > 1) a.async_set(0, 7);
  }
  c = g_exec; report("array_small", c, K);
  { ygm::container::array<long> a(world, 0, 0);
    for (int i = 0; i < K; ++i) world.async((me + 2 + i) % n, [](long) {}, (long)i);
  }
  c = g_exec; report("array_empty", c, K);
  { ygm::container::counting_set<long> cs(world);
    for (int i = 0; i < K; ++i) cs.async_insert((long)(i % 6 + me));
  }
  c = g_exec; report("counting_set", c, K);
  { ygm::container::disjoint_set<long> ds(world);
    for (int i = 0; i < K; ++i) ds.async_union((long)(i + me), (long)(i + me + 1));
  }
  c = g_exec; report("disjoint_set", c, K);
  line("DONE " + std::to_string(me));
  return 0;
}
