// codec.cpp — C06 correspondence harness.
//
//   codec archive <seed> <count> <big>     values of ~16 type shapes through the real YGMOutputArchive /
//                                          YGMInputArchive; prints Coq terms (shape, value) and the bytes
//   codec comm <seed> <count>              messages with functors of sizes 1,4,8,12,13,24 and mixed arguments
//                                          through comm::async (run under simmpi on a multi-node layout)
// Lines:  V <shape> | <value> | <hex> | rt=<0/1> rest=<0/1>        J <json> | <hex> | rt=<0/1>
//         X uid=<u> rank=<r> ok=<0/1> fsize=<n> consumed=<n> expect=<n>
#include <ygm/comm.hpp>
#include <ygm/detail/cereal_boost_json.hpp>
#include <cstdio>
#include <map>
#include <random>
#include <set>
#include <string>
#include <tuple>
#include <vector>

static std::mt19937_64 rng;
static uint64_t        rnd(uint64_t n) { return n ? rng() % n : 0; }

static std::string hex(const std::vector<std::byte> &b) {
  static const char *d = "0123456789abcdef";
  std::string        s;
  for (auto x : b) { s += d[(int)x >> 4]; s += d[(int)x & 15]; }
  return s.empty() ? "-" : s;
}
static void line(const std::string &s) { fputs(s.c_str(), stdout); fputc('\n', stdout); fflush(stdout); }

// ---- Coq printers -------------------------------------------------------------------------------------
template <typename T> std::string zint(T v) {     // the raw bit pattern as a non-negative integer
  using U = std::make_unsigned_t<T>;
  return std::to_string((unsigned long long)(U)v);
}
static std::string cstr(const std::string &s) {
  std::string o = "(VStr [";
  for (size_t i = 0; i < s.size(); ++i) o += (i ? "; " : "") + std::to_string((unsigned char)s[i]);
  return o + "])";
}
static std::string vlist(const std::vector<std::string> &xs) {
  std::string o;
  for (auto &x : xs) o += "(VCons " + x + " ";
  o += "VNil";
  for (size_t i = 0; i < xs.size(); ++i) o += ")";
  return "(VList " + o + ")";
}
static std::string slist(const std::vector<std::string> &xs) {
  std::string o;
  for (auto &x : xs) o += "(SCons " + x + " ";
  o += "SNil";
  for (size_t i = 0; i < xs.size(); ++i) o += ")";
  return "(STup " + o + ")";
}

struct user_t {
  int32_t                  a;
  std::string              s;
  std::vector<uint16_t>    v;
  template <class Ar> void serialize(Ar &ar) { ar(a, s, v); }
  bool operator==(const user_t &o) const { return a == o.a && s == o.s && v == o.v; }
};

static std::string rstr(size_t n) {
  std::string s(n, 'x');
  for (auto &c : s) c = (char)rnd(256);
  return s;
}
static size_t rsize(size_t big) {
  static const size_t sizes[] = {0, 0, 1, 1, 2, 3, 7, 8, 9, 31, 255, 256, 257};
  if (big && rnd(40) == 0) return big;
  return sizes[rnd(sizeof sizes / sizeof *sizes)];
}

template <typename T> static void emit(const std::string &shape, const std::string &value, const T &x) {
  std::vector<std::byte>   b;
  {
    cereal::YGMOutputArchive oa(b);
    oa(x);
  }
  // append a sentinel: the reader must stop exactly at the end of its own bytes
  std::vector<std::byte> b2 = b;
  b2.push_back(std::byte{0xAB});
  b2.push_back(std::byte{0xCD});
  T                       y;
  cereal::YGMInputArchive ia(b2.data(), b2.size());
  ia(y);
  bool rest = (ia.m_position == b.size());
  line("V " + shape + " | " + value + " | " + hex(b) + " | rt=" + std::to_string((int)(x == y)) + " rest=" + std::to_string((int)rest));
}

namespace bj = boost::json;
static std::string jterm(const bj::value &v) {
  if (v.is_null()) return "JNull";
  if (v.is_bool()) return std::string("(JBool ") + (v.as_bool() ? "true" : "false") + ")";
  if (v.is_int64()) return "(JInt " + zint(v.as_int64()) + ")";
  if (v.is_uint64()) return "(JUint " + zint((int64_t)v.as_uint64()) + ")";
  if (v.is_double()) { double d = v.as_double(); uint64_t u; memcpy(&u, &d, 8); return "(JDouble " + std::to_string((unsigned long long)u) + ")"; }
  auto bytes = [](const char *p, size_t n) { std::string o = "["; for (size_t i = 0; i < n; ++i) o += (i ? "; " : "") + std::to_string((unsigned char)p[i]); return o + "]"; };
  if (v.is_string()) return "(JStr " + bytes(v.as_string().data(), v.as_string().size()) + ")";
  if (v.is_array()) {
    std::string o; size_t n = 0;
    for (auto &x : v.as_array()) { o += "(JCons " + jterm(x) + " "; ++n; }
    o += "JNil"; for (size_t i = 0; i < n; ++i) o += ")";
    return "(JArr " + o + ")";
  }
  std::string o; size_t n = 0;
  for (auto &kv : v.as_object()) { o += "(OCons " + bytes(kv.key().data(), kv.key().size()) + " " + jterm(kv.value()) + " "; ++n; }
  o += "ONil"; for (size_t i = 0; i < n; ++i) o += ")";
  return "(JObj " + o + ")";
}
static bj::value rjson(int depth) {
  switch (rnd(depth > 2 ? 6 : 8)) {
    case 0: return nullptr;
    case 1: return (bool)rnd(2);
    case 2: return (int64_t)rng() >> rnd(60);
    case 3: return (uint64_t)(rng() | (1ull << 63));
    case 4: return (double)(int64_t)rnd(100000) / 8.0 - 1000.0;
    case 5: { std::string s(rnd(6), 'a'); for (auto &c : s) c = (char)(rnd(8) == 0 ? 0 : 32 + rnd(90)); return bj::string(s); }     // embedded NULs are legal JSON
    case 6: { bj::array a; size_t n = rnd(4); for (size_t i = 0; i < n; ++i) a.push_back(rjson(depth + 1)); return a; }
    default: {
      bj::object o; size_t n = rnd(4);
      for (size_t i = 0; i < n; ++i) {
        std::string key = "k" + std::to_string(rnd(50));
        if (rnd(5) == 0) key.insert(key.begin() + 1, '\0');       // member names with an embedded NUL ("\u0000"), and the empty name
        if (rnd(12) == 0) key.clear();
        o[key] = rjson(depth + 1);
      }
      return o; }
  }
}

static void archive_mode(uint64_t seed, int count, size_t big) {
  rng.seed(seed);
  for (int i = 0; i < count; ++i) {
    switch (i % 17) {
      case 0: { int32_t x = (int32_t)rng(); emit("(SInt 4)", "(VInt " + zint(x) + ")", x); break; }
      case 1: { uint64_t x = rng() >> rnd(64); emit("(SInt 8)", "(VInt " + zint(x) + ")", x); break; }
      case 2: { int8_t x = (int8_t)rng(); emit("(SInt 1)", "(VInt " + zint(x) + ")", x); break; }
      case 3: { uint16_t x = (uint16_t)rng(); emit("(SInt 2)", "(VInt " + zint(x) + ")", x); break; }
      case 4: { double x = (double)(int64_t)(rng() % 100000) / 16.0 - 3000; uint64_t u; memcpy(&u, &x, 8); emit("(SInt 8)", "(VInt " + std::to_string((unsigned long long)u) + ")", x); break; }
      case 5: { std::string s = rstr(rsize(big)); emit("SStr", cstr(s), s); break; }
      case 6: {
        std::vector<int32_t> v(rsize(big / 4)); std::vector<std::string> t;
        for (auto &x : v) { x = (int32_t)rng(); t.push_back("(VInt " + zint(x) + ")"); }
        emit("(SVec (SInt 4))", vlist(t), v); break; }
      case 7: {
        std::vector<bool> v(rsize(0)); std::vector<std::string> t;
        for (size_t k = 0; k < v.size(); ++k) { v[k] = rnd(2); t.push_back(std::string("(VInt ") + (v[k] ? "1" : "0") + ")"); }
        emit("(SVec (SInt 1))", vlist(t), v); break; }
      case 8: {
        std::vector<std::string> v(rnd(5)); std::vector<std::string> t;
        for (auto &x : v) { x = rstr(rnd(5)); t.push_back(cstr(x)); }
        emit("(SVec SStr)", vlist(t), v); break; }
      case 9: { std::pair<int32_t, std::string> p{(int32_t)rng(), rstr(rnd(4))};
        emit(slist({"(SInt 4)", "SStr"}), vlist({"(VInt " + zint(p.first) + ")", cstr(p.second)}), p); break; }
      case 10: { std::tuple<int8_t, uint8_t, int16_t> t{(int8_t)rng(), (uint8_t)rng(), (int16_t)rng()};
        emit(slist({"(SInt 1)", "(SInt 1)", "(SInt 2)"}), vlist({"(VInt " + zint(std::get<0>(t)) + ")", "(VInt " + zint(std::get<1>(t)) + ")", "(VInt " + zint(std::get<2>(t)) + ")"}), t); break; }
      case 11: {
        std::map<std::string, int32_t> m; size_t n = rnd(5);
        for (size_t k = 0; k < n; ++k) m[rstr(rnd(3) + 1)] = (int32_t)rng();
        std::vector<std::string> t;
        for (auto &kv : m) t.push_back(vlist({cstr(kv.first), "(VInt " + zint(kv.second) + ")"}));
        emit("(SVec " + slist({"SStr", "(SInt 4)"}) + ")", vlist(t), m); break; }
      case 12: {
        std::set<int64_t> s; size_t n = rnd(6);
        for (size_t k = 0; k < n; ++k) s.insert((int64_t)rng() >> rnd(60));
        std::vector<std::string> t;
        for (auto x : s) t.push_back("(VInt " + zint(x) + ")");
        emit("(SVec (SInt 8))", vlist(t), s); break; }
      case 13: {
        std::vector<std::pair<std::string, std::vector<int32_t>>> v(rnd(4)); std::vector<std::string> t;
        for (auto &p : v) {
          p.first = rstr(rnd(3)); p.second.resize(rnd(4)); std::vector<std::string> u;
          for (auto &x : p.second) { x = (int32_t)rng(); u.push_back("(VInt " + zint(x) + ")"); }
          t.push_back(vlist({cstr(p.first), vlist(u)}));
        }
        emit("(SVec " + slist({"SStr", "(SVec (SInt 4))"}) + ")", vlist(t), v); break; }
      case 14: {
        user_t u{(int32_t)rng(), rstr(rnd(5)), std::vector<uint16_t>(rnd(4))}; std::vector<std::string> t;
        for (auto &x : u.v) { x = (uint16_t)rng(); t.push_back("(VInt " + zint(x) + ")"); }
        emit(slist({"(SInt 4)", "SStr", "(SVec (SInt 2))"}), vlist({"(VInt " + zint(u.a) + ")", cstr(u.s), vlist(t)}), u); break; }
      case 15: {
        std::map<int32_t, std::vector<std::string>> m; size_t n = rnd(4);
        for (size_t k = 0; k < n; ++k) { auto &v = m[(int32_t)rnd(1000)]; v.resize(rnd(3)); for (auto &x : v) x = rstr(rnd(3)); }
        std::vector<std::string> t;
        for (auto &kv : m) { std::vector<std::string> u; for (auto &x : kv.second) u.push_back(cstr(x)); t.push_back(vlist({"(VInt " + zint(kv.first) + ")", vlist(u)})); }
        emit("(SVec " + slist({"(SInt 4)", "(SVec SStr)"}) + ")", vlist(t), m); break; }
      default: {
        bj::value j = rjson(0);
        std::vector<std::byte> b;
        { cereal::YGMOutputArchive oa(b); oa(j); }
        bj::value k;
        cereal::YGMInputArchive ia(b.data(), b.size());
        ia(k);
        line("J " + jterm(j) + " | " + hex(b) + " | rt=" + std::to_string((int)(j == k)));
      }
    }
  }
  // JSON documents (objects at the top level, so that member names - with embedded NULs, empty - are always exercised)
  for (int i = 0; i < count / 4; ++i) {
    bj::object o;
    size_t     n = 1 + rnd(4);
    for (size_t k = 0; k < n; ++k) {
      std::string key = "m" + std::to_string(rnd(9));
      if (rnd(3) == 0) key.insert(key.begin() + 1, '\0');
      if (rnd(9) == 0) key += std::string(1, '\0') + "x";
      if (rnd(15) == 0) key.clear();
      o[key] = rjson(1);
    }
    bj::value j = o;
    std::vector<std::byte> b;
    { cereal::YGMOutputArchive oa(b); oa(j); }
    bj::value k;
    cereal::YGMInputArchive ia(b.data(), b.size());
    ia(k);
    line("J " + jterm(j) + " | " + hex(b) + " | rt=" + std::to_string((int)(j == k)));
  }
}

// ---- through comm ----------------------------------------------------------------------------------------
template <size_t N> struct fun {
  unsigned char st[N];
  void operator()(ygm::comm *c, uint64_t uid, const std::string &s, const std::vector<uint32_t> &v);
};
static int      g_bad = 0;
static size_t   g_p0 = 0;
static void    *g_ar = nullptr;
static uint32_t g_hsize = 0;
static size_t   g_last_body = 0;      // body bytes (lambda id + functor + arguments) the last async appended (hook originate)
static std::string   exp_s(uint64_t uid) { std::string s(uid % 9, 'q'); for (size_t i = 0; i < s.size(); ++i) s[i] = (char)(uid * 7 + i); return s; }
static std::vector<uint32_t> exp_v(uint64_t uid) { std::vector<uint32_t> v((uid / 9) % 6); for (size_t i = 0; i < v.size(); ++i) v[i] = (uint32_t)(uid * 31 + i); return v; }
template <size_t N> void fun<N>::operator()(ygm::comm *c, uint64_t uid, const std::string &s, const std::vector<uint32_t> &v) {
  bool ok = (s == exp_s(uid)) && (v == exp_v(uid));
  for (size_t i = 0; i < N; ++i) ok = ok && st[i] == (unsigned char)(uid + 3 * i + N);
  size_t consumed = g_ar ? ((cereal::YGMInputArchive *)g_ar)->m_position - g_p0 : 0;
  size_t expect   = N + 8 + 8 + s.size() + 8 + 4 * v.size();
  if (!ok) ++g_bad;
  line("X uid=" + std::to_string(uid) + " rank=" + std::to_string(c->rank()) + " ok=" + std::to_string((int)ok) + " fsize=" + std::to_string(N) +
       " consumed=" + std::to_string(consumed) + " expect=" + std::to_string(expect) + " hsize=" + std::to_string(g_hsize));
}
template <size_t N> static void send(ygm::comm &w, int dest, uint64_t uid) {
  fun<N> f;
  for (size_t i = 0; i < N; ++i) f.st[i] = (unsigned char)(uid + 3 * i + N);
  w.async(dest, f, uid, exp_s(uid), exp_v(uid));
  // what the sender really packed for this message: the receiver must consume exactly that (minus the 2-byte lambda id)
  line("OS uid=" + std::to_string(uid) + " body=" + std::to_string(g_last_body));
}

int main(int argc, char **argv) {
  std::string mode = argc > 1 ? argv[1] : "archive";
  uint64_t    seed = argc > 2 ? strtoull(argv[2], 0, 10) : 1;
  int         count = argc > 3 ? atoi(argv[3]) : 100;
  if (mode == "archive") {
    archive_mode(seed, count, argc > 4 ? strtoull(argv[4], 0, 10) : 0);
    return 0;
  }
#ifdef YGM_VERIF
  ygm::verif::hooks.exec_begin = [](void *cm, uint16_t, void *ar) {
    g_ar = ar;
    auto *ia = (cereal::YGMInputArchive *)ar;
    g_p0 = ia->m_position;
    g_hsize = 0;
    if (((ygm::comm *)cm)->config.routing != ygm::detail::routing_type::NONE && g_p0 >= 10) memcpy(&g_hsize, ia->m_pdata + g_p0 - 10, 4);
  };
  ygm::verif::hooks.exec_end = [](void *, uint16_t, void *) { g_ar = nullptr; };
  // only what the main program itself appends: a broadcast stage forwarding inside a handler (which may run while this rank
  // waits inside async) appends too
  ygm::verif::hooks.originate = [](void *, int, int, size_t, size_t body) { if (!g_ar) g_last_body = body; };
#endif
  ygm::comm world(&argc, &argv);
  rng.seed(seed * 1000 + world.rank());
  for (int i = 0; i < count; ++i) {
    uint64_t uid  = (uint64_t)world.rank() * 100000 + i;
    int      dest = (int)rnd(world.size());
    switch (i % 6) {
      case 0: send<1>(world, dest, uid); break;
      case 1: send<4>(world, dest, uid); break;
      case 2: send<8>(world, dest, uid); break;
      case 3: send<12>(world, dest, uid); break;
      case 4: send<13>(world, dest, uid); break;
      default: send<24>(world, dest, uid); break;
    }
  }
  // broadcasts with stateful functors: the state and the arguments arrive on every rank (uids x*100000 + 50000 + i)
  const int nb = count / 10;
  for (int i = 0; i < nb; ++i) {
    uint64_t uid = (uint64_t)world.rank() * 100000 + 50000 + i;
    switch (i % 6) {
      case 0: { fun<1> f;  for (size_t k = 0; k < 1; ++k)  f.st[k] = (unsigned char)(uid + 3 * k + 1);  world.async_bcast(f, uid, exp_s(uid), exp_v(uid)); break; }
      case 1: { fun<4> f;  for (size_t k = 0; k < 4; ++k)  f.st[k] = (unsigned char)(uid + 3 * k + 4);  world.async_bcast(f, uid, exp_s(uid), exp_v(uid)); break; }
      case 2: { fun<8> f;  for (size_t k = 0; k < 8; ++k)  f.st[k] = (unsigned char)(uid + 3 * k + 8);  world.async_bcast(f, uid, exp_s(uid), exp_v(uid)); break; }
      case 3: { fun<12> f; for (size_t k = 0; k < 12; ++k) f.st[k] = (unsigned char)(uid + 3 * k + 12); world.async_bcast(f, uid, exp_s(uid), exp_v(uid)); break; }
      case 4: { fun<13> f; for (size_t k = 0; k < 13; ++k) f.st[k] = (unsigned char)(uid + 3 * k + 13); world.async_bcast(f, uid, exp_s(uid), exp_v(uid)); break; }
      default: { fun<24> f; for (size_t k = 0; k < 24; ++k) f.st[k] = (unsigned char)(uid + 3 * k + 24); world.async_bcast(f, uid, exp_s(uid), exp_v(uid)); break; }
    }
  }
  world.barrier();
  line("DONE rank=" + std::to_string(world.rank()) + " bad=" + std::to_string(g_bad));
  return 0;
}
