// io.cpp — C18 / C19 correspondence harness.
//   io lines <dir>                         line_parser over every file in <dir>; prints the id of every delivered line
//   io csv <dir> | io ndjson <dir>         csv_parser / ndjson_parser over <dir>; prints id and field count / id
//   io multi <prefix> <hist> <buflen> <append>    multi_output: hist lines "w <rank> <subpath> <text>"
//   io daily <prefix> <hist> <buflen> <append>    daily_output: hist lines "d <rank> <timestamp> <text>"
// Lines start with an id token up to the first '|' (lines mode), are CSV with the id as first field, or JSON with "id".
#include <ygm/comm.hpp>
#include <ygm/io/line_parser.hpp>
#include <ygm/io/csv_parser.hpp>
#include <ygm/io/ndjson_parser.hpp>
#include <set>
#include <filesystem>
#include <sys/resource.h>
#include <ygm/io/multi_output.hpp>
#include <ygm/io/daily_output.hpp>
#include <cstdio>
#include <fstream>
#include <sstream>
#include <string>
#include <vector>

static void line(const std::string &s) { fputs(s.c_str(), stdout); fputc('\n', stdout); fflush(stdout); }

// async_write_line takes any number of streamable arguments and writes their concatenation: the same line is passed as one
// string, or split into (text, number) where it ends in a number without leading zeros (as const char* and as std::string)
template <class W>
static void write_variadic(W &&w, const std::string &text, long n) {
  size_t d = text.size();
  while (d > 0 && isdigit((unsigned char)text[d - 1])) --d;
  const bool splittable = d < text.size() && text.size() - d <= 9 && (text[d] != '0' || d + 1 == text.size());
  if (!splittable || n % 3 == 0) { w(text); return; }
  std::string head = text.substr(0, d);
  int         num = atoi(text.c_str() + d);
  if (n % 3 == 1) w(head.c_str(), num); else w(head, num);
}
static long nwr = 0;

int main(int argc, char **argv) {
  ygm::comm   world(&argc, &argv);
  std::string mode = argv[1];
  int         me = world.rank();
  if (mode == "lines" || mode == "csv" || mode == "ndjson") {
    std::vector<std::string> paths{argv[2]};
    for (int i = 3; i < argc; ++i) paths.push_back(argv[i]);      // further paths (files listed next to their directory, twice, ...)
    std::string              acc;
    size_t                   n = 0;
    auto flush = [&]() { if (!acc.empty()) { line("L " + std::to_string(me) + " :" + acc); acc.clear(); } };
    if (mode == "lines") {
      ygm::io::line_parser lp(world, paths);
      lp.for_all([&](const std::string &l) {
        size_t bar = l.find('|');
        // id token, total length, and a cheap content check (the filler is a function of the position)
        bool   ok = true;
        for (size_t i = (bar == std::string::npos ? l.size() : bar + 1); i < l.size(); ++i)
          if (l[i] != (char)('a' + (i % 23))) { ok = false; break; }
        acc += " " + (bar == std::string::npos ? std::string("?") : l.substr(0, bar)) + ":" + std::to_string(l.size()) + (ok ? "" : "!");
        if (++n % 200 == 0) flush();
      });
    } else if (mode == "csv") {
      ygm::io::csv_parser cp(world, paths);
      cp.for_all([&](const std::vector<ygm::io::detail::csv_field> &f) {
        acc += " " + f[0].as_string() + ":" + std::to_string(f.size()) + ":" + (f.size() > 2 ? f[2].as_string() : std::string("-"));
        if (++n % 200 == 0) flush();
      });
    } else {
      ygm::io::ndjson_parser jp(world, paths);
      jp.for_all([&](const boost::json::object &o) {
        acc += " " + std::string(o.at("id").as_string().c_str()) + ":" + std::to_string(o.at("n").as_int64());
        if (++n % 200 == 0) flush();
      });
    }
    flush();
    world.barrier();
    line("N " + std::to_string(me) + " " + std::to_string(n));
  } else if (mode == "multi" || mode == "daily") {
    std::string prefix = argv[2];
    size_t      buflen = strtoull(argv[4], 0, 10);
    bool        append = atoi(argv[5]) != 0;
    std::ifstream in(argv[3]);
    std::vector<std::tuple<int, std::string, std::string>> ops;
    std::string l;
    while (std::getline(in, l)) {
      std::istringstream ss(l);
      std::string kw, sub, text;
      int r;
      ss >> kw >> r >> sub;
      std::getline(ss, text);
      if (!text.empty() && text[0] == ' ') text.erase(0, 1);
      if (kw == "w" || kw == "d") ops.push_back({r, sub, text});
    }
    if (argc > 6) {
      // lower the open-file limit of this process to <files open now> + argv[6]
      int open_now = 0;
      for (auto &e : std::filesystem::directory_iterator("/proc/self/fd")) { (void)e; ++open_now; }
      struct rlimit rl;
      getrlimit(RLIMIT_NOFILE, &rl);
      rl.rlim_cur = open_now + atoi(argv[6]);
      setrlimit(RLIMIT_NOFILE, &rl);
    }
    if (mode == "multi") {
      ygm::io::multi_output<> mo(world, prefix, buflen, append);
      for (auto &[r, sub, text] : ops)
        if (r == me) write_variadic([&](auto &&...a) { mo.async_write_line(sub, a...); }, text, nwr++);
    } else {
      ygm::io::daily_output<> dout(world, prefix, buflen, append);
      for (auto &[r, sub, text] : ops)
        if (r == me) write_variadic([&](auto &&...a) { dout.async_write_line(strtoull(sub.c_str(), 0, 10), a...); }, text, nwr++);
    }
    if (mode == "multi" && me == 0) {
      // the object has been destroyed on this rank: the files are read at once, before anything else synchronises the ranks
      std::set<std::string> subs;
      for (auto &[r, sub, text] : ops) subs.insert(sub);
      size_t total = 0;
      for (auto &sub : subs) {
        std::ifstream f(prefix + "/" + sub, std::ios::binary);
        std::string   x;
        while (std::getline(f, x)) ++total;
      }
      line("AFTERDTOR " + std::to_string(total));
    }
    world.barrier();
    line("DONE " + std::to_string(me));
  }
  return 0;
}
