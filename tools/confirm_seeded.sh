#!/bin/bash
# confirm_seeded.sh <id>: in the scratch worktree /tmp/wt/<id> (change applied, build dir present) re-check that
# (1) the 30 existing tests pass with the change, (2) the demo fails with it, (3) the demo passes without it.
id=$1; wt=${2:-/tmp/wt}/$id
export OMPI_ALLOW_RUN_AS_ROOT=1 OMPI_ALLOW_RUN_AS_ROOT_CONFIRM=1
cd $wt || exit 2
git diff --quiet -- include && { echo "change not applied"; exit 2; }
cmake --build build -j8 >/dev/null 2>&1
ctest --test-dir build -j4 --timeout 900 2>&1 | tail -3 > seeded/confirm_ctest.txt
t=$(grep -c "100% tests passed" seeded/confirm_ctest.txt)
(cd seeded && timeout 600 bash run.sh > confirm_with.txt 2>&1); w=$?
git apply -R seeded/patch.diff
(cd seeded && timeout 600 bash run.sh > confirm_without.txt 2>&1); wo=$?
git apply seeded/patch.diff
echo "$id tests_pass=$t demo_with_change_rc=$w demo_without_change_rc=$wo"
