#!/bin/bash
# matrix.sh: which checks catch which seeded change / reverted fix.  Applies each change to /repo's working tree,
# runs the property's own check and the checks of its family, restores /repo, appends to seeded/MATRIX.txt.
cd "$(dirname "$0")/.." || exit 2
REPO=${VERIF_REPO:-/repo}
core="C01 C02 C03 C05 C07 C08"
fam() { case ${1:0:3} in
  C01|C02|C03|C05|C07|C08) echo $core;;
  C04) echo "C04 C01";; C06) echo "C06 C01";; C09) echo "C09";;
  C10|C13) echo "C10 C13";; C11|C12) echo "C11 C12";; C14) echo "C14 C11";;
  C15|C16) echo "C15 C16";; C17) echo "C17";; C18) echo "C18";; C19) echo "C19";; C20) echo "C20 C15";; esac; }
out=seeded/MATRIX.txt
echo "# change | checks run -> rc (1 = VIOLATION reported, 0 = silent)   $(date -u +%FT%TZ)  repo=$(git -C $REPO rev-parse --short HEAD)" > $out
for d in seeded/C*/; do
  id=$(basename $d)
  [ -f $d/patch.diff ] || continue
  res=$(tools/try_mutant.sh $PWD/$d/patch.diff $(fam $id) 2>&1 | grep -o '^\[C[0-9]* rc=[0-9]*\][^#]*' | sed 's/VIOLATION property=[A-Z0-9]* replay=[^ ]*//; s/KNOWN-FINDING:.*//' | tr '\n' ' ')
  echo "seeded/$id | $res" >> $out
done
for pair in "D3:5c6fc3e:C10" "D4:2f27572:C14" "D1:2d23491:C03" "D2:37e706b:C08" "K2:8e011a4:C08" "D5:37d705b:C15" "D6:6ad5238:C16" "D7:4ebb98e:C14" "D8:89c4979:C20" "D9:1598ea2:C06" "D10:c3a11a8:C17" "D11:6ab051a:C09" "D12:1cc5135:C20" "D13:80f8a82:C03" "D14:2b5f5ad:C05" "D15:80974b0:C14" "D16:634aebd:C13" "D17:8fa58a9:C19" "D18:580f25e:C19" "D19:4a9a541:C05" "D20:6b43f3a:C14"; do
  IFS=: read name commit id <<< "$pair"
  res=$(tools/try_mutant.sh -R:$commit $(fam $id) 2>&1 | grep -o '^\[C[0-9]* rc=[0-9]*\]' | tr '\n' ' ')
  echo "revert-$name($commit) | $res" >> $out
done
# property-preserving changes: acceptable outcomes are rc=0 or a violation that ends in no-failing-input-found
for d in seeded/harmless/*/; do
  id=$(basename $d)
  [ -f $d/patch.diff ] || continue
  res=$(tools/try_mutant.sh $PWD/$d/patch.diff $(fam $id) 2>&1 | grep -o '^\[C[0-9]* rc=[0-9]*\][^#]*' | sed 's/VIOLATION property=[A-Z0-9]* replay=[^ ]*//; s/KNOWN-FINDING:.*//' | tr '\n' ' ')
  echo "harmless/$id | $res" >> $out
done
git -C $REPO status --short >> $out
