#!/bin/bash
# try_mutant.sh <patch|-R:commit> <id>... : apply a change to /repo's working tree, run the checks, undo it.
p=$1; shift
REPO=${VERIF_REPO:-/repo}
HERE=$(cd "$(dirname "$0")/.." && pwd)
cd $REPO
if [[ $p == -R:* ]]; then git show ${p#-R:} | git apply -R || exit 2; else git apply $p || exit 2; fi
cd $HERE
rm -rf _build/evidence_backup && cp -r evidence _build/evidence_backup
for id in "$@"; do
  out=$(./check $id 2>&1); rc=$?
  # the VIOLATION line first (a KNOWN-FINDING line may precede it and is long)
  echo "[$id rc=$rc] $(echo "$out" | grep -E '^VIOLATION' | head -1) $(echo "$out" | grep '^#' | head -1 | cut -c1-220) $(echo "$out" | grep -E '^KNOWN' | head -1 | cut -c1-60)"
done
git -C $REPO checkout -- .
# evidence written while /repo was modified must not be kept
rm -rf evidence && mv _build/evidence_backup evidence
