#!/bin/bash
# try_mutant.sh <patch|-R:commit> <id>... : apply a change to /repo's working tree, run the checks, undo it.
p=$1; shift
REPO=${VERIF_REPO:-/repo}
HERE=$(cd "$(dirname "$0")/.." && pwd)
cd $REPO
if [[ $p == -R:* ]]; then git show ${p#-R:} | git apply -R || exit 2; else git apply $p || exit 2; fi
cd $HERE
rm -rf _build/evidence_backup && cp -r evidence _build/evidence_backup
for id in "$@"; do
  out=$(./check $id 2>&1); rc=$?
  echo "[$id rc=$rc] $(echo "$out" | grep -E '^VIOLATION|^KNOWN' | head -2 | tr '\n' ' ') $(echo "$out" | grep '^#' | head -1 | cut -c1-220)"
done
git -C $REPO checkout -- .
# evidence written while /repo was modified must not be kept
rm -rf evidence && mv _build/evidence_backup evidence
