#!/bin/bash
# coqchk_all.sh: re-check the compiled development (every Properties_Cxx and everything it depends on) with Coq's independent
# checker and print the axioms it relies on.  Several minutes; writes coqchk_report.txt next to DESIGN.md.
cd "$(dirname "$0")/../coq" || exit 2
mods=$(ls Properties_C*.v | sed 's/\.v$//; s/^/Ygm./')
{ echo "# coqchk -o -silent -Q . Ygm <all 20 Properties modules>   ($(coqchk -v 2>&1 | head -1))"; timeout 3600 coqchk -o -silent -Q . Ygm $mods 2>&1 | tail -20; echo "exit=$?"; } > ../coqchk_report.txt
cat ../coqchk_report.txt
