#!/usr/bin/env python3
"""cxx2coq.py — translate small arithmetic kernels of /repo's C++ headers into
Gallina, via clang's JSON AST (DESIGN.md §2, tie T).

The generated definitions are expressed in coq/Gen/CArith.v (checked C integer
arithmetic in an option monad).  Anything the translator does not understand is
an error (TranslationError): the tie is then reported broken, never skipped.

Usage:  cxx2coq.py --repo /repo --out <dir> [--only Gen_router] [--cache <dir>]
Writes <dir>/Gen_*.v for every target below whose text changed.
"""
import argparse, hashlib, json, os, re, subprocess, sys

class TranslationError(Exception):
    pass

# ----------------------------------------------------------------------------
# clang driver

def mpi_cflags():
    try:
        return subprocess.check_output(['mpicxx', '-showme:compile'], text=True).split()
    except Exception:
        return []

def ast_dump(repo, tu_text, flt, cache):
    key = hashlib.sha256()
    key.update(tu_text.encode()); key.update(flt.encode())
    inc = os.path.join(repo, 'include')
    for root, _, files in sorted(os.walk(inc)):
        for f in sorted(files):
            p = os.path.join(root, f)
            key.update(p.encode())
            with open(p, 'rb') as fh:
                key.update(fh.read())
    h = key.hexdigest()[:24]
    os.makedirs(cache, exist_ok=True)
    cj = os.path.join(cache, 'ast_%s.json' % h)
    if not os.path.exists(cj):
        src = os.path.join(cache, 'tu_%s.cpp' % h)
        with open(src, 'w') as fh:
            fh.write(tu_text)
        cmd = ['clang++', '-std=c++17', '-fsyntax-only', '-I', inc] + mpi_cflags() + \
              ['-Xclang', '-ast-dump=json', '-Xclang', '-ast-dump-filter=' + flt, src]
        with open(cj + '.tmp', 'w') as out:
            subprocess.run(cmd, stdout=out, stderr=subprocess.DEVNULL, timeout=300)
        os.rename(cj + '.tmp', cj)
    s = open(cj).read()
    dec = json.JSONDecoder()
    i, docs = 0, []
    while i < len(s):
        while i < len(s) and s[i].isspace():
            i += 1
        if i >= len(s):
            break
        o, j = dec.raw_decode(s, i)
        docs.append(o)
        i = j
    if not docs:
        raise TranslationError('clang produced no AST for filter %r' % flt)
    return docs

def walk(n):
    yield n
    for c in n.get('inner', []) or []:
        yield from walk(c)

# ----------------------------------------------------------------------------
# types

INT_TYPES = {
    'int': ('true', 32), 'unsigned int': ('false', 32), 'long': ('true', 64),
    'unsigned long': ('false', 64), 'short': ('true', 16), 'unsigned short': ('false', 16),
    'long long': ('true', 64), 'unsigned long long': ('false', 64),
    'signed char': ('true', 8), 'unsigned char': ('false', 8), 'char': ('true', 8),
}
ENUM_TYPES = {'ygm::detail::routing_type', 'routing_type'}
CTY_NAMES = {('true', 32): 's32', ('true', 64): 's64', ('true', 16): 's16',
             ('false', 32): 'u32', ('false', 64): 'u64', ('false', 16): 'u16'}

def strip_type(q):
    q = re.sub(r'\bconst\b', '', q)
    q = q.replace('&', '').strip()
    q = re.sub(r'\s+', ' ', q)
    return q

def ctype_of(node):
    t = node.get('type', {})
    for key in ('desugaredQualType', 'qualType'):
        q = t.get(key)
        if q is None:
            continue
        q = strip_type(q)
        if q in ('bool', '_Bool'):
            return 'bool'
        if q in INT_TYPES:
            return INT_TYPES[q]
        if q in ('int32_t', 'uint32_t', 'int64_t', 'uint64_t', 'size_t', 'uint16_t', 'int16_t',
                 'std::size_t', 'std::vector::size_type'):
            return {'int32_t': ('true', 32), 'uint32_t': ('false', 32), 'int64_t': ('true', 64),
                    'uint64_t': ('false', 64), 'size_t': ('false', 64), 'std::size_t': ('false', 64),
                    'uint16_t': ('false', 16), 'int16_t': ('true', 16),
                    'std::vector::size_type': ('false', 64)}[q]
        if q in ENUM_TYPES:
            return ('true', 32)
        if q.startswith('std::vector<'):
            return 'vec'
        if q.endswith('value_type') and 'alloc_traits' in q:
            return ('true', 32)      # element of std::vector<int>
    return None

def cty(t):
    if not isinstance(t, tuple):
        raise TranslationError('not an integer type: %r' % (t,))
    return CTY_NAMES.get(t) or '(CT %s %d)' % t

# ----------------------------------------------------------------------------
# translation of one function / slice

class Ctx:
    """Per-target configuration.
    calls:   { 'path/arity' : coq function text with {this} and {0},{1}.. placeholders }
    skip:    list of path regexes for calls that are no-ops for the arithmetic
    emit:    list of (path regex, arg index) for calls that emit a value
    fields:  { field name : coq type } of `this` (int fields -> Z)
    """
    def __init__(self, name, calls=None, skip=None, emit=None, vecresize=None, free=None, field_prefix=''):
        self.name = name
        self.field_prefix = field_prefix
        self.calls = calls or {}
        self.skip = skip or []
        self.emit = emit or []
        self.vecresize = vecresize or {}
        self.free = free or {}          # free variables of a slice: C name -> coq param
        self.loops = []                 # generated Fixpoints
        self.nloop = 0
        self.nk = 0

def path_of(n):
    """Textual access path of a callee / object expression."""
    k = n.get('kind')
    if k in ('ImplicitCastExpr', 'ParenExpr', 'MaterializeTemporaryExpr', 'CXXBindTemporaryExpr',
             'ExprWithCleanups', 'CXXFunctionalCastExpr', 'CXXConstructExpr'):
        inner = n.get('inner', [])
        return path_of(inner[0]) if inner else '?'
    if k == 'CXXThisExpr':
        return 'this'
    if k == 'MemberExpr':
        return path_of(n['inner'][0]) + '.' + n['name']
    if k == 'DeclRefExpr':
        return n['referencedDecl'].get('name', '?')
    if k == 'CXXMemberCallExpr':
        return path_of(n['inner'][0]) + '()'
    if k == 'CXXTemporaryObjectExpr':
        return strip_type(n.get('type', {}).get('qualType', '?')) + '{}'
    if k == 'CXXOperatorCallExpr':
        return 'op(' + ','.join(path_of(c) for c in n['inner'][1:]) + ')'
    if k == 'UnaryOperator':
        return n.get('opcode', '?') + path_of(n['inner'][0])
    return '<' + str(k) + '>'

def OIF(c, a, b):
    # a match, not a function: vm_compute is call-by-value and must not evaluate the untaken branch
    return 'match (%s) with Some true => (\n%s) | Some false => (\n%s) | None => None end' % (c, a, b)

class Fn:
    def __init__(self, ctx, this_view):
        self.ctx = ctx
        self.this_view = this_view      # coq name of the view parameter, or None
        self.vars = {}                  # clang decl id -> coq identifier (current binding)
        self.order = []                 # decl ids in scope, in declaration order
        self.names = {}                 # coq identifier usage counts
        self.assigned_fields = []       # field names assigned (threaded like locals)
        self.uses_out = False

    # -- identifiers ---------------------------------------------------------
    def fresh(self, base):
        base = re.sub(r'[^A-Za-z0-9_]', '_', base)
        if base in ('out', 'this', 'fuel', 'fun', 'let', 'in', 'if', 'then', 'else', 'match', 'end',
                    'at', 'as', 'return', 'with', 'L', 'size', 'rank'):
            base = base + '_'
        n = self.names.get(base, 0)
        self.names[base] = n + 1
        return base if n == 0 else '%s_%d' % (base, n)

    def scope_vars(self):
        return [self.vars[i] for i in self.order]

    # -- expressions -----------------------------------------------------------
    def expr(self, n):
        k = n.get('kind')
        inner = n.get('inner', []) or []
        if k in ('ParenExpr', 'ExprWithCleanups', 'MaterializeTemporaryExpr', 'CXXBindTemporaryExpr',
                 'ConstantExpr', 'CXXStaticCastExpr') and k != 'CXXStaticCastExpr':
            return self.expr(inner[0])
        if k in ('ImplicitCastExpr', 'CStyleCastExpr', 'CXXStaticCastExpr', 'CXXFunctionalCastExpr'):
            ck = n.get('castKind')
            sub = inner[-1]
            if ck in ('LValueToRValue', 'NoOp', 'ConstructorConversion'):
                return self.expr(sub)
            if ck == 'IntegralCast':
                src, dst = ctype_of(sub), ctype_of(n)
                if src == 'bool':
                    return 'ccast %s (cb2z %s)' % (cty(dst), self.pexpr(sub))
                if dst == 'bool':
                    return 'cz2b %s' % self.pexpr(sub)
                if src is None or dst is None:
                    raise TranslationError('IntegralCast with unknown type: %r -> %r' % (sub.get('type'), n.get('type')))
                if src == dst:
                    return self.expr(sub)
                return 'ccast %s %s' % (cty(dst), self.pexpr(sub))
            if ck == 'IntegralToBoolean':
                return 'cz2b %s' % self.pexpr(sub)
            raise TranslationError('unsupported cast kind %s' % ck)
        if k == 'IntegerLiteral':
            return 'Some %s' % n['value']
        if k == 'CXXBoolLiteralExpr':
            return 'Some %s' % ('true' if n['value'] else 'false')
        if k == 'DeclRefExpr':
            rd = n['referencedDecl']
            if rd['kind'] == 'EnumConstantDecl':
                raise TranslationError('enum constant outside ConstantExpr: %s' % rd.get('name'))
            i = rd['id']
            if i in self.vars:
                return self.vars[i]
            nm = rd.get('name')
            if nm in self.ctx.free:
                return self.ctx.free[nm]
            raise TranslationError('reference to unknown variable %s' % nm)
        if k == 'MemberExpr':
            base = path_of(inner[0])
            if base == 'this':
                f = n['name']
                if f in self.fieldvars:
                    return self.fieldvars[f]
                t = ctype_of(n)
                if t == 'vec':
                    raise TranslationError('vector field used as a value: %s' % f)
                return 'Some (%s%s %s)' % (self.ctx.field_prefix, f, self.this_view)
            raise TranslationError('member access on %s' % base)
        if k == 'UnaryOperator':
            op = n['opcode']
            if op == '-':
                lit = inner[0]
                if lit.get('kind') == 'IntegerLiteral':
                    return 'Some (- %s)' % lit['value']
                return 'cneg %s %s' % (cty(ctype_of(n)), self.pexpr(inner[0]))
            if op == '!':
                return 'cnot %s' % self.pexpr(inner[0])
            if op == '+':
                return self.expr(inner[0])
            raise TranslationError('unary operator %s in expression position' % op)
        if k == 'BinaryOperator':
            op = n['opcode']
            a, b = inner
            if op in ('+', '-', '*', '/', '%', '<<'):
                f = {'+': 'cadd', '-': 'csub', '*': 'cmul', '/': 'cdiv', '%': 'crem', '<<': 'cshl'}[op]
                return '%s %s %s %s' % (f, cty(ctype_of(n)), self.pexpr(a), self.pexpr(b))
            if op in ('<', '<=', '>', '>=', '==', '!='):
                f = {'<': 'clt', '<=': 'cle', '>': 'cgt', '>=': 'cge', '==': 'ceq', '!=': 'cne'}[op]
                ta, tb = ctype_of(a), ctype_of(b)
                if ta == 'bool' or tb == 'bool':
                    raise TranslationError('comparison of bools')
                return '%s %s %s' % (f, self.pexpr(a), self.pexpr(b))
            if op == '&&':
                return 'match %s with Some true => %s | Some false => Some false | None => None end' % (self.pexpr(a), self.pexpr(b))
            if op == '||':
                return 'match %s with Some true => Some true | Some false => %s | None => None end' % (self.pexpr(a), self.pexpr(b))
            raise TranslationError('binary operator %s in expression position' % op)
        if k == 'ConditionalOperator':
            c, a, b = inner
            return OIF(self.expr(c), self.expr(a), self.expr(b))
        if k in ('CXXMemberCallExpr', 'CallExpr', 'CXXOperatorCallExpr'):
            return self.call(n)
        raise TranslationError('unsupported expression kind %s' % k)

    def pexpr(self, n):
        e = self.expr(n)
        return e if re.match(r'^[A-Za-z0-9_]+$', e) else '(' + e + ')'

    def vec_of(self, n):
        """Coq term (list Z) for a vector-valued expression."""
        k = n.get('kind')
        inner = n.get('inner', []) or []
        if k in ('ImplicitCastExpr', 'ParenExpr', 'MaterializeTemporaryExpr'):
            return self.vec_of(inner[0])
        if k == 'MemberExpr' and path_of(inner[0]) == 'this':
            return '(%s %s)' % (n['name'], self.this_view)
        if k == 'CXXMemberCallExpr':
            key = self.call_key(n)
            if key in self.ctx.calls:
                return '(' + self.subst_call(self.ctx.calls[key], n, []) + ')'
        raise TranslationError('unsupported vector expression %s (%s)' % (k, path_of(n)))

    def call_key(self, n):
        inner = n['inner']
        if n['kind'] == 'CXXMemberCallExpr':
            return '%s/%d' % (path_of(inner[0]), len(inner) - 1)
        if n['kind'] == 'CallExpr':
            return '%s/%d' % (path_of(inner[0]), len(inner) - 1)
        return None

    def subst_call(self, tmpl, n, args):
        # {obj} = coq term of the object the method is called on (a view)
        s = tmpl
        if '{obj}' in s:
            s = s.replace('{obj}', self.view_of(n['inner'][0]['inner'][0]))
        s = s.replace('{this}', self.this_view or '')
        for i in range(len(args)):
            if '{%d}' % i in s:
                s = s.replace('{%d}' % i, args[i])
        return s

    def view_of(self, n):
        k = n.get('kind')
        inner = n.get('inner', []) or []
        if k in ('ImplicitCastExpr', 'ParenExpr'):
            return self.view_of(inner[0])
        if k == 'CXXThisExpr':
            return self.this_view
        if k == 'MemberExpr':
            pre = self.ctx.field_prefix if inner[0].get('kind') == 'CXXThisExpr' else ''
            return '(%s%s %s)' % (pre, n['name'], self.view_of(inner[0]))
        if k == 'CXXMemberCallExpr':
            key = self.call_key(n)
            if key in self.ctx.calls:
                return '(' + self.subst_call(self.ctx.calls[key], n, []) + ')'
        if k == 'DeclRefExpr':
            nm = n['referencedDecl'].get('name')
            if nm in self.ctx.free:
                return self.ctx.free[nm]
        raise TranslationError('cannot form a view of %s (%s)' % (k, path_of(n)))

    def call(self, n):
        k = n['kind']
        inner = n['inner']
        if k == 'CXXOperatorCallExpr':
            callee = path_of(inner[0])
            if callee == 'operator[]':
                return 'cvget %s %s' % (self.vec_of(inner[1]), self.pexpr(inner[2]))
            key = 'op:' + path_of(inner[1])
            if callee == 'operator()' and 'hash<' in json.dumps(inner[1].get('type', {})):
                key = 'op:hash'
            if key in self.ctx.calls:
                return self.ctx.calls[key]
            raise TranslationError('unsupported operator call %s on %s' % (callee, path_of(inner[1])))
        key = self.call_key(n)
        class Lazy(list):
            pass
        fn_self = self
        class LazyArgs:
            def __init__(s2, nodes): s2.nodes = nodes
            def __len__(s2): return len(s2.nodes)
            def __getitem__(s2, i): return fn_self.pexpr(s2.nodes[i])
        args = LazyArgs(inner[1:])
        if k == 'CXXMemberCallExpr':
            me = inner[0]
            mname = me.get('name')
            objt = ctype_of(me['inner'][0]) if me.get('inner') else None
            if mname == 'at' and len(args) == 1:
                return 'cvget %s %s' % (self.vec_of(me['inner'][0]), args[0])
            if mname == 'size' and len(args) == 0 and objt == 'vec':
                return 'cvsize %s' % self.vec_of(me['inner'][0])
        if key in self.ctx.calls:
            return self.subst_call(self.ctx.calls[key], n, args)
        raise TranslationError('call to %s is not whitelisted' % key)

    # -- statements (continuation-passing) -----------------------------------
    # k_next: function () -> coq term for "fall through to what follows"
    def stmts(self, lst, k_next, k_break=None, k_cont=None):
        if not lst:
            return k_next()
        s, rest = lst[0], lst[1:]
        k = s.get('kind')
        inner = s.get('inner', []) or []
        nxt = lambda: self.stmts(rest, k_next, k_break, k_cont)
        if k in ('NullStmt',):
            return nxt()
        if k == 'CompoundStmt':
            saved = (dict(self.vars), list(self.order))
            def after():
                # leave the block scope: drop block-local declarations
                cur = self.vars
                self.vars = {i: cur[i] for i in saved[1]}
                self.order = list(saved[1])
                return nxt()
            return self.stmts(inner, after, k_break, k_cont)
        if k == 'DeclStmt':
            out = None
            decls = [d for d in inner if d.get('kind') == 'VarDecl']
            if len(decls) != len(inner):
                raise TranslationError('unsupported declaration')
            def go(ds):
                if not ds:
                    return nxt()
                d = ds[0]
                t = ctype_of(d)
                if t is None or t == 'vec':
                    raise TranslationError('declaration of %s with unsupported type %r' % (d.get('name'), d.get('type')))
                init = [c for c in d.get('inner', []) or [] if c.get('kind') not in ('FullComment',)]
                nm = self.fresh(d['name'])
                if init:
                    e = self.expr(init[0])
                    self.vars[d['id']] = nm
                    self.order.append(d['id'])
                    return 'oforce (%s) (fun %s =>\n%s)' % (e, nm, go(ds[1:]))
                self.vars[d['id']] = nm
                self.order.append(d['id'])
                return 'let %s : option %s := None in\n%s' % (nm, 'bool' if t == 'bool' else 'Z', go(ds[1:]))
            return go(decls)
        if k in ('BinaryOperator', 'CompoundAssignOperator'):
            op = s['opcode']
            lhs, rhs = inner
            if op == '=':
                e = self.expr(rhs)
            elif op in ('+=', '-=', '*=', '/=', '%='):
                f = {'+=': 'cadd', '-=': 'csub', '*=': 'cmul', '/=': 'cdiv', '%=': 'crem'}[op]
                ct = s.get('computeResultType') or s.get('type')
                t = ctype_of({'type': ct})
                e = '%s %s %s %s' % (f, cty(t), self.pexpr_l(lhs), self.pexpr(rhs))
                if ctype_of(s) != t:
                    e = 'ccast %s (%s)' % (cty(ctype_of(s)), e)
            else:
                raise TranslationError('statement-level operator %s' % op)
            return self.assign(lhs, e, nxt)
        if k == 'UnaryOperator' and s['opcode'] in ('++', '--'):
            lhs = inner[0]
            if lhs.get('kind') == 'CXXOperatorCallExpr':
                p = path_of(lhs)
                for rx, argi in self.ctx.emit:
                    if re.search(rx, p):
                        a = self.pexpr(lhs['inner'][1:][argi + 1])
                        nm = self.fresh('out')
                        r = 'oforce (cemit %s %s) (fun %s =>\n' % (self.outvar, a, nm)
                        self.outvar = nm
                        return r + nxt() + ')'
            t = ctype_of(s)
            f = 'cadd' if s['opcode'] == '++' else 'csub'
            e = '%s %s %s (Some 1)' % (f, cty(t), self.pexpr_l(lhs))
            return self.assign(lhs, e, nxt)
        if k == 'ReturnStmt':
            if not inner:
                return self.ret(None)
            return self.ret(inner[0])
        if k == 'BreakStmt':
            if k_break is None:
                raise TranslationError('break outside loop/switch')
            return k_break()
        if k == 'ContinueStmt':
            if k_cont is None:
                raise TranslationError('continue outside loop')
            return k_cont()
        if k == 'IfStmt':
            cond = inner[0]
            th = inner[1]
            el = inner[2] if len(inner) > 2 else None
            if self.is_throw_block(th):
                # if (c) { ...; throw ...; }
                return OIF(self.expr(cond), 'None', nxt())
            return self.join(lambda kj: OIF(
                self.expr(cond),
                self.branch([th], kj, k_break, k_cont),
                self.branch([el] if el else [], kj, k_break, k_cont)), nxt)
        if k == 'SwitchStmt':
            scrut = self.pexpr(inner[0])
            body = inner[1].get('inner', []) or []
            groups, cur = [], None
            def flat(x):
                # CaseStmt nests its first statement
                if x.get('kind') in ('CaseStmt', 'DefaultStmt'):
                    ii = x.get('inner', [])
                    if x['kind'] == 'CaseStmt':
                        lab, sub = ii[0], ii[1:]
                        yield ('case', lab)
                    else:
                        sub = ii
                        yield ('default', None)
                    for y in sub:
                        yield from flat(y)
                else:
                    yield ('stmt', x)
            for item in body:
                for kind, val in flat(item):
                    if kind in ('case', 'default'):
                        cur = [kind, val, []]
                        groups.append(cur)
                    else:
                        if cur is None:
                            raise TranslationError('statement before first case')
                        cur[2].append(val)
            for g in groups:
                last = g[2][-1].get('kind') if g[2] else None
                if last not in ('BreakStmt', 'ReturnStmt'):
                    raise TranslationError('switch case falls through')
            def build(kj):
                def chain(gs):
                    if not gs:
                        return kj()
                    g = gs[0]
                    body_t = self.branch(g[2], kj, kj, k_cont)
                    if g[0] == 'default':
                        if gs[1:]:
                            raise TranslationError('default is not the last case')
                        return body_t
                    lab = g[1]
                    val = lab.get('value')
                    if val is None:
                        raise TranslationError('case label without constant value')
                    return OIF('ceq %s (Some %s)' % (scrut, val), body_t, chain(gs[1:]))
                return chain(groups)
            return self.join(build, nxt)
        if k == 'ForStmt':
            return self.forloop(s, nxt)
        if k in ('CXXMemberCallExpr', 'CallExpr', 'CXXOperatorCallExpr', 'ExprWithCleanups', 'ParenExpr',
                 'ConditionalOperator'):
            return self.effect(s, nxt)
        raise TranslationError('unsupported statement kind %s' % k)

    def is_throw_block(self, n):
        for x in walk(n):
            if x.get('kind') == 'CXXThrowExpr':
                return True
        return False

    def branch(self, lst, kj, k_break, k_cont):
        saved = (dict(self.vars), list(self.order))
        saved_f = (dict(self.fieldvars), self.outvar)
        def leave():
            cur = self.vars
            self.vars = {i: cur[i] for i in saved[1]}
            self.order = list(saved[1])
            return kj()
        # a `break` inside the branch must also see only the outer scope
        def wrap(kf):
            if kf is None:
                return None
            def f():
                cur = self.vars
                keep_v, keep_o = dict(self.vars), list(self.order)
                self.vars = {i: cur[i] for i in saved[1]}
                self.order = list(saved[1])
                r = kf()
                self.vars, self.order = keep_v, keep_o
                return r
            return f
        r = self.stmts(lst, leave, wrap(k_break) if k_break is not kj else leave, wrap(k_cont))
        self.vars, self.order = dict(saved[0]), list(saved[1])
        self.fieldvars, self.outvar = dict(saved_f[0]), saved_f[1]
        return r

    def join(self, build, nxt):
        """Introduce a join continuation over all threaded variables."""
        self.ctx.nk += 1
        kname = 'k%d_' % self.ctx.nk
        ids = list(self.order)
        thr = self.threaded()
        # parameters of the continuation: fresh names for each threaded variable
        saved = (dict(self.vars), list(self.order), dict(self.fieldvars), self.outvar)
        params = []
        for i in ids:
            nm = self.fresh(re.sub(r'_\d+$', '', self.vars[i]))
            params.append((i, nm))
        fparams = []
        for f in self.field_order:
            fparams.append((f, self.fresh(f)))
        outp = self.fresh('out') if self.outvar else None
        # body of the continuation, under the new names
        for i, nm in params:
            self.vars[i] = nm
        for f, nm in fparams:
            self.fieldvars[f] = nm
        if outp:
            self.outvar = outp
        body = nxt()
        allp = [nm for _, nm in params] + [nm for _, nm in fparams] + ([outp] if outp else [])
        self.vars, self.order, self.fieldvars, self.outvar = saved[0], saved[1], saved[2], saved[3]
        def kj():
            args = [self.vars[i] for i in ids] + [self.fieldvars[f] for f in self.field_order] + \
                   ([self.outvar] if outp else [])
            return '%s %s' % (kname, ' '.join(args)) if args else kname + ' tt'
        inner = build(kj)
        if allp:
            hdr = 'let %s := fun %s =>\n%s in\n' % (kname, ' '.join(allp), body)
        else:
            hdr = 'let %s := fun (_ : unit) =>\n%s in\n' % (kname, body)
        return hdr + inner

    def threaded(self):
        return None

    def pexpr_l(self, lhs):
        return self.pexpr(lhs)

    def assign(self, lhs, e, nxt):
        k = lhs.get('kind')
        if k == 'ParenExpr':
            return self.assign(lhs['inner'][0], e, nxt)
        if k == 'DeclRefExpr':
            i = lhs['referencedDecl']['id']
            if i not in self.vars:
                raise TranslationError('assignment to unknown variable %s' % lhs['referencedDecl'].get('name'))
            nm = self.fresh(re.sub(r'_\d+$', '', self.vars[i]))
            r = 'oforce (%s) (fun %s =>\n' % (e, nm)
            self.vars[i] = nm
            return r + nxt() + ')'
        if k == 'MemberExpr' and path_of(lhs['inner'][0]) == 'this':
            f = lhs['name']
            if f not in self.fieldvars:
                raise TranslationError('assignment to field %s which is not declared assignable for this target' % f)
            nm = self.fresh(f)
            r = 'oforce (%s) (fun %s =>\n' % (e, nm)
            self.fieldvars[f] = nm
            return r + nxt() + ')'
        raise TranslationError('unsupported assignment target %s' % k)

    def effect(self, s, nxt):
        k = s.get('kind')
        inner = s.get('inner', []) or []
        if k in ('ExprWithCleanups', 'ParenExpr'):
            return self.effect(inner[0], nxt)
        if k == 'ConditionalOperator':
            # ASSERT_RELEASE(c)  ==  c ? void(0) : release_assert_fail(...)
            c, a, b = inner
            if 'release_assert_fail' in json.dumps(b)[:4000]:
                return OIF(self.expr(c), nxt(), 'None')
            raise TranslationError('conditional expression statement')
        p = path_of(s['inner'][0]) if k != 'CXXOperatorCallExpr' else path_of(s)
        key = self.call_key(s) if k != 'CXXOperatorCallExpr' else None
        for rx in self.ctx.skip:
            if re.search(rx, p):
                return nxt()
        for rx, argi in self.ctx.emit:
            if re.search(rx, p):
                if not self.outvar:
                    raise TranslationError('emit without an output variable')
                args = s['inner'][1:]
                a = self.pexpr(args[argi])
                nm = self.fresh('out')
                r = 'oforce (cemit %s %s) (fun %s =>\n' % (self.outvar, a, nm)
                self.outvar = nm
                return r + nxt() + ')'
        if k == 'CXXMemberCallExpr':
            me = s['inner'][0]
            if me.get('name') == 'resize' and path_of(me['inner'][0]).startswith('this.'):
                f = me['inner'][0]['name'] + '_size' if me['inner'][0].get('kind') == 'MemberExpr' else None
                if f and f in self.fieldvars:
                    e = self.expr(s['inner'][1])
                    nm = self.fresh(f)
                    r = 'oforce (%s) (fun %s =>\n' % (e, nm)
                    self.fieldvars[f] = nm
                    return r + nxt() + ')'
            if key in self.ctx.calls and self.ctx.calls[key].startswith('CHECK:'):
                # a translated void helper that only checks (returns option unit)
                fn_self = self
                class LazyArgs2:
                    def __init__(s2, nodes): s2.nodes = nodes
                    def __len__(s2): return len(s2.nodes)
                    def __getitem__(s2, i): return fn_self.pexpr(s2.nodes[i])
                t = self.subst_call(self.ctx.calls[key][6:], s, LazyArgs2(s['inner'][1:]))
                return 'obind (%s) (fun _ =>\n%s)' % (t, nxt())
        raise TranslationError('expression statement not understood: %s %s' % (k, p))

    def ret(self, e):
        parts = []
        if e is not None:
            if e.get('kind') in ('CallExpr',) and 'make_pair' in path_of(e['inner'][0]):
                a, b = e['inner'][1:]
                parts.append('opair %s %s' % (self.pexpr(a), self.pexpr(b)))
            else:
                parts.append(self.expr(e))
        return self.result(parts)

    def result(self, parts):
        vals = list(parts) + [self.fieldvars[f] for f in self.field_order] + ([self.outvar] if self.outvar else [])
        if not vals:
            return 'Some tt'
        r = vals[0]
        for v in vals[1:]:
            r = 'opair (%s) %s' % (r, v if re.match(r'^\w+$', v) else '(' + v + ')')
        return r

    def forloop(self, s, nxt):
        inner = s['inner']
        init, _cv, cond, inc, body = inner
        if init.get('kind') != 'DeclStmt':
            raise TranslationError('for-init is not a declaration')
        self.ctx.nloop += 1
        lname = '%s_loop%d' % (self.ctx.name, self.ctx.nloop)
        # declare the induction variable in the enclosing scope for the loop's duration
        saved_outer = (dict(self.vars), list(self.order))
        d = init['inner'][0]
        ivn = self.fresh(d['name'])
        init_e = self.expr([c for c in d['inner'] if c.get('kind') != 'FullComment'][0])
        self.vars[d['id']] = ivn
        self.order.append(d['id'])
        ids = list(self.order)
        # loop function parameters: everything threaded, under fresh names
        sv = (dict(self.vars), list(self.order), dict(self.fieldvars), self.outvar)
        pn = {i: self.fresh(re.sub(r'_\d+$', '', self.vars[i])) for i in ids}
        fn = {f: self.fresh(f) for f in self.field_order}
        on = self.fresh('out') if self.outvar else None
        for i in ids:
            self.vars[i] = pn[i]
        for f in self.field_order:
            self.fieldvars[f] = fn[f]
        if on:
            self.outvar = on
        def pack():
            vals = [self.vars[i] for i in ids if i != d['id']] + [self.fieldvars[f] for f in self.field_order] + \
                   ([self.outvar] if on else [])
            return vals
        def k_exit():
            vals = pack()
            if not vals:
                return 'Some tt'
            r = 'Some (%s)' % ', '.join(vals)
            return r
        def k_continue():
            # evaluate the increment, then recurse
            t = self.stmts([inc], lambda: '%s fuel_ %s' % (lname, ' '.join(
                [self.free_args()] + [self.vars[i] for i in ids] + [self.fieldvars[f] for f in self.field_order] +
                ([self.outvar] if on else []))))
            return t
        cond_e = self.expr(cond)
        body_t = self.branch([body], k_continue, k_exit, k_continue)
        exit_t = k_exit()
        params = [pn[i] for i in ids] + [fn[f] for f in self.field_order] + ([on] if on else [])
        free = self.free_params()
        text = 'Fixpoint %s (fuel : nat) %s %s {struct fuel} :=\n  match fuel with O => None | S fuel_ =>\n  %s end.\n' % (
            lname, free, ' '.join('(%s : option %s)' % (p, 'Z') if p != on else '(%s : option (list Z))' % p for p in params),
            OIF(cond_e, body_t, exit_t))
        self.ctx.loops.append(text)
        self.vars, self.order, self.fieldvars, self.outvar = sv
        # call site
        call = '%s %s %s' % (lname, self.loop_fuel(cond, d), ' '.join(
            [self.free_args()] + [self.vars[i] if i != d['id'] else '(%s)' % init_e for i in ids] +
            [self.fieldvars[f] for f in self.field_order] + ([self.outvar] if on else [])))
        # after the loop: rebind everything from the returned tuple
        outer_ids = [i for i in ids if i != d['id']]
        newn = {i: self.fresh(re.sub(r'_\d+$', '', self.vars[i])) for i in outer_ids}
        newf = {f: self.fresh(f) for f in self.field_order}
        newo = self.fresh('out') if on else None
        pat = [newn[i] for i in outer_ids] + [newf[f] for f in self.field_order] + ([newo] if on else [])
        self.vars, self.order = saved_outer[0], saved_outer[1]
        for i in outer_ids:
            self.vars[i] = newn[i]
        for f in self.field_order:
            self.fieldvars[f] = newf[f]
        if on:
            self.outvar = newo
        if not pat:
            return 'obind (%s) (fun _ =>\n%s)' % (call, nxt())
        if len(pat) == 1:
            return 'obind (%s) (fun %s =>\n%s)' % (call, pat[0], nxt())
        return "obind (%s) (fun '(%s) =>\n%s)" % (call, ', '.join(pat), nxt())

    def loop_fuel(self, cond, d):
        # fuel = upper bound of the induction variable + 1, taken from `i < bound`
        if cond.get('kind') == 'BinaryOperator' and cond['opcode'] in ('<', '<='):
            b = cond['inner'][1]
            return '(match %s with Some b_ => S (Z.to_nat b_) | None => O end)' % self.expr(b)
        raise TranslationError('loop condition is not of the form i < bound')

    def free_params(self):
        return self.free_param_text

    def free_args(self):
        return self.free_arg_text


def translate(ctx, fnnode, this_view_type=None, fields=None, slice_=None, assign_fields=None,
              extra_params=None, has_out=False, body_stmts=None):
    """Return Coq text `Definition <name> ... := ...` (preceded by loop Fixpoints)."""
    f = Fn(ctx, 'this_' if this_view_type else None)
    f.fieldvars = {}
    f.field_order = list(assign_fields or [])
    f.outvar = None
    params = []
    if this_view_type:
        params.append('(this_ : %s)' % this_view_type)
    args = ['this_'] if this_view_type else []
    for nm, ty in (extra_params or []):
        params.append('(%s : %s)' % (nm, ty))
        args.append(nm)
        f.names[nm] = 1
    inner = fnnode.get('inner', []) or []
    for p in inner:
        if p.get('kind') == 'ParmVarDecl' and slice_ is None:
            t = ctype_of(p)
            nm = f.fresh(p.get('name', 'arg'))
            if t is None or t == 'vec':
                # non-integer parameter: not usable in arithmetic; keep it out of scope
                continue
            f.vars[p['id']] = nm
            f.order.append(p['id'])
            params.append('(%s : option %s)' % (nm, 'bool' if t == 'bool' else 'Z'))
            args.append(nm)
    f.free_param_text = ' '.join(params)
    f.free_arg_text = ' '.join(args)
    # the parameters are fixed for the loop functions: loops get them as "free" parameters and
    # the threaded variables exclude them
    param_ids = list(f.order)
    f.order = []
    pre = ''
    for fld in f.field_order:
        nm = f.fresh(fld)
        f.fieldvars[fld] = nm
        pre += 'let %s : option Z := None in\n' % nm
    if has_out:
        f.outvar = f.fresh('out')
        pre += 'let %s : option (list Z) := Some nil in\n' % f.outvar
    if body_stmts is None:
        body = [c for c in inner if c.get('kind') == 'CompoundStmt']
        if not body:
            raise TranslationError('%s has no body' % ctx.name)
        body_stmts = body[0].get('inner', []) or []
    term = f.stmts(body_stmts, lambda: f.result([]))
    text = ''.join(ctx.loops)
    ctx.loops = []
    text += 'Definition %s %s :=\n%s%s.\n' % (ctx.name, ' '.join(params), pre, term)
    return text

# ----------------------------------------------------------------------------
# finding things in the AST

def find_class_spec(docs, name):
    for d in docs:
        for n in walk(d):
            if n.get('kind') == 'ClassTemplateSpecializationDecl' and n.get('name') == name and \
               any(c.get('kind') == 'CXXMethodDecl' for c in n.get('inner', [])):
                return n
    raise TranslationError('no instantiated specialization of %s found' % name)

def find_class(docs, name):
    for d in docs:
        for n in walk(d):
            if n.get('kind') == 'CXXRecordDecl' and n.get('name') == name and n.get('completeDefinition'):
                return n
    raise TranslationError('class %s not found' % name)

def find_method(cls, name, nparams=None, docs=None):
    cands = []
    for c in cls.get('inner', []):
        if c.get('kind') in ('CXXMethodDecl', 'CXXConstructorDecl') and c.get('name') == name:
            np = sum(1 for p in c.get('inner', []) if p.get('kind') == 'ParmVarDecl')
            if nparams is None or np == nparams:
                cands.append(c)
    with_body = [c for c in cands if any(x.get('kind') == 'CompoundStmt' for x in c.get('inner', []))]
    if len(with_body) == 1:
        return with_body[0]
    if not with_body and cands and docs is not None:
        # out-of-line definition: a top-level doc whose previousDecl is one of the candidates
        ids = {c['id'] for c in cands}
        for d in docs:
            if d.get('kind') in ('CXXMethodDecl',) and d.get('name') == name and d.get('previousDecl') in ids and \
               any(x.get('kind') == 'CompoundStmt' for x in d.get('inner', [])):
                return d
    raise TranslationError('method %s/%s: %d candidates with a body' % (name, nparams, len(with_body)))

def int_fields(cls):
    out = []
    for c in cls.get('inner', []):
        if c.get('kind') == 'FieldDecl':
            t = ctype_of(c)
            out.append((c['name'], t))
    return out

# ----------------------------------------------------------------------------
# targets

HEADER = """(* GENERATED by tools/cxx2coq.py from %s — do not edit.
   Regenerated from /repo's current headers on every run (DESIGN.md §2). *)
From Coq Require Import ZArith List Bool.
Import ListNotations.
From Ygm Require Import Gen.CArith%s.
Local Open Scope Z_scope.

"""

TU_COMMON = """#include <ygm/comm.hpp>
#include <ygm/container/array.hpp>
#include <ygm/container/bag.hpp>
#include <ygm/container/map.hpp>
#include <ygm/container/tagged_bag.hpp>
template class ygm::container::array<int>;
template class ygm::container::bag<int>;
template class ygm::container::tagged_bag<int>;
template struct ygm::container::detail::hash_partitioner<int>;
inline void verif_instantiate_(ygm::comm &c) {
  c.async_bcast([](int) {}, 1);
  (void)c.all_reduce(1, [](int a, int b) { return a + b; });
}
"""

LAYOUT_CALLS = {}
def layout_calls(prefix):
    """whitelist for calls on a layout object reached through path `prefix`"""
    m = {}
    for nm, ar in (('size', 0), ('rank', 0), ('node_size', 0), ('local_size', 0), ('node_id', 0), ('local_id', 0)):
        m['%s.%s/%d' % (prefix, nm, ar)] = 'layout_%s0 {obj}' % nm
    for nm in ('node_id', 'local_id', 'is_local', 'is_strided'):
        m['%s.%s/1' % (prefix, nm)] = 'layout_%s1 {obj} {0}' % nm
    m['%s.strided_ranks/0' % prefix] = 'm_strided_ranks {obj}'
    m['%s.local_ranks/0' % prefix] = 'm_local_ranks {obj}'
    return m

def gen_layout(repo, cache):
    docs = ast_dump(repo, TU_COMMON, 'ygm::detail::layout', cache)
    cls = find_class(docs, 'layout')
    flds = int_fields(cls)
    rec = 'Record layout_view := {\n' + ';\n'.join(
        '  %s : %s' % (n, 'list Z' if t == 'vec' else 'Z') for n, t in flds) + '\n}.\n\n'
    out = rec
    self_calls = {}
    for nm, ar in (('_check_rank', 3),):
        pass
    # _check_rank(rank, size, scope): the string parameter is dropped
    order = [('_check_rank', 3), ('_check_world_rank', 1), ('_check_local_rank', 1), ('_check_node_rank', 1),
             ('size', 0), ('rank', 0), ('node_size', 0), ('local_size', 0), ('node_id', 0), ('local_id', 0),
             ('node_id', 1), ('local_id', 1), ('nl_to_rank', 2), ('is_strided', 1), ('is_local', 1)]
    calls = {
        'this._check_rank/3': 'CHECK:layout__check_rank3 {this} {0} {1}',
        'this._check_world_rank/1': 'CHECK:layout__check_world_rank1 {this} {0}',
        'this._check_local_rank/1': 'CHECK:layout__check_local_rank1 {this} {0}',
        'this._check_node_rank/1': 'CHECK:layout__check_node_rank1 {this} {0}',
        'this.node_id/1': 'layout_node_id1 {this} {0}',
        'this.local_id/1': 'layout_local_id1 {this} {0}',
    }
    for nm, ar in order:
        m = find_method(cls, nm, ar, docs)
        ctx = Ctx('layout_%s%d' % (nm, ar), calls=calls)
        out += translate(ctx, m, 'layout_view') + '\n'
    return HEADER % ('include/ygm/detail/layout.hpp', '') + out

def gen_router(repo, cache):
    docs = ast_dump(repo, TU_COMMON, 'ygm::detail::comm_router', cache)
    cls = find_class(docs, 'comm_router')
    m = find_method(cls, 'next_hop', 2, docs)
    ctx = Ctx('router_next_hop', calls=layout_calls('this.m_layout'), skip=[r'cerr'])
    rec = 'Record router_view := { m_layout : layout_view }.\n\n'
    return HEADER % ('include/ygm/detail/comm_router.hpp', ' Gen.Gen_layout') + rec + translate(ctx, m, 'router_view')

def comm_calls(prefix):
    return {'%s.size/0' % prefix: 'Some (comm_size {obj})', '%s.rank/0' % prefix: 'Some (comm_rank {obj})'}

COMM_VIEW = ''  # comm_view is declared in CArith.v

def gen_array(repo, cache):
    docs = ast_dump(repo, TU_COMMON, 'ygm::container::array', cache)
    cls = find_class_spec(docs, 'array')
    rec = COMM_VIEW + 'Record array_view := {\n  m_global_size : Z;\n  m_small_block_size : Z;\n  m_large_block_size : Z;\n  m_local_start_index : Z;\n  m_comm : comm_view\n}.\n\n'
    out = rec
    calls = comm_calls('this.m_comm')
    # resize(size, fill): assigns the four size fields and the local vector's length
    m = find_method(cls, 'resize', 2)
    ctx = Ctx('array_resize', calls=calls, skip=[r'this\.m_comm\.barrier'])
    out += translate(ctx, m, 'array_view', assign_fields=['m_global_size', 'm_small_block_size',
                     'm_large_block_size', 'm_local_vec_size', 'm_local_start_index']) + '\n'
    for nm in ('owner', 'local_index', 'global_index'):
        m = find_method(cls, nm, 1)
        ctx = Ctx('array_%s' % nm, calls=calls)
        out += translate(ctx, m, 'array_view') + '\n'
    return HEADER % ('include/ygm/container/detail/array.ipp', '') + out

def stmts_between(body, first_decl, last_kind_index):
    """slice of a CompoundStmt: from the DeclStmt declaring `first_decl` up to and including the
    n-th statement of kind last_kind_index=(kind, n)."""
    start = None
    for i, s in enumerate(body):
        if s.get('kind') == 'DeclStmt' and any(d.get('name') == first_decl for d in s.get('inner', [])):
            start = i
            break
    if start is None:
        raise TranslationError('slice start %s not found' % first_decl)
    kind, nth = last_kind_index
    cnt = 0
    for j in range(start, len(body)):
        if body[j].get('kind') == kind:
            cnt += 1
            if cnt == nth:
                return body[start:j + 1]
    raise TranslationError('slice end %s#%d not found' % (kind, nth))

def gen_rebalance(repo, cache):
    docs = ast_dump(repo, TU_COMMON, 'ygm::container::bag', cache)
    cls = find_class_spec(docs, 'bag')
    m = find_method(cls, 'rebalance', 0)
    body = [c for c in m['inner'] if c.get('kind') == 'CompoundStmt'][0]['inner']
    sl = stmts_between(body, 'small_block_size', ('ForStmt', 1))
    calls = comm_calls('this.m_comm')
    calls['this.local_size/0'] = 'local_size'
    ctx = Ctx('bag_rebalance_targets', calls=calls, emit=[(r'^op\(to_send,', 0)],
              free={'global_size': 'global_size', 'prefix_val': 'prefix_val'}, field_prefix='bag_')
    # `to_send[target_rank]++` is an emit of target_rank
    rec = COMM_VIEW + 'Record bag_view := { bag_m_comm : comm_view }.\n\n'
    t = translate(ctx, m, 'bag_view', slice_=True, has_out=True, body_stmts=sl,
                  extra_params=[('global_size', 'option Z'), ('prefix_val', 'option Z'), ('local_size', 'option Z')])
    return HEADER % ('include/ygm/container/detail/bag.ipp (bag::rebalance, target_rank computation)', '') + rec + t

def gen_tree(repo, cache):
    docs = ast_dump(repo, TU_COMMON, 'ygm::comm::all_reduce', cache)
    # the instantiated specialization of the member template
    cand = None
    for d in docs:
        for n in walk(d):
            if n.get('kind') == 'CXXMethodDecl' and n.get('name') == 'all_reduce' and \
               any(x.get('kind') == 'CompoundStmt' for x in n.get('inner', [])) and \
               'dependent' not in json.dumps(n)[:200000] and '<dependent type>' not in n.get('type', {}).get('qualType', ''):
                q = n.get('type', {}).get('qualType', '')
                if 'const int &' in q:
                    cand = n
    if cand is None:
        raise TranslationError('instantiated all_reduce not found')
    body = [c for c in cand['inner'] if c.get('kind') == 'CompoundStmt'][0]['inner']
    sl = stmts_between(body, 'first_child', ('DeclStmt', 3))
    # make the three declarations visible in the result: translate them followed by a synthetic return
    calls = {'this.rank/0': 'Some (comm_rank this_)', 'this.size/0': 'Some (comm_size this_)'}
    ctx = Ctx('tree_indices', calls=calls)
    f_text = translate_decls_as_tuple(ctx, cand, sl, 'comm_view', ['first_child', 'second_child', 'parent'])
    return HEADER % ('include/ygm/detail/comm.ipp (comm::all_reduce, child/parent indices)', '') + COMM_VIEW + f_text

def translate_decls_as_tuple(ctx, fnnode, sl, view, names, extra_params=None, free=None):
    """Translate declaration statements and return the tuple of the declared variables."""
    f = Fn(ctx, 'this_')
    f.fieldvars = {}
    f.field_order = []
    f.outvar = None
    params = ['(this_ : %s)' % view] + ['(%s : %s)' % p for p in (extra_params or [])]
    f.free_param_text = ' '.join(params)
    f.free_arg_text = ' '.join(['this_'] + [p[0] for p in (extra_params or [])])
    def fin():
        byname = {}
        for i in f.order:
            byname[re.sub(r'_\d+$', '', f.vars[i])] = f.vars[i]
        vals = []
        for nme in names:
            if nme not in byname:
                raise TranslationError('declared variable %s not found in slice' % nme)
            vals.append(byname[nme])
        r = vals[0]
        for v in vals[1:]:
            r = 'opair (%s) %s' % (r, v)
        return r
    term = f.stmts(sl, fin)
    text = ''.join(ctx.loops)
    ctx.loops = []
    return text + 'Definition %s %s :=\n%s.\n' % (ctx.name, ' '.join(params), term)

def find_lambda_body(node, varname):
    for n in walk(node):
        if n.get('kind') == 'VarDecl' and n.get('name') == varname:
            for x in walk(n):
                if x.get('kind') == 'LambdaExpr':
                    for c in x.get('inner', []):
                        if c.get('kind') == 'CompoundStmt':
                            return c
    raise TranslationError('lambda %s not found' % varname)

def gen_bcast(repo, cache):
    docs = ast_dump(repo, TU_COMMON, 'ygm::comm::pack_lambda_broadcast', cache)
    inst = None
    for d in docs:
        for n in walk(d):
            if n.get('kind') == 'CXXMethodDecl' and n.get('name') == 'pack_lambda_broadcast' and \
               any(x.get('kind') == 'CompoundStmt' for x in n.get('inner', [])):
                q = n.get('type', {}).get('qualType', '')
                if 'const int &' in q:
                    inst = n
    if inst is None:
        raise TranslationError('instantiated pack_lambda_broadcast not found')
    body = find_lambda_body(inst, 'forward_remote_and_dispatch_lambda')['inner']
    sl = stmts_between(body, 'num_layers', ('IfStmt', 2))
    calls = layout_calls('c.layout()')
    calls['c.layout/0'] = 'L'
    ctx = Ctx('bcast_remote_partners', calls=calls, emit=[(r'^c\.queue_message_bytes$', 1)], free={'c': 'L'})
    f = Fn(ctx, None)
    t = translate(ctx, inst, None, slice_=True, has_out=True, body_stmts=sl, extra_params=[('L', 'layout_view')])
    # stage 2 / initial stage: loops over local_ranks()
    return HEADER % ('include/ygm/detail/comm.ipp (pack_lambda_broadcast, remote partner loop)', ' Gen.Gen_layout') + t

def gen_hash(repo, cache):
    docs = ast_dump(repo, TU_COMMON, 'ygm::container::detail::hash_partitioner', cache)
    cls = find_class_spec(docs, 'hash_partitioner')
    m = find_method(cls, 'operator()', 3)
    ctx = Ctx('hash_partition', calls={'op:hash': 'hash_k'})
    t = translate(ctx, m, None, extra_params=[('hash_k', 'option Z')])
    return HEADER % ('include/ygm/container/detail/hash_partitioner.hpp', '') + t

TARGETS = [
    ('Gen_layout', gen_layout),
    ('Gen_router', gen_router),
    ('Gen_array', gen_array),
    ('Gen_rebalance', gen_rebalance),
    ('Gen_tree', gen_tree),
    ('Gen_bcast', gen_bcast),
    ('Gen_hash', gen_hash),
]

def main():
    ap = argparse.ArgumentParser()
    ap.add_argument('--repo', default='/repo')
    ap.add_argument('--out', required=True)
    ap.add_argument('--cache', default=None)
    ap.add_argument('--only', default=None)
    a = ap.parse_args()
    cache = a.cache or os.path.join(a.out, '.astcache')
    os.makedirs(a.out, exist_ok=True)
    status = {}
    for name, fn in TARGETS:
        if a.only and a.only != name:
            continue
        path = os.path.join(a.out, name + '.v')
        try:
            text = fn(a.repo, cache)
            status[name] = 'ok'
        except TranslationError as e:
            status[name] = 'error: %s' % e
            text = '(* TRANSLATION FAILED: %s *)\nFrom Ygm Require Import Gen.CArith.\nDefinition translation_failed_%s : False := ltac:(fail "cxx2coq: %s").\n' % (
                str(e).replace('*)', '* )'), name, str(e).replace('"', "'"))
        old = open(path).read() if os.path.exists(path) else None
        if old != text:
            with open(path, 'w') as fh:
                fh.write(text)
            status[name] += ' (written)'
        else:
            status[name] += ' (unchanged)'
    json.dump(status, sys.stdout, indent=1)
    print()
    return 0 if all(v.startswith('ok') for v in status.values()) else 2

if __name__ == '__main__':
    sys.exit(main())
