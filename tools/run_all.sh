#!/bin/bash
# run_all.sh [tier]: every claimed check once on the current tree; prints rc per property.
cd "$(dirname "$0")/.."
tier=${1:-quick}
ids=$(python3 -c "import json; print(' '.join(c['property_id'] for c in json.load(open('MANIFEST.json'))['checks']))")
fail=0
for id in $ids; do
  s=$(date +%s)
  out=$(./check $id --tier $tier 2>&1); rc=$?
  echo "$id rc=$rc $(( $(date +%s) - s ))s $(echo "$out" | grep -E '^VIOLATION|^KNOWN' | head -2 | tr '\n' ' ')"
  [ $rc -ne 0 ] && fail=1
done
exit $fail
