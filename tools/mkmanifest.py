#!/usr/bin/env python3
"""Regenerates /verif/MANIFEST.json from the table below (one place to keep it valid)."""
import json, os
V = os.path.dirname(os.path.dirname(os.path.abspath(__file__)))
props = [json.loads(l) for l in open(os.path.join(V, 'properties.jsonl'))]

T_ENGINE = 'coq+cxx2coq'
CLAIMS = {
 'C04': dict(engine=T_ENGINE,
   text='Coq theorems for all n x p block layouts (route shapes under NONE/NR/NLNR, one NLNR rank pair per ordered node pair, NLNR pairs subset of NR pairs, totality of next_hop) about a next-hop function that is regenerated from comm_router.hpp/layout.hpp by a clang-AST translator on every run and re-proved equal to the hand-written spec; the generated code is additionally evaluated inside Coq against the compiled router on an exhaustive small domain. Added (RouterPlaced.v): the same for ANY uniform placement of the ranks on the nodes - the regenerated next_hop on the layout tables of a numbering rk/nd/lc with placement_ok equals next_hop_placed, the routes are the block routes renumbered (route_transport), every route reaches its destination in at most three hops through ranks of the communicator and the NLNR off-node hop between two nodes is made by one fixed rank pair; block, round-robin and four irregular placements are run under simmpi (-cyclic / -placement) and the real layout tables are compared with the placement.',
   note='Trusted: Coq kernel; tools/cxx2coq.py + coq/Gen/CArith.v (C integer semantics); clang 14 AST; that ygm::detail::layout builds the tables of a placement_ok numbering from the MPI communicator splits is not modelled (compared per run by the layout oracle; defect D19 was found there); the accessors are generated. No axioms.',
   technique='Rocq proof over a translator-generated model (clang AST -> Gallina), re-proved every run', ref='DESIGN.md §2, §5 C04'),
 'C10': dict(engine=T_ENGINE,
   text='Coq theorems for every array length and communicator size (blocks contiguous, disjoint, covering, balanced; owner in range, unique, total) and for the hash partitioner (owner = hash mod n in range), about array::resize/owner and hash_partitioner::operator() regenerated from the headers each run; the real containers run on every rank under a simulated MPI and their values are compared with the generated code inside Coq.',
   note='Trusted: Coq kernel; translator + CArith.v; simmpi as MPI for the enumeration harness; std::hash is a parameter. "Stored only on the owner" rests on the container refinement (C11-C13) and C01.',
   technique='Rocq proof over a translator-generated model, re-proved every run; exhaustive small-domain correspondence', ref='DESIGN.md §5 C10'),
 'C13': dict(engine=T_ENGINE,
   text='Coq theorems (index round trip local_index/global_index on the owner; resize/owner total and equal to the block partition) over code regenerated from array.ipp; the real array is driven on every (size, length) in a bound with one update per element and read back, under a simulated MPI.',
   note='Trusted: Coq kernel; translator + CArith.v; simmpi. Exactly-once delivery of the update messages is C01/C02.',
   technique='Rocq proof over a translator-generated model; exhaustive small-domain correspondence', ref='DESIGN.md §5 C13'),
 'C14': dict(engine=T_ENGINE,
   text='Coq theorems: (1) the target-rank loop of bag::rebalance (regenerated from bag.ipp, loop included) sends each position to its block-partition owner, is total for every total count, and therefore leaves exactly blk_size items on every rank for every initial placement; (2) Bag.v: two bags under all insert overloads, rebalance shipments, global shuffle to arbitrary destinations, local shuffle, clear and swap refine a pair of multisets for every history (brun_refines); (3) in every history of inserts, erases, clears and swaps on two tagged bags the tag returned by an insert is fresh, carries the issuing rank and addresses exactly that item (tagged_insert_unique, invariant TInv). Tie: real rebalances (4 placements x totals x sizes) compared with the generated loop inside Coq; generated histories on two real bags and two real tagged bags (inserts issued directly after swap / clear, fewer items than ranks, unequal per-rank counters before swap) compared with Bag.v evaluated by vm_compute: returned tags, per-rank and global contents, visits, sizes, gathers.',
   note='Trusted: Coq kernel; translator + CArith.v; simmpi; Bag.v is hand-written and tied by the differential histories. The order of items inside a rank and the destinations drawn by global_shuffle are not compared (multisets are).',
   technique='Rocq proof over a translator-generated model (with loop) + Rocq refinement/invariant proofs on a hand-written executable model tied by differential histories', ref='DESIGN.md §5 C14'),
}
if os.path.exists(os.path.join(V, 'tools', 'claims_extra.json')):
    CLAIMS.update(json.load(open(os.path.join(V, 'tools', 'claims_extra.json'))))

checks = []
for p in props:
    c = CLAIMS.get(p['id'])
    if not c:
        continue
    checks.append({
        'property_id': p['id'],
        'quick_cmd': './check %s --tier quick' % p['id'],
        'thorough_cmd': './check %s --tier thorough' % p['id'],
        'evidence_file': '/verif/evidence/%s.json' % p['id'],
        'replay_cmd_template': './check %s --replay {path}' % p['id'],
        'engine': c['engine'],
        'level_claimed': {'category': 'proof', 'text': c['text'], 'design_ref': c['ref']},
        'level_note': c['note'],
        'technique': c['technique'],
    })
hooks_commits = []
hp = os.path.join(V, 'tools', 'hook_commits.txt')
if os.path.exists(hp):
    hooks_commits = [l.strip() for l in open(hp) if l.strip()]
m = {
 'version': 1, 'setup_cmd': './setup.sh',
 'hooks': {'guard': 'YGM_VERIF', 'enable': 'harnesses are compiled with -DYGM_VERIF -fno-access-control against /repo/include (see vlib/__init__.py compile_cxx)',
           'baseline_off_cmd': 'cd /repo && cmake --build _build -j16 && OMPI_ALLOW_RUN_AS_ROOT=1 OMPI_ALLOW_RUN_AS_ROOT_CONFIRM=1 ctest --test-dir _build -j8 --timeout 900',
           'source_commits': hooks_commits, 'add_only': True},
 'engines': [
   {'name': T_ENGINE, 'path': '/verif/coq, /verif/tools/cxx2coq.py', 'serves_properties': sorted(k for k, v in CLAIMS.items() if v['engine'] == T_ENGINE),
    'kind_free_text': 'Coq 8.16 development; arithmetic kernels regenerated from the C++ headers by a clang-AST translator and re-proved each run'},
   {'name': 'coq+simmpi', 'path': '/verif/coq, /verif/simmpi, /verif/harness', 'serves_properties': sorted(k for k, v in CLAIMS.items() if v['engine'] == 'coq+simmpi'),
    'kind_free_text': 'hand-written executable Coq models tied to the implementation by differential runs of the real library under a deterministic simulated MPI'}],
 'checks': checks,
 'notes': 'See DESIGN.md. A property is claimed only once its proof and its tie to the code exist; the rest are listed under not_applicable with the reason.',
 'not_applicable': [{'property_id': p['id'], 'reason': 'check not built yet (design in DESIGN.md §5); not claimed until its proof and tie exist'} for p in props if p['id'] not in CLAIMS],
}
json.dump(m, open(os.path.join(V, 'MANIFEST.json'), 'w'), indent=1)
print('claimed:', [c['property_id'] for c in checks])
