#!/bin/bash
# coqdbg.sh <file.v> <line> : replace the given line by "Show. admit." variant and print goals (debug only; writes under /tmp)
f=$1; n=$2
sed "${n}s/.*/  idtac \"DBG\"; match goal with |- ?G => idtac G end. Show. Fail idtac. /" $f > /tmp/D.v
cd $(dirname $f) && timeout 300 coqc -Q . Ygm /tmp/D.v 2>&1 | grep -v "^IH\|^ *forall\|^  *hproc\|^  *mproc" | tail -${3:-40}
rm -f /tmp/D.vo /tmp/D.glob /tmp/.D.aux /tmp/D.vok /tmp/D.vos
