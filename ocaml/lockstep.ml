(* lockstep.ml — runs the extracted RankMachine against the per-rank MPI logs of a
   real run of harness/traffic.cpp under simmpi (DESIGN.md §3.3).

     lockstep <run-dir> <n> <ppn> <routing 0|1|2> <cap-bytes> <nisw> <freq>

   <run-dir> holds scenario.scn and rank<r>.log (written with SIMMPI_LOGBYTES=1).
   For every rank the responses of the real MPI calls are replayed into the model and
   the model's sequence of MPI calls (kind, order, destination, the messages in every
   posted buffer) and harness notes (handler begin/end with nesting depth and live
   masks, barrier in/out, buffer/pending byte counters after main-context asyncs) must
   equal the recorded one.  Output: one line per rank "RANK r OK events=N" or
   "RANK r MISMATCH at=i model=... impl=...", then "LOCKSTEP ok|mismatch". *)
open Rankmachine

let rec pos_of_int n = if n = 1 then XH else if n land 1 = 0 then XO (pos_of_int (n lsr 1)) else XI (pos_of_int (n lsr 1))
let z_of_int n = if n = 0 then Z0 else if n > 0 then Zpos (pos_of_int n) else Zneg (pos_of_int (-n))
let rec int_of_pos = function XH -> 1 | XO p -> 2 * int_of_pos p | XI p -> 2 * int_of_pos p + 1
let int_of_z = function Z0 -> 0 | Zpos p -> int_of_pos p | Zneg p -> - (int_of_pos p)
let rec nat_of_int n = if n <= 0 then O else S (nat_of_int (n - 1))
let rec int_of_nat = function O -> 0 | S n -> 1 + int_of_nat n

let split_ws s = List.filter (fun x -> x <> "") (String.split_on_char ' ' s)

(* ---- scenario -------------------------------------------------------------- *)
let parse_acts toks =
  let rec go toks acc = match toks with
    | [] -> List.rev acc
    | "A" :: d :: u :: l :: r -> go r (AAsync (z_of_int (int_of_string d), z_of_int (int_of_string u), z_of_int (int_of_string l)) :: acc)
    | "AR" :: d :: u :: r -> go r (AAsyncRef (z_of_int (int_of_string d), z_of_int (int_of_string u)) :: acc)
    | "F" :: d :: u :: l :: st :: r -> go r (AFunctor (z_of_int (int_of_string d), z_of_int (int_of_string u), z_of_int (int_of_string l), z_of_int (int_of_string st)) :: acc)
    | "B" :: u :: l :: r -> go r (ABcast (z_of_int (int_of_string u), z_of_int (int_of_string l)) :: acc)
    | "M" :: k :: r ->
        let k = int_of_string k in
        let rec take n l acc = if n = 0 then (List.rev acc, l) else match l with x :: t -> take (n - 1) t (x :: acc) | [] -> failwith "M" in
        let (ds, r) = take k r [] in
        (match r with u :: l :: r -> go r (AMcast (List.map (fun d -> z_of_int (int_of_string d)) ds, z_of_int (int_of_string u), z_of_int (int_of_string l)) :: acc) | _ -> failwith "M")
    | "BAR" :: r -> go r (ABar :: acc)
    | "CFB" :: r -> go r (ACfb :: acc)
    | "LP" :: r -> go r (ALp :: acc)
    | "WU" :: f :: r -> go r (AWu (z_of_int (int_of_string f)) :: acc)
    | "SF" :: f :: r -> go r (ASf (z_of_int (int_of_string f)) :: acc)
    | "MON" :: r -> go r (AMon :: acc)
    | "MOFF" :: r -> go r (AMoff :: acc)
    | "CB" :: i :: r -> go r (ACb (z_of_int (int_of_string i)) :: acc)
    | "MUT" :: r -> go r (AMut :: acc)
    | "COLL" :: r -> go r (AColl :: acc)
    | t :: _ -> failwith ("unknown act " ^ t)
  in go toks []

let load_scenario path =
  let mains = Hashtbl.create 16 and msgs = Hashtbl.create 64 and cbs = Hashtbl.create 16 in
  let ic = open_in path in
  (try while true do
    let line = input_line ic in
    if String.length line > 0 && line.[0] <> '#' then
      match split_ws line with
      | kind :: id :: ":" :: rest ->
          let acts = parse_acts rest in
          let id = int_of_string id in
          (match kind with "main" -> Hashtbl.replace mains id acts | "msg" -> Hashtbl.replace msgs id acts | "cb" -> Hashtbl.replace cbs id acts | _ -> ())
      | _ -> ()
  done with End_of_file -> ());
  close_in ic; (mains, msgs, cbs)

(* ---- logs -------------------------------------------------------------------- *)
type entry =
  | Call of string * (string * string) list * string list   (* op, key=value args, remaining tokens *)
  | Note of string * string

let kv toks = List.filter_map (fun t -> match String.index_opt t '=' with Some i -> Some (String.sub t 0 i, String.sub t (i + 1) (String.length t - i - 1)) | None -> None) toks

let load_log path =
  let ic = open_in path in
  let out = ref [] in
  (try while true do
    let line = input_line ic in
    match split_ws line with
    | "C" :: _ :: op :: rest -> out := Call (op, kv rest, rest) :: !out
    | "N" :: _ :: tag :: rest -> out := Note (tag, String.concat " " rest) :: !out
    | _ -> ()
  done with End_of_file -> ());
  close_in ic; List.rev !out

let hex_to_bytes h =
  if h = "-" then Bytes.empty else begin
    let n = String.length h / 2 in
    let b = Bytes.create n in
    for i = 0 to n - 1 do Bytes.set b i (Char.chr (int_of_string ("0x" ^ String.sub h (2 * i) 2))) done; b end

let le b off n = let v = ref 0 in for i = n - 1 downto 0 do v := (!v lsl 8) lor Char.code (Bytes.get b (off + i)) done; !v
let le_signed32 b off = let v = le b off 4 in if v >= 0x80000000 then v - 0x100000000 else v

let pay uid i = (uid * 131 + i * 7 + (i lsr 8)) land 0xff

exception Parse of string

(* lid -> (hk, stage) *)
let lids : (int, int * int) Hashtbl.t = Hashtbl.create 16

let parse_buffer routing (b : Bytes.t) (peer : int) : msg list =
  let n = Bytes.length b in
  let rec go off acc =
    if off = n then List.rev acc else begin
      let (hsize, hdest, off) =
        if routing <> 0 then begin
          if off + 8 > n then raise (Parse "truncated header");
          (le b off 4, le_signed32 b (off + 4), off + 8) end
        else (-1, peer, off) in
      if off + 2 > n then raise (Parse "truncated lambda id");
      let lid = le b off 2 in
      let start = off in
      let off = off + 2 in
      let (hk, stage) = try Hashtbl.find lids lid with Not_found -> raise (Parse (Printf.sprintf "unknown lambda id %d" lid)) in
      let (extra, off) = if hk = 2 then (le b off 8, off + 8) else (0, off) in
      if off + 16 > n then raise (Parse "truncated arguments");
      let uid = le b off 8 in
      let off = off + 8 in
      let (len, extra, off) =
        if hk = 1 then (0, le b off 8, off + 8)
        else begin
          let l = le b off 8 in
          let off = off + 8 in
          if off + l > n then raise (Parse "payload runs past the buffer");
          for i = 0 to l - 1 do if Char.code (Bytes.get b (off + i)) <> pay uid i then raise (Parse (Printf.sprintf "payload byte %d of uid %d corrupted" i uid)) done;
          (l, extra, off + l) end in
      let mdest = if stage > 0 then -1 else hdest in
      if routing <> 0 then begin
        if stage > 0 then (if hsize <> 0 || hdest <> -1 then raise (Parse "broadcast leg without the (0,-1) header"))
        else if hsize <> off - start then raise (Parse (Printf.sprintf "header size %d but the message has %d bytes (uid %d)" hsize (off - start) uid)) end;
      go off ({ uid = z_of_int uid; mdest = z_of_int mdest; stage = nat_of_int stage; hk = nat_of_int hk; len = z_of_int len; extra = z_of_int extra } :: acc)
    end in
  go 0 []

let show_msg m = Printf.sprintf "(u%d d%d s%d k%d l%d x%d)" (int_of_z m.uid) (int_of_z m.mdest) (int_of_nat m.stage) (int_of_nat m.hk) (int_of_z m.len) (int_of_z m.extra)
let show_msgs ms = String.concat "" (List.map show_msg ms)

(* learn the lambda ids from the OR notes of every rank *)
let learn_lids all_logs =
  let pending = ref [] in
  List.iter (fun log -> List.iter (function
    | Note ("OR", rest) ->
        let a = kv (split_ws rest) in
        let g k = int_of_string (List.assoc k a) in
        let lid = g "lid" and hk = g "hk" and from = g "from" and ud = g "userdepth" in
        if hk >= 0 then Hashtbl.replace lids lid (hk, if hk = 3 then 1 else 0)
        else if from >= 0 && ud = 0 then pending := (from, lid) :: !pending
    | _ -> ()) log) all_logs;
  (* stage k+1 lambdas are forwarded from stage k lambdas *)
  for _ = 1 to 3 do
    List.iter (fun (from, lid) -> match Hashtbl.find_opt lids from with
      | Some (hk, st) when st >= 1 && st < 3 -> Hashtbl.replace lids lid (hk, st + 1)
      | _ -> ()) !pending
  done

(* ---- one rank ------------------------------------------------------------------ *)
type tok = string

let tok_of_event routing (e : event) : tok option = match e with
  | EIsend (sync, d, ms) -> Some (Printf.sprintf "%s %d %s" (if sync then "ISSEND" else "ISEND") (int_of_z d) (show_msgs ms))
  | EIrecv -> Some "IRECV"
  | ETestSend -> Some "TEST send"
  | ETestRecv -> Some "TEST recv"
  | EWaitSR -> Some "WAITSOME send recv"
  | EWaitIR -> Some "WAITSOME iallreduce recv"
  | EIallreduce (r, s) -> Some (Printf.sprintf "IALLREDUCE %d %d" (int_of_z r) (int_of_z s))
  | ECfBarrier -> Some "BARRIER"
  | EColl -> Some "ALLREDUCE"
  | NO u -> Some (Printf.sprintf "O %d" (int_of_z u))
  | No u -> Some (Printf.sprintf "o %d" (int_of_z u))
  | NX (u, d, m) -> Some (Printf.sprintf "X %d depth=%d masks=%d" (int_of_z u) (int_of_nat d) (int_of_nat m))
  | Nx u -> Some (Printf.sprintf "x %d" (int_of_z u))
  | NBI k -> Some (Printf.sprintf "BI %d" (int_of_z k))
  | NBO k -> Some (Printf.sprintf "BO %d" (int_of_z k))
  | NS (t, sb, pend, dq, sq) -> Some (Printf.sprintf "%s sb=%d pend=%d dq=%d sq=%d" (if int_of_nat t = 0 then "S" else "SB") (int_of_z sb) (int_of_z pend) (int_of_nat dq) (int_of_nat sq))
  | NCBX i -> Some (Printf.sprintf "CBX %d" (int_of_z i))
  | Ncbx i -> Some (Printf.sprintf "cbx %d" (int_of_z i))

let last l = List.nth l (List.length l - 1)

(* recorded entries -> (tokens to compare, oracle responses) *)
let digest routing me (log : entry list) : tok list * resp list =
  let toks = ref [] and orc = ref [] in
  let started = ref false in
  let finished = ref false in
  let kind_of a i = (* "req=9/3" *) let s = List.nth (List.filter (fun (k, _) -> k = "req") a) i in
    let v = snd s in int_of_string (String.sub v (String.index v '/' + 1) (String.length v - String.index v '/' - 1)) in
  List.iter (fun e -> if not !finished then match e with
    | Note ("CFG", _) -> started := true
    | Note ("DO", _) -> finished := true
    | Note (tag, rest) when !started ->
        let a = kv (split_ws rest) in
        let first = match split_ws rest with x :: _ -> x | [] -> "" in
        (match tag with
         | "O" | "OB" | "OM" -> toks := ("O " ^ first) :: !toks
         | "o" | "x" | "BI" | "BO" | "CBX" | "cbx" -> toks := (tag ^ " " ^ first) :: !toks
         | "X" -> toks := Printf.sprintf "X %s depth=%s masks=%s" first (List.assoc "depth" a) (List.assoc "masks" a) :: !toks
         | "S" | "SB" -> toks := Printf.sprintf "%s sb=%s pend=%s dq=%s sq=%s" tag (List.assoc "sb" a) (List.assoc "pend" a) (List.assoc "dq" a) (List.assoc "sq" a) :: !toks
         | _ -> ())
    | Call (op, a, rest) when !started ->
        (match op with
         | "ISEND" | "ISSEND" ->
             let d = int_of_string (List.assoc "dest" a) in
             let ms = parse_buffer routing (hex_to_bytes (last rest)) d in
             toks := Printf.sprintf "%s %d %s" op d (show_msgs ms) :: !toks
         | "IRECV" -> toks := "IRECV" :: !toks
         | "TEST" ->
             let kind = int_of_string (List.assoc "kind" a) in
             (* tokens after "->" *)
             let rec after = function "->" :: r -> r | _ :: r -> after r | [] -> [] in
             let r = after rest in
             let flag = (List.hd r = "1") in
             if kind = 1 then begin toks := "TEST send" :: !toks; orc := RTestSend flag :: !orc end
             else begin
               toks := "TEST recv" :: !toks;
               if flag then orc := RTestRecv (Some (parse_buffer routing (hex_to_bytes (last r)) me)) :: !orc
               else orc := RTestRecv None :: !orc end
         | "WAITSOME" ->
             let k0 = kind_of a 0 in
             (* completions: "[idx" ... "hex]" groups *)
             let rec after = function "->" :: _ :: r -> r | _ :: r -> after r | [] -> [] in
             let groups = String.concat " " (after rest) in
             let items = List.filter (fun x -> x <> "") (String.split_on_char '[' groups) in
             let items = List.map (fun g -> split_ws (String.concat "" (String.split_on_char ']' g))) items in
             let find i = List.find_opt (fun g -> List.hd g = string_of_int i) items in
             let data = match find 1 with Some g -> Some (parse_buffer routing (hex_to_bytes (last g)) me) | None -> None in
             if k0 = 1 then begin
               toks := "WAITSOME send recv" :: !toks;
               orc := RWaitSR ((find 0 <> None), data) :: !orc end
             else begin
               toks := "WAITSOME iallreduce recv" :: !toks;
               let result = match find 0 with
                 | Some g -> let b = hex_to_bytes (last g) in Some (z_of_int (le b 0 8), z_of_int (le b 8 8))
                 | None -> None in
               orc := RWaitIR (result, data) :: !orc end
         | "IALLREDUCE" ->
             let b = hex_to_bytes (last rest) in
             toks := Printf.sprintf "IALLREDUCE %d %d" (le b 0 8) (le b 8 8) :: !toks
         | "BARRIER" -> toks := "BARRIER" :: !toks; orc := RUnit :: !orc
         | "ALLREDUCE" -> toks := "ALLREDUCE" :: !toks; orc := RUnit :: !orc
         | _ -> ())
    | _ -> ()) log;
  (List.rev !toks, List.rev !orc)

let () =
  let dir = Sys.argv.(1) in
  let n = int_of_string Sys.argv.(2) and ppn = int_of_string Sys.argv.(3) and routing = int_of_string Sys.argv.(4)
  and cap = int_of_string Sys.argv.(5) and nisw = int_of_string Sys.argv.(6) and freq = int_of_string Sys.argv.(7) in
  let (mains, msgs, cbs) = load_scenario (Filename.concat dir "scenario.scn") in
  let logs = Array.init n (fun r -> load_log (Filename.concat dir (Printf.sprintf "rank%d.log" r))) in
  learn_lids (Array.to_list logs);
  let hprog u = try Hashtbl.find msgs (int_of_z u) with Not_found -> [] in
  let cbprog i = try Hashtbl.find cbs (int_of_z i) with Not_found -> [] in
  let fuel = nat_of_int 400000 in
  let bad = ref 0 and total = ref 0 in
  (* hypotheses of RankSafe.handlers_never_nest_nor_run_masked, evaluated by the extracted definitions *)
  let illegal = ref [] in
  (* ... and of RankNoErr.no_assertion_fails_on_every_layout: destinations are ranks of the communicator *)
  let nr = nat_of_int n in
  Hashtbl.iter (fun u l -> if not (List.for_all legal_h l) then illegal := Printf.sprintf "handler-%d" u :: !illegal) msgs;
  Hashtbl.iter (fun i l -> if not (List.for_all legal_h l) then illegal := Printf.sprintf "callback-%d" i :: !illegal) cbs;
  Hashtbl.iter (fun r l -> if legal_main O l <> Some O then illegal := Printf.sprintf "main-%d" r :: !illegal) mains;
  Hashtbl.iter (fun u l -> if not (List.for_all (hact_ok nr) l) then illegal := Printf.sprintf "handler-dest-%d" u :: !illegal) msgs;
  Hashtbl.iter (fun i l -> if not (List.for_all (dests_ok nr) l) then illegal := Printf.sprintf "callback-dest-%d" i :: !illegal) cbs;
  Hashtbl.iter (fun r l -> if not (List.for_all (dests_ok nr) l) then illegal := Printf.sprintf "main-dest-%d" r :: !illegal) mains;
  for me = 0 to n - 1 do
    (try
      let (toks, orc) = digest routing me logs.(me) in
      if not (List.for_all (resp_okb nr) orc) then illegal := Printf.sprintf "received-dest-%d" me :: !illegal;
      let c = { c_n = z_of_int (n / ppn); c_p = z_of_int ppn; c_me = z_of_int me; c_routing = z_of_int routing; c_cap = z_of_int cap;
                c_nisw = z_of_int nisw; c_freq = z_of_int freq; c_hprog = hprog; c_cbprog = cbprog } in
      let main = try Hashtbl.find mains me with Not_found -> [] in
      let r = run_rank fuel c (nat_of_int n) main orc in
      let (status, st) = match r with
        | Ok s -> ("ok", Some s) | Blocked s -> ("blocked", Some s) | Err (a, s) -> (Printf.sprintf "assert-%d" (int_of_nat a), Some s) | OutOfFuel -> ("out-of-fuel", None) in
      let mtoks = match st with Some s -> List.filter_map (tok_of_event routing) (List.rev s.log) | None -> [] in
      (* the destructor's barrier of the implementation is followed by MPI_Barrier etc.: ignore what follows the model's end *)
      let rec cmp i a b = match a, b with
        | [], rest -> (* ~comm(): MPI_Barrier, cancels, MPI_Barrier; mpi_init_finalize: MPI_Barrier *)
            if List.for_all (fun t -> t = "BARRIER") rest && List.length rest <= 3 then None
            else Some (i, "<model ended: communicator destroyed>", List.find (fun t -> t <> "BARRIER") (rest @ ["BARRIER x" ^ string_of_int (List.length rest)]))
        | x :: _, [] -> Some (i, x, "<end of recorded calls>")
        | x :: a', y :: b' -> if x = y then cmp (i + 1) a' b' else Some (i, x, y) in
      total := !total + List.length mtoks;
      (match cmp 0 mtoks toks with
       | None when status = "ok" && (match st with Some s -> List.for_all (fun r -> r = RUnit) s.oracle | None -> false) ->
           Printf.printf "RANK %d OK events=%d\n" me (List.length mtoks)
       | None -> incr bad; Printf.printf "RANK %d MISMATCH model-status=%s unused-responses=%d events=%d recorded=%d\n" me status
                   (match st with Some s -> List.length s.oracle | None -> -1) (List.length mtoks) (List.length toks)
       | Some (i, x, y) -> incr bad; Printf.printf "RANK %d MISMATCH at=%d model=[%s] impl=[%s] model-status=%s\n" me i x y status)
    with
    | Parse m -> incr bad; Printf.printf "RANK %d MISMATCH wire-parse: %s\n" me m
    | Failure m -> incr bad; Printf.printf "RANK %d MISMATCH driver-failure: %s\n" me m
    | Not_found -> incr bad; Printf.printf "RANK %d MISMATCH driver-failure: missing field in a log line\n" me)
  done;
  Printf.printf "LEGAL %s\n" (if !illegal = [] then "ok" else String.concat "," !illegal);
  Printf.printf "LOCKSTEP %s ranks=%d events=%d\n" (if !bad = 0 then "ok" else "mismatch") n !total
