from . import core
def run(tier, seed, replay=None):
    return core.run('C08', tier, seed, replay)
