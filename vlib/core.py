"""Checks of the protocol core: C01, C02, C03, C05, C07, C08 (DESIGN §5).  They share the scenario suite,
the lock-step replay of the extracted RankMachine (tie D) and differ in oracle and theorem file."""
from . import *
from . import traffic as T

SPEC = {
    'C01': dict(prop='Properties_C01.v', kinds=['mixed', 'storm', 'cyclic'], oracles=[T.oracle_exactly_once, T.oracle_layout], gen=['Gen_layout', 'Gen_router'],
                nontriv=lambda s: s.n // s.ppn > 1 and s.routing != 'NONE'),
    'C02': dict(prop='Properties_C02.v', kinds=['mixed', 'storm'], oracles=[T.oracle_barrier], gen=[],
                nontriv=lambda s: any(m.get('parent', -1) >= 0 for u, m in s.meta.items() if isinstance(u, int))),
    'C03': dict(prop='Properties_C03.v', kinds=['collective', 'mixed', 'storm', 'masked', 'stream', 'amplify'], oracles=[T.oracle_liveness], gen=[],
                nontriv=lambda s: s.bufkb <= 1 or s.nirecv == 1 or s.freq == 1),
    'C05': dict(prop='Properties_C05.v', kinds=['mixed', 'cyclic'], oracles=[lambda s, r: T.oracle_exactly_once(s, r, kinds=('B', 'M')), T.oracle_layout], gen=['Gen_layout', 'Gen_bcast'],
                nontriv=lambda s: any(m['kind'] in ('B', 'M') for u, m in s.meta.items() if isinstance(u, int)) and s.n > 1),
    'C07': dict(prop='Properties_C07.v', kinds=['aggregate', 'stream', 'mixed'], oracles=[T.oracle_capacity], gen=[],
                nontriv=lambda s: s.kind in ('aggregate', 'stream')),
    'C08': dict(prop='Properties_C08.v', kinds=['mixed', 'storm', 'masked'], oracles=[T.oracle_atomic], gen=[],
                nontriv=lambda s: s.kind in ('storm', 'masked') or any(a[0] == 'MON' for r_ in s.main.values() for a in r_)),
}

def known_signature(pid, f):
    """Known findings are matched by a specific signature (DESIGN §3.5)."""
    for k in load_known():
        if k.get('status') == 'known' and k.get('property') == pid and k.get('signature') and k['signature'] in f.get('what', ''):
            return k
    return None

def run(pid, tier, seed, replay=None):
    sp = SPEC[pid]
    state = {}
    def explore(seed_, tier_, with_lockstep=True):
        scens = T.gen_suite(seed_, tier_, sp['kinds'])
        runs = T.run_many(scens, glog=True)
        fails = []
        for s, r in zip(scens, runs):
            if r['verdict'] == 'build':
                return scens, runs, [{'what': 'traffic harness does not compile against the current headers', 'log': r['detail']}], []
            for o in sp['oracles']:
                fails += o(s, r)
            if pid != 'C03' and r['verdict'] not in ('ok',):
                # a run that did not finish cannot witness this property; C03 reports it.  Still a tie problem here.
                fails.append(T.fail(s, r, 'run did not complete (%s %s): reported under C03; this property was not observable' % (r['verdict'], r['detail']), states=r['states']))
        if pid == 'C03':
            # handlers may call async to any recursion depth at every capacity: long chains of handler-spawned messages
            exe, err = compile_sim('chain', ['harness/chain.cpp'])
            if exe is None:
                fails.append({'what': 'chain harness does not compile against the current headers', 'log': (err or '')[-1200:]})
            else:
                hops = 6000 if tier_ == 'quick' else 20000
                for i, (nr, selfsend, kb) in enumerate([(1, 1, 0), (2, 1, 0), (2, 0, 0)] if tier_ == 'quick' else [(1, 1, 0), (3, 1, 0), (2, 0, 0), (3, 0, 1)]):
                    r = simrun(exe, nr, [hops, selfsend], ppn=nr, seed=seed_ * 11 + i, policy=['uniform', 'late', 'early', 'uniform'][i], wall=1200,
                               env={'YGM_COMM_BUFFER_SIZE_KB': kb})
                    ok = r['verdict'] == 'ok' and all(l.split()[2] == l.split()[3] for l in r['out'] if l.startswith('CH ')) and any(l.startswith('CH ') for l in r['out'])
                    state['chain_hops'] = state.get('chain_hops', 0) + hops * nr
                    if not ok:
                        fails.append({'what': 'a chain of %d handler-spawned messages per rank (%s, %d ranks, capacity %d KB) did not complete: %s %s %s' % (
                                          hops, 'self-addressed' if selfsend else 'to the neighbour', nr, kb, r['verdict'], r['detail'], [l for l in r['out'] if l.startswith('CH ')][:2]),
                                      'cmd': r['cmd'], 'kind': 'chain', 'config': 'chain', 'scenario': 'chain %d %d' % (hops, selfsend)})
        if pid == 'C01':
            # communicators other than MPI_COMM_WORLD
            from . import subcomm
            sf, nmsg = subcomm.explore(seed_, tier_)
            fails += sf
            state['subcomm_messages'] = state.get('subcomm_messages', 0) + nmsg
            # function objects with state of every size (1, 4, 8, 12, 13, 24 bytes) and mixed arguments: "with arguments equal to those passed"
            from . import c06
            nfm, ff = c06.comm_runs(seed_, tier_)
            fails += [dict(f, kind='functor', scenario=f.get('config', '')) for f in ff]
            state['stateful_functor_messages'] = state.get('stateful_functor_messages', 0) + nfm
        if pid == 'C08':
            # masks taken and released inside handlers (user handlers, map visits) with further buffers already waiting
            exe, err = compile_sim('maskhandler', ['harness/maskhandler.cpp'])
            if exe is None:
                fails.append({'what': 'maskhandler harness does not compile against the current headers', 'log': (err or '')[-1200:]})
            else:
                cfgs = [(3, 3, 'uniform', 16384, 'NONE'), (4, 2, 'early', 1, 'NLNR'), (2, 1, 'late', 0, 'NR')]
                if tier_ != 'quick':
                    cfgs += [(n, p, pol, kb, rt) for (n, p) in ((5, 5), (6, 2), (8, 4)) for pol in ('uniform', 'starve') for kb, rt in ((16384, 'NONE'), (1, 'NR'))]
                for i, (nr, ppn, pol, kb, rt) in enumerate(cfgs):
                    r = simrun(exe, nr, [6], ppn=ppn, seed=seed_ * 17 + i, policy=pol, wall=60, env={'YGM_COMM_BUFFER_SIZE_KB': kb, 'YGM_COMM_ROUTING': rt})
                    rows = [l.split() for l in r['out'] if l.startswith('MH ')]
                    cfgt = '%d ranks, %d per node, %s, %d KB' % (nr, ppn, rt, kb)
                    if r['verdict'] != 'ok' or len(rows) != nr:
                        fails.append({'what': 'handlers that take a mask (%s): run ended with %s %s' % (cfgt, r['verdict'], r['detail']), 'cmd': r['cmd'], 'kind': 'maskhandler', 'config': cfgt, 'scenario': 'maskhandler 6'})
                        continue
                    state['mask_in_handler_executions'] = state.get('mask_in_handler_executions', 0) + sum(int(t[4]) for t in rows)
                    for t in rows:
                        if int(t[2]) or int(t[3]):
                            fails.append({'what': 'rank %s (%s): %s handler(s) started while another handler was running (a mask was released inside it) and %s by-reference argument(s) arrived changed' % (t[1], cfgt, t[2], t[3]),
                                          'cmd': r['cmd'], 'kind': 'maskhandler', 'config': cfgt, 'scenario': 'maskhandler 6'})
                            break
        if pid == 'C02':
            # the implicit barrier in the destructor of every container kind
            from . import dtor
            df, nobs = dtor.explore(seed_, tier_)
            fails += df
            state['dtor_observations'] = state.get('dtor_observations', 0) + nobs
        ls = []
        if with_lockstep:
            sub = [s for s in scens if s.kind in ('mixed', 'storm', 'masked', 'aggregate', 'stream', 'amplify')]
            sub = sub if tier_ == 'quick' else sub[:400]
            ls = list(zip(sub, T.lockstep_many(sub)))
        return scens, runs, fails, ls
    def tie(res):
        scens, runs, fails, ls = explore(seed, tier)
        state['scens'] = scens
        bad = [(s, l) for s, l in ls if l['status'] not in ('ok', 'skipped')]
        msg = None
        if bad:
            s, l = bad[0]
            msg = 'lock-step: the rank machine and the implementation disagree on %d of %d runs; first: %s | %s' % (
                len(bad), len(ls), '; '.join(l.get('mismatches', [str(l.get('detail', l.get('status')))])[:2]), s.text().split('\n')[0])
            state['lockstep_bad'] = [{'scenario': s.text(), 'mismatches': l.get('mismatches', [str(l.get('detail', l.get('status')))]), 'cmd': l.get('cmd')} for s, l in bad[:5]]
        illegal = [(s, l) for s, l in ls if l['status'] == 'ok' and l.get('legal', 'ok') != 'ok']
        if pid in ('C08', 'C03', 'C02') and illegal and msg is None:
            # the main theorems (C08_handlers_never_nest_nor_run_masked, C03_no_assertion_fails, C02_barrier_returns_flushed) speak about
            # legal programs with in-range destinations only: a generated scenario outside their
            # hypotheses is a defect of the generator (machinery), reported as a broken tie
            msg = 'generator produced %d scenarios outside the hypotheses of the main theorems (legal_h / legal_main / dests_ok / resp_okb: %s): %s' % (
                len(illegal), illegal[0][1].get('legal'), illegal[0][0].text().split('\n')[0])
        dist = T.distribution(scens, runs)
        nontriv = len({s.key() for s in scens if sp['nontriv'](s)})
        known, real = [], []
        for f in fails:
            k = known_signature(pid, f)
            (known if k else real).append(f)
        samples = []
        for s in scens[:2]:
            samples.append({'scenario': s.text()[:1500]})
        return {'ok': msg is None, 'msg': msg, 'failures': real, 'known': sorted({known_signature(pid, f)['what'] for f in known}),
                'validated': sum(1 for s, l in ls if l['status'] == 'ok'), 'evaluations': len(scens), 'nontrivial': nontriv,
                'rule': 'seeded scenarios (%s) run on the real library under simmpi with adversarial schedules; distinct scenario texts counted; non-trivial by the per-property rule in vlib/core.py' % ', '.join(sp['kinds']),
                'samples': samples, 'kind': 'scenario',
                'tie': 'D: extracted RankMachine replayed in lock-step (every MPI call, every posted buffer parsed to messages, handler begin/end with depth and masks, byte counters) against %d recorded runs, %d events' % (len(ls), sum(l.get('events', 0) for s, l in ls)),
                'replay': 'write the scenario text to a file and run: simmpi/simrun <options from the cmd field> -- traffic <file>',
                'extra': {'distribution': dist, 'lockstep_runs': len(ls), 'lockstep_events': sum(l.get('events', 0) for s, l in ls),
                          'lockstep_disagreements': state.get('lockstep_bad', []),
                          'container_destructor_observations': state.get('dtor_observations', 0),
                          'handler_chain_hops': state.get('chain_hops', 0),
                          'messages_on_non_world_communicators': state.get('subcomm_messages', 0),
                          'replayed_scenarios_satisfying_the_theorem_hypotheses': sum(1 for s, l in ls if l.get('legal') == 'ok')}}
    def search():
        found = []
        for k in range(1, 6):
            scens, runs, fails, _ = explore(seed + 1000 * k, 'quick', with_lockstep=False)
            found += [f for f in fails if not known_signature(pid, f)]
            if found:
                break
        return found
    return run_check(pid, tier, seed, sp['prop'], sp['gen'] + ['extract'], tie, search,
                     trusted=['simmpi (stub + coordinator) as an implementation of MPI semantics; its schedules are exploration, not proof',
                              'harness/traffic.cpp, hooks H1/H2 (guard YGM_VERIF), -fno-access-control',
                              'extraction (ExtrOcamlBasic only) and ocaml/lockstep.ml (log parser, comparator)',
                              'coq/RankMachine.v is a hand-written model of comm.ipp: tied by lock-step, not verified against the C++'],
                     assumptions=['MPI delivers each posted buffer exactly once to its destination and computes the sum in Iallreduce',
                                  'legal programs: the same number of barriers on every rank, no barrier / wait while a mask is held'])
