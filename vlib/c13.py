"""C13 — array updates hit exactly the addressed element exactly once (DESIGN §5 C13)."""
from . import *
from . import partition as P
from . import containers as CT

def run(tier, seed, replay=None):
    maxlen = 24 if tier == 'quick' else 60
    sizes = list(range(1, 8)) if tier == 'quick' else list(range(1, 13))
    def tie(res):
        lines, probs = P.run_mode('array', maxlen, sizes, seed)
        fails = list(probs)
        n = nt = nrows = 0
        msg = None
        samples = []
        if lines:
            A, F, V, I = P.parse_array(lines)
            n, nt, f = P.oracle_array_updates(A, V, I, maxlen)
            fails += f
            n2, nt2, f2 = P.oracle_array_partition(A, F, maxlen)
            fails += [x for x in f2 if 'default' in x.get('what', '') or 'presented' in x.get('what', '')]
            if not fails:
                nrows, msg = P.coq_array_table(A, maxlen)
            k = (3, 2, 7)
            if k in V:
                samples.append({'R': 3, 'rank': 2, 'len': 7, 'for_all after a[i] += i+1 (index=value)': V[k], 'index>local>global': I.get(k)})
        ct = CT.evaluate('C13', seed, tier)
        fails += ct.get('failures', [])
        if ct.get('msg') and msg is None:
            msg = ct['msg']
        nrows += ct.get('validated', 0)
        hist_extra = ct.get('extra', {})
        return {'extra': {'histories': ct.get('evaluations', 0), 'history_cases_checked_in_coq': ct.get('validated', 0), 'history_details': hist_extra}, 'ok': msg is None and not fails, 'msg': msg, 'failures': fails, 'validated': nrows,
                'evaluations': n, 'nontrivial': nt, 'exhaustive': True,
                'rule': 'every (R in %s, length 0..%d): one async update per element issued from rank i mod R, then for_all; non-trivial: length not divisible by R or < R' % (sizes, maxlen),
                'samples': samples,
                'tie': 'T: Gen_array.v regenerated from array.ipp (resize, owner, local_index, global_index) and re-proved equal to the block-partition spec; evaluated in Coq on the real arrays\' values',
                'replay': 'simmpi/simrun -n R -- partition_enum array %d' % maxlen}
    def search():
        lines, probs = P.run_mode('array', 80, list(range(1, 17)), seed + 100)
        if probs:
            return probs
        A, F, V, I = P.parse_array(lines)
        return P.oracle_array_updates(A, V, I, 80)[2]
    return run_check('C13', tier, seed, 'Properties_C13.v', ['Gen_array'], tie, search,
                     trusted=['tools/cxx2coq.py + coq/Gen/CArith.v', 'simmpi as the MPI under the harness',
                              'exactly-once delivery of each update message is C01/C02; this check decides the addressing'],
                     assumptions=['len < 2^62, R < 2^31'])
