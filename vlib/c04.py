"""C04 — routing hop structure (DESIGN §5 C04).  Tie T + exhaustive enumeration on the compiled router."""
import os, re, time
from . import *

PROP = 'Properties_C04.v'

def enum_table(res, maxn, maxp):
    exe, err = compile_cxx('router_enum', ['harness/router_enum.cpp'], mpi='openmpi')
    if exe is None:
        return None, err
    rc, out = sh([exe, str(maxn), str(maxp)], timeout=600)
    if rc != 0:
        return None, out[-2000:]
    tab = {}
    for line in out.split('\n'):
        if ':' not in line:
            continue
        k, v = line.split(':')
        n, p, me, s = map(int, k.split())
        tab[(n, p, me, s)] = v.split()
    return tab, None

def oracle(tab, maxn, maxp, shapes=None, place=None):
    """The clauses of C04, evaluated on the next-hop tables of the compiled router.
    Returns (number of routes checked, list of failures (dict))."""
    fails, nroutes, nontrivial = [], 0, 0
    def hop(n, p, cur, s, dst):
        h = tab[(n, p, cur, s)][dst]
        return None if h == 'E' else int(h)
    for (n, p) in (shapes if shapes is not None else [(a, b) for a in range(1, maxn + 1) for b in range(1, maxp + 1)]):
        N = n * p
        nd, lc = place if place is not None else ((lambda x: x // p), (lambda x: x % p))      # node and on-node index of a rank
        offpairs = {1: set(), 2: set()}
        nodepair = {}
        for s in (0, 1, 2):
            for src in range(N):
                for dst in range(N):
                    nroutes += 1
                    route, cur, bad = [], src, None
                    for _ in range(5):
                        h = hop(n, p, cur, s, dst)
                        if h is None or not (0 <= h < N):
                            bad = 'next_hop(%d) on rank %d is %s' % (dst, cur, h)
                            break
                        route.append(h)
                        cur = h
                        if h == dst:
                            break
                    else:
                        bad = 'route does not reach the destination within 5 hops: %s' % route
                    if bad is None:
                        kinds = []
                        prev = src
                        for h in route:
                            off = nd(prev) != nd(h)
                            kinds.append('off' if off else 'on')
                            if off and s in (1, 2):
                                if lc(prev) != lc(h):
                                    bad = 'off-node hop %d->%d joins different on-node indices' % (prev, h)
                                offpairs[s].add((prev, h))
                                if s == 2:
                                    nodepair.setdefault((nd(prev), nd(h)), set()).add((prev, h))
                            prev = h
                        if len(route) > 1:
                            nontrivial += 1
                        if s == 0 and route != [dst]:
                            bad = 'NONE route is not direct: %s' % route
                        if s == 1 and kinds not in (['on'], ['off'], ['off', 'on']):
                            bad = 'NR route has hop kinds %s' % kinds
                        if s == 2 and kinds not in (['on'], ['off'], ['on', 'off'], ['off', 'on'], ['on', 'off', 'on']):
                            bad = 'NLNR route has hop kinds %s' % kinds
                        if src != dst and len(set([src] + route)) != len(route) + 1:
                            bad = 'route revisits a rank: %s' % ([src] + route)
                    if bad:
                        fails.append({'n': n, 'p': p, 'scheme': ['NONE', 'NR', 'NLNR'][s], 'src': src, 'dst': dst,
                                      'route': route, 'what': bad})
                        if len(fails) > 20:
                            return nroutes, nontrivial, fails
        if not offpairs[2] <= offpairs[1]:
            fails.append({'n': n, 'p': p, 'what': 'NLNR off-node pairs not a subset of NR pairs',
                          'extra': sorted(offpairs[2] - offpairs[1])[:5]})
        for (a, b), prs in nodepair.items():
            if len(prs) != 1:
                fails.append({'n': n, 'p': p, 'what': 'NLNR traffic node %d -> node %d uses %d rank pairs' % (a, b, len(prs)),
                              'pairs': sorted(prs)[:5]})
    return nroutes, nontrivial, fails

def coq_table_check(tab, maxn, maxp):
    """Evaluate the *generated* router_next_hop inside Coq on the same domain and compare with
    what the compiled C++ printed."""
    rows = []
    for (n, p, me, s), hs in sorted(tab.items()):
        if n > maxn or p > maxp:
            continue
        vals = '; '.join('None' if h == 'E' else 'Some (%s)' % h for h in hs)
        rows.append('(%d, %d, %d, %d, [%s])' % (n, p, me, s, vals))
    v = os.path.join(COQ, 'Gen', 'Tab_router.v')
    with open(v, 'w') as fh:
        fh.write('''From Coq Require Import ZArith List Bool. Import ListNotations.
From Ygm Require Import Gen.CArith Gen.Gen_layout Gen.Gen_router Layout.
Local Open Scope Z_scope.
Definition tab : list (Z * Z * Z * Z * list (option Z)) := [
%s].
Definition oeqb (a b : option Z) := match a, b with Some x, Some y => x =? y | None, None => true | _, _ => false end.
Fixpoint leqb (a b : list (option Z)) := match a, b with [] , [] => true | x :: a', y :: b' => oeqb x y && leqb a' b' | _, _ => false end.
Definition row_ok (r : Z * Z * Z * Z * list (option Z)) : bool :=
  let '(n, p, me, s, hs) := r in
  leqb (map (fun d => router_next_hop {| m_layout := block_layout n p me |} (Some (Z.of_nat d)) (Some s)) (seq 0 (Z.to_nat (n * p)))) hs.
Definition first_bad := find (fun r => negb (row_ok r)) tab.
Eval vm_compute in (length tab, match first_bad with None => None | Some (n, p, me, s, _) => Some (n, p, me, s) end).
''' % ';\n'.join(rows))
    rc, out = sh(['coqc', '-Q', '.', 'Ygm', 'Gen/Tab_router.v'], cwd=COQ, timeout=900)
    m = re.search(r'=\s*\((\d+)%?\w*,\s*(None|Some\s*\(([^)]*)\))', out)
    if rc != 0 or not m:
        return None, 'coqc failed on Tab_router.v:\n' + out[-1500:]
    if m.group(2) == 'None':
        return int(m.group(1)), None
    return int(m.group(1)), 'generated router_next_hop disagrees with the compiled router at (n,p,me,scheme)=(%s)' % m.group(3)

def layout_check(tab, tier):
    """The layout tables the real ygm::comm builds under simulated multi-node placements (blocks of ppn ranks per node) are the
    block placement, and the real router on the real layout gives the next hops of the enumeration table."""
    exe, err = compile_sim('layout_enum', ['harness/layout_enum.cpp'])
    if exe is None:
        return 0, [{'what': 'layout_enum harness does not compile against the current headers', 'log': (err or '')[-1200:]}]
    shapes = [(2, 2), (3, 2), (2, 3), (4, 1), (1, 4), (3, 3), (4, 2)] + ([] if tier == 'quick' else [(5, 2), (2, 5), (6, 1), (3, 4), (4, 3), (5, 3)])
    fails, n = [], 0
    real = {}
    for i, (nn, ppn) in enumerate(shapes):
        want_scheme = i % 3
        r = simrun(exe, nn * ppn, [], ppn=ppn, seed=7 + i, policy='uniform', wall=60, env={'YGM_COMM_ROUTING': ['NONE', 'NR', 'NLNR'][want_scheme]})
        if r['verdict'] != 'ok':
            fails.append({'what': 'layout_enum on %d nodes x %d ranks ended with %s %s' % (nn, ppn, r['verdict'], r['detail']), 'cmd': r['cmd']}); continue
        size = nn * ppn
        for l in r['out']:
            if l.startswith('L ') and ':' in l:
                me = int(l.split()[1])
                parts = [x.split() for x in l.split(':', 1)[1].split('|')]
                want = [[str(size), str(nn), str(ppn), str(me // ppn), str(me % ppn)],
                        [str((me // ppn) * ppn + k) for k in range(ppn)], [str(a * ppn + me % ppn) for a in range(nn)],
                        [str(x // ppn) for x in range(size)], [str(x % ppn) for x in range(size)]]
                n += 1
                names = ['(comm_size, node_size, local_size, node_id, local_id)', 'local_ranks', 'strided_ranks', 'rank_to_node', 'rank_to_local']
                for nm, g, w in zip(names, parts, want):
                    if g != w:
                        fails.append({'what': 'layout of rank %d on %d nodes x %d ranks: %s is %s, block placement gives %s' % (me, nn, ppn, nm, g, w), 'cmd': r['cmd'], 'level': 'model'})
            elif l.startswith('HD ') and ':' in l:
                # the scheme asked for through YGM_COMM_ROUTING is the one the communicator routes with
                t = l.split(':', 1)[0].split()
                me, got_scheme = int(t[1]), int(t[2])
                hops = l.split(':', 1)[1].split()
                n += 1
                if got_scheme != want_scheme:
                    fails.append({'what': 'YGM_COMM_ROUTING=%s selects scheme %s on rank %d (%d nodes x %d ranks)' % (['NONE', 'NR', 'NLNR'][want_scheme], ['NONE', 'NR', 'NLNR'][got_scheme] if 0 <= got_scheme < 3 else got_scheme, me, nn, ppn), 'cmd': r['cmd']})
                real[('default', nn, ppn, me)] = (want_scheme, hops)
            elif l.startswith('H ') and ':' in l:
                t = l.split(':', 1)[0].split()
                me, sc = int(t[1]), int(t[2])
                hops = l.split(':', 1)[1].split()
                ref = tab.get((nn, ppn, me, sc)) if tab else None
                n += 1
                real[(nn, ppn, me, sc)] = hops
                if ref is not None and [str(x) for x in ref] != hops:
                    fails.append({'what': 'next hops of rank %d (scheme %d) on the layout built by ygm::comm for %d nodes x %d ranks are %s; on the block-placement tables the router gives %s' % (me, sc, nn, ppn, hops, ref), 'cmd': r['cmd'], 'level': 'model'})
    # the property itself on the REAL tables: the clauses of C04 evaluated on the next hops computed from the layouts ygm::comm built
    for (nn, ppn) in shapes:
        if all((nn, ppn, me, sc) in real for me in range(nn * ppn) for sc in range(3)):
            sub = {k: v for k, v in real.items() if k[0] == nn and k[1] == ppn}
            # the routes of the scheme requested through the environment are the ones the communicator's own router gives
            for me in range(nn * ppn):
                d = real.get(('default', nn, ppn, me))
                if d is not None:
                    sub[(nn, ppn, me, d[0])] = d[1]
            try:
                fails += [dict(f, what=f['what'] + ' (on the layout built by ygm::comm for %d nodes x %d ranks)' % (nn, ppn)) for f in oracle(sub, nn, ppn, shapes=[(nn, ppn)])[2]]
            except Exception as ex:
                fails.append({'what': 'route oracle failed on the real tables of %d x %d: %r' % (nn, ppn, ex), 'level': 'model'})
    # non-block placements (round-robin, irregular): the tables are those of the placement (nodes ordered by their lowest rank) and
    # the clauses of C04 hold on the next hops the real router computes from them
    placements = [(3, 2, [0, 1, 2, 0, 1, 2]), (3, 2, [0, 1, 1, 2, 0, 2]), (4, 2, [0, 1, 2, 3, 3, 2, 1, 0]), (2, 3, [1, 0, 0, 1, 1, 0])]
    if tier != 'quick':
        placements += [(5, 2, [x % 5 for x in range(10)]), (3, 3, [0, 1, 2, 2, 1, 0, 0, 1, 2]), (4, 3, [0, 1, 2, 3, 3, 2, 1, 0, 0, 1, 2, 3]), (2, 4, [0, 1, 1, 0, 0, 1, 1, 0])]
    for i, (nn, ppn, lab) in enumerate(placements):
        size = nn * ppn
        order = []
        for x in lab:
            if x not in order:
                order.append(x)
        members = {x: [q for q in range(size) if lab[q] == x] for x in order}
        nd = lambda x: order.index(lab[x])
        lc = lambda x: members[lab[x]].index(x)
        rk = lambda a, l: members[order[a]][l]
        r = simrun(exe, size, [], ppn=ppn, placement=lab, seed=31 + i, policy='uniform', wall=60, env={'YGM_COMM_ROUTING': ['NONE', 'NR', 'NLNR'][i % 3]})
        if r['verdict'] != 'ok':
            fails.append({'what': 'layout_enum with ranks placed on nodes %s ended with %s %s' % (lab, r['verdict'], r['detail']), 'cmd': r['cmd']}); continue
        sub = {}
        for l in r['out']:
            if l.startswith('L ') and ':' in l:
                me = int(l.split()[1])
                parts = [x.split() for x in l.split(':', 1)[1].split('|')]
                want = [[str(size), str(nn), str(ppn), str(nd(me)), str(lc(me))],
                        [str(rk(nd(me), k)) for k in range(ppn)], [str(rk(a, lc(me))) for a in range(nn)],
                        [str(nd(x)) for x in range(size)], [str(lc(x)) for x in range(size)]]
                n += 1
                names = ['(comm_size, node_size, local_size, node_id, local_id)', 'local_ranks', 'strided_ranks', 'rank_to_node', 'rank_to_local']
                for nm, g, w in zip(names, parts, want):
                    if g != w:
                        fails.append({'what': 'layout of rank %d with ranks placed on nodes %s: %s is %s, the placement gives %s' % (me, lab, nm, g, w), 'cmd': r['cmd'], 'level': 'model'})
            elif l.startswith('H ') and ':' in l:
                t = l.split(':', 1)[0].split()
                sub[(nn, ppn, int(t[1]), int(t[2]))] = l.split(':', 1)[1].split()
                n += 1
        if all((nn, ppn, me, sc) in sub for me in range(size) for sc in range(3)):
            try:
                fails += [dict(f, what=f['what'] + ' (ranks placed on nodes %s)' % lab, cmd=r['cmd']) for f in oracle(sub, nn, ppn, shapes=[(nn, ppn)], place=(nd, lc))[2]]
            except Exception as ex:
                fails.append({'what': 'route oracle failed on the real tables of placement %s: %r' % (lab, ex), 'level': 'model'})
        else:
            fails.append({'what': 'layout_enum printed no complete next-hop table for placement %s' % lab, 'level': 'model'})
    return n, fails

def run(tier, seed, replay=None):
    res = Result('C04', tier, seed)
    maxn = maxp = 6 if tier == 'quick' else 10
    bad_src = audit_sources()
    gen = gen_coq()
    ok, log, fails = coq_make([PROP + 'o'])
    stats = proof_stats(PROP, failed_files={f for f, _, _, _ in fails})
    proofs_ok = ok and stats['ok'] and not bad_src and all(str(v).startswith('ok') for k, v in gen.items() if k in ('Gen_layout', 'Gen_router'))
    tab, err = enum_table(res, maxn, maxp)
    tie_msg = None
    nrows = 0
    if tab is None:
        tie_msg = 'router_enum harness failed to build/run: ' + (err or '')[-800:]
    elif ok:
        nrows, tie_msg = coq_table_check(tab, maxn, maxp)
    nroutes = nontriv = 0
    ofails = []
    if tab is not None:
        nroutes, nontriv, ofails = oracle(tab, maxn, maxp)
    nlayout, lfails = layout_check(tab, tier)
    ofails = list(ofails) + [f for f in lfails if f.get('level') != 'model']
    lmodel = [f for f in lfails if f.get('level') == 'model']
    if lmodel and not tie_msg:
        # the tables / next hops differ from the modelled block placement: a broken correspondence; the C04 clauses themselves
        # were evaluated on the real tables above
        tie_msg = 'the implementation and the model disagree: ' + lmodel[0]['what']
    if ofails:
        res.violation('enum', {'property': 'C04', 'kind': 'enumeration', 'bounds': [maxn, maxp], 'failures': ofails,
                               'replay': 'harness/router_enum.cpp %d %d on the current /repo; then vlib/c04.py oracle' % (maxn, maxp)},
                      'C04 oracle: %s' % ofails[0]['what'])
    elif not proofs_ok or tie_msg:
        # extended search on a larger domain
        big = 12
        tab2, err2 = enum_table(res, big, big)
        found = []
        if tab2 is not None:
            _, _, found = oracle(tab2, big, big)
        what = {'property': 'C04', 'kind': 'proof-obligation',
                'broken': [{'file': f, 'line': l, 'statement': s, 'error': m} for f, l, s, m in fails] or
                          ([{'correspondence': tie_msg}] if tie_msg else [{'audit': bad_src, 'translator': gen, 'proof_stats': stats.get('log_tail', '')}]),
                'searched': 'all (n,p,src,dst,scheme) with n,p <= %d on the compiled router' % big}
        if found:
            what['failures'] = found
            res.violation('enum', what, 'C04: proof/tie broken and failing input found: %s' % found[0]['what'])
        else:
            res.violation('proof', what, 'C04: %s no longer checks' % ((fails[0][2] if fails[0][2] != '?' else '%s (%s)' % (fails[0][0], str(fails[0][3])[:120].replace(chr(10), ' '))) if fails else (tie_msg or 'proof audit')), no_input=True)
    res.coverage.update({
        'obligations': stats.get('obligations', 0), 'discharged': stats.get('discharged', 0) if proofs_ok else min(stats.get('discharged', 0), max(stats.get('obligations', 1) - 1, 0)),
        'checker_cmd': 'cd coq && make Properties_C04.vo && coqc -Q . Ygm Properties_C04.v   (Print Assumptions under every theorem)',
        'property_theorems': stats.get('property_theorems', []),
        'closure_files': stats.get('closure', []),
        'axioms_reported': stats.get('axioms_reported', []),
        'translator_status': gen,
        'tie': 'T: Gen_layout.v/Gen_router.v regenerated from layout.hpp/comm_router.hpp by tools/cxx2coq.py; Gen_router_correct re-proved; '
               'generated code evaluated in Coq (vm_compute) against the compiled router on %d table rows' % nrows,
        'evaluations': nroutes, 'distinct_nontrivial': nontriv,
        'rule': 'every (n,p,scheme,src,dst) with n,p <= %d; a route is non-trivial when it has more than one hop' % maxn,
        'exhaustive': True,
        'traces_validated_against_impl': nrows,
        'layout_rows_compared_under_simmpi': nlayout,
        'samples': [{'n': 3, 'p': 4, 'scheme': 'NLNR', 'src': 0, 'dst': 11,
                     'next_hops_from_compiled_router': [tab[(3, 4, 0, 2)][11], tab[(3, 4, 2, 2)][11], tab[(3, 4, 10, 2)][11]]}] if tab and (3, 4, 0, 2) in tab else [],
        'trusted_base': TRUSTED_COMMON + ['tools/cxx2coq.py (clang 14 JSON AST -> Gallina) and coq/Gen/CArith.v (C integer semantics)',
                                         'block placement of ranks (layout tables modelled by Layout.block_layout; layout.hpp accessors are generated); the tables ygm::comm builds from MPI_Comm_split_type / MPI_Comm_split under simmpi are compared with the block placement, and the router on them with the enumeration table (harness/layout_enum.cpp)',
                                         'g++ 12 / harness/router_enum.cpp for the compiled-code side of the table comparison'],
    })
    res.assumptions = ['ranks are placed in blocks of p per node (property statement)', 'n*p <= 2^30 (int arithmetic exact)']
    return res.finish()
