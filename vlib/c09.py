"""C09 — collectives equal the sequential fold of all ranks' inputs (DESIGN §5 C09)."""
import re
from . import *

def inp(seed, r, k):
    return ((seed * 7919 + r * 104729 + k * 1299709) % 2001) - 1000

TYPES = [('char', 's', 8), ('i8', 's', 8), ('i16', 's', 16), ('i32', 's', 32), ('i64', 's', 64), ('u8', 'u', 8), ('u16', 'u', 16),
         ('u32', 'u', 32), ('u64', 'u', 64), ('f32', 'f', 0), ('f64', 'f', 0), ('f128', 'f', 0)]

def typed_expected(n):
    """every mpi_typeof specialisation: sum / min / max of inputs that tell signed, unsigned and floating point apart"""
    out = {}
    for nm, kind, b in TYPES:
        if kind == 'f':
            small = [(-(r + 1) if r % 2 else 2 * r + 3) for r in range(n)]            # times 4
            ext = small
            tot = sum(small)
        elif kind == 's':
            small = [(-(r + 2) if r % 2 else r + 1) for r in range(n)]
            ext = [(-(1 << (b - 1)) + r if r % 2 else (1 << (b - 1)) - 1 - r) for r in range(n)]
            tot = sum(small)
        else:
            small = [((1 << (b - 1)) + r if r % 2 else r + 1) for r in range(n)]
            ext = small
            tot = sum(small) % (1 << b)
        if nm != 'char':
            out['ty_sum_' + nm] = str(tot)
        out['ty_min_' + nm] = str(min(ext))
        out['ty_max_' + nm] = str(max(ext))
    return out

def expected(seed, n):
    a = [inp(seed, r, 0) for r in range(n)]
    e = {}
    te = typed_expected(n)
    for r in range(n):
        for k, v in te.items():
            e[(k, r)] = v
    for r in range(n):
        e[('all_reduce_sum', r)] = e[('sum', r)] = str(sum(a))
        e[('all_reduce_min', r)] = e[('min', r)] = str(min(a))
        e[('all_reduce_max', r)] = e[('max', r)] = str(max(a))
        e[('all_reduce_sum_u8', r)] = str(sum(x % 3 for x in range(n)) % 256)
        e[('all_reduce_max_i16', r)] = str(max(inp(seed, x, 1) for x in range(n)))
        e[('all_reduce_min_u32', r)] = str(min(inp(seed, x, 2) + 5000 for x in range(n)))
        e[('all_reduce_max_i64', r)] = str(max(inp(seed, x, 3) * 5000000000 for x in range(n)))
        e[('all_reduce_sum_dbl', r)] = str(sum(inp(seed, x, 4) for x in range(n)))
        e[('tree_sum', r)] = str(sum(inp(seed, x, 5) for x in range(n)))
        e[('tree_max', r)] = str(max(inp(seed, x, 6) for x in range(n)))
        e[('tree_union', r)] = ''.join('%d,' % x for x in range(n))
        e[('tree_strcat', r)] = ''.join(sorted(chr(ord('a') + x % 26) for x in range(n)))
        e[('sum_after_asyncs', r)] = 'local=%d' % (n * (n + 1) // 2)
        e[('prefix_sum', r)] = str(sum(a[:r]))
        e[('min_after_asyncs', r)] = str(n)
        e[('max_after_asyncs', r)] = str(n)
        e[('prefix_sum_after_asyncs', r)] = str(n)
        e[('logical_and_after_asyncs', r)] = str(n)
        e[('logical_or_after_asyncs', r)] = str(n)
        e[('prefix_sum_u64', r)] = str(sum(x + 1 for x in range(r)))
        if r <= 1:
            e[('prefix_sum_dbl_big', r)] = str(0 if r == 0 else 4)
        e[('prefix_sum_dbl', r)] = str(sum(2 * x + 1 for x in range(r)))
        e[('prefix_sum_flt', r)] = str(4 * sum(x + 1 for x in range(r)))
        e[('prefix_sum_i32', r)] = str(sum((-(x + 1) if x % 2 else x + 1) for x in range(r)))
        e[('logical_and', r)] = str(int(all(inp(seed, x, 7) > -900 for x in range(n))))
        e[('logical_or', r)] = str(int(any(inp(seed, x, 8) > 900 for x in range(n))))
        e[('logical_and_all', r)] = '1'
        e[('logical_or_none', r)] = '0'
        for root in range(n):
            e[('bcast_%d' % root, r)] = '%d r%d||x"y|' % (inp(seed, root, 9), root)
        e[('bcast_json_object', r)] = '{"a":1,"only_on_root":true}'
        e[('bcast_json_array', r)] = '[1,2,3]'
        e[('bcast_json_vector', r)] = '{"k":"v"};[true,null];'
        e[('bcast_std_map', r)] = 'x=1;'
        e[('is_same_yes', r)] = '1'
        e[('is_same_last', r)] = str(int(n == 1))
        e[('is_same_first', r)] = str(int(n == 1))
        e[('is_same_str', r)] = '1'
    return e

def explore(seed, sizes):
    exe, err = compile_sim('collectives', ['harness/collectives.cpp'])
    if exe is None:
        return 0, 0, [{'what': 'collectives harness does not compile against the current headers', 'log': err[-1500:]}], []
    fails, n_eval, samples = [], 0, []
    orders = {}
    pols = ['uniform', 'late', 'early', 'starve']
    for i, n in enumerate(sizes):
        s = seed * 31 + i
        r = simrun(exe, n, [s], ppn=(2 if n % 2 == 0 and n > 2 else n), seed=s, policy=pols[i % 4], wall=60,
                   env={'YGM_COMM_BUFFER_SIZE_KB': [0, 1, 16384][i % 3], 'YGM_COMM_ROUTING': ['NONE', 'NR', 'NLNR'][i % 3]})
        if r['verdict'] != 'ok':
            fails.append({'what': 'run on %d ranks ended with %s %s' % (n, r['verdict'], r['detail']), 'size': n, 'cmd': r['cmd'],
                          'states': [l for l in r['out'] if l.startswith(('STATE', 'EXIT'))][:10]})
            continue
        got = {}
        for l in r['out']:
            if l.startswith('R ') and ' : ' in l:
                head, val = l[2:].split(' : ', 1)
                name, rank = head.split()
                got[(name, int(rank))] = val.strip()
        exp = expected(s, n)
        for k, v in exp.items():
            n_eval += 1
            if got.get(k) != v:
                fails.append({'what': '%s on rank %d of %d returned %r, the sequential fold of the inputs gives %r' % (k[0], k[1], n, got.get(k), v),
                              'size': n, 'seed': s, 'cmd': r['cmd']})
                if len(fails) > 12:
                    return n_eval, len(sizes), fails, samples
        orders.setdefault(n, set()).update(got.get(('tree_order', rk)) for rk in range(n))
        if n == 5:
            samples.append({'size': 5, 'seed': s, 'inputs': [inp(s, x, 5) for x in range(5)], 'tree_sum_on_every_rank': got.get(('tree_sum', 0))})
    # the merge order of the real tree against the Coq model of it (Tree.tree_all_reduce with list append)
    if orders and not fails:
        ns = sorted(orders)
        text = '''From Coq Require Import ZArith List. Import ListNotations.
From Ygm Require Import Tree.
Local Open Scope Z_scope.
Eval vm_compute in map (fun n => tree_all_reduce (@app Z) (fun r => [r]) n) [%s].
''' % '; '.join(map(str, ns))
        rc, out = coq_eval('tree_order', text)
        flat = ' '.join(out.split()).replace('%Z', '')
        m = re.search(r'= \[(.*)\] : list', flat)
        if rc != 0 or not m:
            fails.append({'what': 'Tree.tree_all_reduce could not be evaluated: ' + out[-400:], 'level': 'model'})
        else:
            lists = re.findall(r'\[([^\[\]]*)\]', m.group(1))
            for n, l in zip(ns, lists):
                want = ''.join(x.strip() + ',' for x in l.split(';') if x.strip())
                n_eval += 1
                if orders[n] != {want}:
                    fails.append({'what': 'all_reduce with a non-commutative merge (concatenation) on %d ranks returned %s; Tree.tree_all_reduce (the model the fold theorem is about) gives %s' % (n, sorted(map(str, orders[n])), want), 'size': n, 'level': 'model'})
    return n_eval, len(sizes), fails, samples

def subcomm_collectives(seed, tier):
    """harness/subcoll.cpp: every collective on a reversed and on two split communicators folds that communicator's inputs."""
    exe, err = compile_sim('subcoll', ['harness/subcoll.cpp'])
    if exe is None:
        return 0, [{'what': 'subcoll harness does not compile against the current headers', 'log': (err or '')[-1200:]}]
    cfgs = [(2, 2), (3, 1), (4, 2), (5, 5)] + ([] if tier == 'quick' else [(6, 2), (7, 1), (8, 4), (1, 1), (8, 2)])
    fails, n_eval = [], 0
    for i, (n, ppn) in enumerate(cfgs):
        r = simrun(exe, n, [], ppn=ppn, seed=seed * 13 + i, policy=['uniform', 'late', 'early'][i % 3], wall=120)
        if r['verdict'] != 'ok':
            fails.append({'what': 'collectives on sub-communicators (%d ranks) ended with %s %s' % (n, r['verdict'], r['detail']), 'cmd': r['cmd']}); continue
        seen = 0
        for l in r['out']:
            if not (l.startswith('Z ') and ':' in l):
                continue
            h = l.split(':', 1)[0].split()
            sc, col, crank, wr = int(h[1]), int(h[2]), int(h[3]), int(h[4])
            members = sorted(range(n), reverse=True) if sc == 0 else [w for w in range(n) if w % 2 == col]     # world ranks in communicator order
            vals = [100 + 7 * w for w in members]
            m = len(members)
            want = {'all_reduce_sum': sum(vals), 'all_reduce_min': min(vals), 'all_reduce_max': max(vals), 'tree_sum': sum(vals), 'sum': sum(vals),
                    'min': min(vals), 'max': max(vals), 'prefix_sum': sum(vals[:crank]), 'logical_and': 1, 'logical_or': 1,
                    'bcast_last': vals[-1], 'bcast_vec_first': members[0], 'is_same': int(m == 1)}
            got = dict(t.split('=') for t in l.split(':', 1)[1].split())
            seen += 1
            for k, v in want.items():
                n_eval += 1
                if got.get(k) != str(v):
                    fails.append({'what': '%s on rank %d of a %s communicator of %d ranks (world rank %d of %d) returned %s, the fold over that communicator\'s inputs gives %s' % (
                                      k, crank, 'reversed' if sc == 0 else 'split', m, wr, n, got.get(k), v), 'cmd': r['cmd']})
        if seen != 2 * n:
            fails.append({'what': 'subcoll reported %d of %d lines on %d ranks' % (seen, 2 * n, n), 'cmd': r['cmd']})
    return n_eval, fails

def run(tier, seed, replay=None):
    sizes = list(range(1, 10)) if tier == 'quick' else list(range(1, 18)) + [24, 31, 32, 33]
    def tie(res):
        n_eval, nsizes, fails, samples = explore(seed, sizes)
        n_sub, sub_fails = subcomm_collectives(seed, tier)
        n_eval += n_sub
        fails = list(fails) + sub_fails
        return {'ok': True, 'msg': None, 'failures': fails, 'validated': n_eval, 'evaluations': n_eval, 'nontrivial': nsizes,
                'rule': 'communicator sizes %s (powers of two and not) under simmpi; every collective on every rank, every root for bcast; inputs from the seed; distinct sizes counted' % sizes,
                'samples': samples or [{'sizes': sizes}],
                'tie': 'T: Gen_tree.v (child/parent indices) regenerated from comm.ipp and re-proved; D: every collective of the real library compared with the sequential fold on every rank; the merge order of the real tree (non-commutative concatenation) compared with Tree.tree_all_reduce evaluated in Coq, the model C09_tree_reduce_is_fold is about',
                'replay': 'simmpi/simrun -n <size> -- collectives <seed>'}
    def search():
        return explore(seed + 5, list(range(1, 25)))[2]
    return run_check('C09', tier, seed, 'Properties_C09.v', ['Gen_tree'], tie, search,
                     trusted=['the reductions performed inside MPI (MPI_Allreduce / Exscan / Bcast) are an oracle: simmpi implements them; the check compares end results',
                              'tools/cxx2coq.py + CArith.v for the tree indices', 'exactly-once coverage of the tree is computed in Coq for sizes <= 64 (Example), the spanning/injectivity facts are theorems'],
                     assumptions=['associative-commutative merge for the tree all_reduce'])
